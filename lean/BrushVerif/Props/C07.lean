import BrushVerif.Proofs.Arith
import BrushVerif.Proofs.ArithAlias
import BrushVerif.Gen.ArithLevels
set_option linter.unusedSimpArgs false
/-!
# C07 — arithmetic evaluates as bash's wrapping 64-bit C-style integer arithmetic

Theorems over `Model/Arith.lean` (mirror of `brush-core/src/arithmetic.rs`), `Model/ArithParse.lean`
(mirror of the `peg` precedence climbing that `brush-parser/src/arithmetic.rs` expands to) and
`Gen/ArithLevels.lean` (the `precedence!{}` table, regenerated from the Rust source on every run).
The evaluator theorems hold for **every** parser `P` used to re-read variable contents, every
environment, every dereference depth and every expression.
-/
namespace BrushVerif.C07
open BrushVerif.Wire BrushVerif.Arith BrushVerif.ArithSpec

/-- a small parser for the non-vacuity examples and witnesses: the empty string and decimal numbers -/
def numP (s : Str) : Option Expr :=
  if s = [] then some (.lit 0) else (parseNat? s).map (fun n => .lit (Int64.ofNat n))

private theorem evalLit (d : Nat) (env : Env) (n : Int64) : eval numP d env (.lit n) = (env, .ok n) := by rw [eval]

/-! ## 1. the operators are C's, on wrapping signed 64-bit integers -/

/-- **Wrapping power.** brush's square-and-multiply loop over a 64-bit exponent computes repeated
wrapping multiplication, for every base and every exponent below 2^64. -/
theorem wpow_eq_repeated_mul (b : Int64) (e : Nat) (h : e < 2 ^ 64) : wpow b e = spow b e :=
  wpow_spec b e h

example : wpow 3 64 = spow 3 64 := wpow_eq_repeated_mul 3 64 (by decide)

/-- **Every arithmetic, comparison and logical operator refines C.** The 64-bit result equals the
mathematical result on the integers, wrapped to 64 bits; division truncates, the remainder has the
dividend's sign, `i64::MIN / -1` wraps, and the errors are exactly division by zero and a negative
exponent. -/
theorem binop_refines_c (op : BinOp) (a b : Int64) (r : Except Err Int)
    (h : cBin op a.toInt b.toInt = some r) :
    applyBin op a b = toRes r := by
  cases op <;> simp only [cBin, Option.some.injEq, reduceCtorEq] at h <;> subst h <;> simp only [applyBin, toRes]
  -- comma
  · simp [Int64.ofInt_toInt]
  -- lor
  · rw [ofInt_ofBool]; congr 1
    simp only [eq_zero_iff_toInt, ne_eq, Bool.decide_or, decide_not]
  -- land
  · rw [ofInt_ofBool]; congr 1
    simp only [eq_zero_iff_toInt, ne_eq, Bool.decide_and, decide_not]
  -- eq
  · rw [ofInt_ofBool]; congr 2; simp [← Int64.toInt_inj]
  -- ne
  · rw [ofInt_ofBool]; congr 2; simp [← Int64.toInt_inj]
  -- lt
  · rw [ofInt_ofBool]; congr 2; simp [Int64.lt_iff_toInt_lt]
  -- gt
  · rw [ofInt_ofBool]; congr 2; simp [GT.gt, Int64.lt_iff_toInt_lt]
  -- le
  · rw [ofInt_ofBool]; congr 2; simp [Int64.le_iff_toInt_le]
  -- ge
  · rw [ofInt_ofBool]; congr 2; simp [GE.ge, Int64.le_iff_toInt_le]
  -- add
  · rw [ofInt_wrap_eq _ (a + b) (Int64.toInt_add a b)]
  -- sub
  · rw [ofInt_wrap_eq _ (a - b) (Int64.toInt_sub a b)]
  -- mul
  · rw [ofInt_wrap_eq _ (a * b) (Int64.toInt_mul a b)]
  -- mod
  · by_cases hb : b = 0
    · simp [hb]
    · have : ¬ b.toInt = 0 := fun h0 => hb ((eq_zero_iff_toInt b).mpr h0)
      simp only [hb, this, if_false]
      rw [ofInt_of_toInt_eq _ (a % b) (Int64.toInt_mod a b)]
  -- div
  · by_cases hb : b = 0
    · simp [hb]
    · have : ¬ b.toInt = 0 := fun h0 => hb ((eq_zero_iff_toInt b).mpr h0)
      simp only [hb, this, if_false]
      rw [ofInt_wrap_eq _ (a / b) (Int64.toInt_div a b)]
  -- pow
  · by_cases hb : b ≥ 0
    · have h1 : ¬ b.toInt < 0 := by have := (nonneg_iff_toInt b).mp hb; omega
      simp only [hb, h1, if_true, if_false]
      have hlt : b.toInt.toNat < 2 ^ 64 := by have := Int64.toInt_lt b; omega
      rw [wpow_spec _ _ hlt, ofInt_of_toInt_eq _ (spow a b.toInt.toNat) (spow_toInt a _)]
    · have h1 : b.toInt < 0 := by
        have h2 : ¬ b.toInt ≥ 0 := fun h => hb ((nonneg_iff_toInt b).mpr h)
        omega
      simp [hb, h1]


example : applyBin .div Int64.minValue (-1) = .ok Int64.minValue := by decide
example : applyBin .mod Int64.minValue (-1) = .ok 0 := by decide

/-- **The bitwise operators and shifts refine C on two's complement**: `& | ^` act bit by bit, `<<`
shifts in zeros, `>>` is arithmetic, and the shift count is the right operand's low 6 bits — so
`1 << 64 = 1`, `1 << -1 = i64::MIN`, never undefined behaviour.  Together with `binop_refines_c`
this covers all 20 binary operators. -/
theorem bitop_refines_c (op : BinOp) (a b : Int64) (r : BitVec 64)
    (h : cBits op a.toBitVec b.toBitVec = some r) : applyBin op a b = .ok (Int64.ofBitVec r) := by
  cases op <;> simp only [cBits, Option.some.injEq, reduceCtorEq] at h <;> subst h <;> simp only [applyBin]
  · rfl
  · rfl
  · rfl
  · congr 1; apply Int64.toBitVec_inj.mp; rw [shl_spec]; rfl
  · congr 1; apply Int64.toBitVec_inj.mp; rw [shr_spec]; rfl

example : applyBin .shl 1 64 = .ok 1 ∧ applyBin .shl 1 (-1) = .ok Int64.minValue ∧ applyBin .shr (-8) 65 = .ok (-4) := by decide

/-- every binary operator is covered by exactly one of the two specifications -/
theorem spec_covers_all_operators (op : BinOp) (x y : Int) (u v : BitVec 64) :
    (cBin op x y).isSome ≠ (cBits op u v).isSome := by
  cases op <;> simp [cBin, cBits]

/-- The unary operators refine C as well (`-i64::MIN` wraps to itself). -/
theorem unop_refines_c (op : UnOp) (x : Int64) : applyUn op x = Int64.ofInt (cUn op x.toInt) := by
  cases op <;> simp only [applyUn, cUn]
  · rw [Int64.ofInt_toInt]
  · rw [ofInt_wrap_eq _ (-x) (Int64.toInt_neg x)]
  · rw [ofInt_wrap_eq _ (~~~x) (Int64.toInt_not x)]
  · rw [ofInt_ofBool]; congr 1; simp [← Int64.toInt_inj]

example : applyUn .minus Int64.minValue = Int64.minValue := by decide

/-- **The operators are total, and the errors are exactly the declared ones**: for every operator
and every pair of 64-bit operands (`i64::MIN / -1`, `i64::MIN % -1`, shift counts ≥ 64 or negative,
huge exponents included) the result is a value, except division/remainder by zero and a negative
exponent. -/
theorem applyBin_error_iff (op : BinOp) (a b : Int64) (e : Err) :
    applyBin op a b = .err e ↔
      ((op = .div ∨ op = .mod) ∧ b = 0 ∧ e = .divZero) ∨ (op = .pow ∧ b < 0 ∧ e = .negExp) := by
  have hneg : ¬ b ≥ 0 ↔ b < 0 := by
    rw [nonneg_iff_toInt, Int64.lt_iff_toInt_lt]; simp
  cases op <;> simp only [applyBin, reduceCtorEq, false_and, and_false, or_false, false_or, true_and, or_true, true_or]
  case div => by_cases hb : b = 0 <;> simp [hb, eq_comm]
  case mod => by_cases hb : b = 0 <;> simp [hb, eq_comm]
  case pow =>
    by_cases hb : b ≥ 0
    · have : ¬ b < 0 := fun h => (hneg.mpr h) hb
      simp [hb, this]
    · have : b < 0 := hneg.mp hb
      simp [hb, this, eq_comm]

example : applyBin .div 7 0 = .err .divZero := by decide
example : applyBin .pow 2 (-1) = .err .negExp := by decide
example : applyBin .shl 1 64 = .ok 1 := by decide
example : applyBin .shl 1 (-1) = .ok Int64.minValue := by decide
example : applyBin .shr (-8) 65 = .ok (-4) := by decide

/-! ## 2. evaluation order, short circuit, laziness -/

/-- **`&&` short-circuits**: when the left side is 0 the right side is not evaluated at all — whatever
it is (an assignment, a division by zero, …) the environment is the one the left side produced. -/
theorem and_short_circuit (P : Str → Option Expr) (d : Nat) (env env1 : Env) (l r : Expr)
    (h : eval P d env l = (env1, .ok 0)) : eval P d env (.bin .land l r) = (env1, .ok 0) := by
  rw [eval, h]; simp [shortCut]

/-- **`||` short-circuits** on a non-zero left side, yielding 1. -/
theorem or_short_circuit (P : Str → Option Expr) (d : Nat) (env env1 : Env) (l r : Expr) (a : Int64)
    (h : eval P d env l = (env1, .ok a)) (ha : a ≠ 0) : eval P d env (.bin .lor l r) = (env1, .ok 1) := by
  rw [eval, h]; simp [shortCut, ha]

example : eval numP 0 [] (.bin .lor (.lit 3) (.bin .div (.lit 1) (.lit 0))) = ([], .ok 1) :=
  or_short_circuit numP 0 [] [] _ _ 3 (evalLit _ _ _) (by decide)

example : eval (fun _ => none) 0 [] (.bin .land (.lit 0) (.bin .div (.lit 1) (.lit 0))) = ([], .ok 0) :=
  and_short_circuit _ 0 [] [] _ _ (by rw [eval])

/-- **`?:` evaluates exactly one branch**, in the environment the condition left. -/
theorem cond_evaluates_one_branch (P : Str → Option Expr) (d : Nat) (env env1 : Env) (c t f : Expr) (a : Int64)
    (h : eval P d env c = (env1, .ok a)) :
    eval P d env (.cond c t f) = if a ≠ 0 then eval P d env1 t else eval P d env1 f := by
  rw [eval, h]

example : eval numP 0 [] (.cond (.lit 0) (.bin .div (.lit 1) (.lit 0)) (.lit 6)) = ([], .ok 6) := by
  rw [cond_evaluates_one_branch numP 0 [] [] _ _ _ 0 (evalLit _ _ _)]; simp [evalLit]

/-- **Left to right.** A binary operator that does not short-circuit evaluates its left operand, then
its right operand in the environment the left one produced, then applies the operator. -/
theorem binop_left_to_right (P : Str → Option Expr) (d : Nat) (env env1 env2 : Env) (op : BinOp) (l r : Expr)
    (a b : Int64) (hl : eval P d env l = (env1, .ok a)) (hs : shortCut op a = none)
    (hr : eval P d env1 r = (env2, .ok b)) :
    eval P d env (.bin op l r) = (env2, applyBin op a b) := by
  rw [eval, hl]; simp only [hs]; rw [hr]

example : eval numP 0 [] (.bin .sub (.lit Int64.minValue) (.lit 1)) = ([], .ok Int64.maxValue) := by
  rw [binop_left_to_right numP 0 [] [] [] .sub _ _ Int64.minValue 1 (evalLit _ _ _) rfl (evalLit _ _ _)]; decide

/-- An error in the left operand is the result; the right operand is not evaluated and the side
effects made before the error stay. -/
theorem error_propagates_left (P : Str → Option Expr) (d : Nat) (env env1 : Env) (op : BinOp) (l r : Expr) (e : Err)
    (hl : eval P d env l = (env1, .err e)) : eval P d env (.bin op l r) = (env1, .err e) := by
  rw [eval, hl]

/-- **Division by zero is a reported error** — never a crash, never a value — for every dividend
expression and every divisor expression that evaluates to 0. -/
theorem div_zero_is_error (P : Str → Option Expr) (d : Nat) (env env1 env2 : Env) (l r : Expr) (a : Int64)
    (hl : eval P d env l = (env1, .ok a)) (hr : eval P d env1 r = (env2, .ok 0)) :
    eval P d env (.bin .div l r) = (env2, .err .divZero) ∧ eval P d env (.bin .mod l r) = (env2, .err .divZero) := by
  constructor
  · rw [binop_left_to_right P d env env1 env2 .div l r a 0 hl rfl hr]; simp [applyBin]
  · rw [binop_left_to_right P d env env1 env2 .mod l r a 0 hl rfl hr]; simp [applyBin]

example : eval numP 0 [] (.bin .div (.lit 7) (.lit 0)) = ([], .err .divZero) :=
  (div_zero_is_error numP 0 [] [] [] _ _ 7 (evalLit _ _ _) (evalLit _ _ _)).1

example : eval numP 0 [] (.bin .add (.bin .div (.lit 7) (.lit 0)) (.lit 2)) = ([], .err .divZero) :=
  error_propagates_left numP 0 [] [] .add _ _ _
    (div_zero_is_error numP 0 [] [] [] _ _ 7 (evalLit _ _ _) (evalLit _ _ _)).1

/-- **A negative exponent is a reported error.** -/
theorem neg_exponent_is_error (P : Str → Option Expr) (d : Nat) (env env1 env2 : Env) (l r : Expr) (a b : Int64)
    (hl : eval P d env l = (env1, .ok a)) (hr : eval P d env1 r = (env2, .ok b)) (hb : b < 0) :
    eval P d env (.bin .pow l r) = (env2, .err .negExp) := by
  rw [binop_left_to_right P d env env1 env2 .pow l r a b hl rfl hr]
  exact congrArg _ ((applyBin_error_iff .pow a b .negExp).mpr (Or.inr ⟨rfl, hb, rfl⟩))

example : eval numP 0 [] (.bin .pow (.lit 2) (.lit (-1))) = ([], .err .negExp) :=
  neg_exponent_is_error numP 0 [] [] [] _ _ 2 (-1) (evalLit _ _ _) (evalLit _ _ _) (by decide)

/-! ## 3. assignment -/

/-- resolving a target whose subscript is already a literal is pure -/
theorem resolve_toTarget (P : Str → Option Expr) (d : Nat) (env : Env) (rt : RT) :
    resolve P d env rt.toTarget = (env, .ok rt) := by
  cases rt with
  | var n => simp only [RT.toTarget]; rw [resolve]
  | elem n i => simp only [RT.toTarget]; rw [resolve, eval]

/-- **`lv op= e` is `lv = lv op e` with the subscript of `lv` evaluated once** — for every operator,
every lvalue (array elements included) and every right-hand side, value and final environment alike. -/
theorem opassign_is_assign_of_binop (P : Str → Option Expr) (d : Nat) (env : Env) (op : BinOp) (t : Target) (r : Expr) :
    eval P d env (.opAssign op t r) =
      (match resolve P d env t with
       | (env0, .ok rt) => eval P d env0 (.assign rt.toTarget (.bin op (.ref rt.toTarget) r))
       | (env0, .error er) => (env0, .err er)) := by
  rw [eval.eq_def P d env (.opAssign op t r)]
  simp only
  rcases hres : resolve P d env t with ⟨env0, rr⟩
  cases rr with
  | error er => rfl
  | ok rt =>
    simp only
    rw [eval.eq_def P d env0 (.assign rt.toTarget (.bin op (.ref rt.toTarget) r))]
    simp only
    rw [eval.eq_def P d env0 (.bin op (.ref rt.toTarget) r)]
    simp only
    rw [eval.eq_def P d env0 (.ref rt.toTarget)]
    simp only [resolve_toTarget]
    rcases hd : derefR P d env0 rt with ⟨env1, ra⟩
    cases ra with
    | err e => rfl
    | ok a =>
      simp only
      cases hs : shortCut op a with
      | some v => rfl
      | none =>
        simp only
        rcases hr : eval P d env1 r with ⟨env2, rb⟩
        cases rb with
        | err e => rfl
        | ok b =>
          simp only
          cases applyBin op a b <;> rfl

/-- for a plain variable this is literally `x = x op e` -/
theorem opassign_var_is_assign_of_binop (P : Str → Option Expr) (d : Nat) (env : Env) (op : BinOp) (n : Str) (r : Expr) :
    eval P d env (.opAssign op (.var n) r) = eval P d env (.assign (.var n) (.bin op (.ref (.var n)) r)) := by
  rw [opassign_is_assign_of_binop, resolve]; rfl

example : eval numP 0 [] (.opAssign .add (.var ['x']) (.lit 5)) =
    eval numP 0 [] (.assign (.var ['x']) (.bin .add (.ref (.var ['x'])) (.lit 5))) :=
  opassign_var_is_assign_of_binop numP 0 [] .add _ _

/-- bash: `name[idx] op= r` evaluates the subscript once and reads and writes that one element. -/
def opAssignElemOnce (P : Str → Option Expr) (d : Nat) (env : Env) (op : BinOp) (n : Str) (idx r : Expr) : Env × Res :=
  match eval P d env idx with
  | (env1, .ok i) => eval P d env1 (.opAssign op (.elem n (.lit i)) r)
  | q => q

/-- **Compound assignment to an array element evaluates its subscript exactly once**
(`A[i++] += v` increments `i` once and reads and writes the same element). -/
theorem subscript_evaluated_once (P : Str → Option Expr) (d : Nat) (env : Env) (op : BinOp) (n : Str) (idx r : Expr) :
    eval P d env (.opAssign op (.elem n idx) r) = opAssignElemOnce P d env op n idx r := by
  unfold opAssignElemOnce
  rw [eval.eq_def P d env (.opAssign op (.elem n idx) r)]
  simp only
  rw [resolve]
  rcases hi : eval P d env idx with ⟨env1, ri⟩
  cases ri with
  | err e => rfl
  | ok i =>
    simp only
    rw [eval.eq_def P d env1 (.opAssign op (.elem n (.lit i)) r)]
    simp only
    rw [show resolve P d env1 (.elem n (.lit i)) = (env1, .ok (.elem n i)) from resolve_toTarget P d env1 (.elem n i)]

/-- … and so do `++`/`--` on an array element. -/
theorem incdec_subscript_evaluated_once (P : Str → Option Expr) (d : Nat) (env : Env) (op : IncOp) (n : Str) (idx : Expr) :
    eval P d env (.incDec op (.elem n idx)) =
      (match eval P d env idx with
       | (env1, .ok i) => eval P d env1 (.incDec op (.elem n (.lit i)))
       | q => q) := by
  rw [eval.eq_def P d env (.incDec op (.elem n idx))]
  simp only
  rw [resolve]
  rcases hi : eval P d env idx with ⟨env1, ri⟩
  cases ri with
  | err e => rfl
  | ok i =>
    simp only
    rw [eval.eq_def P d env1 (.incDec op (.elem n (.lit i)))]
    simp only
    rw [show resolve P d env1 (.elem n (.lit i)) = (env1, .ok (.elem n i)) from resolve_toTarget P d env1 (.elem n i)]

/-- `A[x++] += 5` with `x=0`: `x` ends as 1 and the write goes to `A[0]` (as in bash). -/
example : eval numP 0 [(['x'], .scalar ['0'])] (.opAssign .add (.elem ['A'] (.incDec .postInc (.var ['x']))) (.lit 5)) =
    ([(['x'], .scalar ['1']), (['A'], .arr [(0, ['5'])])], .ok 5) := by
  have h1 : eval numP 0 [(['x'], .scalar ['0'])] (.incDec .postInc (.var ['x'])) = ([(['x'], .scalar ['1'])], .ok 0) := by
    simp only [eval, resolve, derefR, derefStr, assignR]; decide
  rw [subscript_evaluated_once]; unfold opAssignElemOnce; rw [h1]
  simp only [eval, resolve, derefR, derefStr, assignR, shortCut]
  decide

/-- **A variable assigned by `=` ends with the assigned value**, which is also the value of the
expression; no other variable changes. -/
theorem assign_var_stores_value (P : Str → Option Expr) (d : Nat) (env env1 : Env) (n : Str) (r : Expr) (v : Int64)
    (h : eval P d env r = (env1, .ok v)) :
    eval P d env (.assign (.var n) r) = (setVar env1 n v, .ok v) ∧
    varStr (setVar env1 n v) n = showInt v ∧
    ∀ m, m ≠ n → varStr (setVar env1 n v) m = varStr env1 m := by
  refine ⟨?_, varStr_setVar_same _ _ _, fun m hm => varStr_setVar_other _ _ _ _ hm⟩
  rw [eval, h]; simp only; rw [resolve]; rfl

example : eval numP 0 [] (.assign (.var ['x']) (.lit 5)) = (setVar [] ['x'] 5, .ok 5) :=
  (assign_var_stores_value numP 0 [] [] ['x'] _ 5 (evalLit _ _ _)).1

/-- **`++`/`--`**: the prefix forms yield the new value, the postfix forms the old one, and the
variable ends with old ± 1 (wrapping) in all four. -/
theorem incdec_values (P : Str → Option Expr) (d : Nat) (env env1 : Env) (op : IncOp) (n : Str) (v : Int64)
    (h : deref P d env (.var n) = (env1, .ok v)) :
    eval P d env (.incDec op (.var n)) = (setVar env1 n (incNew op v), .ok (incRet op v)) ∧
    varStr (setVar env1 n (incNew op v)) n = showInt (incNew op v) := by
  refine ⟨?_, varStr_setVar_same _ _ _⟩
  unfold deref at h
  rw [resolve] at h
  simp only at h
  rw [eval, resolve]; simp only; rw [h]; rfl

example : incNew .postInc Int64.maxValue = Int64.minValue ∧ incRet .postInc Int64.maxValue = Int64.maxValue := by decide

private theorem derefX41 : deref numP 0 [(['x'], .scalar ['4', '1'])] (.var ['x']) = ([(['x'], .scalar ['4', '1'])], .ok 41) := by
  unfold deref; rw [resolve]; simp only; rw [derefR, derefStr]; decide

example : eval numP 0 [(['x'], .scalar ['4', '1'])] (.incDec .postInc (.var ['x'])) =
    (setVar [(['x'], .scalar ['4', '1'])] ['x'] 42, .ok 41) :=
  (incdec_values numP 0 _ _ .postInc ['x'] 41 derefX41).1

/-! ## 4. recursive evaluation of variable contents -/

/-- A variable whose contents parse to a literal has that value at any depth (literals do not count
towards the recursion limit). -/
theorem deref_literal (P : Str → Option Expr) (d : Nat) (env : Env) (s : Str) (n : Int64) (h : P s = some (.lit n)) :
    derefStr P d env s = (env, .ok n) := by
  rw [derefStr, h]

example : derefStr numP 1024 [] ['7'] = ([], .ok 7) := deref_literal numP 1024 [] ['7'] 7 (by decide)

/-- Contents that are an expression are evaluated one level deeper … -/
theorem deref_expression (P : Str → Option Expr) (d : Nat) (env : Env) (s : Str) (e : Expr)
    (h : P s = some e) (hl : ∀ n, e ≠ .lit n) (hd : d < maxDepth) :
    derefStr P d env s = eval P (d + 1) env e := by
  rw [derefStr, h]
  cases e with
  | lit n => exact absurd rfl (hl n)
  | _ => simp only; rw [dif_neg (by omega)]

/-- … and the 1025th level is the reported error "expression recursion level exceeded" (so a cycle
such as `x=x` terminates with an error; that evaluation terminates at all is the termination proof
Lean required for `eval`). -/
theorem deref_recursion_limit (P : Str → Option Expr) (d : Nat) (env : Env) (s : Str) (e : Expr)
    (h : P s = some e) (hl : ∀ n, e ≠ .lit n) (hd : maxDepth ≤ d) :
    derefStr P d env s = (env, .err .recursion) := by
  rw [derefStr, h]
  cases e with
  | lit n => exact absurd rfl (hl n)
  | _ => simp only; rw [dif_pos (by omega)]

/-- a parser under which `x` names itself: the cycle `x=x` -/
private def selfP (_ : Str) : Option Expr := some (.ref (.var ['x']))

example : derefStr selfP 1024 [] ['x'] = ([], .err .recursion) :=
  deref_recursion_limit selfP 1024 [] ['x'] _ rfl (fun _ h => by cases h) (by decide)

example : derefStr selfP 3 [] ['x'] = eval selfP 4 [] (.ref (.var ['x'])) :=
  deref_expression selfP 3 [] ['x'] _ rfl (fun _ h => by cases h) (by decide)

/-- Contents that do not parse are the reported error. -/
theorem deref_malformed (P : Str → Option Expr) (d : Nat) (env : Env) (s : Str) (h : P s = none) :
    derefStr P d env s = (env, .err .parse) := by
  rw [derefStr, h]

example : derefStr numP 0 [] ['1', '+'] = ([], .err .parse) := deref_malformed numP 0 [] _ (by decide)


/-! ## 5. the grammar: precedence and associativity (table regenerated from the Rust source) -/

open BrushVerif.Gen

/-- **The operator table of the grammar is C's / bash's**: same levels in the same order, same
operators per level, same associativity, assignment between `,` and `?:`.  Swapping two levels,
moving an operator or flipping an associativity in `arithmetic.rs` makes this fail on the next run. -/
theorem levels_eq_c_table : operatorView arithLevels = cTable := by decide

/-- Every unary and increment/decrement rule sits above every binary operator. -/
theorem unary_rules_above_infix :
    ∀ pe ∈ withPrec arithLevels, pe.2.isUnary = true → infixTop arithLevels ≤ pe.1 := by decide

/-- **Unary operators bind tighter than every binary operator, and their mutual order is
immaterial**: at any minimum level above the last binary level — in particular the levels of `! ~`
(one below unary `+ -` in the table, unlike C) — an operand is parsed identically, so `-!1`,
`!-1`, `~-x` mean what they mean in C. -/
theorem prefix_level_irrelevant (f m1 m2 : Nat) (s : Str)
    (h1 : infixTop arithLevels ≤ m1) (h2 : infixTop arithLevels ≤ m2) :
    parseInfix arithLevels f m1 s = parseInfix arithLevels f m2 s := by
  have key : ∀ m, infixTop arithLevels ≤ m → postsFrom arithLevels m = [] := by
    intro m hm
    apply postsFrom_nil_of_ge
    have : ∀ pe ∈ withPrec arithLevels, pe.2.isInfix = true → pe.1 < infixTop arithLevels := by decide
    intro pe hpe hi
    exact Nat.lt_of_lt_of_le (this pe hpe hi) hm
  exact parseInfix_congr _ _ _ _ _ (by rw [key m1 h1, key m2 h2])

example : parseInfix arithLevels 9 14 "-!1".toList = parseInfix arithLevels 9 15 "-!1".toList :=
  prefix_level_irrelevant 9 14 15 _ (by decide) (by decide)

example : infixTop arithLevels = 14 := by decide

/-! ## 6. literals -/

/-- **`base#digits` wraps like bash**: for every base and every digit string of any length, the
64-bit value brush computes is the mathematical value of the digits reduced modulo 2^64. -/
theorem radix_literal_wraps (radix : Nat) (ds : Str) :
    parseShellLiteral ds radix =
      if 2 ≤ radix ∧ radix ≤ 64 then (radixNat (radixDigit radix) radix ds 0).map Int64.ofNat else none := by
  unfold parseShellLiteral
  by_cases h : 2 ≤ radix ∧ radix ≤ 64
  · have := radixLoop_refines radix ds 0
    simp only [h.1, h.2, decide_true, Bool.and_self, if_true, and_self]
    simpa using this
  · have : (decide (2 ≤ radix) && decide (radix ≤ 64)) = false := by
      simp only [Bool.and_eq_false_iff, decide_eq_false_iff_not]
      by_cases h2 : 2 ≤ radix
      · exact Or.inr (fun h3 => h ⟨h2, h3⟩)
      · exact Or.inl h2
    simp [this, h]

example : parseShellLiteral "8000000000000000".toList 16 = some Int64.minValue := by decide


/-- **Hexadecimal literals wrap like bash, and a bare `0x` is 0**: for every string of hexadecimal
digits (of any length, the empty one included) the literal is the base-16 value of the digits reduced
modulo 2^64 — the same accumulation as `base#digits` (`radix_literal_wraps`), never an overflow failure. -/
theorem hex_literal_wraps (ds : Str) (hhex : ∀ c ∈ ds, isHexDigit c = true) :
    ∃ v, radixNat (radixDigit 16) 16 ds 0 = some v ∧
      parseLiteral ('0' :: 'x' :: ds) = some (Int64.ofNat v, []) := by
  obtain ⟨v, hv⟩ := radixNat_hex_some ds hhex 0
  refine ⟨v, hv, ?_⟩
  have ht : ds.takeWhile isHexDigit = ds := takeWhile_all _ _ hhex
  have hd : ds.dropWhile isHexDigit = [] := dropWhile_all _ _ hhex
  have hdec : parseDecimal ('0' :: 'x' :: ds) = none := by
    simp [parseDecimal]
  have hr : parseShellLiteral ds 16 = some (Int64.ofNat v) := by
    rw [radix_literal_wraps 16 ds, hv]; simp
  simp [parseLiteral, hdec, ht, hd, hr]

example : parseLiteral "0x8000000000000000".toList = some (Int64.minValue, []) := by decide
example : parseLiteral "0xFFFFFFFFFFFFFFFF".toList = some (-1, []) := by decide
example : parseLiteral "0x".toList = some (0, []) := by decide
example : parseLiteral "18446744073709551616".toList = some (0, []) := by decide
example : parseLiteral "01000000000000000000000".toList = some (Int64.minValue, []) := by decide
example : parseLiteral "08".toList = none := by decide

/-! ## 7. recorded divergences from bash (each a known-finding clause of the check) -/

/-- **An expression consisting only of blanks is 0** (so are blank variable contents), whatever the
operator table. -/
theorem blank_is_zero (tb : Table) (s : Str) (h : ∀ c ∈ s, isWs c = true) : parse tb s = some (.lit 0) := by
  unfold parse skipWs
  rw [dropWhile_all _ _ h]; rfl

example : parse arithLevels " \t ".toList = some (.lit 0) := blank_is_zero _ _ (by decide)

/-- **A doubled sign is a pre-increment/pre-decrement only in front of a variable name**; before
anything else (`--1`, `++(x)`, `---x`) it is two unary signs, as in bash. -/
theorem double_sign_reads_two_signs :
    parse arithLevels "--1".toList = some (.un .minus (.un .minus (.lit 1))) ∧
    parse arithLevels "++(x)".toList = some (.un .plus (.un .plus (.ref (.var ['x'])))) ∧
    parse arithLevels "-- x".toList = some (.incDec .preDec (.var ['x'])) ∧
    parse arithLevels "---x".toList = some (.un .minus (.incDec .preDec (.var ['x']))) := by decide

/-- An assignment is accepted as the right operand of any operator: `1+x=5` gets the tree of
`1+(x=5)` (bash: "attempted assignment to non-variable"). -/
theorem assignment_as_operand_cex :
    parse arithLevels "1+x=5".toList = some (.bin .add (.lit 1) (.assign (.var ['x']) (.lit 5))) := by decide

/-- Blanks next to a subscript's brackets are accepted (`A[ 1 ]` is `A[1]`). -/
theorem subscript_blank_accepted :
    parse arithLevels "A[ 1 ]".toList = some (.ref (.elem ['A'] (.lit 1))) ∧
    parse arithLevels "A[1\t]=5".toList = some (.assign (.elem ['A'] (.lit 1)) (.lit 5)) := by decide

/-! ## 8. independence from the execution context

Where an expression is evaluated (top level, a function whose locals hide globals, two functions deep,
a subshell, `eval`, a trap handler, …) changes only *which bindings are visible*.  In the model the
visible bindings are what `Env.get` returns (an inner scope is a prefix of the association list). -/

/-- **Evaluation reads and writes only the visible bindings.**  Two environments that show the same
bindings — whatever they hide underneath (a global shadowed by a local, a caller's variable shadowed
by the callee's) — give the same value or error, and afterwards again show the same bindings; for
every parser, depth and expression. -/
theorem eval_depends_on_visible_bindings_only (P : Str → Option Expr) (d : Nat) (env env' : Env) (e : Expr)
    (h : Eqv env env') :
    (eval P d env e).2 = (eval P d env' e).2 ∧ Eqv (eval P d env e).1 (eval P d env' e).1 :=
  (eval_visible_all P).1 d env e env' h

/-- **What a function's locals hide does not matter**: under the same locals, two global scopes that
agree on every name the locals do not bind give the same result. -/
theorem hidden_bindings_do_not_matter (P : Str → Option Expr) (d : Nat) (loc g1 g2 : Env) (e : Expr)
    (hg : ∀ n, loc.get n = none → g1.get n = g2.get n) :
    (eval P d (loc ++ g1) e).2 = (eval P d (loc ++ g2) e).2 ∧
    Eqv (eval P d (loc ++ g1) e).1 (eval P d (loc ++ g2) e).1 := by
  apply eval_depends_on_visible_bindings_only
  intro n
  rw [Env.get_append, Env.get_append]
  cases hl : Env.get loc n with
  | some v => rfl
  | none => exact hg n hl

/-- a local `x=5` hiding a global `x=77` or a global `x=99`: `x * 2` is 10 either way -/
example : (eval numP 0 ([(['x'], .scalar ['5'])] ++ [(['x'], .scalar ['7', '7'])]) (.bin .mul (.ref (.var ['x'])) (.lit 2))).2 =
    (eval numP 0 ([(['x'], .scalar ['5'])] ++ [(['x'], .scalar ['9', '9'])]) (.bin .mul (.ref (.var ['x'])) (.lit 2))).2 :=
  (hidden_bindings_do_not_matter numP 0 _ _ _ _ (by
    intro n hn
    simp only [Env.get, List.lookup] at hn ⊢
    cases hx : (n == ['x']) <;> simp_all)).1

/-- **Assignment through the environment updates the innermost binding of the name** and leaves the
binding it hides untouched (the local, not the global of the same name). -/
theorem assignment_updates_innermost_binding (loc g : Env) (n : Str) (v : Val) (h : loc.get n ≠ none) :
    Env.set (loc ++ g) n v = Env.set loc n v ++ g :=
  Env.set_append_of_bound loc g n v h

example : Env.set ([(['x'], .scalar ['5'])] ++ [(['x'], .scalar ['7', '7'])]) ['x'] (.scalar ['6']) =
    [(['x'], .scalar ['6']), (['x'], .scalar ['7', '7'])] := by decide

/-! ## 8. a bare name is element 0; a read sees the latest write through either alias

In bash (and in brush: `deref_lvalue`, `assign`) the bare name `a` of an array denotes `a[0]`.  Nothing may
be remembered across the two spellings inside one evaluation: `a + (a[0] = 9) + a` is 1 + 9 + 9. -/

/-- **A bare name reads element 0** — in every environment (the variable unset, a scalar or an array), for
every parser and depth: `a` and `a[0]` evaluate to the same value and leave the same environment. -/
theorem bare_name_is_element_zero (P : Str → Option Expr) (d : Nat) (env : Env) (n : Str) :
    eval P d env (.ref (.var n)) = eval P d env (.ref (.elem n (.lit 0))) := by
  rw [eval_ref_var, eval_ref_elem_lit, derefR_var_eq_elem0]

example : eval numP 0 [(['a'], .arr [(0, ['4', '1']), (1, ['7'])])] (.ref (.elem ['a'] (.lit 0))) =
    ([(['a'], .arr [(0, ['4', '1']), (1, ['7'])])], .ok 41) := by
  rw [← bare_name_is_element_zero, eval_ref_var, derefR, derefStr]; decide

/-- **A bare name is element 0 as an assignment target**: whenever the variable is an array at the moment of
the store (unbounded right-hand side `r`, which may itself assign), `a = r` and `a[0] = r` yield the same
value and the same environment.  (For a variable that is not an array the two differ in bash too: `x[0]=1`
makes `x` an array, `x=1` does not.) -/
theorem bare_name_is_element_zero_assign (P : Str → Option Expr) (d : Nat) (env : Env) (n : Str) (r : Expr)
    (h : ∀ env1 v, eval P d env r = (env1, .ok v) → isArr env1 n) :
    eval P d env (.assign (.var n) r) = eval P d env (.assign (.elem n (.lit 0)) r) := by
  cases hr : eval P d env r with
  | mk env1 res =>
    cases res with
    | ok v =>
      rw [eval_assign_var_ok P d env env1 n r v hr, eval_assign_elem_lit_ok P d env env1 n 0 r v hr]
      exact assignR_var_eq_elem0 env1 n v (h env1 v hr)
    | err e => rw [eval_assign_err P d env env1 _ r e hr, eval_assign_err P d env env1 _ r e hr]

example : eval numP 0 [(['a'], .arr [(0, ['1']), (1, ['2'])])] (.assign (.var ['a']) (.lit 9)) =
    eval numP 0 [(['a'], .arr [(0, ['1']), (1, ['2'])])] (.assign (.elem ['a'] (.lit 0)) (.lit 9)) :=
  bare_name_is_element_zero_assign numP 0 _ ['a'] (.lit 9)
    (fun env1 v h => by rw [evalLit] at h; cases h; exact ⟨_, rfl⟩)

/-- **… and as the target of `++`/`--`** (all four forms), for an array whose element 0 holds a plain number. -/
theorem bare_name_is_element_zero_incdec (P : Str → Option Expr) (d : Nat) (env : Env) (op : IncOp) (n : Str) (k : Int64)
    (ha : isArr env n) (hk : P (varStr env n) = some (.lit k)) :
    eval P d env (.incDec op (.var n)) = eval P d env (.incDec op (.elem n (.lit 0))) := by
  rw [eval_incDec_var, eval_incDec_elem_lit, ← derefR_var_eq_elem0, derefR_var_literal P d env n k hk]
  simp only
  rw [assignR_var_eq_elem0 env n _ ha]

/-- **A read sees the latest write, through either alias.**  After an assignment `t = r` with `t` spelled
`a` or `a[0]` has yielded `v` (any `r`, any environment), both `a` and `a[0]` read `v` and change nothing —
provided only that the parser reads the decimal rendering of `v` back as `v`. -/
theorem read_sees_latest_write (P : Str → Option Expr) (d : Nat) (env env1 : Env) (n : Str) (t : Target) (r : Expr) (v : Int64)
    (ht : t = .var n ∨ t = .elem n (.lit 0))
    (h : eval P d env (.assign t r) = (env1, .ok v))
    (hP : P (showInt v) = some (.lit v)) :
    eval P d env1 (.ref (.var n)) = (env1, .ok v) ∧ eval P d env1 (.ref (.elem n (.lit 0))) = (env1, .ok v) := by
  have key : varStr env1 n = showInt v := by
    cases hr : eval P d env r with
    | mk env0 res =>
      cases res with
      | err e =>
        rw [eval_assign_err P d env env0 t r e hr] at h
        cases h
      | ok w =>
        rcases ht with ht | ht
        · subst ht
          rw [eval_assign_var_ok P d env env0 n r w hr, (assignR_var env0 n w).1] at h
          cases h
          exact (assignR_var env0 n v).2
        · subst ht
          rw [eval_assign_elem_lit_ok P d env env0 n 0 r w hr] at h
          obtain ⟨env', h1, h2⟩ := assignR_elem0 env0 n w
          rw [h1] at h
          cases h
          exact h2
  have hv : eval P d env1 (.ref (.var n)) = (env1, .ok v) := by
    rw [eval_ref_var, derefR_var_literal P d env1 n v (by rw [key]; exact hP)]
  exact ⟨hv, by rw [← bare_name_is_element_zero]; exact hv⟩

/-- **… inside a larger expression**: `(t = r) op a` with `t` spelled `a` or `a[0]` computes `v op v` from the
value just stored (nothing of an earlier read of `a` survives the store). -/
theorem read_sees_latest_write_in_expr (P : Str → Option Expr) (d : Nat) (env env1 : Env) (n : Str) (t : Target) (r : Expr)
    (v : Int64) (op : BinOp)
    (ht : t = .var n ∨ t = .elem n (.lit 0))
    (h : eval P d env (.assign t r) = (env1, .ok v))
    (hP : P (showInt v) = some (.lit v)) (hs : shortCut op v = none) :
    eval P d env (.bin op (.assign t r) (.ref (.var n))) = (env1, applyBin op v v) ∧
    eval P d env (.bin op (.assign t r) (.ref (.elem n (.lit 0)))) = (env1, applyBin op v v) := by
  obtain ⟨h1, h2⟩ := read_sees_latest_write P d env env1 n t r v ht h hP
  constructor
  · rw [eval, h]; simp only [hs]; rw [h1]
  · rw [eval, h]; simp only [hs]; rw [h2]

private theorem assignA9 : eval numP 0 [(['a'], .arr [(0, ['1']), (1, ['2'])])] (.assign (.elem ['a'] (.lit 0)) (.lit 9)) =
    ([(['a'], .arr [(0, ['9']), (1, ['2'])])], .ok 9) := by
  rw [eval_assign_elem_lit_ok numP 0 _ _ ['a'] 0 (.lit 9) 9 (evalLit _ _ _)]; decide

/-- `a=(1 2); (a[0] = 9) + a` is 18 -/
example : eval numP 0 [(['a'], .arr [(0, ['1']), (1, ['2'])])]
      (.bin .add (.assign (.elem ['a'] (.lit 0)) (.lit 9)) (.ref (.var ['a']))) =
    ([(['a'], .arr [(0, ['9']), (1, ['2'])])], .ok 18) :=
  (read_sees_latest_write_in_expr numP 0 _ _ ['a'] _ (.lit 9) 9 .add (Or.inr rfl) assignA9 (by decide) (by decide)).1


end BrushVerif.C07
