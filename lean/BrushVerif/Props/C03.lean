import BrushVerif.Proofs.FlowRefine
import BrushVerif.Model.ParamOps
import BrushVerif.Proofs.Nounset
/-!
# C03 — `set -e` (errexit), its exempt contexts, `pipefail` and `inherit_errexit`

Property theorems over `Model/Flow.lean` (brush: the `suppress` flag handed down by `if`/`while`/
`until` conditions, non-final `&&`/`||` operands and `!`; the pipeline post-processing `post` that
turns a failure into `Flow.exit`) against `Spec/FlowBash.lean` (bash: `B.errexitCheck`).

Quantifiers: every program of the model's syntax, every function table, every start state, every
fuel (= every terminating run).  The refinement needs the scoping guard of C02 (`ws`/`okFuncs`);
the structural laws about exempt contexts need no guard beyond "no `exit` builtin in the exempt
code" (`noExit`), since an explicit `exit` of course leaves the shell wherever it stands.
-/
namespace BrushVerif.C03
open BrushVerif.Flow BrushVerif.FlowBash BrushVerif.FlowScope BrushVerif.FlowRefine

/-! ## 1. refinement of bash for programs that toggle options -/

/-- Every program inside the scoping guard — including `set -e`/`set +e`, `set -o pipefail`,
`shopt -s inherit_errexit`, command substitutions, `eval` and pipelines — whose brush run terminates
with trace `out.1` and exit status `out.2`: bash's run terminates with the same trace and status.
In particular brush exits by errexit exactly where bash does. -/
theorem errexit_refines_bash_partial (fuel : Nat) (fs : List Cmd) (main : Cmd)
    (out : List Tr × Nat) (hfs : okFuncs fs) (hws : ws 0 main = true)
    (h : Flow.runProgram fuel fs main = some out) :
    FlowBash.runProgram fuel fs main = some out := by
  unfold Flow.runProgram at h
  split at h
  · simp at h
  · rename_i s r he
    obtain ⟨e, _, l⟩ := (exec_refines fuel).1 fs false main {} s r 0 hfs hws he
    have e' : spec fuel fs false main { st := {} } = some (absB 0 s r.flow) := e
    simp only [FlowBash.runProgram, e']
    simp only [Option.some.injEq] at h
    rw [← h]
    simp [absB, l]

/-- non-vacuity: `set -e; if m1(→1); then m2; fi; m3(→1) || m4; ! m5(→1); f(){ m6(→1); m7; };
while f; do m8; done; v=$(m9(→1); m10); m11(→7); m12` — the failures of m1, m3, m5, m6 (in a function
called from a `while` condition) and m9 (errexit is off inside `$(…)`) are survived; m11 is not exempt:
the shell exits with status 7 and m12 never runs.  Same trace and status in bash's semantics. -/
example : let fs : List Cmd := [.seq (.cons (.leaf 6 [1]) (.cons (.leaf 7 [1]) .nil))]
    let main : Cmd := .seq (.cons (.setOpt .errexit true)
      (.cons (.if1 (.leaf 1 [1]) (.leaf 2 [0]))
      (.cons (.andOr (.leaf 3 [1]) (.cons false (.leaf 4 [0]) .nil))
      (.cons (.bang (.leaf 5 [1]))
      (.cons (.whileU false (.call 0) (.leaf 8 [0]))
      (.cons (.cmdsubst (.seq (.cons (.leaf 9 [1]) (.cons (.leaf 10 [0]) .nil))))
      (.cons (.leaf 11 [7])
      (.cons (.leaf 12 [0]) .nil))))))))
    okFuncs fs ∧ ws 0 main = true ∧
      Flow.runProgram 30 fs main =
        some ([.m 1, .m 3, .m 4, .m 5, .m 6, .m 7, .m 9, .m 10, .m 11], 7) ∧
      FlowBash.runProgram 30 fs main =
        some ([.m 1, .m 3, .m 4, .m 5, .m 6, .m 7, .m 9, .m 10, .m 11], 7) := by
  refine ⟨?_, by decide, by decide +kernel, by decide +kernel⟩
  intro body hb
  simp at hb
  subst hb
  decide

/-! ## 2. inside an exempt context no failure exits the shell -/

mutual
/-- the command contains no `exit` builtin -/
def noExit : Cmd → Bool
  | .leaf _ _ => true
  | .probe => true
  | .seq cs => noExitL cs
  | .andOr first rest => noExit first && noExitAO rest
  | .bang c => noExit c
  | .if1 cond thn => noExit cond && noExit thn
  | .if2 cond thn els => noExit cond && noExit thn && noExit els
  | .whileU _ cond body => noExit cond && noExit body
  | .forIn _ body => noExit body
  | .case arms => noExitArms arms
  | .group c => noExit c
  | .subshell c => noExit c
  | .call _ => true
  | .brk _ => true
  | .cont _ => true
  | .ret _ => true
  | .exit _ => false
  | .setOpt _ _ => true
  | .cmdsubst c => noExit c
  | .evalC c => noExit c
  | .pipe _ last => noExit last
  | .fault _ => true
  | .callT _ => true
def noExitL : Cmds → Bool
  | .nil => true
  | .cons c cs => noExit c && noExitL cs
def noExitAO : AOs → Bool
  | .nil => true
  | .cons _ c rest => noExit c && noExitAO rest
def noExitArms : Arms → Bool
  | .nil => true
  | .cons _ body _ rest => noExit body && noExitArms rest
end

/-- no function body contains an `exit` builtin -/
def noExitFuncs (fs : List Cmd) : Prop := ∀ body ∈ fs, noExit body = true

private theorem post_true (s : St) (r : Res) : post true s r = ({ s with last := r.code }, r) := by
  simp [post]

private theorem dec_ne_exit {f : Flow} (h : f ≠ .exit) : f.dec ≠ .exit := by
  cases f with
  | brk k => cases k <;> simp [Flow.dec]
  | cont k => cases k <;> simp [Flow.dec]
  | exit => exact absurd rfl h
  | _ => simp [Flow.dec]

private def QE (fuel : Nat) : Prop :=
  ∀ fs c s s' r, noExitFuncs fs → noExit c = true → exec fuel fs true c s = some (s', r) → r.flow ≠ .exit
private def QL (fuel : Nat) : Prop :=
  ∀ fs cs s s' r, noExitFuncs fs → noExitL cs = true → execList fuel fs true cs s = some (s', r) →
    r.flow ≠ .exit
private def QA (fuel : Nat) : Prop :=
  ∀ fs aos s s' r r', noExitFuncs fs → noExitAO aos = true → r.flow ≠ .exit →
    execAO fuel fs true aos s r = some (s', r') → r'.flow ≠ .exit
private def QW (fuel : Nat) : Prop :=
  ∀ fs isUntil cond body s s' r r', noExitFuncs fs → noExit cond = true → noExit body = true →
    r.flow ≠ .exit → loopW fuel fs true isUntil cond body s r = some (s', r') → r'.flow ≠ .exit
private def QF (fuel : Nat) : Prop :=
  ∀ fs n body s s' r r', noExitFuncs fs → noExit body = true → r.flow ≠ .exit →
    loopF fuel fs true n body s r = some (s', r') → r'.flow ≠ .exit
private def QC (fuel : Nat) : Prop :=
  ∀ fs arms force s s' r r', noExitFuncs fs → noExitArms arms = true → r.flow ≠ .exit →
    execArms fuel fs true arms force s r = some (s', r') → r'.flow ≠ .exit

private theorem normal_ne_exit : Flow.normal ≠ Flow.exit := by intro h; cases h

private theorem qstep_exec (fuel : Nat) (ihE : QE fuel) (ihL : QL fuel) (ihA : QA fuel) (ihW : QW fuel)
    (ihF : QF fuel) (ihC : QC fuel) : QE (fuel + 1) := by
  intro fs c s s' r hfs hne h
  -- every arm that ends in `post true X Y` has flow `Y.flow`
  have key : ∀ (s0 : St) (r0 : Res), r0.flow ≠ .exit → some (post true s0 r0) = some (s', r) →
      r.flow ≠ .exit := by
    intro s0 r0 h0 hp
    rw [post_true] at hp
    simp only [Option.some.injEq, Prod.mk.injEq] at hp
    rw [← hp.2]; exact h0
  have keyC : ∀ (s0 : St) (r0 : Res), r0.flow ≠ .exit → some (postC s0 r0) = some (s', r) →
      r.flow ≠ .exit := by
    intro s0 r0 h0 hp
    simp only [postC, Option.some.injEq, Prod.mk.injEq] at hp
    rw [← hp.2]; exact h0
  cases c with
  | leaf id codes => (rw [exec.eq_def] at h; simp only at h); exact key _ _ normal_ne_exit h
  | probe => (rw [exec.eq_def] at h; simp only at h); exact key _ _ normal_ne_exit h
  | seq cs =>
    (rw [exec.eq_def] at h; simp only at h)
    simp only [noExit] at hne
    exact ihL fs cs s s' r hfs hne h
  | andOr first rest =>
    simp only [noExit, Bool.and_eq_true] at hne
    cases rest <;>
    · (rw [exec.eq_def] at h; simp only [Bool.or_false, Bool.or_true] at h)
      split at h
      · simp at h
      · rename_i s1 r1 he
        exact ihA fs _ s1 s' r1 r hfs hne.2 (ihE fs first s s1 r1 hfs hne.1 he) h
  | bang c =>
    simp only [noExit] at hne
    (rw [exec.eq_def] at h; simp only at h)
    split at h
    · simp at h
    · rename_i s1 r1 he
      simp only [Option.some.injEq, Prod.mk.injEq] at h
      rw [← h.2]
      exact ihE fs c s s1 r1 hfs hne he
  | if1 cond thn =>
    simp only [noExit, Bool.and_eq_true] at hne
    (rw [exec.eq_def] at h; simp only at h)
    split at h
    · simp at h
    · rename_i s1 r1 he
      have h1 := ihE fs cond s s1 r1 hfs hne.1 he
      split at h
      · exact keyC _ _ h1 h
      · split at h
        · split at h
          · simp at h
          · rename_i s2 r2 he2
            exact keyC _ _ (ihE fs thn s1 s2 r2 hfs hne.2 he2) h
        · exact keyC _ _ normal_ne_exit h
  | if2 cond thn els =>
    simp only [noExit, Bool.and_eq_true] at hne
    (rw [exec.eq_def] at h; simp only at h)
    split at h
    · simp at h
    · rename_i s1 r1 he
      have h1 := ihE fs cond s s1 r1 hfs hne.1.1 he
      split at h
      · exact keyC _ _ h1 h
      · split at h
        · simp at h
        · rename_i s2 r2 he2
          have hbr : noExit (if r1.code = 0 then thn else els) = true := by
            split
            · exact hne.1.2
            · exact hne.2
          exact keyC _ _ (ihE fs _ s1 s2 r2 hfs hbr he2) h
  | whileU isUntil cond body =>
    simp only [noExit, Bool.and_eq_true] at hne
    (rw [exec.eq_def] at h; simp only at h)
    split at h
    · simp at h
    · rename_i s1 r1 he
      exact keyC _ _ (ihW fs isUntil cond body s s1 _ r1 hfs hne.1 hne.2 normal_ne_exit he) h
  | forIn n body =>
    simp only [noExit] at hne
    (rw [exec.eq_def] at h; simp only at h)
    split at h
    · simp at h
    · rename_i s1 r1 he
      exact keyC _ _ (ihF fs n body s s1 _ r1 hfs hne normal_ne_exit he) h
  | case arms =>
    simp only [noExit] at hne
    (rw [exec.eq_def] at h; simp only at h)
    split at h
    · simp at h
    · rename_i s1 r1 he
      exact keyC _ _ (ihC fs arms false s s1 _ r1 hfs hne normal_ne_exit he) h
  | group c =>
    simp only [noExit] at hne
    (rw [exec.eq_def] at h; simp only at h)
    split at h
    · simp at h
    · rename_i s1 r1 he
      exact keyC _ _ (ihE fs c s s1 r1 hfs hne he) h
  | subshell c =>
    (rw [exec.eq_def] at h; simp only at h)
    split at h
    · simp at h
    · exact key _ _ normal_ne_exit h
  | call f =>
    (rw [exec.eq_def] at h; simp only at h)
    split at h
    · exact key _ _ normal_ne_exit h
    · rename_i body hf
      have hb : noExit body = true := hfs body (List.mem_of_getElem? hf)
      split at h
      · simp at h
      · rename_i s1 r1 he
        have h1 := ihE fs body _ s1 r1 hfs hb he
        split at h
        · exact key _ _ normal_ne_exit h
        · exact key _ _ normal_ne_exit h
        · exact key _ _ normal_ne_exit h
        · exact key _ _ h1 h
  | brk n =>
    (rw [exec.eq_def] at h; simp only at h)
    split at h
    · exact key _ _ normal_ne_exit h
    · exact key _ _ (by intro hh; cases hh) h
  | cont n =>
    (rw [exec.eq_def] at h; simp only at h)
    split at h
    · exact key _ _ normal_ne_exit h
    · exact key _ _ (by intro hh; cases hh) h
  | ret code =>
    cases code <;>
    · (rw [exec.eq_def] at h; simp only at h)
      split at h
      · exact key _ _ (by intro hh; cases hh) h
      · exact key _ _ normal_ne_exit h
  | exit code => simp [noExit] at hne
  | setOpt o on => (rw [exec.eq_def] at h; simp only at h); exact key _ _ normal_ne_exit h
  | cmdsubst c =>
    (rw [exec.eq_def] at h; simp only at h)
    split at h
    · simp at h
    · exact key _ _ normal_ne_exit h
  | evalC c =>
    simp only [noExit] at hne
    (rw [exec.eq_def] at h; simp only at h)
    split at h
    · simp at h
    · rename_i s1 r1 he
      exact key _ _ (ihE fs c s s1 r1 hfs hne he) h
  | pipe codes lastc =>
    simp only [noExit] at hne
    (rw [exec.eq_def] at h; simp only at h)
    split at h
    · simp at h
    · rename_i s1 r1 he
      split at h
      · have h1 := ihE fs lastc s s1 r1 hfs hne he
        exact key s1 ⟨pipeStatus s.pipefail (codes ++ [r1.code]), r1.flow⟩ h1 h
      · exact key _ _ normal_ne_exit h
  | fault k => (rw [exec.eq_def] at h; simp only at h); exact key _ _ normal_ne_exit h
  | callT f =>
    (rw [exec.eq_def] at h; simp only at h)
    exact ihE fs (.call f) s s' r hfs rfl h

private theorem qstep_list (fuel : Nat) (ihE : QE fuel) (ihL : QL fuel) : QL (fuel + 1) := by
  intro fs cs s s' r hfs hne h
  cases cs with
  | nil =>
    simp only [execList, Option.some.injEq, Prod.mk.injEq] at h
    rw [← h.2]; exact normal_ne_exit
  | cons c rest =>
    simp only [noExitL, Bool.and_eq_true] at hne
    simp only [execList] at h
    split at h
    · simp at h
    · rename_i s1 r1 he
      have h1 := ihE fs c s s1 r1 hfs hne.1 he
      split at h
      · simp only [Option.some.injEq, Prod.mk.injEq] at h
        rw [← h.2]; exact h1
      · cases rest with
        | nil =>
          simp only [Option.some.injEq, Prod.mk.injEq] at h
          rw [← h.2]; exact h1
        | cons c2 rest2 =>
          simp only at h
          exact ihL fs _ _ s' r hfs hne.2 h

private theorem qstep_AO (fuel : Nat) (ihE : QE fuel) (ihA : QA fuel) : QA (fuel + 1) := by
  intro fs aos s s' r r' hfs hne hr h
  cases aos with
  | nil =>
    simp only [execAO, Option.some.injEq, Prod.mk.injEq] at h
    rw [← h.2]; exact hr
  | cons isAnd c rest =>
    simp only [noExitAO, Bool.and_eq_true] at hne
    cases rest <;>
    · simp only [execAO, Bool.or_false, Bool.or_true, Bool.not_true, Bool.not_false] at h
      split at h
      · simp only [Option.some.injEq, Prod.mk.injEq] at h
        rw [← h.2]; exact hr
      · split at h
        · exact ihA fs _ s s' r r' hfs (by first | exact hne.2 | rfl) hr h
        · split at h
          · simp at h
          · rename_i s1 r1 he
            exact ihA fs _ s1 s' r1 r' hfs (by first | exact hne.2 | rfl)
              (ihE fs c s s1 r1 hfs hne.1 he) h

/-- the tail of a loop iteration: the body's flow, decremented, is not `exit` -/
private theorem qstep_W (fuel : Nat) (ihE : QE fuel) (ihW : QW fuel) : QW (fuel + 1) := by
  intro fs isUntil cond body s s' r r' hfs hc hb hr h
  simp only [loopW] at h
  split at h
  · simp at h
  · rename_i s1 rc he
    have h1 := ihE fs cond s s1 rc hfs hc he
    split at h
    · simp only [Option.some.injEq, Prod.mk.injEq] at h
      rw [← h.2]; exact dec_ne_exit h1
    · split at h
      · simp only [Option.some.injEq, Prod.mk.injEq] at h
        rw [← h.2]; exact hr
      · split at h
        · simp at h
        · rename_i s2 rb he2
          have h2 := ihE fs body _ s2 rb hfs hb he2
          split at h
          · simp only [Option.some.injEq, Prod.mk.injEq] at h
            rw [← h.2]; exact h2
          · split at h
            · simp only [Option.some.injEq, Prod.mk.injEq] at h
              rw [← h.2]; exact dec_ne_exit h2
            · exact ihW fs isUntil cond body s2 s' _ r' hfs hc hb (dec_ne_exit h2) h

private theorem qstep_F (fuel : Nat) (ihE : QE fuel) (ihF : QF fuel) : QF (fuel + 1) := by
  intro fs n body s s' r r' hfs hb hr h
  cases n with
  | zero =>
    simp only [loopF, Option.some.injEq, Prod.mk.injEq] at h
    rw [← h.2]; exact hr
  | succ n =>
    simp only [loopF] at h
    split at h
    · simp at h
    · rename_i s2 rb he2
      have h2 := ihE fs body _ s2 rb hfs hb he2
      split at h
      · simp only [Option.some.injEq, Prod.mk.injEq] at h
        rw [← h.2]; exact h2
      · split at h
        · simp only [Option.some.injEq, Prod.mk.injEq] at h
          rw [← h.2]; exact dec_ne_exit h2
        · exact ihF fs n body s2 s' _ r' hfs hb (dec_ne_exit h2) h

private theorem qstep_C (fuel : Nat) (ihE : QE fuel) (ihC : QC fuel) : QC (fuel + 1) := by
  intro fs arms force s s' r r' hfs hne hr h
  cases arms with
  | nil =>
    simp only [execArms, Option.some.injEq, Prod.mk.injEq] at h
    rw [← h.2]; exact hr
  | cons m body t rest =>
    simp only [noExitArms, Bool.and_eq_true] at hne
    simp only [execArms] at h
    split at h
    · exact ihC fs rest false s s' r r' hfs hne.2 hr h
    · split at h
      · simp at h
      · rename_i s1 r1 he
        have h1 := ihE fs body s s1 r1 hfs hne.1 he
        split at h
        · simp only [Option.some.injEq, Prod.mk.injEq] at h
          rw [← h.2]; exact h1
        · cases t with
          | exitCase =>
            simp only [Option.some.injEq, Prod.mk.injEq] at h
            rw [← h.2]; exact h1
          | fallThrough => exact ihC fs rest true s1 s' r1 r' hfs hne.2 h1 h
          | contTest => exact ihC fs rest false s1 s' r1 r' hfs hne.2 h1 h

private theorem q_all (fuel : Nat) : QE fuel ∧ QL fuel ∧ QA fuel ∧ QW fuel ∧ QF fuel ∧ QC fuel := by
  induction fuel with
  | zero =>
    refine ⟨?_, ?_, ?_, ?_, ?_, ?_⟩
    · intro fs c s s' r _ _ h; (rw [exec.eq_def] at h; simp at h)
    · intro fs cs s s' r _ _ h; simp [execList] at h
    · intro fs aos s s' r r' _ _ _ h; simp [execAO] at h
    · intro fs isUntil cond body s s' r r' _ _ _ _ h; simp [loopW] at h
    · intro fs n body s s' r r' _ _ _ h; simp [loopF] at h
    · intro fs arms force s s' r r' _ _ _ h; simp [execArms] at h
  | succ fuel ih =>
    obtain ⟨ihE, ihL, ihA, ihW, ihF, ihC⟩ := ih
    exact ⟨qstep_exec fuel ihE ihL ihA ihW ihF ihC, qstep_list fuel ihE ihL, qstep_AO fuel ihE ihA,
      qstep_W fuel ihE ihW, qstep_F fuel ihE ihF, qstep_C fuel ihE ihC⟩

/-- Inside a context where errexit is suppressed (an `if`/`while`/`until` condition, a non-final
`&&`/`||` operand, a `!` pipeline — `suppress = true`), no failure makes the shell exit, however
deeply it is nested through lists, groups, function calls, `eval`, loops, `case`, subshells, command
substitutions and pipelines, and whatever the `set -e` state is or becomes: without an `exit`
builtin in the code, the flow that comes out is never `exit`. -/
theorem exempt_failure_never_exits (fuel : Nat) (fs : List Cmd) (c : Cmd) (s s' : St) (r : Res)
    (hfs : noExitFuncs fs) (hc : noExit c = true) (h : exec fuel fs true c s = some (s', r)) :
    r.flow ≠ .exit :=
  (q_all fuel).1 fs c s s' r hfs hc h

/-- non-vacuity: with `set -e` on, `f() { m1(→1); eval 'm2(→3)'; }` and the exempt command
`{ f; ( m3(→1) ); for i in 1; do m4(→1) | m5(→2); done; }` all fail repeatedly; the run goes on to
the end with normal flow.  The same command in a non-exempt position exits at the first failure. -/
example : let fs : List Cmd := [.seq (.cons (.leaf 1 [1]) (.cons (.evalC (.leaf 2 [3])) .nil))]
    let c : Cmd := .group (.seq (.cons (.call 0) (.cons (.subshell (.leaf 3 [1]))
      (.cons (.forIn 1 (.pipe [1] (.leaf 5 [2]))) .nil))))
    noExitFuncs fs ∧ noExit c = true ∧
      exec 20 fs true c { errexit := true } =
        some ({ counts := [(1, 1), (2, 1)], trace := [.m 1, .m 2, .m 3, .m 5], last := 2, errexit := true },
          { code := 2, flow := .normal }) ∧
      exec 20 fs false c { errexit := true } =
        some ({ counts := [(1, 1)], trace := [.m 1], last := 1, errexit := true },
          { code := 1, flow := .exit }) := by
  refine ⟨?_, by decide, by decide +kernel, by decide +kernel⟩
  intro body hb
  simp at hb
  subst hb
  decide

/-! ## 3. the real exempt contexts -/

/-- `! c` never exits the shell by errexit, whether or not the `!` pipeline itself stands in an
exempt context: `c` runs suppressed and the inverted status is not checked. -/
theorem bang_never_exits (fuel : Nat) (fs : List Cmd) (sup : Bool) (c : Cmd) (s s' : St) (r : Res)
    (hfs : noExitFuncs fs) (hc : noExit c = true)
    (h : exec fuel fs sup (.bang c) s = some (s', r)) : r.flow ≠ .exit := by
  cases fuel with
  | zero => (rw [exec.eq_def] at h; simp at h)
  | succ fuel =>
    (rw [exec.eq_def] at h; simp only at h)
    split at h
    · simp at h
    · rename_i s1 r1 he
      simp only [Option.some.injEq, Prod.mk.injEq] at h
      rw [← h.2]
      exact exempt_failure_never_exits fuel fs c s s1 r1 hfs hc he

/-- non-vacuity: `set -e; ! m1(→0)` has status 1 and goes on; `set -e; ! { m2(→1); m3(→4); }` too -/
example :
    exec 5 [] false (.bang (.leaf 1 [0])) { errexit := true } =
      some ({ counts := [(1, 1)], trace := [.m 1], last := 1, errexit := true }, { code := 1, flow := .normal }) ∧
    exec 9 [] false (.bang (.group (.seq (.cons (.leaf 2 [1]) (.cons (.leaf 3 [4]) .nil))))) { errexit := true } =
      some ({ counts := [(2, 1), (3, 1)], trace := [.m 2, .m 3], last := 0, errexit := true },
        { code := 0, flow := .normal }) := by
  refine ⟨by decide +kernel, by decide +kernel⟩

/-- An `if` (without `else`) that leaves by `exit`: its condition ran to the end with normal flow
and status 0 — whatever failed inside the condition did not exit — and the `exit` is the `then`
branch's. -/
theorem if_condition_failure_never_exits (fuel : Nat) (fs : List Cmd) (sup : Bool) (cond thn : Cmd)
    (s s' : St) (r : Res) (hfs : noExitFuncs fs) (hc : noExit cond = true)
    (h : exec (fuel + 1) fs sup (.if1 cond thn) s = some (s', r)) :
    ∃ s1 r1, exec fuel fs true cond s = some (s1, r1) ∧ r1.flow ≠ .exit ∧
      (r.flow = .exit → r1.flow = .normal ∧ r1.code = 0 ∧
        ∃ s2, exec fuel fs sup thn s1 = some (s2, r) ∧ s' = { s2 with last := r.code }) := by
  (rw [exec.eq_def] at h; simp only at h)
  split at h
  · simp at h
  · rename_i s1 r1 he
    have h1 := exempt_failure_never_exits fuel fs cond s s1 r1 hfs hc he
    refine ⟨s1, r1, he, h1, ?_⟩
    intro hx
    split at h
    · simp only [postC, Option.some.injEq, Prod.mk.injEq] at h
      rw [← h.2] at hx; exact absurd hx h1
    · rename_i hn
      have hn' : r1.flow = .normal := isNormal_eq (by simpa using hn)
      split at h
      · rename_i hz
        split at h
        · simp at h
        · rename_i s2 r2 he2
          simp only [postC, Option.some.injEq, Prod.mk.injEq] at h
          obtain ⟨rfl, rfl⟩ := h
          exact ⟨hn', hz, s2, he2, rfl⟩
      · simp only [postC, Option.some.injEq, Prod.mk.injEq] at h
        rw [← h.2] at hx; cases hx

/-- non-vacuity: `set -e; if m1(→1) ; then …` survives the condition; `set -e; if m1(→0); then m2(→5); fi`
exits, from the branch -/
example :
    exec 6 [] false (.if1 (.leaf 1 [1]) (.leaf 2 [5])) { errexit := true } =
      some ({ counts := [(1, 1)], trace := [.m 1], last := 0, errexit := true }, { code := 0, flow := .normal }) ∧
    exec 6 [] false (.if1 (.leaf 1 [0]) (.leaf 2 [5])) { errexit := true } =
      some ({ counts := [(1, 1), (2, 1)], trace := [.m 1, .m 2], last := 5, errexit := true },
        { code := 5, flow := .exit }) := by
  refine ⟨by decide +kernel, by decide +kernel⟩

/-- the same for `if … else …`: an `exit` is the chosen branch's -/
theorem if_else_condition_failure_never_exits (fuel : Nat) (fs : List Cmd) (sup : Bool)
    (cond thn els : Cmd) (s s' : St) (r : Res) (hfs : noExitFuncs fs) (hc : noExit cond = true)
    (h : exec (fuel + 1) fs sup (.if2 cond thn els) s = some (s', r)) :
    ∃ s1 r1, exec fuel fs true cond s = some (s1, r1) ∧ r1.flow ≠ .exit ∧
      (r.flow = .exit → r1.flow = .normal ∧
        ∃ s2, exec fuel fs sup (if r1.code = 0 then thn else els) s1 = some (s2, r) ∧
          s' = { s2 with last := r.code }) := by
  (rw [exec.eq_def] at h; simp only at h)
  split at h
  · simp at h
  · rename_i s1 r1 he
    have h1 := exempt_failure_never_exits fuel fs cond s s1 r1 hfs hc he
    refine ⟨s1, r1, he, h1, ?_⟩
    intro hx
    split at h
    · simp only [postC, Option.some.injEq, Prod.mk.injEq] at h
      rw [← h.2] at hx; exact absurd hx h1
    · rename_i hn
      have hn' : r1.flow = .normal := isNormal_eq (by simpa using hn)
      split at h
      · simp at h
      · rename_i s2 r2 he2
        simp only [postC, Option.some.injEq, Prod.mk.injEq] at h
        obtain ⟨rfl, rfl⟩ := h
        exact ⟨hn', s2, he2, rfl⟩

example :
    exec 6 [] false (.if2 (.leaf 1 [1]) (.leaf 2 [5]) (.leaf 3 [6])) { errexit := true } =
      some ({ counts := [(1, 1), (3, 1)], trace := [.m 1, .m 3], last := 6, errexit := true },
        { code := 6, flow := .exit }) := by
  decide +kernel

/-- `c` never leaves by `exit` when run with the given `suppress` flag -/
def neverExits (fs : List Cmd) (sup : Bool) (c : Cmd) : Prop :=
  ∀ fuel s s' r, exec fuel fs sup c s = some (s', r) → r.flow ≠ .exit

private theorem loopW_ne (fs : List Cmd) (sup isUntil : Bool) (cond body : Cmd)
    (hfs : noExitFuncs fs) (hc : noExit cond = true) (hb : neverExits fs sup body) :
    ∀ fuel s r s' r', r.flow ≠ .exit → loopW fuel fs sup isUntil cond body s r = some (s', r') →
      r'.flow ≠ .exit := by
  intro fuel
  induction fuel with
  | zero => intro s r s' r' _ h; simp [loopW] at h
  | succ fuel ih =>
    intro s r s' r' hr h
    simp only [loopW] at h
    split at h
    · simp at h
    · rename_i s1 rc he
      have h1 := exempt_failure_never_exits fuel fs cond s s1 rc hfs hc he
      split at h
      · simp only [Option.some.injEq, Prod.mk.injEq] at h
        rw [← h.2]; exact dec_ne_exit h1
      · split at h
        · simp only [Option.some.injEq, Prod.mk.injEq] at h
          rw [← h.2]; exact hr
        · split at h
          · simp at h
          · rename_i s2 rb he2
            have h2 := hb fuel _ s2 rb he2
            split at h
            · simp only [Option.some.injEq, Prod.mk.injEq] at h
              rw [← h.2]; exact h2
            · split at h
              · simp only [Option.some.injEq, Prod.mk.injEq] at h
                rw [← h.2]; exact dec_ne_exit h2
              · exact ih s2 _ s' r' (dec_ne_exit h2) h

/-- A `while`/`until` loop whose body never exits does not exit, however often and however its
condition fails: the condition is exempt in every iteration. -/
theorem while_condition_failure_never_exits (fuel : Nat) (fs : List Cmd) (sup isUntil : Bool)
    (cond body : Cmd) (s s' : St) (r : Res) (hfs : noExitFuncs fs) (hc : noExit cond = true)
    (hb : neverExits fs sup body)
    (h : exec fuel fs sup (.whileU isUntil cond body) s = some (s', r)) : r.flow ≠ .exit := by
  cases fuel with
  | zero => (rw [exec.eq_def] at h; simp at h)
  | succ fuel =>
    (rw [exec.eq_def] at h; simp only at h)
    split at h
    · simp at h
    · rename_i s1 r1 he
      simp only [postC, Option.some.injEq, Prod.mk.injEq] at h
      rw [← h.2]
      exact loopW_ne fs sup isUntil cond body hfs hc hb fuel s _ s1 r1 normal_ne_exit he

/-- non-vacuity: `set -e; until { m1(→2,2,0); }; do echo $?; done` — the body `probe` never exits, the
condition fails twice and the loop ends normally -/
example : neverExits [] false .probe ∧ noExit (.group (.leaf 1 [2, 2, 0])) = true ∧
    exec 12 [] false (.whileU true (.group (.leaf 1 [2, 2, 0])) .probe) { errexit := true } =
      some ({ counts := [(1, 3)], trace := [.m 1, .q 2, .m 1, .q 2, .m 1], last := 0, errexit := true },
        { code := 0, flow := .normal }) := by
  refine ⟨?_, by decide, by decide +kernel⟩
  intro fuel s s' r h
  cases fuel with
  | zero => (rw [exec.eq_def] at h; simp at h)
  | succ fuel =>
    (rw [exec.eq_def] at h; simp only [post, Option.some.injEq] at h)
    simp at h
    rw [← h.2]; exact normal_ne_exit

/-- the last operand of an and-or list's tail -/
def lastAO : AOs → Option Cmd
  | .nil => none
  | .cons _ c .nil => some c
  | .cons _ _ (.cons a c rest) => lastAO (.cons a c rest)

/-- the final operand of `first && … || …` -/
def finalOp (first : Cmd) (rest : AOs) : Cmd := (lastAO rest).getD first

private theorem execAO_ne (fs : List Cmd) (sup : Bool) (hfs : noExitFuncs fs) :
    ∀ fuel aos s r s' r', noExitAO aos = true → r.flow ≠ .exit →
      (∀ c, lastAO aos = some c → neverExits fs sup c) →
      execAO fuel fs sup aos s r = some (s', r') → r'.flow ≠ .exit := by
  intro fuel
  induction fuel with
  | zero => intro aos s r s' r' _ _ _ h; simp [execAO] at h
  | succ fuel ih =>
    intro aos s r s' r' hne hr hl h
    cases aos with
    | nil =>
      simp only [execAO, Option.some.injEq, Prod.mk.injEq] at h
      rw [← h.2]; exact hr
    | cons isAnd c rest =>
      simp only [noExitAO, Bool.and_eq_true] at hne
      cases rest with
      | nil =>
        simp only [execAO, Bool.not_true, Bool.or_false] at h
        split at h
        · simp only [Option.some.injEq, Prod.mk.injEq] at h
          rw [← h.2]; exact hr
        · split at h
          · exact ih _ s r s' r' rfl hr (by intro c hc; simp [lastAO] at hc) h
          · split at h
            · simp at h
            · rename_i s1 r1 he
              have h1 := hl c rfl fuel s s1 r1 he
              exact ih _ s1 r1 s' r' rfl h1 (by intro c hc; simp [lastAO] at hc) h
      | cons a2 c2 rest2 =>
        simp only [execAO, Bool.not_false, Bool.or_true] at h
        split at h
        · simp only [Option.some.injEq, Prod.mk.injEq] at h
          rw [← h.2]; exact hr
        · split at h
          · exact ih _ s r s' r' hne.2 hr (by intro c hc; exact hl c (by simpa [lastAO] using hc)) h
          · split at h
            · simp at h
            · rename_i s1 r1 he
              have h1 := exempt_failure_never_exits fuel fs c s s1 r1 hfs hne.1 he
              exact ih _ s1 r1 s' r' hne.2 h1 (by intro c hc; exact hl c (by simpa [lastAO] using hc)) h

/-- In `c0 && c1 || … cn` only the final operand is checked: if it never exits, the list never
exits, whatever fails in the operands before it. -/
theorem andor_exit_only_from_final_operand (fuel : Nat) (fs : List Cmd) (sup : Bool) (first : Cmd)
    (rest : AOs) (s s' : St) (r : Res) (hfs : noExitFuncs fs) (h1 : noExit first = true)
    (h2 : noExitAO rest = true) (hl : neverExits fs sup (finalOp first rest))
    (h : exec fuel fs sup (.andOr first rest) s = some (s', r)) : r.flow ≠ .exit := by
  cases fuel with
  | zero => (rw [exec.eq_def] at h; simp at h)
  | succ fuel =>
    cases rest with
    | nil =>
      (rw [exec.eq_def] at h; simp only [Bool.or_false] at h)
      split at h
      · simp at h
      · rename_i s1 r1 he
        have hf : r1.flow ≠ .exit := hl fuel s s1 r1 he
        exact execAO_ne fs sup hfs fuel _ s1 r1 s' r rfl hf (by intro c hc; simp [lastAO] at hc) h
    | cons a c rest2 =>
      (rw [exec.eq_def] at h; simp only [Bool.or_true] at h)
      split at h
      · simp at h
      · rename_i s1 r1 he
        have hf := exempt_failure_never_exits fuel fs first s s1 r1 hfs h1 he
        refine execAO_ne fs sup hfs fuel _ s1 r1 s' r h2 hf ?_ h
        intro c' hc'
        have : finalOp first (.cons a c rest2) = c' := by simp [finalOp, hc']
        rw [← this]; exact hl

/-- non-vacuity: `set -e; m1(→1) && m2 || m3(→1) || echo $?` -/
example : neverExits [] false (finalOp (.leaf 1 [1])
      (.cons true (.leaf 2 [0]) (.cons false (.leaf 3 [1]) (.cons false .probe .nil)))) ∧
    exec 12 [] false (.andOr (.leaf 1 [1])
      (.cons true (.leaf 2 [0]) (.cons false (.leaf 3 [1]) (.cons false .probe .nil)))) { errexit := true } =
      some ({ counts := [(1, 1), (3, 1)], trace := [.m 1, .m 3, .q 1], last := 0, errexit := true },
        { code := 0, flow := .normal }) := by
  refine ⟨?_, by decide +kernel⟩
  intro fuel s s' r h
  cases fuel with
  | zero => (rw [exec.eq_def] at h; simp at h)
  | succ fuel =>
    simp only [finalOp, lastAO, Option.getD_some] at h
    rw [exec.eq_def] at h
    simp only [post, Option.some.injEq] at h
    simp at h
    rw [← h.2]; exact normal_ne_exit

/-! ## 4. pipeline status -/

/-- Without `pipefail` a pipeline's status is its last stage's (0 for no stage); with `pipefail` it
is the rightmost non-zero stage status, or 0 when every stage succeeded. -/
theorem pipefail_status_is_rightmost_nonzero_else_last :
    (∀ cs, pipeStatus false cs = cs.getLast?.getD 0) ∧
    (∀ cs c, pipeStatus false (cs ++ [c]) = c) ∧
    (∀ cs c, pipeStatus true (cs ++ [c]) = if c ≠ 0 then c else pipeStatus true cs) ∧
    (∀ cs, pipeStatus true cs = 0 ↔ ∀ c ∈ cs, c = 0) ∧
    (∀ pre c n, c ≠ 0 → pipeStatus true (pre ++ c :: List.replicate n 0) = c) := by
  have happ : ∀ cs c, pipeStatus true (cs ++ [c]) = if c ≠ 0 then c else pipeStatus true cs := by
    intro cs c
    by_cases hc : c = 0 <;> simp [pipeStatus, hc]
  refine ⟨?_, ?_, happ, ?_, ?_⟩
  · intro cs; simp [pipeStatus]
  · intro cs c; simp [pipeStatus]
  · intro cs
    simp only [pipeStatus, ↓reduceIte]
    constructor
    · intro h c hc
      cases hf : cs.reverse.find? (· ≠ 0) with
      | none =>
        have := List.find?_eq_none.mp hf c (List.mem_reverse.mpr hc)
        simpa using this
      | some v =>
        rw [hf] at h
        simp only at h
        have := List.find?_some hf
        simp [h] at this
    · intro h
      have : cs.reverse.find? (· ≠ 0) = none := by
        apply List.find?_eq_none.mpr
        intro x hx
        simp [h x (List.mem_reverse.mp hx)]
      rw [this]
  · intro pre c n hc
    induction n with
    | zero => simp [pipeStatus, hc]
    | succ n ih =>
      have : pre ++ c :: List.replicate (n + 1) 0 = (pre ++ c :: List.replicate n 0) ++ [0] := by
        rw [List.replicate_succ']; simp
      rw [this, happ]; simpa using ih

/-- non-vacuity: `Q 0 | Q 3 | Q 0` has status 0 without and 3 with pipefail; `Q 2 | Q 5 | Q 0 | Q 0` → 5 -/
example : pipeStatus false [0, 3, 0] = 0 ∧ pipeStatus true [0, 3, 0] = 3 ∧
    pipeStatus true [2, 5, 0, 0] = 5 ∧ pipeStatus true [0, 0] = 0 ∧ pipeStatus true [] = 0 := by decide

/-! ## 5. command substitutions -/

/-- `v=$(c)` with `inherit_errexit` off: `c` runs in a copy that starts with errexit **off**
(whatever the parent's setting); the substitution's own flow is normal, or `exit` raised by the
*parent's* errexit check of the assignment's status (not suppressed, parent has `set -e`, status
non-zero); only the output and the status come back — in particular the parent's `errexit` flag is
unchanged even if `c` toggles it. -/
theorem errexit_off_in_cmdsubst_unless_inherit (fuel : Nat) (fs : List Cmd) (sup : Bool) (c : Cmd)
    (s s' : St) (r : Res) (hi : s.inheritErrexit = false)
    (h : exec (fuel + 1) fs sup (.cmdsubst c) s = some (s', r)) :
    (∃ s1 r1, exec fuel fs sup c { s with errexit := false } = some (s1, r1) ∧
        r.code = r1.code ∧ s' = { s with trace := s1.trace, last := r1.code }) ∧
      (r.flow = .normal ∨ (r.flow = .exit ∧ sup = false ∧ s.errexit = true ∧ r.code ≠ 0)) ∧
      (r.flow = .exit ↔ (sup = false ∧ s.errexit = true ∧ r.code ≠ 0)) ∧
      s'.errexit = s.errexit := by
  (rw [exec.eq_def] at h; simp only [hi, Bool.and_false] at h)
  split at h
  · simp at h
  · rename_i s1 r1 he
    simp only [post, Option.some.injEq] at h
    cases hs : sup <;> cases hee : s.errexit <;> by_cases hz : r1.code = 0 <;>
      simp [hs, hee, hz, Flow.isNormal] at h <;>
      obtain ⟨rfl, rfl⟩ := h <;>
      refine ⟨⟨s1, r1, ?_, ?_, ?_⟩, ?_, ?_, ?_⟩ <;> simp_all

/-- non-vacuity: parent has `set -e`; inside `$(m1(→1); m2(→0))` the failure of m1 is ignored (m2
runs, status 0); `$(m1(→1); set -e; m2(→3); m3)` stops at m2, the parent sees status 3 and exits
by its own check; under `inherit_errexit` the first one already stops at m1 -/
example :
    exec 9 [] false (.cmdsubst (.seq (.cons (.leaf 1 [1]) (.cons (.leaf 2 [0]) .nil)))) { errexit := true } =
      some ({ trace := [.m 1, .m 2], last := 0, errexit := true }, { code := 0, flow := .normal }) ∧
    exec 9 [] false (.cmdsubst (.seq (.cons (.leaf 1 [1]) (.cons (.setOpt .errexit true)
        (.cons (.leaf 2 [3]) (.cons (.leaf 3 [0]) .nil)))))) { errexit := true } =
      some ({ trace := [.m 1, .m 2], last := 3, errexit := true }, { code := 3, flow := .exit }) ∧
    exec 9 [] true (.cmdsubst (.seq (.cons (.leaf 1 [1]) (.cons (.leaf 2 [0]) .nil))))
        { errexit := true, inheritErrexit := true } =
      some ({ trace := [.m 1, .m 2], last := 0, errexit := true, inheritErrexit := true },
        { code := 0, flow := .normal }) ∧
    exec 9 [] false (.cmdsubst (.seq (.cons (.leaf 1 [1]) (.cons (.leaf 2 [0]) .nil))))
        { errexit := true, inheritErrexit := true } =
      some ({ trace := [.m 1], last := 1, errexit := true, inheritErrexit := true },
        { code := 1, flow := .exit }) := by
  refine ⟨by decide +kernel, by decide +kernel, by decide +kernel, by decide +kernel⟩

/-! ## 6. where errexit strikes -/

/-- With `set -e` on and outside every exempt context, a simple command exits the shell exactly
when its status is non-zero; the status becomes `$?` either way. -/
theorem errexit_exits_at_failing_simple_command (fuel : Nat) (fs : List Cmd) (id : Nat)
    (codes : List Nat) (s s' : St) (r : Res) (he : s.errexit = true)
    (h : exec (fuel + 1) fs false (.leaf id codes) s = some (s', r)) :
    (r.flow = .exit ↔ r.code ≠ 0) ∧ (r.flow = .normal ↔ r.code = 0) ∧ s'.last = r.code ∧
      r.code = codeAt codes (getCount s.counts id) := by
  (rw [exec.eq_def] at h; simp only [post, Option.some.injEq] at h)
  by_cases hz : codeAt codes (getCount s.counts id) = 0 <;>
    simp [he, hz, Flow.isNormal] at h <;> obtain ⟨rfl, rfl⟩ := h <;> simp [hz]

/-- non-vacuity: `set -e; m1(→0,4)` run twice: first status 0 goes on, then status 4 exits -/
example :
    exec 3 [] false (.leaf 1 [0, 4]) { errexit := true } =
      some ({ counts := [(1, 1)], trace := [.m 1], last := 0, errexit := true }, { code := 0, flow := .normal }) ∧
    exec 3 [] false (.leaf 1 [0, 4]) { counts := [(1, 1)], errexit := true } =
      some ({ counts := [(1, 2)], trace := [.m 1], last := 4, errexit := true }, { code := 4, flow := .exit }) := by
  refine ⟨by decide +kernel, by decide +kernel⟩


/-! ## 7. pipelines and `lastpipe` -/

/-- With `lastpipe` on, the last stage of a pipeline runs in the shell itself: when it leaves by
`exit` (the builtin, or errexit inside it) the pipeline's flow is `exit` — the shell ends — with the
pipeline's status, and the last stage's state changes stay. -/
theorem lastpipe_exit_reaches_the_shell (fuel : Nat) (fs : List Cmd) (sup : Bool) (codes : List Nat)
    (lastc : Cmd) (s s1 : St) (r1 : Res) (hl : s.lastpipe = true)
    (h1 : exec fuel fs sup lastc s = some (s1, r1)) (hx : r1.flow = .exit) :
    ∃ s' r, exec (fuel + 1) fs sup (.pipe codes lastc) s = some (s', r) ∧ r.flow = .exit ∧
      r.code = pipeStatus s.pipefail (codes ++ [r1.code]) ∧ s' = { s1 with last := r.code } := by
  refine ⟨{ s1 with last := pipeStatus s.pipefail (codes ++ [r1.code]) },
    { code := pipeStatus s.pipefail (codes ++ [r1.code]), flow := .exit }, ?_, rfl, rfl, rfl⟩
  rw [exec.eq_def]
  simp [h1, hl, hx, post, Flow.isNormal]

/-- non-vacuity: `shopt -s lastpipe; Q 0 | { m1; exit 6; }; m2` ends the shell with status 6 after
`m1`; without lastpipe the `exit` only ends the last stage's subshell and `m2` runs -/
example :
    exec 9 [] false (.seq (.cons (.pipe [0] (.seq (.cons (.leaf 1 [0]) (.cons (.exit (some 6)) .nil))))
        (.cons (.leaf 2 [0]) .nil))) { lastpipe := true } =
      some ({ counts := [(1, 1)], trace := [.m 1], last := 6, lastpipe := true }, { code := 6, flow := .exit }) ∧
    exec 9 [] false (.seq (.cons (.pipe [0] (.seq (.cons (.leaf 1 [0]) (.cons (.exit (some 6)) .nil))))
        (.cons (.leaf 2 [0]) .nil))) {} =
      some ({ counts := [(2, 1)], trace := [.m 1, .m 2], last := 0 }, { code := 0, flow := .normal }) := by
  refine ⟨by decide +kernel, by decide +kernel⟩

/-- Without `lastpipe` every stage runs in its own copy of the shell: whatever the last stage does
(`exit`, `return`, `break`, `set -e`, variable and counter changes), the pipeline's flow is normal —
or `exit` raised by the parent's own errexit check of the pipeline status — and only the output and
the status come back. -/
theorem no_lastpipe_stage_flow_stays_inside (fuel : Nat) (fs : List Cmd) (sup : Bool)
    (codes : List Nat) (lastc : Cmd) (s s' : St) (r : Res) (hl : s.lastpipe = false)
    (h : exec (fuel + 1) fs sup (.pipe codes lastc) s = some (s', r)) :
    (∃ s1 r1, exec fuel fs sup lastc s = some (s1, r1) ∧
        r.code = pipeStatus s.pipefail (codes ++ [r1.code]) ∧
        s' = { s with trace := s1.trace, last := r.code }) ∧
      (r.flow = .normal ∨ (r.flow = .exit ∧ sup = false ∧ s.errexit = true ∧ r.code ≠ 0)) ∧
      (r.flow = .exit ↔ (sup = false ∧ s.errexit = true ∧ r.code ≠ 0)) ∧
      s'.counts = s.counts ∧ s'.fdepth = s.fdepth ∧ s'.scope = s.scope ∧ s'.errexit = s.errexit ∧
      s'.pipefail = s.pipefail ∧ s'.inheritErrexit = s.inheritErrexit ∧ s'.lastpipe = s.lastpipe := by
  rw [exec.eq_def] at h
  simp only [hl, Bool.false_eq_true, ↓reduceIte] at h
  split at h
  · simp at h
  · rename_i s1 r1 he
    simp only [post, Option.some.injEq] at h
    cases hs : sup <;> cases hee : s.errexit <;>
      by_cases hz : pipeStatus s.pipefail (codes ++ [r1.code]) = 0 <;>
      simp [hs, hee, hz, Flow.isNormal] at h <;>
      obtain ⟨rfl, rfl⟩ := h <;>
      refine ⟨⟨s1, r1, ?_, ?_, ?_⟩, ?_, ?_, ?_⟩ <;> simp_all

/-- non-vacuity: `Q 0 | { m1; exit 6; }` and, in a loop, `Q 3 | break` under `set -o pipefail; set -e` -/
example :
    exec 9 [] false (.pipe [0] (.seq (.cons (.leaf 1 [0]) (.cons (.exit (some 6)) .nil)))) {} =
      some ({ trace := [.m 1], last := 6 }, { code := 6, flow := .normal }) ∧
    exec 9 [] false (.forIn 2 (.pipe [3] (.brk none))) { errexit := true, pipefail := true } =
      some ({ last := 3, errexit := true, pipefail := true }, { code := 3, flow := .exit }) := by
  refine ⟨by decide +kernel, by decide +kernel⟩


/-! ## nounset: which expansions of an unset parameter abort (model: `Model/ParamOps.lean`, the
`expand_parameter_expr` arms also used by C06) -/

section Nounset
open BrushVerif.ParamOps

/-- a parameter that has no value: `v`, `a[i]`, `$n` unset -/
def UnsetParam : Param → Prop
  | .named none => True
  | .elem none _ => True
  | .pos none => True
  | _ => False

/-- **`set -u` rejects** plain, substring and prefix/suffix-removal expansions of an unset parameter,
whatever the operands and patterns. -/
theorem nounset_rejects_unset_value_uses (p : Param) (hp : UnsetParam p) (m : List Char → Bool)
    (off : Int) (len : Option Int) (k : RmKind) (hasPat : Bool) :
    (expandExpr p true m .plain).res = .err ∧
    (expandExpr p true m (.sub off len)).res = .err ∧
    (expandExpr p true m (.rm k hasPat)).res = .err := by
  cases p with
  | named v => cases v <;> simp [UnsetParam] at hp <;> simp [expandExpr, expandParam, undefinedExpansion]
  | elem v ex => cases v <;> simp [UnsetParam] at hp <;> simp [expandExpr, expandParam, undefinedExpansion]
  | pos v => cases v <;> simp [UnsetParam] at hp <;> simp [expandExpr, expandParam, undefinedExpansion]
  | all vals star => simp [UnsetParam] at hp
  | posAll args star => simp [UnsetParam] at hp

/-- **`set -u` tolerates** `${v-w}`, `${v:-w}`, `${v+w}`, `${v:+w}`, `${v=w}`, `${v:=w}` on every
parameter: the unset-parameter error is never raised by them (`=` on a positional parameter fails for
its own reason, with or without `-u`). -/
theorem nounset_tolerates_default_and_alternative (p : Param) (m : List Char → Bool) (colon : Bool) (w : List Char) :
    (expandExpr p true m (.test .useDefault colon w)).res = (expandExpr p false m (.test .useDefault colon w)).res ∧
    (expandExpr p true m (.test .useAlternative colon w)).res = (expandExpr p false m (.test .useAlternative colon w)).res ∧
    (expandExpr p true m (.test .assignDefault colon w)).res = (expandExpr p false m (.test .assignDefault colon w)).res ∧
    (expandExpr p true m (.test .errorIfUnset colon w)).res = (expandExpr p false m (.test .errorIfUnset colon w)).res := by
  cases p with
  | named v => cases v <;> simp [expandExpr, expandParam, undefinedExpansion]
  | elem v ex => cases v <;> simp [expandExpr, expandParam, undefinedExpansion]
  | pos v => cases v <;> simp [expandExpr, expandParam, undefinedExpansion]
  | all vals star => simp [expandExpr, expandParam]
  | posAll args star => simp [expandExpr, expandParam]

/-- **Without `-u` nothing is rejected for being unset**: the plain expansion of any parameter succeeds. -/
theorem without_nounset_unset_is_empty (p : Param) (m : List Char → Bool) :
    ∃ e, (expandExpr p false m .plain).res = .ok e := by
  cases p with
  | named v => cases v <;> simp [expandExpr, expandParam, undefinedExpansion]
  | elem v ex => cases v <;> simp [expandExpr, expandParam, undefinedExpansion]
  | pos v => cases v <;> simp [expandExpr, expandParam, undefinedExpansion]
  | all vals star => simp [expandExpr, expandParam]
  | posAll args star => simp [expandExpr, expandParam]

/-- `$@`, `$*`, `a[@]`, `a[*]` are never "unset" for `-u`, even with no elements. -/
theorem nounset_accepts_empty_lists (star : Bool) (m : List Char → Bool) :
    (∃ e, (expandExpr (.posAll [] star) true m .plain).res = .ok e) ∧
    (∃ e, (expandExpr (.all [] star) true m .plain).res = .ok e) := by
  simp [expandExpr, expandParam]

/-- Recorded finding C03-1 in the model: `${#v[@]}` of a variable with no elements is accepted under
`-u` (bash rejects it when `v` is unset). -/
theorem nounset_array_length_tolerated_cex (m : List Char → Bool) :
    ∃ e, (expandExpr (.all [] false) true m .len).res = .ok e := by
  simp [expandExpr, expandParam]

example : UnsetParam (.named none) ∧ (expandExpr (.named none) true (fun _ => false) .plain).res = .err := by
  simp [UnsetParam, expandExpr, expandParam, undefinedExpansion]

end Nounset

/-! ## nounset: the whole decision table (model: `Model/Nounset.lean` — every arm of
`expand_parameter_expr`, the parameter kinds of `expand_parameter_without_indirect`, `${!ref}`,
arithmetic reads, `Error::is_fatal`; reference: `Spec/Nounset.lean`, bash 5.2's rules R1–R8) -/

section NounsetTable
open BrushVerif.Wire BrushVerif.Nounset BrushVerif.NounsetSpec BrushVerif.NounsetProofs
open BrushVerif.ParamOps (TestOp PState classify)

/-- the guard of the refinement for one command: every expansion avoids the recorded clauses, and
the command is not a `let` whose arithmetic meets an unbound variable (clause `nounset_in_let_tolerated`) -/
def stmtInGuard (ps : Parsers) (e : Env) : Stmt → Bool
  | .words es => es.all (exprInGuard e)
  | .letCmd a => arithDecision ps e a != .abort
  | _ => true

/-- the full statement: under `set -u` brush takes bash's decision for every command of the table -/
def nounset_decision_eq_bash_full : Prop :=
  ∀ (ps : Parsers) (e : Env), e.nounset = true → ∀ s : Stmt, nounsetDecision ps e s = bashDecision ps e s

/-- **Under `set -u` brush ends the shell / abandons the command / goes on exactly where bash does**,
for every command of the table — any parameter kind (names, subscripts that are numbers or words,
positional and special parameters, `[@]`/`[*]`), any operator, `${!ref…}`, `$(( ))`, `(( ))`,
`[[ -eq ]]`, `for ((`, subscripts of assignments, any number of words — over every shell state (any
variables of any type and value, any positional parameters) and whatever the two run-time parsers
do, outside the recorded clauses. -/
theorem nounset_decision_eq_bash_partial (ps : Parsers) (e : Env) (hu : e.nounset = true) (s : Stmt)
    (hg : stmtInGuard ps e s = true) :
    nounsetDecision ps e s = bashDecision ps e s := by
  cases s with
  | words es =>
    simp only [nounsetDecision, bashDecision]
    induction es with
    | nil => rfl
    | cons x xs ih =>
      simp only [stmtInGuard, List.all_cons, Bool.and_eq_true] at hg
      have hx := expr_eq ps e hu x hg.1
      have hxs := ih (by simpa [stmtInGuard] using hg.2)
      simp only [expandAll, bashWords]
      cases hr : expandExpr ps e x with
      | error er => rw [hr] at hx; rw [← hx]; cases er <;> rfl
      | ok u => rw [hr] at hx; rw [← hx]; exact hxs
  | arithCmd a => exact arith_eq' ps e a
  | condArith a => exact arith_eq' ps e a
  | arithFor a => exact arith_eq' ps e a
  | assignIdx a => exact arith_eq' ps e a
  | letCmd a =>
    have hg' : arithDecision ps e a ≠ .abort := by simpa [stmtInGuard] using hg
    show Decision.ok = (match arithDecision ps e a with | .abort => .abort | _ => .ok)
    revert hg'
    cases arithDecision ps e a <;> intro hg' <;> first | rfl | exact absurd rfl hg'

/-- a state for the witnesses: `s=abc`, `arr=(x)`, `A` declared `-A`, nothing else; no arguments -/
def witnessEnv : Env :=
  { vars := fun n => if n = ['s'] then some (.str ['a', 'b', 'c']) else if n = ['a', 'r', 'r'] then some (.indexed [(0, ['x'])])
      else if n = ['A'] then some (.unset .assoc) else none,
    args := [], nounset := true }

def witnessParsers : Parsers := { arith := fun _ => none, param := fun _ => none, fuel := 8 }

example : stmtInGuard witnessParsers witnessEnv (.words [.value .plain (.named ['v']) false, .length (.namedAll ['a', 'r', 'r'] false)]) = true ∧
    nounsetDecision witnessParsers witnessEnv (.words [.value .plain (.named ['v']) false]) = .abort := by
  refine ⟨by decide, by decide⟩

/-- the four recorded deviations are real: `${#v[@]}` and `${#v[0]}` of a variable that is not there
(bash abandons the command; brush goes on, resp. ends the shell), `${!v}` of one (bash abandons, brush
ends the shell), `let v+1` (bash ends the shell, brush goes on), `${A[@]=w}` -/
theorem nounset_decision_eq_bash_cex : ¬ nounset_decision_eq_bash_full := by
  intro h
  have := h witnessParsers witnessEnv rfl (.words [.length (.namedAll ['v'] false)])
  revert this; decide

theorem nounset_array_length_cex :
    nounsetDecision witnessParsers witnessEnv (.words [.length (.namedAll ['v'] false)]) = .ok ∧
    bashDecision witnessParsers witnessEnv (.words [.length (.namedAll ['v'] false)]) = .fail ∧
    nounsetDecision witnessParsers witnessEnv (.words [.length (.namedAll ['s'] false)]) = .ok ∧
    bashDecision witnessParsers witnessEnv (.words [.length (.namedAll ['s'] false)]) = .fail := by decide

theorem nounset_element_length_of_unset_cex :
    nounsetDecision witnessParsers witnessEnv (.words [.length (.namedIdx ['v'] (.num 0))]) = .abort ∧
    bashDecision witnessParsers witnessEnv (.words [.length (.namedIdx ['v'] (.num 0))]) = .fail := by decide

theorem nounset_indirect_of_unset_cex :
    nounsetDecision witnessParsers witnessEnv (.words [.value .plain (.named ['v']) true]) = .abort ∧
    bashDecision witnessParsers witnessEnv (.words [.value .plain (.named ['v']) true]) = .fail := by decide

theorem nounset_in_let_cex :
    nounsetDecision witnessParsers witnessEnv (.letCmd (.add (.var ['v']) (.lit 1))) = .ok ∧
    bashDecision witnessParsers witnessEnv (.letCmd (.add (.var ['v']) (.lit 1))) = .abort := by decide

theorem nounset_assign_default_to_declared_assoc_list_cex :
    nounsetDecision witnessParsers witnessEnv (.words [.test .assignDefault false (.namedAll ['A'] false) (.lit ['w'])]) = .fail ∧
    bashDecision witnessParsers witnessEnv (.words [.test .assignDefault false (.namedAll ['A'] false) (.lit ['w'])]) = .ok := by decide

/-- **The testing operators never report an unbound parameter**: `${p-w}`, `${p:-w}`, `${p+w}`,
`${p:+w}` with a literal word go through for every parameter whose subscript (if any) can be
evaluated, in every state, with or without `-u`. -/
theorem nounset_testing_operators_never_abort (ps : Parsers) (e : Env) (p : Parameter) (colon : Bool) (w : Str)
    (hsub : (paramState ps e p).1 = .ok) :
    nounsetDecision ps e (.words [.test .useDefault colon p (.lit w)]) = .ok ∧
    nounsetDecision ps e (.words [.test .useAlternative colon p (.lit w)]) = .ok := by
  rcases expandParam_allow ps e p with ⟨x, h1, h2⟩ | ⟨er, h1, h2, h3⟩
  · simp only [nounsetDecision, expandAll, expandExpr, expandParamInd, h1, testAction_table]
    constructor <;> cases hcx : classify x <;> cases colon <;> simp [hcx, expandWord, Nounset.decide?]
  · exact absurd hsub h3

example : (paramState witnessParsers witnessEnv (.named ['v'])).1 = .ok ∧
    (paramState witnessParsers witnessEnv (.namedIdx ['a', 'r', 'r'] (.num 3))).1 = .ok := by decide

/-- **`${p?w}` / `${p:?w}` end the shell iff the parameter is unset (with the colon: or null),
whether or not `-u` is on** — and otherwise let the command run. -/
theorem error_if_unset_decision (ps : Parsers) (e : Env) (p : Parameter) (colon : Bool) (w : Str) (st : PState)
    (hst : paramState ps e p = (.ok, st)) :
    nounsetDecision ps e (.words [.test .errorIfUnset colon p (.lit w)]) =
      if st = .undefined ∨ (colon = true ∧ st = .definedEmpty) then .abort else .ok := by
  rcases expandParam_allow ps e p with ⟨x, h1, h2⟩ | ⟨er, h1, h2, h3⟩
  · rw [hst] at h2
    have hc : classify x = st := by injection h2 with _ h; exact h.symm
    subst hc
    simp only [nounsetDecision, expandAll, expandExpr, expandParamInd, h1, testAction_table]
    cases hcx : classify x <;> cases colon <;> simp [hcx, expandWord, Nounset.decide?, Err.fatal]
  · rw [hst] at h3; exact absurd rfl h3

example : nounsetDecision witnessParsers { witnessEnv with nounset := false } (.words [.test .errorIfUnset false (.named ['v']) (.lit [])]) = .abort ∧
    nounsetDecision witnessParsers witnessEnv (.words [.test .errorIfUnset true (.named ['s']) (.lit [])]) = .ok := by decide

/-- **Lists and special parameters are never unbound**: `$@`, `$*`, `$#`, `$?`, `$-`, `$$`, `$0`,
`${a[@]}`, `${a[*]}` under any value-using operator without arithmetic operands, and their length,
go through in every state — no arguments, no such variable — under `-u`. -/
theorem nounset_lists_and_specials_never_abort (ps : Parsers) (e : Env) (p : Parameter) (hp : isList p = true)
    (op : ValueOp) (hop : ∀ off len, op ≠ .substring off len) :
    nounsetDecision ps e (.words [.value op p false]) = .ok ∧
    (∀ sp, p = .special sp → nounsetDecision ps e (.words [.length p]) = .ok) := by
  cases p with
  | special sp =>
    refine ⟨?_, fun sp' _ => ?_⟩
    · cases sp <;> cases op <;> first | rfl | exact absurd rfl (hop _ _)
    · cases sp <;> rfl
  | namedAll n star =>
    refine ⟨?_, fun sp h => by cases h⟩
    cases hv : e.vars n <;> cases op <;>
      first
        | exact absurd rfl (hop _ _)
        | simp [nounsetDecision, expandAll, expandExpr, expandParamInd, expandParam, hv, Nounset.decide?]
  | positional k => cases hp
  | named n => cases hp
  | namedIdx n i => cases hp

example : isList (.special (.allPos true)) = true ∧ witnessEnv.args = [] ∧ witnessEnv.vars ['v'] = none := by decide

/-- **Without `-u` nothing is unbound**: no parameter expansion and no arithmetic read produces
the unset-variable error (for a parameter whose subscript, if any, can be evaluated). -/
theorem without_nounset_nothing_is_unbound (ps : Parsers) (e : Env) (hu : e.nounset = false) (p : Parameter)
    (hsub : (paramState ps e p).1 = .ok) (allow : Bool) (x : Str) :
    expandParam ps e p allow ≠ .error .unsetVar ∧ getVarValue e x ≠ .error .arithUnset := by
  constructor
  · cases p with
    | positional k =>
      cases k with
      | zero => simp [expandParam]
      | succ k => cases h : e.args[k]? <;> simp [expandParam, h, undefinedExpansion, hu]
    | special sp => cases sp <;> simp [expandParam]
    | named n =>
      cases h : e.vars n with
      | none => simp [expandParam, h, undefinedExpansion, hu]
      | some v => cases h2 : v.scalar? <;> simp [expandParam, h, h2, undefinedExpansion, hu]
    | namedIdx n i =>
      rw [paramState_idx_fst] at hsub
      rcases expandIndex_eq ps e n i with ⟨iv, g1, g2⟩ | ⟨er, g1, g2, g3⟩
      · simp only [expandParam, isAssoc_match, g1]
        cases h2 : (e.vars n).bind (fun v => v.getAt iv) <;> simp [undefinedExpansion, hu]
      · exact absurd hsub g3
    | namedAll n star => cases h : e.vars n <;> simp [expandParam, h]
  · unfold getVarValue
    cases h : e.vars x with
    | none => simp [hu]
    | some v => cases h2 : v.isSet <;> simp [h2, hu]

example : expandParam witnessParsers { witnessEnv with nounset := false } (.named ['v']) false = .ok BrushVerif.ParamOps.undefinedExp := by rfl

/-- **What a script shows determines the decision, and the decision determines what every placement
shows**: the three placements of the table (same line, next line, inside a function) tell the three
decisions apart, an abort never reaches `after` wherever the command stands, and a command that runs
always does. -/
theorem nounset_decision_observable (d d' : Decision) :
    ((∀ pl, shown pl d = shown pl d') → d = d') ∧
    (∀ pl, (shown pl .abort).after = false ∧ (shown pl .abort).failed = true) ∧
    (∀ pl, (shown pl .ok).after = true ∧ (shown pl .ok).failed = false) := by
  refine ⟨?_, fun pl => by cases pl <;> decide, fun pl => by cases pl <;> decide⟩
  intro h
  have h1 := h .sameLine; have h2 := h .nextLine
  cases d <;> cases d' <;> first | rfl | (revert h1 h2; decide)

/-- **Arithmetic reads only what C evaluation reads**: the operand `&&` / `||` / `?:` skip is not
read, so an unbound variable there does not matter; an assignment does not read its target; the
read of a variable without a value ends the shell under `-u` in every arithmetic context but `let`. -/
theorem nounset_arithmetic_reads (ps : Parsers) (e : Env) (f : Nat) (hf : ps.fuel = f + 2) (a : AExpr) (x : Str) (n : Int)
    (hx : (e.vars x).all (fun v => !v.isSet) = true) (hu : e.nounset = true) :
    nounsetDecision ps e (.arithCmd (.land (.lit 0) a)) = .ok ∧
    nounsetDecision ps e (.arithCmd (.lor (.lit 1) a)) = .ok ∧
    nounsetDecision ps e (.arithCmd (.cond (.lit 1) (.lit n) a)) = .ok ∧
    nounsetDecision ps e (.arithCmd (.assign x (.lit n))) = .ok ∧
    nounsetDecision ps e (.arithCmd (.var x)) = .abort ∧
    nounsetDecision ps e (.condArith (.add (.var x) (.lit n))) = .abort ∧
    nounsetDecision ps e (.letCmd (.var x)) = .ok := by
  have hg : getVarValue e x = .error .arithUnset := by
    unfold getVarValue
    cases h : e.vars x with
    | none => simp [hu]
    | some v => simp [h] at hx; simp [hx, hu]
  simp [nounsetDecision, hf, evalA, Nounset.decide?, hg, Err.fatal]

example : (witnessEnv.vars ['v']).all (fun v => !v.isSet) = true ∧ witnessParsers.fuel = 6 + 2 := by decide

end NounsetTable

end BrushVerif.C03
