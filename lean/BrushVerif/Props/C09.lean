import BrushVerif.Proofs.Env
/-!
# C09 — variable scope and attributes: locals, temporary assignments, export, readonly

Theorems over `Model/Env.lean` (which mirrors `brush-core/src/env.rs`, `variables.rs`,
`interp.rs::apply_assignment`/`execute_command`, `declare.rs`, `export.rs`).  Quantifiers: every
environment (any scope stack), every operation sequence of any length.

`assign_at_index` / `unset_index` check readonly since the repair in `/repo` (they did not before:
`declare -r a=(1 2); a[0]=x` used to succeed), so `readonly_frozen` now covers the element writers and
`readonly_element_write_refused` / `readonly_element_unset_refused` state the repaired behaviour.

Repaired in `/repo` and mirrored by the model (each was a `_cex` or a guard here before): prefix
assignments only re-use a binding of their own command scope (`temp_assignment_undone` is now
unconditional), a readonly variable cannot be hidden by a prefix assignment or — when global — by a
local (`readonly_not_hidden_by_temp_assignment`, `readonly_global_not_hidden_by_local`), locals
inherit the export attribute, `declare -g` reaches the global, `export name` records the attribute.

One statement stays false at full strength and keeps `…_full` / `…_cex` / `…_partial`: the child
environment is *not* "the visible bindings that are exported": `iter_exported` takes the innermost
binding that is exported and set, so an exported binding hidden by a non-exported one still reaches
children.  bash 5.2 does exactly the same (`export e=1; f() { local e=2; export -n e; env; }` gives
e=1), so this is the shells' semantics rather than a defect; the exactness theorem is proved for
single-scope environments.
-/
namespace BrushVerif.C09
open BrushVerif.Wire BrushVerif.Env

/-! ## readonly -/

/-- operations covered by the readonly theorem: every shell-level writer, including element
assignment and element unset.  Excluded are only things no shell construct does — the raw `add`
(it overwrites whatever is there; its callers use it after a failed lookup) and `update_or_add*`
with a policy other than `Anywhere` (every call site passes `Anywhere`) — and `declare -a` /
`declare -A`, which re-shape the value of an existing scalar into `([0]=v)` exactly as bash does
for a readonly scalar. -/
def OpOk : Op → Prop
  | .add .. => False
  | .updateOrAdd _ _ _ pol _ => pol = .anywhere
  | .updateOrAddElem _ _ _ pol _ => pol = .anywhere
  | .declare _ fl _ _ _ _ _ => fl.a = false ∧ fl.A = false
  | _ => True

/-- the stack never gets shallower than `b` scopes while `ops` run from depth `d` -/
def staysAbove (b : Nat) : Nat → List Op → Bool
  | _, [] => true
  | d, .push _ :: r => staysAbove b (d + 1) r
  | d, .pushTemp _ :: r => staysAbove b (d + 1) r
  | d, .pop _ :: r => decide (b < d) && staysAbove b (d - 1) r
  | d, _ :: r => staysAbove b d r

/-- every covered operation other than `push`/`pop`/`pushTemp` keeps depth, scope kinds and the
value and readonly attribute of every readonly binding, in every scope -/
private theorem step_keeps (e : Env) (op : Op) (hok : OpOk op) :
    match op with
    | .push k => (step e op).scopes = (k, []) :: e.scopes
    | .pop _ => (step e op).scopes = e.scopes.tail
    | .pushTemp _ => KeepsL ((Kind.command, []) :: e.scopes) (step e op).scopes
    | _ => KeepsL e.scopes (step e op).scopes := by
  cases op with
  | push k => rfl
  | pop k => simp only [step, stepR, Env.pop]; split <;> simp_all
  | unset n => exact unset_keeps e n
  | unsetIndex n i => exact unsetIndex_keeps e n i
  | updateOrAdd n lit u pol k => simp only [OpOk] at hok; subst hok; exact updateOrAdd_keeps e n lit u k
  | updateOrAddElem n i v pol k => simp only [OpOk] at hok; subst hok; exact updateOrAddElem_keeps e n i v k
  | add n v k => exact hok.elim
  | assign n idx lit ap => exact applyPlainIdx_keeps e n idx lit ap false
  | pushTemp items => exact tempAssigns_keeps items (e.push .command) [] e.scopes rfl
  | declare n fl verb lit ai na inf => exact declare_keeps e n fl verb lit ai na inf hok.1 hok.2
  | exportName n un => exact exportName_keeps e n un
  | exportAssign n lit ap un => exact exportAssign_keeps e n lit ap un
  | assignDefault n v => exact assignDefault_keeps e n v

/-- **readonly_frozen.**  Take any environment whose stack is `pre ++ base` and any
sequence of covered operations during which the stack never gets shallower than `base`.  Afterwards
the stack is `pre' ++ base'` where `base'` has the same scopes (same kinds, same depth) and every
binding that was readonly in `base` is still bound in the same scope, still readonly, with the same
value: no construct changed, removed or replaced it — element assignment and element unset included. -/
theorem readonly_frozen : ∀ (ops : List Op) (pre base : List Scope),
    (∀ op ∈ ops, OpOk op) → staysAbove base.length (pre.length + base.length) ops = true →
    ∃ pre' base', (run { scopes := pre ++ base } ops).scopes = pre' ++ base' ∧ KeepsL base base' := by
  intro ops
  induction ops with
  | nil => intro pre base _ _; exact ⟨pre, base, rfl, KeepsL.refl _⟩
  | cons op rest ih =>
    intro pre base hok hd
    have hop := hok op (List.mem_cons_self ..)
    have hrest : ∀ o ∈ rest, OpOk o := fun o ho => hok o (List.mem_cons_of_mem _ ho)
    have hs := step_keeps { scopes := pre ++ base } op hop
    simp only [run]
    -- the three structural cases, then the generic one
    have generic : ∀ (pre1 : List Scope), KeepsL (pre1 ++ base) (step { scopes := pre ++ base } op).scopes →
        staysAbove base.length (pre1.length + base.length) rest = true →
        ∃ pre' base', (run (step { scopes := pre ++ base } op) rest).scopes = pre' ++ base' ∧ KeepsL base base' := by
      intro pre1 hk hd'
      obtain ⟨p', b', e1, e2, e3⟩ := KeepsL.split pre1 base _ hk
      have hlen : b'.length = base.length := (KeepsL.length e3).symm
      have := ih p' b' hrest (by rw [hlen, e2]; exact hd')
      have hrun : step { scopes := pre ++ base } op = { scopes := p' ++ b' } := by
        cases hstep : step { scopes := pre ++ base } op; simp_all
      rw [hrun]
      obtain ⟨p'', b'', r1, r2⟩ := this
      exact ⟨p'', b'', r1, KeepsL.trans e3 r2⟩
    cases op with
    | push k =>
      simp only [staysAbove] at hd
      exact generic ((k, []) :: pre) (by rw [hs]; exact KeepsL.refl _) (by simpa [Nat.add_right_comm] using hd)
    | pushTemp items =>
      simp only [staysAbove] at hd
      exact generic ((Kind.command, []) :: pre) hs (by simpa [Nat.add_right_comm] using hd)
    | pop k =>
      simp only [staysAbove, Bool.and_eq_true, decide_eq_true_eq] at hd
      obtain ⟨hlt, hd'⟩ := hd
      cases pre with
      | nil => simp at hlt
      | cons p0 pre0 =>
        refine generic pre0 (by rw [hs]; exact KeepsL.refl _) ?_
        simpa using hd'
    | unset n => exact generic pre hs (by simpa [staysAbove] using hd)
    | unsetIndex n i => exact generic pre hs (by simpa [staysAbove] using hd)
    | updateOrAdd n lit u pol k => exact generic pre hs (by simpa [staysAbove] using hd)
    | updateOrAddElem n i v pol k => exact generic pre hs (by simpa [staysAbove] using hd)
    | add n v k => exact hop.elim
    | assign n idx lit ap => exact generic pre hs (by simpa [staysAbove] using hd)
    | declare n fl verb lit ai na inf => exact generic pre hs (by simpa [staysAbove] using hd)
    | exportName n un => exact generic pre hs (by simpa [staysAbove] using hd)
    | exportAssign n lit ap un => exact generic pre hs (by simpa [staysAbove] using hd)
    | assignDefault n v => exact generic pre hs (by simpa [staysAbove] using hd)


/-- non-vacuity: a readonly global below a function frame survives `x[0]=…`, `unset 'x[0]'`, `(( x[1]=… ))`, `x=…`, `for x`, `read x`,
`unset x`, `local`-free `declare x=…`, `export x=…` and a temporary assignment, at depth 3 → 1 → 2 -/
example :
    let ro : Var := { value := .str ['1'], readonly := true }
    let ops : List Op := [.assign ['x'] (some ['0']) (.scalar ['8']) false, .unsetIndex ['x'] ['0'],
      .updateOrAddElem ['x'] ['1'] ['9'] .anywhere .global, .assign ['x'] none (.scalar ['2']) false, .updateOrAdd ['x'] (.scalar ['3']) .nop .anywhere .global,
      .unset ['x'], .pop .loc, .pop .command, .pushTemp [(['x'], .scalar ['4'])], .exportAssign ['x'] (.scalar ['5']) false false,
      .declare ['x'] {} .declare (some (.scalar ['6'])) false false false, .assignDefault ['x'] ['7']]
    (∀ op ∈ ops, OpOk op) ∧ staysAbove 1 3 ops = true ∧
      (run { scopes := [(.loc, []), (.command, [])] ++ [(.global, [(['x'], ro)])] } ops).scopes.getLast? =
        some (.global, [(['x'], ro)]) := by
  refine ⟨by intro op h; simp at h; rcases h with h | h | h | h | h | h | h | h | h | h | h | h <;> subst h <;> simp [OpOk], by decide, by decide⟩

/-- **readonly_element_write_refused.**  `n[i]=v` / `n[i]+=v` on a name that resolves to a readonly
variable (in whatever scope) is refused and leaves the whole environment exactly as it was
(`declare -r a=(1 2); a[0]=x` — this used to succeed before `assign_at_index` got its check). -/
theorem readonly_element_write_refused (e : Env) (n i s : Str) (ap : Bool) (k : Kind) (v : Var)
    (hg : e.get n = some (k, v)) (hr : v.readonly = true) :
    stepR e (.assign n (some i) (.scalar s) ap) = (e, false) := by
  have hmod := modPol_refused n (fun w =>
      if (w.assignAtIndex i s ap).2 = true then ((w.assignAtIndex i s ap).1, true) else ((w.assignAtIndex i s ap).1, false))
    k v (by simp [Var.assignAtIndex, hr]) e.scopes 0 hg
  simp [stepR, Env.applyAssignment, hg, Env.modify, hmod]

/-- the same for the other element writers (`(( n[i]=… ))`, `printf -v 'n[i]'`, `${n[i]:=…}`, `mapfile -O`) -/
theorem readonly_element_update_refused (e : Env) (n i s : Str) (k k' : Kind) (v : Var)
    (hg : e.get n = some (k, v)) (hr : v.readonly = true) :
    stepR e (.updateOrAddElem n i s .anywhere k') = (e, false) := by
  have hmod := modPol_refused n (fun w => w.assignAtIndex i s false) k v (by simp [Var.assignAtIndex, hr]) e.scopes 0 hg
  simp [stepR, Env.updateOrAddElem, Env.modify, hmod]

private theorem unsetScopes_refused (n : Str) (k : Kind) (v : Var) (hr : v.readonly = true) :
    ∀ (s : List Scope) (lc : Nat), getScopes n s = some (k, v) → unsetScopes n lc s = (s, false) := by
  intro s
  induction s with
  | nil => intro lc h; simp [getScopes] at h
  | cons hd tl ih =>
    intro lc h
    obtain ⟨k', m⟩ := hd
    simp only [getScopes] at h
    cases hm : mget m n with
    | some v' =>
      simp only [hm] at h
      cases h
      simp [unsetScopes, hm, hr]
    | none =>
      simp only [hm] at h
      simp [unsetScopes, hm, ih _ h]

/-- **readonly_element_unset_refused.**  `unset 'n[i]'` on a readonly variable is refused and changes
nothing (`declare -r a=(1 2); unset 'a[0]'`; also `readonly x=5; unset 'x[0]'`, element 0 of a scalar). -/
theorem readonly_element_unset_refused (e : Env) (n i : Str) (k : Kind) (v : Var)
    (hg : e.get n = some (k, v)) (hr : v.readonly = true) :
    stepR e (.unsetIndex n i) = (e, false) := by
  have hmod := modPol_refused n (fun w => w.unsetIndex i) k v (by simp [Var.unsetIndex, hr]) e.scopes 0 hg
  have hun : e.unset n = (e, false) := by simp [Env.unset, unsetScopes_refused n k v hr e.scopes 0 hg]
  simp only [stepR, Env.unsetIndex]
  split
  · exact hun
  · simp [Env.modify, hmod]

example :
    let v0 : Var := { value := .indexed [(0, ['1']), (1, ['2'])], readonly := true }
    let e0 : Env := { scopes := [(.loc, []), (.global, [(['a'], v0)])] }
    e0.get ['a'] = some (.global, v0) ∧ v0.readonly = true ∧
      stepR e0 (.assign ['a'] (some ['0']) (.scalar ['x']) false) = (e0, false) ∧
      stepR e0 (.unsetIndex ['a'] ['1']) = (e0, false) := by decide

/-! ## dynamic scoping -/

/-- **callee_sees_callers_locals.**  Entering a command and a function (any number of fresh scopes of
any kind) does not change what any name resolves to: a callee sees its caller's locals. -/
theorem callee_sees_callers_locals (e : Env) (n : Str) (ks : List Kind) :
    (ks.foldl Env.push e).get n = e.get n := by
  induction ks generalizing e with
  | nil => rfl
  | cons k r ih =>
    simp only [List.foldl]
    rw [ih]
    simp [Env.get, Env.push, getScopes, mget]

/-- …and a callee's plain write lands in the caller's local, not in a global of the same name -/
example :
    let e : Env := { scopes := [(.loc, [(['x'], { value := .str ['1'] })]), (.command, []), (.global, [(['x'], { value := .str ['0'] })])] }
    (step ((e.push .command).push .loc) (.assign ['x'] none (.scalar ['9']) false)).scopes =
      [(.loc, []), (.command, []), (.loc, [(['x'], { value := .str ['9'] })]), (.command, []),
       (.global, [(['x'], { value := .str ['0'] })])] := by decide

/-! ## temporary assignments -/

/-- one prefix assignment stays inside the command scope on top -/
private theorem applyTemp_top (e : Env) (n : Str) (lit : Lit) (m : VMap) (r : List Scope)
    (h : e.scopes = (Kind.command, m) :: r) :
    ∃ m', (e.applyAssignment n none lit false true (some .command) .command).1.scopes = (Kind.command, m') :: r := by
  cases hm : mget m n with
  | some v0 =>
    simp [Env.applyAssignment, h, hm, Env.modify, modPol, eligible]
  | none =>
    by_cases hh : e.hidesReadonly n = true
    · simp [Env.applyAssignment, h, hm, hh]
    · cases lit <;> simp [Env.applyAssignment, h, hm, hh, Env.add, addScopes]

private theorem tempAssigns_top : ∀ (items : List (Str × Lit)) (e : Env) (m : VMap) (r : List Scope),
    e.scopes = (Kind.command, m) :: r → ∃ m', (tempAssigns e items).1.scopes = (Kind.command, m') :: r := by
  intro items
  induction items with
  | nil => intro e m r h; exact ⟨m, h⟩
  | cons it rest ih =>
    intro e m r h
    obtain ⟨n, lit⟩ := it
    obtain ⟨m1, h1⟩ := applyTemp_top e n lit m r h
    simp only [tempAssigns]
    cases heq : e.applyAssignment n none lit false true (some .command) .command with
    | mk e' ok =>
      rw [heq] at h1
      obtain ⟨m2, h2⟩ := ih e' m1 r h1
      cases heq2 : tempAssigns e' rest with
      | mk e'' ok' =>
        rw [heq2] at h2
        exact ⟨m2, h2⟩

/-- **temp_assignment_undone.**  `n1=v1 n2=v2 … cmd`, for any environment and any list of prefix
assignments: whatever they did happened in the command scope pushed for them, and popping it gives
back exactly the environment from before — also when the names already have temporary bindings from
enclosing commands (`x=1 f` where `f` runs `x=2 g`; this used to overwrite the outer binding). -/
theorem temp_assignment_undone (e : Env) (items : List (Str × Lit)) :
    ((e.pushTemp items).1).pop .command = (e, true) := by
  obtain ⟨m', h⟩ := tempAssigns_top items (e.push .command) [] e.scopes rfl
  simp [Env.pushTemp, Env.pop, h]


example :
    let e : Env := { scopes := [(.loc, []), (.command, [(['x'], { value := .str ['1'], exported := true })]), (.global, [])] }
    (e.pushTemp [(['x'], .scalar ['2'])]).1.get ['x'] = some (.command, { value := .str ['2'], exported := true }) ∧
      ((e.pushTemp [(['x'], .scalar ['2'])]).1.pop .command).1.get ['x'] = some (.command, { value := .str ['1'], exported := true }) := by
  decide

/-! ### …on every way the command can end -/

/-- body operations that do not themselves open or close scopes (nested calls are balanced pairs of
their own and are covered by applying the theorem to them first) -/
def Flat : Op → Prop
  | .push _ => False
  | .pop _ => False
  | .pushTemp _ => False
  | _ => True

private theorem run_flat_keeps : ∀ (ops : List Op) (e : Env), (∀ op ∈ ops, OpOk op ∧ Flat op) →
    KeepsL e.scopes (run e ops).scopes := by
  intro ops
  induction ops with
  | nil => intro e _; exact KeepsL.refl _
  | cons op rest ih =>
    intro e h
    have hop := h op (List.mem_cons_self ..)
    have hrest := ih (step e op) (fun o ho => h o (List.mem_cons_of_mem _ ho))
    have hs := step_keeps e op hop.1
    simp only [run]
    cases op with
    | push k => exact hop.2.elim
    | pop k => exact hop.2.elim
    | pushTemp items => exact hop.2.elim
    | _ => exact KeepsL.trans hs hrest

/-- **temp_assignments_removed_on_every_outcome.**  `n1=v1 … cmd`, for every environment, every list
of prefix assignments and every way the command ends — it never starts (failing redirection on the
call or on the function's definition, command not found, failing builtin), its function body stops
part-way (failing command, `return`, fatal expansion error) or runs to its end — with any body made
of the covered writers: both pops meet the scope they expect (`post_execute` removes the command
scope that holds the temporary bindings, not something else), the scope stack is back to the
caller's depth and kinds, every readonly binding of the caller is intact, and when the body wrote
nothing the caller's environment is exactly the one from before the call. -/
theorem temp_assignments_removed_on_every_outcome (e : Env) (items : List (Str × Lit)) (o : CallOutcome)
    (h : ∀ op ∈ o.body, OpOk op ∧ Flat op) :
    ∃ base', e.callWithTemp items o = ({ scopes := base' }, true) ∧ KeepsL e.scopes base' ∧
      (o.body = [] → base' = e.scopes) := by
  obtain ⟨m', hm⟩ := tempAssigns_top items (e.push .command) [] e.scopes rfl
  have key : ∀ body : List Op, (∀ op ∈ body, OpOk op ∧ Flat op) →
      ∃ base', postExecute ((e.pushTemp items).1.invokeFunction body) = ({ scopes := base' }, true) ∧
        KeepsL e.scopes base' ∧ (body = [] → base' = e.scopes) := by
    intro body hb
    have hk := run_flat_keeps body ((e.pushTemp items).1.push .loc) hb
    have hs : ((e.pushTemp items).1.push .loc).scopes = (Kind.loc, []) :: (Kind.command, m') :: e.scopes := by
      show (Kind.loc, []) :: (tempAssigns (e.push .command) items).1.scopes = _
      rw [hm]
    rw [hs] at hk
    match hrun : (run ((e.pushTemp items).1.push .loc) body).scopes, hk with
    | (k1, l1) :: (k2, m2) :: base', ⟨hk1, _, hk2, _, hbase⟩ =>
      refine ⟨base', ?_, hbase, ?_⟩
      · simp [postExecute, Env.invokeFunction, Env.pop, hrun, ← hk1, ← hk2]
      · intro hnil
        subst hnil
        simp only [run] at hrun
        rw [hs] at hrun
        simp only [List.cons.injEq] at hrun
        exact hrun.2.2.symm
  cases o with
  | abortedBefore =>
    refine ⟨e.scopes, ?_, KeepsL.refl _, fun _ => rfl⟩
    have := temp_assignment_undone e items
    simp [Env.callWithTemp, postExecute, this]
  | abortedDuring ran => exact key ran h
  | completed body => exact key body h

/-- non-vacuity: `x=tmp f` over a global and a readonly, `f`'s body declaring a local, exporting and assigning -/
example :
    let e : Env := { scopes := [(.global, [(['x'], { value := .str ['g'] }), (['r'], { value := .str ['1'], readonly := true })])] }
    let body : List Op := [.declare ['z'] {} .loc (some (.scalar ['1'])) false false true, .assign ['x'] none (.scalar ['b']) false]
    (∀ op ∈ (CallOutcome.abortedDuring body).body, OpOk op ∧ Flat op) ∧
      (e.callWithTemp [(['x'], .scalar ['t'])] (.abortedDuring body)) = (e, true) ∧
      (e.callWithTemp [(['x'], .scalar ['t'])] .abortedBefore) = (e, true) := by
  refine ⟨?_, by decide, by decide⟩
  intro op hop
  simp only [CallOutcome.body, List.mem_cons, List.mem_nil_iff, or_false] at hop
  rcases hop with rfl | rfl <;> simp [OpOk, Flat]

private theorem run_app : ∀ (a b : List Op) (e : Env), run e (a ++ b) = run (run e a) b
  | [], _, _ => rfl
  | op :: a, b, e => by simp only [List.cons_append, run]; exact run_app a b (step e op)

/-- the tie to the correspondence: the operation sequence the check drives through brush's real
`ShellEnvironment` and through the model for a call (`pt:… pu:l <body> po:l po:c`) is `callWithTemp` -/
theorem callWithTemp_is_the_driven_sequence (e : Env) (items : List (Str × Lit)) (body : List Op) :
    (e.callWithTemp items (.completed body)).1 = run e ([.pushTemp items, .push .loc] ++ body ++ [.pop .loc, .pop .command]) ∧
      (e.callWithTemp items .abortedBefore).1 = run e [.pushTemp items, .pop .command] := by
  constructor
  · rw [run_app]
    simp only [List.cons_append, List.nil_append, run, step, stepR, run_app, Env.callWithTemp, postExecute, Env.invokeFunction]
  · simp only [run, step, stepR, Env.callWithTemp, postExecute]

/-- the call as it goes when an early return between `enter_function` and `leave_function` skips
the latter (a failing redirection of the function's definition set up after the function scope was
entered): the Local scope stays on the stack and `post_execute` pops it in place of the command scope -/
def callSkippingLeave (e : Env) (items : List (Str × Lit)) : Env × Bool :=
  postExecute (((e.pushTemp items).1.push .loc), true)

/-- **skipped_leave_function_leaks.**  …and then the leak is observable, in every environment where
the name is not readonly: after `n=s f` the caller sees `n` bound to `s` in a left-over command
scope, exported, `post_execute`'s pop reports the wrong scope kind, and the stack is one deeper. -/
theorem skipped_leave_function_leaks (e : Env) (n s : Str) (hr : e.hidesReadonly n = false) :
    (callSkippingLeave e [(n, .scalar s)]).2 = false ∧
      (callSkippingLeave e [(n, .scalar s)]).1.get n = some (.command, { value := .str s, exported := true }) ∧
      (callSkippingLeave e [(n, .scalar s)]).1.scopes.length = e.scopes.length + 1 := by
  cases hg : getScopes n e.scopes with
  | none =>
    simp [callSkippingLeave, postExecute, Env.pushTemp, tempAssigns, Env.applyAssignment, Env.push, mget, hg,
      Env.hidesReadonly, Env.get, getScopes, Env.add, addScopes, mset, Env.pop]
  | some p =>
    obtain ⟨k, v⟩ := p
    have hv : v.readonly = false := by simpa [Env.hidesReadonly, Env.get, hg] using hr
    simp [callSkippingLeave, postExecute, Env.pushTemp, tempAssigns, Env.applyAssignment, Env.push, mget, hg, hv,
      Env.hidesReadonly, Env.get, getScopes, Env.add, addScopes, mset, Env.pop]

/-- on a concrete caller: the temporary value replaces the exported global in the shell's view and in every later child -/
example :
    let e : Env := { scopes := [(.global, [(['x'], { value := .str ['g'], exported := true })])] }
    (callSkippingLeave e [(['x'], .scalar ['t'])]).1.childEnv = [(['x'], ['t'])] ∧ e.childEnv = [(['x'], ['g'])] ∧
      (e.callWithTemp [(['x'], .scalar ['t'])] .abortedBefore).1.childEnv = [(['x'], ['g'])] := by decide

/-- a readonly variable is not hidden by a temporary assignment: the assignment is refused and the
command runs in an empty command scope -/
theorem readonly_not_hidden_by_temp_assignment (e : Env) (n : Str) (lit : Lit) (k : Kind) (v : Var)
    (hg : e.get n = some (k, v)) (hr : v.readonly = true) :
    e.pushTemp [(n, lit)] = (e.push .command, false) := by
  have hg' : getScopes n e.scopes = some (k, v) := hg
  simp [Env.pushTemp, tempAssigns, Env.applyAssignment, Env.push, mget, Env.hidesReadonly, Env.get, getScopes, hg', hr]


example :
    let e : Env := { scopes := [(.global, [(['x'], { value := .str ['1'], readonly := true })])] }
    (e.pushTemp [(['x'], .scalar ['2'])]).1.childEnv = [] ∧ (e.pushTemp [(['x'], .scalar ['2'])]).1.get ['x'] = e.get ['x'] := by
  decide

/-- **temp_assignment_undone_with_write.**  …and when the command itself writes `n` again (`read`,
`printf -v`, `getopts`, `mapfile`, any `update_or_add` writer) the write lands in the temporary
binding (or is refused with it, if `n` is readonly) and is gone afterwards. -/
theorem temp_assignment_undone_with_write (e : Env) (n : Str) (lit lit2 : Lit) :
    ((step (e.pushTemp [(n, lit)]).1 (.updateOrAdd n lit2 .nop .anywhere .global)).pop .command) = (e, true) := by
  cases hgn : getScopes n e.scopes with
  | none =>
    cases lit <;> simp [step, stepR, Env.updateOrAdd, Env.modify, modPol, eligible, mset, Env.pushTemp, tempAssigns, Env.applyAssignment, Env.push, Env.hidesReadonly, Env.get, getScopes, mget, hgn, Env.add, addScopes, Env.pop]
  | some p =>
    obtain ⟨k, v⟩ := p
    by_cases hr : v.readonly = true
    · -- refused: the write then meets the readonly variable itself and is refused too
      have h1 := readonly_not_hidden_by_temp_assignment e n lit k v hgn hr
      have hmod := modPol_refused n (fun w =>
          if (w.assign lit2 false).2 = true then (Updater.nop.app (w.assign lit2 false).1, true) else ((w.assign lit2 false).1, false))
        k v (by simp [Var.assign, hr]) e.scopes (bump Kind.command 0) hgn
      simp [h1, step, stepR, Env.updateOrAdd, Env.modify, modPol, eligible, Env.push, mget, hmod, Env.pop]
    · cases lit <;> simp [step, stepR, Env.updateOrAdd, Env.modify, modPol, eligible, mset, Env.pushTemp, tempAssigns, Env.applyAssignment, Env.push, Env.hidesReadonly, Env.get, getScopes, mget, hgn, hr, Env.add, addScopes, Env.pop]

/-- a readonly *global* is not hidden by a local: `local n…` in a fresh function frame is refused -/
theorem readonly_global_not_hidden_by_local (e : Env) (n : Str) (fl : DeclFlags) (lit : Option Lit) (ai na inf : Bool) (v : Var)
    (hg : e.get n = some (.global, v)) (hr : v.readonly = true) :
    stepR (e.push .loc) (.declare n fl .loc lit ai na inf) = (e.push .loc, false) := by
  have hg' : getScopes n e.scopes = some (.global, v) := hg
  simp [stepR, Env.declare, Env.push, Env.modify, modPol, eligible, bump, mget, Env.get, getScopes, hg', hr]


/-- a readonly local of a calling function may be shadowed (as in bash) -/
example :
    let e : Env := { scopes := [(.loc, [(['x'], { value := .str ['1'], readonly := true })]), (.global, [])] }
    (stepR (e.push .loc) (.declare ['x'] {} .loc (some (.scalar ['2'])) false false true)).2 = true := by decide

/-! ## function locals -/

/-- a writer aimed at `n` through the `Anywhere` policy (assignment, `for`, `read`, `printf -v`, `(( ))`, `${n:=…}`,
`getopts`, `mapfile`, `unset`, `export`) -/
inductive WritesTo (n : Str) : Op → Prop
  | assign (idx lit ap) : WritesTo n (.assign n idx lit ap)
  | upd (lit u k) : WritesTo n (.updateOrAdd n lit u .anywhere k)
  | elem (i v k) : WritesTo n (.updateOrAddElem n i v .anywhere k)
  | unset : WritesTo n (.unset n)
  | unsetIndex (i) : WritesTo n (.unsetIndex n i)
  | exportName (un) : WritesTo n (.exportName n un)

private theorem write_top (n : Str) (op : Op) (h : WritesTo n op) (m : VMap) (r : List Scope) (v : Var) (hm : mget m n = some v) :
    ∃ m' v', (step { scopes := (.loc, m) :: r } op).scopes = (.loc, m') :: r ∧ mget m' n = some v' := by
  have fin : ∀ w : Var, ∃ m' v', (Kind.loc, mset m n w) :: r = (Kind.loc, m') :: r ∧ mget m' n = some v' :=
    fun w => ⟨_, w, rfl, by simp [mget_mset]⟩
  cases h with
  | assign idx lit ap =>
    cases idx <;> cases lit <;>
      simp [step, stepR, Env.applyAssignment, Env.get, getScopes, hm, Env.modify, modPol, eligible] <;>
      first | exact fin _ | exact ⟨_, by simp [mget_mset]⟩ | simp [mget_mset]
  | upd lit u k => simp [step, stepR, Env.updateOrAdd, Env.modify, modPol, eligible, hm]; first | exact fin _ | exact ⟨_, by simp [mget_mset]⟩ | simp [mget_mset]
  | elem i v k => simp [step, stepR, Env.updateOrAddElem, Env.modify, modPol, eligible, hm]; first | exact fin _ | exact ⟨_, by simp [mget_mset]⟩ | simp [mget_mset]
  | unset =>
    simp only [step, stepR, Env.unset, unsetScopes, bump, hm]
    by_cases hro : v.readonly = true
    · simp [hro]; exact ⟨v, hm⟩
    · simp [hro]; first | exact fin _ | exact ⟨_, by simp [mget_mset]⟩ | simp [mget_mset]
  | unsetIndex i =>
    simp only [step, stepR, Env.unsetIndex]
    split
    · simp only [Env.unset, unsetScopes, bump, hm]
      by_cases hro : v.readonly = true
      · simp [hro]; exact ⟨v, hm⟩
      · simp [hro]; first | exact fin _ | exact ⟨_, by simp [mget_mset]⟩ | simp [mget_mset]
    · simp [Env.modify, modPol, eligible, hm]; first | exact fin _ | exact ⟨_, by simp [mget_mset]⟩ | simp [mget_mset]
  | exportName un => simp [step, stepR, Env.exportName, Env.modify, modPol, eligible, hm]; first | exact fin _ | exact ⟨_, by simp [mget_mset]⟩ | simp [mget_mset]

private theorem writes_top (n : Str) : ∀ (ops : List Op), (∀ op ∈ ops, WritesTo n op) → ∀ (m : VMap) (r : List Scope) (v : Var),
    mget m n = some v → ∃ m', (run { scopes := (.loc, m) :: r } ops).scopes = (.loc, m') :: r := by
  intro ops
  induction ops with
  | nil => intro _ m r v _; exact ⟨m, rfl⟩
  | cons op rest ih =>
    intro h m r v hm
    obtain ⟨m', v', h1, h2⟩ := write_top n op (h op (List.mem_cons_self ..)) m r v hm
    have : step { scopes := (.loc, m) :: r } op = { scopes := (.loc, m') :: r } := by
      cases hs : step { scopes := (.loc, m) :: r } op; simp_all
    simp only [run, this]
    exact ih (fun o ho => h o (List.mem_cons_of_mem _ ho)) m' r v' h2

/-- **local_restores_shadowed.**  In a fresh function frame, `local n` followed by *any* sequence of
writers aimed at `n` — assignments, `+=`, element assignments, `for`, `read`, `printf -v`, `(( ))`,
`getopts`, `mapfile`, `unset` (the tombstone keeps later writes local), `unset n[i]`, `export` — and then
the return: the environment is exactly the caller's again, whatever `n` was bound to below (unless
that is a readonly global, which `local` refuses to shadow: `readonly_global_not_hidden_by_local`). -/
theorem local_restores_shadowed (e : Env) (n : Str) (ops : List Op) (h : ∀ op ∈ ops, WritesTo n op)
    (hnr : ∀ v, e.get n = some (.global, v) → v.readonly = false) :
    (run (step (e.push .loc) (.declare n {} .loc none false false true)) ops).pop .loc = (e, true) := by
  have h0 : ∃ w : Var, step (e.push .loc) (.declare n {} .loc none false false true) =
      { scopes := (.loc, [(n, w)]) :: e.scopes } := by
    have hnr' : ∀ v, getScopes n e.scopes = some (.global, v) → v.readonly = false := hnr
    cases hg : getScopes n e.scopes with
    | none =>
      exact ⟨_, by simp [step, stepR, Env.declare, Env.push, Env.modify, modPol, eligible, bump, mget, Env.get, getScopes, hg,
        DeclFlags.before, setTransform, DeclFlags.after, Env.add, addScopes, mset]; rfl⟩
    | some p =>
      obtain ⟨k, v⟩ := p
      cases k with
      | global =>
        have := hnr' v hg
        exact ⟨_, by simp [step, stepR, Env.declare, Env.push, Env.modify, modPol, eligible, bump, mget, Env.get, getScopes, hg, this,
          DeclFlags.before, setTransform, DeclFlags.after, Env.add, addScopes, mset]; rfl⟩
      | loc =>
        exact ⟨_, by simp [step, stepR, Env.declare, Env.push, Env.modify, modPol, eligible, bump, mget, Env.get, getScopes, hg,
          DeclFlags.before, setTransform, DeclFlags.after, Env.add, addScopes, mset]; rfl⟩
      | command =>
        exact ⟨_, by simp [step, stepR, Env.declare, Env.push, Env.modify, modPol, eligible, bump, mget, Env.get, getScopes, hg,
          DeclFlags.before, setTransform, DeclFlags.after, Env.add, addScopes, mset]; rfl⟩
  obtain ⟨w, h0⟩ := h0
  rw [h0]
  obtain ⟨m', hm'⟩ := writes_top n ops h [(n, w)] e.scopes w (by simp [mget])
  simp [Env.pop, hm']

example : ∀ op ∈ [Op.assign ['x'] none (.scalar ['1']) false, .unset ['x'], .updateOrAdd ['x'] (.scalar ['2']) .nop .anywhere .global,
    .exportName ['x'] false], WritesTo ['x'] op := by
  intro op h
  simp at h
  rcases h with h | h | h | h <;> subst h <;> constructor

/-- without the tombstone the second write would land in the global: what `unset` leaves behind -/
example : (run { scopes := [(.loc, [(['x'], { value := .str ['1'] })]), (.global, [(['x'], { value := .str ['0'] })])] }
    [.unset ['x'], .assign ['x'] none (.scalar ['2']) false]).scopes =
    [(.loc, [(['x'], { value := .str ['2'] })]), (.global, [(['x'], { value := .str ['0'] })])] := by decide

/-! ## child environment -/

/-- what bash (and the property) ask for: exactly the visible bindings that are exported and set -/
def visibleExported (e : Env) (names : List Str) : List (Str × Str) :=
  names.filterMap fun n => match e.get n with
    | some (_, v) => if v.exported && v.value.isSet then some (n, (v.value.str0).getD []) else none
    | none => none

def exported_env_exact_full : Prop :=
  ∀ (e : Env) (n : Str) (s : Str), (n, s) ∈ e.childEnv ↔ (n, s) ∈ visibleExported e [n]

/-- `export e=2; f() { local e=3; env; }`: the visible `e` is the local, which is not exported, but
`iter_exported` drops it *before* the shadowing test and hands the hidden global `e=2` to the child. -/
theorem exported_env_exact_cex : ¬ exported_env_exact_full := by
  intro h
  have := (h { scopes := [(.loc, [(['e'], { value := .str ['3'] })]), (.global, [(['e'], { value := .str ['2'], exported := true })])] }
    ['e'] ['2']).mp (by decide)
  exact absurd this (by decide)

/-- **exported_env_exact (partial)**: with a single scope (no shadowing) the child environment is
exactly the exported, set, non-array bindings with their current values. -/
theorem exported_env_exact_partial (k : Kind) (m : VMap) (n s : Str) :
    (n, s) ∈ ({ scopes := [(k, m)] } : Env).childEnv ↔
      ∃ v, (n, v) ∈ m ∧ v.exported = true ∧ v.value.isSet = true ∧ v.value.isIndexed = false ∧
        v.value.isAssoc = false ∧ s = (v.value.str0).getD [] := by
  simp only [Env.childEnv, exportedScopes, List.append_nil, List.mem_filterMap, List.mem_filter]
  constructor
  · rintro ⟨⟨n', v⟩, ⟨hm, hx⟩, hs⟩
    simp at hx hs
    obtain ⟨⟨h1, h2, h3⟩, rfl, rfl⟩ := hs
    exact ⟨v, hm, hx.1, h1, h2, h3, rfl⟩
  · rintro ⟨v, hm, hx, hset, hi, ha, rfl⟩
    exact ⟨(n, v), ⟨hm, by simp [hx, hset]⟩, by simp [hset, hi, ha]⟩

example : ({ scopes := [(.global, [(['e'], { value := .str ['2'], exported := true }), (['u'], { value := .unset .untyped, exported := true }),
    (['p'], { value := .str ['9'] })])] } : Env).childEnv = [(['e'], ['2'])] := by decide

/-! ## the other repaired behaviours, on their witnesses -/

/-- `export e=2; f() { local e=3; env; }`: the local inherits the export attribute, the child gets e=3 -/
example :
    let e : Env := { scopes := [(.loc, []), (.command, []), (.global, [(['e'], { value := .str ['2'], exported := true })])] }
    (step e (.declare ['e'] {} .loc (some (.scalar ['3'])) false false true)).childEnv = [(['e'], ['3'])] := by decide

/-- `export e=1; f() { local e; env; }`: a declared-but-unset local does not hide the exported global -/
example :
    let e : Env := { scopes := [(.loc, []), (.command, []), (.global, [(['e'], { value := .str ['1'], exported := true })])] }
    (step e (.declare ['e'] {} .loc none false false true)).childEnv = [(['e'], ['1'])] := by decide

/-- `y=0; f() { local y=Ab; declare -g y=3; }`: `-g` reaches the global, the local is untouched -/
example :
    let e : Env := { scopes := [(.loc, [(['y'], { value := .str ['A', 'b'] })]), (.command, []), (.global, [(['y'], { value := .str ['0'] })])] }
    (step e (.declare ['y'] { g := true } .declare (some (.scalar ['3'])) false false true)).scopes =
      [(.loc, [(['y'], { value := .str ['A', 'b'] })]), (.command, []), (.global, [(['y'], { value := .str ['3'] })])] := by decide

/-- `export e; e=5`: the attribute is recorded and the later value reaches children -/
example : (run Env.init [.exportName ['e'] false, .assign ['e'] none (.scalar ['5']) false]).childEnv = [(['e'], ['5'])] := by decide

/-- `x=5; unset 'x[0]'` unsets x; `unset 'x[1]'` is refused -/
example :
    let e : Env := { scopes := [(.global, [(['x'], { value := .str ['5'] })])] }
    (step e (.unsetIndex ['x'] ['0'])).get ['x'] = none ∧ stepR e (.unsetIndex ['x'] ['1']) = (e, false) := by decide

/-- `declare -c a=ab; a[0]+=Ab` gives `Abab` -/
example :
    let e : Env := { scopes := [(.global, [(['a'], { value := .indexed [(0, ['A', 'b'])], transform := .cap })])] }
    ((step e (.assign ['a'] (some ['0']) (.scalar ['A', 'b']) true)).get ['a']).map (·.2.value) =
      some (.indexed [(0, ['A', 'b', 'a', 'b'])]) := by decide

/-- `a=(4 5); export a`: arrays do not reach children -/
example : ({ scopes := [(.global, [(['a'], { value := .indexed [(0, ['4']), (1, ['5'])], exported := true })])] } : Env).childEnv = [] := by decide

/-- `readonly x=1; declare -l x=Ab`: refused before the attribute is touched -/
example :
    let e : Env := { scopes := [(.global, [(['x'], { value := .str ['1'], readonly := true })])] }
    stepR e (.declare ['x'] { l := some true } .declare (some (.scalar ['A', 'b'])) false false false) = (e, false) := by decide

/-! ## context independence (the context sweep's theorem) -/

/-- operations a builtin performs inside its own command scope -/
def BuiltinWriter : Op → Prop
  | .unset _ => True
  | .unsetIndex _ _ => True
  | .exportName _ _ => True
  | .exportAssign _ _ _ _ => True
  | .assignDefault _ _ => True
  | .updateOrAdd _ _ _ _ k => k ≠ .command
  | .updateOrAddElem _ _ _ _ k => k ≠ .command
  | .declare _ _ _ _ _ _ _ => True
  | .assign _ _ _ _ => True
  | _ => False

/-- **command_scope_transparent.**  Every builtin runs inside a command scope of its own
(`execute_command` pushes it, `post_execute` pops it).  For every writer a builtin performs —
`unset`, `unset n[i]`, `export`, `read`/`printf -v`/`getopts`/`mapfile`/`(( ))` (`update_or_add*`),
`${n:=…}`, `declare`/`local`/`readonly`, and a plain assignment evaluated under one — running it under
that extra empty scope gives exactly the result of running it without, with the empty scope on top:
the writer reads and writes only the bindings that were visible before, in any environment. -/
theorem command_scope_transparent (e : Env) (op : Op) (h : BuiltinWriter op) :
    stepR (e.push .command) op = lift (stepR e op) := by
  cases op with
  | unset n => exact unset_push_command e n
  | unsetIndex n i => exact unsetIndex_push e n i
  | exportName n un => exact exportName_push e n un
  | exportAssign n lit ap un => exact exportAssign_push e n lit ap un
  | assignDefault n v => exact assignDefault_push e n v
  | updateOrAdd n lit u pol k => exact updateOrAdd_push e n lit u pol k h
  | updateOrAddElem n i v pol k => exact updateOrAddElem_push e n i v pol k h
  | declare n fl verb lit ai na inf => exact declare_push e n fl verb lit ai na inf
  | assign n idx lit ap => exact applyPlain_push e n idx lit ap false
  | push k => exact h.elim
  | pop k => exact h.elim
  | add n v k => exact h.elim
  | pushTemp items => exact h.elim

/-- **observers_ignore_wrapper_scopes.**  What a name resolves to and what a child process receives do
not depend on how many empty scopes (the probe's own command scope, the frames of a probing function)
lie on top: the observers of the sweep see the same bindings in every wrapper. -/
theorem observers_ignore_wrapper_scopes (e : Env) (ks : List Kind) (n : Str) :
    (ks.foldl Env.push e).get n = e.get n ∧ (ks.foldl Env.push e).childEnv = e.childEnv := by
  refine ⟨callee_sees_callers_locals e n ks, ?_⟩
  induction ks generalizing e with
  | nil => rfl
  | cons k r ih =>
    simp only [List.foldl]
    rw [ih]
    simp [Env.childEnv, Env.push, exportedScopes]

/-- non-vacuity: `read x` inside `f` (local x over a global x), with and without the builtin's command scope -/
example :
    let e : Env := { scopes := [(.loc, [(['x'], { value := .str ['l'] })]), (.command, []), (.global, [(['x'], { value := .str ['g'], exported := true })])] }
    BuiltinWriter (.updateOrAdd ['x'] (.scalar ['v']) .nop .anywhere .global) ∧
      (stepR (e.push .command) (.updateOrAdd ['x'] (.scalar ['v']) .nop .anywhere .global)).1.scopes =
        [(.command, []), (.loc, [(['x'], { value := .str ['v'] })]), (.command, []), (.global, [(['x'], { value := .str ['g'], exported := true })])] ∧
      ((e.push .command).push .loc).childEnv = [(['x'], ['g'])] := by
  refine ⟨by simp [BuiltinWriter], by decide, by decide⟩

end BrushVerif.C09
