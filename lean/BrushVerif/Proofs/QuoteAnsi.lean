import BrushVerif.Proofs.Quote
/-! Lemmas about `$'…'`: the decoder `runA` on what `ansiChar` emits, and the reader's `ac` state. -/
namespace BrushVerif.Quote
open BrushVerif.Wire
open BrushVerif.Gen.QuoteTables

variable (b : Bool)

theorem runA_cons (st : ASt) (c : Char) (cs : Str) :
    runA b st (c :: cs) =
      match (step b st c).2, runA b (step b st c).1 cs with
      | some o, some r => some (o ++ r)
      | _, _ => none := by
  cases h1 : (step b st c).2 <;> cases h2 : runA b (step b st c).1 cs <;> simp [runA, h1, h2]

theorem runA_lit (c : Char) (u : Str) (h : c ≠ '\\') :
    runA b .norm (c :: u) = (runA b .norm u).map (c :: ·) := by
  rw [runA_cons]
  simp only [step, stepNorm, h, if_false]
  cases runA b .norm u <;> simp

theorem runA_esc (x c : Char) (u : Str) (h : stepEsc b x = (.norm, some [c])) :
    runA b .norm ('\\' :: x :: u) = (runA b .norm u).map (c :: ·) := by
  rw [runA_cons]
  simp only [step, stepNorm, if_true]
  rw [runA_cons]
  simp only [step, h]
  cases runA b .norm u <;> simp

theorem runA_oct_digit (k acc v : Nat) (x : Char) (u : Str) (h : oct? x = some v) :
    runA b (.oct (k + 1) acc) (x :: u) = runA b (.oct k (acc * 8 + v)) u := by
  rw [runA_cons]
  simp only [step, h]
  cases runA b (.oct k (acc * 8 + v)) u <;> simp

theorem runA_oct_stop (k acc : Nat) (u : Str) (h : k = 0 ∨ ∀ x, u.head? = some x → oct? x = none) :
    runA b (.oct k acc) u = (emitByte acc).bind fun o => (runA b .norm u).map (o ++ ·) := by
  cases u with
  | nil => cases he : emitByte acc <;> simp [runA, flush, he]
  | cons x xs =>
    have hs : step b (.oct k acc) x =
        ((stepNorm x).1, (emitByte acc).bind fun o => (stepNorm x).2.map (o ++ ·)) := by
      rcases h with h | h
      · subst h; simp [step]
      · have hx := h x rfl
        cases k <;> simp [step, hx]
    rw [runA_cons, hs, runA_cons]
    simp only [step]
    cases emitByte acc <;> cases (stepNorm x).2 <;> cases runA b (stepNorm x).1 xs <;> simp

/-! ### what `ansiChar` emits -/

def namedOk (bb : Bool) (e : Char × Str) : Bool :=
  match e.2 with
  | ['\\', x] => stepEsc bb x == (ASt.norm, some [e.1]) && x != '\n'
  | _ => false

theorem named_all : ∀ bb, ansiNamedTable.all (namedOk bb) = true := by decide

theorem mem_of_lookup (l : List (Char × Str)) (a : Char) (v : Str) (h : l.lookup a = some v) : (a, v) ∈ l := by
  induction l with
  | nil => simp [List.lookup] at h
  | cons e l ih =>
    obtain ⟨k, w⟩ := e
    by_cases hk : a = k
    · subst hk; simp [List.lookup] at h; simp [h]
    · have : (a == k) = false := by simpa using hk
      simp [List.lookup, this] at h
      exact List.mem_cons_of_mem _ (ih h)

theorem named_shape (c : Char) (rep : Str) (h : ansiNamedTable.lookup c = some rep) :
    ∃ x, rep = ['\\', x] ∧ stepEsc b x = (.norm, some [c]) ∧ x ≠ '\n' := by
  have hm := mem_of_lookup _ _ _ h
  have := List.all_eq_true.mp (named_all b) _ hm
  unfold namedOk at this
  split at this
  · rename_i x hx
    simp only [Bool.and_eq_true, beq_iff_eq, bne_iff_ne] at this
    exact ⟨x, hx, this.1, this.2⟩
  · exact absurd this (by decide)

theorem oct_digit_fact : ∀ j, j < 8 → oct? (Char.ofNat (48 + j)) = some j ∧
    Char.ofNat (48 + j) ≠ '\'' ∧ Char.ofNat (48 + j) ≠ '\\' ∧ Char.ofNat (48 + j) ≠ '\n' := by decide

theorem oct_octDigit (k : Nat) : oct? (octDigit k) = some (k % 8) :=
  (oct_digit_fact (k % 8) (Nat.mod_lt _ (by decide))).1

theorem stepEsc_zero : stepEsc b '0' = (.oct 2 0, some []) := by
  cases b <;> decide

theorem stepEsc_one : stepEsc b '1' = (.oct 2 1, some []) := by
  cases b <;> decide

theorem emitByte_ok (n : Nat) (h0 : n ≠ 0) (h1 : n < 128) : emitByte n = some [Char.ofNat n] := by
  unfold emitByte; rw [if_neg]; omega

theorem decode_octal (n : Nat) (u : Str) (h0 : n ≠ 0) (hn : n < 32 ∨ n = 127) :
    runA b .norm ('\\' :: (oct3 n ++ u)) = (runA b .norm u).map (Char.ofNat n :: ·) := by
  rw [runA_cons]
  simp only [step, stepNorm, if_true]
  rcases hn with hn | hn
  · have h64 : n / 64 = 0 := by omega
    have hd2 : octDigit (n / 64) = '0' := by rw [h64]; decide
    simp only [oct3, hd2, List.cons_append, List.nil_append]
    rw [runA_cons]
    simp only [step, stepEsc_zero]
    rw [runA_oct_digit b 1 0 _ _ _ (oct_octDigit (n / 8)), runA_oct_digit b 0 _ _ _ _ (oct_octDigit n),
      runA_oct_stop b 0 _ u (Or.inl rfl)]
    have : (0 * 8 + n / 8 % 8) * 8 + n % 8 = n := by omega
    rw [this, emitByte_ok n h0 (by omega)]
    cases runA b .norm u <;> simp
  · subst hn
    have : oct3 127 = ['1', '7', '7'] := by decide
    simp only [this, List.cons_append, List.nil_append]
    rw [runA_cons]
    simp only [step, stepEsc_one]
    have h7 : oct? '7' = some 7 := by decide
    rw [runA_oct_digit b 1 1 _ _ _ h7, runA_oct_digit b 0 _ _ _ _ h7, runA_oct_stop b 0 _ u (Or.inl rfl)]
    rw [emitByte_ok 127 (by decide) (by decide)]
    cases runA b .norm u <;> simp

theorem lookup_bslash : (ansiNamedTable.lookup '\\').isSome = true := by decide
theorem lookup_quote : (ansiNamedTable.lookup '\'').isSome = true := by decide

/-- decoding what `ansiChar c` emits gives `c` back, whatever follows -/
theorem decode_ansiChar (c : Char) (u : Str) (hnul : c.toNat ≠ 0) :
    runA b .norm (ansiChar c ++ u) = (runA b .norm u).map (c :: ·) := by
  unfold ansiChar
  cases hl : ansiNamedTable.lookup c with
  | some rep =>
    obtain ⟨x, hx, hs, _⟩ := named_shape b c rep hl
    simp only [hx, List.cons_append, List.nil_append]
    exact runA_esc b x c u hs
  | none =>
    simp only
    by_cases hc : needsAnsiC c = true
    · simp only [hc, if_true]
      have hn : c.toNat < 32 ∨ c.toNat = 127 := by
        simpa [needsAnsiC, isAsciiControl] using hc
      have hm : c.toNat % 256 = c.toNat := by omega
      rw [hm]
      have := decode_octal b c.toNat u hnul hn
      rw [Char.ofNat_toNat] at this
      exact this
    · simp only [hc, Bool.false_eq_true, if_false, List.cons_append, List.nil_append]
      have : c ≠ '\\' := by
        intro e; subst e; have := lookup_bslash; rw [hl] at this; exact absurd this (by decide)
      exact runA_lit b c u this

theorem decode_ansi (s : Str) (hnul : ∀ c ∈ s, c.toNat ≠ 0) :
    runA b .norm (s.flatMap ansiChar) = some s := by
  induction s with
  | nil => simp [runA, flush]
  | cons c cs ih =>
    have ih' := ih (fun x hx => hnul x (by simp [hx]))
    rw [List.flatMap_cons, decode_ansiChar b c _ (hnul c (by simp)), ih']
    simp

/-! ### the reader's `ac` state -/

namespace Res
def addRaw (p : Str) : Res → Res
  | ok raw cur rest => ok (p ++ raw) cur rest
  | r => r
theorem pushRaw_eq (c : Char) (r : Res) : pushRaw c r = addRaw [c] r := by cases r <;> rfl
@[simp] theorem addRaw_addRaw (p q : Str) (r : Res) : addRaw p (addRaw q r) = addRaw (p ++ q) r := by
  cases r <;> simp [addRaw]
end Res

theorem raw_ansiChar (c : Char) (u : Str) :
    rd b .ac (ansiChar c ++ u) = (rd b .ac u).addRaw (ansiChar c) := by
  unfold ansiChar
  cases hl : ansiNamedTable.lookup c with
  | some rep =>
    obtain ⟨x, hx, _, hnl⟩ := named_shape b c rep hl
    simp only [hx, List.cons_append, List.nil_append]
    rw [rd_ac_bs b x u hnl]; simp [Res.pushRaw_eq]
  | none =>
    simp only
    by_cases hc : needsAnsiC c = true
    · simp only [hc, if_true, oct3, List.cons_append, List.nil_append]
      have f : ∀ k, oct? (octDigit k) = some (k % 8) ∧ octDigit k ≠ '\'' ∧ octDigit k ≠ '\\' ∧ octDigit k ≠ '\n' :=
        fun k => oct_digit_fact (k % 8) (Nat.mod_lt _ (by decide))
      rw [rd_ac_bs b _ _ (f _).2.2.2, rd_ac_c b _ _ (f _).2.1 (f _).2.2.1, rd_ac_c b _ _ (f _).2.1 (f _).2.2.1]
      simp [Res.pushRaw_eq]
    · simp only [hc, Bool.false_eq_true, if_false, List.cons_append, List.nil_append]
      have h1 : c ≠ '\'' := by
        intro e; subst e; have := lookup_quote; rw [hl] at this; exact absurd this (by decide)
      have h2 : c ≠ '\\' := by
        intro e; subst e; have := lookup_bslash; rw [hl] at this; exact absurd this (by decide)
      rw [rd_ac_c b c u h1 h2]; simp [Res.pushRaw_eq]

theorem raw_ansi (s t : Str) :
    rd b .ac (s.flatMap ansiChar ++ '\'' :: t) = ((rd b (.un true false) t).dropRaw).addRaw (s.flatMap ansiChar) := by
  induction s with
  | nil => simp [rd_ac_q]; cases rd b (.un true false) t <;> simp [Res.dropRaw, Res.addRaw]
  | cons c cs ih => simp [raw_ansiChar, ih]

/-- an ANSI-C quoted word alone on the line -/
theorem read_ansiCQuote (st ws : Bool) (s : Str) (h : expandAnsiC b (s.flatMap ansiChar) = some s) :
    rd b (.un st ws) (ansiCQuote s) = .ok [] (some s) [] := by
  unfold ansiCQuote
  rw [rd_un_ansi, raw_ansi b s []]
  simp [rd_un_nil, Res.dropRaw, Res.addRaw, Res.closeAnsi, h]

end BrushVerif.Quote
