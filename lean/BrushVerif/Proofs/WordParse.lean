import BrushVerif.Model.WordParse
/-! Lemmas about the word-parser model: every rule consumes input (progress), spans tile. -/
namespace BrushVerif.WordParse
open BrushVerif.Wire

theorem blen_cons_lt (c : Char) (s : Str) : blen s < blen (c :: s) := by
  have := Char.utf8Size_pos c
  simp only [blen]; omega

theorem spanP_le (p : Char → Bool) (s : Str) : blen (spanP p s).2 ≤ blen s := by
  induction s with
  | nil => simp [spanP]
  | cons c cs ih =>
    simp only [spanP]; split
    · have := blen_cons_lt c cs; simp only; omega
    · exact Nat.le_refl _

theorem litRun_le (stop : Bool) (s : Str) : blen (litRun stop s).2 ≤ blen s := by
  induction s with
  | nil => simp [litRun]
  | cons c cs ih =>
    simp only [litRun]; split
    · exact Nat.le_refl _
    · have := blen_cons_lt c cs; simp only; omega

theorem dqRun_le (s : Str) : blen (dqRun s).2 ≤ blen s := by
  induction s with
  | nil => simp [dqRun]
  | cons c cs ih =>
    have := blen_cons_lt c cs
    simp only [dqRun]; split
    · exact Nat.le_refl _
    · split
      · split
        · exact Nat.le_refl _
        · simp only; omega
      · simp only; omega

theorem takeUntil_lt (q : Char) (s b r : Str) (h : takeUntil q s = some (b, r)) : blen r < blen s := by
  induction s generalizing b with
  | nil => simp [takeUntil] at h
  | cons c cs ih =>
    have := blen_cons_lt c cs
    simp only [takeUntil] at h
    split at h
    · simp only [Option.some.injEq, Prod.mk.injEq] at h; rw [← h.2]; exact this
    · split at h
      · rename_i b' r' hh
        simp only [Option.some.injEq, Prod.mk.injEq] at h
        have := ih b' (by rw [hh, h.2])
        omega
      · simp at h

/-- What the parser needs from the inner-word skipper. -/
def SkipOk (skip : Str → Res Str) : Prop := ∀ w r, skip w = .ok r → blen r ≤ blen w

theorem bracedParam_le (s : Str) (p : Prm) (q : Str) (h : bracedParam s = some (p, q)) : blen q < blen s := by
  cases s with
  | nil => simp [bracedParam] at h
  | cons c r =>
    have := blen_cons_lt c r
    simp only [bracedParam] at h
    split at h
    · split at h
      · simp only [Option.some.injEq, Prod.mk.injEq] at h
        have := spanP_le isDigit r; rw [← h.2]; omega
      · simp at h
    · split at h
      · simp only [Option.some.injEq, Prod.mk.injEq] at h; rw [← h.2]; exact this
      · split at h
        · simp only [Option.some.injEq, Prod.mk.injEq] at h
          have := spanP_le isNameChar r; rw [← h.2]; omega
        · simp at h

theorem bracedOp_le (s : Str) (c : Bool) (o w : Str) (h : bracedOp s = some (c, o, w)) : blen w < blen s := by
  unfold bracedOp at h
  split at h
  · rename_i a b r
    have := blen_cons_lt ':' (b :: r); have := blen_cons_lt b r
    split at h <;> simp only [Option.some.injEq, Prod.mk.injEq, reduceCtorEq] at h
    rw [← h.2.2]; omega
  · rename_i r
    have := blen_cons_lt '%' ('%' :: r); have := blen_cons_lt '%' r
    simp only [Option.some.injEq, Prod.mk.injEq] at h; rw [← h.2.2]; omega
  · rename_i r
    have := blen_cons_lt '#' ('#' :: r); have := blen_cons_lt '#' r
    simp only [Option.some.injEq, Prod.mk.injEq] at h; rw [← h.2.2]; omega
  · rename_i a r _ _ _
    have := blen_cons_lt a r
    split at h <;> simp only [Option.some.injEq, Prod.mk.injEq, reduceCtorEq] at h
    rw [← h.2.2]; omega
  · simp at h

/-- `$…` never gives input back: the remaining input is no longer than what followed the `$`. -/
theorem dollar_le (skip : Str → Res Str) (hs : SkipOk skip) (inDq : Bool) (s : Str) (a : Atom) (r : Str)
    (h : dollar skip inDq s = .ok (a, r)) : blen r ≤ blen s := by
  unfold dollar at h
  split at h
  · simp at h
  · simp at h
  · simp at h
  · split at h
    · simp only [Res.ok.injEq, Prod.mk.injEq] at h; rw [← h.2]; exact Nat.le_refl _
    · simp at h
  · rename_i r0
    have := blen_cons_lt '(' ('(' :: r0); have := blen_cons_lt '(' r0
    have hsp := spanP_le isPlain r0
    split at h
    · rename_i r' hb
      have := blen_cons_lt ')' (')' :: r'); have := blen_cons_lt ')' r'
      rw [hb] at hsp
      simp only [Res.ok.injEq, Prod.mk.injEq] at h; rw [← h.2]; omega
    · simp at h
  · rename_i r0 _
    have := blen_cons_lt '(' r0
    have hsp := spanP_le isPlain r0
    split at h
    · rename_i r' hb
      have := blen_cons_lt ')' r'
      rw [hb] at hsp
      simp only [Res.ok.injEq, Prod.mk.injEq] at h; rw [← h.2]; omega
    · simp only [Res.ok.injEq, Prod.mk.injEq] at h; rw [← h.2]; exact Nat.le_refl _
    · simp at h
  · rename_i r0
    have h0 := blen_cons_lt '{' r0
    split at h
    · simp only [Res.ok.injEq, Prod.mk.injEq] at h; rw [← h.2]; exact Nat.le_refl _
    · split at h
      · simp only [Res.ok.injEq, Prod.mk.injEq] at h; rw [← h.2]; exact Nat.le_refl _
      · split at h
        · simp at h
        · rename_i p q hp
          have := bracedParam_le _ _ _ hp
          split at h
          · rename_i q'
            have := blen_cons_lt '}' q'
            simp only [Res.ok.injEq, Prod.mk.injEq] at h; rw [← h.2]; omega
          · split at h
            · simp at h
            · rename_i colon op w ho
              have := bracedOp_le _ _ _ _ ho
              split at h
              · rename_i q' hk
                have := hs _ _ hk
                have := blen_cons_lt '}' q'
                simp only [Res.ok.injEq, Prod.mk.injEq] at h; rw [← h.2]; omega
              · simp at h
  · rename_i c r0 _ _ _ _ _ _ _
    have := blen_cons_lt c r0
    split at h
    · simp only [Res.ok.injEq, Prod.mk.injEq] at h; rw [← h.2]; omega
    · split at h
      · simp only [Res.ok.injEq, Prod.mk.injEq] at h; rw [← h.2]; omega
      · split at h
        · have := spanP_le isNameChar r0
          simp only [Res.ok.injEq, Prod.mk.injEq] at h; rw [← h.2]; omega
        · simp only [Res.ok.injEq, Prod.mk.injEq] at h; rw [← h.2]; exact Nat.le_refl _
  · simp only [Res.ok.injEq, Prod.mk.injEq] at h; rw [← h.2]; exact Nat.le_refl _

theorem dqOne_le (skip : Str → Res Str) (hs : SkipOk skip) (c : Char) (r : Str) (a : Atom) (r' : Str)
    (h : dqOne skip c r = .ok (a, r')) : blen r' ≤ blen r := by
  unfold dqOne at h
  split at h
  · simp at h
  · split at h
    · exact dollar_le skip hs true r a r' h
    · have := dqRun_le r
      split at h
      · rename_i d r0 _ _
        have := blen_cons_lt d r0
        split at h <;> (simp only [Res.ok.injEq, Prod.mk.injEq] at h; rw [← h.2]; omega)
      · simp only [Res.ok.injEq, Prod.mk.injEq] at h; rw [← h.2]; omega

/-- Spans `(start, end)` that are in order, adjacent, non-empty, and cover `[a, b)`. -/
def Tiles : Nat → Nat → List (Nat × Nat) → Prop
  | a, b, [] => a = b
  | a, b, (s, e) :: rest => s = a ∧ s < e ∧ Tiles e b rest

/-- A closed double-quoted sequence: the remaining input is shorter, and the inner pieces tile the text between
the quotes. -/
theorem dqGo_tiles (skip : Str → Res Str) (hs : SkipOk skip) (tot k : Nat) (s : Str) (as : List SA) (r : Str)
    (hle : blen s ≤ tot) (h : dqGo skip tot k s = .ok (as, r)) :
    blen r < blen s ∧ Tiles (tot - blen s) (tot - (blen r + 1)) (as.map fun x => (x.s, x.e)) := by
  induction k generalizing s as r with
  | zero => simp [dqGo] at h
  | succ k ih =>
    cases s with
    | nil => simp [dqGo] at h
    | cons c r0 =>
      have hc := blen_cons_lt c r0
      simp only [dqGo] at h
      split at h
      · rename_i hq
        simp only [Res.ok.injEq, Prod.mk.injEq] at h
        rw [← h.1, ← h.2, hq]
        refine ⟨blen_cons_lt _ _, ?_⟩
        simp only [List.map_nil, Tiles, blen]
        have : ('"' : Char).utf8Size = 1 := by decide
        omega
      · split at h
        · rename_i a r' h1
          have h1' := dqOne_le skip hs c r0 a r' h1
          split at h
          · rename_i as' r'' h2
            simp only [Res.ok.injEq, Prod.mk.injEq] at h
            have := ih r' as' r'' (by omega) h2
            rw [← h.1, ← h.2]
            refine ⟨by omega, ?_⟩
            simp only [List.map_cons, Tiles]
            exact ⟨trivial, by omega, this.2⟩
          · simp at h
          · simp at h
        · simp at h
        · simp at h

theorem wordOne_lt (skip : Str → Res Str) (hs : SkipOk skip) (stop : Bool) (tot : Nat) (c : Char) (r : Str)
    (p : Piece) (r' : Str) (hle : blen r ≤ tot) (h : wordOne skip stop tot c r = .ok (p, r')) : blen r' ≤ blen r := by
  unfold wordOne at h
  split at h
  · split at h
    · rename_i as r1 h1
      have := (dqGo_tiles skip hs tot _ r as r1 hle h1).1
      simp only [Res.ok.injEq, Prod.mk.injEq] at h; rw [← h.2]; omega
    · simp at h
    · simp at h
  · split at h
    · split at h
      · rename_i b r1 h1
        have := takeUntil_lt _ _ _ _ h1
        simp only [Res.ok.injEq, Prod.mk.injEq] at h; rw [← h.2]; omega
      · simp at h
    · split at h
      · split at h
        · rename_i a r1 h1
          have := dollar_le skip hs false r a r1 h1
          simp only [Res.ok.injEq, Prod.mk.injEq] at h; rw [← h.2]; omega
        · simp at h
        · simp at h
      · split at h
        · simp at h
        · have := litRun_le stop r
          split at h
          · rename_i d r0 _ _ _ _
            have := blen_cons_lt d r0
            simp only [Res.ok.injEq, Prod.mk.injEq] at h; rw [← h.2]; omega
          · simp only [Res.ok.injEq, Prod.mk.injEq] at h; rw [← h.2]; omega

/-- The piece loop: the pieces tile exactly the consumed part of the input. -/
theorem wordGo_tiles (skip : Str → Res Str) (hs : SkipOk skip) (stop : Bool) (tot k : Nat) (s : Str)
    (ps : List SP) (r : Str) (hle : blen s ≤ tot) (h : wordGo skip stop tot k s = .ok (ps, r)) :
    blen r ≤ blen s ∧ Tiles (tot - blen s) (tot - blen r) (ps.map fun x => (x.s, x.e))
      ∧ (stop = false → r = []) := by
  induction k generalizing s ps r with
  | zero => simp [wordGo] at h
  | succ k ih =>
    cases s with
    | nil =>
      simp only [wordGo, Res.ok.injEq, Prod.mk.injEq] at h
      rw [← h.1, ← h.2]; simp [Tiles]
    | cons c r0 =>
      have hc := blen_cons_lt c r0
      simp only [wordGo] at h
      split at h
      · rename_i hq
        simp only [Res.ok.injEq, Prod.mk.injEq] at h
        rw [← h.1, ← h.2]
        refine ⟨Nat.le_refl _, by simp [Tiles], ?_⟩
        intro hf; rw [hf] at hq; simp at hq
      · split at h
        · rename_i p r' h1
          have h1' := wordOne_lt skip hs stop tot c r0 p r' (by omega) h1
          split at h
          · rename_i ps' r'' h2
            simp only [Res.ok.injEq, Prod.mk.injEq] at h
            have := ih r' ps' r'' (by omega) h2
            rw [← h.1, ← h.2]
            refine ⟨by omega, ?_, this.2.2⟩
            simp only [List.map_cons, Tiles]
            exact ⟨trivial, by omega, this.2.1⟩
          · simp at h
          · simp at h
        · simp at h
        · simp at h

theorem skipN_ok (n : Nat) : SkipOk (skipN n) := by
  induction n with
  | zero => intro w r h; simp [skipN] at h
  | succ n ih =>
    intro w r h
    simp only [skipN] at h
    split at h
    · rename_i ps r' h1
      simp only [Res.ok.injEq] at h
      have := (wordGo_tiles _ ih true _ _ w ps r' (Nat.le_refl _) h1).1
      rw [← h]; exact this
    · simp at h
    · simp at h

theorem tildeUser_le (s : Str) (t : Tilde) (r : Str) (h : tildeUser s = some (t, r)) : blen r ≤ blen s := by
  unfold tildeUser at h
  have := spanP_le isPortable s
  split at h
  · simp only [Option.some.injEq, Prod.mk.injEq] at h; rw [← h.2]; omega
  · simp at h

theorem tildeExpr_le (s : Str) (t : Tilde) (r : Str) (h : tildeExpr s = some (t, r)) : blen r ≤ blen s := by
  unfold tildeExpr at h
  split at h
  · simp only [Option.some.injEq, Prod.mk.injEq] at h; rw [← h.2]; exact Nat.le_refl _
  · split at h
    · rename_i r0 _
      have := blen_cons_lt '+' r0
      have := spanP_le isDigit r0
      split at h
      · simp only [Option.some.injEq, Prod.mk.injEq] at h; rw [← h.2]; omega
      · split at h
        · simp only [Option.some.injEq, Prod.mk.injEq] at h; rw [← h.2]; omega
        · simp at h
    · rename_i r0 _
      have := blen_cons_lt '-' r0
      have := spanP_le isDigit r0
      split at h
      · simp only [Option.some.injEq, Prod.mk.injEq] at h; rw [← h.2]; omega
      · split at h
        · simp only [Option.some.injEq, Prod.mk.injEq] at h; rw [← h.2]; omega
        · exact tildeUser_le _ _ _ h
    · have := spanP_le isDigit s
      split at h
      · simp only [Option.some.injEq, Prod.mk.injEq] at h; rw [← h.2]; omega
      · exact tildeUser_le _ _ _ h

/-! ### Rendering a piece list and parsing it back (quote/escape/plain-text fragment) -/

def renderAtoms : List Atom → Str
  | [] => []
  | a :: as => renderAtom a ++ renderAtoms as

/-- A character that the word grammar never treats specially outside quotes (and that cannot start a tilde prefix). -/
def Ordinary (c : Char) : Prop := c ≠ '\'' ∧ c ≠ '"' ∧ c ≠ '$' ∧ c ≠ '`' ∧ c ≠ '\\' ∧ c ≠ '~'

def isTextAtom : Atom → Bool
  | .text _ => true
  | _ => false

/-- The atoms of the restricted normal form. -/
def OkAtom : Atom → Prop
  | .text t => t ≠ [] ∧ ∀ c ∈ t, Ordinary c
  | .sq b => '\'' ∉ b
  | .esc s => ∃ c, s = ['\\', c]
  | _ => False

/-- Restricted normal form: single-quoted pieces without `'`, escapes `\c`, non-empty runs of ordinary characters,
no two text runs adjacent. -/
def NF : List Atom → Prop
  | [] => True
  | a :: rest => OkAtom a ∧ NF rest ∧ (isTextAtom a = true → ∀ b ∈ rest.head?, isTextAtom b = false)

/-- The spans `position!()` gives the pieces when the remaining input is the rendering of the remaining pieces. -/
def spannedFrom (tot : Nat) : List Atom → List SP
  | [] => []
  | a :: as => ⟨.atom a, tot - blen (renderAtoms (a :: as)), tot - blen (renderAtoms as)⟩ :: spannedFrom tot as

theorem renderWord_spannedFrom (tot : Nat) (as : List Atom) : renderWord (spannedFrom tot as) = renderAtoms as := by
  induction as with
  | nil => rfl
  | cons a as ih =>
    unfold renderWord at ih ⊢
    rw [spannedFrom, List.flatMap_cons, ih]
    rfl

theorem takeUntil_append (q : Char) (b r : Str) (hb : q ∉ b) : takeUntil q (b ++ q :: r) = some (b, r) := by
  induction b with
  | nil => simp [takeUntil]
  | cons c cs ih =>
    have hc : c ≠ q := fun e => hb (by simp [e])
    have := ih (fun m => hb (List.mem_cons_of_mem _ m))
    simp [takeUntil, hc, this]

theorem litRun_ordinary (t R : Str) (ht : ∀ c ∈ t, Ordinary c) (hR : litRun false R = ([], R)) :
    litRun false (t ++ R) = (t, R) := by
  induction t with
  | nil => simpa using hR
  | cons c t ih =>
    obtain ⟨h1, h2, h3, h4, h5, _⟩ := ht c (by simp)
    have := ih (fun d hd => ht d (List.mem_cons_of_mem _ hd))
    simp [litRun, h1, h2, h3, h4, h5, this]

theorem litRun_stops_at_render (rest : List Atom) (h : NF rest) (hh : ∀ b ∈ rest.head?, isTextAtom b = false) :
    litRun false (renderAtoms rest) = ([], renderAtoms rest) := by
  cases rest with
  | nil => simp [renderAtoms, litRun]
  | cons a rest =>
    obtain ⟨ha, _, _⟩ := h
    cases a with
    | text t => simp [isTextAtom] at hh
    | sq b => simp [renderAtoms, renderAtom, litRun]
    | esc s => obtain ⟨c, rfl⟩ := ha; simp [renderAtoms, renderAtom, litRun]
    | tilde t => exact ha.elim
    | param p => exact ha.elim
    | paramOp p c o w => exact ha.elim
    | cmd s => exact ha.elim
    | arith s => exact ha.elim

theorem wordGo_step (skip : Str → Res Str) (tot k : Nat) (c : Char) (r r' r'' : Str) (p : Piece) (ps : List SP)
    (h1 : wordOne skip false tot c r = .ok (p, r')) (h2 : wordGo skip false tot k r' = .ok (ps, r'')) :
    wordGo skip false tot (k + 1) (c :: r) = .ok (⟨p, tot - blen (c :: r), tot - blen r'⟩ :: ps, r'') := by
  simp [wordGo, h1, h2]

theorem wordGo_render (skip : Str → Res Str) (tot : Nat) (as : List Atom) :
    ∀ k, NF as → (renderAtoms as).length < k →
      wordGo skip false tot k (renderAtoms as) = .ok (spannedFrom tot as, []) := by
  induction as with
  | nil =>
    intro k _ hk
    cases k with
    | zero => simp at hk
    | succ k => simp [renderAtoms, wordGo, spannedFrom]
  | cons a rest ih =>
    intro k hnf hk
    obtain ⟨ha, hrest, hadj⟩ := hnf
    cases k with
    | zero => simp at hk
    | succ k =>
      cases a with
      | sq b =>
        have e : renderAtoms (.sq b :: rest) = '\'' :: (b ++ '\'' :: renderAtoms rest) := by
          simp [renderAtoms, renderAtom]
        rw [e] at hk
        have hk' : (renderAtoms rest).length < k := by simp at hk; omega
        have h1 : wordOne skip false tot '\'' (b ++ '\'' :: renderAtoms rest) = .ok (.atom (.sq b), renderAtoms rest) := by
          simp [wordOne, takeUntil_append _ b _ ha]
        rw [spannedFrom, e]
        exact wordGo_step skip tot k _ _ _ _ _ _ h1 (ih k hrest hk')
      | esc s =>
        obtain ⟨c, rfl⟩ := ha
        have e : renderAtoms (.esc ['\\', c] :: rest) = '\\' :: c :: renderAtoms rest := by
          simp [renderAtoms, renderAtom]
        rw [e] at hk
        have hk' : (renderAtoms rest).length < k := by simp at hk; omega
        have h1 : wordOne skip false tot '\\' (c :: renderAtoms rest) = .ok (.atom (.esc ['\\', c]), renderAtoms rest) := by
          simp [wordOne]
        rw [spannedFrom, e]
        exact wordGo_step skip tot k _ _ _ _ _ _ h1 (ih k hrest hk')
      | text t =>
        cases t with
        | nil => exact (ha.1 rfl).elim
        | cons c t =>
          have e : renderAtoms (.text (c :: t) :: rest) = c :: (t ++ renderAtoms rest) := by
            simp [renderAtoms, renderAtom]
          rw [e] at hk
          have hk' : (renderAtoms rest).length < k := by simp at hk; omega
          obtain ⟨h1, h2, h3, h4, h5, _⟩ := ha.2 c (by simp)
          have hl := litRun_ordinary t (renderAtoms rest) (fun d hd => ha.2 d (List.mem_cons_of_mem _ hd))
            (litRun_stops_at_render rest hrest (hadj rfl))
          have h1 : wordOne skip false tot c (t ++ renderAtoms rest)
              = .ok (.atom (.text (c :: t)), renderAtoms rest) := by
            unfold wordOne
            simp only [h1, h2, h3, h4, if_false, hl]
            split
            · rename_i hc _; exact (h5 rfl).elim
            · rfl
          rw [spannedFrom, e]
          exact wordGo_step skip tot k _ _ _ _ _ _ h1 (ih k hrest hk')
      | tilde t => exact ha.elim
      | param p => exact ha.elim
      | paramOp p c o w => exact ha.elim
      | cmd s => exact ha.elim
      | arith s => exact ha.elim

theorem render_not_tilde (as : List Atom) (h : NF as) (r : Str) : renderAtoms as ≠ '~' :: r := by
  cases as with
  | nil => simp [renderAtoms]
  | cons a rest =>
    obtain ⟨ha, _, _⟩ := h
    cases a with
    | sq b => simp [renderAtoms, renderAtom]
    | esc s => obtain ⟨c, rfl⟩ := ha; simp [renderAtoms, renderAtom]
    | text t =>
      cases t with
      | nil => exact (ha.1 rfl).elim
      | cons c t =>
        have := (ha.2 c (by simp)).2.2.2.2.2
        simp [renderAtoms, renderAtom, this]
    | tilde t => exact ha.elim
    | param p => exact ha.elim
    | paramOp p c o w => exact ha.elim
    | cmd s => exact ha.elim
    | arith s => exact ha.elim

theorem parseWord_render (as : List Atom) (h : NF as) :
    parseWord (renderAtoms as) = .ok (spannedFrom (blen (renderAtoms as)) as) := by
  have key := wordGo_render (skipN ((renderAtoms as).length + 1)) (blen (renderAtoms as)) as
    ((renderAtoms as).length + 1) h (Nat.lt_succ_self _)
  unfold parseWord
  simp only
  split
  · rename_i r heq
    exact (render_not_tilde as h r heq).elim
  · simp [key]


end BrushVerif.WordParse
