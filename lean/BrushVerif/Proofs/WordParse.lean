import BrushVerif.Model.WordParse
/-! Lemmas about the word-parser model: every rule consumes input (progress), spans tile. -/
namespace BrushVerif.WordParse
open BrushVerif.Wire

theorem blen_cons_lt (c : Char) (s : Str) : blen s < blen (c :: s) := by
  have := Char.utf8Size_pos c
  simp only [blen]; omega

theorem spanP_le (p : Char → Bool) (s : Str) : blen (spanP p s).2 ≤ blen s := by
  induction s with
  | nil => simp [spanP]
  | cons c cs ih =>
    simp only [spanP]; split
    · have := blen_cons_lt c cs; simp only; omega
    · exact Nat.le_refl _

theorem litRun_le (stop : Bool) (s : Str) : blen (litRun stop s).2 ≤ blen s := by
  induction s with
  | nil => simp [litRun]
  | cons c cs ih =>
    simp only [litRun]; split
    · exact Nat.le_refl _
    · have := blen_cons_lt c cs; simp only; omega

theorem dqRun_le (s : Str) : blen (dqRun s).2 ≤ blen s := by
  induction s with
  | nil => simp [dqRun]
  | cons c cs ih =>
    have := blen_cons_lt c cs
    simp only [dqRun]; split
    · exact Nat.le_refl _
    · split
      · split
        · exact Nat.le_refl _
        · simp only; omega
      · simp only; omega

theorem takeUntil_lt (q : Char) (s b r : Str) (h : takeUntil q s = some (b, r)) : blen r < blen s := by
  induction s generalizing b with
  | nil => simp [takeUntil] at h
  | cons c cs ih =>
    have := blen_cons_lt c cs
    simp only [takeUntil] at h
    split at h
    · simp only [Option.some.injEq, Prod.mk.injEq] at h; rw [← h.2]; exact this
    · split at h
      · rename_i b' r' hh
        simp only [Option.some.injEq, Prod.mk.injEq] at h
        have := ih b' (by rw [hh, h.2])
        omega
      · simp at h

/-- What the parser needs from the inner-word skipper. -/
def SkipOk (skip : Str → Res Str) : Prop := ∀ w r, skip w = .ok r → blen r ≤ blen w

theorem bracedParam_le (s : Str) (p : Prm) (q : Str) (h : bracedParam s = some (p, q)) : blen q < blen s := by
  cases s with
  | nil => simp [bracedParam] at h
  | cons c r =>
    have := blen_cons_lt c r
    simp only [bracedParam] at h
    split at h
    · split at h
      · simp only [Option.some.injEq, Prod.mk.injEq] at h
        have := spanP_le isDigit r; rw [← h.2]; omega
      · simp at h
    · split at h
      · simp only [Option.some.injEq, Prod.mk.injEq] at h; rw [← h.2]; exact this
      · split at h
        · simp only [Option.some.injEq, Prod.mk.injEq] at h
          have := spanP_le isNameChar r; rw [← h.2]; omega
        · simp at h

theorem bracedOp_le (s : Str) (c : Bool) (o w : Str) (h : bracedOp s = some (c, o, w)) : blen w < blen s := by
  unfold bracedOp at h
  split at h
  · rename_i a b r
    have := blen_cons_lt ':' (b :: r); have := blen_cons_lt b r
    split at h <;> simp only [Option.some.injEq, Prod.mk.injEq, reduceCtorEq] at h
    rw [← h.2.2]; omega
  · rename_i r
    have := blen_cons_lt '%' ('%' :: r); have := blen_cons_lt '%' r
    simp only [Option.some.injEq, Prod.mk.injEq] at h; rw [← h.2.2]; omega
  · rename_i r
    have := blen_cons_lt '#' ('#' :: r); have := blen_cons_lt '#' r
    simp only [Option.some.injEq, Prod.mk.injEq] at h; rw [← h.2.2]; omega
  · rename_i a r _ _ _
    have := blen_cons_lt a r
    split at h <;> simp only [Option.some.injEq, Prod.mk.injEq, reduceCtorEq] at h
    rw [← h.2.2]; omega
  · simp at h

/-- `$…` never gives input back: the remaining input is no longer than what followed the `$`. -/
theorem dollar_le (skip : Str → Res Str) (hs : SkipOk skip) (inDq : Bool) (s : Str) (a : Atom) (r : Str)
    (h : dollar skip inDq s = .ok (a, r)) : blen r ≤ blen s := by
  unfold dollar at h
  split at h
  · simp at h
  · simp at h
  · simp at h
  · split at h
    · simp only [Res.ok.injEq, Prod.mk.injEq] at h; rw [← h.2]; exact Nat.le_refl _
    · simp at h
  · rename_i r0
    have := blen_cons_lt '(' ('(' :: r0); have := blen_cons_lt '(' r0
    have hsp := spanP_le isPlain r0
    split at h
    · rename_i r' hb
      have := blen_cons_lt ')' (')' :: r'); have := blen_cons_lt ')' r'
      rw [hb] at hsp
      simp only [Res.ok.injEq, Prod.mk.injEq] at h; rw [← h.2]; omega
    · simp at h
  · rename_i r0 _
    have := blen_cons_lt '(' r0
    have hsp := spanP_le isPlain r0
    split at h
    · rename_i r' hb
      have := blen_cons_lt ')' r'
      rw [hb] at hsp
      simp only [Res.ok.injEq, Prod.mk.injEq] at h; rw [← h.2]; omega
    · simp only [Res.ok.injEq, Prod.mk.injEq] at h; rw [← h.2]; exact Nat.le_refl _
    · simp at h
  · rename_i r0
    have h0 := blen_cons_lt '{' r0
    split at h
    · simp only [Res.ok.injEq, Prod.mk.injEq] at h; rw [← h.2]; exact Nat.le_refl _
    · split at h
      · simp only [Res.ok.injEq, Prod.mk.injEq] at h; rw [← h.2]; exact Nat.le_refl _
      · split at h
        · simp at h
        · rename_i p q hp
          have := bracedParam_le _ _ _ hp
          split at h
          · rename_i q'
            have := blen_cons_lt '}' q'
            simp only [Res.ok.injEq, Prod.mk.injEq] at h; rw [← h.2]; omega
          · split at h
            · simp at h
            · rename_i colon op w ho
              have := bracedOp_le _ _ _ _ ho
              split at h
              · rename_i q' hk
                have := hs _ _ hk
                have := blen_cons_lt '}' q'
                simp only [Res.ok.injEq, Prod.mk.injEq] at h; rw [← h.2]; omega
              · simp at h
  · rename_i c r0 _ _ _ _ _ _ _
    have := blen_cons_lt c r0
    split at h
    · simp only [Res.ok.injEq, Prod.mk.injEq] at h; rw [← h.2]; omega
    · split at h
      · simp only [Res.ok.injEq, Prod.mk.injEq] at h; rw [← h.2]; omega
      · split at h
        · have := spanP_le isNameChar r0
          simp only [Res.ok.injEq, Prod.mk.injEq] at h; rw [← h.2]; omega
        · simp only [Res.ok.injEq, Prod.mk.injEq] at h; rw [← h.2]; exact Nat.le_refl _
  · simp only [Res.ok.injEq, Prod.mk.injEq] at h; rw [← h.2]; exact Nat.le_refl _

theorem dqOne_le (skip : Str → Res Str) (hs : SkipOk skip) (c : Char) (r : Str) (a : Atom) (r' : Str)
    (h : dqOne skip c r = .ok (a, r')) : blen r' ≤ blen r := by
  unfold dqOne at h
  split at h
  · simp at h
  · split at h
    · exact dollar_le skip hs true r a r' h
    · have := dqRun_le r
      split at h
      · rename_i d r0 _ _
        have := blen_cons_lt d r0
        split at h <;> (simp only [Res.ok.injEq, Prod.mk.injEq] at h; rw [← h.2]; omega)
      · simp only [Res.ok.injEq, Prod.mk.injEq] at h; rw [← h.2]; omega

/-- Spans `(start, end)` that are in order, adjacent, non-empty, and cover `[a, b)`. -/
def Tiles : Nat → Nat → List (Nat × Nat) → Prop
  | a, b, [] => a = b
  | a, b, (s, e) :: rest => s = a ∧ s < e ∧ Tiles e b rest

/-- A closed double-quoted sequence: the remaining input is shorter, and the inner pieces tile the text between
the quotes. -/
theorem dqGo_tiles (skip : Str → Res Str) (hs : SkipOk skip) (tot k : Nat) (s : Str) (as : List SA) (r : Str)
    (hle : blen s ≤ tot) (h : dqGo skip tot k s = .ok (as, r)) :
    blen r < blen s ∧ Tiles (tot - blen s) (tot - (blen r + 1)) (as.map fun x => (x.s, x.e)) := by
  induction k generalizing s as r with
  | zero => simp [dqGo] at h
  | succ k ih =>
    cases s with
    | nil => simp [dqGo] at h
    | cons c r0 =>
      have hc := blen_cons_lt c r0
      simp only [dqGo] at h
      split at h
      · rename_i hq
        simp only [Res.ok.injEq, Prod.mk.injEq] at h
        rw [← h.1, ← h.2, hq]
        refine ⟨blen_cons_lt _ _, ?_⟩
        simp only [List.map_nil, Tiles, blen]
        have : ('"' : Char).utf8Size = 1 := by decide
        omega
      · split at h
        · rename_i a r' h1
          have h1' := dqOne_le skip hs c r0 a r' h1
          split at h
          · rename_i as' r'' h2
            simp only [Res.ok.injEq, Prod.mk.injEq] at h
            have := ih r' as' r'' (by omega) h2
            rw [← h.1, ← h.2]
            refine ⟨by omega, ?_⟩
            simp only [List.map_cons, Tiles]
            exact ⟨trivial, by omega, this.2⟩
          · simp at h
          · simp at h
        · simp at h
        · simp at h

theorem wordOne_lt (skip : Str → Res Str) (hs : SkipOk skip) (stop : Bool) (tot : Nat) (c : Char) (r : Str)
    (p : Piece) (r' : Str) (hle : blen r ≤ tot) (h : wordOne skip stop tot c r = .ok (p, r')) : blen r' ≤ blen r := by
  unfold wordOne at h
  split at h
  · split at h
    · rename_i as r1 h1
      have := (dqGo_tiles skip hs tot _ r as r1 hle h1).1
      simp only [Res.ok.injEq, Prod.mk.injEq] at h; rw [← h.2]; omega
    · simp at h
    · simp at h
  · split at h
    · split at h
      · rename_i b r1 h1
        have := takeUntil_lt _ _ _ _ h1
        simp only [Res.ok.injEq, Prod.mk.injEq] at h; rw [← h.2]; omega
      · simp at h
    · split at h
      · split at h
        · rename_i a r1 h1
          have := dollar_le skip hs false r a r1 h1
          simp only [Res.ok.injEq, Prod.mk.injEq] at h; rw [← h.2]; omega
        · simp at h
        · simp at h
      · split at h
        · simp at h
        · have := litRun_le stop r
          split at h
          · rename_i d r0 _ _ _ _
            have := blen_cons_lt d r0
            simp only [Res.ok.injEq, Prod.mk.injEq] at h; rw [← h.2]; omega
          · simp only [Res.ok.injEq, Prod.mk.injEq] at h; rw [← h.2]; omega

/-- The piece loop: the pieces tile exactly the consumed part of the input. -/
theorem wordGo_tiles (skip : Str → Res Str) (hs : SkipOk skip) (stop : Bool) (tot k : Nat) (s : Str)
    (ps : List SP) (r : Str) (hle : blen s ≤ tot) (h : wordGo skip stop tot k s = .ok (ps, r)) :
    blen r ≤ blen s ∧ Tiles (tot - blen s) (tot - blen r) (ps.map fun x => (x.s, x.e))
      ∧ (stop = false → r = []) := by
  induction k generalizing s ps r with
  | zero => simp [wordGo] at h
  | succ k ih =>
    cases s with
    | nil =>
      simp only [wordGo, Res.ok.injEq, Prod.mk.injEq] at h
      rw [← h.1, ← h.2]; simp [Tiles]
    | cons c r0 =>
      have hc := blen_cons_lt c r0
      simp only [wordGo] at h
      split at h
      · rename_i hq
        simp only [Res.ok.injEq, Prod.mk.injEq] at h
        rw [← h.1, ← h.2]
        refine ⟨Nat.le_refl _, by simp [Tiles], ?_⟩
        intro hf; rw [hf] at hq; simp at hq
      · split at h
        · rename_i p r' h1
          have h1' := wordOne_lt skip hs stop tot c r0 p r' (by omega) h1
          split at h
          · rename_i ps' r'' h2
            simp only [Res.ok.injEq, Prod.mk.injEq] at h
            have := ih r' ps' r'' (by omega) h2
            rw [← h.1, ← h.2]
            refine ⟨by omega, ?_, this.2.2⟩
            simp only [List.map_cons, Tiles]
            exact ⟨trivial, by omega, this.2.1⟩
          · simp at h
          · simp at h
        · simp at h
        · simp at h

theorem skipN_ok (n : Nat) : SkipOk (skipN n) := by
  induction n with
  | zero => intro w r h; simp [skipN] at h
  | succ n ih =>
    intro w r h
    simp only [skipN] at h
    split at h
    · rename_i ps r' h1
      simp only [Res.ok.injEq] at h
      have := (wordGo_tiles _ ih true _ _ w ps r' (Nat.le_refl _) h1).1
      rw [← h]; exact this
    · simp at h
    · simp at h

theorem tildeUser_le (s : Str) (t : Tilde) (r : Str) (h : tildeUser s = some (t, r)) : blen r ≤ blen s := by
  unfold tildeUser at h
  have := spanP_le isPortable s
  split at h
  · simp only [Option.some.injEq, Prod.mk.injEq] at h; rw [← h.2]; omega
  · simp at h

theorem tildeExpr_le (s : Str) (t : Tilde) (r : Str) (h : tildeExpr s = some (t, r)) : blen r ≤ blen s := by
  unfold tildeExpr at h
  split at h
  · simp only [Option.some.injEq, Prod.mk.injEq] at h; rw [← h.2]; exact Nat.le_refl _
  · split at h
    · rename_i r0 _
      have := blen_cons_lt '+' r0
      have := spanP_le isDigit r0
      split at h
      · simp only [Option.some.injEq, Prod.mk.injEq] at h; rw [← h.2]; omega
      · split at h
        · simp only [Option.some.injEq, Prod.mk.injEq] at h; rw [← h.2]; omega
        · simp at h
    · rename_i r0 _
      have := blen_cons_lt '-' r0
      have := spanP_le isDigit r0
      split at h
      · simp only [Option.some.injEq, Prod.mk.injEq] at h; rw [← h.2]; omega
      · split at h
        · simp only [Option.some.injEq, Prod.mk.injEq] at h; rw [← h.2]; omega
        · exact tildeUser_le _ _ _ h
    · have := spanP_le isDigit s
      split at h
      · simp only [Option.some.injEq, Prod.mk.injEq] at h; rw [← h.2]; omega
      · exact tildeUser_le _ _ _ h

end BrushVerif.WordParse
