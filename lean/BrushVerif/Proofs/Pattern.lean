import BrushVerif.Model.Pattern
import BrushVerif.Spec.Glob
/-! Helper lemmas for C08: the backtracking regex semantics (`Re.run`) of the translated pattern
against the declarative matching relation (`Glob.Matches`). -/
namespace BrushVerif.Pattern
open BrushVerif.Wire BrushVerif.Glob

/-! ### guards -/

/-- named classes are folded by the regex engine under `(?i)`, not by bash: excluded together with nocasematch -/
def ClsOk (nc : Bool) (p : Pat) : Prop := nc = false ∨ p.hasCls = false

instance (nc : Bool) (p : Pat) : Decidable (ClsOk nc p) := by unfold ClsOk; exact inferInstance

/-! ### remainders are suffixes -/

theorem starGo_suffix (f : Str → List Str) (hf : ∀ s r, r ∈ f s → r <:+ s) :
    ∀ n s r, r ∈ starGo f n s → r <:+ s := by
  intro n
  induction n with
  | zero => intro s r h; simp [starGo] at h; subst h; exact List.suffix_refl _
  | succ n ih =>
    intro s r h
    simp only [starGo, List.mem_append, List.mem_flatMap, List.mem_filter, List.mem_singleton] at h
    rcases h with ⟨t, ⟨ht, _⟩, hr⟩ | rfl
    · exact (ih t r hr).trans (hf s t ht)
    · exact List.suffix_refl _

theorem lazyGo_suffix (f : Str → List Str) (hf : ∀ s r, r ∈ f s → r <:+ s) :
    ∀ n s r, r ∈ lazyGo f n s → r <:+ s := by
  intro n
  induction n with
  | zero => intro s r h; simp [lazyGo] at h; subst h; exact List.suffix_refl _
  | succ n ih =>
    intro s r h
    simp only [lazyGo, List.mem_cons, List.mem_flatMap, List.mem_filter] at h
    rcases h with rfl | ⟨t, ⟨ht, _⟩, hr⟩
    · exact List.suffix_refl _
    · exact (ih t r hr).trans (hf s t ht)

theorem run_suffix (nc : Bool) : ∀ (re : Re) (s r : Str), r ∈ re.run nc s → r <:+ s := by
  intro re
  induction re with
  | eps => intro s r h; simp [Re.run] at h; subst h; exact List.suffix_refl _
  | chr c =>
    intro s r h
    cases s with
    | nil => simp [Re.run] at h
    | cons d t =>
      simp only [Re.run] at h
      split at h
      · simp at h; subst h; exact List.suffix_cons _ _
      · simp at h
  | any =>
    intro s r h
    cases s with
    | nil => simp [Re.run] at h
    | cons d t => simp [Re.run] at h; subst h; exact List.suffix_cons _ _
  | cls inv ms =>
    intro s r h
    cases s with
    | nil => simp [Re.run] at h
    | cons d t =>
      simp only [Re.run] at h
      split at h
      · simp at h; subst h; exact List.suffix_cons _ _
      · simp at h
  | fail => intro s r h; simp [Re.run] at h
  | seq a b iha ihb =>
    intro s r h
    simp only [Re.run, List.mem_flatMap] at h
    obtain ⟨t, ht, hr⟩ := h
    exact (ihb t r hr).trans (iha s t ht)
  | alt a b iha ihb =>
    intro s r h
    simp only [Re.run, List.mem_append] at h
    rcases h with h | h
    · exact iha s r h
    · exact ihb s r h
  | grp a ih => intro s r h; exact ih s r (by simpa [Re.run] using h)
  | ncg a ih => intro s r h; exact ih s r (by simpa [Re.run] using h)
  | atomic a ih =>
    intro s r h
    simp only [Re.run] at h
    exact ih s r (List.mem_of_mem_take h)
  | nla a _ =>
    intro s r h
    simp only [Re.run] at h
    split at h
    · simp at h; subst h; exact List.suffix_refl _
    · simp at h
  | star a ih =>
    intro s r h
    simp only [Re.run] at h
    exact starGo_suffix _ ih _ s r h
  | plus a ih =>
    intro s r h
    simp only [Re.run, List.mem_flatMap] at h
    obtain ⟨t, ht, hr⟩ := h
    exact (starGo_suffix _ ih _ t r hr).trans (ih s t ht)
  | opt a ih =>
    intro s r h
    simp only [Re.run, List.mem_append, List.mem_singleton] at h
    rcases h with h | rfl
    · exact ih s r h
    · exact List.suffix_refl _
  | lazyPlus a ih =>
    intro s r h
    simp only [Re.run, List.mem_flatMap] at h
    obtain ⟨t, ht, hr⟩ := h
    exact (lazyGo_suffix _ ih _ t r hr).trans (ih s t ht)

/-! ### Kleene iteration -/

theorem starGo_self (f : Str → List Str) (n : Nat) (s : Str) : s ∈ starGo f n s := by
  cases n <;> simp [starGo]

theorem starGo_noprogress (f : Str → List Str) (hf : ∀ s, f s = [s]) (n : Nat) (s : Str) :
    starGo f n s = [s] := by
  cases n <;> simp [starGo, hf]

/-- `starGo` with enough fuel computes exactly the iteration of the one-step relation -/
theorem starGo_iff (f : Str → List Str) (M : Str → Prop)
    (hf : ∀ s r, r ∈ f s ↔ ∃ x, s = x ++ r ∧ M x) :
    ∀ n s, s.length ≤ n → ∀ r,
      (r ∈ starGo f n s ↔ ∃ parts : List Str, s = parts.flatten ++ r ∧ ∀ x ∈ parts, M x) := by
  intro n s hn r
  constructor
  · -- soundness
    induction n generalizing s with
    | zero =>
      intro h
      simp [starGo] at h
      subst h
      exact ⟨[], by simp, by simp⟩
    | succ n ih =>
      intro h
      simp only [starGo, List.mem_append, List.mem_flatMap, List.mem_filter, List.mem_singleton] at h
      rcases h with ⟨t, ⟨ht, hlt⟩, hr⟩ | rfl
      · obtain ⟨x, hs, hx⟩ := (hf s t).mp ht
        have hlt' : t.length < s.length := by simpa using hlt
        obtain ⟨parts, hp, hall⟩ := ih t (by omega) hr
        refine ⟨x :: parts, ?_, ?_⟩
        · rw [hs, hp]; simp
        · intro y hy
          rcases List.mem_cons.mp hy with rfl | hy
          · exact hx
          · exact hall y hy
      · exact ⟨[], by simp, by simp⟩
  · -- completeness
    rintro ⟨parts, hs, hall⟩
    induction parts generalizing n s with
    | nil =>
      simp at hs
      subst hs
      exact starGo_self f n _
    | cons x ps ih =>
      by_cases hx : x = []
      · subst hx
        exact ih n s hn (by simpa using hs) (fun y hy => hall y (List.mem_cons_of_mem _ hy))
      · have hs' : s = x ++ (ps.flatten ++ r) := by rw [hs]; simp
        have hxl : 0 < x.length := List.length_pos_iff.mpr hx
        have hlen : (ps.flatten ++ r).length < s.length := by
          rw [hs']; simp only [List.length_append]; omega
        cases n with
        | zero => omega
        | succ m =>
          simp only [starGo, List.mem_append, List.mem_flatMap, List.mem_filter, List.mem_singleton]
          left
          refine ⟨ps.flatten ++ r, ⟨(hf s _).mpr ⟨x, hs', hall x (List.mem_cons_self ..)⟩, by simpa using hlen⟩, ?_⟩
          exact ih m (ps.flatten ++ r) (by omega) rfl (fun y hy => hall y (List.mem_cons_of_mem _ hy))

/-- `.*` : every suffix is a remainder -/
theorem starGo_any_aux (f : Str → List Str) (h0 : f [] = []) (h1 : ∀ d t, f (d :: t) = [t]) :
    ∀ n s, s.length ≤ n → ∀ r, (r ∈ starGo f n s ↔ r <:+ s) := by
  intro n
  induction n with
  | zero =>
    intro s hn r
    have : s = [] := List.eq_nil_of_length_eq_zero (by omega)
    subst this
    simp [starGo]
  | succ n ih =>
    intro s hn r
    cases s with
    | nil => simp [starGo, h0]
    | cons d t =>
      have ht : t.length ≤ n := by simp at hn; omega
      have hstep : starGo f (n + 1) (d :: t) = starGo f n t ++ [d :: t] := by
        simp [starGo, h1]
      rw [hstep, List.mem_append, List.mem_singleton, ih t ht r, List.suffix_cons_iff]
      exact or_comm

theorem starGo_any (nc : Bool) : ∀ n s, s.length ≤ n → ∀ r,
    (r ∈ starGo (Re.run nc .any) n s ↔ r <:+ s) :=
  starGo_any_aux _ (by simp [Re.run]) (by intro d t; simp [Re.run])

/-! ### class membership with and without folded named classes -/

theorem has_fc (nc : Bool) (m : Member) (d : Char) (h : nc = false ∨ m.isCls = false) :
    m.has nc true d = m.has nc false d := by
  cases m with
  | cls n =>
    rcases h with h | h
    · subst h; simp [Member.has]
    · simp [Member.isCls] at h
  | range f t => simp [Member.has]
  | single x => simp [Member.has]

theorem memB_fc (nc : Bool) (ms : List Member) (d : Char)
    (h : nc = false ∨ ms.any Member.isCls = false) : memB nc true ms d = memB nc false ms d := by
  unfold memB
  induction ms with
  | nil => rfl
  | cons m ms ih =>
    simp only [List.any_cons]
    have hm : nc = false ∨ m.isCls = false := by
      rcases h with h | h
      · exact Or.inl h
      · simp only [List.any_cons, Bool.or_eq_false_iff] at h; exact Or.inr h.1
    have hms : nc = false ∨ ms.any Member.isCls = false := by
      rcases h with h | h
      · exact Or.inl h
      · simp only [List.any_cons, Bool.or_eq_false_iff] at h; exact Or.inr h.2
    rw [has_fc nc m d hm, ih hms]

theorem grp_run (nc : Bool) (a : Re) : (Re.grp a).run nc = a.run nc := by
  funext s; simp [Re.run]

/-! ### the executable oracle decides the relation -/

theorem mem_splits : ∀ (s x y : Str), (x, y) ∈ splits s ↔ s = x ++ y := by
  intro s
  induction s with
  | nil =>
    intro x y
    simp only [splits, List.mem_singleton, Prod.mk.injEq]
    constructor
    · rintro ⟨rfl, rfl⟩; rfl
    · intro h
      have := List.append_eq_nil_iff.mp h.symm
      exact ⟨this.1, this.2⟩
  | cons c t ih =>
    intro x y
    simp only [splits, List.mem_cons, Prod.mk.injEq, List.mem_map, Prod.exists]
    constructor
    · rintro (⟨rfl, rfl⟩ | ⟨a, b, hab, rfl, rfl⟩)
      · rfl
      · rw [(ih a b).mp hab]; rfl
    · intro h
      cases x with
      | nil => left; exact ⟨rfl, by simpa using h.symm⟩
      | cons e x' =>
        right
        simp only [List.cons_append, List.cons.injEq] at h
        obtain ⟨rfl, ht⟩ := h
        exact ⟨x', y, (ih x' y).mpr ht, rfl, rfl⟩

theorem iterB_iff (f : Str → Bool) (M : Str → Prop) (hf : ∀ x, f x = true ↔ M x) :
    ∀ n s, s.length ≤ n →
      (iterB f n s = true ↔ ∃ parts : List Str, s = parts.flatten ∧ ∀ x ∈ parts, M x) := by
  intro n s hn
  constructor
  · induction n generalizing s with
    | zero =>
      intro _
      have : s = [] := List.eq_nil_of_length_eq_zero (by omega)
      subst this
      exact ⟨[], rfl, by simp⟩
    | succ n ih =>
      intro h
      cases s with
      | nil => exact ⟨[], rfl, by simp⟩
      | cons c t =>
        simp only [iterB, List.any_eq_true, Bool.and_eq_true, Prod.exists] at h
        obtain ⟨x, y, hxy, hfx, hy⟩ := h
        have ht := (mem_splits t x y).mp hxy
        have hyl : y.length ≤ n := by
          have : t.length = x.length + y.length := by rw [ht]; simp
          simp at hn; omega
        obtain ⟨parts, hp, hall⟩ := ih y hyl hy
        refine ⟨(c :: x) :: parts, ?_, ?_⟩
        · rw [ht, hp]; simp
        · intro z hz
          rcases List.mem_cons.mp hz with rfl | hz
          · exact (hf _).mp hfx
          · exact hall z hz
  · rintro ⟨parts, hs, hall⟩
    induction parts generalizing n s with
    | nil => subst hs; cases n <;> simp [iterB]
    | cons x ps ih =>
      by_cases hx : x = []
      · subst hx
        exact ih n s hn (by simpa using hs) (fun y hy => hall y (List.mem_cons_of_mem _ hy))
      · obtain ⟨c, x', rfl⟩ := List.exists_cons_of_ne_nil hx
        have hs' : s = c :: (x' ++ ps.flatten) := by rw [hs]; simp
        subst hs'
        cases n with
        | zero => simp at hn
        | succ m =>
          simp only [iterB, List.any_eq_true, Bool.and_eq_true, Prod.exists]
          refine ⟨x', ps.flatten, (mem_splits _ _ _).mpr rfl, (hf _).mpr (hall _ (List.mem_cons_self ..)), ?_⟩
          have : ps.flatten.length ≤ m := by
            simp only [List.length_cons, List.length_append] at hn; omega
          exact ih m ps.flatten this rfl (fun y hy => hall y (List.mem_cons_of_mem _ hy))

/-! ### sorting -/

theorem mem_insertSorted (x y : Str) (l : List Str) : y ∈ insertSorted x l ↔ y = x ∨ y ∈ l := by
  induction l with
  | nil => simp [insertSorted]
  | cons z zs ih =>
    simp only [insertSorted]
    split
    · simp only [List.mem_cons, ih]
      constructor
      · rintro (h | h | h)
        · exact Or.inr (Or.inl h)
        · exact Or.inl h
        · exact Or.inr (Or.inr h)
      · rintro (h | h | h)
        · exact Or.inr (Or.inl h)
        · exact Or.inl h
        · exact Or.inr (Or.inr h)
    · simp [List.mem_cons]

theorem mem_sortStrs (y : Str) (l : List Str) : y ∈ sortStrs l ↔ y ∈ l := by
  induction l with
  | nil => simp [sortStrs]
  | cons z zs ih =>
    have : sortStrs (z :: zs) = insertSorted z (sortStrs zs) := rfl
    rw [this, mem_insertSorted, ih]
    simp [List.mem_cons]

/-! ### the emitted class text never starts with `^` (unless the bracket expression is inverted) -/

theorem SM.render_head (m : SM) : ∃ c r, m.render = c :: r ∧ c ≠ '^' := by
  unfold SM.render
  by_cases hc : m.c = '^'
  · have hp : isAsciiPunct '^' = true := by decide +kernel
    cases he : m.esc
    · exact ⟨'\\', [m.c], by simp [hc], by decide⟩
    · exact ⟨'\\', [m.c], by simp [hc, hp], by decide⟩
  · cases he : m.esc
    · simp only [Bool.false_eq_true, ite_false]
      split
      · exact ⟨'\\', [m.c], rfl, by decide⟩
      · exact ⟨m.c, [], rfl, hc⟩
    · simp only [ite_true]
      split
      · exact ⟨'\\', [m.c], rfl, by decide⟩
      · exact ⟨m.c, [], rfl, hc⟩

theorem SM.renderEnd_head (m : SM) : ∃ c r, m.renderEnd = c :: r ∧ c ≠ '^' := by
  unfold SM.renderEnd
  split
  · exact ⟨'\\', ['-'], rfl, by decide⟩
  · exact SM.render_head m

theorem Member.render_head (m : Member) : ∃ c r, m.render = c :: r ∧ c ≠ '^' := by
  cases m with
  | cls n => exact ⟨'[', _, rfl, by decide⟩
  | range f t =>
    obtain ⟨c, r, h, hc⟩ := SM.renderEnd_head f
    exact ⟨c, r ++ ['-'] ++ t.renderEnd, by simp [Member.render, h], hc⟩
  | single x => exact SM.render_head x

theorem renderMembers_ne_caret (ms : List Member) (r : Str) : renderMembers ms ≠ '^' :: r := by
  cases ms with
  | nil => simp [renderMembers, renderMembersGo]
  | cons m ms =>
    obtain ⟨c, t, h, hc⟩ := Member.render_head m
    simp only [renderMembers, renderMembersGo, Bool.false_and, Bool.false_eq_true, ite_false, h]
    intro heq
    simp at heq
    exact hc heq.1

end BrushVerif.Pattern

namespace BrushVerif.Glob
open BrushVerif.Wire BrushVerif.Pattern

theorem has_erase (nc fc : Bool) (m : Member) (d : Char) : (eraseMember m).has nc fc d = m.has nc fc d := by
  cases m <;> simp [eraseMember, eraseSM, Member.has]

theorem memB_erase (nc fc : Bool) (ms : List Member) (d : Char) :
    memB nc fc (ms.map eraseMember) d = memB nc fc ms d := by
  simp [memB, List.any_map, Function.comp_def, has_erase]

theorem Matches_erase (nc : Bool) : ∀ (p : Pat) (s : Str), Matches nc (eraseEsc p) s ↔ Matches nc p s := by
  intro p
  induction p with
  | bracket inv ms => intro s; simp [eraseEsc, Matches, memB_erase]
  | seq a b iha ihb => intro s; simp [eraseEsc, Matches, iha, ihb]
  | alt a b iha ihb => intro s; simp [eraseEsc, Matches, iha, ihb]
  | group k b ih => intro s; cases k <;> simp [eraseEsc, Matches, ih]
  | _ => intro s; simp [eraseEsc]

end BrushVerif.Glob
