import BrushVerif.Model.HereDoc
/-! Line-level characterisation of the here-document scanner (`scan`) used by `heredoc_body_exact`. -/
namespace BrushVerif.HereDoc
open BrushVerif.Wire

/-- what `<<-` removes from a line -/
def stripTabs (rt : Bool) (l : Str) : Str := if rt then l.dropWhile (· = '\t') else l

def joinLines (ls : List Str) : Str := ls.flatMap (· ++ ['\n'])

def AtLineStart (tok : Str) : Prop := tok = [] ∨ tok.getLast? = some '\n'

theorem atLineStart_cond (tok : Str) : (tok.isEmpty || tok.getLast? = some '\n') = true ↔ AtLineStart tok := by
  simp [AtLineStart, List.isEmpty_iff]

theorem stripSuffix?_append (t suf : Str) : stripSuffix? (t ++ suf) suf = some t := by
  have h : suf.isSuffixOf (t ++ suf) = true := List.isSuffixOf_iff_suffix.mpr (List.suffix_append t suf)
  simp [stripSuffix?, h]

theorem stripSuffix?_some {s suf t : Str} (h : stripSuffix? s suf = some t) : s = t ++ suf := by
  unfold stripSuffix? at h
  split at h
  · rename_i hs
    obtain ⟨u, rfl⟩ := List.isSuffixOf_iff_suffix.mp hs
    simp at h
    rw [h]
  · simp at h

theorem getLast?_append_cons (a : Str) (c : Char) (cs : Str) : (a ++ c :: cs).getLast? = (c :: cs).getLast? := by
  simp [List.getLast?_append, List.getLast?_cons]

/-- the end-of-document test after a complete line `l` (no newline inside) appended at a line start -/
theorem endsDoc_line (ex : Bool) (tok l tag : Str) (hs : AtLineStart tok) (hl : '\n' ∉ l) (ht : '\n' ∉ tag)
    (hnc : (ex && endsCont tok) = false) :
    endsDoc ex (tok ++ l ++ ['\n']) (tag ++ ['\n']) = if l = tag then some tok else none := by
  by_cases heq : l = tag
  · subst heq
    have : tok ++ l ++ ['\n'] = tok ++ (l ++ ['\n']) := by simp
    rw [this]
    simp only [endsDoc, stripSuffix?_append, ↓reduceIte]
    have := (atLineStart_cond tok).mpr hs
    simp [this, hnc]
  · simp only [heq, ↓reduceIte]
    unfold endsDoc
    cases hss : stripSuffix? (tok ++ l ++ ['\n']) (tag ++ ['\n']) with
    | none => rfl
    | some pre =>
      simp only
      have e := stripSuffix?_some hss
      have e2 : tok ++ l = pre ++ tag := by
        have : (tok ++ l) ++ ['\n'] = (pre ++ tag) ++ ['\n'] := by simpa using e
        exact List.append_cancel_right this
      split
      · rename_i hc
        exfalso
        have hpre : AtLineStart pre := (atLineStart_cond pre).mp hc
        rcases List.append_eq_append_iff.mp e2 with ⟨a, h1, h2⟩ | ⟨a, h1, h2⟩
        · -- pre = tok ++ a, l = a ++ tag
          cases a with
          | nil => simp at h2; exact heq h2
          | cons c cs =>
            rcases hpre with hp | hp
            · simp [h1] at hp
            · have : (c :: cs).getLast? = some '\n' := by
                rw [h1, getLast?_append_cons] at hp; exact hp
              have hm : '\n' ∈ (c :: cs) := List.mem_of_getLast? this
              exact hl (by rw [h2]; exact List.mem_append_left _ hm)
        · -- tok = pre ++ a, tag = a ++ l
          cases a with
          | nil => simp at h2; exact heq h2.symm
          | cons c cs =>
            rcases hs with hp | hp
            · simp [h1] at hp
            · have : (c :: cs).getLast? = some '\n' := by
                rw [h1, getLast?_append_cons] at hp; exact hp
              have hm : '\n' ∈ (c :: cs) := List.mem_of_getLast? this
              exact ht (by rw [h2]; exact List.mem_append_left _ hm)
      · rfl

/-- tabs at a line start are skipped under `<<-` -/
theorem scan_skip_tabs (ex : Bool) (tag tok more : Str) (hs : AtLineStart tok) (hnc : (ex && endsCont tok) = false) (k : Nat) :
    scan true ex tag tok (List.replicate k '\t' ++ more) = scan true ex tag tok more := by
  induction k with
  | zero => rfl
  | succ k ih =>
    have hc := (atLineStart_cond tok).mpr hs
    simp only [List.replicate_succ, List.cons_append]
    rw [scan]
    have hnc' : (!ex || !endsCont tok) = true := by
      cases ex <;> simp at hnc ⊢; exact hnc
    simp only [hc, decide_true, Bool.and_self, hnc', ↓reduceIte]
    exact ih

/-- characters in the middle of a line are appended -/
theorem scan_mid (rt ex : Bool) (tag more : Str) (l tok : Str) (hn : ¬ AtLineStart tok) (hl : '\n' ∉ l) :
    scan rt ex tag tok (l ++ more) = scan rt ex tag (tok ++ l) more := by
  induction l generalizing tok with
  | nil => simp
  | cons c cs ih =>
    have hc : (tok.isEmpty || tok.getLast? = some '\n') = false := by
      cases h : (tok.isEmpty || tok.getLast? = some '\n') with
      | false => rfl
      | true => exact absurd ((atLineStart_cond tok).mp h) hn
    have hcn : c ≠ '\n' := fun h => hl (by simp [h])
    simp only [List.cons_append]
    rw [scan]
    simp only [hc, Bool.and_false, Bool.false_and, Bool.false_eq_true, ↓reduceIte, hcn]
    have hn' : ¬ AtLineStart (tok ++ [c]) := by
      intro h
      rcases h with h | h
      · simp at h
      · simp at h; exact hcn h
    have := ih (tok ++ [c]) hn' (fun h => hl (List.mem_cons_of_mem _ h))
    simpa using this

/-- one whole line (already without the tabs `<<-` removes) -/
theorem scan_line (rt ex : Bool) (tag tok l more : Str) (hs : AtLineStart tok) (hl : '\n' ∉ l) (ht : '\n' ∉ tag)
    (htab : rt = true → l.head? ≠ some '\t') (hnc : (ex && endsCont tok) = false) :
    scan rt ex tag tok (l ++ '\n' :: more) =
      if l = tag then some (tok, more) else scan rt ex tag (tok ++ l ++ ['\n']) more := by
  cases l with
  | nil =>
    simp only [List.nil_append, List.append_nil]
    rw [scan]
    have h1 : (rt && (tok.isEmpty || tok.getLast? = some '\n') && decide ('\n' = '\t') && (!ex || !endsCont tok)) = false := by simp
    simp only [h1, Bool.false_eq_true, ↓reduceIte]
    have := endsDoc_line ex tok [] tag hs (by simp) ht hnc
    simp only [List.append_nil] at this
    rw [this]
    by_cases hlt : ([] : Str) = tag
    · simp [hlt]
    · simp [hlt]
  | cons c cs =>
    have hcn : c ≠ '\n' := fun h => hl (by simp [h])
    have hct : (rt && (tok.isEmpty || tok.getLast? = some '\n') && decide (c = '\t') && (!ex || !endsCont tok)) = false := by
      cases rt with
      | false => simp
      | true =>
        have : c ≠ '\t' := by
          intro h; exact htab rfl (by simp [h])
        simp [this]
    simp only [List.cons_append]
    rw [scan]
    simp only [hct, Bool.false_eq_true, ↓reduceIte, hcn]
    have hn' : ¬ AtLineStart (tok ++ [c]) := by
      intro h
      rcases h with h | h
      · simp at h
      · simp at h; exact hcn h
    rw [scan_mid rt ex tag ('\n' :: more) cs (tok ++ [c]) hn' (fun h => hl (List.mem_cons_of_mem _ h))]
    rw [scan]
    have h1 : (rt && ((tok ++ [c] ++ cs).isEmpty || (tok ++ [c] ++ cs).getLast? = some '\n') && decide ('\n' = '\t') && (!ex || !endsCont (tok ++ [c] ++ cs))) = false := by simp
    simp only [h1, Bool.false_eq_true, ↓reduceIte]
    have e : tok ++ [c] ++ cs = tok ++ (c :: cs) := by simp
    rw [e, endsDoc_line ex tok (c :: cs) tag hs hl ht hnc]
    by_cases hlt : c :: cs = tag
    · simp [hlt]
    · simp [hlt]

theorem stripTabs_decomp (l : Str) : ∃ k, l = List.replicate k '\t' ++ stripTabs true l := by
  induction l with
  | nil => exact ⟨0, by simp [stripTabs]⟩
  | cons c cs ih =>
    by_cases hc : c = '\t'
    · obtain ⟨k, hk⟩ := ih
      refine ⟨k + 1, ?_⟩
      simp only [stripTabs, ↓reduceIte] at hk ⊢
      subst hc
      simp [List.replicate_succ, List.dropWhile_cons]
      exact hk
    · exact ⟨0, by simp [stripTabs, List.dropWhile_cons, hc]⟩

theorem stripTabs_head (l : Str) : (stripTabs true l).head? ≠ some '\t' := by
  induction l with
  | nil => simp [stripTabs]
  | cons c cs ih =>
    by_cases hc : c = '\t'
    · subst hc; simpa [stripTabs, List.dropWhile_cons] using ih
    · simp [stripTabs, List.dropWhile_cons, hc]

theorem stripTabs_noNl (rt : Bool) (l : Str) (h : '\n' ∉ l) : '\n' ∉ stripTabs rt l := by
  cases rt with
  | false => simpa [stripTabs] using h
  | true =>
    intro hm
    simp only [stripTabs, ↓reduceIte] at hm
    exact h ((List.dropWhile_sublist _).subset hm)

/-- a line of the input, tabs included -/
theorem scan_raw_line (rt ex : Bool) (tag tok l more : Str) (hs : AtLineStart tok) (hl : '\n' ∉ l) (ht : '\n' ∉ tag)
    (hnc : (ex && endsCont tok) = false) :
    scan rt ex tag tok (l ++ '\n' :: more) =
      if stripTabs rt l = tag then some (tok, more) else scan rt ex tag (tok ++ stripTabs rt l ++ ['\n']) more := by
  cases rt with
  | false =>
    simpa [stripTabs] using scan_line false ex tag tok l more hs hl ht (by simp) hnc
  | true =>
    obtain ⟨k, hk⟩ := stripTabs_decomp l
    have e : l ++ '\n' :: more = List.replicate k '\t' ++ (stripTabs true l ++ '\n' :: more) := by
      conv => lhs; rw [hk]
      simp
    rw [e, scan_skip_tabs ex tag tok _ hs hnc k]
    exact scan_line true ex tag tok (stripTabs true l) more hs (stripTabs_noNl true l hl) ht (fun _ => stripTabs_head l) hnc

theorem atLineStart_snoc (t : Str) : AtLineStart (t ++ ['\n']) := Or.inr (by simp)

theorem takeWhile_append_stop {α : Type} (p : α → Bool) (a b : List α) (hb : ∀ x, b.head? = some x → p x = false) :
    (a ++ b).takeWhile p = a.takeWhile p ++ (if a.all p then [] else []) := by
  induction a with
  | nil =>
    cases b with
    | nil => simp
    | cons x xs => simp [List.takeWhile_cons, hb x rfl]
  | cons y ys ih =>
    simp only [List.cons_append, List.takeWhile_cons]
    split
    · simp [ih]
    · simp

/-- at a line start the backslashes at the end of `tok ++ l` are those of `l` -/
theorem trailingBackslashes_at_line_start (tok l : Str) (hs : AtLineStart tok) :
    trailingBackslashes (tok ++ l) = trailingBackslashes l := by
  unfold trailingBackslashes
  rw [List.reverse_append, takeWhile_append_stop]
  · simp
  · intro x hx
    rcases hs with h | h
    · subst h; simp at hx
    · have : tok.reverse.head? = some '\n' := by simpa [List.head?_reverse] using h
      rw [this] at hx
      simp at hx
      subst hx
      decide

theorem endsCont_snoc (x : Str) : endsCont (x ++ ['\n']) = decide (trailingBackslashes x % 2 = 1) := by
  simp [endsCont, stripSuffix?_append]

theorem scan_lines_from (rt ex : Bool) (tag : Str) (lines : List Str) (rest : Str)
    (htag : '\n' ∉ tag) (htagT : rt = true → tag.head? ≠ some '\t')
    (hl : ∀ l ∈ lines, '\n' ∉ l ∧ stripTabs rt l ≠ tag)
    (hcont : ex = true → ∀ l ∈ lines, trailingBackslashes (stripTabs rt l) % 2 = 0)
    (tabs : Nat) (tok : Str) (hs : AtLineStart tok)
    (hnc : (ex && endsCont tok) = false) :
    scan rt ex tag tok (joinLines lines ++ (List.replicate (if rt then tabs else 0) '\t' ++ tag ++ ['\n']) ++ rest)
      = some (tok ++ joinLines (lines.map (stripTabs rt)), rest) := by
  induction lines generalizing tok with
  | nil =>
    simp only [joinLines, List.flatMap_nil, List.nil_append, List.map_nil, List.append_nil]
    have e : List.replicate (if rt then tabs else 0) '\t' ++ tag ++ ['\n'] ++ rest
        = List.replicate (if rt then tabs else 0) '\t' ++ (tag ++ '\n' :: rest) := by simp
    rw [e]
    cases rt with
    | false =>
      simp only [Bool.false_eq_true, ↓reduceIte, List.replicate_zero, List.nil_append]
      rw [scan_line false ex tag tok tag rest hs htag htag (by simp) hnc]
      simp
    | true =>
      simp only [↓reduceIte]
      rw [scan_skip_tabs ex tag tok _ hs hnc tabs, scan_line true ex tag tok tag rest hs htag htag htagT hnc]
      simp
  | cons l ls ih =>
    have h1 := hl l (by simp)
    have e : joinLines (l :: ls) ++ (List.replicate (if rt then tabs else 0) '\t' ++ tag ++ ['\n']) ++ rest
        = l ++ '\n' :: (joinLines ls ++ (List.replicate (if rt then tabs else 0) '\t' ++ tag ++ ['\n']) ++ rest) := by
      simp [joinLines]
    rw [e, scan_raw_line rt ex tag tok l _ hs h1.1 htag hnc]
    simp only [h1.2, ↓reduceIte]
    have hnc' : (ex && endsCont (tok ++ stripTabs rt l ++ ['\n'])) = false := by
      cases hex : ex with
      | false => rfl
      | true =>
        have := hcont hex l (by simp)
        have e2 : tok ++ stripTabs rt l ++ ['\n'] = (tok ++ stripTabs rt l) ++ ['\n'] := rfl
        rw [e2, endsCont_snoc, trailingBackslashes_at_line_start tok _ hs, this]
        simp
    rw [ih (fun l' hl' => hl l' (by simp [hl'])) (fun hex l' hl' => hcont hex l' (by simp [hl'])) _ (atLineStart_snoc _) hnc']
    simp [joinLines]

theorem scan_lines (rt ex : Bool) (tag : Str) (lines : List Str) (rest : Str)
    (htag : '\n' ∉ tag) (htagT : rt = true → tag.head? ≠ some '\t')
    (hl : ∀ l ∈ lines, '\n' ∉ l ∧ stripTabs rt l ≠ tag)
    (hcont : ex = true → ∀ l ∈ lines, trailingBackslashes (stripTabs rt l) % 2 = 0) (tabs : Nat) :
    scan rt ex tag [] (joinLines lines ++ (List.replicate (if rt then tabs else 0) '\t' ++ tag ++ ['\n']) ++ rest)
      = some (joinLines (lines.map (stripTabs rt)), rest) := by
  simpa using scan_lines_from rt ex tag lines rest htag htagT hl hcont tabs [] (Or.inl rfl) (by simp [endsCont, stripSuffix?])

end BrushVerif.HereDoc
