import BrushVerif.Model.ArithParse
import BrushVerif.Spec.Arith
/-! Helper lemmas for C07. -/
set_option linter.unusedSimpArgs false
namespace BrushVerif.Arith
open BrushVerif.Wire BrushVerif.ArithSpec

/-! ## wrapping power -/

theorem spow_add (b : Int64) (m n : Nat) : spow b (m + n) = spow b m * spow b n := by
  induction m with
  | zero => simp [spow]
  | succ k ih => rw [Nat.succ_add, spow, spow, ih, Int64.mul_assoc]

theorem spow_sq (b : Int64) (n : Nat) : spow (b * b) n = spow b (2 * n) := by
  induction n with
  | zero => simp [spow]
  | succ k ih =>
    have : 2 * (k + 1) = 2 + 2 * k := by omega
    rw [spow, ih, this, spow_add b 2 (2 * k)]
    simp [spow]

theorem wpowLoop_spec (fuel : Nat) : ∀ (b r : Int64) (e : Nat), e < 2 ^ fuel →
    wpowLoop fuel b r e = r * spow b e := by
  induction fuel with
  | zero => intro b r e h; have : e = 0 := by omega
            subst this; simp [wpowLoop, spow]
  | succ k ih =>
    intro b r e h
    rw [wpowLoop]
    split
    · next h0 => subst h0; simp [spow]
    · next h0 =>
      have hlt : e / 2 < 2 ^ k := by
        have : 2 ^ (k + 1) = 2 * 2 ^ k := by rw [Nat.pow_succ]; omega
        omega
      rw [ih _ _ _ hlt, spow_sq]
      split
      · next hodd =>
        have he : e = 1 + 2 * (e / 2) := by omega
        conv => rhs; rw [he, spow_add]
        simp [spow, Int64.mul_assoc]
      · next heven =>
        have he : 2 * (e / 2) = e := by omega
        rw [he]

theorem wpow_spec (b : Int64) (e : Nat) (h : e < 2 ^ 64) : wpow b e = spow b e := by
  unfold wpow; rw [wpowLoop_spec 64 b 1 e h]; simp

theorem spow_toInt (b : Int64) (n : Nat) : (spow b n).toInt = wrap (b.toInt ^ n) := by
  induction n with
  | zero => simp [spow, wrap]
  | succ k ih =>
    rw [spow, Int64.toInt_mul, ih, Int.pow_succ]
    unfold wrap
    rw [Int.mul_bmod_bmod, Int.mul_comm]


/-! ## operators against the mathematical definition -/

theorem ofInt_wrap_eq (x : Int) (v : Int64) (h : v.toInt = x.bmod (2 ^ 64)) : Int64.ofInt (wrap x) = v := by
  apply Int64.toInt_inj.mp
  rw [Int64.toInt_ofInt, h]
  unfold wrap
  simp [Int64.size]

theorem ofInt_of_toInt_eq (x : Int) (v : Int64) (h : v.toInt = x) : Int64.ofInt x = v := by
  rw [← h, Int64.ofInt_toInt]

theorem eq_zero_iff_toInt (a : Int64) : a = 0 ↔ a.toInt = 0 := by
  rw [← Int64.toInt_inj]; simp

theorem ofInt_ofBool (p : Bool) : Int64.ofInt (ofBool p) = b2i p := by
  cases p <;> simp [ofBool, b2i]

theorem nonneg_iff_toInt (r : Int64) : r ≥ 0 ↔ r.toInt ≥ 0 := by
  show (0 : Int64) ≤ r ↔ _
  rw [Int64.le_iff_toInt_le]; simp


/-! ## shifts: the count is taken modulo 64 -/

theorem smod64_toNat (b : BitVec 64) : (b.smod (64 : BitVec 64)).toNat = b.toNat % 64 := by
  show (b.smod 64#64).toNat = b.toNat % 64
  have h1 := @BitVec.toInt_smod 64 b 64#64
  have h64 : (64#64 : BitVec 64).toInt = 64 := by decide
  rw [h64, Int.fmod_eq_emod_of_nonneg _ (by omega)] at h1
  have h2 := @BitVec.toInt_eq_toNat_cond 64 b
  have h3 := @BitVec.toInt_eq_toNat_cond 64 (b.smod 64#64)
  have h4 := (b.smod 64#64).isLt
  have h5 := b.isLt
  split at h2 <;> split at h3 <;> omega

theorem shl_spec (a b : Int64) : (a <<< b).toBitVec = a.toBitVec <<< (b.toBitVec.toNat % 64) := by
  rw [Int64.toBitVec_shiftLeft, BitVec.shiftLeft_eq', smod64_toNat]

theorem shr_spec (a b : Int64) : (a >>> b).toBitVec = a.toBitVec.sshiftRight (b.toBitVec.toNat % 64) := by
  rw [Int64.toBitVec_shiftRight, BitVec.sshiftRight_eq', smod64_toNat]

/-! ## the environment -/

theorem Env.get_set_same (env : Env) (n : Str) (v : Val) : (env.set n v).get n = some v := by
  induction env with
  | nil => simp [Env.set, Env.get, List.lookup]
  | cons kv rest ih =>
    obtain ⟨k, w⟩ := kv
    unfold Env.set
    by_cases h : k = n
    · simp [h, Env.get, List.lookup]
    · have h' : (n == k) = false := by simp; exact fun e => h e.symm
      simp only [h, if_false, Env.get, List.lookup, h']
      exact ih

theorem Env.get_set_other (env : Env) (n m : Str) (v : Val) (hne : m ≠ n) : (env.set n v).get m = env.get m := by
  induction env with
  | nil =>
    have h' : (m == n) = false := by simp [hne]
    simp [Env.set, Env.get, List.lookup, h']
  | cons kv rest ih =>
    obtain ⟨k, w⟩ := kv
    unfold Env.set
    by_cases h : k = n
    · subst h
      have h' : (m == k) = false := by simp [hne]
      simp [Env.get, List.lookup, h']
    · simp only [h, if_false, Env.get, List.lookup]
      cases hmk : (m == k) with
      | true => rfl
      | false => exact ih

theorem arrGet_insert_same (m : List (Nat × Str)) (i : Nat) (s : Str) : arrGet (arrInsert m i s) i = some s := by
  induction m with
  | nil => simp [arrInsert, arrGet]
  | cons kv rest ih =>
    obtain ⟨k, w⟩ := kv
    unfold arrInsert
    by_cases h1 : i < k
    · simp [h1, arrGet]
    · by_cases h2 : i = k
      · simp [h2, arrGet]
      · have : ¬ k = i := fun e => h2 e.symm
        simp [h1, h2, arrGet, this, ih]

/-- after `name = v` the variable reads back as the decimal rendering of `v`
(whether it was unset, a scalar, or an array: element 0) -/
theorem varStr_setVar_same (env : Env) (n : Str) (v : Int64) : varStr (setVar env n v) n = showInt v := by
  unfold setVar
  cases h : env.get n with
  | none => simp [varStr, Env.get_set_same]
  | some val =>
    cases val with
    | scalar s => simp [varStr, Env.get_set_same]
    | arr m => simp [varStr, Env.get_set_same, arrGet_insert_same]

/-- … and no other variable changes -/
theorem varStr_setVar_other (env : Env) (n m : Str) (v : Int64) (hne : m ≠ n) :
    varStr (setVar env n v) m = varStr env m := by
  unfold setVar
  cases h : env.get n with
  | none => simp [varStr, Env.get_set_other _ _ _ _ hne]
  | some val =>
    cases val with
    | scalar s => simp [varStr, Env.get_set_other _ _ _ _ hne]
    | arr a => simp [varStr, Env.get_set_other _ _ _ _ hne]


/-! ## the parser -/

theorem takeWhile_all (p : Char → Bool) (l : Str) (h : ∀ c ∈ l, p c = true) : l.takeWhile p = l := by
  induction l with
  | nil => rfl
  | cons c cs ih =>
    have hc := h c (by simp)
    simp only [List.takeWhile, hc]
    rw [ih (fun x hx => h x (by simp [hx]))]

theorem dropWhile_all (p : Char → Bool) (l : Str) (h : ∀ c ∈ l, p c = true) : l.dropWhile p = [] := by
  induction l with
  | nil => rfl
  | cons c cs ih =>
    have hc := h c (by simp)
    simp only [List.dropWhile, hc]
    exact ih (fun x hx => h x (by simp [hx]))


/-- binary/ternary/assignment operators of a level, with associativity (`true` = right) -/
def opView : Entry → Option (Str × OpKind × Bool)
  | .infixOp lex op rprec => some (lex, .bin op, rprec == 0)
  | .ternary rprec => some (['?'], .cond, rprec == 0)
  | .assignOp lex op rprec => some (lex, .asg op, rprec == 0)
  | _ => none

/-- the levels that hold such operators, in order -/
def operatorView (tb : Table) : List (List (Str × OpKind × Bool)) :=
  (tb.map (fun lv => lv.filterMap opView)).filter (fun l => !l.isEmpty)

def Entry.isUnary : Entry → Bool
  | .prefixOp .. => true
  | .preIncDec .. => true
  | .postIncDec .. => true
  | _ => false

/-- number of the highest level holding an infix rule (+1) -/
def infixTop (tb : Table) : Nat := ((withPrec tb).filter (fun pe => pe.2.isInfix)).foldl (fun m pe => max m (pe.1 + 1)) 0

theorem postsFrom_nil_of_ge (tb : Table) (m : Nat) (h : ∀ pe ∈ withPrec tb, pe.2.isInfix = true → pe.1 < m) :
    postsFrom tb m = [] := by
  unfold postsFrom
  rw [List.filter_eq_nil_iff]
  intro pe hpe
  by_cases hi : pe.2.isInfix = true
  · have := h pe hpe hi
    simp [hi]; omega
  · simp [hi]

/-- `__infix_parse` depends on `min_prec` only through the set of infix rules it admits -/
theorem parseInfix_congr (tb : Table) (f m1 m2 : Nat) (s : Str) (h : postsFrom tb m1 = postsFrom tb m2) :
    parseInfix tb f m1 s = parseInfix tb f m2 s := by
  cases f with
  | zero => rfl
  | succ k => simp only [parseInfix, h]

theorem radixLoop_refines (radix : Nat) (cs : Str) : ∀ acc : Nat,
    radixLoop radix cs (Int64.ofNat acc) = (radixNat (radixDigit radix) radix cs acc).map Int64.ofNat := by
  induction cs with
  | nil => intro acc; simp [radixLoop, radixNat]
  | cons c cs ih =>
    intro acc
    simp only [radixLoop, radixNat]
    cases radixDigit radix c with
    | none => rfl
    | some dv =>
      simp only
      split
      · rfl
      · rw [← Int64.ofNat_mul, ← Int64.ofNat_add, ih]


theorem radixDigit_hex (c : Char) (h : isHexDigit c = true) : ∃ dv, radixDigit 16 c = some dv ∧ dv < 16 := by
  have e : c.val.toNat = c.toNat := rfl
  simp only [isHexDigit, isDigit, Bool.or_eq_true, Bool.and_eq_true, decide_eq_true_eq, Char.le_def,
    UInt32.le_iff_toNat_le, e] at h
  simp only [radixDigit, isDigit, Bool.and_eq_true, decide_eq_true_eq, Char.le_def, UInt32.le_iff_toNat_le, e]
  have k0 : ('0' : Char).toNat = 48 := rfl
  have k9 : ('9' : Char).toNat = 57 := rfl
  have ka : ('a' : Char).toNat = 97 := rfl
  have kf : ('f' : Char).toNat = 102 := rfl
  have kz : ('z' : Char).toNat = 122 := rfl
  have kA : ('A' : Char).toNat = 65 := rfl
  have kF : ('F' : Char).toNat = 70 := rfl
  have kZ : ('Z' : Char).toNat = 90 := rfl
  have e0 : ('0' : Char).val.toNat = 48 := rfl
  have e9 : ('9' : Char).val.toNat = 57 := rfl
  have ea : ('a' : Char).val.toNat = 97 := rfl
  have ef : ('f' : Char).val.toNat = 102 := rfl
  have ez : ('z' : Char).val.toNat = 122 := rfl
  have eA : ('A' : Char).val.toNat = 65 := rfl
  have eF : ('F' : Char).val.toNat = 70 := rfl
  have eZ : ('Z' : Char).val.toNat = 90 := rfl
  simp only [e0, e9, ea, ef, ez, eA, eF, eZ] at h ⊢
  by_cases h1 : 48 ≤ c.toNat ∧ c.toNat ≤ 57
  · exact ⟨c.toNat - 48, by simp [h1], by omega⟩
  · by_cases h2 : 97 ≤ c.toNat ∧ c.toNat ≤ 122
    · exact ⟨c.toNat - 97 + 10, by simp [h1, h2], by omega⟩
    · by_cases h3 : 65 ≤ c.toNat ∧ c.toNat ≤ 90
      · exact ⟨c.toNat - 65 + 10, by simp [h1, h2, h3], by omega⟩
      · omega

/-- a string of hexadecimal digits always has a base-16 value -/
theorem radixNat_hex_some (ds : Str) (h : ∀ c ∈ ds, isHexDigit c = true) :
    ∀ acc, ∃ v, radixNat (radixDigit 16) 16 ds acc = some v := by
  induction ds with
  | nil => intro acc; exact ⟨acc, rfl⟩
  | cons c cs ih =>
    intro acc
    obtain ⟨dv, hdv, hlt⟩ := radixDigit_hex c (h c (by simp))
    have hge : ¬ dv ≥ 16 := by omega
    simp only [radixNat, hdv, hge, if_false]
    exact ih (fun x hx => h x (by simp [hx])) _

/-! ## evaluation depends on the visible bindings only (context independence) -/

/-- two environments show the same bindings (whatever they hide underneath) -/
def Eqv (e1 e2 : Env) : Prop := ∀ n, e1.get n = e2.get n

theorem Eqv.refl (e : Env) : Eqv e e := fun _ => rfl

theorem Eqv.set {e1 e2 : Env} (h : Eqv e1 e2) (n : Str) (v : Val) : Eqv (e1.set n v) (e2.set n v) := by
  intro m
  by_cases hm : m = n
  · subst hm; rw [Env.get_set_same, Env.get_set_same]
  · rw [Env.get_set_other _ _ _ _ hm, Env.get_set_other _ _ _ _ hm]; exact h m

theorem Eqv.varStr {e1 e2 : Env} (h : Eqv e1 e2) (n : Str) : varStr e1 n = varStr e2 n := by
  unfold Arith.varStr; rw [h n]

theorem Eqv.elemStr {e1 e2 : Env} (h : Eqv e1 e2) (n : Str) (i : Int64) : elemStr e1 n i = elemStr e2 n i := by
  unfold Arith.elemStr; rw [h n]

theorem Eqv.setVar {e1 e2 : Env} (h : Eqv e1 e2) (n : Str) (v : Int64) : Eqv (setVar e1 n v) (setVar e2 n v) := by
  unfold Arith.setVar; rw [h n]
  cases e2.get n with
  | none => exact h.set _ _
  | some val => cases val <;> exact h.set _ _

theorem Eqv.setElem {e1 e2 : Env} (h : Eqv e1 e2) (n : Str) (i v : Int64) :
    (setElem e1 n i v).2 = (setElem e2 n i v).2 ∧ Eqv (setElem e1 n i v).1 (setElem e2 n i v).1 := by
  unfold Arith.setElem; rw [h n]
  cases e2.get n with
  | none => exact ⟨rfl, h.set _ _⟩
  | some val =>
    cases val with
    | scalar s =>
      simp only
      cases arrKey [(0, s)] i <;> exact ⟨rfl, h.set _ _⟩
    | arr m =>
      simp only
      cases arrKey m i
      · exact ⟨rfl, h⟩
      · exact ⟨rfl, h.set _ _⟩

/-- two results are the same value/error in environments that show the same bindings -/
def Rel (r1 r2 : Env × Res) : Prop := r1.2 = r2.2 ∧ Eqv r1.1 r2.1

theorem Eqv.assignR {e1 e2 : Env} (h : Eqv e1 e2) (rt : RT) (v : Int64) : Rel (assignR e1 rt v) (assignR e2 rt v) := by
  cases rt with
  | var n => exact ⟨rfl, h.setVar n v⟩
  | elem n i =>
    have := h.setElem n i v
    rcases h1 : Arith.setElem e1 n i v with ⟨a1, b1⟩
    rcases h2 : Arith.setElem e2 n i v with ⟨a2, b2⟩
    rw [h1, h2] at this
    obtain ⟨hb, ha⟩ := this
    simp only at hb ha
    subst hb
    simp only [Arith.assignR, h1, h2, Rel]
    cases b1 <;> exact ⟨rfl, ha⟩


def RelT (r1 r2 : Env × Except Err RT) : Prop := r1.2 = r2.2 ∧ Eqv r1.1 r2.1

theorem rel_fst {a : Env} {r : Res} {r2 : Env × Res} (h : Rel (a, r) r2) : ∃ a', r2 = (a', r) ∧ Eqv a a' := by
  obtain ⟨a2, q2⟩ := r2
  obtain ⟨h1, h2⟩ := h
  simp only at h1 h2
  exact ⟨a2, by rw [h1], h2⟩

theorem relT_fst {a : Env} {r : Except Err RT} {r2 : Env × Except Err RT} (h : RelT (a, r) r2) :
    ∃ a', r2 = (a', r) ∧ Eqv a a' := by
  obtain ⟨a2, q2⟩ := r2
  obtain ⟨h1, h2⟩ := h
  simp only at h1 h2
  exact ⟨a2, by rw [h1], h2⟩

theorem rel_mk {a a' : Env} (r : Res) (h : Eqv a a') : Rel (a, r) (a', r) := ⟨rfl, h⟩

/-- a result that is not `ok` is an error -/
theorem not_ok_err {x : Env × Res} (h : ∀ (e : Env) (v : Int64), x = (e, Res.ok v) → False) : ∃ e er, x = (e, Res.err er) := by
  obtain ⟨e, r⟩ := x
  cases r with
  | ok v => exact absurd rfl (fun hh => h e v hh)
  | err er => exact ⟨e, er, rfl⟩

/-- from an induction hypothesis and the known result on the left, the result on the right -/
theorem ih_fst {x1 x2 : Env × Res} {a : Env} {r : Res} (h : Rel x1 x2) (hx : x1 = (a, r)) :
    ∃ a', x2 = (a', r) ∧ Eqv a a' := rel_fst (hx ▸ h)

theorem ihT_fst {x1 x2 : Env × Except Err RT} {a : Env} {r : Except Err RT} (h : RelT x1 x2) (hx : x1 = (a, r)) :
    ∃ a', x2 = (a', r) ∧ Eqv a a' := relT_fst (hx ▸ h)

theorem eval_visible_all (P : Str → Option Expr) :
    (∀ d env e, ∀ env', Eqv env env' → Rel (eval P d env e) (eval P d env' e)) ∧
    (∀ d env rt, ∀ env', Eqv env env' → Rel (derefR P d env rt) (derefR P d env' rt)) ∧
    (∀ d env s, ∀ env', Eqv env env' → Rel (derefStr P d env s) (derefStr P d env' s)) ∧
    (∀ d env t, ∀ env', Eqv env env' → RelT (resolve P d env t) (resolve P d env' t)) := by
  apply eval.mutual_induct P
    (motive1 := fun d env e => ∀ env', Eqv env env' → Rel (eval P d env e) (eval P d env' e))
    (motive2 := fun d env rt => ∀ env', Eqv env env' → Rel (derefR P d env rt) (derefR P d env' rt))
    (motive3 := fun d env s => ∀ env', Eqv env env' → Rel (derefStr P d env s) (derefStr P d env' s))
    (motive4 := fun d env t => ∀ env', Eqv env env' → RelT (resolve P d env t) (resolve P d env' t))
  -- 1 lit
  · intro d env n env' he
    simp only [eval]; exact rel_mk _ he
  -- 2 ref, resolved
  · intro d env t env0 rt hres ih4 ih2 env' he
    obtain ⟨e0', hres', he0⟩ := ihT_fst (ih4 env' he) hres
    simp only [eval, hres, hres']
    exact ih2 e0' he0
  -- 3 ref, subscript error
  · intro d env t env0 er hres ih4 env' he
    obtain ⟨e0', hres', he0⟩ := ihT_fst (ih4 env' he) hres
    simp only [eval, hres, hres']
    exact rel_mk _ he0
  -- 4 un ok
  · intro d env op x env1 v hx ih env' he
    obtain ⟨e1', hx', he1⟩ := ih_fst (ih env' he) hx
    simp only [eval, hx, hx']
    exact rel_mk _ he1
  -- 5 un error
  · intro d env op x hno ih env' he
    obtain ⟨e1, er, hx⟩ := not_ok_err hno
    obtain ⟨e1', hx', he1⟩ := ih_fst (ih env' he) hx
    simp only [eval, hx, hx']
    exact rel_mk _ he1
  -- 6 bin, short circuit
  · intro d env op l r env1 v hl v1 hs ihl env' he
    obtain ⟨e1', hl', he1⟩ := ih_fst (ihl env' he) hl
    simp only [eval, hl, hl', hs]
    exact rel_mk _ he1
  -- 7 bin, both ok
  · intro d env op l r env1 v hl hs env2 w hr ihl ihr env' he
    obtain ⟨e1', hl', he1⟩ := ih_fst (ihl env' he) hl
    obtain ⟨e2', hr', he2⟩ := ih_fst (ihr e1' he1) hr
    simp only [eval, hl, hl', hs, hr, hr']
    exact rel_mk _ he2
  -- 8 bin, right error
  · intro d env op l r env1 v hl hs hno ihl ihr env' he
    obtain ⟨e1', hl', he1⟩ := ih_fst (ihl env' he) hl
    obtain ⟨e2, er, hr⟩ := not_ok_err hno
    obtain ⟨e2', hr', he2⟩ := ih_fst (ihr e1' he1) hr
    simp only [eval, hl, hl', hs, hr, hr']
    exact rel_mk _ he2
  -- 9 bin, left error
  · intro d env op l r hno ihl env' he
    obtain ⟨e1, er, hl⟩ := not_ok_err hno
    obtain ⟨e1', hl', he1⟩ := ih_fst (ihl env' he) hl
    simp only [eval, hl, hl']
    exact rel_mk _ he1
  -- 10 cond, then
  · intro d env c t f env1 v hc hv ihc iht env' he
    obtain ⟨e1', hc', he1⟩ := ih_fst (ihc env' he) hc
    simp only [eval, hc, hc', hv, if_true]
    simpa [hv] using iht e1' he1
  -- 11 cond, else
  · intro d env c t f env1 v hc hv ihc ihf env' he
    obtain ⟨e1', hc', he1⟩ := ih_fst (ihc env' he) hc
    simp only [eval, hc, hc', hv, if_false]
    simpa [hv] using ihf e1' he1
  -- 12 cond, condition error
  · intro d env c t f hno ihc env' he
    obtain ⟨e1, er, hc⟩ := not_ok_err hno
    obtain ⟨e1', hc', he1⟩ := ih_fst (ihc env' he) hc
    simp only [eval, hc, hc']
    exact rel_mk _ he1
  -- 13 assign ok
  · intro d env t r env1 v hr env0 rt hres ihr ih4 env' he
    obtain ⟨e1', hr', he1⟩ := ih_fst (ihr env' he) hr
    obtain ⟨e0', hres', he0⟩ := ihT_fst (ih4 e1' he1) hres
    simp only [eval, hr, hr', hres, hres']
    exact he0.assignR rt v
  -- 14 assign, subscript error
  · intro d env t r env1 v hr env0 er hres ihr ih4 env' he
    obtain ⟨e1', hr', he1⟩ := ih_fst (ihr env' he) hr
    obtain ⟨e0', hres', he0⟩ := ihT_fst (ih4 e1' he1) hres
    simp only [eval, hr, hr', hres, hres']
    exact rel_mk _ he0
  -- 15 assign, rhs error
  · intro d env t r hno ihr env' he
    obtain ⟨e1, er, hr⟩ := not_ok_err hno
    obtain ⟨e1', hr', he1⟩ := ih_fst (ihr env' he) hr
    simp only [eval, hr, hr']
    exact rel_mk _ he1
  -- 16 incDec ok
  · intro d env op t env0 rt hres env1 v hd env2 v1 ha ih4 ih2 env' he
    obtain ⟨e0', hres', he0⟩ := ihT_fst (ih4 env' he) hres
    obtain ⟨e1', hd', he1⟩ := ih_fst (ih2 e0' he0) hd
    obtain ⟨e2', ha', he2⟩ := ih_fst (he1.assignR rt (incNew op v)) ha
    simp only [eval, hres, hres', hd, hd', ha, ha']
    exact rel_mk _ he2
  -- 17 incDec, assignment fails
  · intro d env op t env0 rt hres env1 v hd hno ih4 ih2 env' he
    obtain ⟨e0', hres', he0⟩ := ihT_fst (ih4 env' he) hres
    obtain ⟨e1', hd', he1⟩ := ih_fst (ih2 e0' he0) hd
    obtain ⟨e2, er, ha⟩ := not_ok_err hno
    obtain ⟨e2', ha', he2⟩ := ih_fst (he1.assignR rt (incNew op v)) ha
    simp only [eval, hres, hres', hd, hd', ha, ha']
    exact rel_mk _ he2
  -- 18 incDec, read fails
  · intro d env op t env0 rt hres hno ih4 ih2 env' he
    obtain ⟨e0', hres', he0⟩ := ihT_fst (ih4 env' he) hres
    obtain ⟨e1, er, hd⟩ := not_ok_err hno
    obtain ⟨e1', hd', he1⟩ := ih_fst (ih2 e0' he0) hd
    simp only [eval, hres, hres', hd, hd']
    exact rel_mk _ he1
  -- 19 incDec, subscript error
  · intro d env op t env0 er hres ih4 env' he
    obtain ⟨e0', hres', he0⟩ := ihT_fst (ih4 env' he) hres
    simp only [eval, hres, hres']
    exact rel_mk _ he0
  -- 20 opAssign, short circuit
  · intro d env op t r env0 rt hres env1 v hd v1 hs ih4 ih2 env' he
    obtain ⟨e0', hres', he0⟩ := ihT_fst (ih4 env' he) hres
    obtain ⟨e1', hd', he1⟩ := ih_fst (ih2 e0' he0) hd
    simp only [eval, hres, hres', hd, hd', hs]
    exact he1.assignR rt v1
  -- 21 opAssign ok
  · intro d env op t r env0 rt hres env1 v hd hs env2 w hr v2 hab ih4 ih2 ihr env' he
    obtain ⟨e0', hres', he0⟩ := ihT_fst (ih4 env' he) hres
    obtain ⟨e1', hd', he1⟩ := ih_fst (ih2 e0' he0) hd
    obtain ⟨e2', hr', he2⟩ := ih_fst (ihr e1' he1) hr
    simp only [eval, hres, hres', hd, hd', hs, hr, hr', hab]
    exact he2.assignR rt v2
  -- 22 opAssign, operator error
  · intro d env op t r env0 rt hres env1 v hd hs env2 w hr er hab ih4 ih2 ihr env' he
    obtain ⟨e0', hres', he0⟩ := ihT_fst (ih4 env' he) hres
    obtain ⟨e1', hd', he1⟩ := ih_fst (ih2 e0' he0) hd
    obtain ⟨e2', hr', he2⟩ := ih_fst (ihr e1' he1) hr
    simp only [eval, hres, hres', hd, hd', hs, hr, hr', hab]
    exact rel_mk _ he2
  -- 23 opAssign, rhs error
  · intro d env op t r env0 rt hres env1 v hd hs hno ih4 ih2 ihr env' he
    obtain ⟨e0', hres', he0⟩ := ihT_fst (ih4 env' he) hres
    obtain ⟨e1', hd', he1⟩ := ih_fst (ih2 e0' he0) hd
    obtain ⟨e2, er, hr⟩ := not_ok_err hno
    obtain ⟨e2', hr', he2⟩ := ih_fst (ihr e1' he1) hr
    simp only [eval, hres, hres', hd, hd', hs, hr, hr']
    exact rel_mk _ he2
  -- 24 opAssign, read fails
  · intro d env op t r env0 rt hres hno ih4 ih2 env' he
    obtain ⟨e0', hres', he0⟩ := ihT_fst (ih4 env' he) hres
    obtain ⟨e1, er, hd⟩ := not_ok_err hno
    obtain ⟨e1', hd', he1⟩ := ih_fst (ih2 e0' he0) hd
    simp only [eval, hres, hres', hd, hd']
    exact rel_mk _ he1
  -- 25 opAssign, subscript error
  · intro d env op t r env0 er hres ih4 env' he
    obtain ⟨e0', hres', he0⟩ := ihT_fst (ih4 env' he) hres
    simp only [eval, hres, hres']
    exact rel_mk _ he0
  -- 26 derefR var
  · intro d env n ih3 env' he
    simp only [derefR]
    rw [← he.varStr n]
    exact ih3 env' he
  -- 27 derefR elem, bad subscript
  · intro d env n i hnone env' he
    have hnone' : elemStr env' n i = none := by rw [← he.elemStr n i]; exact hnone
    simp only [derefR, hnone, hnone']
    exact rel_mk _ he
  -- 28 derefR elem
  · intro d env n i s hs ih3 env' he
    have hs' : elemStr env' n i = some s := by rw [← he.elemStr n i]; exact hs
    simp only [derefR, hs, hs']
    exact ih3 env' he
  -- 29 derefStr, contents do not parse
  · intro d env s hp env' he
    simp only [derefStr, hp]
    exact rel_mk _ he
  -- 30 derefStr literal
  · intro d env s n hp env' he
    simp only [derefStr, hp]
    exact rel_mk _ he
  -- 31 derefStr, too deep
  · intro d env s e hnl hp hd env' he
    rw [derefStr, derefStr, hp]
    cases e with
    | lit n => exact absurd rfl (hnl n)
    | _ => simp only [hd, dif_pos]; exact rel_mk _ he
  -- 32 derefStr, one level deeper
  · intro d env s e hnl hp hd ih env' he
    rw [derefStr, derefStr, hp]
    cases e with
    | lit n => exact absurd rfl (hnl n)
    | _ => simp only [hd, dif_neg, not_false_eq_true]; exact ih env' he
  -- 33 resolve var
  · intro d env n env' he
    simp only [resolve]; exact ⟨rfl, he⟩
  -- 34 resolve elem
  · intro d env n idx env1 i hi ih env' he
    obtain ⟨e1', hi', he1⟩ := ih_fst (ih env' he) hi
    simp only [resolve, hi, hi']
    exact ⟨rfl, he1⟩
  -- 35 resolve elem, subscript error
  · intro d env n idx env1 er hi ih env' he
    obtain ⟨e1', hi', he1⟩ := ih_fst (ih env' he) hi
    simp only [resolve, hi, hi']
    exact ⟨rfl, he1⟩


theorem Env.get_append (l g : Env) (n : Str) :
    Env.get (l ++ g) n = (match Env.get l n with | some v => some v | none => Env.get g n) := by
  induction l with
  | nil => simp [Env.get, List.lookup]
  | cons kv rest ih =>
    obtain ⟨k, w⟩ := kv
    simp only [Env.get, List.cons_append, List.lookup] at ih ⊢
    cases (n == k) with
    | true => rfl
    | false => exact ih

/-- assignment goes to the innermost (first) binding of the name and leaves what it hides alone -/
theorem Env.set_append_of_bound (l g : Env) (n : Str) (v : Val) (h : Env.get l n ≠ none) :
    Env.set (l ++ g) n v = Env.set l n v ++ g := by
  induction l with
  | nil => simp [Env.get, List.lookup] at h
  | cons kv rest ih =>
    obtain ⟨k, w⟩ := kv
    simp only [List.cons_append, Env.set]
    by_cases hk : k = n
    · simp [hk]
    · have hnk : (n == k) = false := by simp; exact fun e => hk e.symm
      simp only [hk, if_false, List.cons_append, List.cons.injEq, true_and]
      apply ih
      simpa [Env.get, List.lookup, hnk] using h

end BrushVerif.Arith
