import BrushVerif.Model.ArithParse
import BrushVerif.Spec.Arith
/-! Helper lemmas for C07. -/
set_option linter.unusedSimpArgs false
namespace BrushVerif.Arith
open BrushVerif.Wire BrushVerif.ArithSpec

/-! ## wrapping power -/

theorem spow_add (b : Int64) (m n : Nat) : spow b (m + n) = spow b m * spow b n := by
  induction m with
  | zero => simp [spow]
  | succ k ih => rw [Nat.succ_add, spow, spow, ih, Int64.mul_assoc]

theorem spow_sq (b : Int64) (n : Nat) : spow (b * b) n = spow b (2 * n) := by
  induction n with
  | zero => simp [spow]
  | succ k ih =>
    have : 2 * (k + 1) = 2 + 2 * k := by omega
    rw [spow, ih, this, spow_add b 2 (2 * k)]
    simp [spow]

theorem wpowLoop_spec (fuel : Nat) : ∀ (b r : Int64) (e : Nat), e < 2 ^ fuel →
    wpowLoop fuel b r e = r * spow b e := by
  induction fuel with
  | zero => intro b r e h; have : e = 0 := by omega
            subst this; simp [wpowLoop, spow]
  | succ k ih =>
    intro b r e h
    rw [wpowLoop]
    split
    · next h0 => subst h0; simp [spow]
    · next h0 =>
      have hlt : e / 2 < 2 ^ k := by
        have : 2 ^ (k + 1) = 2 * 2 ^ k := by rw [Nat.pow_succ]; omega
        omega
      rw [ih _ _ _ hlt, spow_sq]
      split
      · next hodd =>
        have he : e = 1 + 2 * (e / 2) := by omega
        conv => rhs; rw [he, spow_add]
        simp [spow, Int64.mul_assoc]
      · next heven =>
        have he : 2 * (e / 2) = e := by omega
        rw [he]

theorem wpow_spec (b : Int64) (e : Nat) (h : e < 2 ^ 64) : wpow b e = spow b e := by
  unfold wpow; rw [wpowLoop_spec 64 b 1 e h]; simp

theorem spow_toInt (b : Int64) (n : Nat) : (spow b n).toInt = wrap (b.toInt ^ n) := by
  induction n with
  | zero => simp [spow, wrap]
  | succ k ih =>
    rw [spow, Int64.toInt_mul, ih, Int.pow_succ]
    unfold wrap
    rw [Int.mul_bmod_bmod, Int.mul_comm]


/-! ## operators against the mathematical definition -/

theorem ofInt_wrap_eq (x : Int) (v : Int64) (h : v.toInt = x.bmod (2 ^ 64)) : Int64.ofInt (wrap x) = v := by
  apply Int64.toInt_inj.mp
  rw [Int64.toInt_ofInt, h]
  unfold wrap
  simp [Int64.size]

theorem ofInt_of_toInt_eq (x : Int) (v : Int64) (h : v.toInt = x) : Int64.ofInt x = v := by
  rw [← h, Int64.ofInt_toInt]

theorem eq_zero_iff_toInt (a : Int64) : a = 0 ↔ a.toInt = 0 := by
  rw [← Int64.toInt_inj]; simp

theorem ofInt_ofBool (p : Bool) : Int64.ofInt (ofBool p) = b2i p := by
  cases p <;> simp [ofBool, b2i]

theorem nonneg_iff_toInt (r : Int64) : r ≥ 0 ↔ r.toInt ≥ 0 := by
  show (0 : Int64) ≤ r ↔ _
  rw [Int64.le_iff_toInt_le]; simp


/-! ## shifts: the count is taken modulo 64 -/

theorem smod64_toNat (b : BitVec 64) : (b.smod (64 : BitVec 64)).toNat = b.toNat % 64 := by
  show (b.smod 64#64).toNat = b.toNat % 64
  have h1 := @BitVec.toInt_smod 64 b 64#64
  have h64 : (64#64 : BitVec 64).toInt = 64 := by decide
  rw [h64, Int.fmod_eq_emod_of_nonneg _ (by omega)] at h1
  have h2 := @BitVec.toInt_eq_toNat_cond 64 b
  have h3 := @BitVec.toInt_eq_toNat_cond 64 (b.smod 64#64)
  have h4 := (b.smod 64#64).isLt
  have h5 := b.isLt
  split at h2 <;> split at h3 <;> omega

theorem shl_spec (a b : Int64) : (a <<< b).toBitVec = a.toBitVec <<< (b.toBitVec.toNat % 64) := by
  rw [Int64.toBitVec_shiftLeft, BitVec.shiftLeft_eq', smod64_toNat]

theorem shr_spec (a b : Int64) : (a >>> b).toBitVec = a.toBitVec.sshiftRight (b.toBitVec.toNat % 64) := by
  rw [Int64.toBitVec_shiftRight, BitVec.sshiftRight_eq', smod64_toNat]

/-! ## the environment -/

theorem Env.get_set_same (env : Env) (n : Str) (v : Val) : (env.set n v).get n = some v := by
  induction env with
  | nil => simp [Env.set, Env.get, List.lookup]
  | cons kv rest ih =>
    obtain ⟨k, w⟩ := kv
    unfold Env.set
    by_cases h : k = n
    · simp [h, Env.get, List.lookup]
    · have h' : (n == k) = false := by simp; exact fun e => h e.symm
      simp only [h, if_false, Env.get, List.lookup, h']
      exact ih

theorem Env.get_set_other (env : Env) (n m : Str) (v : Val) (hne : m ≠ n) : (env.set n v).get m = env.get m := by
  induction env with
  | nil =>
    have h' : (m == n) = false := by simp [hne]
    simp [Env.set, Env.get, List.lookup, h']
  | cons kv rest ih =>
    obtain ⟨k, w⟩ := kv
    unfold Env.set
    by_cases h : k = n
    · subst h
      have h' : (m == k) = false := by simp [hne]
      simp [Env.get, List.lookup, h']
    · simp only [h, if_false, Env.get, List.lookup]
      cases hmk : (m == k) with
      | true => rfl
      | false => exact ih

theorem arrGet_insert_same (m : List (Nat × Str)) (i : Nat) (s : Str) : arrGet (arrInsert m i s) i = some s := by
  induction m with
  | nil => simp [arrInsert, arrGet]
  | cons kv rest ih =>
    obtain ⟨k, w⟩ := kv
    unfold arrInsert
    by_cases h1 : i < k
    · simp [h1, arrGet]
    · by_cases h2 : i = k
      · simp [h2, arrGet]
      · have : ¬ k = i := fun e => h2 e.symm
        simp [h1, h2, arrGet, this, ih]

/-- after `name = v` the variable reads back as the decimal rendering of `v`
(whether it was unset, a scalar, or an array: element 0) -/
theorem varStr_setVar_same (env : Env) (n : Str) (v : Int64) : varStr (setVar env n v) n = showInt v := by
  unfold setVar
  cases h : env.get n with
  | none => simp [varStr, Env.get_set_same]
  | some val =>
    cases val with
    | scalar s => simp [varStr, Env.get_set_same]
    | arr m => simp [varStr, Env.get_set_same, arrGet_insert_same]

/-- … and no other variable changes -/
theorem varStr_setVar_other (env : Env) (n m : Str) (v : Int64) (hne : m ≠ n) :
    varStr (setVar env n v) m = varStr env m := by
  unfold setVar
  cases h : env.get n with
  | none => simp [varStr, Env.get_set_other _ _ _ _ hne]
  | some val =>
    cases val with
    | scalar s => simp [varStr, Env.get_set_other _ _ _ _ hne]
    | arr a => simp [varStr, Env.get_set_other _ _ _ _ hne]


/-! ## the parser -/

theorem takeWhile_all (p : Char → Bool) (l : Str) (h : ∀ c ∈ l, p c = true) : l.takeWhile p = l := by
  induction l with
  | nil => rfl
  | cons c cs ih =>
    have hc := h c (by simp)
    simp only [List.takeWhile, hc]
    rw [ih (fun x hx => h x (by simp [hx]))]

theorem dropWhile_all (p : Char → Bool) (l : Str) (h : ∀ c ∈ l, p c = true) : l.dropWhile p = [] := by
  induction l with
  | nil => rfl
  | cons c cs ih =>
    have hc := h c (by simp)
    simp only [List.dropWhile, hc]
    exact ih (fun x hx => h x (by simp [hx]))


/-- binary/ternary/assignment operators of a level, with associativity (`true` = right) -/
def opView : Entry → Option (Str × OpKind × Bool)
  | .infixOp lex op rprec => some (lex, .bin op, rprec == 0)
  | .ternary rprec => some (['?'], .cond, rprec == 0)
  | .assignOp lex op rprec => some (lex, .asg op, rprec == 0)
  | _ => none

/-- the levels that hold such operators, in order -/
def operatorView (tb : Table) : List (List (Str × OpKind × Bool)) :=
  (tb.map (fun lv => lv.filterMap opView)).filter (fun l => !l.isEmpty)

def Entry.isUnary : Entry → Bool
  | .prefixOp .. => true
  | .preIncDec .. => true
  | .postIncDec .. => true
  | _ => false

/-- number of the highest level holding an infix rule (+1) -/
def infixTop (tb : Table) : Nat := ((withPrec tb).filter (fun pe => pe.2.isInfix)).foldl (fun m pe => max m (pe.1 + 1)) 0

theorem postsFrom_nil_of_ge (tb : Table) (m : Nat) (h : ∀ pe ∈ withPrec tb, pe.2.isInfix = true → pe.1 < m) :
    postsFrom tb m = [] := by
  unfold postsFrom
  rw [List.filter_eq_nil_iff]
  intro pe hpe
  by_cases hi : pe.2.isInfix = true
  · have := h pe hpe hi
    simp [hi]; omega
  · simp [hi]

/-- `__infix_parse` depends on `min_prec` only through the set of infix rules it admits -/
theorem parseInfix_congr (tb : Table) (f m1 m2 : Nat) (s : Str) (h : postsFrom tb m1 = postsFrom tb m2) :
    parseInfix tb f m1 s = parseInfix tb f m2 s := by
  cases f with
  | zero => rfl
  | succ k => simp only [parseInfix, h]

theorem radixLoop_refines (radix : Nat) (cs : Str) : ∀ acc : Nat,
    radixLoop radix cs (Int64.ofNat acc) = (radixNat (radixDigit radix) radix cs acc).map Int64.ofNat := by
  induction cs with
  | nil => intro acc; simp [radixLoop, radixNat]
  | cons c cs ih =>
    intro acc
    simp only [radixLoop, radixNat]
    cases radixDigit radix c with
    | none => rfl
    | some dv =>
      simp only
      split
      · rfl
      · rw [← Int64.ofNat_mul, ← Int64.ofNat_add, ih]


theorem radixDigit_hex (c : Char) (h : isHexDigit c = true) : ∃ dv, radixDigit 16 c = some dv ∧ dv < 16 := by
  have e : c.val.toNat = c.toNat := rfl
  simp only [isHexDigit, isDigit, Bool.or_eq_true, Bool.and_eq_true, decide_eq_true_eq, Char.le_def,
    UInt32.le_iff_toNat_le, e] at h
  simp only [radixDigit, isDigit, Bool.and_eq_true, decide_eq_true_eq, Char.le_def, UInt32.le_iff_toNat_le, e]
  have k0 : ('0' : Char).toNat = 48 := rfl
  have k9 : ('9' : Char).toNat = 57 := rfl
  have ka : ('a' : Char).toNat = 97 := rfl
  have kf : ('f' : Char).toNat = 102 := rfl
  have kz : ('z' : Char).toNat = 122 := rfl
  have kA : ('A' : Char).toNat = 65 := rfl
  have kF : ('F' : Char).toNat = 70 := rfl
  have kZ : ('Z' : Char).toNat = 90 := rfl
  have e0 : ('0' : Char).val.toNat = 48 := rfl
  have e9 : ('9' : Char).val.toNat = 57 := rfl
  have ea : ('a' : Char).val.toNat = 97 := rfl
  have ef : ('f' : Char).val.toNat = 102 := rfl
  have ez : ('z' : Char).val.toNat = 122 := rfl
  have eA : ('A' : Char).val.toNat = 65 := rfl
  have eF : ('F' : Char).val.toNat = 70 := rfl
  have eZ : ('Z' : Char).val.toNat = 90 := rfl
  simp only [e0, e9, ea, ef, ez, eA, eF, eZ] at h ⊢
  by_cases h1 : 48 ≤ c.toNat ∧ c.toNat ≤ 57
  · exact ⟨c.toNat - 48, by simp [h1], by omega⟩
  · by_cases h2 : 97 ≤ c.toNat ∧ c.toNat ≤ 122
    · exact ⟨c.toNat - 97 + 10, by simp [h1, h2], by omega⟩
    · by_cases h3 : 65 ≤ c.toNat ∧ c.toNat ≤ 90
      · exact ⟨c.toNat - 65 + 10, by simp [h1, h2, h3], by omega⟩
      · omega

/-- a string of hexadecimal digits always has a base-16 value -/
theorem radixNat_hex_some (ds : Str) (h : ∀ c ∈ ds, isHexDigit c = true) :
    ∀ acc, ∃ v, radixNat (radixDigit 16) 16 ds acc = some v := by
  induction ds with
  | nil => intro acc; exact ⟨acc, rfl⟩
  | cons c cs ih =>
    intro acc
    obtain ⟨dv, hdv, hlt⟩ := radixDigit_hex c (h c (by simp))
    have hge : ¬ dv ≥ 16 := by omega
    simp only [radixNat, hdv, hge, if_false]
    exact ih (fun x hx => h x (by simp [hx])) _

end BrushVerif.Arith
