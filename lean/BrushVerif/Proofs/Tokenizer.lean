import BrushVerif.Model.Tokenizer
/-!
Lemmas about `Model/Tokenizer.lean`: the invariant of the token loop (`Inv`), what one step does to it,
and the resulting description of the token list (`ToksOK`).
-/
namespace BrushVerif.Tokenizer
open BrushVerif.Wire

/-- the chars of `l` with index in `[a, b)` -/
def slice (l : Str) (a b : Nat) : Str := (l.drop a).take (b - a)

theorem slice_append_left (pre cs : Str) (lo : Nat) (h : lo ≤ pre.length) :
    slice (pre ++ cs) lo pre.length = pre.drop lo := by
  unfold slice
  rw [List.drop_append_of_le_length h]
  have : pre.length - lo = (pre.drop lo).length := by simp
  rw [this, List.take_left']
  rfl

theorem slice_split (l x y : Str) (a b : Nat) (h : slice l a b = x ++ y) :
    slice l (a + x.length) b = y ∧ slice l a (a + x.length) = x := by
  unfold slice at *
  have hlen : x.length ≤ b - a := by
    have := congrArg List.length h
    simp at this
    omega
  constructor
  · have e : b - (a + x.length) = (b - a) - x.length := by omega
    rw [← List.drop_drop, e, ← List.drop_take, h]
    simp
  · have e : a + x.length - a = x.length := by omega
    rw [e]
    have := congrArg (List.take x.length) h
    rw [List.take_take] at this
    simpa [Nat.min_eq_left hlen] using this

/-- what the token loop guarantees about one token; `lo` is where the previous token ended -/
def TokOK (line : Str) (lo : Nat) (t : Token) : Prop :=
  lo ≤ t.start.index ∧ t.start.index < t.stop.index ∧ t.stop.index ≤ line.length ∧
  t.text ≠ [] ∧ t.text.length ≤ t.stop.index - t.start.index ∧
  (t.exact = true → ∃ bl : Str, slice line lo t.stop.index = bl ++ t.text ∧ bl.all isBlank = true ∧
      lo + bl.length = t.start.index)

def ToksOK (line : Str) : Nat → List Token → Prop
  | _, [] => True
  | lo, t :: ts => TokOK line lo t ∧ ToksOK line t.stop.index ts

/-- the invariant of the loop: `pre` is the consumed part of the line, `lo` the end of the previous token -/
structure Inv (lo : Nat) (pre : Str) (st : St) : Prop where
  cur : st.cur.index = pre.length
  lo_le : lo ≤ st.start.index
  start_le : st.start.index + st.tok.length + (if st.bs then 1 else 0) ≤ st.cur.index
  exact : st.skipped = false → ∃ bl : Str,
    pre.drop lo = bl ++ st.tok ++ (if st.bs then ['\\'] else []) ∧ bl.all isBlank = true ∧
      lo + bl.length = st.start.index
  op_ne : st.isOp = true → st.tok ≠ []
  comment : st.inComment = true → st.skipped = true

theorem inv_fresh (pre : Str) (p : Pos) (h : p.index = pre.length) : Inv p.index pre (fresh p) := by
  refine ⟨h, Nat.le_refl _, by simp [fresh], ?_, by simp [fresh], by simp [fresh]⟩
  intro _
  exact ⟨[], by simp [fresh, h], rfl, rfl⟩

theorem adv_index (p : Pos) (c : Char) : (adv p c).index = p.index + 1 := by
  unfold adv; split <;> rfl


theorem push_lists (bl tok : Str) (c : Char) : bl ++ tok ++ [] ++ [c] = bl ++ (tok ++ [c]) ++ [] := by simp

/-- the part of a step lemma that is the same for every consuming branch -/
theorem inv_step {lo : Nat} {pre : Str} {st st' : St} {c : Char} (hi : Inv lo pre st)
    (hcur : st'.cur.index = st.cur.index + 1)
    (hstart : st.start.index ≤ st'.start.index)
    (hle : st'.start.index + st'.tok.length + (if st'.bs then 1 else 0) ≤ st.cur.index + 1)
    (hex : st'.skipped = false → st.skipped = false ∧ ∀ bl : Str,
      pre.drop lo = bl ++ st.tok ++ (if st.bs then ['\\'] else []) → bl.all isBlank = true →
      lo + bl.length = st.start.index →
      ∃ bl' : Str, pre.drop lo ++ [c] = bl' ++ st'.tok ++ (if st'.bs then ['\\'] else []) ∧
        bl'.all isBlank = true ∧ lo + bl'.length = st'.start.index)
    (hop : st'.isOp = true → st'.tok ≠ [])
    (hcm : st'.inComment = true → st'.skipped = true) : Inv lo (pre ++ [c]) st' := by
  obtain ⟨icur, ilo, ile, iex, iop, icm⟩ := hi
  have hlo' : lo ≤ pre.length := by omega
  have hd : (pre ++ [c]).drop lo = pre.drop lo ++ [c] := List.drop_append_of_le_length hlo'
  refine ⟨by simp; omega, by omega, by omega, ?_, hop, hcm⟩
  intro hs
  obtain ⟨hs0, hall⟩ := hex hs
  obtain ⟨bl, h1, h2, h3⟩ := iex hs0
  rw [hd]
  exact hall bl h1 h2 h3

theorem stepBs_cont {lo : Nat} {pre : Str} {st st' : St} {c : Char}
    (hi : Inv lo pre st) (hb : st.bs = true) (h : stepBs st c = .cont st') : Inv lo (pre ++ [c]) st' := by
  have ile := hi.start_le
  unfold stepBs at h
  split at h <;> cases h
  · refine inv_step hi (by simp [adv_index]) (by simp) (by simp; omega) (by simp) hi.op_ne (by simp)
  · refine inv_step hi (by simp [adv_index]) (by simp) (by simp [hb] at ile ⊢; omega) ?_ (by simp) hi.comment
    intro hs
    refine ⟨hs, ?_⟩
    intro bl h1 h2 h3
    exact ⟨bl, by simp [hb] at h1 ⊢; rw [h1]; simp, h2, h3⟩


/-- a branch that consumes `c` and appends it to the token -/
theorem inv_push {lo : Nat} {pre : Str} {st st' : St} {c : Char} (hi : Inv lo pre st) (hb : st.bs = false)
    (h1 : st'.cur.index = st.cur.index + 1) (h2 : st'.start = st.start) (h3 : st'.tok = st.tok ++ [c])
    (h4 : st'.bs = false) (h5 : st'.skipped = st.skipped) (h6 : st'.inComment = st.inComment) :
    Inv lo (pre ++ [c]) st' := by
  have ile := hi.start_le
  refine inv_step hi h1 (by rw [h2]; exact Nat.le_refl _) (by simp [h2, h3, h4, hb] at ile ⊢; omega) ?_
    (by simp [h3]) (by rw [h5, h6]; exact hi.comment)
  intro hs
  refine ⟨by rw [← h5]; exact hs, ?_⟩
  intro bl e1 e2 e3
  exact ⟨bl, by simp [hb] at e1; simp [h3, h4, e1], e2, by rw [h2]; exact e3⟩

/-- a branch that consumes `c` without touching the token, after which nothing is `exact` any more -/
theorem inv_skip {lo : Nat} {pre : Str} {st st' : St} {c : Char} (hi : Inv lo pre st) (hb : st.bs = false)
    (h1 : st'.cur.index = st.cur.index + 1) (h2 : st'.start = st.start) (h3 : st'.tok = st.tok)
    (h4 : st'.bs = false) (h5 : st'.skipped = true) (h6 : st'.isOp = st.isOp) : Inv lo (pre ++ [c]) st' := by
  have ile := hi.start_le
  refine inv_step hi h1 (by rw [h2]; exact Nat.le_refl _) (by simp [h2, h3, h4, hb] at ile ⊢; omega) ?_
    (by rw [h3, h6]; exact hi.op_ne) (fun _ => h5)
  intro hs
  simp [h5] at hs

theorem stepComment_cont {lo : Nat} {pre : Str} {st st' : St} {c : Char}
    (hi : Inv lo pre st) (hb : st.bs = false) (hc : st.inComment = true) (h : stepComment st c = .cont st') :
    Inv lo (pre ++ [c]) st' := by
  have ile := hi.start_le
  have hsk := hi.comment hc
  unfold stepComment at h
  split at h <;> cases h
  · refine inv_step hi (by simp [adv_index]) (by simp) (by simp [hb] at ile ⊢; omega) ?_ (by simp) (by simp)
    intro hs
    simp [hsk] at hs
  · exact inv_skip hi hb (by simp [adv_index]) rfl rfl hb hsk rfl

theorem stepOp_cont {o : Opts} {lo : Nat} {pre : Str} {st st' : St} {c : Char}
    (hi : Inv lo pre st) (hb : st.bs = false) (h : stepOp o st c = .cont st') : Inv lo (pre ++ [c]) st' := by
  unfold stepOp at h
  repeat' split at h
  all_goals cases h
  exact inv_push hi hb (by simp [St.push, adv_index]) rfl rfl hb rfl rfl

theorem stepQuote_cont {lo : Nat} {pre : Str} {st st' : St} {c : Char}
    (hi : Inv lo pre st) (hb : st.bs = false) (h : stepQuote st c = .cont st') : Inv lo (pre ++ [c]) st' := by
  have ile := hi.start_le
  unfold stepQuote at h
  repeat' split at h
  all_goals cases h
  · refine inv_step hi (by simp [adv_index]) (by simp) (by simp [hb] at ile ⊢; omega) ?_ hi.op_ne hi.comment
    intro hs
    refine ⟨hs, ?_⟩
    intro bl e1 e2 e3
    rename_i hc
    exact ⟨bl, by simp [hb] at e1; simp [e1, hc], e2, e3⟩
  · exact inv_push hi hb (by simp [adv_index]) rfl rfl hb rfl rfl
  · exact inv_push hi hb (by simp [adv_index]) rfl rfl hb rfl rfl

theorem stepPlain_cont {lo : Nat} {pre : Str} {st st' : St} {c : Char}
    (hi : Inv lo pre st) (hb : st.bs = false) (_hc : st.inComment = false) (h : stepPlain st c = .cont st') :
    Inv lo (pre ++ [c]) st' := by
  have ile := hi.start_le
  unfold stepPlain at h
  repeat' split at h
  all_goals cases h
  · exact inv_push hi hb (by simp [adv_index]) rfl rfl hb rfl rfl
  · -- a blank in front of a token: the start position moves with the cursor
    rename_i hbl hne
    have htok : st.tok = [] := by simpa using hne
    refine inv_step hi (by simp [adv_index]) (by simp) (by simp [hb, htok] at ile ⊢; omega) ?_ ?_ hi.comment
    · intro hs
      refine ⟨hs, ?_⟩
      intro bl e1 e2 e3
      refine ⟨bl ++ [c], by simp [hb, htok] at e1; simp [hb, htok, e1], by simp [e2, hbl.2], ?_⟩
      simp; omega
    · intro h'
      have := hi.op_ne h'
      exact absurd htok this
  · exact inv_push hi hb (by simp [St.push, adv_index]) rfl rfl hb rfl rfl
  · exact inv_skip hi hb (by simp [adv_index]) rfl rfl hb rfl rfl
  · exact inv_push hi hb (by simp [St.push, adv_index]) rfl rfl hb rfl rfl

theorem stepWord_cont {o : Opts} {lo : Nat} {pre : Str} {st st' : St} {c : Char}
    (hi : Inv lo pre st) (hb : st.bs = false) (hc : st.inComment = false) (h : stepWord o st c = .cont st') :
    Inv lo (pre ++ [c]) st' := by
  unfold stepWord at h
  repeat' split at h
  · cases h; exact inv_push hi hb (by simp [adv_index]) rfl rfl hb rfl rfl
  · cases h; exact inv_push hi hb (by simp [adv_index]) rfl rfl hb rfl rfl
  · cases h
  · cases h
  · exact stepPlain_cont hi hb hc h

theorem step_cont {o : Opts} {lo : Nat} {pre : Str} {st st' : St} {c : Char}
    (hi : Inv lo pre st) (h : step o st c = .cont st') : Inv lo (pre ++ [c]) st' := by
  unfold step at h
  split at h
  · exact stepBs_cont hi (by assumption) h
  · have hb : st.bs = false := by simpa using ‹¬ st.bs = true›
    split at h
    · exact stepComment_cont hi hb (by assumption) h
    · have hc : st.inComment = false := by simpa using ‹¬ st.inComment = true›
      split at h
      · exact stepOp_cont hi hb h
      · split at h
        · exact stepQuote_cont hi hb h
        · exact stepWord_cont hi hb hc h


theorem stepOp_emit {o : Opts} {st : St} {c : Char} {t : Token} (h : stepOp o st c = .emit t) :
    t = mkTok st ∧ st.tok ≠ [] := by
  unfold stepOp at h
  repeat' split at h
  all_goals cases h
  simp_all

theorem stepPlain_emit {st : St} {c : Char} {t : Token} (h : stepPlain st c = .emit t) :
    t = mkTok st ∧ st.tok ≠ [] := by
  unfold stepPlain at h
  repeat' split at h
  all_goals cases h
  all_goals simp_all

theorem stepWord_emit {o : Opts} {st : St} {c : Char} {t : Token} (h : stepWord o st c = .emit t) :
    t = mkTok st ∧ st.tok ≠ [] := by
  unfold stepWord at h
  repeat' split at h
  · cases h
  · cases h
  · cases h
  · cases h
  · exact stepPlain_emit h

theorem step_emit {o : Opts} {st : St} {c : Char} {t : Token} (h : step o st c = .emit t) :
    t = mkTok st ∧ st.tok ≠ [] ∧ st.bs = false := by
  unfold step at h
  split at h
  · unfold stepBs at h; split at h <;> cases h
  · have hb : st.bs = false := by simpa using ‹¬ st.bs = true›
    split at h
    · unfold stepComment at h; split at h <;> cases h
    · split at h
      · exact ⟨(stepOp_emit h).1, (stepOp_emit h).2, hb⟩
      · split at h
        · unfold stepQuote at h; repeat' split at h
          all_goals cases h
        · exact ⟨(stepWord_emit h).1, (stepWord_emit h).2, hb⟩

theorem fresh_no_emit (o : Opts) (p : Pos) (c : Char) (t : Token) : step o (fresh p) c ≠ .emit t := by
  intro h
  have := (step_emit h).2.1
  simp [fresh] at this

theorem stepPlain_bail {st : St} {c : Char} {r : Res} (h : stepPlain st c = .bail r) : r = .unsupported := by
  unfold stepPlain at h
  repeat' split at h
  all_goals cases h

theorem stepWord_bail {o : Opts} {st : St} {c : Char} {r : Res} (h : stepWord o st c = .bail r) :
    r = .unsupported := by
  unfold stepWord at h
  repeat' split at h
  · cases h
  · cases h
  · cases h; rfl
  · cases h; rfl
  · exact stepPlain_bail h

theorem step_bail {o : Opts} {lo : Nat} {pre : Str} {st : St} {c : Char} {r : Res} (hi : Inv lo pre st)
    (h : step o st c = .bail r) : r = .unsupported := by
  have hop := hi.op_ne
  unfold step at h
  split at h
  · unfold stepBs at h; split at h <;> cases h
  · split at h
    · unfold stepComment at h; split at h <;> cases h
    · split at h
      · unfold stepOp at h
        repeat' split at h
        all_goals cases h
        · simp_all
        · rfl
      · split at h
        · unfold stepQuote at h; repeat' split at h
          all_goals cases h
          rfl
        · exact stepWord_bail h

theorem tokOK_of_inv {lo : Nat} {pre : Str} {st : St} (cs : Str) (hi : Inv lo pre st) (hne : st.tok ≠ [])
    (hb : st.bs = false) : TokOK (pre ++ cs) lo (mkTok st) := by
  obtain ⟨icur, ilo, ile, iex, _, _⟩ := hi
  have hpos : 0 < st.tok.length := List.length_pos_iff.mpr hne
  simp [hb] at ile
  refine ⟨ilo, by simp [mkTok]; omega, by simp [mkTok]; omega, hne, by simp [mkTok]; omega, ?_⟩
  intro he
  have hs : st.skipped = false := by simpa [mkTok] using he
  obtain ⟨bl, e1, e2, e3⟩ := iex hs
  refine ⟨bl, ?_, e2, e3⟩
  have : (mkTok st).stop.index = pre.length := icur
  rw [this, slice_append_left pre cs lo (by omega), e1]
  simp [hb, mkTok]

theorem cons_eq_ok {t : Token} {r : Res} {ts : List Token} (h : r.cons t = .ok ts) :
    ∃ ts', r = .ok ts' ∧ ts = t :: ts' := by
  cases r <;> simp [Res.cons] at h
  exact ⟨_, rfl, h.symm⟩

/-- the loop invariant carried to the end of the line -/
theorem go_ok (o : Opts) (cs : Str) : ∀ (pre : Str) (st : St) (lo : Nat) (ts : List Token),
    Inv lo pre st → go o st cs = .ok ts → ToksOK (pre ++ cs) lo ts := by
  induction cs with
  | nil =>
    intro pre st lo ts hi h
    simp only [go, eof] at h
    repeat' split at h
    all_goals cases h
    · trivial
    · rename_i hb _ _ hne
      exact ⟨tokOK_of_inv [] hi (by simpa using hne) (by simpa using hb), trivial⟩
  | cons c rest ih =>
    intro pre st lo ts hi h
    have e : pre ++ c :: rest = (pre ++ [c]) ++ rest := by simp
    rw [go] at h
    split at h
    · rename_i st' hs
      rw [e]
      exact ih _ _ _ _ (step_cont hi hs) h
    · rename_i t hs
      obtain ⟨ht, hne, hb⟩ := step_emit hs
      have hcur := hi.cur
      split at h
      · rename_i st' hs'
        obtain ⟨ts', h1, h2⟩ := cons_eq_ok h
        subst h2
        refine ⟨by rw [ht]; exact tokOK_of_inv _ hi hne hb, ?_⟩
        have hf := step_cont (inv_fresh pre st.cur hcur) hs'
        have := ih _ _ _ _ hf h1
        rw [e, ht]
        exact this
      · cases h
      · rename_i r hs'
        have := step_bail (inv_fresh pre st.cur hcur) hs'
        rw [this] at h
        cases h
    · rename_i r hs
      have := step_bail hi hs
      rw [this] at h
      cases h

/-- `assert!(state.started_token())` never fires -/
theorem go_no_panic (o : Opts) (cs : Str) : ∀ (pre : Str) (st : St) (lo : Nat),
    Inv lo pre st → go o st cs ≠ .panic := by
  induction cs with
  | nil =>
    intro pre st lo hi h
    simp only [go, eof] at h
    repeat' split at h
    all_goals cases h
  | cons c rest ih =>
    intro pre st lo hi h
    rw [go] at h
    split at h
    · rename_i st' hs
      exact ih _ _ _ (step_cont hi hs) h
    · rename_i t hs
      split at h
      · rename_i st' hs'
        have hf := step_cont (inv_fresh pre st.cur hi.cur) hs'
        have := ih _ _ _ hf
        cases hg : go o st' rest <;> simp [hg, Res.cons] at h this
      · rename_i t' hs'
        exact fresh_no_emit o st.cur c t' hs'
      · rename_i r hs'
        have := step_bail (inv_fresh pre st.cur hi.cur) hs'
        rw [this] at h
        cases h
    · rename_i r hs
      have := step_bail hi hs
      rw [this] at h
      cases h

end BrushVerif.Tokenizer
