import BrushVerif.Model.Accumulate
import BrushVerif.Spec.Accumulate
/-! Lemmas about the standard-input reader model. -/
namespace BrushVerif.Accumulate
open BrushVerif.Wire BrushVerif.AccumulateSpec

/-- What one call of `read_program_from` does: it consumes the shortest non-empty run of lines after which no more
input is needed (or everything). -/
theorem readProgram_spec (needs : Str → Bool) (ls : List Str) : ∀ acc : Str,
    ∃ k, k ≤ ls.length ∧ readProgram needs acc ls = (acc ++ (ls.take k).flatten, ls.drop k) ∧
      (∀ n, 0 < n → n < k → needs (acc ++ (ls.take n).flatten) = true) ∧
      (ls ≠ [] → 0 < k) ∧
      (k < ls.length → needs (acc ++ (ls.take k).flatten) = false) := by
  induction ls with
  | nil => intro acc; exact ⟨0, by simp [readProgram]⟩
  | cons l ls ih =>
    intro acc
    by_cases h : needs (acc ++ l) = true
    · obtain ⟨k, hk, hr, hn, _, hc⟩ := ih (acc ++ l)
      refine ⟨k + 1, by simp only [List.length_cons]; omega, ?_, ?_, by intro _; omega, ?_⟩
      · simp only [readProgram, h, if_true, hr, List.take_succ_cons, List.flatten_cons, List.drop_succ_cons,
          List.append_assoc]
      · intro n hn0 hn1
        cases n with
        | zero => omega
        | succ m =>
          simp only [List.take_succ_cons, List.flatten_cons, ← List.append_assoc]
          by_cases hm : m = 0
          · subst hm; simpa using h
          · exact hn m (by omega) (by omega)
      · intro hlt
        simp only [List.length_cons] at hlt
        simp only [List.take_succ_cons, List.flatten_cons, ← List.append_assoc]
        exact hc (by omega)
    · refine ⟨1, by simp, ?_, ?_, by intro _; omega, ?_⟩
      · simp [readProgram, h]
      · intro n h0 h1; omega
      · intro _
        simpa using h

theorem chunks_cons (needs : Str → Bool) (l : Str) (ls : List Str) :
    chunks needs (l :: ls) =
      if (readProgram needs [] (l :: ls)).1.isEmpty then []
      else (readProgram needs [] (l :: ls)).1 :: chunks needs (readProgram needs [] (l :: ls)).2 := by
  rw [chunks]

theorem chunks_tiles_aux (needs : Str → Bool) : ∀ (n : Nat) (lines : List Str), lines.length ≤ n →
    (∀ l, l ∈ lines → l ≠ []) → Tiles needs lines (chunks needs lines) := by
  intro n
  induction n with
  | zero =>
    intro lines hl _
    have : lines = [] := List.eq_nil_of_length_eq_zero (by omega)
    subst this
    rw [chunks]; exact Tiles.nil
  | succ n ih =>
    intro lines hl hne
    cases lines with
    | nil => rw [chunks]; exact Tiles.nil
    | cons l ls =>
      obtain ⟨k, hk, hr, hn, hpos, hc⟩ := readProgram_spec needs (l :: ls) []
      have hk0 : 0 < k := hpos (by simp)
      have hlne : l ≠ [] := hne l (by simp)
      have htake : (l :: ls).take k ≠ [] := by
        cases k with
        | zero => omega
        | succ m => simp
      have hflat : ((l :: ls).take k).flatten ≠ [] := by
        cases k with
        | zero => omega
        | succ m =>
          simp only [List.take_succ_cons, List.flatten_cons]
          intro h
          exact hlne (List.append_eq_nil_iff.mp h).1
      have hearly : NotEarlier needs ((l :: ls).take k) := by
        intro m hm0 hm1
        have hmk : m < k := by
          have := List.length_take_le k (l :: ls); omega
        have := hn m hm0 hmk
        simp only [List.nil_append] at this
        rw [List.take_take, Nat.min_eq_left (by omega)]
        exact this
      rw [chunks_cons, hr]
      simp only [List.nil_append]
      have hemp : (((l :: ls).take k).flatten).isEmpty = false := by
        cases hx : ((l :: ls).take k).flatten with
        | nil => exact absurd hx hflat
        | cons a b => rfl
      simp only [hemp, Bool.false_eq_true, if_false]
      by_cases hd : (l :: ls).drop k = []
      · rw [hd, chunks]
        have hall : (l :: ls).take k = l :: ls := by
          have := List.take_append_drop k (l :: ls)
          rw [hd, List.append_nil] at this
          exact this
        rw [hall]
        rw [hall] at hearly
        exact Tiles.last (l :: ls) (by simp) hearly
      · have hklt : k < (l :: ls).length :=
          Nat.lt_of_not_le (fun hge => hd (List.drop_eq_nil_of_le hge))
        have hcomplete := hc hklt
        simp only [List.nil_append] at hcomplete
        have hrest : Tiles needs ((l :: ls).drop k) (chunks needs ((l :: ls).drop k)) := by
          apply ih
          · simp only [List.length_drop, List.length_cons] at *; omega
          · intro x hx; exact hne x (List.mem_of_mem_drop hx)
        have := Tiles.cons _ _ _ htake hearly hcomplete hd hrest
        rw [List.take_append_drop] at this
        exact this

theorem chunks_tiles (needs : Str → Bool) (lines : List Str) (hne : ∀ l, l ∈ lines → l ≠ []) :
    Tiles needs lines (chunks needs lines) :=
  chunks_tiles_aux needs lines.length lines (Nat.le_refl _) hne

/-- The specification determines the result: any two tilings of the same input coincide. -/
theorem tiles_flatten {needs : Str → Bool} {lines out : List Str} (h : Tiles needs lines out) :
    out.flatten = lines.flatten := by
  induction h with
  | nil => rfl
  | last g _ _ => simp
  | cons g rest out _ _ _ _ _ ih => simp [ih]

end BrushVerif.Accumulate

namespace BrushVerif.Accumulate
open BrushVerif.Wire BrushVerif.AccumulateSpec

/-- A line as `read_line` returns it when the input is newline-terminated: one newline, at the end. -/
def NlLine (l : Str) : Prop := ∃ b : Str, l = b ++ ['\n']

theorem lineCount_nl (b : Str) : lineCount (b ++ ['\n']) = (b ++ ['\n']).count '\n' := by
  unfold lineCount
  have h1 : (b ++ ['\n']).getLast? = some '\n' := by simp
  have h2 : 1 ≤ (b ++ ['\n']).count '\n' := by simp
  simp only [h1, ne_eq, not_true_eq_false, and_false, if_false]
  omega

theorem flatten_nl_group (g : List Str) (hg : g ≠ []) (hl : ∀ l, l ∈ g → NlLine l) :
    ∃ b : Str, g.flatten = b ++ ['\n'] := by
  have hd := List.dropLast_concat_getLast hg
  obtain ⟨b', hb'⟩ := hl (g.getLast hg) (List.getLast_mem hg)
  refine ⟨g.dropLast.flatten ++ b', ?_⟩
  rw [← hd, List.flatten_append, hb']
  simp

theorem tiles_chunk_groups {needs : Str → Bool} {lines out : List Str} (h : Tiles needs lines out) :
    ∀ c, c ∈ out → ∃ g, g ≠ [] ∧ (∀ l, l ∈ g → l ∈ lines) ∧ c = g.flatten := by
  induction h with
  | nil => intro c hc; simp at hc
  | last g hg _ =>
    intro c hc
    simp only [List.mem_singleton] at hc
    exact ⟨g, hg, fun _ h => h, hc⟩
  | cons g rest out hg _ _ _ _ ih =>
    intro c hc
    simp only [List.mem_cons] at hc
    rcases hc with hc | hc
    · exact ⟨g, hg, fun l h => List.mem_append_left _ h, hc⟩
    · obtain ⟨g', h1, h2, h3⟩ := ih c hc
      exact ⟨g', h1, fun l h => List.mem_append_right _ (h2 l h), h3⟩

theorem offsets_get (cs : List Str) (hc : ∀ c, c ∈ cs → lineCount c = c.count '\n') :
    ∀ (off k : Nat), k < cs.length →
      (offsets off cs)[k]? = some (off + ((cs.take k).flatten).count '\n') := by
  induction cs with
  | nil => intro off k hk; simp at hk
  | cons c cs ih =>
    intro off k hk
    cases k with
    | zero => simp [offsets]
    | succ m =>
      simp only [offsets, List.getElem?_cons_succ, List.take_succ_cons, List.flatten_cons, List.count_append]
      rw [ih (fun x hx => hc x (List.mem_cons_of_mem _ hx)) _ m (by simpa using hk), hc c (by simp)]
      congr 1; omega

end BrushVerif.Accumulate

/-! ## The decision does not depend on which (non-syntax) characters the text is written with -/
namespace BrushVerif.Accumulate
open BrushVerif.Wire

/-- A replacement of characters that leaves the two characters the completeness decision itself inspects
(newline, backslash) alone, in both directions. Characters of different UTF-8 width are simply different `Char`s. -/
structure SyntaxNeutral (σ : Char → Char) : Prop where
  nl : ∀ c, σ c = '\n' ↔ c = '\n'
  bs : ∀ c, σ c = '\\' ↔ c = '\\'

theorem stripNl_map {σ : Char → Char} (h : SyntaxNeutral σ) (s : Str) :
    stripNl (s.map σ) = (stripNl s).map (List.map σ) := by
  unfold stripNl
  rw [← List.map_reverse]
  cases hs : s.reverse with
  | nil => simp
  | cons c r =>
    simp only [List.map_cons]
    by_cases hc : c = '\n'
    · subst hc
      have : σ '\n' = '\n' := (h.nl '\n').mpr rfl
      simp [this]
    · have : σ c ≠ '\n' := fun hh => hc ((h.nl c).mp hh)
      split
      · rename_i heq
        simp only [List.cons.injEq] at heq
        exact absurd heq.1 this
      · split
        · rename_i heq
          simp only [List.cons.injEq] at heq
          exact absurd heq.1 hc
        · rfl

theorem endsWithBackslash_map {σ : Char → Char} (h : SyntaxNeutral σ) (s : Str) :
    endsWithBackslash (s.map σ) = endsWithBackslash s := by
  unfold endsWithBackslash
  rw [← List.map_reverse]
  cases hs : s.reverse with
  | nil => simp
  | cons c r =>
    simp only [List.map_cons]
    by_cases hc : c = '\\'
    · subst hc
      have : σ '\\' = '\\' := (h.bs '\\').mpr rfl
      simp [this]
    · have : σ c ≠ '\\' := fun hh => hc ((h.bs c).mp hh)
      split
      · rename_i heq
        simp only [List.cons.injEq] at heq
        exact absurd heq.1 this
      · split
        · rename_i heq
          simp only [List.cons.injEq] at heq
          exact absurd heq.1 hc
        · rfl

theorem needsMoreInput_map {σ : Char → Char} (h : SyntaxNeutral σ) (parse : Str → Outcome)
    (hp : ∀ s, parse (s.map σ) = parse s) (s : Str) :
    needsMoreInput parse (s.map σ) = needsMoreInput parse s := by
  unfold needsMoreInput endsWithLineContinuation
  rw [hp s, stripNl_map h s]
  cases stripNl s with
  | none => rfl
  | some t => simp only [Option.map_some, endsWithBackslash_map h t, hp t]

theorem readProgram_map (needs : Str → Bool) (σ : Char → Char) (hn : ∀ s, needs (s.map σ) = needs s)
    (ls : List Str) : ∀ acc : Str,
    readProgram needs (acc.map σ) (ls.map (List.map σ)) =
      ((readProgram needs acc ls).1.map σ, (readProgram needs acc ls).2.map (List.map σ)) := by
  induction ls with
  | nil => intro acc; simp [readProgram]
  | cons l ls ih =>
    intro acc
    simp only [List.map_cons, readProgram, ← List.map_append, hn]
    split
    · exact ih (acc ++ l)
    · simp

theorem chunks_map_aux (needs : Str → Bool) (σ : Char → Char) (hn : ∀ s, needs (s.map σ) = needs s) :
    ∀ (n : Nat) (lines : List Str), lines.length ≤ n →
      chunks needs (lines.map (List.map σ)) = (chunks needs lines).map (List.map σ) := by
  intro n
  induction n with
  | zero =>
    intro lines hl
    have : lines = [] := List.eq_nil_of_length_eq_zero (by omega)
    subst this
    simp [chunks]
  | succ n ih =>
    intro lines hl
    cases lines with
    | nil => simp [chunks]
    | cons l ls =>
      have hrp := readProgram_map needs σ hn (l :: ls) []
      simp only [List.map_nil, List.map_cons] at hrp
      rw [List.map_cons, chunks_cons, chunks_cons, hrp]
      simp only [List.isEmpty_map]
      split
      · rfl
      · rw [List.map_cons, ih]
        have := readProgram_rest_le needs ([] ++ l) ls
        have h2 : (readProgram needs [] (l :: ls)).2.length ≤ ls.length := by
          simp only [readProgram]
          split
          · exact this
          · simp
        simp only [List.length_cons] at hl
        omega

end BrushVerif.Accumulate
