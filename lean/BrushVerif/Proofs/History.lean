import BrushVerif.Model.History
/-! Helper lemmas for C20 (history). -/
namespace BrushVerif.History
open BrushVerif.Wire

/-- a line that survives `BufRead::lines` unchanged -/
def GoodLine (l : Str) : Prop := '\n' ∉ l ∧ l.reverse.head? ≠ some '\r'

def isCmd : Str → Bool
  | '#' :: _ => false
  | _ => true

/-- commands the property speaks about: single line, no trailing CR, not starting with `#` -/
def ValidCmd (c : Str) : Prop := GoodLine c ∧ isCmd c = true

def render (ls : List Str) : Str := ls.flatMap (· ++ ['\n'])

theorem render_append (a b : List Str) : render (a ++ b) = render a ++ render b := by
  simp [render, List.flatMap_append]

theorem render_cons (l : Str) (ls : List Str) : render (l :: ls) = l ++ '\n' :: render ls := by
  simp [render]

theorem split_ne_nil (sep : Char) (s : Str) : splitOnChar sep s ≠ [] := by
  induction s with
  | nil => simp [splitOnChar]
  | cons c cs ih =>
    simp only [splitOnChar]
    split
    · simp
    · split <;> simp

theorem split_append (sep : Char) (l rest : Str) (h : sep ∉ l) :
    splitOnChar sep (l ++ sep :: rest) = l :: splitOnChar sep rest := by
  induction l with
  | nil => simp [splitOnChar]
  | cons c cs ih =>
    have hc : c ≠ sep := by intro e; apply h; simp [e]
    have hcs : sep ∉ cs := by intro e; apply h; simp [e]
    simp only [List.cons_append, splitOnChar, hc, ↓reduceIte, ih hcs]

theorem split_render (ls : List Str) (h : ∀ l ∈ ls, '\n' ∉ l) :
    splitOnChar '\n' (render ls) = ls ++ [[]] := by
  induction ls with
  | nil => simp [render, splitOnChar]
  | cons l ls ih =>
    rw [render_cons, split_append _ _ _ (h l (by simp)), ih (fun x hx => h x (by simp [hx]))]
    simp

theorem rawLines_render (ls : List Str) (h : ∀ l ∈ ls, '\n' ∉ l) : rawLines (render ls) = ls := by
  simp [rawLines, split_render ls h]

theorem stripCr_good (l : Str) (h : l.reverse.head? ≠ some '\r') : stripCr l = l := by
  unfold stripCr
  split
  · rename_i r heq; simp [heq] at h
  · rfl

theorem fileLines_render (ls : List Str) (h : ∀ l ∈ ls, GoodLine l) : fileLines (render ls) = ls := by
  unfold fileLines
  rw [rawLines_render ls (fun l hl => (h l hl).1)]
  have : ∀ (xs : List Str), (∀ l ∈ xs, GoodLine l) → xs.map stripCr = xs := by
    intro xs hx
    induction xs with
    | nil => rfl
    | cons x xs ih =>
      simp only [List.map_cons]
      rw [stripCr_good x (hx x (by simp)).2, ih (fun l hl => hx l (by simp [hl]))]
  exact this ls h

/-! digits -/
def isDigitC (c : Char) : Prop := c ≠ '\n' ∧ c ≠ '\r' ∧ c ≠ '#'
instance (c : Char) : Decidable (isDigitC c) := by unfold isDigitC; infer_instance

theorem digitChar_ok (n : Nat) : isDigitC (digitChar n) := by
  have h : n % 10 < 10 := Nat.mod_lt _ (by decide)
  unfold digitChar
  generalize n % 10 = k at h
  have : k = 0 ∨ k = 1 ∨ k = 2 ∨ k = 3 ∨ k = 4 ∨ k = 5 ∨ k = 6 ∨ k = 7 ∨ k = 8 ∨ k = 9 := by omega
  rcases this with h | h | h | h | h | h | h | h | h | h <;> subst h <;> decide

theorem natDigitsAux_ok (fuel n : Nat) (acc : Str) (h : ∀ c ∈ acc, isDigitC c) :
    ∀ c ∈ natDigitsAux fuel n acc, isDigitC c := by
  induction fuel generalizing n acc with
  | zero => simpa [natDigitsAux] using h
  | succ f ih =>
    simp only [natDigitsAux]
    split
    · intro c hc
      rcases List.mem_cons.mp hc with rfl | hc
      · exact digitChar_ok n
      · exact h c hc
    · apply ih
      intro c hc
      rcases List.mem_cons.mp hc with rfl | hc
      · exact digitChar_ok n
      · exact h c hc

theorem natToStr_ok (n : Nat) : ∀ c ∈ natToStr n, isDigitC c :=
  natDigitsAux_ok _ _ [] (by simp)

theorem intToStr_ok (t : Int) : ∀ c ∈ intToStr t, isDigitC c := by
  cases t with
  | ofNat n => exact natToStr_ok n
  | negSucc n =>
    intro c hc
    simp only [intToStr] at hc
    rcases List.mem_cons.mp hc with rfl | hc
    · decide
    · exact natToStr_ok _ c hc

/-- the timestamp comment line written before a command -/
def tsLine (t : Int) : Str := '#' :: intToStr t

theorem tsLine_good (t : Int) : GoodLine (tsLine t) := by
  constructor
  · intro h
    rcases List.mem_cons.mp h with h | h
    · exact absurd h (by decide)
    · exact (intToStr_ok t _ h).1 rfl
  · intro h
    have : '\r' ∈ (tsLine t) := by
      have := List.mem_reverse.mp (List.mem_of_mem_head? h)
      exact this
    rcases List.mem_cons.mp this with h | h
    · exact absurd h (by decide)
    · exact (intToStr_ok t _ h).2.1 rfl

theorem tsLine_notCmd (t : Int) : isCmd (tsLine t) = false := rfl

def lineList (writeTs : Bool) (i : Item) : List Str :=
  (match writeTs, i.ts with
   | true, some t => [tsLine t]
   | _, _ => []) ++ [i.cmd]

theorem itemLines_eq (w : Bool) (i : Item) : itemLines w i = render (lineList w i) := by
  unfold itemLines lineList
  split
  · rename_i heq; simp [render, tsLine, heq]
  · rename_i hne
    split
    · rename_i t h2; exact absurd h2 (by intro h; exact hne t rfl h)
    · simp [render]

theorem flatMap_itemLines (w : Bool) (xs : List Item) :
    xs.flatMap (itemLines w) = render (xs.flatMap (lineList w)) := by
  induction xs with
  | nil => rfl
  | cons x xs ih => simp [List.flatMap_cons, ih, render_append, itemLines_eq]

theorem lineList_good (w : Bool) (i : Item) (h : ValidCmd i.cmd) : ∀ l ∈ lineList w i, GoodLine l := by
  intro l hl
  unfold lineList at hl
  split at hl
  · simp at hl
    rcases hl with rfl | rfl
    · exact tsLine_good _
    · exact h.1
  · simp at hl; subst hl; exact h.1

theorem lineList_cmds (w : Bool) (i : Item) (h : ValidCmd i.cmd) :
    (lineList w i).filter isCmd = [i.cmd] := by
  unfold lineList
  split <;> simp [tsLine_notCmd, h.2]

theorem flatMap_lineList_good (w : Bool) (xs : List Item) (h : ∀ i ∈ xs, ValidCmd i.cmd) :
    ∀ l ∈ xs.flatMap (lineList w), GoodLine l := by
  intro l hl
  obtain ⟨i, hi, hl⟩ := List.mem_flatMap.mp hl
  exact lineList_good w i (h i hi) l hl

theorem flatMap_lineList_cmds (w : Bool) (xs : List Item) (h : ∀ i ∈ xs, ValidCmd i.cmd) :
    (xs.flatMap (lineList w)).filter isCmd = xs.map (·.cmd) := by
  induction xs with
  | nil => rfl
  | cons x xs ih =>
    simp only [List.flatMap_cons, List.filter_append, List.map_cons]
    rw [lineList_cmds w x (h x (by simp)), ih (fun i hi => h i (by simp [hi]))]
    rfl

/-! import -/
theorem isCmd_of_ne (c : Char) (cs : Str) (hc : c ≠ '#') : isCmd (c :: cs) = true := by
  unfold isCmd; split
  · rename_i heq; simp at heq; exact absurd heq.1 hc
  · rfl

theorem importGo_cons_cmd (next : Option Int) (l : Str) (ls : List Str) (h : isCmd l = true) :
    importGo next (l :: ls) = { cmd := l, ts := next, dirty := false } :: importGo none ls := by
  rw [importGo]
  · intro comment hl
    subst hl
    simp [isCmd] at h

theorem importGo_cons_hash (next : Option Int) (c : Str) (ls : List Str) :
    importGo next (('#' :: c) :: ls) =
      importGo (match parseI64 (trim c) with | some secs => fromTimestamp secs | none => none) ls := by
  rw [importGo]
  split <;> rename_i heq <;> simp [heq]

theorem isCmd_false (l : Str) (h : isCmd l = false) : ∃ c, l = '#' :: c := by
  unfold isCmd at h
  split at h
  · exact ⟨_, rfl⟩
  · simp at h

theorem importGo_cmds (next : Option Int) (ls : List Str) :
    (importGo next ls).map (·.cmd) = ls.filter isCmd := by
  induction ls generalizing next with
  | nil => rfl
  | cons l ls ih =>
    cases h : isCmd l with
    | true => simp [importGo_cons_cmd next l ls h, h, ih]
    | false =>
      obtain ⟨c, rfl⟩ := isCmd_false l h
      simp [importGo_cons_hash, h, ih]

theorem importGo_clean (next : Option Int) (ls : List Str) :
    ∀ i ∈ importGo next ls, i.dirty = false := by
  induction ls generalizing next with
  | nil => simp [importGo]
  | cons l ls ih =>
    cases h : isCmd l with
    | true =>
      rw [importGo_cons_cmd next l ls h]
      intro i hi
      rcases List.mem_cons.mp hi with rfl | hi
      · rfl
      · exact ih _ i hi
    | false =>
      obtain ⟨c, rfl⟩ := isCmd_false l h
      rw [importGo_cons_hash]
      exact ih _

end BrushVerif.History
