import BrushVerif.Model.Flow
import BrushVerif.Spec.FlowBash
import BrushVerif.Spec.FlowScope
/-!
# brush's result-value control flow refines bash's global-counter control flow

Abstraction: brush's `(St, Res)` after a command corresponds to bash's state whose pending
counters/flags encode `Res.flow`.
-/
namespace BrushVerif.FlowRefine
open BrushVerif.Flow BrushVerif.FlowBash BrushVerif.FlowScope

def brkOf : Flow → Nat
  | .brk k => k + 1
  | _ => 0

def contOf : Flow → Nat
  | .cont k => k + 1
  | _ => 0

/-- bash's state that corresponds to brush's state `s` with pending control flow `f`, `d` loops deep -/
def absB (d : Nat) (s : St) (f : Flow) : B :=
  { st := s, level := d, breaking := brkOf f, continuing := contOf f,
    returning := (f == .ret), exiting := (f == .exit) }

/-- a pending loop jump never exceeds the enclosing loops -/
def okFlow (d : Nat) : Flow → Prop
  | .brk k => k + 1 ≤ d
  | .cont k => k + 1 ≤ d
  | _ => True

/-- every function body is well scoped on its own -/
def okFuncs (fs : List Cmd) : Prop := ∀ body ∈ fs, ws 0 body = true

/-! ## basic facts about the abstraction -/

@[simp] theorem absB_pending (d : Nat) (s : St) (f : Flow) : (absB d s f).pending = !f.isNormal := by
  cases f <;> simp [absB, B.pending, brkOf, contOf, Flow.isNormal]

@[simp] theorem absB_jumping (d : Nat) (s : St) (f : Flow) : (absB d s f).jumping = f.isRetOrExit := by
  cases f <;> simp [absB, B.jumping, Flow.isRetOrExit]

theorem absB_normal_pending (d : Nat) (s : St) : (absB d s .normal).pending = false := by
  simp [Flow.isNormal]

@[simp] theorem absB_st (d : Nat) (s : St) (f : Flow) : (absB d s f).st = s := rfl
@[simp] theorem absB_level (d : Nat) (s : St) (f : Flow) : (absB d s f).level = d := rfl
@[simp] theorem absB_setLast (d : Nat) (s : St) (f : Flow) (v : Nat) :
    (absB d s f).setLast v = absB d { s with last := v } f := rfl

theorem last_eta (s : St) (c : Nat) (h : s.last = c) : { s with last := c } = s := by
  cases s; simp_all

theorem errexitCheck_pending (sup : Bool) (b : B) (h : b.pending = true) : B.errexitCheck sup b = b := by
  simp [B.errexitCheck, h]

theorem post_spec {sup : Bool} {s s' : St} {r r' : Res} (h : post sup s r = (s', r'))
    (L d : Nat) (hok : okFlow d r.flow) :
    B.errexitCheck sup (absB L { s with last := r.code } r.flow) = absB L s' r'.flow
      ∧ okFlow d r'.flow ∧ s'.last = r'.code := by
  unfold post at h
  unfold B.errexitCheck
  rcases r with ⟨code, flow⟩
  cases flow <;> cases sup <;> cases he : s.errexit <;> by_cases hc : code = 0 <;>
    simp_all [Flow.isNormal, okFlow] <;>
    (obtain ⟨rfl, rfl⟩ := h; simp_all [absB, brkOf, contOf]; try decide)

theorem post_spec' {sup : Bool} {s s' : St} {r r' : Res} (h : post sup s r = (s', r'))
    (hl : s.last = r.code) (L d : Nat) (hok : okFlow d r.flow) :
    B.errexitCheck sup (absB L s r.flow) = absB L s' r'.flow
      ∧ okFlow d r'.flow ∧ s'.last = r'.code := by
  have := post_spec h L d hok
  rwa [last_eta s r.code hl] at this

theorem post_not_normal {sup : Bool} {s : St} {r : Res} (h : r.flow.isNormal = false) :
    post sup s r = ({ s with last := r.code }, r) := by
  simp [post, h]

theorem jumpViol_ok {d : Nat} {n : Option Int} (h : jumpViol d n = []) :
    0 < n.getD 1 ∧ (n.getD 1).toNat ≤ d := by
  unfold jumpViol at h
  simp only at h
  split at h
  · simp at h
  · split at h
    · omega
    · simp at h

theorem spec_pending {fuel fs sup c} {b : B} (h : b.pending = true) : spec fuel fs sup c b = some b := by
  rw [spec.eq_def]; simp [h]
theorem specList_pending {fuel fs sup cs} {b : B} (h : b.pending = true) : specList fuel fs sup cs b = some b := by
  rw [specList.eq_def]; simp [h]
theorem specAO_pending {fuel fs sup aos} {b : B} (h : b.pending = true) : specAO fuel fs sup aos b = some b := by
  rw [specAO.eq_def]; simp [h]
theorem specArms_pending {fuel fs sup arms force v} {b : B} (h : b.pending = true) :
    specArms fuel fs sup arms force b v = some b := by
  rw [specArms.eq_def]; simp [h]

/-! ## the six simulation statements (level `L` of bash may exceed the guard depth `d`) -/

def PExec (fuel : Nat) : Prop :=
  ∀ fs sup c s s' r d L, okFuncs fs → viol d c = [] → d ≤ L →
    exec fuel fs sup c s = some (s', r) →
    spec fuel fs sup c (absB L s .normal) = some (absB L s' r.flow) ∧ okFlow d r.flow ∧ s'.last = r.code

def PList (fuel : Nat) : Prop :=
  ∀ fs sup cs s s' r d L, okFuncs fs → violList d cs = [] → d ≤ L →
    execList fuel fs sup cs s = some (s', r) →
    specList fuel fs sup cs (absB L s .normal) = some (absB L s' r.flow) ∧ okFlow d r.flow ∧ s'.last = r.code

def PAO (fuel : Nat) : Prop :=
  ∀ fs sup aos s s' r r' d L, okFuncs fs → violAO d aos = [] → d ≤ L →
    s.last = r.code → okFlow d r.flow →
    execAO fuel fs sup aos s r = some (s', r') →
    specAO fuel fs sup aos (absB L s r.flow) = some (absB L s' r'.flow) ∧ okFlow d r'.flow ∧ s'.last = r'.code

def PW (fuel : Nat) : Prop :=
  ∀ fs sup isUntil cond body s s' r r' d L, okFuncs fs → viol 0 cond = [] → viol (d + 1) body = [] → d ≤ L →
    r.flow = .normal →
    loopW fuel fs sup isUntil cond body s r = some (s', r') →
    specW fuel fs sup isUntil cond body (absB (L + 1) s .normal) r.code
        = some (absB (L + 1) { s' with last := r'.code } r'.flow) ∧ okFlow d r'.flow

def PF (fuel : Nat) : Prop :=
  ∀ fs sup n body s s' r r' d L, okFuncs fs → viol (d + 1) body = [] → d ≤ L →
    r.flow = .normal →
    loopF fuel fs sup n body s r = some (s', r') →
    specF fuel fs sup n body (absB (L + 1) s .normal) r.code
        = some (absB (L + 1) { s' with last := r'.code } r'.flow) ∧ okFlow d r'.flow

def PArms (fuel : Nat) : Prop :=
  ∀ fs sup arms force s s' r r' d L, okFuncs fs → violArms d arms = [] → d ≤ L →
    r.flow = .normal →
    execArms fuel fs sup arms force s r = some (s', r') →
    specArms fuel fs sup arms force (absB L s .normal) r.code
        = some (absB L { s' with last := r'.code } r'.flow) ∧ okFlow d r'.flow

theorem step_list (fuel : Nat) (ihE : PExec fuel) (ihL : PList fuel) : PList (fuel + 1) := by
  intro fs sup cs s s' r d L hfs hws hdL h
  cases cs with
  | nil =>
    simp only [execList, Option.some.injEq, Prod.mk.injEq] at h
    obtain ⟨rfl, rfl⟩ := h
    simp only [specList, absB_normal_pending, Bool.false_eq_true, ↓reduceIte, absB_setLast]
    simp [okFlow]
  | cons c rest =>
    simp only [violList, List.append_eq_nil_iff] at hws
    simp only [execList] at h
    split at h
    · simp at h
    · rename_i s1 r1 he
      obtain ⟨e1, ok1, l1⟩ := ihE fs sup c s s1 r1 d L hfs hws.1 hdL he
      simp only [specList, absB_normal_pending, Bool.false_eq_true, ↓reduceIte, e1]
      rw [last_eta s1 r1.code l1] at h
      cases hn : r1.flow.isNormal with
      | false =>
        simp only [hn, Bool.not_false, ↓reduceIte, Option.some.injEq, Prod.mk.injEq] at h
        obtain ⟨rfl, rfl⟩ := h
        refine ⟨?_, ok1, l1⟩
        cases rest with
        | nil => rfl
        | cons c2 rest2 =>
          simp only
          exact specList_pending (by simp [hn])
      | true =>
        have hf : r1.flow = .normal := by cases hf : r1.flow <;> simp_all [Flow.isNormal]
        simp only [hn, Bool.not_true, Bool.false_eq_true, ↓reduceIte] at h
        cases rest with
        | nil =>
          simp only [Option.some.injEq, Prod.mk.injEq] at h
          obtain ⟨rfl, rfl⟩ := h
          exact ⟨rfl, ok1, l1⟩
        | cons c2 rest2 =>
          simp only at h ⊢
          rw [hf]
          exact ihL fs sup _ s1 s' r d L hfs hws.2 hdL h


theorem errexitCheck_zero (sup : Bool) (b : B) (h : b.st.last = 0) : B.errexitCheck sup b = b := by
  simp [B.errexitCheck, h]

theorem postC_spec {s s' : St} {r r' : Res} (h : postC s r = (s', r'))
    (L d : Nat) (hok : okFlow d r.flow) :
    absB L { s with last := r.code } r.flow = absB L s' r'.flow ∧ okFlow d r'.flow ∧ s'.last = r'.code := by
  simp only [postC, Prod.mk.injEq] at h
  obtain ⟨rfl, rfl⟩ := h
  exact ⟨rfl, hok, rfl⟩

theorem postC_spec' {s s' : St} {r r' : Res} (h : postC s r = (s', r'))
    (hl : s.last = r.code) (L d : Nat) (hok : okFlow d r.flow) :
    absB L s r.flow = absB L s' r'.flow ∧ okFlow d r'.flow ∧ s'.last = r'.code := by
  have := postC_spec h L d hok
  rwa [last_eta s r.code hl] at this

theorem isNormal_eq {f : Flow} (h : f.isNormal = true) : f = .normal := by
  cases f <;> simp_all [Flow.isNormal]

theorem ws_of_mem {fs : List Cmd} (hfs : okFuncs fs) {f : Nat} {body : Cmd} (h : fs[f]? = some body) :
    viol 0 body = [] := by
  have := hfs body (List.mem_of_getElem? h)
  simpa [ws, List.isEmpty_iff] using this

theorem step_exec (fuel : Nat) (ihE : PExec fuel) (ihL : PList fuel) (ihA : PAO fuel) (ihW : PW fuel)
    (ihF : PF fuel) (ihC : PArms fuel) : PExec (fuel + 1) := by
  intro fs sup c s s' r d L hfs hws hdL h
  cases c with
  | leaf id codes =>
    (rw [exec.eq_def] at h; simp only [Option.some.injEq] at h)
    simp only [spec, absB_normal_pending, Bool.false_eq_true, ↓reduceIte]
    obtain ⟨e, ok, l⟩ := post_spec h L d trivial
    exact ⟨congrArg some e, ok, l⟩
  | probe =>
    (rw [exec.eq_def] at h; simp only [post, Option.some.injEq] at h)
    simp [Flow.isNormal] at h
    obtain ⟨rfl, rfl⟩ := h
    simp only [spec, absB_normal_pending, Bool.false_eq_true, ↓reduceIte]
    and_intros <;> first | rfl | trivial
  | seq cs =>
    (rw [exec.eq_def] at h; simp only at h)
    simp only [viol] at hws
    simp only [spec, absB_normal_pending, Bool.false_eq_true, ↓reduceIte]
    exact ihL fs sup cs s s' r d L hfs hws hdL h
  | andOr first rest =>
    simp only [viol, List.append_eq_nil_iff] at hws
    cases rest <;>
    · (rw [exec.eq_def] at h; simp only at h)
      split at h
      · simp at h
      · rename_i s1 r1 he
        obtain ⟨e1, ok1, l1⟩ := ihE fs _ first s s1 r1 d L hfs hws.1 hdL he
        simp only [spec, absB_normal_pending, Bool.false_eq_true, ↓reduceIte, e1]
        exact ihA fs sup _ s1 s' r1 r d L hfs hws.2 hdL l1 ok1 h
  | bang c =>
    simp only [viol] at hws
    (rw [exec.eq_def] at h; simp only at h)
    split at h
    · simp at h
    · rename_i s1 r1 he
      obtain ⟨e1, ok1, l1⟩ := ihE fs true c s s1 r1 d L hfs hws hdL he
      simp only [spec, absB_normal_pending, Bool.false_eq_true, ↓reduceIte, e1, absB_jumping, absB_st,
        absB_setLast]
      simp only [Option.some.injEq, Prod.mk.injEq] at h
      obtain ⟨rfl, rfl⟩ := h
      cases hj : r1.flow.isRetOrExit with
      | true =>
        simp only [↓reduceIte]
        rw [last_eta s1 r1.code l1]
        and_intros <;> first | rfl | trivial | assumption
      | false =>
        simp only [Bool.false_eq_true, ↓reduceIte, l1]
        and_intros <;> first | rfl | trivial | assumption
  | if1 cond thn =>
    simp only [viol, List.append_eq_nil_iff] at hws
    (rw [exec.eq_def] at h; simp only at h)
    split at h
    · simp at h
    · rename_i s1 r1 he
      obtain ⟨e1, ok1, l1⟩ := ihE fs true cond s s1 r1 d L hfs hws.1 hdL he
      simp only [spec, absB_normal_pending, Bool.false_eq_true, ↓reduceIte, e1]
      cases hn : r1.flow.isNormal with
      | false =>
        simp only [hn, Bool.not_false, ↓reduceIte] at h
        rw [postC, last_eta s1 _ l1] at h
        simp only [Option.some.injEq, Prod.mk.injEq] at h
        obtain ⟨rfl, rfl⟩ := h
        have hp : (absB L s1 r1.flow).pending = true := by simp [hn]
        simp only [spec_pending hp, hp, ↓reduceIte, ite_self]
        and_intros <;> first | rfl | trivial | assumption
      | true =>
        obtain ⟨c1, f1⟩ := r1
        obtain rfl : f1 = .normal := isNormal_eq hn
        simp only at l1
        simp only [Flow.isNormal, Bool.not_true, Bool.false_eq_true, ↓reduceIte] at h
        simp only [absB_st, l1]
        by_cases hc : c1 = 0
        · simp only [hc, ↓reduceIte] at h ⊢
          split at h
          · simp at h
          · rename_i s2 r2 he2
            obtain ⟨e2, ok2, l2⟩ := ihE fs sup thn s1 s2 r2 d L hfs hws.2 hdL he2
            simp only [e2]
            simp only [Option.some.injEq] at h
            obtain ⟨e, ok, l⟩ := postC_spec' h l2 L d ok2
            exact ⟨congrArg some e, ok, l⟩
        · simp only [hc, ↓reduceIte, absB_normal_pending, Bool.false_eq_true, absB_setLast] at h ⊢
          simp only [Option.some.injEq] at h
          obtain ⟨e, ok, l⟩ := postC_spec h L d trivial
          exact ⟨congrArg some e, ok, l⟩
  | if2 cond thn els =>
    simp only [viol, List.append_eq_nil_iff] at hws
    (rw [exec.eq_def] at h; simp only at h)
    split at h
    · simp at h
    · rename_i s1 r1 he
      obtain ⟨e1, ok1, l1⟩ := ihE fs true cond s s1 r1 d L hfs hws.1.1 hdL he
      simp only [spec, absB_normal_pending, Bool.false_eq_true, ↓reduceIte, e1]
      cases hn : r1.flow.isNormal with
      | false =>
        simp only [hn, Bool.not_false, ↓reduceIte] at h
        rw [postC, last_eta s1 _ l1] at h
        simp only [Option.some.injEq, Prod.mk.injEq] at h
        obtain ⟨rfl, rfl⟩ := h
        have hp : (absB L s1 r1.flow).pending = true := by simp [hn]
        simp only [spec_pending hp]
        and_intros <;> first | rfl | trivial | assumption
      | true =>
        obtain ⟨c1, f1⟩ := r1
        obtain rfl : f1 = .normal := isNormal_eq hn
        simp only at l1
        simp only [Flow.isNormal, Bool.not_true, Bool.false_eq_true, ↓reduceIte] at h
        simp only [absB_st, l1]
        have hbr : viol d (if c1 = 0 then thn else els) = [] := by
          split
          · exact hws.1.2
          · exact hws.2
        split at h
        · simp at h
        · rename_i s2 r2 he2
          obtain ⟨e2, ok2, l2⟩ := ihE fs sup _ s1 s2 r2 d L hfs hbr hdL he2
          simp only [e2]
          simp only [Option.some.injEq] at h
          obtain ⟨e, ok, l⟩ := postC_spec' h l2 L d ok2
          exact ⟨congrArg some e, ok, l⟩
  | whileU isUntil cond body =>
    simp only [viol, List.append_eq_nil_iff] at hws
    (rw [exec.eq_def] at h; simp only at h)
    split at h
    · simp at h
    · rename_i s1 r1 he
      obtain ⟨e1, ok1⟩ := ihW fs sup isUntil cond body s s1 _ r1 d L hfs hws.1 hws.2 hdL rfl he
      simp only [spec, absB_normal_pending, Bool.false_eq_true, ↓reduceIte]
      erw [e1]
      simp only [Option.some.injEq] at h
      obtain ⟨e, ok, l⟩ := postC_spec h L d ok1
      exact ⟨congrArg some e, ok, l⟩
  | forIn n body =>
    simp only [viol] at hws
    (rw [exec.eq_def] at h; simp only at h)
    split at h
    · simp at h
    · rename_i s1 r1 he
      obtain ⟨e1, ok1⟩ := ihF fs sup n body s s1 _ r1 d L hfs hws hdL rfl he
      simp only [spec, absB_normal_pending, Bool.false_eq_true, ↓reduceIte]
      erw [e1]
      simp only [Option.some.injEq] at h
      obtain ⟨e, ok, l⟩ := postC_spec h L d ok1
      exact ⟨congrArg some e, ok, l⟩
  | case arms =>
    simp only [viol] at hws
    (rw [exec.eq_def] at h; simp only at h)
    split at h
    · simp at h
    · rename_i s1 r1 he
      obtain ⟨e1, ok1⟩ := ihC fs sup arms false s s1 _ r1 d L hfs hws hdL rfl he
      simp only [spec, absB_normal_pending, Bool.false_eq_true, ↓reduceIte]
      erw [e1]
      simp only [Option.some.injEq] at h
      obtain ⟨e, ok, l⟩ := postC_spec h L d ok1
      exact ⟨congrArg some e, ok, l⟩
  | group c =>
    simp only [viol] at hws
    (rw [exec.eq_def] at h; simp only at h)
    split at h
    · simp at h
    · rename_i s1 r1 he
      obtain ⟨e1, ok1, l1⟩ := ihE fs sup c s s1 r1 d L hfs hws hdL he
      simp only [spec, absB_normal_pending, Bool.false_eq_true, ↓reduceIte, e1]
      simp only [Option.some.injEq] at h
      obtain ⟨e, ok, l⟩ := postC_spec' h l1 L d ok1
      exact ⟨congrArg some e, ok, l⟩
  | subshell c =>
    simp only [viol] at hws
    (rw [exec.eq_def] at h; simp only at h)
    split at h
    · simp at h
    · rename_i s1 r1 he
      obtain ⟨e1, ok1, l1⟩ := ihE fs sup c s s1 r1 0 0 hfs hws (Nat.le_refl 0) he
      simp only [spec, absB_normal_pending, Bool.false_eq_true, ↓reduceIte]
      erw [e1]
      simp only [Option.some.injEq] at h
      obtain ⟨e, ok, l⟩ := post_spec h L d trivial
      simp only [absB_st, l1]
      exact ⟨congrArg some e, ok, l⟩
  | call f =>
    (rw [exec.eq_def] at h; simp only at h)
    simp only [spec, absB_normal_pending, Bool.false_eq_true, ↓reduceIte]
    cases hf : fs[f]? with
    | none =>
      simp only [hf, Option.some.injEq] at h ⊢
      obtain ⟨e, ok, l⟩ := post_spec h L d trivial
      exact ⟨e, ok, l⟩
    | some body =>
      simp only [hf] at h ⊢
      have hb := ws_of_mem hfs hf
      split at h
      · simp at h
      · rename_i s1 r1 he
        obtain ⟨e1, ok1, l1⟩ := ihE fs sup body _ s1 r1 0 0 hfs hb (Nat.le_refl 0) he
        erw [e1]
        obtain ⟨c1, f1⟩ := r1
        simp only at l1
        have l2 : ({ s1 with fdepth := s1.fdepth - 1 } : St).last = c1 := l1
        cases f1 with
        | brk k => simp [okFlow] at ok1
        | cont k => simp [okFlow] at ok1
        | ret =>
          simp only [Option.some.injEq] at h
          obtain ⟨e, ok, l⟩ := post_spec' h l2 L d trivial
          exact ⟨congrArg some e, ok, l⟩
        | normal =>
          simp only [Option.some.injEq] at h
          obtain ⟨e, ok, l⟩ := post_spec' h l2 L d trivial
          exact ⟨congrArg some e, ok, l⟩
        | exit =>
          simp only [Option.some.injEq] at h
          obtain ⟨e, ok, l⟩ := post_spec' h l2 L d trivial
          exact ⟨congrArg some e, ok, l⟩
  | brk n =>
    simp only [viol] at hws
    obtain ⟨hpos, hle⟩ := jumpViol_ok hws
    have hL : L ≠ 0 := by omega
    (rw [exec.eq_def] at h; simp only [Int.not_le.mpr hpos, ↓reduceIte, Option.some.injEq] at h)
    rw [post_not_normal rfl] at h
    simp only [Prod.mk.injEq] at h
    obtain ⟨rfl, rfl⟩ := h
    simp only [spec, absB_normal_pending, Bool.false_eq_true, ↓reduceIte, absB_level, hL,
      Int.not_le.mpr hpos, absB_setLast]
    have hm : min (n.getD 1).toNat L = ((n.getD 1) - 1).toNat + 1 := by omega
    rw [hm]
    and_intros
    · rfl
    · simp only [okFlow]; omega
    all_goals trivial
  | cont n =>
    simp only [viol] at hws
    obtain ⟨hpos, hle⟩ := jumpViol_ok hws
    have hL : L ≠ 0 := by omega
    (rw [exec.eq_def] at h; simp only [Int.not_le.mpr hpos, ↓reduceIte, Option.some.injEq] at h)
    rw [post_not_normal rfl] at h
    simp only [Prod.mk.injEq] at h
    obtain ⟨rfl, rfl⟩ := h
    simp only [spec, absB_normal_pending, Bool.false_eq_true, ↓reduceIte, absB_level, hL,
      Int.not_le.mpr hpos, absB_setLast]
    have hm : min (n.getD 1).toNat L = ((n.getD 1) - 1).toNat + 1 := by omega
    rw [hm]
    and_intros
    · rfl
    · simp only [okFlow]; omega
    all_goals trivial
  | ret code =>
    cases code <;>
    · (rw [exec.eq_def] at h; simp only at h)
      simp only [spec, absB_normal_pending, Bool.false_eq_true, ↓reduceIte, absB_st, absB_setLast]
      by_cases hd : s.fdepth > 0
      · simp only [hd, ↓reduceIte, Option.some.injEq] at h ⊢
        rw [post_not_normal rfl] at h
        simp only [Prod.mk.injEq] at h
        obtain ⟨rfl, rfl⟩ := h
        and_intros <;> first | rfl | trivial
      · simp only [hd, ↓reduceIte, Option.some.injEq] at h ⊢
        obtain ⟨e, ok, l⟩ := post_spec h L d trivial
        exact ⟨e, ok, l⟩
  | exit code =>
    cases code <;>
    · (rw [exec.eq_def] at h; simp only [Option.some.injEq] at h)
      simp only [spec, absB_normal_pending, Bool.false_eq_true, ↓reduceIte, absB_st, absB_setLast]
      rw [post_not_normal rfl] at h
      simp only [Prod.mk.injEq] at h
      obtain ⟨rfl, rfl⟩ := h
      and_intros <;> first | rfl | trivial
  | setOpt o on =>
    (rw [exec.eq_def] at h; simp only [Option.some.injEq] at h)
    simp only [spec, absB_normal_pending, Bool.false_eq_true, ↓reduceIte]
    obtain ⟨e, ok, l⟩ := post_spec h L d trivial
    refine ⟨congrArg some ?_, ok, l⟩
    rw [← e, errexitCheck_zero _ _ rfl]
    rfl
  | cmdsubst c =>
    simp only [viol] at hws
    (rw [exec.eq_def] at h; simp only at h)
    split at h
    · simp at h
    · rename_i s1 r1 he
      obtain ⟨e1, ok1, l1⟩ := ihE fs sup c _ s1 r1 0 0 hfs hws (Nat.le_refl 0) he
      simp only [spec, absB_normal_pending, Bool.false_eq_true, ↓reduceIte]
      erw [e1]
      simp only [Option.some.injEq] at h
      obtain ⟨e, ok, l⟩ := post_spec h L d trivial
      simp only [absB_st, l1]
      exact ⟨congrArg some e, ok, l⟩
  | evalC c =>
    simp only [viol] at hws
    (rw [exec.eq_def] at h; simp only at h)
    split at h
    · simp at h
    · rename_i s1 r1 he
      obtain ⟨e1, ok1, l1⟩ := ihE fs sup c s s1 r1 d L hfs hws hdL he
      simp only [spec, absB_normal_pending, Bool.false_eq_true, ↓reduceIte, e1]
      simp only [Option.some.injEq] at h
      obtain ⟨e, ok, l⟩ := post_spec' h l1 L d ok1
      exact ⟨congrArg some e, ok, l⟩
  | pipe codes lastc =>
    simp only [viol] at hws
    (rw [exec.eq_def] at h; simp only at h)
    split at h
    · simp at h
    · rename_i s1 r1 he
      cases hlp : s.lastpipe with
      | true =>
        -- lastpipe: the last stage runs in the current shell, at the current loop level
        obtain ⟨e1, ok1, l1⟩ := ihE fs sup lastc s s1 r1 0 L hfs hws (Nat.zero_le _) he
        simp only [hlp, ↓reduceIte, Option.some.injEq] at h
        have okd : okFlow d r1.flow := by
          revert ok1; cases r1.flow <;> simp [okFlow]
        obtain ⟨e, ok, l⟩ := post_spec h L d okd
        simp only [spec, absB_normal_pending, Bool.false_eq_true, ↓reduceIte, absB_st, hlp, e1,
          absB_setLast, l1]
        simp only [absB_pending]
        refine ⟨?_, ok, l⟩
        split
        · rename_i hp
          rw [← e, errexitCheck_pending _ _ (by simpa using hp)]
        · rw [e]
      | false =>
        obtain ⟨e1, ok1, l1⟩ := ihE fs sup lastc s s1 r1 0 0 hfs hws (Nat.le_refl 0) he
        simp only [hlp, Bool.false_eq_true, ↓reduceIte, Option.some.injEq] at h
        simp only [spec, absB_normal_pending, Bool.false_eq_true, ↓reduceIte, absB_st, hlp]
        erw [e1]
        obtain ⟨e, ok, l⟩ := post_spec h L d trivial
        simp only [absB_st, l1]
        exact ⟨congrArg some e, ok, l⟩
  | fault k =>
    have hpop : ({ ({ s with scope := s.scope + 1 } : St) with scope := s.scope + 1 - 1 } : St) = s := by
      cases s; simp
    cases k <;>
    · (rw [exec.eq_def] at h; simp only [Option.some.injEq] at h)
      simp only [spec, absB_normal_pending, Bool.false_eq_true, ↓reduceIte, absB_setLast]
      first
        | (obtain ⟨e, ok, l⟩ := post_spec h L d trivial
           exact ⟨congrArg some e, ok, l⟩)
        | (rw [hpop] at h
           obtain ⟨e, ok, l⟩ := post_spec h L d trivial
           exact ⟨congrArg some e, ok, l⟩)
  | callT f =>
    (rw [exec.eq_def] at h; simp only at h)
    simp only [spec, absB_normal_pending, Bool.false_eq_true, ↓reduceIte]
    exact ihE fs sup (.call f) s s' r d L hfs (by simp [viol]) hdL h

@[simp] theorem brk_beq_ret (k : Nat) : (Flow.brk k == Flow.ret) = false := by
  apply beq_false_of_ne; intro h; cases h
@[simp] theorem brk_beq_exit (k : Nat) : (Flow.brk k == Flow.exit) = false := by
  apply beq_false_of_ne; intro h; cases h
@[simp] theorem cont_beq_ret (k : Nat) : (Flow.cont k == Flow.ret) = false := by
  apply beq_false_of_ne; intro h; cases h
@[simp] theorem cont_beq_exit (k : Nat) : (Flow.cont k == Flow.exit) = false := by
  apply beq_false_of_ne; intro h; cases h
@[simp] theorem normal_beq_ret : (Flow.normal == Flow.ret) = false := by decide
@[simp] theorem normal_beq_exit : (Flow.normal == Flow.exit) = false := by decide

theorem afterBody_abs (M : Nat) (s : St) (f : Flow) :
    afterBody (absB M s f) = (absB M s f.dec, f.isRetOrExit || f.isBreak || f.dec.isCont) := by
  cases f with
  | brk k => cases k <;> simp [afterBody, absB, brkOf, contOf, Flow.dec, Flow.isRetOrExit, Flow.isBreak, Flow.isCont, B.jumping]
  | cont k => cases k <;> simp [afterBody, absB, brkOf, contOf, Flow.dec, Flow.isRetOrExit, Flow.isBreak, Flow.isCont, B.jumping]
  | _ => simp [afterBody, absB, brkOf, contOf, Flow.dec, Flow.isRetOrExit, Flow.isBreak, Flow.isCont, B.jumping]

theorem dec_retOrExit {f : Flow} (h : f.isRetOrExit = true) : f.dec = f := by
  cases f <;> simp_all [Flow.isRetOrExit, Flow.dec]

theorem okFlow_dec {d : Nat} {f : Flow} (h : okFlow (d + 1) f) : okFlow d f.dec := by
  cases f with
  | brk k => cases k <;> simp_all [okFlow, Flow.dec]
  | cont k => cases k <;> simp_all [okFlow, Flow.dec]
  | _ => simp_all [okFlow, Flow.dec]

/-- after the body: when neither a jump nor a break/outer-continue is pending, the decremented flow is normal -/
theorem dec_normal_of_continue {f : Flow} (h1 : f.isRetOrExit = false)
    (h2 : (f.isBreak || f.dec.isCont) = false) : f.dec = .normal := by
  cases f with
  | brk k => simp [Flow.isBreak] at h2
  | cont k => cases k <;> simp_all [Flow.dec, Flow.isCont, Flow.isBreak]
  | normal => rfl
  | ret => simp [Flow.isRetOrExit] at h1
  | exit => simp [Flow.isRetOrExit] at h1

theorem step_W (fuel : Nat) (ihE : PExec fuel) (ihW : PW fuel) : PW (fuel + 1) := by
  intro fs sup isUntil cond body s s' r r' d L hfs hc hb hdL hr h
  simp only [loopW] at h
  split at h
  · simp at h
  · rename_i s1 rc he
    obtain ⟨e1, ok1, l1⟩ := ihE fs true cond s s1 rc 0 (L + 1) hfs hc (Nat.zero_le _) he
    rw [last_eta s1 rc.code l1] at h
    simp only [specW, absB_normal_pending, Bool.false_eq_true, ↓reduceIte, e1, absB_jumping, absB_st]
    cases hn : rc.flow.isNormal with
    | false =>
      have hj : rc.flow.isRetOrExit = true := by
        revert ok1 hn; cases rc.flow <;> simp [okFlow, Flow.isNormal, Flow.isRetOrExit]
      simp only [hn, Bool.not_false, ↓reduceIte, Option.some.injEq, Prod.mk.injEq] at h
      obtain ⟨rfl, rfl⟩ := h
      simp only [hj, ↓reduceIte, dec_retOrExit hj, last_eta s1 rc.code l1]
      refine ⟨trivial, ?_⟩
      revert hj; cases rc.flow <;> simp [okFlow, Flow.isRetOrExit]
    | true =>
      have hf := isNormal_eq hn
      simp only [hn, Bool.not_true, Bool.false_eq_true, ↓reduceIte] at h
      simp only [hf, Flow.isRetOrExit, Bool.false_eq_true, ↓reduceIte, l1]
      by_cases hcond : (rc.code = 0) = (isUntil = true)
      · rw [if_pos hcond] at h ⊢
        simp only [Option.some.injEq, Prod.mk.injEq] at h
        obtain ⟨rfl, rfl⟩ := h
        rw [hr]
        exact ⟨rfl, trivial⟩
      · rw [if_neg hcond] at h ⊢
        split at h
        · simp at h
        · rename_i s2 rb he2
          obtain ⟨e2, ok2, l2⟩ := ihE fs sup body s1 s2 rb (d + 1) (L + 1) hfs hb (by omega) he2
          rw [e2]
          simp only [afterBody_abs]
          cases hj : rb.flow.isRetOrExit with
          | true =>
            simp only [hj, ↓reduceIte, Option.some.injEq, Prod.mk.injEq] at h
            obtain ⟨rfl, rfl⟩ := h
            simp only [Bool.true_or, ↓reduceIte, dec_retOrExit hj, last_eta s2 rb.code l2]
            refine ⟨trivial, ?_⟩
            revert hj; cases rb.flow <;> simp [okFlow, Flow.isRetOrExit]
          | false =>
            simp only [hj, Bool.false_eq_true, ↓reduceIte, Bool.false_or] at h ⊢
            cases hs : (rb.flow.isBreak || rb.flow.dec.isCont) with
            | true =>
              simp only [hs, ↓reduceIte, Option.some.injEq, Prod.mk.injEq] at h
              obtain ⟨rfl, rfl⟩ := h
              simp only [↓reduceIte, last_eta s2 rb.code l2]
              exact ⟨trivial, okFlow_dec ok2⟩
            | false =>
              simp only [hs, Bool.false_eq_true, ↓reduceIte] at h
              have hdn := dec_normal_of_continue hj hs
              simp only [Bool.false_eq_true, ↓reduceIte, absB_st, l2, hdn]
              exact ihW fs sup isUntil cond body s2 s' ⟨rb.code, rb.flow.dec⟩ r' d L hfs hc hb hdL hdn h

theorem step_F (fuel : Nat) (ihE : PExec fuel) (ihF : PF fuel) : PF (fuel + 1) := by
  intro fs sup n body s s' r r' d L hfs hb hdL hr h
  cases n with
  | zero =>
    simp only [loopF, Option.some.injEq, Prod.mk.injEq] at h
    obtain ⟨rfl, rfl⟩ := h
    simp only [specF, absB_normal_pending, Bool.false_eq_true, ↓reduceIte, absB_setLast, hr]
    and_intros <;> first | rfl | trivial
  | succ n =>
    simp only [loopF] at h
    simp only [specF, absB_normal_pending, Bool.false_eq_true, ↓reduceIte]
    split at h
    · simp at h
    · rename_i s2 rb he2
      obtain ⟨e2, ok2, l2⟩ := ihE fs sup body s s2 rb (d + 1) (L + 1) hfs hb (by omega) he2
      rw [e2]
      simp only [afterBody_abs]
      cases hj : rb.flow.isRetOrExit with
      | true =>
        simp only [hj, ↓reduceIte, Option.some.injEq, Prod.mk.injEq] at h
        obtain ⟨rfl, rfl⟩ := h
        simp only [Bool.true_or, ↓reduceIte, dec_retOrExit hj, last_eta s2 rb.code l2]
        refine ⟨trivial, ?_⟩
        revert hj; cases rb.flow <;> simp [okFlow, Flow.isRetOrExit]
      | false =>
        simp only [hj, Bool.false_eq_true, ↓reduceIte, Bool.false_or] at h ⊢
        cases hs : (rb.flow.isBreak || rb.flow.dec.isCont) with
        | true =>
          simp only [hs, ↓reduceIte, Option.some.injEq, Prod.mk.injEq] at h
          obtain ⟨rfl, rfl⟩ := h
          simp only [↓reduceIte, last_eta s2 rb.code l2]
          exact ⟨trivial, okFlow_dec ok2⟩
        | false =>
          simp only [hs, Bool.false_eq_true, ↓reduceIte] at h
          have hdn := dec_normal_of_continue hj hs
          simp only [Bool.false_eq_true, ↓reduceIte, absB_st, l2, hdn]
          exact ihF fs sup n body s2 s' ⟨rb.code, rb.flow.dec⟩ r' d L hfs hb hdL hdn h

theorem step_Arms (fuel : Nat) (ihE : PExec fuel) (ihC : PArms fuel) : PArms (fuel + 1) := by
  intro fs sup arms force s s' r r' d L hfs hws hdL hr h
  cases arms with
  | nil =>
    simp only [execArms, Option.some.injEq, Prod.mk.injEq] at h
    obtain ⟨rfl, rfl⟩ := h
    simp only [specArms, absB_normal_pending, Bool.false_eq_true, ↓reduceIte, absB_setLast, hr]
    and_intros <;> first | rfl | trivial
  | cons m body t rest =>
    simp only [violArms, List.append_eq_nil_iff] at hws
    simp only [execArms] at h
    simp only [specArms, absB_normal_pending, Bool.false_eq_true, ↓reduceIte]
    by_cases hskip : (!force && !m) = true
    · rw [if_pos hskip] at h ⊢
      exact ihC fs sup rest false s s' r r' d L hfs hws.2 hdL hr h
    · rw [if_neg hskip] at h ⊢
      split at h
      · simp at h
      · rename_i s1 r1 he
        obtain ⟨e1, ok1, l1⟩ := ihE fs sup body s s1 r1 d L hfs hws.1 hdL he
        rw [e1]
        simp only [absB_st, l1]
        cases hn : r1.flow.isNormal with
        | false =>
          simp only [hn, Bool.not_false, ↓reduceIte, Option.some.injEq, Prod.mk.injEq] at h
          obtain ⟨rfl, rfl⟩ := h
          have hp : (absB L s1 r1.flow).pending = true := by simp [hn]
          rw [last_eta s1 r1.code l1]
          refine ⟨?_, ok1⟩
          cases t <;> simp only [specArms_pending hp]
        | true =>
          have hf := isNormal_eq hn
          simp only [hn, Bool.not_true, Bool.false_eq_true, ↓reduceIte] at h
          cases t with
          | exitCase =>
            simp only [Option.some.injEq, Prod.mk.injEq] at h
            obtain ⟨rfl, rfl⟩ := h
            rw [last_eta s1 r1.code l1]
            exact ⟨rfl, ok1⟩
          | fallThrough =>
            simp only at h ⊢
            rw [hf]
            exact ihC fs sup rest true s1 s' r1 r' d L hfs hws.2 hdL hf h
          | contTest =>
            simp only at h ⊢
            rw [hf]
            exact ihC fs sup rest false s1 s' r1 r' d L hfs hws.2 hdL hf h

theorem step_AO (fuel : Nat) (ihE : PExec fuel) (ihA : PAO fuel) : PAO (fuel + 1) := by
  intro fs sup aos s s' r r' d L hfs hws hdL hl hok h
  cases aos with
  | nil =>
    simp only [execAO, Option.some.injEq, Prod.mk.injEq] at h
    obtain ⟨rfl, rfl⟩ := h
    refine ⟨?_, hok, hl⟩
    rw [specAO.eq_def]
    simp only [absB_pending]
    split <;> rfl
  | cons isAnd c rest =>
    simp only [violAO, List.append_eq_nil_iff] at hws
    cases hn : r.flow.isNormal with
    | false =>
      cases rest <;>
      · simp only [execAO, hn, Bool.not_false, ↓reduceIte, Option.some.injEq, Prod.mk.injEq] at h
        obtain ⟨rfl, rfl⟩ := h
        exact ⟨specAO_pending (by simp [hn]), hok, hl⟩
    | true =>
      have hf := isNormal_eq hn
      rw [hf]
      cases rest <;>
      · simp only [execAO, hn, Bool.not_true, Bool.false_eq_true, ↓reduceIte] at h
        simp only [specAO, absB_normal_pending, Bool.false_eq_true, ↓reduceIte, absB_st, hl, Bool.not_true]
        split at h
        · rw [if_pos (by assumption)]
          rw [← hf]
          exact ihA fs sup _ s s' r r' d L hfs (by first | exact hws.2 | rfl) hdL hl hok h
        · rw [if_neg (by assumption)]
          split at h
          · simp at h
          · rename_i s1 r1 he
            obtain ⟨e1, ok1, l1⟩ := ihE fs _ c s s1 r1 d L hfs hws.1 hdL he
            simp only [e1]
            exact ihA fs sup _ s1 s' r1 r' d L hfs (by first | exact hws.2 | rfl) hdL l1 ok1 h

theorem refines_all (fuel : Nat) : PExec fuel ∧ PList fuel ∧ PAO fuel ∧ PW fuel ∧ PF fuel ∧ PArms fuel := by
  induction fuel with
  | zero =>
    refine ⟨?_, ?_, ?_, ?_, ?_, ?_⟩
    · intro fs sup c s s' r d L _ _ _ h; (rw [exec.eq_def] at h; simp at h)
    · intro fs sup cs s s' r d L _ _ _ h; simp [execList] at h
    · intro fs sup aos s s' r r' d L _ _ _ _ _ h; simp [execAO] at h
    · intro fs sup isUntil cond body s s' r r' d L _ _ _ _ _ h; simp [loopW] at h
    · intro fs sup n body s s' r r' d L _ _ _ _ h; simp [loopF] at h
    · intro fs sup arms force s s' r r' d L _ _ _ _ h; simp [execArms] at h
  | succ fuel ih =>
    obtain ⟨ihE, ihL, ihA, ihW, ihF, ihC⟩ := ih
    exact ⟨step_exec fuel ihE ihL ihA ihW ihF ihC, step_list fuel ihE ihL, step_AO fuel ihE ihA,
      step_W fuel ihE ihW, step_F fuel ihE ihF, step_Arms fuel ihE ihC⟩

theorem viol_nil_of_ws {d : Nat} {c : Cmd} (h : ws d c = true) : viol d c = [] :=
  List.isEmpty_iff.mp h

/-- **Main theorem.**  On well-scoped programs every terminating run of brush's result-value
interpreter is matched step for step by bash's global-counter semantics. -/
theorem exec_refines (fuel : Nat) :
    (∀ fs sup c s s' r d, okFuncs fs → ws d c = true → exec fuel fs sup c s = some (s', r) →
        spec fuel fs sup c (absB d s .normal) = some (absB d s' r.flow) ∧ okFlow d r.flow ∧ s'.last = r.code) ∧
    (∀ fs sup cs s s' r d, okFuncs fs → (violList d cs).isEmpty = true →
        execList fuel fs sup cs s = some (s', r) →
        specList fuel fs sup cs (absB d s .normal) = some (absB d s' r.flow) ∧ okFlow d r.flow ∧
          s'.last = r.code) ∧
    (∀ fs sup aos s s' r r' d, okFuncs fs → (violAO d aos).isEmpty = true →
        s.last = r.code → okFlow d r.flow →
        execAO fuel fs sup aos s r = some (s', r') →
        specAO fuel fs sup aos (absB d s r.flow) = some (absB d s' r'.flow) ∧ okFlow d r'.flow ∧
          s'.last = r'.code) ∧
    (∀ fs sup isUntil cond body s s' r r' d, okFuncs fs → (viol 0 cond).isEmpty = true →
        (viol (d + 1) body).isEmpty = true → r.flow = .normal →
        loopW fuel fs sup isUntil cond body s r = some (s', r') →
        specW fuel fs sup isUntil cond body (absB (d + 1) s .normal) r.code
            = some (absB (d + 1) { s' with last := r'.code } r'.flow) ∧ okFlow d r'.flow) ∧
    (∀ fs sup n body s s' r r' d, okFuncs fs → (viol (d + 1) body).isEmpty = true → r.flow = .normal →
        loopF fuel fs sup n body s r = some (s', r') →
        specF fuel fs sup n body (absB (d + 1) s .normal) r.code
            = some (absB (d + 1) { s' with last := r'.code } r'.flow) ∧ okFlow d r'.flow) ∧
    (∀ fs sup arms force s s' r r' d, okFuncs fs → (violArms d arms).isEmpty = true → r.flow = .normal →
        execArms fuel fs sup arms force s r = some (s', r') →
        specArms fuel fs sup arms force (absB d s .normal) r.code
            = some (absB d { s' with last := r'.code } r'.flow) ∧ okFlow d r'.flow) := by
  obtain ⟨hE, hL, hA, hW, hF, hC⟩ := refines_all fuel
  refine ⟨?_, ?_, ?_, ?_, ?_, ?_⟩
  · intro fs sup c s s' r d hfs hws h
    exact hE fs sup c s s' r d d hfs (viol_nil_of_ws hws) (Nat.le_refl d) h
  · intro fs sup cs s s' r d hfs hws h
    exact hL fs sup cs s s' r d d hfs (List.isEmpty_iff.mp hws) (Nat.le_refl d) h
  · intro fs sup aos s s' r r' d hfs hws hl hok h
    exact hA fs sup aos s s' r r' d d hfs (List.isEmpty_iff.mp hws) (Nat.le_refl d) hl hok h
  · intro fs sup isUntil cond body s s' r r' d hfs hc hb hr h
    exact hW fs sup isUntil cond body s s' r r' d d hfs (List.isEmpty_iff.mp hc) (List.isEmpty_iff.mp hb)
      (Nat.le_refl d) hr h
  · intro fs sup n body s s' r r' d hfs hb hr h
    exact hF fs sup n body s s' r r' d d hfs (List.isEmpty_iff.mp hb) (Nat.le_refl d) hr h
  · intro fs sup arms force s s' r r' d hfs hws hr h
    exact hC fs sup arms force s s' r r' d d hfs (List.isEmpty_iff.mp hws) (Nat.le_refl d) hr h


end BrushVerif.FlowRefine
