import BrushVerif.Model.Flow
import BrushVerif.Spec.FlowBash
import BrushVerif.Spec.FlowScope
/-!
# brush's result-value control flow refines bash's global-counter control flow

Abstraction: brush's `(St, Res)` after a command corresponds to bash's state whose pending
counters/flags encode `Res.flow`.
-/
namespace BrushVerif.FlowRefine
open BrushVerif.Flow BrushVerif.FlowBash BrushVerif.FlowScope

def brkOf : Flow → Nat
  | .brk k => k + 1
  | _ => 0

def contOf : Flow → Nat
  | .cont k => k + 1
  | _ => 0

/-- bash's state that corresponds to brush's state `s` with pending control flow `f`, `d` loops deep -/
def absB (d : Nat) (s : St) (f : Flow) : B :=
  { st := s, level := d, breaking := brkOf f, continuing := contOf f,
    returning := (f == .ret), exiting := (f == .exit) }

/-- a pending loop jump never exceeds the enclosing loops -/
def okFlow (d : Nat) : Flow → Prop
  | .brk k => k + 1 ≤ d
  | .cont k => k + 1 ≤ d
  | _ => True

/-- every function body is well scoped on its own -/
def okFuncs (fs : List Cmd) : Prop := ∀ body ∈ fs, ws 0 body = true

end BrushVerif.FlowRefine
