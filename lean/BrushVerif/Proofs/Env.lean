import BrushVerif.Model.Env
/-! Helper lemmas for C09 (scope stack, readonly preservation, top-scope confinement). -/
namespace BrushVerif.Env
open BrushVerif.Wire

/-! ## maps -/

theorem mget_mset (m : VMap) (n n' : Str) (v : Var) :
    mget (mset m n v) n' = if n = n' then some v else mget m n' := by
  induction m with
  | nil => simp [mset, mget]
  | cons h t ih =>
    obtain ⟨a, b⟩ := h
    simp only [mset]
    split
    · next h1 => subst h1; simp only [mget]; split <;> simp_all
    · next h1 =>
      simp only [mget, ih]
      split
      · next h2 => subst h2; have := Ne.symm h1; simp_all
      · rfl

theorem mget_mdel (m : VMap) (n n' : Str) :
    mget (mdel m n) n' = if n = n' then none else mget m n' := by
  induction m with
  | nil => simp [mdel, mget]
  | cons h t ih =>
    obtain ⟨a, b⟩ := h
    simp only [mdel]
    split
    · next h1 => subst h1; rw [ih]; simp only [mget]; split <;> simp_all
    · next h1 =>
      simp only [mget, ih]
      split
      · next h2 => subst h2; have := Ne.symm h1; simp_all
      · rfl

/-! ## readonly bindings are kept -/

/-- every readonly binding of `m` is found unchanged in `m'` -/
def KeepsMap (m m' : VMap) : Prop :=
  ∀ n v, mget m n = some v → v.readonly = true →
    ∃ v', mget m' n = some v' ∧ v'.value = v.value ∧ v'.readonly = true

/-- same depth, same scope kinds, readonly bindings kept scope by scope -/
def KeepsL : List Scope → List Scope → Prop
  | [], [] => True
  | (k, m) :: r, (k', m') :: r' => k = k' ∧ KeepsMap m m' ∧ KeepsL r r'
  | _, _ => False

theorem KeepsMap.refl (m : VMap) : KeepsMap m m := fun _ v h hr => ⟨v, h, rfl, hr⟩

theorem KeepsMap.trans {a b c : VMap} (h1 : KeepsMap a b) (h2 : KeepsMap b c) : KeepsMap a c := by
  intro n v h hr
  obtain ⟨v1, g1, e1, r1⟩ := h1 n v h hr
  obtain ⟨v2, g2, e2, r2⟩ := h2 n v1 g1 r1
  exact ⟨v2, g2, e2.trans e1, r2⟩

theorem KeepsL.refl : ∀ s : List Scope, KeepsL s s
  | [] => trivial
  | (_, m) :: r => ⟨rfl, KeepsMap.refl m, KeepsL.refl r⟩

theorem KeepsL.trans : ∀ {a b c : List Scope}, KeepsL a b → KeepsL b c → KeepsL a c
  | [], [], [], _, _ => trivial
  | (_, _) :: _, (_, _) :: _, (_, _) :: _, ⟨hk, hm, hr⟩, ⟨hk', hm', hr'⟩ =>
    ⟨hk.trans hk', hm.trans hm', KeepsL.trans hr hr'⟩
  | [], [], _ :: _, _, h => by simp [KeepsL] at h
  | [], _ :: _, _, h, _ => by simp [KeepsL] at h
  | _ :: _, [], _, h, _ => by simp [KeepsL] at h
  | (_, _) :: _, (_, _) :: _, [], _, h => by simp [KeepsL] at h

theorem KeepsL.length : ∀ {a b : List Scope}, KeepsL a b → a.length = b.length
  | [], [], _ => rfl
  | (_, _) :: _, (_, _) :: _, ⟨_, _, hr⟩ => by simp [KeepsL.length hr]
  | [], _ :: _, h => by simp [KeepsL] at h
  | _ :: _, [], h => by simp [KeepsL] at h

/-- split a `KeepsL` of an append at the length of the left part -/
theorem KeepsL.split : ∀ (pre base s' : List Scope), KeepsL (pre ++ base) s' →
    ∃ pre' base', s' = pre' ++ base' ∧ pre'.length = pre.length ∧ KeepsL base base'
  | [], base, s', h => ⟨[], s', rfl, rfl, h⟩
  | (k, m) :: pre, base, [], h => by simp [KeepsL] at h
  | (k, m) :: pre, base, (k', m') :: r', h => by
    obtain ⟨_, _, hr⟩ := h
    obtain ⟨p', b', e1, e2, e3⟩ := KeepsL.split pre base r' hr
    exact ⟨(k', m') :: p', b', by simp [e1], by simp [e2], e3⟩

/-- an in-place update that leaves readonly variables alone -/
def Fz (f : Var → R) : Prop :=
  ∀ v, v.readonly = true → (f v).1.value = v.value ∧ (f v).1.readonly = true

theorem keepsMap_mset_fz (m : VMap) (n : Str) (v : Var) (f : Var → R) (hf : Fz f)
    (hv : mget m n = some v) : KeepsMap m (mset m n (f v).1) := by
  intro n' v' h hr
  rw [mget_mset]
  split
  · next heq => subst heq; rw [hv] at h; cases h; exact ⟨_, rfl, hf v hr⟩
  · exact ⟨v', h, rfl, hr⟩

theorem keepsMap_mset_new (m : VMap) (n : Str) (v : Var) (hv : mget m n = none) :
    KeepsMap m (mset m n v) := by
  intro n' v' h hr
  rw [mget_mset]
  split
  · next heq => subst heq; rw [hv] at h; cases h
  · exact ⟨v', h, rfl, hr⟩

theorem keepsMap_mset_nonro (m : VMap) (n : Str) (v w : Var) (hv : mget m n = some v)
    (hro : v.readonly = false) : KeepsMap m (mset m n w) := by
  intro n' v' h hr
  rw [mget_mset]
  split
  · next heq => subst heq; rw [hv] at h; cases h; simp [hro] at hr
  · exact ⟨v', h, rfl, hr⟩

theorem keepsMap_mdel_nonro (m : VMap) (n : Str) (v : Var) (hv : mget m n = some v)
    (hro : v.readonly = false) : KeepsMap m (mdel m n) := by
  intro n' v' h hr
  rw [mget_mdel]
  split
  · next heq => subst heq; rw [hv] at h; cases h; simp [hro] at hr
  · exact ⟨v', h, rfl, hr⟩

theorem modPol_keeps (n : Str) (pol : Policy) (f : Var → R) (hf : Fz f) :
    ∀ (s : List Scope) (lc : Nat) (s' : List Scope) (ok : Bool),
      modPol n pol f lc s = some (s', ok) → KeepsL s s' := by
  intro s
  induction s with
  | nil => intro lc s' ok h; simp [modPol] at h
  | cons hd tl ih =>
    intro lc s' ok h
    obtain ⟨k, m⟩ := hd
    simp only [modPol] at h
    split at h
    · next v hv =>
      have hv' : mget m n = some v := by
        split at hv
        · exact hv
        · cases hv
      cases h
      exact ⟨rfl, keepsMap_mset_fz m n v f hf hv', KeepsL.refl tl⟩
    · split at h
      · cases h
      · split at h
        · next r' ok' hrec =>
          cases h
          exact ⟨rfl, KeepsMap.refl m, ih _ _ _ hrec⟩
        · cases h

theorem unsetScopes_keeps (n : Str) : ∀ (s : List Scope) (lc : Nat), KeepsL s (unsetScopes n lc s).1 := by
  intro s
  induction s with
  | nil => intro lc; simp [unsetScopes, KeepsL]
  | cons hd tl ih =>
    intro lc
    obtain ⟨k, m⟩ := hd
    simp only [unsetScopes]
    split
    · next v hv =>
      split
      · exact KeepsL.refl _
      · next hro =>
        have hro' : v.readonly = false := by simpa using hro
        split
        · exact ⟨rfl, keepsMap_mset_nonro m n v _ hv hro', KeepsL.refl tl⟩
        · exact ⟨rfl, keepsMap_mdel_nonro m n v hv hro', KeepsL.refl tl⟩
    · exact ⟨rfl, KeepsMap.refl m, ih _⟩

/-- `n` is bound in no scope -/
def Unbound (n : Str) (s : List Scope) : Prop := ∀ sc ∈ s, mget sc.2 n = none

theorem getScopes_none (n : Str) : ∀ s : List Scope, getScopes n s = none → Unbound n s := by
  intro s
  induction s with
  | nil => intro _ sc h; cases h
  | cons hd tl ih =>
    intro h sc hsc
    obtain ⟨k, m⟩ := hd
    simp only [getScopes] at h
    split at h
    · cases h
    · next hm =>
      rcases List.mem_cons.mp hsc with rfl | h'
      · exact hm
      · exact ih h sc h'

theorem modPol_anywhere_none (n : Str) (f : Var → R) :
    ∀ (s : List Scope) (lc : Nat), modPol n .anywhere f lc s = none → Unbound n s := by
  intro s
  induction s with
  | nil => intro _ _ sc h; cases h
  | cons hd tl ih =>
    intro lc h sc hsc
    obtain ⟨k, m⟩ := hd
    simp only [modPol, eligible, if_true] at h
    split at h
    · cases h
    · next hm =>
      have hne : ¬ (k = Kind.loc ∧ Policy.anywhere = Policy.onlyCurrentLocal) := by simp
      simp only [hne, if_false] at h
      split at h
      · cases h
      · next hrec =>
        rcases List.mem_cons.mp hsc with rfl | h'
        · exact hm
        · exact ih _ hrec sc h'

theorem addScopes_keeps (n : Str) (v : Var) (k : Kind) :
    ∀ (s s' : List Scope), Unbound n s → addScopes n v k s = some s' → KeepsL s s' := by
  intro s
  induction s with
  | nil => intro s' _ h; simp [addScopes] at h
  | cons hd tl ih =>
    intro s' hu h
    obtain ⟨k', m⟩ := hd
    simp only [addScopes] at h
    split at h
    · cases h
      exact ⟨rfl, keepsMap_mset_new m n v (hu (k', m) (List.mem_cons_self ..)), KeepsL.refl tl⟩
    · cases hrec : addScopes n v k tl with
      | none => simp [hrec] at h
      | some r' =>
        simp [hrec] at h
        cases h
        exact ⟨rfl, KeepsMap.refl m, ih r' (fun sc hsc => hu sc (List.mem_cons_of_mem _ hsc)) hrec⟩

/-- `local`: the lookup restricted to the current function's frame fails, and the new binding goes
into that same frame -/
theorem addLocal_keeps (n : Str) (v : Var) (f : Var → R) :
    ∀ (s s' : List Scope), modPol n .onlyCurrentLocal f 0 s = none → addScopes n v .loc s = some s' →
      KeepsL s s' := by
  intro s
  induction s with
  | nil => intro s' _ h; simp [addScopes] at h
  | cons hd tl ih =>
    intro s' hm h
    obtain ⟨k', m⟩ := hd
    simp only [addScopes] at h
    by_cases hk : k' = Kind.loc
    · subst hk
      simp only [if_true] at h
      cases h
      simp only [modPol, bump, eligible, if_true, Nat.zero_add, decide_true, Bool.and_self] at hm
      have : mget m n = none := by
        cases hg : mget m n with
        | none => rfl
        | some v0 => simp [hg] at hm
      exact ⟨rfl, keepsMap_mset_new m n v this, KeepsL.refl tl⟩
    · simp only [hk, if_false] at h
      cases hrec : addScopes n v .loc tl with
      | none => simp [hrec] at h
      | some r' =>
        simp [hrec] at h
        cases h
        have hm' : modPol n .onlyCurrentLocal f 0 tl = none := by
          simp only [modPol, bump, hk, if_false, eligible] at hm
          simp at hm
          cases hr : modPol n .onlyCurrentLocal f 0 tl with
          | none => rfl
          | some p => simp [hr] at hm
        exact ⟨rfl, KeepsMap.refl m, ih r' hm' hrec⟩


/-! ## environment-level wrappers -/

theorem modify_keeps (e e' : Env) (n : Str) (pol : Policy) (f : Var → R) (ok : Bool) (hf : Fz f)
    (h : e.modify n pol f = some (e', ok)) : KeepsL e.scopes e'.scopes := by
  unfold Env.modify at h
  cases hm : modPol n pol f 0 e.scopes with
  | none => simp [hm] at h
  | some p =>
    obtain ⟨s', ok'⟩ := p
    simp [hm] at h
    obtain ⟨h1, _⟩ := h
    subst h1
    exact modPol_keeps n pol f hf _ _ _ _ hm

theorem modify_anywhere_none (e : Env) (n : Str) (f : Var → R) (h : e.modify n .anywhere f = none) :
    Unbound n e.scopes := by
  unfold Env.modify at h
  cases hm : modPol n .anywhere f 0 e.scopes with
  | none => exact modPol_anywhere_none n f _ _ hm
  | some p => simp [hm] at h

theorem add_keeps (e : Env) (n : Str) (v : Var) (k : Kind) (hu : Unbound n e.scopes) :
    KeepsL e.scopes (e.add n v k).1.scopes := by
  unfold Env.add
  cases ha : addScopes n v k e.scopes with
  | none => exact KeepsL.refl _
  | some s' => exact addScopes_keeps n v k _ _ hu ha

theorem assign_fz (lit : Lit) (ap : Bool) : Fz (fun v => v.assign lit ap) := by
  intro v h; simp [Var.assign, h]

theorem assign_upd_fz (lit : Lit) (ap : Bool) (u : Updater) :
    Fz (fun v => let (v', ok) := v.assign lit ap; if ok then (u.app v', true) else (v', false)) := by
  intro v h; simp [Var.assign, h]

theorem updateOrAdd_keeps (e : Env) (n : Str) (lit : Lit) (u : Updater) (k : Kind) :
    KeepsL e.scopes (e.updateOrAdd n lit u .anywhere k).1.scopes := by
  unfold Env.updateOrAdd
  split
  · next r hm =>
    obtain ⟨e', ok⟩ := r
    exact modify_keeps e e' n _ _ ok (assign_upd_fz lit false u) hm
  · next hm =>
    have hu := modify_anywhere_none e n _ hm
    split
    split
    · exact add_keeps e n _ k hu
    · exact KeepsL.refl _

theorem unset_keeps (e : Env) (n : Str) : KeepsL e.scopes (e.unset n).1.scopes := by
  unfold Env.unset
  have := unsetScopes_keeps n e.scopes 0
  split
  next s ok heq => simpa [heq] using this

theorem exportName_keeps (e : Env) (n : Str) (un : Bool) : KeepsL e.scopes (e.exportName n un).1.scopes := by
  unfold Env.exportName
  split
  · next r hm =>
    obtain ⟨e', ok⟩ := r
    exact modify_keeps e e' n _ _ ok (fun v h => ⟨rfl, h⟩) hm
  · next hm =>
    split
    · exact KeepsL.refl _
    · exact add_keeps e n _ _ (modify_anywhere_none e n _ hm)


/-! ## per-operation lemmas -/

theorem match_modify_keeps (e : Env) (n : Str) (pol : Policy) (f : Var → R) (hf : Fz f) (dflt : Env × Bool)
    (hd : e.modify n pol f = none → KeepsL e.scopes dflt.1.scopes) :
    KeepsL e.scopes (match e.modify n pol f with | some r => r | none => dflt).1.scopes := by
  cases hm : e.modify n pol f with
  | none => exact hd hm
  | some r => obtain ⟨e', ok⟩ := r; exact modify_keeps e e' n pol f ok hf hm

theorem ite_keeps (s : List Scope) (c : Prop) [Decidable c] (a b : Env × Bool)
    (ha : KeepsL s a.1.scopes) (hb : KeepsL s b.1.scopes) : KeepsL s (if c then a else b).1.scopes := by
  split <;> assumption

theorem setTransform_value (v : Var) (f : Option Bool) (t : Transform) :
    (setTransform v f t).value = v.value ∧ (setTransform v f t).readonly = v.readonly := by
  unfold setTransform
  split
  · simp
  · split <;> simp
  · simp

theorem before_value (fl : DeclFlags) (v : Var) :
    (fl.before v).value = v.value ∧ (fl.before v).readonly = v.readonly := by
  unfold DeclFlags.before
  cases fl.i <;> cases fl.x <;> simp [setTransform_value]

theorem after_value (fl : DeclFlags) (verb : Verb) (v : Var) (h : v.readonly = true) :
    (fl.after verb v).1.value = v.value ∧ (fl.after verb v).1.readonly = true := by
  unfold DeclFlags.after
  split
  · simp
  · split
    · simp
    · simp [h]
    · simp [h]

theorem declExisting_fz (fl : DeclFlags) (verb : Verb) (lit : Option Lit) (ai : Bool)
    (ha : fl.a = false) (hA : fl.A = false) : Fz (declExisting fl verb lit ai) := by
  intro v h
  have hb := before_value fl v
  have hro : (fl.before v).readonly = true := by rw [hb.2, h]
  have haf := after_value fl verb (fl.before v) hro
  unfold declExisting
  cases lit with
  | none => simp [ha, hA]; exact ⟨haf.1.trans hb.1, haf.2⟩
  | some l => simp [ha, hA, h]

/-- `n` is bound in no scope of kind `k` -/
def UnboundIn (k : Kind) (n : Str) (s : List Scope) : Prop := ∀ sc ∈ s, sc.1 = k → mget sc.2 n = none

theorem addScopes_keeps_in (n : Str) (v : Var) (k : Kind) :
    ∀ (s s' : List Scope), UnboundIn k n s → addScopes n v k s = some s' → KeepsL s s' := by
  intro s
  induction s with
  | nil => intro s' _ h; simp [addScopes] at h
  | cons hd tl ih =>
    intro s' hu h
    obtain ⟨k', m⟩ := hd
    simp only [addScopes] at h
    split at h
    · next hk =>
      cases h
      exact ⟨rfl, keepsMap_mset_new m n v (hu (k', m) (List.mem_cons_self ..) hk), KeepsL.refl tl⟩
    · cases hrec : addScopes n v k tl with
      | none => simp [hrec] at h
      | some r' =>
        simp [hrec] at h
        cases h
        exact ⟨rfl, KeepsMap.refl m, ih r' (fun sc hsc => hu sc (List.mem_cons_of_mem _ hsc)) hrec⟩

theorem modPol_onlyGlobal_none (n : Str) (f : Var → R) :
    ∀ (s : List Scope) (lc : Nat), modPol n .onlyGlobal f lc s = none → UnboundIn .global n s := by
  intro s
  induction s with
  | nil => intro _ _ sc h; cases h
  | cons hd tl ih =>
    intro lc h sc hsc hk
    obtain ⟨k, m⟩ := hd
    simp only [modPol, eligible] at h
    split at h
    · cases h
    · next hm =>
      have hne : ¬ (k = Kind.loc ∧ Policy.onlyGlobal = Policy.onlyCurrentLocal) := by simp
      simp only [hne, if_false] at h
      split at h
      · cases h
      · next hrec =>
        rcases List.mem_cons.mp hsc with rfl | h'
        · simp only at hk
          subst hk
          simpa using hm
        · exact ih _ hrec sc h' hk

theorem add_keeps_in (e : Env) (n : Str) (v : Var) (k : Kind) (hu : UnboundIn k n e.scopes) :
    KeepsL e.scopes (e.add n v k).1.scopes := by
  unfold Env.add
  cases ha : addScopes n v k e.scopes with
  | none => exact KeepsL.refl _
  | some s' => exact addScopes_keeps_in n v k _ _ hu ha

theorem declare_keeps (e : Env) (n : Str) (fl : DeclFlags) (verb : Verb) (lit : Option Lit)
    (ai na inf : Bool) (ha : fl.a = false) (hA : fl.A = false) :
    KeepsL e.scopes (e.declare n fl verb lit ai na inf).1.scopes := by
  unfold Env.declare
  simp only []
  refine match_modify_keeps e n _ _ (declExisting_fz fl verb lit ai ha hA) _ ?_
  intro hm
  -- whatever is added goes where the failed lookup looked
  have hadd : ∀ v, KeepsL e.scopes (e.add n v (if (verb = Verb.loc || (verb = Verb.declare && inf && !fl.g)) = true then Kind.loc else Kind.global)).1.scopes := by
    intro v
    unfold Env.modify at hm
    by_cases hcl : (verb = Verb.loc || (verb = Verb.declare && inf && !fl.g)) = true
    · simp only [hcl, if_true] at hm ⊢
      unfold Env.add
      cases hadd : addScopes n v Kind.loc e.scopes with
      | none => exact KeepsL.refl _
      | some s' =>
        refine addLocal_keeps n v (declExisting fl verb lit ai) _ _ ?_ hadd
        cases hmp : modPol n .onlyCurrentLocal (declExisting fl verb lit ai) 0 e.scopes with
        | none => rfl
        | some p => simp [hmp] at hm
    · simp only [hcl] at hm ⊢
      by_cases hg : fl.g = true
      · simp only [hg, if_true] at hm
        refine add_keeps_in e n _ _ (modPol_onlyGlobal_none n (declExisting fl verb lit ai) _ 0 ?_)
        cases hmp : modPol n .onlyGlobal (declExisting fl verb lit ai) 0 e.scopes with
        | none => rfl
        | some p => simp [hmp] at hm
      · simp only [hg] at hm
        refine add_keeps e n _ _ (modPol_anywhere_none n (declExisting fl verb lit ai) _ 0 ?_)
        cases hmp : modPol n .anywhere (declExisting fl verb lit ai) 0 e.scopes with
        | none => rfl
        | some p => simp [hmp] at hm
  refine ite_keeps _ _ _ _ (KeepsL.refl _) ?_
  cases lit with
  | none =>
    simp only []
    exact ite_keeps _ _ _ _ (KeepsL.refl _) (ite_keeps _ _ _ _ (KeepsL.refl _) (hadd _))
  | some l =>
    simp only []
    exact ite_keeps _ _ _ _ (KeepsL.refl _) (ite_keeps _ _ _ _ (KeepsL.refl _) (hadd _))

theorem exportAssign_keeps (e : Env) (n : Str) (lit : Lit) (ap un : Bool) :
    KeepsL e.scopes (e.exportAssign n lit ap un).1.scopes := by
  unfold Env.exportAssign
  simp only []
  refine ite_keeps _ _ _ _ ?_ (updateOrAdd_keeps e n lit _ _)
  exact match_modify_keeps e n _ _ (assign_upd_fz lit true _) _ (fun _ => KeepsL.refl _)

theorem assignDefault_keeps (e : Env) (n val : Str) :
    KeepsL e.scopes (e.assignDefault n val).1.scopes := by
  unfold Env.assignDefault
  simp only []
  split
  · exact KeepsL.refl _
  · exact updateOrAdd_keeps e n _ _ _

theorem applyTemp_keeps (e : Env) (n : Str) (lit : Lit) (m : VMap) (r : List Scope)
    (h : e.scopes = (Kind.command, m) :: r) :
    KeepsL e.scopes (e.applyAssignment n none lit false true (some .command) .command).1.scopes := by
  unfold Env.applyAssignment
  simp only [Option.isSome_some, if_true, h]
  cases hm : mget m n with
  | some v0 =>
    simp
    rw [← h]
    refine match_modify_keeps e n _ _ ?_ _ (fun _ => KeepsL.refl _)
    intro v hv; simp [Var.assign, hv]
  | none =>
    have hadd : ∀ v, KeepsL ((Kind.command, m) :: r) (e.add n v .command).1.scopes := by
      intro v
      simp only [Env.add, h, addScopes, if_true]
      exact ⟨rfl, keepsMap_mset_new m n v hm, KeepsL.refl r⟩
    simp
    refine ite_keeps _ _ _ _ (h ▸ KeepsL.refl _) ?_
    cases lit <;> exact hadd _

theorem keepsL_head_command {m : VMap} {r s' : List Scope} (h : KeepsL ((Kind.command, m) :: r) s') :
    ∃ m' r', s' = (Kind.command, m') :: r' := by
  match s', h with
  | (k', m') :: r', ⟨hk, _, _⟩ => exact ⟨m', r', by rw [hk]⟩

theorem tempAssigns_keeps : ∀ (items : List (Str × Lit)) (e : Env) (m : VMap) (r : List Scope),
    e.scopes = (Kind.command, m) :: r → KeepsL e.scopes (tempAssigns e items).1.scopes := by
  intro items
  induction items with
  | nil => intro e m r _; exact KeepsL.refl _
  | cons it rest ih =>
    intro e m r h
    obtain ⟨n, lit⟩ := it
    have k1 := applyTemp_keeps e n lit m r h
    simp only [tempAssigns]
    cases heq : e.applyAssignment n none lit false true (some .command) .command with
    | mk e' ok =>
      rw [heq] at k1
      obtain ⟨m', r', hs⟩ := keepsL_head_command (h ▸ k1)
      have k2 := ih e' m' r' hs
      cases heq2 : tempAssigns e' rest with
      | mk e'' ok' =>
        rw [heq2] at k2
        exact KeepsL.trans k1 k2

/-! ## element writers (readonly checked since the `assign_at_index` / `unset_index` repair) -/
theorem assignAtIndex_fz (i s : Str) (ap : Bool) : Fz (fun v => v.assignAtIndex i s ap) := by
  intro v h; simp [Var.assignAtIndex, h]

theorem unsetIndex_fz (i : Str) : Fz (fun v => v.unsetIndex i) := by
  intro v h; simp [Var.unsetIndex, h]

theorem unsetIndex_keeps (e : Env) (n i : Str) : KeepsL e.scopes (e.unsetIndex n i).1.scopes := by
  unfold Env.unsetIndex
  refine ite_keeps _ _ _ _ (unset_keeps e n) ?_
  exact match_modify_keeps e n _ _ (unsetIndex_fz i) _ (fun _ => KeepsL.refl _)

theorem updateOrAddElem_keeps (e : Env) (n i s : Str) (k : Kind) :
    KeepsL e.scopes (e.updateOrAddElem n i s .anywhere k).1.scopes := by
  unfold Env.updateOrAddElem
  refine match_modify_keeps e n _ _ (assignAtIndex_fz i s false) _ ?_
  intro hm
  have hu := modify_anywhere_none e n _ hm
  simp only []
  exact ite_keeps _ _ _ _ (add_keeps e n _ k hu) (KeepsL.refl _)

theorem applyPlainIdx_keeps (e : Env) (n : Str) (idx : Option Str) (lit : Lit) (ap ex : Bool) :
    KeepsL e.scopes (e.applyAssignment n idx lit ap ex none .global).1.scopes := by
  unfold Env.applyAssignment
  cases hg : e.get n with
  | none =>
    have hu : Unbound n e.scopes := getScopes_none n _ hg
    simp
    refine ite_keeps _ _ _ _ (KeepsL.refl _) ?_
    cases idx <;> cases lit <;> first | exact add_keeps e n _ _ hu | exact KeepsL.refl _
  | some p =>
    simp
    refine match_modify_keeps e n _ _ ?_ _ (fun _ => KeepsL.refl _)
    intro v h
    cases idx <;> cases lit <;> simp [Var.assign, Var.assignAtIndex, h]

theorem mset_same (m : VMap) (n : Str) (v : Var) (h : mget m n = some v) : mset m n v = m := by
  induction m with
  | nil => simp [mget] at h
  | cons hd tl ih =>
    obtain ⟨a, b⟩ := hd
    simp only [mget] at h
    simp only [mset]
    split at h
    · next h1 => cases h; subst h1; simp
    · next h1 => simp [h1, ih h]

/-- an update that refuses (returns the variable untouched) leaves the whole stack untouched -/
theorem modPol_refused (n : Str) (f : Var → R) (k : Kind) (v : Var) (hf : f v = (v, false)) :
    ∀ (s : List Scope) (lc : Nat), getScopes n s = some (k, v) → modPol n .anywhere f lc s = some (s, false) := by
  intro s
  induction s with
  | nil => intro lc h; simp [getScopes] at h
  | cons hd tl ih =>
    intro lc h
    obtain ⟨k', m⟩ := hd
    simp only [getScopes] at h
    cases hm : mget m n with
    | some v' =>
      simp only [hm] at h
      cases h
      simp [modPol, eligible, hm, hf, mset_same m n v hm]
    | none =>
      simp only [hm] at h
      simp [modPol, eligible, hm, ih _ h]


/-! ## the command scope a builtin runs in is transparent (context sweep) -/

/-- the result of an operation run under one more (empty) command scope -/
def lift (r : Env × Bool) : Env × Bool := ({ scopes := (.command, []) :: r.1.scopes }, r.2)

theorem get_push (e : Env) (k : Kind) (n : Str) : (e.push k).get n = e.get n := by
  simp [Env.get, Env.push, getScopes, mget]

theorem modify_push_command (e : Env) (n : Str) (pol : Policy) (f : Var → R) :
    (e.push .command).modify n pol f = (e.modify n pol f).map lift := by
  simp only [Env.modify, Env.push, modPol, eligible, bump, mget]
  cases pol <;> cases h : modPol n _ f 0 e.scopes <;> simp [h, lift]

theorem add_push_command (e : Env) (n : Str) (v : Var) (k : Kind) (hk : k ≠ .command) :
    (e.push .command).add n v k = lift (e.add n v k) := by
  have : ¬ (Kind.command = k) := fun h => hk h.symm
  simp only [Env.add, Env.push, addScopes, this, if_false]
  cases h : addScopes n v k e.scopes <;> simp [h, lift]

theorem unset_push_command (e : Env) (n : Str) : (e.push .command).unset n = lift (e.unset n) := by
  simp only [Env.unset, Env.push, unsetScopes, bump, mget]
  cases h : unsetScopes n 0 e.scopes
  simp [h, lift]

theorem lift_id (e : Env) (b : Bool) : (e.push .command, b) = lift (e, b) := rfl

theorem isScalar_push (e : Env) (k : Kind) (n : Str) : (e.push k).isScalar n = e.isScalar n := by
  simp [Env.isScalar, get_push]

theorem hidesReadonly_push (e : Env) (k : Kind) (n : Str) : (e.push k).hidesReadonly n = e.hidesReadonly n := by
  simp [Env.hidesReadonly, get_push]

theorem updateOrAdd_push (e : Env) (n : Str) (lit : Lit) (u : Updater) (pol : Policy) (k : Kind) (hk : k ≠ .command) :
    (e.push .command).updateOrAdd n lit u pol k = lift (e.updateOrAdd n lit u pol k) := by
  simp only [Env.updateOrAdd, modify_push_command]
  cases h : e.modify n pol _ with
  | some r => simp
  | none =>
    simp only [Option.map_none]
    split
    · exact add_push_command e n _ k hk
    · rfl

theorem updateOrAddElem_push (e : Env) (n i v : Str) (pol : Policy) (k : Kind) (hk : k ≠ .command) :
    (e.push .command).updateOrAddElem n i v pol k = lift (e.updateOrAddElem n i v pol k) := by
  simp only [Env.updateOrAddElem, modify_push_command]
  cases h : e.modify n pol _ with
  | some r => simp
  | none =>
    simp only [Option.map_none]
    split
    · exact add_push_command e n _ k hk
    · rfl

theorem unsetIndex_push (e : Env) (n i : Str) : (e.push .command).unsetIndex n i = lift (e.unsetIndex n i) := by
  simp only [Env.unsetIndex, isScalar_push, modify_push_command, unset_push_command]
  split
  · rfl
  · cases h : e.modify n .anywhere _ with
    | some r => simp
    | none => simp; rfl

theorem exportName_push (e : Env) (n : Str) (un : Bool) : (e.push .command).exportName n un = lift (e.exportName n un) := by
  simp only [Env.exportName, modify_push_command]
  cases h : e.modify n .anywhere _ with
  | some r => simp
  | none =>
    simp only [Option.map_none]
    split
    · rfl
    · exact add_push_command e n _ _ (by simp)

theorem exportAssign_push (e : Env) (n : Str) (lit : Lit) (ap un : Bool) :
    (e.push .command).exportAssign n lit ap un = lift (e.exportAssign n lit ap un) := by
  simp only [Env.exportAssign, get_push, modify_push_command]
  split
  · cases h : e.modify n .anywhere _ with
    | some r => simp
    | none => simp; rfl
  · exact updateOrAdd_push e n lit _ _ _ (by simp)

theorem assignDefault_push (e : Env) (n v : Str) : (e.push .command).assignDefault n v = lift (e.assignDefault n v) := by
  simp only [Env.assignDefault, get_push]
  split
  · rfl
  · exact updateOrAdd_push e n _ _ _ _ (by simp)

theorem match_lift (o : Option (Env × Bool)) (d : Env × Bool) :
    (match o.map lift with | some r => r | none => lift d) = lift (match o with | some r => r | none => d) := by
  cases o <;> rfl

theorem ite_lift (c : Prop) [Decidable c] (a b : Env × Bool) : (if c then lift a else lift b) = lift (if c then a else b) := by
  split <;> rfl

theorem applyPlain_push (e : Env) (n : Str) (idx : Option Str) (lit : Lit) (ap ex : Bool) :
    (e.push .command).applyAssignment n idx lit ap ex none .global = lift (e.applyAssignment n idx lit ap ex none .global) := by
  have hg : Kind.global ≠ Kind.command := by simp
  simp only [Env.applyAssignment, Option.isSome_none, Bool.false_eq_true, if_false, get_push, hidesReadonly_push,
    modify_push_command, add_push_command _ _ _ _ hg, lift_id]
  cases idx <;> cases lit <;> simp only [match_lift, ite_lift] <;> (split <;> first | exact match_lift _ _ | rfl)

theorem declare_push (e : Env) (n : Str) (fl : DeclFlags) (verb : Verb) (lit : Option Lit) (ai na inf : Bool) :
    (e.push .command).declare n fl verb lit ai na inf = lift (e.declare n fl verb lit ai na inf) := by
  have hk : ∀ c : Bool, (if c = true then Kind.loc else Kind.global) ≠ Kind.command := by intro c; split <;> simp
  simp only [Env.declare, get_push, modify_push_command, lift_id, add_push_command _ _ _ _ (hk _), ite_lift]
  exact match_lift _ _


end BrushVerif.Env
