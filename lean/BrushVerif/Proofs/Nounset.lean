import BrushVerif.Model.Nounset
import BrushVerif.Spec.Nounset
/-! Lemmas for the nounset decision (C03): brush's expander (`Model/Nounset.lean`) against the
bash reference (`Spec/Nounset.lean`), parameter by parameter. -/
namespace BrushVerif.NounsetProofs
open BrushVerif.Wire BrushVerif.Nounset BrushVerif.NounsetSpec
open BrushVerif.ParamOps (Expansion classify ofStr undefinedExp TestOp testAction PState Action)

theorem classify_ofStr (s : Str) : classify (ofStr s) = textState (some s) := by
  cases s <;> simp [classify, ofStr, textState]

theorem classify_undefined : classify undefinedExp = .undefined := by
  simp [classify, undefinedExp]

theorem classify_list (xs : List Str) (star : Bool) : classify (listExpansion xs star) = listState xs := by
  match xs with
  | [] => simp [classify, listExpansion, listState]
  | [x] => cases x <;> simp [classify, listExpansion, listState]
  | x :: y :: r => simp [classify, listExpansion, listState]

theorem fieldsToString_ofStr (s : Str) : fieldsToString (ofStr s) = s := by
  simp [fieldsToString, ofStr, joinWith]

/-- the subscript: brush's `expand_array_index` against the reference -/
theorem expandIndex_eq (ps : Parsers) (e : Env) (n : Str) (i : Index) :
    (∃ iv, expandIndex ps e i (isAssoc (e.vars n)) = .ok iv ∧ subscript ps e n i = (.ok, iv)) ∨
    (∃ er, expandIndex ps e i (isAssoc (e.vars n)) = .error er ∧
      (subscript ps e n i).1 = decide? (.error er : Except Err Unit) ∧ (subscript ps e n i).1 ≠ .ok) := by
  cases i with
  | num k => cases h : isAssoc (e.vars n) <;> simp [expandIndex, subscript, h]
  | name k =>
    cases h : isAssoc (e.vars n)
    · simp only [expandIndex, subscript, h]
      cases h2 : (evalA ps.arith ps.fuel 0 e (.var k)).1 with
      | ok v => simp
      | error er => cases er <;> simp [decide?, Err.fatal]
    · simp [expandIndex, subscript, h]

theorem isAssoc_match (v : Option Value) : isAssocVar v = isAssoc v := by
  cases v with
  | none => rfl
  | some v => cases v with
    | unset k => cases k <;> rfl
    | _ => rfl

/-- with `allow_unset_vars` the parameter always expands (unless its subscript fails); its class is
the reference's state -/
theorem expandParam_allow (ps : Parsers) (e : Env) (p : Parameter) :
    (∃ x, expandParam ps e p true = .ok x ∧ paramState ps e p = (.ok, classify x)) ∨
    (∃ er, expandParam ps e p true = .error er ∧
      (paramState ps e p).1 = decide? (.error er : Except Err Unit) ∧ (paramState ps e p).1 ≠ .ok) := by
  cases p with
  | positional n =>
    cases n with
    | zero => left; exact ⟨_, rfl, by simp [paramState, classify, ofStr]⟩
    | succ n =>
      left
      cases h : e.args[n]? with
      | none => exact ⟨undefinedExp, by simp [expandParam, h, undefinedExpansion], by simp [paramState, h, classify_undefined, textState]⟩
      | some a => exact ⟨ofStr a, by simp [expandParam, h], by simp [paramState, h, classify_ofStr]⟩
  | special s =>
    left
    cases s with
    | allPos star => exact ⟨_, rfl, by simp [paramState, classify_list]⟩
    | _ => exact ⟨_, rfl, by simp [paramState, classify, ofStr]⟩
  | named n =>
    left
    cases h : e.vars n with
    | none => exact ⟨undefinedExp, by simp [expandParam, h, undefinedExpansion], by simp [paramState, h, classify_undefined, textState]⟩
    | some v =>
      cases h2 : v.scalar? with
      | none => exact ⟨undefinedExp, by simp [expandParam, h, h2, undefinedExpansion], by simp [paramState, h, h2, classify_undefined, textState]⟩
      | some s => exact ⟨ofStr s, by simp [expandParam, h, h2], by simp [paramState, h, h2, classify_ofStr]⟩
  | namedIdx n i =>
    rcases expandIndex_eq ps e n i with ⟨iv, h1, h2⟩ | ⟨er, h1, h2, h3⟩
    · left
      cases h : (e.vars n).bind (fun v => v.getAt iv) with
      | none =>
        refine ⟨undefinedExp, by simp [expandParam, isAssoc_match, h1, h, undefinedExpansion], ?_⟩
        have : element (e.vars n) iv = none := by
          cases hv : e.vars n <;> simp [element, hv] at h ⊢; exact h
        simp [paramState, h2, this, classify_undefined, textState]
      | some s =>
        refine ⟨ofStr s, by simp [expandParam, isAssoc_match, h1, h], ?_⟩
        have : element (e.vars n) iv = some s := by
          cases hv : e.vars n <;> simp [element, hv] at h ⊢; exact h
        simp [paramState, h2, this, classify_ofStr]
    · right
      refine ⟨er, by simp [expandParam, isAssoc_match, h1], ?_, ?_⟩
      · revert h2 h3; cases hs : subscript ps e n i with
        | mk d iv => cases d <;> simp [paramState, hs]
      · revert h2 h3; cases hs : subscript ps e n i with
        | mk d iv => cases d <;> simp [paramState, hs]
  | namedAll n star =>
    left
    cases h : e.vars n with
    | none => exact ⟨_, by simp [expandParam, h]; rfl, by simp [paramState, h, classify_list]⟩
    | some v => exact ⟨_, by simp [expandParam, h]; rfl, by simp [paramState, h, classify_list]⟩

/-- without `allow_unset_vars`, under `set -u`: rules R1–R3, and the text a reference would hold -/
theorem expandParam_strict (ps : Parsers) (e : Env) (hu : e.nounset = true) (p : Parameter) :
    (∃ x, expandParam ps e p false = .ok x ∧ useValue ps e p = .ok ∧ fieldsToString x = paramText ps e p) ∨
    (∃ er, expandParam ps e p false = .error er ∧
      useValue ps e p = decide? (.error er : Except Err Unit) ∧ useValue ps e p ≠ .ok) := by
  cases p with
  | positional n =>
    cases n with
    | zero => left; exact ⟨_, rfl, by simp [useValue, paramState, isList], by simp [paramText, fieldsToString_ofStr]⟩
    | succ n =>
      cases h : e.args[n]? with
      | none =>
        right
        exact ⟨.unsetVar, by simp [expandParam, h, undefinedExpansion, hu],
          by simp [useValue, paramState, h, textState, isList, unbound, hu, decide?, Err.fatal],
          by simp [useValue, paramState, h, textState, isList, unbound, hu]⟩
      | some a =>
        left
        refine ⟨ofStr a, by simp [expandParam, h], ?_, by simp [paramText, h, fieldsToString_ofStr]⟩
        cases a <;> simp [useValue, paramState, h, textState, isList]
  | special s =>
    left
    cases s with
    | allPos star => exact ⟨_, rfl, by simp [useValue, paramState, isList], by simp [paramText, fieldsToString, listExpansion]⟩
    | _ => exact ⟨_, rfl, by simp [useValue, paramState, isList], by simp [paramText, fieldsToString_ofStr]⟩
  | named n =>
    cases h : e.vars n with
    | none =>
      right
      exact ⟨.unsetVar, by simp [expandParam, h, undefinedExpansion, hu],
        by simp [useValue, paramState, h, textState, isList, unbound, hu, decide?, Err.fatal],
        by simp [useValue, paramState, h, textState, isList, unbound, hu]⟩
    | some v =>
      cases h2 : v.scalar? with
      | none =>
        right
        exact ⟨.unsetVar, by simp [expandParam, h, h2, undefinedExpansion, hu],
          by simp [useValue, paramState, h, h2, textState, isList, unbound, hu, decide?, Err.fatal],
          by simp [useValue, paramState, h, h2, textState, isList, unbound, hu]⟩
      | some s =>
        left
        refine ⟨ofStr s, by simp [expandParam, h, h2], ?_, by simp [paramText, h, h2, fieldsToString_ofStr]⟩
        cases s <;> simp [useValue, paramState, h, h2, textState, isList]
  | namedIdx n i =>
    rcases expandIndex_eq ps e n i with ⟨iv, h1, h2⟩ | ⟨er, h1, h2, h3⟩
    · cases h : (e.vars n).bind (fun v => v.getAt iv) with
      | none =>
        right
        have : element (e.vars n) iv = none := by
          cases hv : e.vars n <;> simp [element, hv] at h ⊢; exact h
        exact ⟨.unsetVar, by simp [expandParam, isAssoc_match, h1, h, undefinedExpansion, hu],
          by simp [useValue, paramState, h2, this, textState, isList, unbound, hu, decide?, Err.fatal],
          by simp [useValue, paramState, h2, this, textState, isList, unbound, hu]⟩
      | some s =>
        left
        have : element (e.vars n) iv = some s := by
          cases hv : e.vars n <;> simp [element, hv] at h ⊢; exact h
        refine ⟨ofStr s, by simp [expandParam, isAssoc_match, h1, h], ?_, by simp [paramText, h2, this, fieldsToString_ofStr]⟩
        cases s <;> simp [useValue, paramState, h2, this, textState, isList]
    · right
      refine ⟨er, by simp [expandParam, isAssoc_match, h1], ?_, ?_⟩
      · revert h2 h3; cases hs : subscript ps e n i with
        | mk d iv => cases d <;> simp [useValue, paramState, hs]
      · revert h2 h3; cases hs : subscript ps e n i with
        | mk d iv => cases d <;> simp [useValue, paramState, hs]
  | namedAll n star =>
    left
    cases h : e.vars n with
    | none => exact ⟨_, by simp [expandParam, h]; rfl, by simp [useValue, paramState, isList], by simp [paramText, h, fieldsToString, listExpansion]⟩
    | some v => exact ⟨_, by simp [expandParam, h]; rfl, by simp [useValue, paramState, isList], by simp [paramText, h, fieldsToString, listExpansion]⟩

theorem arith_eq {α : Type} (ps : Parsers) (e : Env) (a : AExpr) (f : Int → α) :
    decide? ((evalA ps.arith ps.fuel 0 e a).1.map f) = arithDecision ps e a := by
  unfold arithDecision
  cases (evalA ps.arith ps.fuel 0 e a).1 with
  | ok v => rfl
  | error er => cases er <;> rfl

theorem arith_eq' (ps : Parsers) (e : Env) (a : AExpr) :
    decide? (evalA ps.arith ps.fuel 0 e a).1 = arithDecision ps e a := by
  unfold arithDecision
  cases (evalA ps.arith ps.fuel 0 e a).1 with
  | ok v => rfl
  | error er => cases er <;> rfl

theorem word_eq (ps : Parsers) (e : Env) (hu : e.nounset = true) (w : Word) :
    decide? (expandWord ps e w) = wordDecision ps e w := by
  cases w with
  | lit s => rfl
  | ref p =>
    rcases expandParam_strict ps e hu p with ⟨x, h1, h2, _⟩ | ⟨er, h1, h2, _⟩
    · simp [expandWord, wordDecision, h1, h2, decide?, Except.map]
    · simp [expandWord, wordDecision, h1, h2, Except.map]

theorem paramState_idx_fst (ps : Parsers) (e : Env) (n : Str) (i : Index) :
    (paramState ps e (.namedIdx n i)).1 = (subscript ps e n i).1 := by
  cases hs : subscript ps e n i with
  | mk d iv => cases d <;> simp [paramState, hs]

/-! ## the guard of the refinement: the recorded deviations -/

/-- clause `nounset_indirect_of_unset_is_fatal`: `${!ref…}` using the value, `ref` not existing -/
def indirectOfMissingRef (e : Env) : Expr → Bool
  | .value _ (.named n) true => (e.vars n).isNone
  | _ => false

/-- `${!ref…}` where the reference is not a variable or a positional parameter (`${!@}` differs:
clause `nounset_indirect_of_list_not_fatal`; the others are not established from bash) -/
def indirectOfOther : Expr → Bool
  | .value _ (.named _) true => false
  | .value _ (.positional _) true => false
  | .value _ _ true => true
  | _ => false

/-- clauses `nounset_array_length_tolerated` / `nounset_element_length_of_unset_is_fatal`:
`${#a[i]}`, `${#a[@]}` where `a` is not an array with a value -/
def lengthOfNonArray (e : Env) : Expr → Bool
  | .length (.namedIdx n _) => !isSetArray (e.vars n)
  | .length (.namedAll n _) => !isSetArray (e.vars n)
  | _ => false

/-- clause `nounset_assign_default_to_declared_assoc_list`: `${A[@]=w}`, `A` declared `-A` without a value -/
def assignToDeclaredAssocList (e : Env) : Expr → Bool
  | .test .assignDefault _ (.namedAll n _) _ => e.vars n = some (.unset .assoc)
  | _ => false

/-- clause `nounset_substring_length_always_evaluated`: bash does not evaluate the length when the
offset is out of range; the reference evaluates it always, so the forms where that can matter
(a length that is not a literal, after an offset other than the literal 0) are left out -/
def substringLengthMaySkip : Expr → Bool
  | .value (.substring off (some l)) _ _ =>
    !(off = .lit 0 || (match l with | .lit _ => true | _ => false))
  | _ => false

def exprInGuard (e : Env) (x : Expr) : Bool :=
  !indirectOfMissingRef e x && !indirectOfOther x && !lengthOfNonArray e x &&
  !assignToDeclaredAssocList e x && !substringLengthMaySkip x

theorem andThen_ok (k : Decision) : andThen .ok k = k := rfl
theorem andThen_of_ne {d : Decision} (h : d ≠ .ok) (k : Decision) : andThen d k = d := by
  cases d <;> simp [andThen] at h ⊢

theorem valueOp_eq (ps : Parsers) (e : Env) (op : ValueOp) :
    decide? (match op with
      | .substring off len =>
        match evalA ps.arith ps.fuel 0 e off with
        | (.error er, _) => (.error er : Except Err Unit)
        | (.ok _, e1) =>
          match len with
          | none => .ok ()
          | some l => (evalA ps.arith ps.fuel 0 e1 l).1.map (fun _ => ())
      | _ => .ok ()) =
    (match op with
       | .substring off len =>
         andThen (arithDecision ps e off)
           (match len with
            | none => .ok
            | some l => arithDecision ps (evalA ps.arith ps.fuel 0 e off).2 l)
       | _ => .ok) := by
  cases op with
  | substring off len =>
    simp only []
    unfold arithDecision
    cases h : evalA ps.arith ps.fuel 0 e off with
    | mk r e1 =>
      cases r with
      | error er => cases er <;> simp [andThen, decide?, Err.fatal]
      | ok v =>
        cases len with
        | none => simp [andThen, decide?]
        | some l =>
          simp only [andThen]
          cases (evalA ps.arith ps.fuel 0 e1 l).1 with
          | ok v => rfl
          | error er => cases er <;> rfl
  | _ => rfl

theorem testAction_table (op : TestOp) (colon : Bool) (st : PState) :
    testAction op colon st =
      (let missing := (st = .undefined || (colon && st = .definedEmpty) : Bool)
       match op with
       | .useDefault => if missing then .word else .param
       | .useAlternative => if missing then .null else .word
       | .errorIfUnset => if missing then .error else .param
       | .assignDefault => if missing then .assign else .param) := by
  cases op <;> cases colon <;> cases st <;> rfl

/-- one expansion: brush's decision is bash's, inside the guard -/
theorem expr_eq (ps : Parsers) (e : Env) (hu : e.nounset = true) (x : Expr) (hg : exprInGuard e x = true) :
    decide? (expandExpr ps e x) = bashExpr ps e x := by
  cases x with
  | value op p indirect =>
    simp only [expandExpr, bashExpr]
    cases indirect with
    | false =>
      simp only [expandParamInd, Bool.not_false, if_true, Bool.false_eq_true, if_false]
      rcases expandParam_strict ps e hu p with ⟨x, h1, h2, _⟩ | ⟨er, h1, h2, h3⟩
      · simp only [h1, h2, andThen_ok]; exact valueOp_eq ps e op
      · simp only [h1, andThen_of_ne h3]; exact h2.symm
    | true =>
      simp only [expandParamInd, Bool.not_true, Bool.false_eq_true, if_false, if_true]
      have spec : useIndirect ps e p = andThen (useValue ps e p) (match ps.param (paramText ps e p) with
            | none => .fail
            | some t => useValue ps e t) := by
        cases p with
        | named n =>
          have : (e.vars n).isNone = false := by
            simp [exprInGuard, indirectOfMissingRef] at hg; simpa using hg.1.1.1.1
          simp only [useIndirect, this, Bool.false_eq_true, if_false]
          cases ps.param (paramText ps e (Parameter.named n)) <;> rfl
        | _ => rfl
      rw [spec]
      rcases expandParam_strict ps e hu p with ⟨x, h1, h2, h3⟩ | ⟨er, h1, h2, h3⟩
      · simp only [h1, h2, andThen_ok, h3]
        cases ps.param (paramText ps e p) with
        | none => simp [decide?, Err.fatal, andThen]
        | some t =>
          rcases expandParam_strict ps e hu t with ⟨y, g1, g2, _⟩ | ⟨er, g1, g2, g3⟩
          · simp only [g1, g2, andThen_ok]; exact valueOp_eq ps e op
          · simp only [g1, andThen_of_ne g3]; exact g2.symm
      · simp only [h1, andThen_of_ne h3]; exact h2.symm
  | test op colon p w =>
    simp only [expandExpr, bashExpr, expandParamInd, Bool.not_false, if_true]
    rcases expandParam_allow ps e p with ⟨x, h1, h2⟩ | ⟨er, h1, h2, h3⟩
    · simp only [h1, h2, testAction_table]
      have hw := word_eq ps e hu w
      cases op <;> cases hm : (classify x = .undefined || (colon && classify x = .definedEmpty) : Bool) <;>
        simp only [if_true, if_false, Bool.false_eq_true] <;> try rfl
      · exact hw
      · rw [← hw]; cases expandWord ps e w with
        | error er => cases er <;> rfl
        | ok u =>
          have hn : assignToDeclaredAssocList e (.test .assignDefault colon p w) = false := by
            simp [exprInGuard] at hg; exact hg.1.2
          cases p <;> simp [Parameter.assignable, canAssign, andThen, decide?, Err.fatal]
          simpa [assignToDeclaredAssocList] using hn
      · rw [← hw]; cases expandWord ps e w with
        | error er => cases er <;> rfl
        | ok u => rfl
      · exact hw
    · simp only [h1]
      cases hs : paramState ps e p with
      | mk d st =>
        rw [hs] at h2 h3
        cases d with
        | ok => exact absurd rfl h3
        | fail => simp at h2 ⊢; exact h2.symm
        | abort => simp at h2 ⊢; exact h2.symm
  | length p =>
    cases p with
    | namedIdx n i =>
      have hset : isSetArray (e.vars n) = true := by
        simp [exprInGuard, lengthOfNonArray] at hg; exact hg.1.1.2
      have hsome : (e.vars n).isSome = true := by
        cases hv : e.vars n <;> simp [isSetArray, hv] at hset ⊢
      simp only [expandExpr, bashExpr, hset, if_true, hsome, expandParamInd, Bool.not_false]
      rcases expandParam_allow ps e (.namedIdx n i) with ⟨x, h1, h2⟩ | ⟨er, h1, h2, h3⟩
      · rw [h1, ← paramState_idx_fst, h2]; rfl
      · rw [h1, ← paramState_idx_fst, h2]; rfl
    | namedAll n star =>
      have hset : isSetArray (e.vars n) = true := by
        simp [exprInGuard, lengthOfNonArray] at hg; exact hg.1.1.2
      simp only [expandExpr, bashExpr, hset, expandParamInd, Bool.not_false, if_true, Bool.true_or]
      cases hv : e.vars n <;> simp [expandParam, hv, decide?, Except.map]
    | positional k =>
      simp only [expandExpr, bashExpr, expandParamInd, Bool.not_false, if_true]
      rcases expandParam_strict ps e hu (.positional k) with ⟨x, h1, h2, _⟩ | ⟨er, h1, h2, h3⟩
      · rw [h1, h2]; rfl
      · rw [h1, h2]; rfl
    | special s =>
      simp only [expandExpr, bashExpr, expandParamInd, Bool.not_false, if_true]
      rcases expandParam_strict ps e hu (.special s) with ⟨x, h1, h2, _⟩ | ⟨er, h1, h2, h3⟩
      · rw [h1, h2]; rfl
      · rw [h1, h2]; rfl
    | named n =>
      simp only [expandExpr, bashExpr, expandParamInd, Bool.not_false, if_true]
      rcases expandParam_strict ps e hu (.named n) with ⟨x, h1, h2, _⟩ | ⟨er, h1, h2, h3⟩
      · rw [h1, h2]; rfl
      · rw [h1, h2]; rfl
  | names pre => rfl
  | keys n => rfl
  | arith a => exact arith_eq ps e a _
