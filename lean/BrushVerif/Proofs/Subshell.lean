import BrushVerif.Model.Subshell
/-! Helper lemmas for C12 (`Props/C12.lean`). -/
namespace BrushVerif.Subshell
open BrushVerif.Wire

/-- The generated clone table shares none of the model's components. -/
theorem shared_false (c : Comp) : shared c = false := by cases c <;> decide

theorem leak_id (child parent : ShellPart) : leakWith shared child parent = parent := by
  simp [leakWith, shared_false]

/-! ### world -/

theorem stepWorld_id (m : Mut) (w : World) (h : m.touchesWorld = false) : stepWorld m w = w := by
  cases m <;> simp_all [stepWorld, Mut.touchesWorld]

theorem runStep_world (root : List Str) (r : Run) (m : Mut) (h : m.touchesWorld = false) :
    (runStep root r m).world = r.world := by
  unfold runStep
  split
  · rfl
  · split
    · rfl
    · simp [stepWorld_id m _ h]

theorem runMuts_world (root : List Str) (ms : List Mut) : ∀ (r : Run), (∀ m ∈ ms, m.touchesWorld = false) →
    (runMuts root ms r).world = r.world := by
  induction ms with
  | nil => intro r _; rfl
  | cons m ms ih =>
    intro r h
    have := ih (runStep root r m) (fun x hx => h x (by simp [hx]))
    simp only [runMuts, List.foldl_cons] at this ⊢
    rw [this, runStep_world root r m (h m (by simp))]

theorem runStages_shell (root : List Str) (ms : List Mut) : ∀ (p : ShellPart) (w : World),
    (runStages shared fresh root ms p w).1 = p := by
  induction ms with
  | nil => intro p w; rfl
  | cons m ms ih => intro p w; simp only [runStages, leak_id]; exact ih p _

theorem runStages_world (root : List Str) (ms : List Mut) : ∀ (p : ShellPart) (w : World),
    (∀ m ∈ ms, m.touchesWorld = false) → (runStages shared fresh root ms p w).2 = w := by
  induction ms with
  | nil => intro p w _; rfl
  | cons m ms ih =>
    intro p w h
    simp only [runStages, leak_id]
    rw [ih p _ (fun x hx => h x (by simp [hx]))]
    exact runMuts_world root [m] _ (fun x hx => by simp at hx; subst hx; exact h x (by simp))

/-! ### exec -/

theorem splitLast_append {α : Type} (init : List α) (l : α) : splitLast (init ++ [l]) = some (init, l) := by
  induction init with
  | nil => rfl
  | cons x r ih =>
    cases r with
    | nil => rfl
    | cons y r' => simp only [List.cons_append] at ih ⊢; simp [splitLast, ih]

theorem splitLast_eq {α : Type} (ms : List α) : ∀ (init : List α) (l : α), splitLast ms = some (init, l) → ms = init ++ [l] := by
  induction ms with
  | nil => intro init l h; simp [splitLast] at h
  | cons x r ih =>
    intro init l h
    cases r with
    | nil => simp [splitLast] at h; obtain ⟨rfl, rfl⟩ := h; rfl
    | cons y r' =>
      simp only [splitLast, Option.map_eq_some_iff] at h
      obtain ⟨q, hq, hq'⟩ := h
      have := ih q.1 q.2 (by simpa using hq)
      cases hq'
      simp [this]

theorem exec_shell (root : List Str) (c : Ctx) (ms : List Mut) (p : ShellPart) (w : World) :
    (exec root c ms p w).shell = parentOwn root c ms p w := by
  cases c
  case pl =>
    simp only [exec, execWith, parentOwn, prepare]
    cases hs : splitLast ms with
    | none => rfl
    | some q =>
      obtain ⟨init, l⟩ := q
      simp only [runStages_shell]
      split <;> simp [leak_id]
  case bgw s f => simp [exec, execWith, parentOwn, prepare, leak_id]; rfl
  all_goals simp [exec, execWith, parentOwn, leak_id, runStages_shell]

theorem exec_world (root : List Str) (c : Ctx) (ms : List Mut) (p : ShellPart) (w : World)
    (h : ∀ m ∈ ms, m.touchesWorld = false) : (exec root c ms p w).world = w := by
  cases c
  case pl =>
    simp only [exec, execWith, prepare]
    cases hs : splitLast ms with
    | none => rfl
    | some q =>
      obtain ⟨init, l⟩ := q
      have hm := splitLast_eq ms init l hs
      have hi : ∀ m ∈ init, m.touchesWorld = false := fun m hmem => h m (by simp [hm, hmem])
      have hl : l.touchesWorld = false := h l (by simp [hm])
      simp only [runStages_world root init _ _ hi]
      split
      · simp [stepWorld_id l w hl]
      · exact runMuts_world root [l] _ (fun x hx => by simp at hx; subst hx; exact hl)
  case bgw s f => simp [exec, execWith, bgwRun, runMuts_world root ms _ h]
  all_goals simp [exec, execWith, childRun, runMuts_world root ms _ h, runStages_world root ms _ _ h]

theorem waitResult_flow (s : Sync) (jobs : List JobResult) : (waitResult s jobs).flow = Flow.normal := by
  cases s <;> rfl

/-- no subshell context abandons the parent's line; a stage that ends in a Rust `Err` fails alone -/
theorem exec_aborted (root : List Str) (c : Ctx) (ms : List Mut) (p : ShellPart) (w : World)
    (hc : c.parentActs = false) : (exec root c ms p w).aborted = false := by
  cases c
  case bgw s f => cases f <;> simp_all [exec, execWith, bgwWait, waitResult_flow, ownErrexit, Ctx.parentActs]
  all_goals simp_all [exec, execWith, Ctx.parentActs]

/-- in `m1 | … | { mk; }` the line is abandoned only by an `exit` that the parent itself runs -/
theorem pl_aborted (root : List Str) (init : List Mut) (l : Mut) (p : ShellPart) (w : World) :
    (exec root .pl (init ++ [l]) p w).aborted =
      ((lastpipeOn p || init.isEmpty) && ((stepShell root l p).exited || execReplaces l)) := by
  simp only [exec, execWith, prepare, splitLast_append, runStages_shell]
  split <;> simp_all

theorem exec_eq (root : List Str) (c : Ctx) (ms : List Mut) (p : ShellPart) (w : World)
    (hw : ∀ m ∈ ms, m.touchesWorld = false)
    (he : c.parentActs = true → (exec root c ms p w).aborted = false) :
    exec root c ms p w =
      { shell := parentOwn root c ms p w, world := w, status := (exec root c ms p w).status,
        out := (exec root c ms p w).out, aborted := false } := by
  have h1 := exec_shell root c ms p w
  have h2 := exec_world root c ms p w hw
  have h3 : (exec root c ms p w).aborted = false := by
    cases hc : c.parentActs with
    | true => exact he hc
    | false => exact exec_aborted root c ms p w hc
  cases hx : exec root c ms p w with
  | mk sh wo st ou ab =>
    rw [hx] at h1 h2 h3
    simp at h1 h2 h3
    simp [h1, h2, h3]

/-- a pipeline of builtin stages ending in `true`: nothing comes back but status 0 -/
theorem exec_stages (root : List Str) (ms : List Mut) (p : ShellPart) (w : World) :
    (exec root .stages ms p w).shell = p ∧ (exec root .stages ms p w).status = 0 ∧
    (exec root .stages ms p w).out = [] ∧ (exec root .stages ms p w).aborted = false := by
  simp [exec, execWith, prepare, runStages_shell]

/-- a background job collected by any `wait`: the parent gets the status `wait` computes and no
control-flow request; only its own `set -e` may then stop it (errexit left on), otherwise its value
is untouched and it goes on -/
theorem exec_bgw (root : List Str) (s : Sync) (f : Frame) (ms : List Mut) (p : ShellPart) (w : World) :
    (exec root (.bgw s f) ms p w).status = (bgwWait fresh root s f ms p w).status ∧
    (exec root (.bgw s f) ms p w).aborted = ownErrexit f (bgwWait fresh root s f ms p w) ∧
    (exec root (.bgw s f) ms p w).shell =
      (if ownErrexit f (bgwWait fresh root s f ms p w) then frameShell root f p else p) := by
  simp [exec, execWith, prepare, leak_id, bgwWait, waitResult_flow]; rfl

theorem ownErrexit_other (f : Frame) (wr : JobResult) (hf : f ≠ .errexit) : ownErrexit f wr = false := by
  cases f <;> simp_all [ownErrexit]

/-! ### pipelines whose last command is a mutator -/

theorem pl_lastpipe (root : List Str) (init : List Mut) (l : Mut) (p : ShellPart) (w : World)
    (h : lastpipeOn p = true) :
    (exec root .pl (init ++ [l]) p w).shell = (stepShell root l p).sh ∧
    (exec root .pl (init ++ [l]) p w).status = (stepShell root l p).status ∧
    (exec root .pl (init ++ [l]) p w).out = (stepShell root l p).out := by
  simp [exec, execWith, prepare, splitLast_append, h, runStages_shell]

theorem pl_nolastpipe (root : List Str) (init : List Mut) (l : Mut) (p : ShellPart) (w : World)
    (h : lastpipeOn p = false) (hi : init ≠ []) :
    (exec root .pl (init ++ [l]) p w).shell = p := by
  have : init.isEmpty = false := by cases init <;> simp_all
  simp [exec, execWith, prepare, splitLast_append, h, this, runStages_shell, leak_id]

theorem pl_init_irrelevant (root : List Str) (i₁ i₂ : List Mut) (l : Mut) (p : ShellPart) (w : World)
    (h : i₁.isEmpty = i₂.isEmpty) :
    (exec root .pl (i₁ ++ [l]) p w).shell = (exec root .pl (i₂ ++ [l]) p w).shell := by
  simp only [exec, execWith, prepare, splitLast_append, runStages_shell, h]
  split <;> simp [leak_id]

/-! ### schedules -/

theorem schedStep_inv (root : List Str) (x : Pair) (e : Side × Mut) (hx : x.chi.world = x.par.world)
    (hw : e.1 = Side.child → e.2.touchesWorld = false) :
    (schedStep shared root x e).chi.world = (schedStep shared root x e).par.world ∧
    (schedStep shared root x e).par = (if e.1 = Side.parent then runStep root x.par e.2 else x.par) := by
  obtain ⟨s, m⟩ := e
  cases s with
  | parent => simp [schedStep]
  | child =>
    have hm := hw rfl
    have hwd : (runStep root x.chi m).world = x.par.world := by rw [runStep_world root x.chi m hm, hx]
    simp only [schedStep, leak_id, hwd]
    exact ⟨trivial, by simp⟩

theorem sched_parent (root : List Str) (es : List (Side × Mut)) : ∀ (x : Pair), x.chi.world = x.par.world →
    (∀ e ∈ es, e.1 = Side.child → e.2.touchesWorld = false) →
    (runSched shared root es x).par = runMuts root (parentCmds es) x.par := by
  induction es with
  | nil => intro x _ _; rfl
  | cons e es ih =>
    intro x hx hw
    have hs := schedStep_inv root x e hx (hw e (by simp))
    have := ih (schedStep shared root x e) hs.1 (fun e' he' => hw e' (by simp [he']))
    simp only [runSched, List.foldl_cons] at this ⊢
    rw [this, hs.2]
    obtain ⟨s, m⟩ := e
    cases s <;> simp [parentCmds, runMuts]

/-! ### a shared component leaks -/

/-- a shell value with nothing in it -/
def bareShell (cwd : List Str) : ShellPart :=
  { vars := [], funcs := [], setopts := [], shopts := [], aliases := [], traps := [], cwd := cwd, args := [], fds := [0, 1, 2] }


theorem sharing_leaks (sh : Comp → Bool) (h : ∃ c, sh c = true) :
    ∃ (ms : List Mut) (p : ShellPart) (w : World),
      (execWith sh (fun _ => false) [] .paren ms p w).shell ≠ prepare .paren p := by
  obtain ⟨c, hc⟩ := h
  cases c with
  | env => exact ⟨[.assign ['v'] ['x']], bareShell [], ⟨0, 0⟩, by
      simp [execWith, childRun, runMuts, runStep, isReturn, stepShell, cloneWith, leakWith, prepare, bareShell, hc, aget, aset]⟩
  | funcs => exact ⟨[.defun ['f'] ['x']], bareShell [], ⟨0, 0⟩, by
      simp [execWith, childRun, runMuts, runStep, isReturn, stepShell, cloneWith, leakWith, prepare, bareShell, hc, aset]⟩
  | options => exact ⟨[.seto ['o'] true], bareShell [], ⟨0, 0⟩, by
      simp [execWith, childRun, runMuts, runStep, isReturn, stepShell, cloneWith, leakWith, prepare, bareShell, hc, aset]⟩
  | aliases => exact ⟨[.alias ['a'] ['x']], bareShell [], ⟨0, 0⟩, by
      simp [execWith, childRun, runMuts, runStep, isReturn, stepShell, cloneWith, leakWith, prepare, bareShell, hc, aset]⟩
  | traps => exact ⟨[.trap ['I'] ['x']], bareShell [], ⟨0, 0⟩, by
      simp [execWith, childRun, runMuts, runStep, isReturn, stepShell, cloneWith, leakWith, prepare, bareShell, hc, aset]⟩
  | workingDir => exact ⟨[.cd ['.', '.']], bareShell [['a']], ⟨0, 0⟩, by
      simp [execWith, childRun, runMuts, runStep, isReturn, stepShell, cloneWith, leakWith, prepare, bareShell, hc, cdTarget, dirExists]⟩
  | args => exact ⟨[.setargs [['x']]], bareShell [], ⟨0, 0⟩, by
      simp [execWith, childRun, runMuts, runStep, isReturn, stepShell, cloneWith, leakWith, prepare, bareShell, hc]⟩
  | openFiles => exact ⟨[.fdopen 7], bareShell [], ⟨0, 0⟩, by
      simp [execWith, childRun, runMuts, runStep, isReturn, stepShell, cloneWith, leakWith, prepare, bareShell, hc, insertSorted]⟩

end BrushVerif.Subshell
