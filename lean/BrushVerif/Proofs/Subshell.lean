import BrushVerif.Model.Subshell
/-! Helper lemmas for C12 (`Props/C12.lean`). -/
namespace BrushVerif.Subshell
open BrushVerif.Wire

/-- The generated clone table shares none of the model's components. -/
theorem shared_false (c : Comp) : shared c = false := by cases c <;> decide

theorem leak_id (child parent : ShellPart) : leakWith shared child parent = parent := by
  simp [leakWith, shared_false]

/-! ### world -/

theorem stepWorld_id (m : Mut) (w : World) (h : m.touchesWorld = false) : stepWorld m w = w := by
  cases m <;> simp_all [stepWorld, Mut.touchesWorld]

theorem runStep_world (root : List Str) (r : Run) (m : Mut) (h : m.touchesWorld = false) :
    (runStep root r m).world = r.world := by
  unfold runStep
  split
  · rfl
  · simp [stepWorld_id m _ h]

theorem runMuts_world (root : List Str) (ms : List Mut) : ∀ (r : Run), (∀ m ∈ ms, m.touchesWorld = false) →
    (runMuts root ms r).world = r.world := by
  induction ms with
  | nil => intro r _; rfl
  | cons m ms ih =>
    intro r h
    have := ih (runStep root r m) (fun x hx => h x (by simp [hx]))
    simp only [runMuts, List.foldl_cons] at this ⊢
    rw [this, runStep_world root r m (h m (by simp))]

theorem runStages_shell (root : List Str) (ms : List Mut) : ∀ (p : ShellPart) (w : World),
    (runStages shared fresh root ms p w).1 = p := by
  induction ms with
  | nil => intro p w; rfl
  | cons m ms ih => intro p w; simp only [runStages, leak_id]; exact ih p _

theorem runStages_world (root : List Str) (ms : List Mut) : ∀ (p : ShellPart) (w : World),
    (∀ m ∈ ms, m.touchesWorld = false) → (runStages shared fresh root ms p w).2 = w := by
  induction ms with
  | nil => intro p w _; rfl
  | cons m ms ih =>
    intro p w h
    simp only [runStages, leak_id]
    rw [ih p _ (fun x hx => h x (by simp [hx]))]
    exact runMuts_world root [m] _ (fun x hx => by simp at hx; subst hx; exact h x (by simp))

/-! ### exec -/

theorem exec_shell (root : List Str) (c : Ctx) (ms : List Mut) (p : ShellPart) (w : World) :
    (exec root c ms p w).shell = prepare c p := by
  cases c <;> simp [exec, execWith, leak_id, runStages_shell]

theorem exec_world (root : List Str) (c : Ctx) (ms : List Mut) (p : ShellPart) (w : World)
    (h : ∀ m ∈ ms, m.touchesWorld = false) : (exec root c ms p w).world = w := by
  cases c <;> simp [exec, execWith, childRun, runMuts_world root ms _ h, runStages_world root ms _ _ h]

theorem exec_aborted (root : List Str) (c : Ctx) (ms : List Mut) (p : ShellPart) (w : World)
    (he : c = .stages → stagesErr fresh root ms (prepare c p) = false) : (exec root c ms p w).aborted = false := by
  cases c <;> simp_all [exec, execWith]

theorem exec_eq (root : List Str) (c : Ctx) (ms : List Mut) (p : ShellPart) (w : World)
    (hw : ∀ m ∈ ms, m.touchesWorld = false)
    (he : c = .stages → stagesErr fresh root ms (prepare c p) = false) :
    exec root c ms p w =
      { shell := prepare c p, world := w, status := (exec root c ms p w).status,
        out := (exec root c ms p w).out, aborted := false } := by
  have h1 := exec_shell root c ms p w
  have h2 := exec_world root c ms p w hw
  have h3 := exec_aborted root c ms p w he
  cases hx : exec root c ms p w with
  | mk sh wo st ou ab =>
    rw [hx] at h1 h2 h3
    simp at h1 h2 h3
    simp [h1, h2, h3]

/-! ### schedules -/

theorem schedStep_inv (root : List Str) (x : Pair) (e : Side × Mut) (hx : x.chi.world = x.par.world)
    (hw : e.1 = Side.child → e.2.touchesWorld = false) :
    (schedStep shared root x e).chi.world = (schedStep shared root x e).par.world ∧
    (schedStep shared root x e).par = (if e.1 = Side.parent then runStep root x.par e.2 else x.par) := by
  obtain ⟨s, m⟩ := e
  cases s with
  | parent => simp [schedStep]
  | child =>
    have hm := hw rfl
    have hwd : (runStep root x.chi m).world = x.par.world := by rw [runStep_world root x.chi m hm, hx]
    simp only [schedStep, leak_id, hwd]
    exact ⟨trivial, by simp⟩

theorem sched_parent (root : List Str) (es : List (Side × Mut)) : ∀ (x : Pair), x.chi.world = x.par.world →
    (∀ e ∈ es, e.1 = Side.child → e.2.touchesWorld = false) →
    (runSched shared root es x).par = runMuts root (parentCmds es) x.par := by
  induction es with
  | nil => intro x _ _; rfl
  | cons e es ih =>
    intro x hx hw
    have hs := schedStep_inv root x e hx (hw e (by simp))
    have := ih (schedStep shared root x e) hs.1 (fun e' he' => hw e' (by simp [he']))
    simp only [runSched, List.foldl_cons] at this ⊢
    rw [this, hs.2]
    obtain ⟨s, m⟩ := e
    cases s <;> simp [parentCmds, runMuts]

/-! ### a shared component leaks -/

theorem sharing_leaks (sh : Comp → Bool) (h : ∃ c, sh c = true) :
    ∃ (ms : List Mut) (p : ShellPart) (w : World),
      (execWith sh (fun _ => false) [] .paren ms p w).shell ≠ prepare .paren p := by
  obtain ⟨c, hc⟩ := h
  cases c with
  | env => exact ⟨[.assign ['v'] ['x']], defaultShell [], ⟨0, 0⟩, by
      simp [execWith, childRun, runMuts, runStep, stepShell, cloneWith, leakWith, prepare, defaultShell, hc, aget, aset]⟩
  | funcs => exact ⟨[.defun ['f'] ['x']], defaultShell [], ⟨0, 0⟩, by
      simp [execWith, childRun, runMuts, runStep, stepShell, cloneWith, leakWith, prepare, defaultShell, hc, aset]⟩
  | options => exact ⟨[.seto ['o'] true], defaultShell [], ⟨0, 0⟩, by
      simp [execWith, childRun, runMuts, runStep, stepShell, cloneWith, leakWith, prepare, defaultShell, hc, aset]⟩
  | aliases => exact ⟨[.alias ['a'] ['x']], defaultShell [], ⟨0, 0⟩, by
      simp [execWith, childRun, runMuts, runStep, stepShell, cloneWith, leakWith, prepare, defaultShell, hc, aset]⟩
  | traps => exact ⟨[.trap ['I'] ['x']], defaultShell [], ⟨0, 0⟩, by
      simp [execWith, childRun, runMuts, runStep, stepShell, cloneWith, leakWith, prepare, defaultShell, hc, aset]⟩
  | workingDir => exact ⟨[.cd ['.', '.']], defaultShell [['a']], ⟨0, 0⟩, by
      simp [execWith, childRun, runMuts, runStep, stepShell, cloneWith, leakWith, prepare, defaultShell, hc, cdTarget, dirExists]⟩
  | args => exact ⟨[.setargs [['x']]], defaultShell [], ⟨0, 0⟩, by
      simp [execWith, childRun, runMuts, runStep, stepShell, cloneWith, leakWith, prepare, defaultShell, hc]⟩
  | openFiles => exact ⟨[.fdopen 7], defaultShell [], ⟨0, 0⟩, by
      simp [execWith, childRun, runMuts, runStep, stepShell, cloneWith, leakWith, prepare, defaultShell, hc, insertSorted]⟩

end BrushVerif.Subshell
