import BrushVerif.Model.Jobs
/-! Helper lemmas about the job-table model (C17). -/
namespace BrushVerif.Jobs

/-! ## waiting -/

/-- what a returning await has consumed: a prefix `taken` of the schedule, all of it now completed,
and the awaited task is among the completed ones -/
theorem awaitTask_some {k : Nat} {fin sched fin' sched' : List Nat}
    (h : awaitTask k fin sched = some (fin', sched')) :
    ∃ taken, sched = taken ++ sched' ∧ fin' = taken.reverse ++ fin ∧ k ∈ fin' := by
  induction sched generalizing fin with
  | nil =>
    simp only [awaitTask] at h
    split at h
    · rename_i hk
      simp only [Option.some.injEq, Prod.mk.injEq] at h
      obtain ⟨rfl, rfl⟩ := h
      exact ⟨[], rfl, rfl, by simpa using hk⟩
    · cases h
  | cons s ss ih =>
    simp only [awaitTask] at h
    split at h
    · rename_i hk
      simp only [Option.some.injEq, Prod.mk.injEq] at h
      obtain ⟨rfl, rfl⟩ := h
      exact ⟨[], rfl, rfl, by simpa using hk⟩
    · obtain ⟨taken, h1, h2, h3⟩ := ih h
      exact ⟨s :: taken, by simp [h1], by simp [h2], h3⟩

theorem awaitTask_isSome {k : Nat} {fin sched : List Nat} (h : k ∈ fin ∨ k ∈ sched) :
    (awaitTask k fin sched).isSome = true := by
  induction sched generalizing fin with
  | nil =>
    have hk : k ∈ fin := by simpa using h
    simp [awaitTask, hk]
  | cons s ss ih =>
    simp only [awaitTask]
    split
    · rfl
    · rename_i hk
      apply ih
      have hk' : ¬ k ∈ fin := by simpa using hk
      rcases h with h | h
      · exact absurd h hk'
      · rcases List.mem_cons.mp h with h | h
        · exact Or.inl (by simp [h])
        · exact Or.inr h

theorem awaitTask_none {k : Nat} {fin sched : List Nat} (h : awaitTask k fin sched = none) :
    ¬ k ∈ fin ∧ ¬ k ∈ sched := by
  refine ⟨fun hk => ?_, fun hk => ?_⟩
  · have := awaitTask_isSome (k := k) (fin := fin) (sched := sched) (Or.inl hk); simp [h] at this
  · have := awaitTask_isSome (k := k) (fin := fin) (sched := sched) (Or.inr hk); simp [h] at this

theorem waitTasks_some {ks fin sched fin' sched' : List Nat}
    (h : waitTasks ks fin sched = some (fin', sched')) :
    ∃ taken, sched = taken ++ sched' ∧ fin' = taken.reverse ++ fin ∧ ∀ k ∈ ks, k ∈ fin' := by
  induction ks generalizing fin sched with
  | nil =>
    simp only [waitTasks, Option.some.injEq, Prod.mk.injEq] at h
    obtain ⟨rfl, rfl⟩ := h
    exact ⟨[], rfl, rfl, by simp⟩
  | cons k ks ih =>
    simp only [waitTasks] at h
    split at h
    · cases h
    · rename_i r hr
      obtain ⟨t1, a1, a2, a3⟩ := awaitTask_some (fin' := r.1) (sched' := r.2) hr
      obtain ⟨t2, b1, b2, b3⟩ := ih h
      refine ⟨t1 ++ t2, by simp [a1, b1], by simp [a2, b2], ?_⟩
      intro x hx
      rcases List.mem_cons.mp hx with rfl | hx
      · rw [b2]; exact List.mem_append_right _ a3
      · exact b3 x hx

theorem waitTasks_isSome {ks fin sched : List Nat} (h : ∀ k ∈ ks, k ∈ fin ∨ k ∈ sched) :
    (waitTasks ks fin sched).isSome = true := by
  induction ks generalizing fin sched with
  | nil => simp [waitTasks]
  | cons k ks ih =>
    simp only [waitTasks]
    have h1 := awaitTask_isSome (h k (List.mem_cons_self ..))
    split
    · rename_i hn; simp [hn] at h1
    · rename_i r hr
      obtain ⟨t1, a1, a2, _⟩ := awaitTask_some (fin' := r.1) (sched' := r.2) hr
      apply ih
      intro x hx
      rcases h x (List.mem_cons_of_mem _ hx) with hx | hx
      · left; rw [a2]; exact List.mem_append_right _ hx
      · rw [a1] at hx
        rcases List.mem_append.mp hx with hx | hx
        · left; rw [a2]; exact List.mem_append_left _ (by simpa using hx)
        · right; exact hx

/-- a job after `Job::wait` returned -/
def cleared (j : Job) : Job := { j with tasks := [], state := .done }

theorem jobWait_some {j j' : Job} {fin sched fin' sched' : List Nat}
    (h : jobWait j fin sched = some (j', fin', sched')) :
    j' = cleared j ∧ ∃ taken, sched = taken ++ sched' ∧ fin' = taken.reverse ++ fin ∧
      ∀ k ∈ j.tasks, k ∈ fin' := by
  simp only [jobWait] at h
  split at h
  · cases h
  · rename_i r hr
    simp only [Option.some.injEq, Prod.mk.injEq] at h
    obtain ⟨rfl, rfl, rfl⟩ := h
    obtain ⟨t, a, b, c⟩ := waitTasks_some (fin' := r.1) (sched' := r.2) hr
    exact ⟨rfl, t, a, b, fun k hk => c k (by simpa using hk)⟩

theorem jobWait_isSome {j : Job} {fin sched : List Nat} (h : ∀ k ∈ j.tasks, k ∈ fin ∨ k ∈ sched) :
    (jobWait j fin sched).isSome = true := by
  have := waitTasks_isSome (ks := j.tasks.reverse) (fin := fin) (sched := sched)
    (fun k hk => h k (by simpa using hk))
  simp only [jobWait]
  split
  · rename_i hn; simp [hn] at this
  · rfl

theorem waitJobs_some {t t' : Table} {fin sched fin' sched' : List Nat}
    (h : waitJobs t fin sched = some (t', fin', sched')) :
    t' = t.map cleared ∧ ∃ taken, sched = taken ++ sched' ∧ fin' = taken.reverse ++ fin ∧
      ∀ j ∈ t, ∀ k ∈ j.tasks, k ∈ fin' := by
  induction t generalizing t' fin sched with
  | nil =>
    simp only [waitJobs, Option.some.injEq, Prod.mk.injEq] at h
    obtain ⟨rfl, rfl, rfl⟩ := h
    exact ⟨rfl, [], rfl, rfl, by simp⟩
  | cons j js ih =>
    simp only [waitJobs] at h
    split at h
    · cases h
    · rename_i r hr
      split at h
      · cases h
      · rename_i r' hr'
        simp only [Option.some.injEq, Prod.mk.injEq] at h
        obtain ⟨rfl, rfl, rfl⟩ := h
        obtain ⟨e1, t1, a1, a2, a3⟩ := jobWait_some (j' := r.1) (fin' := r.2.1) (sched' := r.2.2) hr
        obtain ⟨e2, t2, b1, b2, b3⟩ := ih (t' := r'.1) hr'
        refine ⟨by simp [e1, e2], t1 ++ t2, by simp [a1, b1], by simp [a2, b2], ?_⟩
        intro x hx k hk
        rcases List.mem_cons.mp hx with rfl | hx
        · rw [b2]; exact List.mem_append_right _ (a3 k hk)
        · exact b3 x hx k hk

theorem waitJobs_isSome {t : Table} {fin sched : List Nat}
    (h : ∀ j ∈ t, ∀ k ∈ j.tasks, k ∈ fin ∨ k ∈ sched) : (waitJobs t fin sched).isSome = true := by
  induction t generalizing fin sched with
  | nil => simp [waitJobs]
  | cons j js ih =>
    simp only [waitJobs]
    have h1 := jobWait_isSome (h j (List.mem_cons_self ..))
    split
    · rename_i hn; simp [hn] at h1
    · rename_i r hr
      obtain ⟨_, t1, a1, a2, _⟩ := jobWait_some (j' := r.1) (fin' := r.2.1) (sched' := r.2.2) hr
      have h2 : (waitJobs js r.2.1 r.2.2).isSome = true := by
        apply ih
        intro x hx k hk
        rcases h x (List.mem_cons_of_mem _ hx) k hk with hk | hk
        · left; rw [a2]; exact List.mem_append_right _ hk
        · rw [a1] at hk
          rcases List.mem_append.mp hk with hk | hk
          · left; rw [a2]; exact List.mem_append_left _ (by simpa using hk)
          · right; exact hk
      split
      · rename_i hn; simp [hn] at h2
      · rfl

theorem awaitTask_of_mem {k : Nat} {fin : List Nat} (sched : List Nat) (h : k ∈ fin) :
    awaitTask k fin sched = some (fin, sched) := by
  cases sched <;> simp [awaitTask, h]

theorem waitTasks_of_mem {ks fin : List Nat} (sched : List Nat) (h : ∀ k ∈ ks, k ∈ fin) :
    waitTasks ks fin sched = some (fin, sched) := by
  induction ks with
  | nil => rfl
  | cons k ks ih =>
    simp only [waitTasks, awaitTask_of_mem sched (h k (List.mem_cons_self ..))]
    exact ih (fun x hx => h x (List.mem_cons_of_mem _ hx))

theorem waitJobs_of_mem {t : Table} {fin : List Nat} (sched : List Nat)
    (h : ∀ j ∈ t, ∀ k ∈ j.tasks, k ∈ fin) : waitJobs t fin sched = some (t.map cleared, fin, sched) := by
  induction t with
  | nil => rfl
  | cons j js ih =>
    have h1 : jobWait j fin sched = some (cleared j, fin, sched) := by
      have hw : waitTasks j.tasks.reverse fin sched = some (fin, sched) :=
        waitTasks_of_mem sched (fun k hk => h j (List.mem_cons_self ..) k (by simpa using hk))
      simp only [jobWait, hw]
      rfl
    simp only [waitJobs, h1, ih (fun x hx => h x (List.mem_cons_of_mem _ hx)), List.map_cons]

theorem sweep_cleared (t : Table) : sweep (t.map cleared) = ([], t.map cleared) := by
  simp [sweep, cleared, List.filter_eq_nil_iff, List.filter_eq_self]

/-! ## projections of the table and how the operations act on them -/

def ids (t : Table) : List Nat := t.map (·.id)
def anns (t : Table) : List Ann := t.map (·.ann)
def tags (t : Table) : List Nat := t.map (·.tag)

theorem demote_length (t : Table) : (demoteFirstCurrent t).length = t.length := by
  induction t with
  | nil => rfl
  | cons j js ih => simp only [demoteFirstCurrent]; split <;> simp [ih]

theorem demote_ids (t : Table) : ids (demoteFirstCurrent t) = ids t := by
  induction t with
  | nil => rfl
  | cons j js ih =>
    simp only [demoteFirstCurrent]; split
    · simp [ids]
    · simp only [ids, List.map_cons] at ih ⊢; rw [ih]

theorem demote_tags (t : Table) : tags (demoteFirstCurrent t) = tags t := by
  induction t with
  | nil => rfl
  | cons j js ih =>
    simp only [demoteFirstCurrent]; split
    · simp [tags]
    · simp only [tags, List.map_cons] at ih ⊢; rw [ih]

/-- a member of the demoted table is a member of the table up to its annotation -/
theorem mem_demote {t : Table} {j : Job} (h : j ∈ demoteFirstCurrent t) :
    ∃ j0 ∈ t, j.tasks = j0.tasks ∧ j.orig = j0.orig ∧ j.state = j0.state ∧ j.id = j0.id ∧ j.tag = j0.tag := by
  induction t with
  | nil => simp [demoteFirstCurrent] at h
  | cons a as ih =>
    simp only [demoteFirstCurrent] at h
    split at h
    · rcases List.mem_cons.mp h with rfl | h
      · exact ⟨a, List.mem_cons_self .., rfl, rfl, rfl, rfl, rfl⟩
      · exact ⟨j, List.mem_cons_of_mem _ h, rfl, rfl, rfl, rfl, rfl⟩
    · rcases List.mem_cons.mp h with rfl | h
      · exact ⟨j, List.mem_cons_self .., rfl, rfl, rfl, rfl, rfl⟩
      · obtain ⟨j0, h0, r⟩ := ih h
        exact ⟨j0, List.mem_cons_of_mem _ h0, r⟩

/-- after the demotion loop no job is marked current, provided at most one was -/
theorem demote_no_current (t : Table) (h : (anns t).count .current ≤ 1) :
    (anns (demoteFirstCurrent t)).count .current = 0 := by
  induction t with
  | nil => rfl
  | cons j js ih =>
    simp only [demoteFirstCurrent]
    split
    · rename_i hc
      simp only [anns, List.map_cons, hc, List.count_cons_self] at h
      simp only [anns, List.map_cons]
      rw [List.count_cons_of_ne (by decide)]
      omega
    · rename_i hc
      simp only [anns, List.map_cons] at h ⊢
      rw [List.count_cons_of_ne (fun e => hc e)] at h ⊢
      exact ih h

theorem pollDone_id (fin : List Nat) (j : Job) : (pollDone fin j).1.id = j.id := by
  simp only [pollDone]; split <;> rfl
theorem pollDone_ann (fin : List Nat) (j : Job) : (pollDone fin j).1.ann = j.ann := by
  simp only [pollDone]; split <;> rfl
theorem pollDone_tag (fin : List Nat) (j : Job) : (pollDone fin j).1.tag = j.tag := by
  simp only [pollDone]; split <;> rfl
theorem pollDone_orig (fin : List Nat) (j : Job) : (pollDone fin j).1.orig = j.orig := by
  simp only [pollDone]; split <;> rfl

theorem mem_dropWhile_or (p : Nat → Bool) (l : List Nat) : ∀ k ∈ l, k ∈ l.dropWhile p ∨ p k = true := by
  induction l with
  | nil => simp
  | cons a as ih =>
    intro k hk
    simp only [List.dropWhile_cons]
    split
    · rename_i hp
      rcases List.mem_cons.mp hk with rfl | hk
      · exact Or.inr hp
      · exact ih k hk
    · exact Or.inl hk

/-- a task leaves a polled job only if it has completed -/
theorem pollDone_tasks (fin : List Nat) (j : Job) :
    ∀ k ∈ j.tasks, k ∈ (pollDone fin j).1.tasks ∨ k ∈ fin := by
  intro k hk
  rcases mem_dropWhile_or (fun k => fin.contains k) j.tasks k hk with h | h
  · simp only [pollDone]
    split
    · rename_i he; simp only [List.isEmpty_iff] at he; rw [he] at h; cases h
    · left; exact h
  · right; simpa using h

theorem pollDone_done_empty (fin : List Nat) (j : Job) (hj : j.state = .done → j.tasks = []) :
    (pollDone fin j).1.state = .done → (pollDone fin j).1.tasks = [] := by
  simp only [pollDone]
  split
  · intro _; rfl
  · rename_i hne
    intro hd
    have := hj hd
    simp [this] at hne

theorem pollDone_reported_empty (fin : List Nat) (j : Job) (h : (pollDone fin j).2 = true) :
    (pollDone fin j).1.tasks = [] := by
  unfold pollDone at h ⊢
  by_cases he : (j.tasks.dropWhile (fun k => fin.contains k)).isEmpty = true
  · simp only [he, if_true]
  · simp only [he] at h; cases h

theorem poll_kept_sublist {α : Type} (f : Job → α) (hf : ∀ fin j, f (pollDone fin j).1 = f j)
    (fin : List Nat) (t : Table) : ((poll fin t).1.map f).Sublist (t.map f) := by
  induction t with
  | nil => simp [poll]
  | cons j js ih =>
    simp only [poll]
    split
    · exact List.Sublist.cons _ ih
    · simp only [List.map_cons, hf]; exact List.Sublist.cons_cons _ ih

theorem poll_count {α : Type} [BEq α] [LawfulBEq α] (f : Job → α) (hf : ∀ fin j, f (pollDone fin j).1 = f j)
    (fin : List Nat) (t : Table) (a : α) :
    ((poll fin t).1.map f).count a + ((poll fin t).2.map f).count a = (t.map f).count a := by
  induction t with
  | nil => simp [poll]
  | cons j js ih =>
    simp only [poll]
    split
    · simp only [List.map_cons, hf, List.count_cons]; rw [← ih]; omega
    · simp only [List.map_cons, hf, List.count_cons]; rw [← ih]; omega

theorem mem_poll {fin : List Nat} {t : Table} {j' : Job} (h : j' ∈ (poll fin t).1 ∨ j' ∈ (poll fin t).2) :
    ∃ j ∈ t, j' = (pollDone fin j).1 := by
  induction t with
  | nil => simp [poll] at h
  | cons a as ih =>
    simp only [poll] at h
    split at h
    · rcases h with h | h
      · obtain ⟨j, hj, e⟩ := ih (Or.inl h); exact ⟨j, List.mem_cons_of_mem _ hj, e⟩
      · rcases List.mem_cons.mp h with rfl | h
        · exact ⟨a, List.mem_cons_self .., rfl⟩
        · obtain ⟨j, hj, e⟩ := ih (Or.inr h); exact ⟨j, List.mem_cons_of_mem _ hj, e⟩
    · rcases h with h | h
      · rcases List.mem_cons.mp h with rfl | h
        · exact ⟨a, List.mem_cons_self .., rfl⟩
        · obtain ⟨j, hj, e⟩ := ih (Or.inl h); exact ⟨j, List.mem_cons_of_mem _ hj, e⟩
      · obtain ⟨j, hj, e⟩ := ih (Or.inr h); exact ⟨j, List.mem_cons_of_mem _ hj, e⟩

/-- a job removed by `poll` either reported a result or was already done -/
theorem mem_poll_removed {fin : List Nat} {t : Table} {j' : Job} (h : j' ∈ (poll fin t).2) :
    ∃ j ∈ t, j' = (pollDone fin j).1 ∧ ((pollDone fin j).2 = true ∨ (pollDone fin j).1.state = .done) := by
  induction t with
  | nil => simp [poll] at h
  | cons a as ih =>
    simp only [poll] at h
    split at h
    · rename_i hc
      rcases List.mem_cons.mp h with rfl | h
      · exact ⟨a, List.mem_cons_self .., rfl, by simpa using hc⟩
      · obtain ⟨j, hj, e⟩ := ih h; exact ⟨j, List.mem_cons_of_mem _ hj, e⟩
    · obtain ⟨j, hj, e⟩ := ih h; exact ⟨j, List.mem_cons_of_mem _ hj, e⟩

/-- a job kept by `poll` is not done and still has a task -/
theorem mem_poll_kept {fin : List Nat} {t : Table} {j' : Job} (h : j' ∈ (poll fin t).1) :
    j'.state ≠ .done ∧ j'.tasks ≠ [] := by
  induction t with
  | nil => simp [poll] at h
  | cons a as ih =>
    simp only [poll] at h
    split at h
    · exact ih h
    · rename_i hc
      rcases List.mem_cons.mp h with rfl | h
      · have hc' : (pollDone fin a).2 = false ∧ ¬ (pollDone fin a).1.state = .done := by simpa using hc
        refine ⟨hc'.2, ?_⟩
        intro he
        apply hc'.2
        unfold pollDone at he ⊢
        by_cases hr : (a.tasks.dropWhile (fun k => fin.contains k)).isEmpty = true
        · simp only [hr, if_true]
        · simp only [hr] at he
          have he' : a.tasks.dropWhile (fun k => fin.contains k) = [] := he
          exact absurd (by rw [he']; rfl) hr
      · exact ih h

theorem map_set_cleared {α : Type} (f : Job → α) (hf : ∀ j, f (cleared j) = f j) {t : Table} {i : Nat} {j : Job}
    (h : t[i]? = some j) : (t.set i (cleared j)).map f = t.map f := by
  apply List.ext_getElem?
  intro n
  simp only [List.getElem?_map, List.getElem?_set]
  split
  · rename_i hin
    subst hin
    split
    · simp [h, hf]
    · rename_i hlt
      have : t[i]? = none := by simp at hlt; simpa using hlt
      simp [this] at h
  · rfl

/-! ## one step of a history, as a relation -/

/-- `StepRel s polled s'`: how one operation can change the state (`polled` = it was a poll) -/
inductive StepRel (s : St) : Bool → St → Prop where
  | same {b : Bool} : StepRel s b s
  | blocked {b : Bool} : StepRel s b { s with stuck := true }
  | launch (n : Nat) (st : JState) (code : Nat) (hst : st ≠ .done) :
      StepRel s false { s with table := addAsCurrent s.rule s.table (List.range' s.nextTask n) (s.launched + 1) st code,
                               nextTask := s.nextTask + n, launched := s.launched + 1 }
  | completes (fin' : List Nat) (hsub : ∀ x ∈ s.fin, x ∈ fin') : StepRel s false { s with fin := fin' }
  | poll : StepRel s true { s with table := (poll s.fin s.table).1, gone := s.gone ++ (poll s.fin s.table).2 }
  | waitAll (fin' : List Nat) (hsub : ∀ x ∈ s.fin, x ∈ fin') (hall : ∀ j ∈ s.table, ∀ k ∈ j.tasks, k ∈ fin') :
      StepRel s false { s with table := [], gone := s.gone ++ s.table.map cleared, fin := fin', lastWait := 0 }
  | waitSpec (i : Nat) (j : Job) (fin' : List Nat) (lw : Nat) (hi : s.table[i]? = some j) (hsub : ∀ x ∈ s.fin, x ∈ fin')
      (hall : ∀ k ∈ j.tasks, k ∈ fin') :
      StepRel s true { s with table := (sweep (s.table.set i (cleared j))).1,
                              gone := s.gone ++ (sweep (s.table.set i (cleared j))).2, fin := fin', lastWait := lw }
  | sweepOnly (fin' : List Nat) (lw : Nat) (hsub : ∀ x ∈ s.fin, x ∈ fin') :
      StepRel s true { s with table := (sweep s.table).1, gone := s.gone ++ (sweep s.table).2, fin := fin', lastWait := lw }

/-- operations that remove finished jobs one by one, leaving the others in the table: the poll between
commands and `wait %spec` (plain `wait` empties the table) -/
def isPoll : Op → Bool
  | .poll => true
  | .waitSpec _ _ => true
  | _ => false

theorem step_rel (s : St) (op : Op) : StepRel s (isPoll op && !s.stuck) (step s op) := by
  unfold step
  split
  · rename_i hs; simp only [hs, Bool.not_true, Bool.and_false]; exact .same
  · rename_i hs
    have hs' : s.stuck = false := by simpa using hs
    cases op with
    | launch n stopped code =>
      simp only [isPoll, Bool.false_and]
      exact .launch n _ code (by split <;> simp)
    | finish k =>
      simp only [isPoll, Bool.false_and]
      split
      · exact .completes _ (fun x hx => List.mem_cons_of_mem _ hx)
      · exact .same
    | poll =>
      have hb : (isPoll Op.poll && !s.stuck) = true := by simp [isPoll, hs']
      rw [hb]; exact .poll
    | waitAll sched =>
      simp only [isPoll, Bool.false_and]
      split
      · exact .blocked
      · rename_i r hr
        simp only [waitAll] at hr
        split at hr
        · cases hr
        · rename_i r' hr'
          obtain ⟨e, taken, a1, a2, a3⟩ := waitJobs_some (t' := r'.1) (fin' := r'.2.1) (sched' := r'.2.2) hr'
          simp only [Option.some.injEq] at hr
          subst hr
          simp only [e, sweep_cleared]
          refine .waitAll _ ?_ ?_
          · intro x hx; rw [a2]; exact List.mem_append_right _ (List.mem_append_right _ hx)
          · intro j hj k hk; exact List.mem_append_right _ (a3 j hj k hk)
    | waitSpec sp sched =>
      have hb : (isPoll (Op.waitSpec sp sched) && !s.stuck) = true := by simp [isPoll, hs']
      dsimp only
      split
      · rw [hb]; exact .sweepOnly _ _ (fun x hx => List.mem_append_right _ hx)
      next i _ =>
        split
        · exact .same
        next j hj =>
          split
          · exact .blocked
          next r hr =>
            obtain ⟨e, taken, a1, a2, a3⟩ := jobWait_some (j' := r.1) (fin' := r.2.1) (sched' := r.2.2) hr
            rw [e, hb]
            refine .waitSpec i j _ _ hj ?_ ?_
            · intro x hx; rw [a2]; exact List.mem_append_right _ (List.mem_append_right _ hx)
            · intro k hk; exact List.mem_append_right _ (a3 k hk)
    | query => simp only [isPoll, Bool.false_and]; exact .same

/-- invariants of histories: proved once for the relation -/
theorem run_invariant (P : St → Prop) (hstep : ∀ s op, P s → P (step s op)) (ops : List Op) (s : St)
    (h : P s) : P (run s ops) := by
  induction ops generalizing s with
  | nil => exact h
  | cons op ops ih => simp only [run, List.foldl_cons]; exact ih _ (hstep s op h)

theorem run_invariant_on (P : St → Prop) (Q : Op → Prop) (hstep : ∀ s op, Q op → P s → P (step s op))
    (ops : List Op) (hq : ∀ op ∈ ops, Q op) (s : St) (h : P s) : P (run s ops) := by
  induction ops generalizing s with
  | nil => exact h
  | cons op ops ih =>
    simp only [run, List.foldl_cons]
    exact ih (fun o ho => hq o (List.mem_cons_of_mem _ ho)) _ (hstep s op (hq op (List.mem_cons_self ..)) h)

theorem step_rel_nopoll (s : St) (op : Op) (h : isPoll op = false) : StepRel s false (step s op) := by
  have := step_rel s op
  simpa [h] using this

theorem le_maxId {t : Table} {j : Job} (h : j ∈ t) : j.id ≤ maxId t := by
  induction t with
  | nil => cases h
  | cons a as ih =>
    simp only [maxId]
    rcases List.mem_cons.mp h with rfl | h
    · omega
    · have := ih h; omega

theorem ids_add (r : IdRule) (t : Table) (ts : List Nat) (tag : Nat) (st : JState) (code : Nat) :
    ids (addAsCurrent r t ts tag st code) = ids t ++ [nextId r t] := by
  have := demote_ids t
  simp only [ids] at this
  simp [addAsCurrent, ids, this]

theorem tags_add (r : IdRule) (t : Table) (ts : List Nat) (tag : Nat) (st : JState) (code : Nat) :
    tags (addAsCurrent r t ts tag st code) = tags t ++ [tag] := by
  have := demote_tags t
  simp only [tags] at this
  simp [addAsCurrent, tags, this]

theorem add_length (r : IdRule) (t : Table) (ts : List Nat) (tag : Nat) (st : JState) (code : Nat) :
    (addAsCurrent r t ts tag st code).length = t.length + 1 := by
  simp [addAsCurrent, demote_length]

/-! ## `sweep_completed_jobs` -/

theorem sweep_kept_sublist (t : Table) : (sweep t).1.Sublist t := by
  simp only [sweep]; exact List.filter_sublist

theorem mem_sweep_kept {t : Table} {j : Job} (h : j ∈ (sweep t).1) : j ∈ t ∧ j.tasks ≠ [] := by
  simp only [sweep, List.mem_filter] at h
  exact ⟨h.1, by simpa using h.2⟩

theorem mem_sweep_swept {t : Table} {j : Job} (h : j ∈ (sweep t).2) : j ∈ t ∧ j.tasks = [] := by
  simp only [sweep, List.mem_filter] at h
  exact ⟨h.1, by simpa using h.2⟩

theorem sweep_count {α : Type} [BEq α] [LawfulBEq α] (f : Job → α) (t : Table) (a : α) :
    ((sweep t).1.map f).count a + ((sweep t).2.map f).count a = (t.map f).count a := by
  induction t with
  | nil => simp [sweep]
  | cons j js ih =>
    simp only [sweep] at ih ⊢
    by_cases h : j.tasks.isEmpty = true
    · simp only [List.filter_cons, h, Bool.not_true, Bool.false_eq_true, if_false, if_true, List.map_cons, List.count_cons]
      rw [← ih]; omega
    · have h' : j.tasks.isEmpty = false := by simpa using h
      simp only [List.filter_cons, h', Bool.not_false, Bool.false_eq_true, if_false, if_true, List.map_cons, List.count_cons]
      rw [← ih]; omega

/-! ## accounting: nothing is lost, nothing is removed early -/

structure Acct (s : St) : Prop where
  /-- every launched tag is in the table or among the removed jobs, exactly once -/
  tagsCount : ∀ a, (tags s.table).count a + (tags s.gone).count a = (List.range' 1 s.launched).count a
  /-- a task leaves a job only when it has completed -/
  taskInv : ∀ j, j ∈ s.table ∨ j ∈ s.gone → ∀ k ∈ j.orig, k ∈ j.tasks ∨ k ∈ s.fin
  doneEmpty : ∀ j ∈ s.table, j.state = .done → j.tasks = []
  goneEmpty : ∀ j ∈ s.gone, j.tasks = []

theorem acc_init (r : IdRule) : Acct (init r) :=
  ⟨by simp [init, tags], by simp [init], by simp [init], by simp [init]⟩

/-- sweeping keeps the accounts: the swept jobs have no task left -/
theorem acct_sweep {s : St} (fin' : List Nat) (lw : Nat) (t : Table)
    (hA : Acct { s with table := t, fin := fin' }) :
    Acct { s with table := (sweep t).1, gone := s.gone ++ (sweep t).2, fin := fin', lastWait := lw } := by
  obtain ⟨h1, h2, h3, h4⟩ := hA
  refine ⟨?_, ?_, ?_, ?_⟩
  · intro a
    have := sweep_count (·.tag) t a
    have h1a := h1 a
    simp only [tags, List.map_append, List.count_append] at h1a this ⊢
    omega
  · intro j hj k hk
    rcases hj with h | h
    · exact h2 j (Or.inl (mem_sweep_kept h).1) k hk
    · rcases List.mem_append.mp h with h | h
      · exact h2 j (Or.inr h) k hk
      · exact h2 j (Or.inl (mem_sweep_swept h).1) k hk
  · intro j hj hd
    exact h3 j (mem_sweep_kept hj).1 hd
  · intro j hj
    rcases List.mem_append.mp hj with h | h
    · exact h4 j h
    · exact (mem_sweep_swept h).2

theorem acc_step {s s' : St} {b : Bool} (h : StepRel s b s') (hi : Acct s) : Acct s' := by
  obtain ⟨h1, h2, h3, h4⟩ := hi
  cases h with
  | same => exact ⟨h1, h2, h3, h4⟩
  | blocked => exact ⟨h1, h2, h3, h4⟩
  | launch n st code hst =>
    refine ⟨?_, ?_, ?_, h4⟩
    · intro a
      have := h1 a
      simp only [tags_add, List.count_append, List.range'_concat, List.count_singleton]
      have e : 1 + 1 * s.launched = s.launched + 1 := by omega
      rw [e]
      omega
    · intro j hj k hk
      rcases hj with hj | hj
      · simp only [addAsCurrent] at hj
        rcases List.mem_append.mp hj with hj | hj
        · obtain ⟨j0, hj0, e1, e2, _⟩ := mem_demote hj
          rw [e2] at hk; rw [e1]
          exact h2 j0 (Or.inl hj0) k hk
        · simp only [List.mem_singleton] at hj
          subst hj
          exact Or.inl hk
      · exact h2 j (Or.inr hj) k hk
    · intro j hj hd
      simp only [addAsCurrent] at hj
      rcases List.mem_append.mp hj with hj | hj
      · obtain ⟨j0, hj0, e1, _, e3, _⟩ := mem_demote hj
        rw [e1]; exact h3 j0 hj0 (by rw [← e3]; exact hd)
      · simp only [List.mem_singleton] at hj
        subst hj
        exact absurd hd hst
  | completes fin' hsub =>
    refine ⟨h1, ?_, h3, h4⟩
    intro j hj k hk
    rcases h2 j hj k hk with h | h
    · exact Or.inl h
    · exact Or.inr (hsub k h)
  | poll =>
    refine ⟨?_, ?_, ?_, ?_⟩
    · intro a
      have := poll_count (·.tag) pollDone_tag s.fin s.table a
      have h1a := h1 a
      simp only [tags, List.map_append, List.count_append] at h1a this ⊢
      omega
    · intro j' hj' k hk
      have hmem : j' ∈ s.gone ∨ (j' ∈ (poll s.fin s.table).1 ∨ j' ∈ (poll s.fin s.table).2) := by
        rcases hj' with h | h
        · exact Or.inr (Or.inl h)
        · rcases List.mem_append.mp h with h | h
          · exact Or.inl h
          · exact Or.inr (Or.inr h)
      rcases hmem with h | h
      · exact h2 j' (Or.inr h) k hk
      · obtain ⟨j, hj, rfl⟩ := mem_poll h
        rw [pollDone_orig] at hk
        rcases h2 j (Or.inl hj) k hk with h' | h'
        · exact pollDone_tasks s.fin j k h'
        · exact Or.inr h'
    · intro j' hj'
      obtain ⟨j, hj, rfl⟩ := mem_poll (Or.inl hj')
      exact pollDone_done_empty s.fin j (h3 j hj)
    · intro j' hj'
      rcases List.mem_append.mp hj' with h | h
      · exact h4 j' h
      · obtain ⟨j, hj, rfl, hc⟩ := mem_poll_removed h
        rcases hc with hc | hc
        · exact pollDone_reported_empty s.fin j hc
        · exact pollDone_done_empty s.fin j (h3 j hj) hc
  | waitAll fin' hsub hall =>
    refine ⟨?_, ?_, by simp, ?_⟩
    · intro a
      have := h1 a
      simp only [tags, List.map_append, List.count_append, List.map_map, List.map_nil, List.count_nil] at this ⊢
      have e : (List.map ((fun x => x.tag) ∘ cleared) s.table) = List.map (fun x => x.tag) s.table := by
        apply List.map_congr_left; intro j _; rfl
      rw [e]; omega
    · intro j' hj' k hk
      rcases hj' with h | h
      · cases h
      · rcases List.mem_append.mp h with h | h
        · rcases h2 j' (Or.inr h) k hk with h' | h'
          · exact Or.inl h'
          · exact Or.inr (hsub k h')
        · obtain ⟨j, hj, rfl⟩ := List.mem_map.mp h
          right
          rcases h2 j (Or.inl hj) k hk with h' | h'
          · exact hall j hj k h'
          · exact hsub k h'
    · intro j' hj'
      rcases List.mem_append.mp hj' with h | h
      · exact h4 j' h
      · obtain ⟨j, _, rfl⟩ := List.mem_map.mp h; rfl
  | sweepOnly fin' lw hsub =>
    apply acct_sweep fin' lw s.table
    refine ⟨h1, ?_, h3, h4⟩
    intro j hj k hk
    rcases h2 j hj k hk with h | h
    · exact Or.inl h
    · exact Or.inr (hsub k h)
  | waitSpec i j fin' lw hi hsub hall =>
    have hjm : j ∈ s.table := List.mem_of_getElem? hi
    apply acct_sweep fin' lw (s.table.set i (cleared j))
    refine ⟨?_, ?_, ?_, h4⟩
    · intro a
      have := map_set_cleared (·.tag) (fun _ => rfl) hi
      simp only [tags] at h1 ⊢
      rw [this]; exact h1 a
    · intro j' hj' k hk
      rcases hj' with h | h
      · rcases List.mem_or_eq_of_mem_set h with h | rfl
        · rcases h2 j' (Or.inl h) k hk with h' | h'
          · exact Or.inl h'
          · exact Or.inr (hsub k h')
        · right
          rcases h2 j (Or.inl hjm) k hk with h' | h'
          · exact hall k h'
          · exact hsub k h'
      · rcases h2 j' (Or.inr h) k hk with h' | h'
        · exact Or.inl h'
        · exact Or.inr (hsub k h')
    · intro j' hj' hd
      rcases List.mem_or_eq_of_mem_set hj' with h | rfl
      · exact h3 j' h hd
      · rfl

end BrushVerif.Jobs
