import BrushVerif.Model.Highlight
/-! Helper lemmas for C19 (highlighter span builder). -/
namespace BrushVerif.Highlight
open BrushVerif.Wire

/-! ## byte offsets -/

theorem byteLen_cons (c : Char) (l : Str) : byteLen (c :: l) = c.utf8Size + byteLen l := by
  simp [byteLen]

theorem byteLen_append (a b : Str) : byteLen (a ++ b) = byteLen a + byteLen b := by
  simp [byteLen, List.sum_append]

theorem byteOff_le (l : Str) (a : Nat) : byteOff l a ≤ byteLen l := by
  induction l generalizing a with
  | nil => simp [byteOff]
  | cons c cs ih =>
    cases a with
    | zero => simp [byteOff, byteLen]
    | succ a =>
      have := ih a
      simp only [byteOff, List.take_succ_cons, byteLen_cons] at *
      omega

theorem byteOff_mono (l : Str) (a b : Nat) (hab : a ≤ b) : byteOff l a ≤ byteOff l b := by
  induction l generalizing a b with
  | nil => simp [byteOff]
  | cons c cs ih =>
    cases a with
    | zero => simp [byteOff, byteLen]
    | succ a =>
      cases b with
      | zero => omega
      | succ b =>
        have := ih a b (by omega)
        simp only [byteOff, List.take_succ_cons, byteLen_cons] at *
        omega

/-! ## tilings -/

/-- the invariant of the span builder: the spans pushed so far tile `[0, current_byte_index)` -/
def TInv (h : HS) : Prop := TilesFrom 0 h.spans h.cur

theorem tiles_snoc (a b c : Nat) (k : Kind) (xs : List Span) (h : TilesFrom a xs b) (hbc : b < c) :
    TilesFrom a (xs ++ [⟨b, c, k⟩]) c := by
  induction xs generalizing a with
  | nil =>
    simp only [TilesFrom] at h
    subst h
    simp [TilesFrom, hbc]
  | cons x xs ih =>
    obtain ⟨h1, h2, h3⟩ := h
    exact ⟨h1, h2, ih _ h3⟩

/-- the last span of a tiling starts where the rest ends -/
theorem tiles_snoc_inv (a c : Nat) (x : Span) (xs : List Span) (h : TilesFrom a (xs ++ [x]) c) :
    TilesFrom a xs x.start ∧ x.start < x.stop ∧ x.stop = c := by
  induction xs generalizing a with
  | nil =>
    obtain ⟨h1, h2, h3⟩ := h
    simp only [TilesFrom] at h3
    exact ⟨h1.symm, h2, h3⟩
  | cons y ys ih =>
    obtain ⟨h1, h2, h3⟩ := h
    obtain ⟨i1, i2, i3⟩ := ih _ h3
    exact ⟨⟨h1, h2, i1⟩, i2, i3⟩

theorem tiles_end_unique (a b b' : Nat) (xs : List Span) (h1 : TilesFrom a xs b) (h2 : TilesFrom a xs b') :
    b = b' := by
  induction xs generalizing a with
  | nil => simp only [TilesFrom] at h1 h2; omega
  | cons x xs ih => exact ih _ h1.2.2 h2.2.2

theorem appendSpan_cur (top : Str) (h : HS) (k : Kind) (s e : Nat) : (appendSpan top h k s e).cur = e := rfl

theorem appendSpan_inv (top : Str) (h : HS) (k : Kind) (s e : Nat) (hi : TInv h) (h1 : h.cur ≤ s) (h2 : s ≤ e) :
    TInv (appendSpan top h k s e) := by
  unfold TInv at *
  simp only [appendSpan]
  by_cases hg : s > h.cur
  · have t1 := tiles_snoc 0 h.cur s (h.missing.getD .Comment) h.spans hi hg
    by_cases he : s < e
    · simp only [hg, he, ↓reduceIte]
      exact tiles_snoc 0 s e k _ t1 he
    · have : e = s := by omega
      subst this
      simpa [hg, he] using t1
  · have hs : s = h.cur := by omega
    by_cases he : s < e
    · simp only [hg, he, ↓reduceIte]
      exact tiles_snoc 0 s e k _ (hs ▸ hi) he
    · have : e = s := by omega
      subst this
      simpa [hg, he, hs] using hi

theorem skipAhead_cur (top : Str) (h : HS) (d : Nat) : (skipAhead top h d).cur = d := rfl

theorem skipAhead_inv (top : Str) (h : HS) (d : Nat) (hi : TInv h) (h1 : h.cur ≤ d) : TInv (skipAhead top h d) :=
  appendSpan_inv top h .Default d d hi h1 (Nat.le_refl _)

theorem setMissing_inv (h : HS) (k : Kind) (hi : TInv h) : TInv (setMissing h k) := hi

theorem setMissing_cur (h : HS) (k : Kind) : (setMissing h k).cur = h.cur := rfl

/-! ## the invariant through the traversal -/

section
variable (top : Str) (cursor : Nat)

mutual
  theorem hlPiece_inv (p : Piece) (dflt : Kind) (off : Nat) (h : HS) (lo hi : Nat)
      (hw : wfPiece p lo hi = true) (hi' : TInv h) (hc : h.cur ≤ off + lo) :
      TInv (hlPiece top cursor p dflt off h) ∧ (hlPiece top cursor p dflt off h).cur = off + pieceEnd p :=
    match p with
    | .leaf s e k => by
      simp only [wfPiece, Bool.and_eq_true, decide_eq_true_eq] at hw
      simp only [hlPiece, pieceEnd]
      refine ⟨?_, rfl⟩
      apply skipAhead_inv
      · apply appendSpan_inv
        · exact skipAhead_inv _ _ _ hi' (by omega)
        · simp [skipAhead_cur]
        · omega
      · simp [appendSpan_cur]
    | .dq s e subs => by
      simp only [wfPiece, Bool.and_eq_true, decide_eq_true_eq] at hw
      simp only [hlPiece, pieceEnd]
      refine ⟨?_, rfl⟩
      have h1 : TInv (setMissing (skipAhead top h (off + s)) .Quoted) :=
        setMissing_inv _ _ (skipAhead_inv _ _ _ hi' (by omega))
      have := hlPieces_inv subs .Quoted off _ s e hw.2 h1 (by simp [setMissing_cur, skipAhead_cur])
      exact skipAhead_inv _ _ _ (setMissing_inv _ _ this.1) (by simpa [setMissing_cur] using this.2)
    | .sub s e openLen prog => by
      simp only [wfPiece, Bool.and_eq_true, decide_eq_true_eq] at hw
      simp only [hlPiece, pieceEnd]
      refine ⟨?_, rfl⟩
      have h1 : TInv (setMissing (skipAhead top h (off + s)) .CommandSubstitution) :=
        setMissing_inv _ _ (skipAhead_inv _ _ _ hi' (by omega))
      have := hlProg_inv prog (off + s + openLen) _ hw.2 h1 (by simp [setMissing_cur, skipAhead_cur])
      refine skipAhead_inv _ _ _ (setMissing_inv _ _ this.1) ?_
      rw [setMissing_cur, this.2]
      omega
  theorem hlPieces_inv (ps : List Piece) (dflt : Kind) (off : Nat) (h : HS) (lo hi : Nat)
      (hw : wfPieces ps lo hi = true) (hi' : TInv h) (hc : h.cur ≤ off + lo) :
      TInv (hlPieces top cursor ps dflt off h) ∧ (hlPieces top cursor ps dflt off h).cur ≤ off + hi :=
    match ps with
    | [] => by
      simp only [wfPieces, decide_eq_true_eq] at hw
      simp only [hlPieces]
      exact ⟨hi', by omega⟩
    | p :: rest => by
      simp only [wfPieces, Bool.and_eq_true] at hw
      simp only [hlPieces]
      have h1 := hlPiece_inv p dflt off h lo hi hw.1 hi' hc
      exact hlPieces_inv rest dflt off _ (pieceEnd p) hi hw.2 h1.1 (by rw [h1.2]; omega)
  theorem hlToks_inv (line : Str) (ts : List Tok) (off : Nat) (saw : Bool) (h : HS) (lo : Nat)
      (hw : wfToks line ts lo = true) (hi' : TInv h) (hc : h.cur ≤ off + byteOff line lo) :
      TInv (hlToks top cursor line ts off saw h) ∧
        (hlToks top cursor line ts off saw h).cur ≤ off + byteLen line :=
    match ts with
    | [] => by
      simp only [hlToks]
      have := byteOff_le line lo
      exact ⟨hi', by omega⟩
    | .op s e :: rest => by
      simp only [wfToks, Bool.and_eq_true, decide_eq_true_eq] at hw
      simp only [hlToks]
      have m1 := byteOff_mono line lo s hw.1.1
      have m2 := byteOff_mono line s e hw.1.2
      exact hlToks_inv line rest off saw _ e hw.2
        (appendSpan_inv _ _ _ _ _ hi' (by omega) (by omega)) (by simp [appendSpan_cur])
    | .wordFail s e w cls :: rest => by
      simp only [wfToks, Bool.and_eq_true, decide_eq_true_eq] at hw
      simp only [hlToks]
      have m1 := byteOff_mono line lo s hw.1.1
      have m2 := byteOff_mono line s e hw.1.2
      exact hlToks_inv line rest off saw h e hw.2 hi' (by omega)
    | .word s e w cls ps :: rest => by
      simp only [wfToks, Bool.and_eq_true, decide_eq_true_eq] at hw
      simp only [hlToks]
      have m1 := byteOff_mono line lo s hw.1.1.1
      have m2 := byteOff_mono line s e hw.1.1.2
      have h1 := hlPieces_inv ps (kindForWord cursor w cls (off + byteOff line s) (off + byteOff line e) saw).1
        (off + byteOff line s) h 0 (byteOff line e - byteOff line s) hw.1.2 hi' (by omega)
      exact hlToks_inv line rest off _ _ e hw.2 h1.1 (by have := h1.2; omega)
  theorem hlProg_inv (p : Prog) (off : Nat) (h : HS)
      (hw : wfProg p = true) (hi' : TInv h) (hc : h.cur ≤ off) :
      TInv (hlProg top cursor p off h) ∧ (hlProg top cursor p off h).cur = off + byteLen p.line :=
    match p with
    | .failed line => by
      simp only [hlProg, Prog.line]
      exact ⟨appendSpan_inv _ _ _ _ _ hi' hc (by omega), rfl⟩
    | .ok line toks => by
      simp only [wfProg] at hw
      simp only [hlProg, Prog.line]
      have h1 := hlToks_inv line toks off false h 0 hw hi' (by simp [byteOff, byteLen]; omega)
      exact ⟨skipAhead_inv _ _ _ h1.1 h1.2, rfl⟩
end

end

/-! ## char boundaries: what the debug assertions of `append_span` guarantee -/

/-- unless a debug assertion fired, `current_byte_index` and every span endpoint are char boundaries -/
def BInv (top : Str) (h : HS) : Prop :=
  h.trap = none → isBoundary top h.cur = true ∧
    ∀ s ∈ h.spans, isBoundary top s.start = true ∧ isBoundary top s.stop = true

/-- one step of the builder: the trap is sticky and `BInv` is preserved -/
def Step (top : Str) (h h' : HS) : Prop := (h'.trap = none → h.trap = none) ∧ (BInv top h → BInv top h')

theorem Step.refl (top : Str) (h : HS) : Step top h h := ⟨id, id⟩

theorem Step.trans {top : Str} {a b c : HS} (h1 : Step top a b) (h2 : Step top b c) : Step top a c :=
  ⟨fun h => h1.1 (h2.1 h), fun h => h2.2 (h1.2 h)⟩

theorem isBoundary_zero (top : Str) : isBoundary top 0 = true := by
  cases top <;> simp [isBoundary, isBoundaryFrom]

theorem step_appendSpan (top : Str) (h : HS) (k : Kind) (s e : Nat) : Step top h (appendSpan top h k s e) := by
  constructor
  · intro ht
    simp only [appendSpan] at ht
    split at ht
    · simp at ht
    · assumption
  · intro hb ht
    simp only [appendSpan] at ht
    split at ht
    · simp at ht
    · rename_i hnone
      split at ht
      · simp at ht
      · rename_i hs
        split at ht
        · simp at ht
        · rename_i he
          have hs' : isBoundary top s = true := by simpa using hs
          have he' : isBoundary top e = true := by simpa using he
          obtain ⟨hc, hall⟩ := hb hnone
          refine ⟨he', ?_⟩
          intro x hx
          simp only [appendSpan] at hx
          by_cases hg : s > h.cur <;> by_cases hlt : s < e <;>
            simp only [hg, hlt, ↓reduceIte, List.mem_append, List.mem_singleton] at hx
          · rcases hx with (hx | hx) | hx
            · exact hall x hx
            · subst hx; exact ⟨hc, hs'⟩
            · subst hx; exact ⟨hs', he'⟩
          · rcases hx with hx | hx
            · exact hall x hx
            · subst hx; exact ⟨hc, hs'⟩
          · rcases hx with hx | hx
            · exact hall x hx
            · subst hx; exact ⟨hs', he'⟩
          · exact hall x hx

theorem step_skipAhead (top : Str) (h : HS) (d : Nat) : Step top h (skipAhead top h d) :=
  step_appendSpan top h .Default d d

theorem step_setMissing (top : Str) (h : HS) (k : Kind) : Step top h (setMissing h k) := ⟨id, id⟩

section
variable (top : Str) (cursor : Nat)

mutual
  theorem step_hlPiece (p : Piece) (dflt : Kind) (off : Nat) (h : HS) :
      Step top h (hlPiece top cursor p dflt off h) :=
    match p with
    | .leaf s e k => by
      simp only [hlPiece]
      exact ((step_skipAhead top _ _).trans (step_appendSpan top _ _ _ _)).trans (step_skipAhead top _ _)
    | .dq s e subs => by
      simp only [hlPiece]
      exact ((((step_skipAhead top _ _).trans (step_setMissing top _ _)).trans
        (step_hlPieces subs _ _ _)).trans (step_setMissing top _ _)).trans (step_skipAhead top _ _)
    | .sub s e openLen prog => by
      simp only [hlPiece]
      exact ((((step_skipAhead top _ _).trans (step_setMissing top _ _)).trans
        (step_hlProg prog _ _)).trans (step_setMissing top _ _)).trans (step_skipAhead top _ _)
  theorem step_hlPieces (ps : List Piece) (dflt : Kind) (off : Nat) (h : HS) :
      Step top h (hlPieces top cursor ps dflt off h) :=
    match ps with
    | [] => by simp only [hlPieces]; exact Step.refl _ _
    | p :: rest => by
      simp only [hlPieces]
      exact (step_hlPiece p dflt off h).trans (step_hlPieces rest dflt off _)
  theorem step_hlToks (line : Str) (ts : List Tok) (off : Nat) (saw : Bool) (h : HS) :
      Step top h (hlToks top cursor line ts off saw h) :=
    match ts with
    | [] => by simp only [hlToks]; exact Step.refl _ _
    | .op s e :: rest => by
      simp only [hlToks]
      exact (step_appendSpan top _ _ _ _).trans (step_hlToks line rest off saw _)
    | .wordFail s e w cls :: rest => by
      simp only [hlToks]
      exact step_hlToks line rest off saw h
    | .word s e w cls ps :: rest => by
      simp only [hlToks]
      exact (step_hlPieces ps _ _ h).trans (step_hlToks line rest off _ _)
  theorem step_hlProg (p : Prog) (off : Nat) (h : HS) : Step top h (hlProg top cursor p off h) :=
    match p with
    | .failed line => by simp only [hlProg]; exact step_appendSpan top _ _ _ _
    | .ok line toks => by
      simp only [hlProg]
      exact (step_hlToks line toks off false h).trans (step_skipAhead top _ _)
end

end

/-! ## rendering: the text of a span, as `Highlighted::text` resolves it -/

/-- the chars of `l` (first char at byte `acc`) that start in `[a, b)` -/
def sliceFrom : Str → Nat → Nat → Nat → Str
  | [], _, _, _ => []
  | c :: cs, acc, a, b => (if a ≤ acc ∧ acc < b then [c] else []) ++ sliceFrom cs (acc + c.utf8Size) a b

/-- `line.get(range).unwrap_or("")`: the text when both ends are char boundaries, else nothing -/
def spanText (line : Str) (s : Span) : Str :=
  if isBoundary line s.start && isBoundary line s.stop then sliceFrom line 0 s.start s.stop else []

theorem slice_nil_of_ge (l : Str) (acc a m : Nat) (h : m ≤ acc) : sliceFrom l acc a m = [] := by
  induction l generalizing acc with
  | nil => rfl
  | cons c cs ih =>
    have : ¬ (a ≤ acc ∧ acc < m) := by omega
    simp [sliceFrom, this, ih (acc + c.utf8Size) (by omega)]

theorem slice_nil_of_ge_self (l : Str) (acc a : Nat) : sliceFrom l acc a a = [] := by
  induction l generalizing acc with
  | nil => rfl
  | cons c cs ih =>
    have : ¬ (a ≤ acc ∧ acc < a) := by omega
    simp [sliceFrom, this, ih]

theorem slice_split (l : Str) (acc a m b : Nat) (h1 : a ≤ m) (h2 : m ≤ b) :
    sliceFrom l acc a m ++ sliceFrom l acc m b = sliceFrom l acc a b := by
  induction l generalizing acc with
  | nil => rfl
  | cons c cs ih =>
    simp only [sliceFrom]
    by_cases hA : a ≤ acc ∧ acc < m
    · have hB : ¬ (m ≤ acc ∧ acc < b) := by omega
      have hC : a ≤ acc ∧ acc < b := by omega
      rw [if_pos hA, if_neg hB, if_pos hC, ← ih (acc + c.utf8Size)]
      simp
    · by_cases hB : m ≤ acc ∧ acc < b
      · have hC : a ≤ acc ∧ acc < b := by omega
        have hn := slice_nil_of_ge cs (acc + c.utf8Size) a m (by omega)
        rw [if_neg hA, if_pos hB, if_pos hC, ← ih (acc + c.utf8Size), hn]
        simp
      · have hC : ¬ (a ≤ acc ∧ acc < b) := by omega
        rw [if_neg hA, if_neg hB, if_neg hC, ← ih (acc + c.utf8Size)]
        simp

theorem flatMap_congr' {α β : Type} (l : List α) (f g : α → List β) (h : ∀ x ∈ l, f x = g x) :
    l.flatMap f = l.flatMap g := by
  induction l with
  | nil => rfl
  | cons x xs ih =>
    simp only [List.flatMap_cons]
    rw [h x (by simp), ih (fun y hy => h y (by simp [hy]))]

theorem tiles_le (a b : Nat) (xs : List Span) (h : TilesFrom a xs b) : a ≤ b := by
  induction xs generalizing a with
  | nil => simp only [TilesFrom] at h; omega
  | cons x xs ih =>
    obtain ⟨h1, h2, h3⟩ := h
    have := ih _ h3
    omega

theorem tiles_render (l : Str) (acc a b : Nat) (xs : List Span) (h : TilesFrom a xs b) :
    xs.flatMap (fun s => sliceFrom l acc s.start s.stop) = sliceFrom l acc a b := by
  induction xs generalizing a with
  | nil =>
    simp only [TilesFrom] at h
    subst h
    simp [slice_nil_of_ge_self]
  | cons x xs ih =>
    obtain ⟨h1, h2, h3⟩ := h
    have hle := tiles_le _ _ _ h3
    simp only [List.flatMap_cons, ih _ h3]
    rw [h1] at h2 ⊢
    exact slice_split l acc a x.stop b (by omega) hle

theorem slice_full (l : Str) (acc : Nat) : sliceFrom l acc acc (acc + byteLen l) = l := by
  induction l generalizing acc with
  | nil => rfl
  | cons c cs ih =>
    have hp := Char.utf8Size_pos c
    have hA : acc ≤ acc ∧ acc < acc + byteLen (c :: cs) := by simp only [byteLen_cons]; omega
    simp only [sliceFrom, hA, and_self, ↓reduceIte, List.singleton_append, List.cons.injEq, true_and]
    have e1 : sliceFrom cs (acc + c.utf8Size) acc (acc + byteLen (c :: cs)) =
        sliceFrom cs (acc + c.utf8Size) acc (acc + c.utf8Size) ++
        sliceFrom cs (acc + c.utf8Size) (acc + c.utf8Size) (acc + byteLen (c :: cs)) :=
      (slice_split _ _ _ _ _ (by omega) (by simp only [byteLen_cons]; omega)).symm
    rw [e1, slice_nil_of_ge _ _ _ _ (Nat.le_refl _), List.nil_append]
    have : acc + byteLen (c :: cs) = (acc + c.utf8Size) + byteLen cs := by simp only [byteLen_cons]; omega
    rw [this]
    exact ih _

/-! ## what the span boundaries depend on

The *geometry* of a tree — program texts, token char spans, piece byte offsets, nesting — is what the
tokenizer and the word parser compute from the line and their option flags (`TokenizerOptions`,
`ParserOptions`: extglob, posix, sh mode).  Everything else in the tree (the tokenized word text, how
the shell classifies it: keyword / alias / function / builtin / found on PATH / existing path, the
piece kinds) comes from the rest of the shell's state, and together with the cursor only picks
*kinds*. -/

mutual
  def geomPiece : Piece → Piece
    | .leaf s e _ => .leaf s e .text
    | .dq s e subs => .dq s e (geomPieces subs)
    | .sub s e openLen p => .sub s e openLen (geomProg p)
  def geomPieces : List Piece → List Piece
    | [] => []
    | p :: rest => geomPiece p :: geomPieces rest
  def geomToks : List Tok → List Tok
    | [] => []
    | .op s e :: rest => .op s e :: geomToks rest
    | .wordFail s e _ _ :: rest => .wordFail s e [] .notFound :: geomToks rest
    | .word s e _ _ ps :: rest => .word s e [] .notFound (geomPieces ps) :: geomToks rest
  /-- the tree with every word text, classification and piece kind erased -/
  def geomProg : Prog → Prog
    | .failed line => .failed line
    | .ok line toks => .ok line (geomToks toks)
end

theorem geomProg_line (p : Prog) : (geomProg p).line = p.line := by
  cases p <;> simp [geomProg, Prog.line]

/-- the byte ranges of the spans, kinds dropped -/
def ranges (l : List Span) : List (Nat × Nat) := l.map (fun s => (s.start, s.stop))

/-- two builder states that differ in kinds only -/
def Sim (h h' : HS) : Prop := ranges h.spans = ranges h'.spans ∧ h.cur = h'.cur ∧ h.trap = h'.trap

theorem Sim.refl (h : HS) : Sim h h := ⟨rfl, rfl, rfl⟩
theorem Sim.symm {a b : HS} (h : Sim a b) : Sim b a := ⟨h.1.symm, h.2.1.symm, h.2.2.symm⟩
theorem Sim.trans {a b c : HS} (h1 : Sim a b) (h2 : Sim b c) : Sim a c :=
  ⟨h1.1.trans h2.1, h1.2.1.trans h2.2.1, h1.2.2.trans h2.2.2⟩

theorem sim_appendSpan (top : Str) (h h' : HS) (k k' : Kind) (s e : Nat) (hs : Sim h h') :
    Sim (appendSpan top h k s e) (appendSpan top h' k' s e) := by
  obtain ⟨h1, h2, h3⟩ := hs
  refine ⟨?_, rfl, ?_⟩
  · simp only [appendSpan, h2]
    by_cases hg : s > h'.cur <;> by_cases hlt : s < e <;>
      simp [hg, hlt, ranges, List.map_append] <;> simpa [ranges] using h1
  · simp only [appendSpan, h3]

theorem sim_skipAhead (top : Str) (h h' : HS) (d : Nat) (hs : Sim h h') :
    Sim (skipAhead top h d) (skipAhead top h' d) := sim_appendSpan top h h' _ _ d d hs

theorem sim_setMissing (h h' : HS) (k k' : Kind) (hs : Sim h h') : Sim (setMissing h k) (setMissing h' k') := hs

section
variable (top : Str) (c c' : Nat)

mutual
  theorem sim_hlPiece (p : Piece) (d d' : Kind) (off : Nat) (h h' : HS) (hs : Sim h h') :
      Sim (hlPiece top c p d off h) (hlPiece top c' (geomPiece p) d' off h') :=
    match p with
    | .leaf s e k => by
      simp only [geomPiece, hlPiece]
      exact sim_skipAhead _ _ _ _ (sim_appendSpan _ _ _ _ _ _ _ (sim_skipAhead _ _ _ _ hs))
    | .dq s e subs => by
      simp only [geomPiece, hlPiece]
      exact sim_skipAhead _ _ _ _ (sim_setMissing _ _ _ _
        (sim_hlPieces subs _ _ off _ _ (sim_setMissing _ _ _ _ (sim_skipAhead _ _ _ _ hs))))
    | .sub s e openLen prog => by
      simp only [geomPiece, hlPiece]
      exact sim_skipAhead _ _ _ _ (sim_setMissing _ _ _ _
        (sim_hlProg prog _ _ _ (sim_setMissing _ _ _ _ (sim_skipAhead _ _ _ _ hs))))
  theorem sim_hlPieces (ps : List Piece) (d d' : Kind) (off : Nat) (h h' : HS) (hs : Sim h h') :
      Sim (hlPieces top c ps d off h) (hlPieces top c' (geomPieces ps) d' off h') :=
    match ps with
    | [] => by simp only [geomPieces, hlPieces]; exact hs
    | p :: rest => by
      simp only [geomPieces, hlPieces]
      exact sim_hlPieces rest d d' off _ _ (sim_hlPiece p d d' off h h' hs)
  theorem sim_hlToks (line : Str) (ts : List Tok) (off : Nat) (saw saw' : Bool) (h h' : HS) (hs : Sim h h') :
      Sim (hlToks top c line ts off saw h) (hlToks top c' line (geomToks ts) off saw' h') :=
    match ts with
    | [] => by simp only [geomToks, hlToks]; exact hs
    | .op s e :: rest => by
      simp only [geomToks, hlToks]
      exact sim_hlToks line rest off saw saw' _ _ (sim_appendSpan _ _ _ _ _ _ _ hs)
    | .wordFail s e w cls :: rest => by
      simp only [geomToks, hlToks]
      exact sim_hlToks line rest off saw saw' _ _ hs
    | .word s e w cls ps :: rest => by
      simp only [geomToks, hlToks]
      exact sim_hlToks line rest off _ _ _ _ (sim_hlPieces ps _ _ _ h h' hs)
  theorem sim_hlProg (p : Prog) (off : Nat) (h h' : HS) (hs : Sim h h') :
      Sim (hlProg top c p off h) (hlProg top c' (geomProg p) off h') :=
    match p with
    | .failed line => by
      simp only [geomProg, hlProg]
      exact sim_appendSpan _ _ _ _ _ _ _ hs
    | .ok line toks => by
      simp only [geomProg, hlProg]
      exact sim_skipAhead _ _ _ _ (sim_hlToks line toks off false false h h' hs)
end

end

end BrushVerif.Highlight
