import BrushVerif.Model.Expand
import BrushVerif.Spec.WordExp
/-! Lemmas about the piece/field algebra of `Model/Expand.lean` (C04, C05). -/
namespace BrushVerif.Expand
open BrushVerif.Wire

/-- every piece of the field came out of quotes -/
def AllUnsplit (f : Field) : Prop := ∀ p ∈ f, p.isUnsplit = true

theorem allUnsplit_nil : AllUnsplit [] := by intro p hp; cases hp

theorem allUnsplit_append {f g : Field} (hf : AllUnsplit f) (hg : AllUnsplit g) : AllUnsplit (f ++ g) := by
  intro p hp
  rcases List.mem_append.mp hp with h | h
  · exact hf p h
  · exact hg p h

theorem allUnsplit_map_mk (f : Field) : AllUnsplit (f.map Piece.mkUnsplit) := by
  intro p hp
  obtain ⟨q, _, rfl⟩ := List.mem_map.mp hp
  cases q <;> rfl

theorem mkUnsplit_str (p : Piece) : p.mkUnsplit.str = p.str := by cases p <;> rfl

theorem fieldStr_map_mk (f : Field) : fieldStr (f.map Piece.mkUnsplit) = fieldStr f := by
  induction f with
  | nil => rfl
  | cons p r ih =>
    simp only [fieldStr, List.map_cons, List.flatMap_cons, mkUnsplit_str] at ih ⊢
    rw [ih]

theorem fieldStr_append (f g : Field) : fieldStr (f ++ g) = fieldStr f ++ fieldStr g := by
  simp [fieldStr, List.flatMap_append]

theorem mkUnsplit_idem (f : Field) : (f.map Piece.mkUnsplit).map Piece.mkUnsplit = f.map Piece.mkUnsplit := by
  induction f with
  | nil => rfl
  | cons p r ih => cases p <;> simp [Piece.mkUnsplit, ih]

/-! ## `split_fields` leaves quoted pieces alone -/

theorem splitPieces_unsplit (ifs : Str) (f : Field) (hf : AllUnsplit f) :
    ∀ (fs : List Field) (cur : Field), splitPieces ifs (fs, cur) f = (fs, cur ++ f) := by
  induction f with
  | nil => intro fs cur; simp [splitPieces]
  | cons p r ih =>
    intro fs cur
    have hp := hf p (by simp)
    cases p with
    | split s => simp [Piece.isUnsplit] at hp
    | unsplit s =>
      rw [splitPieces, ih (fun q hq => hf q (by simp [hq]))]
      simp

theorem splitGo_unsplit (ifs : Str) (fields : List Field)
    (h : ∀ f ∈ fields, AllUnsplit f ∧ f ≠ []) :
    ∀ fs : List Field, splitGo ifs (fs, []) fields = fs ++ fields := by
  induction fields with
  | nil => intro fs; simp [splitGo]
  | cons f r ih =>
    intro fs
    obtain ⟨hu, hne⟩ := h f (by simp)
    rw [splitGo, splitPieces_unsplit ifs f hu]
    have : flushCur (fs, [] ++ f) = (fs ++ [f], []) := by
      cases f with
      | nil => exact absurd rfl hne
      | cons p q => simp [flushCur]
    rw [this, ih (fun g hg => h g (by simp [hg]))]
    simp

theorem splitFields_unsplit (ifs : Str) (e : Expansion)
    (h : ∀ f ∈ e.fields, AllUnsplit f ∧ f ≠ []) : splitFields ifs e = e.fields := by
  simp [splitFields, splitGo_unsplit ifs e.fields h]

/-! ## pathname expansion leaves quoted pieces alone -/

theorem kindOf_plain (c : Char) (h : Pattern.needsQuoting c = false) : Pattern.kindOf c = none := by
  unfold Pattern.kindOf
  split <;> simp_all [Pattern.needsQuoting, Pattern.isSpecial]

theorem parseBracket_plain (c : Char) (r : Str) (h : c ≠ '[') : Pattern.parseBracket (c :: r) = none := by
  unfold Pattern.parseBracket
  split
  · rename_i heq; simp at heq; exact absurd heq.1 h
  · rfl

theorem globPieceAt_plain (ext : Bool) (c : Char) (r : Str) (h : Pattern.needsQuoting c = false) :
    Pattern.globPieceAt ext (c :: r) = false := by
  have hb : c ≠ '[' := by intro hc; subst hc; simp [Pattern.needsQuoting, Pattern.isSpecial] at h
  have hbs : c ≠ '\\' := by intro hc; subst hc; simp [Pattern.needsQuoting, Pattern.isSpecial] at h
  have hq : c ≠ '?' := by intro hc; subst hc; simp [Pattern.needsQuoting, Pattern.isSpecial] at h
  have hs : c ≠ '*' := by intro hc; subst hc; simp [Pattern.needsQuoting, Pattern.isSpecial] at h
  have hk := kindOf_plain c h
  have hp : Pattern.parsePiece true (4 * (r.length + 1) + 4) (c :: r) = some (.lit c, r) := by
    rw [show 4 * (r.length + 1) + 4 = (4 * (r.length + 1) + 3) + 1 from rfl]
    unfold Pattern.parsePiece
    simp [hbs, parseBracket_plain c r hb, hk, hq, hs]
  simp [Pattern.globPieceAt, parseBracket_plain c r hb, hp, hq, hs]

theorem hasGlob_escapeLiteral (ext : Bool) (s : Str) : Pattern.hasGlob ext (Pattern.escapeLiteral s) = false := by
  induction s with
  | nil => simp [Pattern.escapeLiteral, Pattern.hasGlob]
  | cons c r ih =>
    simp only [Pattern.escapeLiteral, List.flatMap_cons] at ih ⊢
    cases h : Pattern.needsQuoting c with
    | true => simp only [↓reduceIte, List.cons_append, List.nil_append]; rw [Pattern.hasGlob]; exact ih
    | false =>
      have hbs : c ≠ '\\' := by intro hc; subst hc; simp [Pattern.needsQuoting, Pattern.isSpecial] at h
      simp only [Bool.false_eq_true, ↓reduceIte, List.cons_append, List.nil_append]
      rw [Pattern.hasGlob]
      · simp [globPieceAt_plain ext c _ h, ih]
      · intro _ _ hc _; exact hbs hc


theorem patternText_literal (f : Field) (h : AllUnsplit f) :
    patternText (f.map toPattern) = Pattern.escapeLiteral (fieldStr f) := by
  induction f with
  | nil => rfl
  | cons p r ih =>
    have hp := h p (by simp)
    cases p with
    | split s => simp [Piece.isUnsplit] at hp
    | unsplit s =>
      have := ih (fun q hq => h q (by simp [hq]))
      simp only [patternText, List.map_cons, List.flatMap_cons, toPattern, fieldStr, Piece.str,
        Pattern.escapeLiteral, List.flatMap_append] at this ⊢
      rw [this]

theorem requiresExpansion_literal (ext : Bool) (f : Field) (h : AllUnsplit f) :
    requiresExpansion ext (f.map toPattern) = false := by
  rw [requiresExpansion, patternText_literal f h, hasGlob_escapeLiteral]

theorem patStr_toPattern (f : Field) : (f.map toPattern).flatMap PatPiece.str = fieldStr f := by
  induction f with
  | nil => rfl
  | cons p r ih =>
    cases p <;> simp [toPattern, PatPiece.str, fieldStr, Piece.str] at ih ⊢ <;> exact ih

theorem globField_literal (opts : Opts) (names : List Str) (f : Field) (h : AllUnsplit f) (hne : f ≠ []) :
    globField opts names f = some [fieldStr f] := by
  have hm : (f.map toPattern).isEmpty = false := by
    cases f with
    | nil => exact absurd rfl hne
    | cons p r => rfl
  simp [globField, patExpand, hm, requiresExpansion_literal opts.extglob f h, patStr_toPattern]

theorem globFields_literal (opts : Opts) (names : List Str) (fields : List Field)
    (h : ∀ f ∈ fields, AllUnsplit f ∧ f ≠ []) :
    globFields opts names fields = some (fields.map fieldStr) := by
  induction fields with
  | nil => rfl
  | cons f r ih =>
    obtain ⟨hu, hne⟩ := h f (by simp)
    have ih' := ih (fun g hg => h g (by simp [hg]))
    rw [globFields]
    split
    · simp [ih']
    · simp [globField_literal opts names f hu hne, ih']

/-- an expansion whose fields are all quoted goes through splitting and globbing untouched, whatever IFS,
the glob options and the directory are -/
theorem split_glob_unsplit (ifs : Str) (opts : Opts) (names : List Str) (e : Expansion)
    (h : ∀ f ∈ e.fields, AllUnsplit f ∧ f ≠ []) :
    globFields opts names (splitFields ifs e) = some (e.fields.map fieldStr) := by
  rw [splitFields_unsplit ifs e h, globFields_literal opts names e.fields h]

/-! ## double quotes -/

/-- the text a concatenating expansion contributes inside double quotes -/
def joinedStr (j : Str) (e : Expansion) : Str := joinWith j (e.fields.map fieldStr)

theorem intersperseFlat_unsplit (j : Str) (fs : List Field) :
    AllUnsplit (intersperseFlat [.unsplit j] (fs.map fun f => f.map Piece.mkUnsplit)) := by
  induction fs with
  | nil => exact allUnsplit_nil
  | cons f r ih =>
    cases r with
    | nil => simpa [intersperseFlat] using allUnsplit_map_mk f
    | cons g r' =>
      simp only [List.map_cons, intersperseFlat] at ih ⊢
      refine allUnsplit_append (allUnsplit_append (allUnsplit_map_mk f) ?_) ih
      intro p hp; simp at hp; subst hp; rfl

theorem intersperseFlat_str (j : Str) (fs : List Field) :
    fieldStr (intersperseFlat [.unsplit j] (fs.map fun f => f.map Piece.mkUnsplit)) =
      joinWith j (fs.map fieldStr) := by
  induction fs with
  | nil => rfl
  | cons f r ih =>
    cases r with
    | nil => simp [intersperseFlat, joinWith, fieldStr_map_mk]
    | cons g r' =>
      simp only [List.map_cons, intersperseFlat, joinWith, fieldStr_append, fieldStr_map_mk] at ih ⊢
      rw [ih]
      simp [fieldStr, Piece.str]

/-- the single field a concatenating piece appends inside double quotes -/
def dqPiece (j : Str) (e : Expansion) : Field :=
  let c := intersperseFlat [.unsplit j] (e.fields.map fun f => f.map Piece.mkUnsplit)
  (if c.isEmpty then [.split []] else c).map Piece.mkUnsplit

theorem dqPiece_spec (j : Str) (e : Expansion) :
    AllUnsplit (dqPiece j e) ∧ dqPiece j e ≠ [] ∧ fieldStr (dqPiece j e) = joinedStr j e := by
  unfold dqPiece
  have hs := intersperseFlat_str j e.fields
  cases hc : (intersperseFlat [.unsplit j] (e.fields.map fun f => f.map Piece.mkUnsplit)) with
  | nil =>
    rw [hc] at hs
    refine ⟨?_, by simp, ?_⟩
    · intro p hp; simp [Piece.mkUnsplit] at hp; subst hp; rfl
    · simp only [List.isEmpty_nil, ↓reduceIte, joinedStr, ← hs]; rfl
  | cons p r =>
    rw [hc] at hs
    refine ⟨allUnsplit_map_mk _, by simp, ?_⟩
    simp only [List.isEmpty_cons, Bool.false_eq_true, ↓reduceIte, fieldStr_map_mk, joinedStr, ← hs]

theorem dqStep_concat (j : Str) (fields : List Field) (e : Expansion) (h : e.concatenate = true) :
    dqStep j fields e = glue fields [dqPiece j e] := by
  simp [dqStep, h, dqPiece]

/-- inside double quotes, concatenating pieces (everything except `$@`-like ones) build ONE field of quoted
pieces whose text is the concatenation of the pieces' texts -/
theorem foldl_dqStep_concat (j : Str) (es : List Expansion) (h : ∀ e ∈ es, e.concatenate = true) :
    ∀ (F : Field), AllUnsplit F → F ≠ [] →
      ∃ G : Field, es.foldl (dqStep j) [F] = [G] ∧ AllUnsplit G ∧ G ≠ [] ∧
        fieldStr G = fieldStr F ++ es.flatMap (joinedStr j) := by
  induction es with
  | nil => intro F hF hne; exact ⟨F, rfl, hF, hne, by simp⟩
  | cons e r ih =>
    intro F hF hne
    obtain ⟨hu, hn, hs⟩ := dqPiece_spec j e
    have hstep : dqStep j [F] e = [F ++ dqPiece j e] := by
      rw [dqStep_concat j [F] e (h e (by simp))]; rfl
    obtain ⟨G, hG, hGu, hGn, hGs⟩ := ih (fun e' he' => h e' (by simp [he'])) (F ++ dqPiece j e)
      (allUnsplit_append hF hu) (by simp [hne])
    refine ⟨G, ?_, hGu, hGn, ?_⟩
    · rw [List.foldl_cons, hstep, hG]
    · rw [hGs, fieldStr_append, hs]; simp

theorem sawEmptyList_concat (es : List Expansion) (h : ∀ e ∈ es, e.concatenate = true) : sawEmptyList es = false := by
  simp only [sawEmptyList, List.any_eq_false]
  intro e he
  simp [h e he]

theorem expandDQ_concat (j : Str) (es : List Expansion) (h : ∀ e ∈ es, e.concatenate = true) :
    ∃ G : Field, (expandDQ j es).fields = [G] ∧ AllUnsplit G ∧ G ≠ [] ∧
      fieldStr G = es.flatMap (joinedStr j) := by
  cases es with
  | nil =>
    refine ⟨[.unsplit []], by simp [expandDQ, dropNullAt, sawEmptyList], ?_, by simp, by simp [fieldStr, Piece.str]⟩
    intro p hp; simp at hp; subst hp; rfl
  | cons e r =>
    obtain ⟨hu, hn, hs⟩ := dqPiece_spec j e
    have h0 : dqStep j [] e = [dqPiece j e] := by
      rw [dqStep_concat j [] e (h e (by simp))]; rfl
    obtain ⟨G, hG, hGu, hGn, hGs⟩ := foldl_dqStep_concat j r (fun e' he' => h e' (by simp [he']))
      (dqPiece j e) hu hn
    refine ⟨G, ?_, hGu, hGn, ?_⟩
    · simp [expandDQ, dropNullAt, sawEmptyList_concat _ h, h0, hG]
    · rw [hGs, hs]; simp

theorem dropNullAt_not_saw (es : List Expansion) (fields : List Field) (h : sawEmptyList es = false) :
    dropNullAt es fields = fields := by simp [dropNullAt, h]

theorem dropNullAt_array (vals : List Str) :
    dropNullAt [arrayExp vals false] (vals.map fun v => [Piece.unsplit v]) = vals.map fun v => [Piece.unsplit v] := by
  cases vals <;> simp [dropNullAt, sawEmptyList, arrayExp]

theorem coalesce_single (e : Expansion) : (coalesce [e]).fields = e.fields := by
  simp [coalesce, glue]

/-! ## `$@`-like pieces inside double quotes -/

theorem dqStep_array_nil (j : Str) (vals : List Str) :
    dqStep j [] (arrayExp vals false) = vals.map fun v => [Piece.unsplit v] := by
  simp [dqStep, arrayExp, glue, Piece.mkUnsplit, Function.comp_def]

/-! ## trailing-newline trimming -/

theorem trimTrailingNl_id (s : Str) (h : s.getLast? ≠ some '\n') : trimTrailingNl s = s := by
  unfold trimTrailingNl
  cases hr : s.reverse with
  | nil => have hs : s = [] := List.reverse_eq_nil_iff.mp hr; simp [hs]
  | cons c r =>
    have hc : s.getLast? = some c := by
      have := congrArg List.head? hr
      simpa [List.head?_reverse] using this
    have : c ≠ '\n' := by intro hcn; apply h; rw [hc, hcn]
    rw [List.dropWhile_cons_of_neg (by simpa using this), ← hr, List.reverse_reverse]

theorem filter_no_nul (s : Str) (h : Char.ofNat 0 ∉ s) : s.filter (· ≠ Char.ofNat 0) = s := by
  apply List.filter_eq_self.mpr
  intro c hc
  simp only [ne_eq, decide_not, Bool.not_eq_eq_eq_not, Bool.not_true, decide_eq_false_iff_not]
  intro hcn; apply h; rw [← hcn]; exact hc

theorem filter_no_nul' (s : Str) (h : Char.ofNat 0 ∉ s) : s.filter (fun x => !decide (x = Char.ofNat 0)) = s := by
  apply List.filter_eq_self.mpr
  intro c hc
  simp only [Bool.not_eq_eq_eq_not, Bool.not_true, decide_eq_false_iff_not]
  intro hcn; apply h; rw [← hcn]; exact hc

end BrushVerif.Expand

/-! ## `split_fields` on unquoted values: the loop computes the maximal runs of non-IFS characters -/
namespace BrushVerif.Expand
open BrushVerif.Wire BrushVerif.WordExp

/-- the field under construction while `cur` is the run read so far -/
def wrap (c : Str) : Field := if c.isEmpty then [] else [.split c]

theorem pushChar_wrap (c0 : Str) (c : Char) : pushChar (wrap c0) c = wrap (c0 ++ [c]) := by
  cases c0 <;> simp [wrap, pushChar]

/-- string-level replay of the loop: (finished runs, run in progress) -/
def segsAcc (ifs : Str) : Str → Str → List Str × Str
  | c0, [] => ([], c0)
  | c0, c :: cs =>
    if ifs.contains c then
      (if c0.isEmpty then segsAcc ifs [] cs else ((c0 :: (segsAcc ifs [] cs).1), (segsAcc ifs [] cs).2))
    else segsAcc ifs (c0 ++ [c]) cs

theorem splitChars_eq (ifs : Str) (s : Str) : ∀ (fs : List Field) (c0 : Str),
    splitChars ifs (fs, wrap c0) s =
      (fs ++ (segsAcc ifs c0 s).1.map (fun x => [Piece.split x]), wrap (segsAcc ifs c0 s).2) := by
  induction s with
  | nil => intro fs c0; simp [splitChars, segsAcc]
  | cons c cs ih =>
    intro fs c0
    rw [splitChars, segsAcc]
    by_cases hc : ifs.contains c = true
    · simp only [hc, ↓reduceIte]
      cases c0 with
      | nil =>
        have := ih fs []
        simpa [wrap] using this
      | cons a r =>
        have := ih (fs ++ [wrap (a :: r)]) []
        simp only [wrap, List.isEmpty_cons, Bool.false_eq_true, ↓reduceIte, List.isEmpty_nil] at this ⊢
        rw [this]; simp
    · simp only [hc, Bool.false_eq_true, ↓reduceIte]
      rw [pushChar_wrap, ih]

theorem segsAcc_spec (ifs : Str) (s : Str) : ∀ c0 : Str,
    (segsAcc ifs c0 s).1 ++ (if (segsAcc ifs c0 s).2.isEmpty then [] else [(segsAcc ifs c0 s).2]) =
      (splitOnAcc ifs.contains c0 s).filter (!·.isEmpty) := by
  induction s with
  | nil => intro c0; cases c0 <;> simp [segsAcc, splitOnAcc]
  | cons c cs ih =>
    intro c0
    rw [segsAcc, splitOnAcc]
    by_cases hc : ifs.contains c = true
    · simp only [hc, ↓reduceIte]
      cases c0 with
      | nil => simpa using ih []
      | cons a r =>
        have := ih []
        simp only [List.isEmpty_cons, Bool.false_eq_true, ↓reduceIte, List.cons_append, List.filter_cons,
          Bool.not_false] at this ⊢
        rw [this]
    · simp only [hc, Bool.false_eq_true, ↓reduceIte]
      exact ih _

/-- one unquoted value, split: its maximal runs of non-IFS characters, each one splittable piece -/
theorem splitPieces_value (ifs : Str) (v : Str) (fs : List Field) :
    flushCur (splitPieces ifs (fs, []) [.split v]) = (fs ++ (fieldsOf ifs v).map (fun x => [Piece.split x]), []) := by
  have h := splitChars_eq ifs v fs []
  have hs := segsAcc_spec ifs v []
  simp only [wrap, List.isEmpty_nil, ↓reduceIte] at h
  simp only [splitPieces, h, fieldsOf, ← hs]
  cases hp : (segsAcc ifs [] v).2 with
  | nil => simp [flushCur]
  | cons a r => simp [flushCur]

theorem splitGo_values (ifs : Str) (vals : List Str) : ∀ fs : List Field,
    splitGo ifs (fs, []) (vals.map fun v => [Piece.split v]) =
      fs ++ vals.flatMap fun v => (fieldsOf ifs v).map (fun x => [Piece.split x]) := by
  induction vals with
  | nil => intro fs; simp [splitGo]
  | cons v r ih =>
    intro fs
    rw [List.map_cons, splitGo, splitPieces_value, ih]
    simp

theorem splitFields_values (ifs : Str) (vals : List Str) (c a u : Bool) :
    splitFields ifs { fields := vals.map fun v => [Piece.split v], concatenate := c, fromArray := a, undefined := u } =
      vals.flatMap fun v => (fieldsOf ifs v).map (fun x => [Piece.split x]) := by
  simp [splitFields, splitGo_values]

/-! ## coalescing is associative; splitting and globbing distribute over a word cut at an unquoted IFS space -/

theorem glue_nil_right' (a : List Field) : glue a [] = a := by
  cases a with
  | nil => rfl
  | cons x r => cases r <;> rfl

theorem glue_cons_cons (x y : Field) (r new : List Field) : glue (x :: y :: r) new = x :: glue (y :: r) new := by
  cases new with
  | nil => simp [glue_nil_right']
  | cons f fs => rfl

theorem glue_assoc (a b c : List Field) : glue (glue a b) c = glue a (glue b c) := by
  induction a with
  | nil => rfl
  | cons x r ih =>
    cases r with
    | nil =>
      cases b with
      | nil => simp [glue]
      | cons f fs =>
        cases fs with
        | nil =>
          cases c with
          | nil => simp [glue]
          | cons g gs => simp [glue, List.append_assoc]
        | cons h t =>
          simp only [glue, glue_cons_cons]
    | cons y r' =>
      rw [glue_cons_cons, glue_cons_cons]
      have hne : ∃ z zs, glue (y :: r') b = z :: zs := by
        cases b with
        | nil => exact ⟨y, r', by simp [glue_nil_right']⟩
        | cons f fs =>
          cases r' with
          | nil => exact ⟨_, _, rfl⟩
          | cons q qs => exact ⟨_, _, glue_cons_cons _ _ _ _⟩
      obtain ⟨z, zs, hz⟩ := hne
      rw [← ih]
      rw [hz]
      cases zs with
      | nil =>
        cases c with
        | nil => simp [glue]
        | cons g gs => simp [glue]
      | cons q qs => rw [glue_cons_cons]

/-- the fields of a coalesced list of expansions -/
def cstep (acc e : Expansion) : Expansion :=
  { fields := glue acc.fields e.fields, concatenate := e.concatenate, fromArray := e.fromArray, undefined := acc.undefined }

theorem foldl_cstep_fields (es : List Expansion) : ∀ acc : Expansion,
    (es.foldl cstep acc).fields = glue acc.fields (es.foldl cstep { fields := [] }).fields := by
  induction es with
  | nil => intro acc; simp [glue_nil_right']
  | cons e r ih =>
    intro acc
    rw [List.foldl_cons, List.foldl_cons, ih (cstep acc e), ih (cstep { fields := [] } e)]
    simp only [cstep, glue]
    rw [glue_assoc]

theorem coalesce_eq (es : List Expansion) : coalesce es = es.foldl cstep { fields := [] } := rfl

theorem coalesce_append_fields (a b : List Expansion) :
    (coalesce (a ++ b)).fields = glue (coalesce a).fields (coalesce b).fields := by
  rw [coalesce_eq, coalesce_eq, coalesce_eq, List.foldl_append, foldl_cstep_fields]

/-! splitting -/

def splitAll (ifs : Str) (st : SplitSt) (fields : List Field) : SplitSt :=
  fields.foldl (fun st f => flushCur (splitPieces ifs st f)) st

theorem splitGo_eq (ifs : Str) (fields : List Field) : ∀ st, splitGo ifs st fields = (splitAll ifs st fields).1 := by
  induction fields with
  | nil => intro st; rfl
  | cons f r ih => intro st; rw [splitGo, ih]; rfl

theorem splitPieces_append (ifs : Str) (a b : List Piece) : ∀ st,
    splitPieces ifs st (a ++ b) = splitPieces ifs (splitPieces ifs st a) b := by
  induction a with
  | nil => intro st; rfl
  | cons p r ih =>
    intro st
    obtain ⟨fs, cur⟩ := st
    cases p with
    | unsplit s => simp only [List.cons_append, splitPieces]; exact ih _
    | split s => simp only [List.cons_append, splitPieces]; exact ih _

theorem splitPieces_space (ifs : Str) (h : ' ' ∈ ifs) (st : SplitSt) :
    splitPieces ifs st [.split [' ']] = flushCur st := by
  obtain ⟨fs, cur⟩ := st
  cases cur <;> simp [splitPieces, splitChars, h, flushCur]

/-- the finished fields only ever grow at the end -/
theorem splitChars_prefix (ifs : Str) (s : Str) : ∀ (fs : List Field) (cur : Field),
    splitChars ifs (fs, cur) s = (fs ++ (splitChars ifs ([], cur) s).1, (splitChars ifs ([], cur) s).2) := by
  induction s with
  | nil => intro fs cur; simp [splitChars]
  | cons c cs ih =>
    intro fs cur
    simp only [splitChars]
    split
    · split
      · exact ih fs cur
      · rw [ih (fs ++ [cur]) [], ih ([] ++ [cur]) []]; simp
    · exact ih fs _

theorem splitPieces_prefix (ifs : Str) (f : List Piece) : ∀ (fs : List Field) (cur : Field),
    splitPieces ifs (fs, cur) f = (fs ++ (splitPieces ifs ([], cur) f).1, (splitPieces ifs ([], cur) f).2) := by
  induction f with
  | nil => intro fs cur; simp [splitPieces]
  | cons p r ih =>
    intro fs cur
    cases p with
    | unsplit s => simp only [splitPieces]; exact ih fs _
    | split s =>
      simp only [splitPieces]
      rw [splitChars_prefix ifs s fs cur, ih, ih (splitChars ifs ([], cur) s).1]
      simp

theorem flushCur_prefix (fs : List Field) (st : SplitSt) :
    flushCur (fs ++ st.1, st.2) = (fs ++ (flushCur st).1, (flushCur st).2) := by
  obtain ⟨a, cur⟩ := st
  cases cur <;> simp [flushCur]

theorem flushCur_snd (st : SplitSt) : (flushCur st).2 = [] := by
  obtain ⟨a, cur⟩ := st
  cases cur <;> simp [flushCur]

theorem splitAll_prefix (ifs : Str) (fields : List Field) : ∀ (fs : List Field),
    splitAll ifs (fs, []) fields = (fs ++ (splitAll ifs ([], []) fields).1, []) := by
  induction fields with
  | nil => intro fs; simp [splitAll]
  | cons f r ih =>
    intro fs
    have hstep : ∀ fs', flushCur (splitPieces ifs (fs', []) f) =
        (fs' ++ (flushCur (splitPieces ifs ([], []) f)).1, []) := by
      intro fs'
      rw [splitPieces_prefix, flushCur_prefix]
      simp [flushCur_snd]
    simp only [splitAll, List.foldl_cons] at ih ⊢
    rw [hstep fs, hstep []]
    have h1 := ih (fs ++ (flushCur (splitPieces ifs ([], []) f)).1)
    have h2 := ih ([] ++ (flushCur (splitPieces ifs ([], []) f)).1)
    simp only [List.nil_append] at h2 ⊢
    rw [h1, h2]; simp

theorem flushCur_idem (st : SplitSt) : flushCur (flushCur st) = flushCur st := by
  obtain ⟨a, cur⟩ := st
  cases cur <;> simp [flushCur]

theorem flushCur_of_nil (fs : List Field) : flushCur (fs, []) = (fs, []) := by simp [flushCur]

theorem splitAll_cons (ifs : Str) (st : SplitSt) (f : Field) (r : List Field) :
    splitAll ifs st (f :: r) = splitAll ifs (flushCur (splitPieces ifs st f)) r := rfl

/-- gluing `X`, an unquoted space and `y :: Y` and then splitting = splitting `X`, then `y :: Y`, when the space is
an IFS character -/
theorem splitAll_glue_space (ifs : Str) (h : ' ' ∈ ifs) (y : Field) (Y : List Field) : ∀ (X : List Field) (fs : List Field),
    splitAll ifs (fs, []) (glue X (([Piece.split [' ']] ++ y) :: Y)) =
      splitAll ifs (splitAll ifs (fs, []) X) (y :: Y) := by
  intro X
  induction X with
  | nil =>
    intro fs
    simp only [glue, splitAll_cons, splitPieces_append, splitPieces_space ifs h, flushCur_of_nil]
    rfl
  | cons l r ih =>
    intro fs
    cases r with
    | nil =>
      simp only [glue, splitAll_cons, splitPieces_append, splitPieces_space ifs h]
      rfl
    | cons b r' =>
      rw [glue_cons_cons]
      show splitAll ifs (flushCur (splitPieces ifs (fs, []) l)) (glue (b :: r') (([Piece.split [' ']] ++ y) :: Y)) =
        splitAll ifs (splitAll ifs (flushCur (splitPieces ifs (fs, []) l)) (b :: r')) (y :: Y)
      have hfs : flushCur (splitPieces ifs (fs, []) l) = ((flushCur (splitPieces ifs (fs, []) l)).1, []) :=
        Prod.ext rfl (flushCur_snd _)
      rw [hfs]
      exact ih _

theorem splitAll_state_nil (ifs : Str) (X : List Field) (fs : List Field) : (splitAll ifs (fs, []) X).2 = [] := by
  rw [splitAll_prefix]

theorem splitFields_glue_space (ifs : Str) (h : ' ' ∈ ifs) (X Y : List Field) :
    splitGo ifs ([], []) (glue X (glue [[Piece.split [' ']]] Y)) =
      splitGo ifs ([], []) X ++ splitGo ifs ([], []) Y := by
  rw [splitGo_eq, splitGo_eq, splitGo_eq]
  have hX : splitAll ifs ([], []) X = ((splitAll ifs ([], []) X).1, []) := by
    rw [splitAll_prefix]
  cases Y with
  | nil =>
    have : glue [[Piece.split [' ']]] [] = ([Piece.split [' ']] ++ []) :: [] := rfl
    rw [this, splitAll_glue_space ifs h, hX, splitAll_cons]
    simp [splitPieces, flushCur, splitAll]
  | cons y Y' =>
    have : glue [[Piece.split [' ']]] (y :: Y') = ([Piece.split [' ']] ++ y) :: Y' := rfl
    rw [this, splitAll_glue_space ifs h, hX, splitAll_prefix]

/-! globbing distributes -/

theorem globFields_append (opts : Opts) (names : List Str) (A B : List Field) :
    globFields opts names (A ++ B) = seqAppend [globFields opts names A, globFields opts names B] := by
  induction A with
  | nil => cases h : globFields opts names B <;> simp [globFields, seqAppend, h]
  | cons f r ih =>
    simp only [List.cons_append, globFields]
    split
    · rw [ih]
      cases globFields opts names r <;> cases globFields opts names B <;> simp [seqAppend]
    · cases globField opts names f with
      | none => simp [seqAppend]
      | some g =>
        rw [ih]
        cases globFields opts names r <;> cases globFields opts names B <;> simp [seqAppend]

/-- a word made of `x`, an unquoted space, `y` expands to the expansions of `x` and of `y`, when the space is an
IFS character -/
theorem fullExpand_space (env : Env) (opts : Opts) (names : List Str) (h : ' ' ∈ env.ifsStr) (x y : Word) :
    fullExpand env opts names (x ++ WP.plain (.base (.text [' '])) :: y) =
      seqAppend [fullExpand env opts names x, fullExpand env opts names y] := by
  have hb : (basicExpand env (x ++ WP.plain (.base (.text [' '])) :: y)).fields =
      glue (basicExpand env x).fields (glue [[Piece.split [' ']]] (basicExpand env y).fields) := by
    have : x ++ WP.plain (.base (.text [' '])) :: y = x ++ ([WP.plain (.base (.text [' ']))] ++ y) := by simp
    rw [this]
    simp only [basicExpand, List.map_append, coalesce_append_fields]
    congr 2
  simp only [fullExpand, splitFields, hb, splitFields_glue_space env.ifsStr h, globFields_append]

theorem seqAppend_single (r : Option (List Str)) : seqAppend [r] = r := by
  cases r <;> simp [seqAppend]

theorem seqAppend_nest (a : Option (List Str)) (l : List (Option (List Str))) :
    seqAppend [a, seqAppend l] = seqAppend (a :: l) := by
  cases a <;> cases h : seqAppend l <;> simp [seqAppend, h]

/-- words joined with unquoted spaces expand to the concatenation of their separate expansions when the space is
an IFS character -/
theorem fullExpand_joined (env : Env) (opts : Opts) (names : List Str) (h : ' ' ∈ env.ifsStr) (r : List Word) :
    ∀ x : Word, fullExpand env opts names (x ++ r.flatMap fun y => WP.plain (.base (.text [' '])) :: y) =
      seqAppend ((x :: r).map (fullExpand env opts names)) := by
  induction r with
  | nil => intro x; simp [seqAppend_single]
  | cons y r' ih =>
    intro x
    have : x ++ (y :: r').flatMap (fun y => WP.plain (.base (.text [' '])) :: y) =
        x ++ WP.plain (.base (.text [' '])) :: (y ++ r'.flatMap fun y => WP.plain (.base (.text [' '])) :: y) := by
      simp
    rw [this, fullExpand_space env opts names h, ih y, seqAppend_nest]
    rfl

/-! ## the tilde-prefix rule on joined words -/

theorem isTilde_iff (p : WP) : isTilde p = true ↔ p = WP.plain (.base .tilde) := by
  constructor
  · intro h
    cases p with
    | dq as => simp [isTilde] at h
    | plain a =>
      cases a with
      | op _ _ _ _ => simp [isTilde] at h
      | base a0 => cases a0 <;> simp [isTilde] at h ⊢
  · intro h; subst h; rfl

theorem untildeAll_append (a b : Word) : untildeAll (a ++ b) = untildeAll a ++ untildeAll b := by
  simp [untildeAll]

theorem untildeAll_joined (r : List Word) :
    untildeAll (r.flatMap fun y => WP.plain (.base (.text [' '])) :: y) =
      r.flatMap fun y => WP.plain (.base (.text [' '])) :: untildeAll y := by
  induction r with
  | nil => rfl
  | cons y r ih =>
    simp only [List.flatMap_cons, untildeAll_append, ih]
    simp [untildeAll, isTilde]

theorem tildeFollowOk_cons_append (t : List Char) (q : WP) (a z : Word) :
    tildeFollowOk t (q :: a ++ z) = tildeFollowOk t (q :: a) := by
  cases q with
  | dq as => rfl
  | plain x =>
    cases x with
    | op _ _ _ _ => rfl
    | base a0 =>
      cases a0 with
      | text s => cases s <;> rfl
      | _ => rfl

/-- the tilde decision of a word is not affected by what is appended to it — unless the word is `~` alone -/
theorem tildeFix_append (t : List Char) (x z : Word) (hne : x ≠ []) (h1 : x ≠ [WP.plain (.base .tilde)]) :
    tildeFix t (x ++ z) = tildeFix t x ++ untildeAll z := by
  cases x with
  | nil => exact absurd rfl hne
  | cons p x' =>
    cases x' with
    | nil =>
      have hp : isTilde p = false := by
        cases h : isTilde p with
        | false => rfl
        | true => exact absurd (by rw [(isTilde_iff p).mp h]) h1
      simp [tildeFix, hp, untildeAll]
    | cons q x'' =>
      simp only [List.cons_append, tildeFix, untildeAll_append]
      rw [show q :: (x'' ++ z) = q :: x'' ++ z from rfl, tildeFollowOk_cons_append]
      simp [untildeAll]

/-! ## expansion reads the environment only through what is visible -/

/-- two environments showing the same bindings: the same visible value for every name (whatever is shadowed
underneath — a global hidden by a function's local, entries in another order), the same positional parameters,
IFS and HOME -/
def SameView (e1 e2 : Env) : Prop :=
  (∀ n, lookup e1.vars n = lookup e2.vars n) ∧ (∀ n, lookup e1.arrays n = lookup e2.arrays n) ∧
  e1.args = e2.args ∧ e1.ifs = e2.ifs ∧ e1.home = e2.home ∧ e1.bashStarJoin = e2.bashStarJoin

theorem expandWP_sameView (e1 e2 : Env) (h : SameView e1 e2) : expandWP e1 = expandWP e2 := by
  obtain ⟨hv, ha, hargs, hifs, hhome, hflag⟩ := h
  have hi : e1.ifsStr = e2.ifsStr := by simp [Env.ifsStr, hifs]
  have hj : e1.joiner = e2.joiner := by simp [Env.joiner, hi, hflag]
  have hP : expandParam e1 = expandParam e2 := by
    funext p; cases p <;> simp [expandParam, hv, ha, hargs]
  have hA0 : expandA0 e1 = expandA0 e2 := by
    funext a; cases a <;> simp [expandA0, hP, hhome]
  have hW0 : expandW0 e1 = expandW0 e2 := by
    funext x; cases x <;> simp [expandW0, hA0, hj]
  have hOp : expandOpWord e1 = expandOpWord e2 := by
    funext d x
    unfold expandOpWord
    simp only [hA0, hW0, hj]
  have hA1 : expandA1 e1 = expandA1 e2 := by
    funext d a; cases a <;> simp only [expandA1, hA0, hOp, hP]
  funext p; cases p <;> simp [expandWP, hA1, hj]

theorem fullExpand_sameView (e1 e2 : Env) (h : SameView e1 e2) (opts : Opts) (names : List Str) (w : Word) :
    fullExpand e1 opts names w = fullExpand e2 opts names w := by
  have hi : e1.ifsStr = e2.ifsStr := by simp [Env.ifsStr, h.2.2.2.1]
  simp [fullExpand, basicExpand, expandWP_sameView e1 e2 h, hi]

theorem expandToStr_sameView (e1 e2 : Env) (h : SameView e1 e2) (w : Word) :
    expandToStr e1 w = expandToStr e2 w := by
  have hi : e1.ifsStr = e2.ifsStr := by simp [Env.ifsStr, h.2.2.2.1]
  have hj : e1.joiner = e2.joiner := by simp [Env.joiner, hi, h.2.2.2.2.2]
  simp only [expandToStr, fieldsToString, basicExpand, expandWP_sameView e1 e2 h, hj]
  rfl

/-- a binding hidden by a newer one for the same name is invisible -/
theorem sameView_shadow (env : Env) (x v old : Str) :
    SameView { env with vars := (x, v) :: (x, old) :: env.vars } { env with vars := (x, v) :: env.vars } := by
  refine ⟨?_, fun _ => rfl, rfl, rfl, rfl, rfl⟩
  intro n
  by_cases hn : x = n <;> simp [lookup, hn]

end BrushVerif.Expand
