import BrushVerif.Model.Pipe
/-! Lemmas about the pipeline model (`Model/Pipe.lean`): a measure that every action decreases,
progress when the stages run concurrently, data conservation for filter pipelines. -/
namespace BrushVerif.Pipe
open BrushVerif.Wire

/-! ## every action decreases a measure -/

def rank : St → Nat
  | .notStarted => 2
  | .running _ _ => 1
  | .exited _ => 0

/-- each byte counts once for every stage it still has to pass; each stage counts its remaining
life-cycle transitions -/
def meas : Nat → List Cell → Nat
  | _, [] => 0
  | up, c :: cs => (up + c.buf.length) + rank c.st + meas (up + c.buf.length) cs

theorem meas_mono (cs : List Cell) : ∀ (a b : Nat), a ≤ b → meas a cs ≤ meas b cs := by
  induction cs with
  | nil => intro a b _; simp [meas]
  | cons c cs ih =>
    intro a b h
    have := ih (a + c.buf.length) (b + c.buf.length) (by omega)
    simp only [meas]; omega

theorem take_len_le (l : List Byte) (n : Nat) : (l.take n).length ≤ l.length := by
  simp [List.length_take]; omega

theorem headAct_meas (cap n : Nat) (u v : Bool) (cells : List Cell) (out : List Byte)
    (r : List Cell × List Byte) (up : Nat) (h : headAct cap n u v cells out = some r) :
    meas up r.1 < meas up cells := by
  cases cells with
  | nil => simp [headAct] at h
  | cons c cs =>
    unfold headAct at h
    cases hst : c.st with
    | notStarted =>
      simp only [hst] at h
      split at h
      · cases h; simp [meas, rank, hst]
      · cases h
    | exited k => simp [hst] at h
    | running fwd failed =>
      simp only [hst] at h
      split at h
      · cases h; simp [meas, rank, hst]
      · split at h
        · split at h
          · cases h; simp [meas, rank, hst]
          · cases h
        · have hm := take_len_le c.buf (n + 1)
          generalize hmdef : min (c.buf.take (n + 1)).length (remaining c fwd n) = m at h
          have hmle : m ≤ c.buf.length := by omega
          split at h
          · cases h
          · rename_i hm0
            split at h
            · cases h
              have := meas_mono cs (up + (c.buf.length - m)) (up + c.buf.length) (by omega)
              simp [meas, rank, hst, List.length_drop]; omega
            · split at h
              · cases h
                simp [meas, rank, hst, List.length_drop]; omega
              · rename_i d ds
                split at h
                · split at h
                  · cases h; simp [meas, rank, hst]
                  · cases h
                    have := meas_mono (d :: ds) (up + (c.buf.length - m)) (up + c.buf.length) (by omega)
                    simp only [meas] at this
                    simp [meas, rank, hst, List.length_drop]; omega
                · generalize hkdef : min m (cap - d.buf.length) = k at h
                  split at h
                  · cases h
                  · cases h
                    have hk : k ≤ c.buf.length := by omega
                    have hk0 : k ≠ 0 := by assumption
                    simp only [meas, rank, hst, List.length_drop, List.length_append, List.length_map,
                      List.length_take, Nat.min_eq_left hk]
                    have e : up + (c.buf.length - k) + (d.buf.length + k) = up + c.buf.length + d.buf.length := by omega
                    rw [e]; omega

theorem stepAt_meas (cap n : Nat) : ∀ (p : Nat) (u v : Bool) (cells : List Cell) (out : List Byte)
    (r : List Cell × List Byte) (up : Nat), stepAt cap n p u v cells out = some r →
    meas up r.1 < meas up cells := by
  intro p
  induction p with
  | zero => intro u v cells out r up h; exact headAct_meas cap n u v cells out r up (by simpa [stepAt] using h)
  | succ p ih =>
    intro u v cells out r up h
    cases cells with
    | nil => simp [stepAt] at h
    | cons c cs =>
      simp only [stepAt, Option.map_eq_some_iff] at h
      obtain ⟨r', hr', rfl⟩ := h
      have := ih _ _ cs out r' (up + c.buf.length) hr'
      simp only [meas]; omega

theorem step_meas (cap : Nat) (s s' : State) (h : Step cap s s') : meas 0 s'.cells < meas 0 s.cells := by
  obtain ⟨p, n, h⟩ := h
  simp only [act, Option.map_eq_some_iff] at h
  obtain ⟨r, hr, rfl⟩ := h
  exact stepAt_meas cap n p true true s.cells s.out r 0 hr

/-! ## the stages' specifications never change -/

def specsOf (cells : List Cell) : List Spec := cells.map (·.spec)

theorem headAct_specs (cap n : Nat) (u v : Bool) (cells : List Cell) (out : List Byte)
    (r : List Cell × List Byte) (h : headAct cap n u v cells out = some r) :
    specsOf r.1 = specsOf cells := by
  cases cells with
  | nil => simp [headAct] at h
  | cons c cs =>
    unfold headAct at h
    cases hst : c.st with
    | notStarted =>
      simp only [hst] at h
      split at h
      · cases h; simp [specsOf]
      · cases h
    | exited k => simp [hst] at h
    | running fwd failed =>
      simp only [hst] at h
      split at h
      · cases h; simp [specsOf]
      · split at h
        · split at h
          · cases h; simp [specsOf]
          · cases h
        · split at h
          · cases h
          · split at h
            · cases h; simp [specsOf]
            · split at h
              · cases h; simp [specsOf]
              · split at h
                · split at h <;> (cases h; simp [specsOf])
                · split at h
                  · cases h
                  · cases h; simp [specsOf]

theorem stepAt_specs (cap n : Nat) : ∀ (p : Nat) (u v : Bool) (cells : List Cell) (out : List Byte)
    (r : List Cell × List Byte), stepAt cap n p u v cells out = some r → specsOf r.1 = specsOf cells := by
  intro p
  induction p with
  | zero => intro u v cells out r h; exact headAct_specs cap n u v cells out r (by simpa [stepAt] using h)
  | succ p ih =>
    intro u v cells out r h
    cases cells with
    | nil => simp [stepAt] at h
    | cons c cs =>
      simp only [stepAt, Option.map_eq_some_iff] at h
      obtain ⟨r', hr', rfl⟩ := h
      have := ih _ _ cs out r' hr'
      simp only [specsOf, List.map_cons] at this ⊢
      rw [this]

/-! ## progress -/

/-- every stage but the last is started and left running (external command, builtin on a thread) -/
def NonFinalConcurrent : List Spec → Prop
  | [] => True
  | [_] => True
  | sp :: sq :: sps => sp.inline = false ∧ NonFinalConcurrent (sq :: sps)

def AllExited (cells : List Cell) : Prop := ∀ c ∈ cells, c.st.isExited = true

/-- the head stage is running, has read everything that was written to it, and wants more -/
def Waiting : List Cell → Prop
  | [] => False
  | c :: _ => c.buf = [] ∧ ∃ fwd failed, c.st = .running fwd failed ∧ limitReached c fwd = false

theorem stepAt_succ_of (cap n p : Nat) (u v : Bool) (c : Cell) (cs : List Cell) (out : List Byte)
    (h : (stepAt cap n p c.st.isExited (spawnOK c) cs out).isSome = true) :
    (stepAt cap n (p + 1) u v (c :: cs) out).isSome = true := by
  simp [stepAt, h]

theorem remaining_pos (c : Cell) (fwd n : Nat) (h : limitReached c fwd = false) : 1 ≤ remaining c fwd n := by
  unfold limitReached at h
  unfold remaining
  split <;> simp_all <;> omega

theorem progress (cap : Nat) (hcap : 1 ≤ cap) (out : List Byte) : ∀ (cells : List Cell) (u : Bool),
    NonFinalConcurrent (specsOf cells) →
    (∃ p, (stepAt cap 0 p u true cells out).isSome = true) ∨ AllExited cells ∨ (u = false ∧ Waiting cells) := by
  intro cells
  induction cells with
  | nil => intro u _; right; left; intro c hc; cases hc
  | cons c cs ih =>
    intro u hnfc
    have hnfc' : NonFinalConcurrent (specsOf cs) := by
      cases cs with
      | nil => simp [specsOf, NonFinalConcurrent]
      | cons d ds => exact hnfc.2
    cases hst : c.st with
    | notStarted =>
      left; exact ⟨0, by simp [stepAt, headAct, hst]⟩
    | exited k =>
      have hok : spawnOK c = true := by simp [spawnOK, hst, St.isStarted, St.isExited]
      have hex : c.st.isExited = true := by simp [hst, St.isExited]
      rcases ih true hnfc' with ⟨p, h⟩ | h | ⟨h, _⟩
      · left; exact ⟨p + 1, stepAt_succ_of cap 0 p u true c cs out (by rw [hex, hok]; exact h)⟩
      · right; left
        intro x hx
        rcases List.mem_cons.mp hx with rfl | hx
        · exact hex
        · exact h x hx
      · cases h
    | running fwd failed =>
      cases hlim : limitReached c fwd with
      | true => left; exact ⟨0, by simp [stepAt, headAct, hst, hlim]⟩
      | false =>
        cases hbuf : c.buf with
        | nil =>
          cases u with
          | true => left; exact ⟨0, by simp [stepAt, headAct, hst, hlim, hbuf]⟩
          | false => right; right; exact ⟨rfl, hbuf, fwd, failed, hst, hlim⟩
        | cons x rest =>
          have hrem := remaining_pos c fwd 0 hlim
          have hm : min ((x :: rest).take (0 + 1)).length (remaining c fwd 0) = 1 := by
            simp; omega
          cases hemit : c.spec.emit with
          | false =>
            left; refine ⟨0, ?_⟩
            simp only [stepAt, headAct, hst, hlim, hbuf, hm]
            simp [hemit]
          | true =>
            cases cs with
            | nil =>
              left; refine ⟨0, ?_⟩
              simp only [stepAt, headAct, hst, hlim, hbuf, hm]
              simp [hemit]
            | cons d ds =>
              cases hdx : d.st.isExited with
              | true =>
                left; refine ⟨0, ?_⟩
                simp only [stepAt, headAct, hst, hlim, hbuf, hm]
                cases hsig : c.spec.sigpipe <;> simp [hemit, hdx]
              | false =>
                have hinl : c.spec.inline = false := hnfc.1
                have hok : spawnOK c = true := by simp [spawnOK, hst, St.isStarted, hinl]
                have hex : c.st.isExited = false := by simp [hst, St.isExited]
                rcases ih false hnfc' with ⟨p, h⟩ | h | ⟨_, hw⟩
                · left; exact ⟨p + 1, stepAt_succ_of cap 0 p u true c (d :: ds) out (by rw [hex, hok]; exact h)⟩
                · have := h d (by simp)
                  rw [hdx] at this; cases this
                · have hdb : d.buf = [] := hw.1
                  left; refine ⟨0, ?_⟩
                  simp only [stepAt, headAct, hst, hlim, hbuf, hm]
                  have : min 1 (cap - 0) ≠ 0 := by omega
                  simp [hemit, hdx, hdb]; omega

/-! ## filter pipelines conserve the data -/

/-- what will have come out of the last stage once everything in flight (and `up`, still to be
written to the first cell) has been pushed through -/
def future : List Byte → List Cell → List Byte
  | up, [] => up
  | up, c :: cs => future ((c.buf ++ up).map c.spec.f) cs

/-- a stage that has exited had seen the end of its input: its writer had exited, its channel is empty -/
def Ordered : Bool → List Cell → Prop
  | _, [] => True
  | u, c :: cs => (c.st.isExited = true → u = true ∧ c.buf = []) ∧ Ordered c.st.isExited cs

def PureSpec (sp : Spec) : Prop := sp.limit = none ∧ sp.emit = true

theorem Ordered_mono (cs : List Cell) (h : Ordered false cs) : Ordered true cs := by
  cases cs with
  | nil => trivial
  | cons c cs => exact ⟨fun hx => ⟨rfl, (h.1 hx).2⟩, h.2⟩

theorem headAct_pure (cap n : Nat) (u v : Bool) (cells : List Cell) (out : List Byte)
    (r : List Cell × List Byte) (up : List Byte) (hp : ∀ sp ∈ specsOf cells, PureSpec sp)
    (ho : Ordered u cells) (h : headAct cap n u v cells out = some r) :
    Ordered u r.1 ∧ r.2 ++ future up r.1 = out ++ future up cells := by
  cases cells with
  | nil => simp [headAct] at h
  | cons c cs =>
    have hpc : PureSpec c.spec := hp c.spec (by simp [specsOf])
    unfold headAct at h
    cases hst : c.st with
    | notStarted =>
      simp only [hst] at h
      split at h
      · cases h
        refine ⟨⟨by simp [St.isExited], ?_⟩, by simp [future]⟩
        have := ho.2; simpa [hst, St.isExited] using this
      · cases h
    | exited k => simp [hst] at h
    | running fwd failed =>
      have hlim : limitReached c fwd = false := by simp [limitReached, hpc.1]
      simp only [hst, hlim] at h
      have ho2 : Ordered false cs := by have := ho.2; simpa [hst, St.isExited] using this
      split at h
      · rename_i hc; exact absurd hc (by decide)
      · split at h
        · rename_i hbe
          split at h
          · rename_i hu
            cases h
            refine ⟨⟨fun _ => ⟨hu, by simpa using hbe⟩, ?_⟩, by simp [future]⟩
            simpa [St.isExited] using Ordered_mono cs ho2
          · cases h
        · split at h
          · cases h
          · split at h
            · rename_i he; simp [hpc.2] at he
            · split at h
              · cases h
                refine ⟨⟨by simp [St.isExited], trivial⟩, ?_⟩
                simp only [future, List.append_assoc, ← List.map_append]
                rw [← List.append_assoc (List.take _ c.buf), List.take_append_drop]
              · rename_i d ds
                split at h
                · rename_i hdx
                  have := ho2.1 hdx
                  cases this.1
                · generalize min (min (c.buf.take (n + 1)).length (remaining c fwd n)) (cap - d.buf.length) = k at h
                  split at h
                  · cases h
                  · cases h
                    rename_i hdx _
                    refine ⟨⟨by simp [St.isExited], ⟨fun hx => by simp [hx] at hdx, ho2.2⟩⟩, ?_⟩
                    simp only [future, List.append_assoc, ← List.map_append]
                    rw [← List.append_assoc (List.take _ c.buf), List.take_append_drop]

theorem stepAt_pure (cap n : Nat) : ∀ (p : Nat) (u v : Bool) (cells : List Cell) (out : List Byte)
    (r : List Cell × List Byte) (up : List Byte), (∀ sp ∈ specsOf cells, PureSpec sp) → Ordered u cells →
    stepAt cap n p u v cells out = some r →
    Ordered u r.1 ∧ r.2 ++ future up r.1 = out ++ future up cells := by
  intro p
  induction p with
  | zero =>
    intro u v cells out r up hp ho h
    exact headAct_pure cap n u v cells out r up hp ho (by simpa [stepAt] using h)
  | succ p ih =>
    intro u v cells out r up hp ho h
    cases cells with
    | nil => simp [stepAt] at h
    | cons c cs =>
      simp only [stepAt, Option.map_eq_some_iff] at h
      obtain ⟨r', hr', rfl⟩ := h
      have := ih _ _ cs out r' ((c.buf ++ up).map c.spec.f)
        (fun sp hsp => hp sp (by simp [specsOf] at hsp ⊢; exact Or.inr hsp)) ho.2 hr'
      exact ⟨⟨ho.1, this.1⟩, by simpa [future] using this.2⟩

theorem future_done (cells : List Cell) : ∀ u, AllExited cells → Ordered u cells → future [] cells = [] := by
  induction cells with
  | nil => intro _ _ _; rfl
  | cons c cs ih =>
    intro u ha ho
    have hx := ha c (by simp)
    have := (ho.1 hx).2
    simp only [future, this, List.append_nil, List.map_nil]
    exact ih _ (fun x hx => ha x (by simp [hx])) ho.2

/-- the composition of the stages' maps, applied to a stream -/
def through : List Spec → List Byte → List Byte
  | [], l => l
  | sp :: sps, l => through sps (l.map sp.f)

theorem future_mkCells_nil (sps : List Spec) : ∀ up, future up (mkCells sps []) = through sps up := by
  induction sps with
  | nil => intro up; rfl
  | cons sp sps ih => intro up; simp [mkCells, future, through, ih]

theorem future_init (sp : Spec) (sps : List Spec) (input : List Byte) :
    future [] (mkCells (sp :: sps) input) = through (sp :: sps) input := by
  simp [mkCells, future, through, future_mkCells_nil]

theorem specsOf_mkCells (sps : List Spec) : ∀ inp, specsOf (mkCells sps inp) = sps := by
  induction sps with
  | nil => intro _; rfl
  | cons sp sps ih => intro inp; simp [mkCells, specsOf] at ih ⊢; exact ih []

theorem ordered_mkCells (sps : List Spec) : ∀ u inp, Ordered u (mkCells sps inp) := by
  induction sps with
  | nil => intro _ _; trivial
  | cons sp sps ih => intro u inp; exact ⟨by simp [St.isExited], ih _ _⟩

/-! ## a payload that fits in one pipe never blocks, however the stages are started -/

/-- bytes in flight -/
def inFlight : List Cell → Nat
  | [] => 0
  | c :: cs => c.buf.length + inFlight cs

theorem headAct_inFlight (cap n : Nat) (u v : Bool) (cells : List Cell) (out : List Byte)
    (r : List Cell × List Byte) (h : headAct cap n u v cells out = some r) :
    inFlight r.1 ≤ inFlight cells := by
  cases cells with
  | nil => simp [headAct] at h
  | cons c cs =>
    unfold headAct at h
    cases hst : c.st with
    | notStarted =>
      simp only [hst] at h
      split at h
      · cases h; simp [inFlight]
      · cases h
    | exited k => simp [hst] at h
    | running fwd failed =>
      simp only [hst] at h
      split at h
      · cases h; simp [inFlight]
      · split at h
        · split at h
          · cases h; simp [inFlight]
          · cases h
        · have hm := take_len_le c.buf (n + 1)
          generalize hmdef : min (c.buf.take (n + 1)).length (remaining c fwd n) = m at h
          split at h
          · cases h
          · split at h
            · cases h; simp [inFlight, List.length_drop]
            · split at h
              · cases h; simp [inFlight, List.length_drop]
              · rename_i d ds
                split at h
                · split at h
                  · cases h; simp [inFlight]
                  · cases h; simp [inFlight, List.length_drop]
                · generalize hkdef : min m (cap - d.buf.length) = k at h
                  split at h
                  · cases h
                  · cases h
                    have hk : k ≤ c.buf.length := by omega
                    simp only [inFlight, List.length_drop, List.length_append, List.length_map,
                      List.length_take, Nat.min_eq_left hk]
                    omega

theorem stepAt_inFlight (cap n : Nat) : ∀ (p : Nat) (u v : Bool) (cells : List Cell) (out : List Byte)
    (r : List Cell × List Byte), stepAt cap n p u v cells out = some r → inFlight r.1 ≤ inFlight cells := by
  intro p
  induction p with
  | zero => intro u v cells out r h; exact headAct_inFlight cap n u v cells out r (by simpa [stepAt] using h)
  | succ p ih =>
    intro u v cells out r h
    cases cells with
    | nil => simp [stepAt] at h
    | cons c cs =>
      simp only [stepAt, Option.map_eq_some_iff] at h
      obtain ⟨r', hr', rfl⟩ := h
      have := ih _ _ cs out r' hr'
      simp only [inFlight]; omega

/-- the head stage cannot act before something upstream happens -/
def Blocked (u v : Bool) : List Cell → Prop
  | [] => False
  | c :: _ => (v = false ∧ c.st = .notStarted) ∨
      (u = false ∧ c.buf = [] ∧ ∃ fwd failed, c.st = .running fwd failed ∧ limitReached c fwd = false)

theorem progress_room (cap : Nat) (out : List Byte) : ∀ (cells : List Cell) (u v : Bool),
    inFlight cells ≤ cap →
    (∃ p, (stepAt cap 0 p u v cells out).isSome = true) ∨ AllExited cells ∨ Blocked u v cells := by
  intro cells
  induction cells with
  | nil => intro u v _; right; left; intro c hc; cases hc
  | cons c cs ih =>
    intro u v hfl
    have hfl' : inFlight cs ≤ cap := by simp only [inFlight] at hfl; omega
    cases hst : c.st with
    | notStarted =>
      cases v with
      | true => left; exact ⟨0, by simp [stepAt, headAct, hst]⟩
      | false => right; right; exact Or.inl ⟨rfl, hst⟩
    | exited k =>
      have hok : spawnOK c = true := by simp [spawnOK, hst, St.isStarted, St.isExited]
      have hex : c.st.isExited = true := by simp [hst, St.isExited]
      rcases ih true true hfl' with ⟨p, h⟩ | h | h
      · left; exact ⟨p + 1, stepAt_succ_of cap 0 p u v c cs out (by rw [hex, hok]; exact h)⟩
      · right; left
        intro x hx
        rcases List.mem_cons.mp hx with rfl | hx
        · exact hex
        · exact h x hx
      · cases cs with
        | nil => cases h
        | cons d ds =>
          rcases h with ⟨h, _⟩ | ⟨h, _⟩ <;> cases h
    | running fwd failed =>
      cases hlim : limitReached c fwd with
      | true => left; exact ⟨0, by simp [stepAt, headAct, hst, hlim]⟩
      | false =>
        cases hbuf : c.buf with
        | nil =>
          cases u with
          | true => left; exact ⟨0, by simp [stepAt, headAct, hst, hlim, hbuf]⟩
          | false => right; right; exact Or.inr ⟨rfl, hbuf, fwd, failed, hst, hlim⟩
        | cons x rest =>
          have hrem := remaining_pos c fwd 0 hlim
          have hm : min ((x :: rest).take (0 + 1)).length (remaining c fwd 0) = 1 := by
            simp; omega
          left; refine ⟨0, ?_⟩
          cases hemit : c.spec.emit with
          | false =>
            simp only [stepAt, headAct, hst, hlim, hbuf, hm]
            simp [hemit]
          | true =>
            cases cs with
            | nil =>
              simp only [stepAt, headAct, hst, hlim, hbuf, hm]
              simp [hemit]
            | cons d ds =>
              cases hdx : d.st.isExited with
              | true =>
                simp only [stepAt, headAct, hst, hlim, hbuf, hm]
                cases hsig : c.spec.sigpipe <;> simp [hemit, hdx]
              | false =>
                have hroom : d.buf.length < cap := by
                  simp only [inFlight, hbuf, List.length_cons] at hfl; omega
                simp only [stepAt, headAct, hst, hlim, hbuf, hm]
                simp [hemit, hdx]
                omega

theorem inFlight_mkCells_nil (sps : List Spec) : inFlight (mkCells sps []) = 0 := by
  induction sps with
  | nil => rfl
  | cons sp sps ih => simp [mkCells, inFlight, ih]

theorem inFlight_mkCells (sps : List Spec) (inp : List Byte) : inFlight (mkCells sps inp) ≤ inp.length := by
  cases sps with
  | nil => simp [mkCells, inFlight]
  | cons sp sps => simp [mkCells, inFlight, inFlight_mkCells_nil]


end BrushVerif.Pipe
