import BrushVerif.Model.ErrTrap
import BrushVerif.Spec.ErrTrap
namespace BrushVerif.ErrTrap

theorem pipeEnd_active (et : Bool) (h : Option Cmd) (ctx : Ctx) (bang cp : Bool) (sr : St × Res)
    (ha : ctx.active = true) :
    pipeEnd (invoke et h) ctx bang cp sr = pipeEnd noFire ctx bang cp sr := by
  simp [pipeEnd, invoke, noFire, ha]

theorem loop_congr (c1 c2 b1 b2 : St → St × Res) (hc : ∀ s, c1 s = c2 s) (hb : ∀ s, b1 s = b2 s)
    (n lc : Nat) (s : St) : loop c1 b1 n lc s = loop c2 b2 n lc s := by
  induction n generalizing lc s with
  | zero => simp [loop, hc]
  | succ k ih => simp [loop, hc, hb, ih]

/-- while the handler's frame is active the real `invoke_trap_handler` never starts anything: the
program runs exactly as it would without any trap -/
theorem exec_active (et : Bool) (h : Option Cmd) (c : Cmd) :
    ∀ (w : Bool) (ctx : Ctx) (s : St), ctx.active = true →
      exec (invoke et h) c w ctx s = exec noFire c w ctx s := by
  induction c with
  | leaf id st => intro w ctx s ha; simp [exec, pipeEnd_active _ _ _ _ _ _ ha]
  | exit n => intro w ctx s ha; simp [exec, pipeEnd_active _ _ _ _ _ _ ha]
  | ret n => intro w ctx s ha; simp [exec, pipeEnd_active _ _ _ _ _ _ ha]
  | call b ih => intro w ctx s ha; simp [exec, pipeEnd_active _ _ _ _ _ _ ha, ih, ha]
  | seq a b iha ihb => intro w ctx s ha; simp [exec, iha, ihb, ha]
  | and a b iha ihb => intro w ctx s ha; simp [exec, iha, ihb, ha]
  | or a b iha ihb => intro w ctx s ha; simp [exec, iha, ihb, ha]
  | not a iha => intro w ctx s ha; simp [exec, pipeEnd_active _ _ _ _ _ _ ha, iha, ha]
  | ifc c t e ihc iht ihe => intro w ctx s ha; simp [exec, pipeEnd_active _ _ _ _ _ _ ha, ihc, iht, ihe, ha]
  | whl u n c b ihc ihb =>
    intro w ctx s ha
    have hl := loop_congr (exec (invoke et h) c true { ctx with sup := true }) (exec noFire c true { ctx with sup := true })
      (exec (invoke et h) b true ctx) (exec noFire b true ctx) (fun s => ihc true _ s ha) (fun s => ihb true _ s ha) n 0 s
    simp [exec, pipeEnd_active _ _ _ _ _ _ ha, hl]
  | grp a iha => intro w ctx s ha; simp [exec, pipeEnd_active _ _ _ _ _ _ ha, iha, ha]
  | sub a iha => intro w ctx s ha; simp [exec, pipeEnd_active _ _ _ _ _ _ ha, iha, ha]
  | pipe st b ihb => intro w ctx s ha; simp [exec, pipeEnd_active _ _ _ _ _ _ ha, ihb, ha]

theorem pipeEnd_sup (et : Bool) (h : Option Cmd) (ctx : Ctx) (bang cp : Bool) (sr : St × Res)
    (ha : ctx.sup = true) :
    pipeEnd (invoke et h) ctx bang cp sr = pipeEnd noFire ctx bang cp sr := by
  simp [pipeEnd, ha]

/-- under `suppress_errexit` (which is only ever switched on on the way down) nothing fires, at any depth -/
theorem exec_sup (et : Bool) (h : Option Cmd) (c : Cmd) :
    ∀ (w : Bool) (ctx : Ctx) (s : St), ctx.sup = true →
      exec (invoke et h) c w ctx s = exec noFire c w ctx s := by
  induction c with
  | leaf id st => intro w ctx s ha; simp [exec, pipeEnd_sup _ _ _ _ _ _ ha]
  | exit n => intro w ctx s ha; simp [exec, pipeEnd_sup _ _ _ _ _ _ ha]
  | ret n => intro w ctx s ha; simp [exec, pipeEnd_sup _ _ _ _ _ _ ha]
  | call b ih => intro w ctx s ha; simp [exec, pipeEnd_sup _ _ _ _ _ _ ha, ih, ha]
  | seq a b iha ihb => intro w ctx s ha; simp [exec, iha, ihb, ha]
  | and a b iha ihb => intro w ctx s ha; simp [exec, iha, ihb, ha]
  | or a b iha ihb => intro w ctx s ha; simp [exec, iha, ihb, ha]
  | not a iha => intro w ctx s ha; simp [exec, pipeEnd_sup _ _ _ _ _ _ ha, iha, ha]
  | ifc c t e ihc iht ihe => intro w ctx s ha; simp [exec, pipeEnd_sup _ _ _ _ _ _ ha, ihc, iht, ihe, ha]
  | whl u n c b ihc ihb =>
    intro w ctx s ha
    have hl := loop_congr (exec (invoke et h) c true { ctx with sup := true }) (exec noFire c true { ctx with sup := true })
      (exec (invoke et h) b true ctx) (exec noFire b true ctx) (fun s => ihc true _ s rfl) (fun s => ihb true _ s ha) n 0 s
    simp [exec, pipeEnd_sup _ _ _ _ _ _ ha, hl]
  | grp a iha => intro w ctx s ha; simp [exec, pipeEnd_sup _ _ _ _ _ _ ha, iha, ha]
  | sub a iha => intro w ctx s ha; simp [exec, pipeEnd_sup _ _ _ _ _ _ ha, iha, ha]
  | pipe st b ihb => intro w ctx s ha; simp [exec, pipeEnd_sup _ _ _ _ _ _ ha, ihb, ha]

end BrushVerif.ErrTrap
