import BrushVerif.Model.QuoteEnv
/-! Lemmas about the scope merge of `Model/QuoteEnv.lean`. -/
namespace BrushVerif.Quote
open BrushVerif.Wire

theorem lookup_cons' (n : Str) (e : Str × Var) (es : List (Str × Var)) :
    (e :: es).lookup n = if n = e.1 then some e.2 else es.lookup n := by
  obtain ⟨k, v⟩ := e
  by_cases h : n = k
  · subst h; simp [List.lookup]
  · have : (n == k) = false := by simpa using h
    simp [List.lookup, this, h]

theorem seen_eq (acc : List (Str × Var)) (n : Str) : seen acc n = (acc.lookup n).isSome := by
  induction acc with
  | nil => simp [seen]
  | cons e es ih =>
    rw [lookup_cons']
    unfold seen at ih ⊢
    by_cases h : n = e.1
    · simp [h]
    · have h' : ¬ e.1 = n := fun x => h x.symm
      simp [h, h', ih]

theorem lookup_snoc (acc : List (Str × Var)) (e : Str × Var) (n : Str) :
    (acc ++ [e]).lookup n = (acc.lookup n).or (if n = e.1 then some e.2 else none) := by
  induction acc with
  | nil => simp [lookup_cons']
  | cons a as ih =>
    rw [List.cons_append, lookup_cons', lookup_cons', ih]
    by_cases h : n = a.1 <;> simp [h]

theorem lookup_step (acc : List (Str × Var)) (e : Str × Var) (n : Str) :
    (if seen acc e.1 then acc else acc ++ [e]).lookup n =
      (acc.lookup n).or (if n = e.1 then some e.2 else none) := by
  by_cases hs : seen acc e.1 = true
  · simp only [hs, if_true]
    by_cases h : n = e.1
    · subst h
      rw [seen_eq] at hs
      cases hl : acc.lookup e.1 with
      | none => simp [hl] at hs
      | some v => simp
    · simp [h]
  · simp only [hs, Bool.false_eq_true, if_false]
    exact lookup_snoc acc e n

theorem lookup_mergeScope (sc : Scope) : ∀ (acc : List (Str × Var)) (n : Str),
    (mergeScope acc sc).lookup n = (acc.lookup n).or (sc.lookup n) := by
  induction sc with
  | nil => intro acc n; simp [mergeScope]
  | cons e es ih =>
    intro acc n
    rw [mergeScope, ih, lookup_step, lookup_cons']
    cases acc.lookup n <;> by_cases h : n = e.1 <;> simp [h]

theorem lookupEnv_cons (sc : Scope) (rest : Env) (n : Str) :
    lookupEnv (sc :: rest) n = (sc.lookup n).or (lookupEnv rest n) := by
  rw [lookupEnv]; cases sc.lookup n <;> simp

theorem lookup_visibleFrom (env : Env) : ∀ (acc : List (Str × Var)) (n : Str),
    (visibleFrom acc env).lookup n = (acc.lookup n).or (lookupEnv env n) := by
  induction env with
  | nil => intro acc n; simp [visibleFrom, lookupEnv]
  | cons sc rest ih =>
    intro acc n
    rw [visibleFrom, ih, lookup_mergeScope, lookupEnv_cons]
    cases acc.lookup n <;> simp

/-! names occur once -/

def NamesOnce (l : List (Str × Var)) : Prop := (l.map (·.1)).Nodup

theorem not_seen_not_mem (acc : List (Str × Var)) (n : Str) (h : seen acc n = false) : n ∉ acc.map (·.1) := by
  intro hm
  simp only [List.mem_map] at hm
  obtain ⟨e, he, hn⟩ := hm
  have : seen acc n = true := by
    unfold seen
    exact List.any_eq_true.mpr ⟨e, he, by simp [hn]⟩
  rw [h] at this; exact absurd this (by decide)

theorem namesOnce_step (acc : List (Str × Var)) (e : Str × Var) (h : NamesOnce acc) :
    NamesOnce (if seen acc e.1 then acc else acc ++ [e]) := by
  by_cases hs : seen acc e.1 = true
  · simp [hs, h]
  · have hs' : seen acc e.1 = false := by simpa using hs
    have hn := not_seen_not_mem acc e.1 hs'
    simp only [hs', Bool.false_eq_true, if_false]
    unfold NamesOnce at h ⊢
    rw [List.map_append, List.nodup_append]
    refine ⟨h, by simp, ?_⟩
    intro a ha b hb
    simp at hb
    subst hb
    intro e'; subst e'; exact hn ha

theorem namesOnce_mergeScope (sc : Scope) : ∀ acc, NamesOnce acc → NamesOnce (mergeScope acc sc) := by
  induction sc with
  | nil => intro acc h; simpa [mergeScope] using h
  | cons e es ih => intro acc h; rw [mergeScope]; exact ih _ (namesOnce_step acc e h)

theorem namesOnce_visibleFrom (env : Env) : ∀ acc, NamesOnce acc → NamesOnce (visibleFrom acc env) := by
  induction env with
  | nil => intro acc h; simpa [visibleFrom] using h
  | cons sc rest ih => intro acc h; rw [visibleFrom]; exact ih _ (namesOnce_mergeScope sc acc h)

theorem lookup_of_mem (l : List (Str × Var)) (h : NamesOnce l) (e : Str × Var) (he : e ∈ l) :
    l.lookup e.1 = some e.2 := by
  induction l with
  | nil => simp at he
  | cons a as ih =>
    unfold NamesOnce at h
    simp only [List.map_cons, List.nodup_cons] at h
    rw [lookup_cons']
    rcases List.mem_cons.mp he with rfl | hm
    · simp
    · have hne : e.1 ≠ a.1 := by
        intro heq
        exact h.1 (heq ▸ List.mem_map.mpr ⟨e, hm, rfl⟩)
      simp [hne, ih h.2 hm]

theorem mem_of_lookup_env (l : List (Str × Var)) (n : Str) (v : Var) (h : l.lookup n = some v) : (n, v) ∈ l := by
  induction l with
  | nil => simp at h
  | cons a as ih =>
    rw [lookup_cons'] at h
    by_cases hn : n = a.1
    · simp [hn] at h
      subst hn
      simp [← h]
    · simp [hn] at h
      exact List.mem_cons_of_mem _ (ih h)

end BrushVerif.Quote
