import BrushVerif.Proofs.Arith
/-! Lemmas for C07's aliasing theorems: in arithmetic a bare name `a` and `a[0]` denote the same storage cell
(`deref_lvalue` / `assign` in `brush-core/src/arithmetic.rs`, `get_at` / `assign_at_index` in `variables.rs`). -/
set_option linter.unusedSimpArgs false
namespace BrushVerif.Arith
open BrushVerif.Wire

/-- the variable currently is an indexed array -/
def isArr (env : Env) (n : Str) : Prop := ∃ m, env.get n = some (.arr m)

theorem arrKey_zero (m : List (Nat × Str)) : arrKey m 0 = some 0 := by
  have h : (0 : Int64).toInt = 0 := by decide
  simp [arrKey, h]

/-- reading element 0 is reading the bare name, whatever the variable is (unset, scalar, array) -/
theorem elemStr_zero (env : Env) (n : Str) : elemStr env n 0 = some (varStr env n) := by
  have h : (0 : Int64).toInt = 0 := by decide
  unfold elemStr varStr
  cases hg : env.get n with
  | none => rfl
  | some val =>
    cases val with
    | scalar s => simp [h]
    | arr m => simp [arrKey_zero]

theorem derefR_var_eq_elem0 (P : Str → Option Expr) (d : Nat) (env : Env) (n : Str) :
    derefR P d env (.var n) = derefR P d env (.elem n 0) := by
  rw [derefR, derefR, elemStr_zero]

/-- writing element 0 of an array is writing the bare name -/
theorem assignR_var_eq_elem0 (env : Env) (n : Str) (v : Int64) (h : isArr env n) :
    assignR env (.var n) v = assignR env (.elem n 0) v := by
  obtain ⟨m, hm⟩ := h
  simp [assignR, setVar, setElem, hm, arrKey_zero]

theorem setElem_zero (env : Env) (n : Str) (v : Int64) :
    ∃ env', setElem env n 0 v = (env', true) ∧ varStr env' n = showInt v := by
  have h0 : (0 : Int64).toInt = 0 := by decide
  unfold setElem
  cases hg : env.get n with
  | none =>
    simp only [h0]
    exact ⟨_, rfl, by simp [varStr, Env.get_set_same, arrGet]⟩
  | some val =>
    cases val with
    | scalar s =>
      simp only [arrKey_zero]
      exact ⟨_, rfl, by simp [varStr, Env.get_set_same, arrGet_insert_same]⟩
    | arr m =>
      simp only [arrKey_zero]
      exact ⟨_, rfl, by simp [varStr, Env.get_set_same, arrGet_insert_same]⟩

/-- a write through `a[0]` always succeeds and is what the bare name reads afterwards -/
theorem assignR_elem0 (env : Env) (n : Str) (v : Int64) :
    ∃ env', assignR env (.elem n 0) v = (env', .ok v) ∧ varStr env' n = showInt v := by
  obtain ⟨env', h1, h2⟩ := setElem_zero env n v
  exact ⟨env', by simp [assignR, h1], h2⟩

/-- a write through the bare name is what the bare name reads afterwards -/
theorem assignR_var (env : Env) (n : Str) (v : Int64) :
    assignR env (.var n) v = (setVar env n v, .ok v) ∧ varStr (setVar env n v) n = showInt v :=
  ⟨rfl, varStr_setVar_same _ _ _⟩

/-! unfolding `eval` on the shapes the theorems talk about -/

theorem eval_lit (P : Str → Option Expr) (d : Nat) (env : Env) (i : Int64) : eval P d env (.lit i) = (env, .ok i) := by
  rw [eval]

theorem eval_ref_var (P : Str → Option Expr) (d : Nat) (env : Env) (n : Str) :
    eval P d env (.ref (.var n)) = derefR P d env (.var n) := by
  rw [eval, resolve]

theorem eval_ref_elem_lit (P : Str → Option Expr) (d : Nat) (env : Env) (n : Str) (i : Int64) :
    eval P d env (.ref (.elem n (.lit i))) = derefR P d env (.elem n i) := by
  rw [eval, resolve, eval_lit]

theorem eval_assign_var_ok (P : Str → Option Expr) (d : Nat) (env env1 : Env) (n : Str) (r : Expr) (v : Int64)
    (h : eval P d env r = (env1, .ok v)) : eval P d env (.assign (.var n) r) = assignR env1 (.var n) v := by
  rw [eval, h]; simp only; rw [resolve]

theorem eval_assign_elem_lit_ok (P : Str → Option Expr) (d : Nat) (env env1 : Env) (n : Str) (i : Int64) (r : Expr) (v : Int64)
    (h : eval P d env r = (env1, .ok v)) : eval P d env (.assign (.elem n (.lit i)) r) = assignR env1 (.elem n i) v := by
  rw [eval, h]; simp only; rw [resolve, eval_lit]

theorem eval_assign_err (P : Str → Option Expr) (d : Nat) (env env1 : Env) (t : Target) (r : Expr) (e : Err)
    (h : eval P d env r = (env1, .err e)) : eval P d env (.assign t r) = (env1, .err e) := by
  rw [eval, h]

theorem eval_incDec_var (P : Str → Option Expr) (d : Nat) (env : Env) (op : IncOp) (n : Str) :
    eval P d env (.incDec op (.var n)) =
      match derefR P d env (.var n) with
      | (env1, .ok v) =>
        (match assignR env1 (.var n) (incNew op v) with
         | (env2, .ok _) => (env2, .ok (incRet op v))
         | q => q)
      | q => q := by
  rw [eval, resolve]
  rfl

theorem eval_incDec_elem_lit (P : Str → Option Expr) (d : Nat) (env : Env) (op : IncOp) (n : Str) (i : Int64) :
    eval P d env (.incDec op (.elem n (.lit i))) =
      match derefR P d env (.elem n i) with
      | (env1, .ok v) =>
        (match assignR env1 (.elem n i) (incNew op v) with
         | (env2, .ok _) => (env2, .ok (incRet op v))
         | q => q)
      | q => q := by
  rw [eval, resolve, eval_lit]
  rfl

/-- a variable whose contents are a plain number: reading it yields the number and changes nothing -/
theorem derefR_var_literal (P : Str → Option Expr) (d : Nat) (env : Env) (n : Str) (k : Int64)
    (h : P (varStr env n) = some (.lit k)) : derefR P d env (.var n) = (env, .ok k) := by
  rw [derefR, derefStr, h]

end BrushVerif.Arith
