import BrushVerif.Model.Fd
import BrushVerif.Spec.FdFlat
/-! Helper lemmas for C10: flattening brush's two tables, `open` flags, preservation of file contents. -/
namespace BrushVerif.Fd
open BrushVerif.Wire BrushVerif.FdFlat

/-- the single table a process would have: overlay first, then the shell's table -/
def flatten (P O : Table) : Flat := fun fd => (tryFd P O fd).map H.ofd

theorem flatten_setT_open (P O : Table) (fd : Fd) (h : H) :
    flatten P (setT O fd (.open h)) = setF (flatten P O) fd (some h.ofd) := by
  funext x
  by_cases hx : x = fd <;> simp [flatten, setT, setF, tryFd, hx]

theorem flatten_setT_notPresent (P O : Table) (fd : Fd) :
    flatten P (setT O fd .notPresent) = setF (flatten P O) fd none := by
  funext x
  by_cases hx : x = fd <;> simp [flatten, setT, setF, tryFd, hx]

theorem flatten_tryFd (P O : Table) (m : Fd) : flatten P O m = (tryFd P O m).map H.ofd := rfl

/-- a redirection changes the flat table only at its own descriptors -/
theorem apply_outside_own (nc : Bool) (T T' : Flat) (s s' : Sys) (r : Redir)
    (h : FdFlat.apply nc T s r = some (T', s')) (fd : Fd) (hfd : fd ∉ ownFds r) : T' fd = T fd := by
  cases r with
  | file n k p =>
    simp only [FdFlat.apply, Option.map_eq_some_iff] at h
    obtain ⟨x, _, hx⟩ := h
    simp only [Prod.mk.injEq] at hx
    rw [← hx.1]
    simp only [ownFds, List.mem_singleton] at hfd
    simp [setF, hfd]
  | dup n input src dash =>
    cases src with
    | none =>
      simp only [FdFlat.apply, Option.some.injEq, Prod.mk.injEq] at h
      rw [← h.1]
      cases dash
      · simp
      · simp only [ownFds, ↓reduceIte, List.mem_singleton] at hfd
        simp [setF, hfd]
    | fd m =>
      simp only [FdFlat.apply] at h
      cases hm : T m with
      | none => simp [hm] at h
      | some id =>
        simp only [hm, Option.some.injEq, Prod.mk.injEq] at h
        rw [← h.1]
        by_cases hc : dash = true ∧ m ≠ n.getD (if input then 0 else 1)
        · have hfd' : fd ∉ [n.getD (if input then 0 else 1), m] := by simpa [ownFds, hc] using hfd
          simp only [List.mem_cons, List.not_mem_nil, or_false, not_or] at hfd'
          simp [hc, setF, hfd'.1, hfd'.2]
        · have hfd' : fd ∉ [n.getD (if input then 0 else 1)] := by simpa [ownFds, hc] using hfd
          simp only [List.mem_singleton] at hfd'
          simp [hc, setF, hfd']
    | word p =>
      by_cases hc : n.getD (if input then 0 else 1) = 1 ∧ dash = false
      · simp only [FdFlat.apply, hc, and_self, ↓reduceIte, outErr, Option.map_eq_some_iff] at h
        obtain ⟨x, _, hx⟩ := h
        simp only [Prod.mk.injEq] at hx
        rw [← hx.1]
        simp only [ownFds, List.mem_cons, List.not_mem_nil, or_false, not_or] at hfd
        simp [setF, hfd.1, hfd.2]
      · simp [FdFlat.apply, hc] at h
  | outErr p a =>
    simp only [FdFlat.apply, outErr, Option.map_eq_some_iff] at h
    obtain ⟨x, _, hx⟩ := h
    simp only [Prod.mk.injEq] at hx
    rw [← hx.1]
    simp only [ownFds, List.mem_cons, List.not_mem_nil, or_false, not_or] at hfd
    simp [setF, hfd.1, hfd.2]
  | here n c =>
    simp only [FdFlat.apply, Sys.push, Option.some.injEq, Prod.mk.injEq] at h
    rw [← h.1]
    simp only [ownFds, List.mem_singleton] at hfd
    simp [setF, hfd]

/-- … and so does a whole list, wherever it stops -/
theorem applyAll_outside_own (nc : Bool) (rs : List Redir) (T : Flat) (s : Sys) (fd : Fd)
    (hfd : fd ∉ rs.flatMap ownFds) : (FdFlat.applyAll nc T s rs).1 fd = T fd := by
  induction rs generalizing T s with
  | nil => rfl
  | cons r rs ih =>
    simp only [List.flatMap_cons, List.mem_append, not_or] at hfd
    simp only [FdFlat.applyAll]
    cases hr : FdFlat.apply nc T s r with
    | none => rfl
    | some x =>
      obtain ⟨T', s'⟩ := x
      simp only
      rw [ih T' s' hfd.2]
      exact apply_outside_own nc T T' s s' r hr fd hfd.1

/-- brush's `OpenOptions` and the reference `open` calls have the same effect -/
theorem sysOpen_flagsFor (nc : Bool) (s : Sys) (k : Kind) (p : Path) :
    sysOpen s p (flagsFor nc (isReg s p) k) = openFor nc s k p := by
  cases k <;> simp only [flagsFor, openFor]
  cases nc
  · simp
  · cases hfs : s.fs p with
    | none => simp [isReg, hfs, sysOpen, mkOfd]
    | some n => cases n <;> simp [isReg, hfs, sysOpen, mkOfd]

theorem outErrFlags_write (nc e : Bool) : outErrFlags nc e false = flagsFor nc e .write := by
  cases nc <;> simp [outErrFlags, flagsFor]

/-- `&>`, `&>>`, `>&word`: brush's single open is the reference's -/
theorem outErrTo_eq (nc : Bool) (P O : Table) (s : Sys) (p : Path) (a : Bool) :
    (outErrTo nc O s p a).map (fun x => (flatten P x.1, x.2)) = outErr nc (flatten P O) s p a := by
  have h : sysOpen s p (outErrFlags nc (isReg s p) a) = openFor nc s (if a then Kind.append else Kind.write) p := by
    cases a
    · rw [outErrFlags_write]; exact sysOpen_flagsFor nc s .write p
    · simp [outErrFlags, openFor]
  simp only [outErrTo, outErr, h]
  cases openFor nc s (if a then Kind.append else Kind.write) p with
  | none => rfl
  | some x => simp [flatten_setT_open, H.ofd]

/-! ### file contents -/

theorem push_fs (s : Sys) (o : Ofd) : (s.push o).2.fs = s.fs := rfl

/-- what `open` can do to the file system: nothing, or make `q` an empty regular file (creation, truncation) -/
theorem sysOpen_fs (s s' : Sys) (q : Path) (f : OFlags) (id : Nat) (h : sysOpen s q f = some (id, s')) :
    s'.fs = s.fs ∨ (s'.fs = setFs s.fs q (.reg [] false) ∧ (s.fs q = none ∨ (f.trunc = true ∧ isReg s q = true))) := by
  unfold sysOpen at h
  split at h
  · rename_i hq
    split at h
    · simp [Sys.push] at h; obtain ⟨_, rfl⟩ := h; exact Or.inr ⟨rfl, Or.inl hq⟩
    · simp at h
  · rename_i d t hq
    split at h
    · simp at h
    · split at h
      · rename_i ht; simp [Sys.push] at h; obtain ⟨_, rfl⟩ := h
        exact Or.inr ⟨rfl, Or.inr ⟨ht, by simp [isReg, hq]⟩⟩
      · simp [Sys.push] at h; obtain ⟨_, rfl⟩ := h; exact Or.inl rfl
  · split at h
    · simp at h
    · simp [Sys.push] at h; obtain ⟨_, rfl⟩ := h; exact Or.inl rfl
  · split at h
    · simp at h
    · simp [Sys.push] at h; obtain ⟨_, rfl⟩ := h; exact Or.inl rfl
  · simp at h

/-- an `open` that does not truncate `p` leaves an existing file `p` as it is -/
theorem sysOpen_preserves (s s' : Sys) (q p : Path) (f : OFlags) (id : Nat) (n : Node)
    (hp : s.fs p = some n) (hok : f.trunc = false ∨ q ≠ p)
    (h : sysOpen s q f = some (id, s')) : s'.fs p = some n := by
  rcases sysOpen_fs s s' q f id h with h1 | ⟨h1, h2⟩
  · rw [h1]; exact hp
  · rw [h1]
    by_cases hq : p = q
    · subst hq
      rcases h2 with h2 | ⟨h2, _⟩
      · rw [hp] at h2; simp at h2
      · rcases hok with h3 | h3
        · rw [h3] at h2; simp at h2
        · exact absurd rfl h3
    · simp [setFs, hq, hp]

theorem overwrite_at_end (d b : Str) : overwrite d d.length b = d ++ b := by
  simp [overwrite]

end BrushVerif.Fd
