import BrushVerif.Model.Unquote
/-! Lemmas about the reader `rd` used by the C13 theorems. -/
namespace BrushVerif.Quote
open BrushVerif.Wire
open BrushVerif.Gen.QuoteTables

namespace Res
@[simp] theorem start_unsup : start unsup = unsup := rfl
@[simp] theorem start_err : start err = err := rfl
@[simp] theorem start_ok (raw : Str) (cur : Option Str) (rest : List Str) :
    start (ok raw cur rest) = ok raw (some (cur.getD [])) rest := rfl
@[simp] theorem push_prepend (c : Char) (s : Str) (r : Res) : push c (prepend s r) = prepend (c :: s) r := by
  cases r <;> simp [push, prepend]
@[simp] theorem start_push (c : Char) (r : Res) : start (push c r) = push c r := by
  cases r <;> simp [push, start]
@[simp] theorem start_prepend (s : Str) (r : Res) : start (prepend s r) = prepend s r := by
  cases r <;> simp [prepend, start]
@[simp] theorem start_start (r : Res) : start (start r) = start r := by
  cases r <;> simp [start]
@[simp] theorem push_start (c : Char) (r : Res) : push c (start r) = push c r := by
  cases r <;> simp [push, start]
@[simp] theorem prepend_start (s : Str) (r : Res) : prepend s (start r) = prepend s r := by
  cases r <;> simp [prepend, start]
theorem push_eq_prepend (c : Char) (r : Res) : push c r = prepend [c] r := by
  cases r <;> simp [push, prepend]
theorem prepend_nil (r : Res) : prepend [] r = start r := by
  cases r <;> simp [prepend, start]
@[simp] theorem prepend_prepend (s t : Str) (r : Res) : prepend s (prepend t r) = prepend (s ++ t) r := by
  cases r <;> simp [prepend]
@[simp] theorem start_endWord_true (r : Res) : start (endWord true r) = endWord true r := by
  cases r <;> simp [endWord, start]
@[simp] theorem start_closeAnsi (bb : Bool) (r : Res) : start (closeAnsi bb r) = closeAnsi bb r := by
  cases r with
  | ok raw cur rest => simp only [closeAnsi]; split <;> simp [start]
  | err => simp [closeAnsi, start]
  | unsup => simp [closeAnsi, start]
end Res

variable (b : Bool)

/-! ### one-step equations of the reader -/

theorem rd_un_nil (st ws : Bool) : rd b (.un st ws) [] = .ok [] (if st then some [] else none) [] := by
  simp [rd]

theorem rd_un_sq (st ws : Bool) (cs : Str) : rd b (.un st ws) ('\'' :: cs) = (rd b .sq cs).start := by
  rw [rd.eq_def]; simp [classify]

theorem rd_un_dq (st ws : Bool) (cs : Str) : rd b (.un st ws) ('"' :: cs) = (rd b .dq cs).start := by
  rw [rd.eq_def]; simp [classify]

theorem rd_un_bs' (st ws : Bool) (c : Char) (cs : Str) (h1 : c ≠ '\n') (h2 : cs.head? ≠ some '\'') :
    rd b (.un st ws) ('\\' :: c :: cs) = (rd b (.un true false) cs).push c := by
  rw [rd.eq_def]; simp [classify, h1, h2]

theorem rd_un_bs (st ws : Bool) (c : Char) (cs : Str) (h1 : c ≠ '\n') (h2 : c ≠ '$') :
    rd b (.un st ws) ('\\' :: c :: cs) = (rd b (.un true false) cs).push c := by
  rw [rd.eq_def]; simp [classify, h1, h2]

theorem rd_un_hash (ws : Bool) (cs : Str) :
    rd b (.un true ws) ('#' :: cs) = (rd b (.un true false) cs).push '#' := by
  have hc : classify '#' = .hash := by decide
  rw [rd.eq_def]; simp only [hc]; simp

theorem rd_un_tilde (st : Bool) (cs : Str) :
    rd b (.un st false) ('~' :: cs) = (rd b (.un true false) cs).push '~' := by
  have hc : classify '~' = .tilde := by decide
  rw [rd.eq_def]; simp only [hc]; simp

theorem rd_un_colon (st ws : Bool) (cs : Str) (h : cs.head? ≠ some '~') :
    rd b (.un st ws) (':' :: cs) = (rd b (.un true false) cs).push ':' := by
  have hc : classify ':' = .colon := by decide
  rw [rd.eq_def]; simp only [hc]; simp [h]

theorem rd_un_ansi (st ws : Bool) (cs : Str) :
    rd b (.un st ws) ('$' :: '\'' :: cs) = (rd b .ac cs).closeAnsi b := by
  rw [rd.eq_def]; simp [classify]

theorem rd_un_lit (st ws : Bool) (c : Char) (cs : Str) (h : classify c = .lit) :
    rd b (.un st ws) (c :: cs) = (rd b (.un true false) cs).push c := by
  rw [rd.eq_def]; simp [h]

theorem rd_sq_q (cs : Str) : rd b .sq ('\'' :: cs) = rd b (.un true false) cs := by
  rw [rd.eq_def]; simp

theorem rd_sq_c (c : Char) (cs : Str) (h : c ≠ '\'') : rd b .sq (c :: cs) = (rd b .sq cs).push c := by
  rw [rd.eq_def]; simp [h]

theorem rd_dq_q (cs : Str) : rd b .dq ('"' :: cs) = rd b (.un true false) cs := by
  rw [rd.eq_def]; simp

theorem rd_dq_esc (c : Char) (cs : Str) (h : dqEscapable c = true) :
    rd b .dq ('\\' :: c :: cs) = (rd b .dq cs).push c := by
  rw [rd.eq_def]; simp [h]

theorem rd_dq_c (c : Char) (cs : Str) (h1 : c ≠ '"') (h2 : c ≠ '$') (h3 : c ≠ '`') (h4 : c ≠ '\\') :
    rd b .dq (c :: cs) = (rd b .dq cs).push c := by
  rw [rd.eq_def]; simp [h1, h2, h3, h4]

theorem rd_ac_q (cs : Str) : rd b .ac ('\'' :: cs) = (rd b (.un true false) cs).dropRaw := by
  rw [rd.eq_def]; simp

theorem rd_ac_bs (c : Char) (cs : Str) (h : c ≠ '\n') :
    rd b .ac ('\\' :: c :: cs) = ((rd b .ac cs).pushRaw c).pushRaw '\\' := by
  rw [rd.eq_def]; simp [h]

theorem rd_ac_c (c : Char) (cs : Str) (h1 : c ≠ '\'') (h2 : c ≠ '\\') :
    rd b .ac (c :: cs) = (rd b .ac cs).pushRaw c := by
  rw [rd.eq_def]; simp [h1, h2]

/-- once a token is in progress, the reader's result always has a current word -/
theorem start_rd_un_true (ws : Bool) (t : Str) : (rd b (.un true ws) t).start = rd b (.un true ws) t := by
  cases t with
  | nil => simp [rd, Res.start]
  | cons c cs =>
    rw [rd.eq_def]
    simp only
    split <;> try (simp; done)
    all_goals (repeat' split) <;> simp

/-! ### single quotes -/

theorem rd_un_bs_quote (st ws : Bool) (cs : Str) :
    rd b (.un st ws) ('\\' :: '\'' :: cs) = (rd b (.un true false) cs).push '\'' :=
  rd_un_bs b st ws '\'' cs (by decide) (by decide)

/-- reading `sqGo` output: inside an open run, and from the unquoted state -/
theorem read_sqGo (s : Str) :
    (∀ t, rd b .sq (sqGo true s ++ t) = (rd b (.un true false) t).prepend s) ∧
    (∀ t, rd b (.un true false) (sqGo false s ++ t) = (rd b (.un true false) t).prepend s) := by
  induction s with
  | nil =>
    constructor
    · intro t; simp [sqGo, rd_sq_q, Res.prepend_nil, start_rd_un_true]
    · intro t; simp [sqGo, Res.prepend_nil, start_rd_un_true]
  | cons c s ih =>
    obtain ⟨ih1, ih2⟩ := ih
    constructor
    · intro t
      by_cases h : c = '\''
      · subst h
        simp [sqGo, rd_sq_q, rd_un_bs_quote, ih2]
      · simp [sqGo, h, rd_sq_c, ih1]
    · intro t
      by_cases h : c = '\''
      · subst h
        simp [sqGo, rd_un_bs_quote, ih2]
      · simp [sqGo, h, rd_un_sq, rd_sq_c, ih1]

/-- the first character `sqGo false` emits for a non-empty string is a quote or a backslash, so the
unquoted state it starts from is irrelevant -/
theorem read_sqGo_any (st ws : Bool) (s t : Str) (hs : s ≠ []) :
    rd b (.un st ws) (sqGo false s ++ t) = (rd b (.un true false) t).prepend s := by
  cases s with
  | nil => exact absurd rfl hs
  | cons c s =>
    have := (read_sqGo b (c :: s)).2 t
    by_cases h : c = '\''
    · subst h
      simp [sqGo, rd_un_bs_quote] at this ⊢
      exact this
    · simp [sqGo, h, rd_un_sq] at this ⊢
      exact this

theorem read_singleQuote_gen (st ws : Bool) (s t : Str) :
    rd b (.un st ws) (singleQuote s ++ t) = (rd b (.un true false) t).prepend s := by
  unfold singleQuote
  cases s with
  | nil => simp [rd_un_sq, rd_sq_q, Res.prepend_nil, start_rd_un_true]
  | cons c s => simpa using read_sqGo_any b st ws (c :: s) t (by simp)

/-! ### double quotes -/

theorem dqTable_eq (c : Char) : dqEscapedTable.contains c = dqEscapable c := by
  have h1 : ∀ x ∈ dqEscapedTable, dqEscapable x = true := by decide
  have h2 : ∀ x ∈ ['$', '`', '"', '\\'], dqEscapedTable.contains x = true := by decide
  cases hc : dqEscapable c with
  | true =>
    apply h2
    simp only [dqEscapable, Bool.or_eq_true, decide_eq_true_eq] at hc
    rcases hc with ((h | h) | h) | h <;> simp [h]
  | false =>
    cases hk : dqEscapedTable.contains c with
    | false => rfl
    | true =>
      have := h1 c (by simpa using hk)
      rw [hc] at this
      exact absurd this (by decide)

theorem dqTable_mem (c : Char) : c ∈ dqEscapedTable ↔ dqEscapable c = true := by
  rw [← dqTable_eq]; simp

theorem read_dqBody (s t : Str) :
    rd b .dq (s.flatMap dqChar ++ '"' :: t) = (rd b (.un true false) t).prepend s := by
  induction s with
  | nil => simp [rd_dq_q, Res.prepend_nil, start_rd_un_true]
  | cons c s ih =>
    by_cases h : dqEscapable c = true
    · simp [dqChar, dqTable_mem, h, rd_dq_esc, ih]
    · have h' := h
      simp only [dqEscapable, Bool.or_eq_true, decide_eq_true_eq, not_or] at h'
      obtain ⟨⟨⟨h1, h2⟩, h3⟩, h4⟩ := h'
      simp [dqChar, dqTable_mem, h, rd_dq_c b c _ h3 h1 h2 h4, ih]

theorem read_doubleQuote_gen (st ws : Bool) (s t : Str) :
    rd b (.un st ws) (doubleQuote s ++ t) = (rd b (.un true false) t).prepend s := by
  simp [doubleQuote, rd_un_dq, read_dqBody]

/-! ### backslash escaping and text left as it is -/

/-- every character the unquoted reader does not take literally -/
def readerSpecial : List Char := [' ', '\t', '\n', '\\', '\'', '"', '$'] ++ unsupUnq

theorem special_covered : ∀ c ∈ readerSpecial, (needsEscaping c || isAsciiControl c) = true := by decide

theorem classify_cases (c : Char) :
    c ∈ readerSpecial ∨ c = '#' ∨ c = '~' ∨ c = ':' ∨ classify c = .lit := by
  unfold classify
  by_cases h1 : c = ' ' ∨ c = '\t'
  · left; rcases h1 with h | h <;> simp [h, readerSpecial]
  by_cases h2 : c = '\n'
  · left; simp [h2, readerSpecial]
  by_cases h3 : c = '\\'
  · left; simp [h3, readerSpecial]
  by_cases h4 : c = '\''
  · left; simp [h4, readerSpecial]
  by_cases h5 : c = '"'
  · left; simp [h5, readerSpecial]
  by_cases h6 : c = '$'
  · left; simp [h6, readerSpecial]
  by_cases h7 : unsupUnq.contains c = true
  · left; simp only [readerSpecial, List.mem_append]; right; simpa using h7
  by_cases h8 : c = '#'
  · simp [h8]
  by_cases h9 : c = '~'
  · simp [h9]
  by_cases h10 : c = ':'
  · simp [h10]
  have h7' : c ∉ unsupUnq := by simpa using h7
  simp [h1, h2, h3, h4, h5, h6, h7', h8, h9, h10]

/-- guard for the characters after the first one -/
def bsInner : Str → Bool
  | [] => true
  | c :: cs => !isAsciiControl c && !(c == ':' && cs.head? == some '~') && bsInner cs

theorem head_bs_ne_quote (cs : Str) : (cs.flatMap bsChar).head? ≠ some '\'' := by
  cases cs with
  | nil => simp
  | cons c cs =>
    have hq : needsEscaping '\'' = true := by decide
    by_cases h : needsEscaping c = true
    · simp [bsChar, h]
    · by_cases hc : c = '\''
      · subst hc; exact absurd hq h
      · simp [bsChar, h, hc]

theorem head_bs_ne_tilde (cs : Str) (h : cs.head? ≠ some '~') : (cs.flatMap bsChar).head? ≠ some '~' := by
  cases cs with
  | nil => simp
  | cons c cs =>
    by_cases hn : needsEscaping c = true
    · simp [bsChar, hn]
    · simp at h
      simp [bsChar, hn, h]

theorem nl_not_escaped : needsEscaping '\n' = false := by decide
theorem nl_control : isAsciiControl '\n' = true := by decide

/-- one character of backslash-escaped text, read in the unquoted state (`ok`: not a `~`/`#` at the
start of a word) -/
theorem read_bsChar (st ws : Bool) (c : Char) (cs : Str)
    (hctl : isAsciiControl c = false) (hcol : ¬(c = ':' ∧ cs.head? = some '~'))
    (hh : c = '#' → st = true) (ht : c = '~' → ws = false) :
    rd b (.un st ws) (bsChar c ++ cs.flatMap bsChar) = (rd b (.un true false) (cs.flatMap bsChar)).push c := by
  by_cases hn : needsEscaping c = true
  · have hnl : c ≠ '\n' := by intro h; subst h; rw [nl_not_escaped] at hn; exact absurd hn (by decide)
    simp only [bsChar, hn, if_true, List.cons_append, List.nil_append]
    exact rd_un_bs' b st ws c _ hnl (head_bs_ne_quote cs)
  · have hn' : needsEscaping c = false := by simpa using hn
    simp only [bsChar, hn', Bool.false_eq_true, if_false, List.cons_append, List.nil_append]
    rcases classify_cases c with h | h | h | h | h
    · have := special_covered c h
      simp [hn', hctl] at this
    · subst h; rw [hh rfl]; exact rd_un_hash b ws _
    · subst h; rw [ht rfl]; exact rd_un_tilde b st _
    · subst h
      exact rd_un_colon b st ws _ (head_bs_ne_tilde cs (by simpa using hcol))
    · exact rd_un_lit b st ws c _ h

theorem read_bsInner (s : Str) (h : bsInner s = true) :
    rd b (.un true false) (s.flatMap bsChar) = .ok [] (some s) [] := by
  induction s with
  | nil => simp [rd_un_nil]
  | cons c cs ih =>
    simp only [bsInner, Bool.and_eq_true, Bool.not_eq_true', Bool.and_eq_false_imp, beq_iff_eq] at h
    obtain ⟨⟨h1, h2⟩, h3⟩ := h
    have hcol : ¬(c = ':' ∧ cs.head? = some '~') := by
      intro ⟨a, b'⟩; have := h2 a; simp [b'] at this
    rw [List.flatMap_cons, read_bsChar b true false c cs h1 hcol (fun _ => rfl) (fun _ => rfl), ih h3]
    simp [Res.push]

end BrushVerif.Quote
