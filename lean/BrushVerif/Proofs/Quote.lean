import BrushVerif.Model.Unquote
/-! Lemmas about the reader `rd` used by the C13 theorems. -/
namespace BrushVerif.Quote
open BrushVerif.Wire
open BrushVerif.Gen.QuoteTables

namespace Res
@[simp] theorem start_unsup : start unsup = unsup := rfl
@[simp] theorem start_err : start err = err := rfl
@[simp] theorem start_ok (raw : Str) (cur : Option Str) (rest : List Str) :
    start (ok raw cur rest) = ok raw (some (cur.getD [])) rest := rfl
@[simp] theorem push_prepend (c : Char) (s : Str) (r : Res) : push c (prepend s r) = prepend (c :: s) r := by
  cases r <;> simp [push, prepend]
@[simp] theorem start_push (c : Char) (r : Res) : start (push c r) = push c r := by
  cases r <;> simp [push, start]
@[simp] theorem start_prepend (s : Str) (r : Res) : start (prepend s r) = prepend s r := by
  cases r <;> simp [prepend, start]
@[simp] theorem start_start (r : Res) : start (start r) = start r := by
  cases r <;> simp [start]
@[simp] theorem push_start (c : Char) (r : Res) : push c (start r) = push c r := by
  cases r <;> simp [push, start]
@[simp] theorem prepend_start (s : Str) (r : Res) : prepend s (start r) = prepend s r := by
  cases r <;> simp [prepend, start]
theorem push_eq_prepend (c : Char) (r : Res) : push c r = prepend [c] r := by
  cases r <;> simp [push, prepend]
theorem prepend_nil (r : Res) : prepend [] r = start r := by
  cases r <;> simp [prepend, start]
@[simp] theorem prepend_prepend (s t : Str) (r : Res) : prepend s (prepend t r) = prepend (s ++ t) r := by
  cases r <;> simp [prepend]
@[simp] theorem start_endWord_true (r : Res) : start (endWord true r) = endWord true r := by
  cases r <;> simp [endWord, start]
@[simp] theorem start_closeAnsi (bb : Bool) (r : Res) : start (closeAnsi bb r) = closeAnsi bb r := by
  cases r with
  | ok raw cur rest => simp only [closeAnsi]; split <;> simp [start]
  | err => simp [closeAnsi, start]
  | unsup => simp [closeAnsi, start]
end Res

variable (b : Bool)

/-! ### one-step equations of the reader -/

theorem rd_un_nil (st ws : Bool) : rd b (.un st ws) [] = .ok [] (if st then some [] else none) [] := by
  simp [rd]

theorem rd_un_sq (st ws : Bool) (cs : Str) : rd b (.un st ws) ('\'' :: cs) = (rd b .sq cs).start := by
  rw [rd.eq_def]; simp [classify]

theorem rd_un_dq (st ws : Bool) (cs : Str) : rd b (.un st ws) ('"' :: cs) = (rd b .dq cs).start := by
  rw [rd.eq_def]; simp [classify]

theorem rd_un_bs' (st ws : Bool) (c : Char) (cs : Str) (h1 : c ≠ '\n') (h2 : cs.head? ≠ some '\'') :
    rd b (.un st ws) ('\\' :: c :: cs) = (rd b (.un true false) cs).push c := by
  rw [rd.eq_def]; simp [classify, h1, h2]

theorem rd_un_bs (st ws : Bool) (c : Char) (cs : Str) (h1 : c ≠ '\n') (h2 : c ≠ '$') :
    rd b (.un st ws) ('\\' :: c :: cs) = (rd b (.un true false) cs).push c := by
  rw [rd.eq_def]; simp [classify, h1, h2]

theorem rd_un_hash (ws : Bool) (cs : Str) :
    rd b (.un true ws) ('#' :: cs) = (rd b (.un true false) cs).push '#' := by
  have hc : classify '#' = .hash := by decide
  rw [rd.eq_def]; simp only [hc]; simp

theorem rd_un_tilde (st : Bool) (cs : Str) :
    rd b (.un st false) ('~' :: cs) = (rd b (.un true false) cs).push '~' := by
  have hc : classify '~' = .tilde := by decide
  rw [rd.eq_def]; simp only [hc]; simp

theorem rd_un_colon (st ws : Bool) (cs : Str) (h : cs.head? ≠ some '~') :
    rd b (.un st ws) (':' :: cs) = (rd b (.un true false) cs).push ':' := by
  have hc : classify ':' = .colon := by decide
  rw [rd.eq_def]; simp only [hc]; simp [h]

theorem rd_un_ansi (st ws : Bool) (cs : Str) :
    rd b (.un st ws) ('$' :: '\'' :: cs) = (rd b .ac cs).closeAnsi b := by
  rw [rd.eq_def]; simp [classify]

theorem rd_un_lit (st ws : Bool) (c : Char) (cs : Str) (h : classify c = .lit) :
    rd b (.un st ws) (c :: cs) = (rd b (.un true false) cs).push c := by
  rw [rd.eq_def]; simp [h]

theorem rd_sq_q (cs : Str) : rd b .sq ('\'' :: cs) = rd b (.un true false) cs := by
  rw [rd.eq_def]; simp

theorem rd_sq_c (c : Char) (cs : Str) (h : c ≠ '\'') : rd b .sq (c :: cs) = (rd b .sq cs).push c := by
  rw [rd.eq_def]; simp [h]

theorem rd_dq_q (cs : Str) : rd b .dq ('"' :: cs) = rd b (.un true false) cs := by
  rw [rd.eq_def]; simp

theorem rd_dq_esc (c : Char) (cs : Str) (h : dqEscapable c = true) :
    rd b .dq ('\\' :: c :: cs) = (rd b .dq cs).push c := by
  rw [rd.eq_def]; simp [h]

theorem rd_dq_c (c : Char) (cs : Str) (h1 : c ≠ '"') (h2 : c ≠ '$') (h3 : c ≠ '`') (h4 : c ≠ '\\') :
    rd b .dq (c :: cs) = (rd b .dq cs).push c := by
  rw [rd.eq_def]; simp [h1, h2, h3, h4]

theorem rd_ac_q (cs : Str) : rd b .ac ('\'' :: cs) = (rd b (.un true false) cs).dropRaw := by
  rw [rd.eq_def]; simp

theorem rd_ac_bs (c : Char) (cs : Str) (h : c ≠ '\n') :
    rd b .ac ('\\' :: c :: cs) = ((rd b .ac cs).pushRaw c).pushRaw '\\' := by
  rw [rd.eq_def]; simp [h]

theorem rd_ac_c (c : Char) (cs : Str) (h1 : c ≠ '\'') (h2 : c ≠ '\\') :
    rd b .ac (c :: cs) = (rd b .ac cs).pushRaw c := by
  rw [rd.eq_def]; simp [h1, h2]

/-- once a token is in progress, the reader's result always has a current word -/
theorem start_rd_un_true (ws : Bool) (t : Str) : (rd b (.un true ws) t).start = rd b (.un true ws) t := by
  cases t with
  | nil => simp [rd, Res.start]
  | cons c cs =>
    rw [rd.eq_def]
    simp only
    split <;> try (simp; done)
    all_goals (repeat' split) <;> simp

/-! ### single quotes -/

theorem rd_un_bs_quote (st ws : Bool) (cs : Str) :
    rd b (.un st ws) ('\\' :: '\'' :: cs) = (rd b (.un true false) cs).push '\'' :=
  rd_un_bs b st ws '\'' cs (by decide) (by decide)

/-- reading `sqGo` output: inside an open run, and from the unquoted state -/
theorem read_sqGo (s : Str) :
    (∀ t, rd b .sq (sqGo true s ++ t) = (rd b (.un true false) t).prepend s) ∧
    (∀ t, rd b (.un true false) (sqGo false s ++ t) = (rd b (.un true false) t).prepend s) := by
  induction s with
  | nil =>
    constructor
    · intro t; simp [sqGo, rd_sq_q, Res.prepend_nil, start_rd_un_true]
    · intro t; simp [sqGo, Res.prepend_nil, start_rd_un_true]
  | cons c s ih =>
    obtain ⟨ih1, ih2⟩ := ih
    constructor
    · intro t
      by_cases h : c = '\''
      · subst h
        simp [sqGo, rd_sq_q, rd_un_bs_quote, ih2]
      · simp [sqGo, h, rd_sq_c, ih1]
    · intro t
      by_cases h : c = '\''
      · subst h
        simp [sqGo, rd_un_bs_quote, ih2]
      · simp [sqGo, h, rd_un_sq, rd_sq_c, ih1]

/-- the first character `sqGo false` emits for a non-empty string is a quote or a backslash, so the
unquoted state it starts from is irrelevant -/
theorem read_sqGo_any (st ws : Bool) (s t : Str) (hs : s ≠ []) :
    rd b (.un st ws) (sqGo false s ++ t) = (rd b (.un true false) t).prepend s := by
  cases s with
  | nil => exact absurd rfl hs
  | cons c s =>
    have := (read_sqGo b (c :: s)).2 t
    by_cases h : c = '\''
    · subst h
      simp [sqGo, rd_un_bs_quote] at this ⊢
      exact this
    · simp [sqGo, h, rd_un_sq] at this ⊢
      exact this

theorem read_singleQuote_gen (st ws : Bool) (s t : Str) :
    rd b (.un st ws) (singleQuote s ++ t) = (rd b (.un true false) t).prepend s := by
  unfold singleQuote
  cases s with
  | nil => simp [rd_un_sq, rd_sq_q, Res.prepend_nil, start_rd_un_true]
  | cons c s => simpa using read_sqGo_any b st ws (c :: s) t (by simp)

/-! ### double quotes -/

theorem dqTable_eq (c : Char) : dqEscapedTable.contains c = dqEscapable c := by
  have h1 : ∀ x ∈ dqEscapedTable, dqEscapable x = true := by decide
  have h2 : ∀ x ∈ ['$', '`', '"', '\\'], dqEscapedTable.contains x = true := by decide
  cases hc : dqEscapable c with
  | true =>
    apply h2
    simp only [dqEscapable, Bool.or_eq_true, decide_eq_true_eq] at hc
    rcases hc with ((h | h) | h) | h <;> simp [h]
  | false =>
    cases hk : dqEscapedTable.contains c with
    | false => rfl
    | true =>
      have := h1 c (by simpa using hk)
      rw [hc] at this
      exact absurd this (by decide)

theorem dqTable_mem (c : Char) : c ∈ dqEscapedTable ↔ dqEscapable c = true := by
  rw [← dqTable_eq]; simp

theorem read_dqBody (s t : Str) :
    rd b .dq (s.flatMap dqChar ++ '"' :: t) = (rd b (.un true false) t).prepend s := by
  induction s with
  | nil => simp [rd_dq_q, Res.prepend_nil, start_rd_un_true]
  | cons c s ih =>
    by_cases h : dqEscapable c = true
    · simp [dqChar, dqTable_mem, h, rd_dq_esc, ih]
    · have h' := h
      simp only [dqEscapable, Bool.or_eq_true, decide_eq_true_eq, not_or] at h'
      obtain ⟨⟨⟨h1, h2⟩, h3⟩, h4⟩ := h'
      simp [dqChar, dqTable_mem, h, rd_dq_c b c _ h3 h1 h2 h4, ih]

theorem read_doubleQuote_gen (st ws : Bool) (s t : Str) :
    rd b (.un st ws) (doubleQuote s ++ t) = (rd b (.un true false) t).prepend s := by
  simp [doubleQuote, rd_un_dq, read_dqBody]

/-! ### backslash escaping and text left as it is -/

/-- every character the unquoted reader does not take literally -/
def readerSpecial : List Char := [' ', '\t', '\n', '\\', '\'', '"', '$'] ++ unsupUnq

theorem special_covered : ∀ c ∈ readerSpecial, (needsEscaping c || isAsciiControl c) = true := by decide

theorem classify_cases (c : Char) :
    c ∈ readerSpecial ∨ c = '#' ∨ c = '~' ∨ c = ':' ∨ classify c = .lit := by
  unfold classify
  by_cases h1 : c = ' ' ∨ c = '\t'
  · left; rcases h1 with h | h <;> simp [h, readerSpecial]
  by_cases h2 : c = '\n'
  · left; simp [h2, readerSpecial]
  by_cases h3 : c = '\\'
  · left; simp [h3, readerSpecial]
  by_cases h4 : c = '\''
  · left; simp [h4, readerSpecial]
  by_cases h5 : c = '"'
  · left; simp [h5, readerSpecial]
  by_cases h6 : c = '$'
  · left; simp [h6, readerSpecial]
  by_cases h7 : unsupUnq.contains c = true
  · left; simp only [readerSpecial, List.mem_append]; right; simpa using h7
  by_cases h8 : c = '#'
  · simp [h8]
  by_cases h9 : c = '~'
  · simp [h9]
  by_cases h10 : c = ':'
  · simp [h10]
  have h7' : c ∉ unsupUnq := by simpa using h7
  simp [h1, h2, h3, h4, h5, h6, h7', h8, h9, h10]

theorem nl_not_escaped : needsEscaping '\n' = false := by decide
theorem quote_escaped : needsEscaping '\'' = true := by decide

theorem head_bsGo_ne_quote (prev : Option Char) (cs : Str) : (bsGo prev cs).head? ≠ some '\'' := by
  cases cs with
  | nil => simp [bsGo]
  | cons c cs =>
    by_cases h : (needsEscaping c || isSpecialByPos prev c) = true
    · simp [bsGo, h]
    · have h' : (needsEscaping c || isSpecialByPos prev c) = false := by simpa using h
      have hn : needsEscaping c = false := by
        cases hc : needsEscaping c <;> simp [hc] at h' ⊢
      have : c ≠ '\'' := by intro e; subst e; rw [quote_escaped] at hn; exact absurd hn (by decide)
      simp [bsGo, h', this]

theorem head_bsGo_colon_ne_tilde (cs : Str) : (bsGo (some ':') cs).head? ≠ some '~' := by
  cases cs with
  | nil => simp [bsGo]
  | cons c cs =>
    by_cases hc : c = '~'
    · subst hc
      have : isSpecialByPos (some ':') '~' = true := by decide
      simp [bsGo, this]
    · by_cases h : (needsEscaping c || isSpecialByPos (some ':') c) = true
      · simp [bsGo, h]
      · have h' : (needsEscaping c || isSpecialByPos (some ':') c) = false := by simpa using h
        simp [bsGo, h', hc]

theorem read_bs_step (prev : Option Char) (st ws : Bool) (c : Char) (rest : Str)
    (hctl : isAsciiControl c = false) (hst : prev ≠ none → st = true ∧ ws = false)
    (hq : rest.head? ≠ some '\'') (hcol : c = ':' → rest.head? ≠ some '~') :
    rd b (.un st ws) ((if (needsEscaping c || isSpecialByPos prev c) = true then ['\\', c] else [c]) ++ rest) =
      (rd b (.un true false) rest).push c := by
  have hnl : c ≠ '\n' := by
    intro e; subst e; exact absurd hctl (by decide)
  by_cases h : (needsEscaping c || isSpecialByPos prev c) = true
  · simp only [h, if_true, List.cons_append, List.nil_append]
    exact rd_un_bs' b st ws c rest hnl hq
  · have h' : (needsEscaping c || isSpecialByPos prev c) = false := by simpa using h
    have hn : needsEscaping c = false := by
      cases hc : needsEscaping c <;> simp [hc] at h' ⊢
    have hp : isSpecialByPos prev c = false := by
      cases hc : isSpecialByPos prev c <;> simp [hc, hn] at h' ⊢
    simp only [h', Bool.false_eq_true, if_false, List.cons_append, List.nil_append]
    rcases classify_cases c with hcase | hcase | hcase | hcase | hcase
    · have := special_covered c hcase
      simp [hn, hctl] at this
    · subst hcase
      have hne : prev ≠ none := by
        intro e; subst e; exact absurd hp (by decide)
      rw [(hst hne).1]; exact rd_un_hash b ws _
    · subst hcase
      have hne : prev ≠ none := by
        intro e; subst e; exact absurd hp (by decide)
      rw [(hst hne).2]; exact rd_un_tilde b st _
    · subst hcase
      exact rd_un_colon b st ws _ (hcol rfl)
    · exact rd_un_lit b st ws c _ hcase

/-- backslash-escaped text (`bsGo`), read in the unquoted state: `prev = none` is the start of the
word (any reader state); afterwards a token is in progress -/
theorem read_bsGo (cs : Str) :
    ∀ (c : Char) (prev : Option Char) (st ws : Bool),
      (c :: cs).all (fun x => !isAsciiControl x) = true →
      (prev ≠ none → st = true ∧ ws = false) →
      rd b (.un st ws) (bsGo prev (c :: cs)) = .ok [] (some (c :: cs)) [] := by
  induction cs with
  | nil =>
    intro c prev st ws hctl hst
    have hc : isAsciiControl c = false := by simpa using hctl
    have := read_bs_step b prev st ws c [] hc hst (by simp) (by simp)
    simp only [List.append_nil] at this
    rw [bsGo, bsGo, List.append_nil, this, rd_un_nil]
    simp [Res.push]
  | cons d ds ih =>
    intro c prev st ws hctl hst
    simp only [List.all_cons, Bool.and_eq_true, Bool.not_eq_true'] at hctl
    have hrest := ih d (some c) true false (by simpa using hctl.2) (fun _ => ⟨rfl, rfl⟩)
    have hcol : c = ':' → (bsGo (some c) (d :: ds)).head? ≠ some '~' := by
      intro e; subst e; exact head_bsGo_colon_ne_tilde _
    have := read_bs_step b prev st ws c (bsGo (some c) (d :: ds)) hctl.1 hst (head_bsGo_ne_quote _ _) hcol
    rw [bsGo]
    rw [this, hrest]
    simp [Res.push]

/-- text that needs no quoting is what `bsGo` prints -/
theorem bsGo_id (s : Str) : ∀ prev, s.any needsEscaping = false → hasPosSpecial prev s = false → bsGo prev s = s := by
  induction s with
  | nil => intro _ _ _; rfl
  | cons c cs ih =>
    intro prev h1 h2
    simp only [List.any_cons, Bool.or_eq_false_iff] at h1
    simp only [hasPosSpecial, Bool.or_eq_false_iff] at h2
    simp [bsGo, h1.1, h2.1, ih (some c) h1.2 h2.2]

end BrushVerif.Quote
