import BrushVerif.Model.ParamSubst
import BrushVerif.Spec.ParamSubst
/-! Helper lemmas for C06's substitution / case-modification theorems. -/
namespace BrushVerif.ParamSubst
open BrushVerif.Wire BrushVerif.ParamOps BrushVerif.SubstSpec

theorem suffix_of_cons {c : Char} {t s : Str} (h : (c :: t) <:+ s) : t <:+ s :=
  List.IsSuffix.trans (List.suffix_cons c t) h

theorem drop_suffix (s : Str) (i : Nat) : s.drop i <:+ s := List.drop_suffix i s

/-- the search only looks at the suffixes of the text -/
theorem findFrom_congr (pm1 pm2 : Str → Option Nat) (s : Str)
    (h : ∀ t, t <:+ s → pm1 t = pm2 t) : findFrom pm1 s = findFrom pm2 s := by
  induction s with
  | nil => simp [findFrom, h [] (List.suffix_refl _)]
  | cons c t ih =>
    simp only [findFrom, h (c :: t) (List.suffix_refl _)]
    rw [ih (fun u hu => h u (List.IsSuffix.trans hu (List.suffix_cons c t)))]

theorem findFrom_some_spec (pm : Str → Option Nat) (s : Str) (i k : Nat)
    (h : findFrom pm s = some (i, k)) :
    i ≤ s.length ∧ pm (s.drop i) = some k ∧ ∀ j, j < i → pm (s.drop j) = none := by
  induction s generalizing i with
  | nil =>
    simp only [findFrom, Option.map_eq_some_iff] at h
    obtain ⟨a, ha, he⟩ := h
    simp only [Prod.mk.injEq] at he
    obtain ⟨rfl, rfl⟩ := he
    exact ⟨by simp, by simpa using ha, by intro j hj; omega⟩
  | cons c t ih =>
    simp only [findFrom] at h
    cases hp : pm (c :: t) with
    | some a =>
      simp only [hp, Option.some.injEq, Prod.mk.injEq] at h
      obtain ⟨rfl, rfl⟩ := h
      exact ⟨by simp, by simpa using hp, by intro j hj; omega⟩
    | none =>
      simp only [hp, Option.map_eq_some_iff] at h
      obtain ⟨⟨i', k'⟩, hf, he⟩ := h
      simp only [Prod.mk.injEq] at he
      obtain ⟨rfl, rfl⟩ := he
      obtain ⟨h1, h2, h3⟩ := ih i' hf
      refine ⟨by simp; omega, by simpa using h2, ?_⟩
      intro j hj
      cases j with
      | zero => simpa using hp
      | succ j => simpa using h3 j (by omega)

theorem findFrom_none_spec (pm : Str → Option Nat) (s : Str) (h : findFrom pm s = none) :
    ∀ j, j ≤ s.length → pm (s.drop j) = none := by
  induction s with
  | nil =>
    intro j hj
    simp only [findFrom, Option.map_eq_none_iff] at h
    simpa using h
  | cons c t ih =>
    simp only [findFrom] at h
    cases hp : pm (c :: t) with
    | some a => simp [hp] at h
    | none =>
      simp only [hp, Option.map_eq_none_iff] at h
      intro j hj
      cases j with
      | zero => simpa using hp
      | succ j => simpa using ih h j (by simpa using hj)

theorem findFrom_none_of_forall (pm : Str → Option Nat) (s : Str)
    (h : ∀ t, t <:+ s → pm t = none) : findFrom pm s = none := by
  induction s with
  | nil => simp [findFrom, h [] (List.suffix_refl _)]
  | cons c t ih =>
    simp only [findFrom, h (c :: t) (List.suffix_refl _)]
    rw [ih (fun u hu => h u (List.IsSuffix.trans hu (List.suffix_cons c t)))]
    rfl

/-- what `longestGo` returns -/
theorem longestGo_spec (m : Str → Bool) (t : Str) (n : Nat) :
    (∃ k, longestGo m t n = some k ∧ k ≤ n ∧ m (t.take k) = true ∧
        ∀ j, j ≤ n → m (t.take j) = true → j ≤ k) ∨
    (longestGo m t n = none ∧ ∀ j, j ≤ n → m (t.take j) = false) := by
  induction n with
  | zero =>
    by_cases h : m [] = true
    · left; exact ⟨0, by simp [longestGo, h], by omega, by simpa using h, by intro j hj _; omega⟩
    · right
      have hf : m [] = false := by simpa using h
      refine ⟨by simp [longestGo, hf], ?_⟩
      intro j hj
      have : j = 0 := by omega
      subst this; simpa using hf
  | succ n ih =>
    rw [longestGo]
    by_cases h : m (t.take (n + 1)) = true
    · left
      exact ⟨n + 1, by simp [h], by omega, h, by intro j hj _; exact hj⟩
    · have hf : m (t.take (n + 1)) = false := by simpa using h
      simp only [hf, Bool.false_eq_true, ↓reduceIte]
      rcases ih with ⟨k, h1, h2, h3, h4⟩ | ⟨h1, h2⟩
      · left
        refine ⟨k, h1, by omega, h3, ?_⟩
        intro j hj hm
        by_cases hjn : j = n + 1
        · subst hjn; rw [hf] at hm; cases hm
        · exact h4 j (by omega) hm
      · right
        refine ⟨h1, ?_⟩
        intro j hj
        by_cases hjn : j = n + 1
        · subst hjn; exact hf
        · exact h2 j (by omega)

theorem leftmostLongest_eq (m : Str → Bool) (s : Str) :
    leftmostLongest m s = findFrom (longestAt m) s := by
  induction s with
  | nil => rfl
  | cons c t ih => cases h : longestAt m (c :: t) <;> simp [leftmostLongest, findFrom, ih, h]

/-- the matcher read as an `re$` engine -/
def endMatcher (m : Str → Bool) (t : Str) : Option Nat := if m t then some t.length else none

theorem findFrom_endMatcher (m : Str → Bool) (s : Str) :
    findFrom (endMatcher m) s = (longestSuffixStart m s).map (fun i => (i, s.length - i)) := by
  induction s with
  | nil =>
    by_cases h : m [] = true <;> simp [findFrom, endMatcher, longestSuffixStart, h]
  | cons c t ih =>
    by_cases h : m (c :: t) = true
    · simp [findFrom, endMatcher, longestSuffixStart, h]
    · have hf : m (c :: t) = false := by simpa using h
      simp only [findFrom, endMatcher, longestSuffixStart, hf, Bool.false_eq_true, ↓reduceIte]
      rw [ih]
      cases longestSuffixStart m t with
      | none => rfl
      | some i => simp

/-- without empty matches the skipping rule of the iterator never fires -/
theorem replAllGo_eq_spec (e : Engine) (m : Str → Bool) (rep : Str → Str) (s : Str)
    (hne : m [] = false) (hfirst : ∀ t, t <:+ s → firstAt e t = longestAt m t) :
    ∀ (fuel : Nat) (t : Str) (b : Bool), t <:+ s →
      replAllGo (firstAt e) rep fuel t b = specAllGo m rep fuel t := by
  intro fuel
  induction fuel with
  | zero => intro t b _; cases t <;> rfl
  | succ fuel ih =>
    intro t b ht
    have hc : findFrom (firstAt e) t = findFrom (longestAt m) t :=
      findFrom_congr _ _ t (fun u hu => hfirst u (List.IsSuffix.trans hu ht))
    cases t with
    | nil =>
      have : longestAt m [] = none := by simp [longestAt, longestGo, hne]
      simp [replAllGo, specAllGo, findFrom, hfirst [] ht, this]
    | cons c t0 =>
      simp only [replAllGo, specAllGo, hc, leftmostLongest_eq]
      cases hf : findFrom (longestAt m) (c :: t0) with
      | none => rfl
      | some p =>
        obtain ⟨i, k⟩ := p
        obtain ⟨_, h2, _⟩ := findFrom_some_spec _ _ _ _ hf
        have hk : k ≠ 0 := by
          intro hk0
          subst hk0
          rcases longestGo_spec m ((c :: t0).drop i) ((c :: t0).drop i).length with ⟨k', h1, _, h3, _⟩ | ⟨h1, _⟩
          · unfold longestAt at h2
            rw [h2] at h1
            cases h1
            simp [hne] at h3
          · unfold longestAt at h2
            rw [h2] at h1
            cases h1
        simp only [hk, ↓reduceIte, List.drop_drop]
        rw [ih _ true (List.IsSuffix.trans (drop_suffix _ _) ht)]

theorem suffix_eq_drop {t s : Str} (h : t <:+ s) : ∃ i, i ≤ s.length ∧ t = s.drop i := by
  obtain ⟨pre, rfl⟩ := h
  exact ⟨pre.length, by simp, by simp⟩

theorem agreeOn_sound (e : Engine) (m : Str → Bool) (s : Str) (h : agreeOn e m s = true) :
    (∀ t, t <:+ s → firstAt e t = longestAt m t) ∧ (∀ t, t <:+ s → endAt e t = endMatcher m t) := by
  simp only [agreeOn, List.all_eq_true, List.mem_range, Bool.and_eq_true, beq_iff_eq] at h
  constructor
  · intro t ht
    obtain ⟨i, hi, rfl⟩ := suffix_eq_drop ht
    exact (h i (by omega)).1
  · intro t ht
    obtain ⟨i, hi, rfl⟩ := suffix_eq_drop ht
    exact (h i (by omega)).2

/-- an engine that finds single characters of a set and nothing else, seen by the search loop -/
theorem findFrom_single (pm : Str → Option Nat) (S : Char → Bool) (F : Char → Str) (s : Str)
    (hF : ∀ c, S c = false → F c = [c])
    (h0 : ([] : Str) <:+ s → pm [] = none)
    (h1 : ∀ c t, (c :: t) <:+ s → pm (c :: t) = if S c then some 1 else none) :
    (findFrom pm s = none ∧ s.flatMap F = s) ∨
    (∃ i c, findFrom pm s = some (i, 1) ∧ s.drop i = c :: s.drop (i + 1) ∧ S c = true ∧
        (s.take i).flatMap F = s.take i) := by
  induction s with
  | nil => left; simp [findFrom, h0 (List.suffix_refl _)]
  | cons c t ih =>
    by_cases hS : S c = true
    · right
      exact ⟨0, c, by simp [findFrom, h1 c t (List.suffix_refl _), hS], by simp, hS, by simp⟩
    · have hSf : S c = false := by simpa using hS
      have hp : pm (c :: t) = none := by simp [h1 c t (List.suffix_refl _), hSf]
      rcases ih (fun hs => h0 (List.IsSuffix.trans hs (List.suffix_cons c t)))
          (fun d u hu => h1 d u (List.IsSuffix.trans hu (List.suffix_cons c t))) with ⟨hn, hm⟩ | ⟨i, d, hf, hd, hSd, htk⟩
      · left
        exact ⟨by simp [findFrom, hp, hn], by simp [List.flatMap_cons, hF c hSf, hm]⟩
      · right
        refine ⟨i + 1, d, by simp [findFrom, hp, hf], by simpa using hd, hSd, ?_⟩
        simp [List.flatMap_cons, hF c hSf, htk]

theorem replAllGo_single (pm : Str → Option Nat) (S : Char → Bool) (rep : Str → Str) (s : Str)
    (h0 : pm [] = none)
    (h1 : ∀ c t, (c :: t) <:+ s → pm (c :: t) = if S c then some 1 else none) :
    ∀ (fuel : Nat) (t : Str) (b : Bool), t <:+ s → t.length < fuel →
      replAllGo pm rep fuel t b = t.flatMap (fun c => if S c then rep [c] else [c]) := by
  intro fuel
  induction fuel with
  | zero => intro t b _ hl; omega
  | succ fuel ih =>
    intro t b ht hl
    rcases findFrom_single pm S (fun c => if S c then rep [c] else [c]) t (by intro c hc; simp [hc])
        (fun _ => h0) (fun c u hu => h1 c u (List.IsSuffix.trans hu ht)) with ⟨hn, hm⟩ | ⟨i, c, hf, hd, hSc, htk⟩
    · simp [replAllGo, hn, hm]
    · simp only [replAllGo, hf, Nat.one_ne_zero, ↓reduceIte]
      have hlen : i < t.length := by
        by_cases hi : i < t.length
        · exact hi
        · rw [List.drop_eq_nil_of_le (by omega)] at hd; cases hd
      have hsplit : t = t.take i ++ c :: t.drop (i + 1) := by
        conv => lhs; rw [← List.take_append_drop i t, hd]
      rw [hd]
      simp only [List.take_succ_cons, List.take_zero, List.drop_succ_cons, List.drop_zero]
      rw [ih _ true (List.IsSuffix.trans (drop_suffix _ _) ht) (by simp; omega)]
      conv => rhs; rw [hsplit]
      simp [List.flatMap_append, List.flatMap_cons, hSc, htk]

/-- an engine that reports the empty match everywhere -/
theorem replAllGo_empty (pm : Str → Option Nat) (r : Str) (h : ∀ t, pm t = some 0) :
    ∀ (t : Str) (fuel : Nat), t.length < fuel →
      replAllGo pm (fun _ => r) fuel t false = r ++ t.flatMap (fun c => c :: r) := by
  intro t
  induction t with
  | nil =>
    intro fuel hl
    cases fuel with
    | zero => omega
    | succ fuel => simp [replAllGo, findFrom, h]
  | cons c t ih =>
    intro fuel hl
    cases fuel with
    | zero => omega
    | succ fuel =>
      simp only [replAllGo, findFrom, h]
      simp [ih fuel (by simpa using hl), List.flatMap_cons]

theorem initialCapsGo_no_ws (f : Char → Str) : ∀ (t : Str), (∀ c ∈ t, isWs c = false) →
    initialCapsGo f false t = t := by
  intro t
  induction t with
  | nil => intro _; rfl
  | cons c t ih =>
    intro h
    simp [initialCapsGo, h c (by simp), ih (fun d hd => h d (List.mem_cons_of_mem _ hd))]

end BrushVerif.ParamSubst
