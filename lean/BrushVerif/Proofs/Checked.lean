import BrushVerif.Model.Checked
/-! Helper lemmas for C01 (checked hot-spot model). -/
namespace BrushVerif.Checked

theorem inI64_iff (x : Int) : inI64 x = true ↔ (-9223372036854775808 ≤ x ∧ x ≤ 9223372036854775807) := by
  unfold inI64 I64_MIN I64_MAX
  rw [Bool.and_eq_true, decide_eq_true_eq, decide_eq_true_eq]

theorem i64Add_ok (a b : Int) (h : -9223372036854775808 ≤ a + b ∧ a + b ≤ 9223372036854775807) :
    i64Add a b = .ok (a + b) := by
  unfold i64Add; rw [(inI64_iff _).mpr h]; rfl

theorem i64Sub_ok (a b : Int) (h : -9223372036854775808 ≤ a - b ∧ a - b ≤ 9223372036854775807) :
    i64Sub a b = .ok (a - b) := by
  unfold i64Sub; rw [(inI64_iff _).mpr h]; rfl

theorem i64Sub_err (a b : Int) (h : ¬ (-9223372036854775808 ≤ a - b ∧ a - b ≤ 9223372036854775807)) :
    i64Sub a b = .error .subOverflow := by
  unfold i64Sub
  have : inI64 (a - b) = false := by
    cases hh : inI64 (a - b) with
    | false => rfl
    | true => exact absurd ((inI64_iff _).mp hh) h
  rw [this]; rfl

theorem usizeSub_ok (a b : Nat) (h : b ≤ a) : usizeSub a b = .ok (a - b) := by
  unfold usizeSub; rw [if_pos h]

theorem usizeSub_err (a b : Nat) (h : ¬ b ≤ a) : usizeSub a b = .error .subOverflow := by
  unfold usizeSub; rw [if_neg h]

theorem asI64_small (n : Nat) (h : n < 9223372036854775808) : asI64 n = (n : Int) := by
  unfold asI64
  have : n % 18446744073709551616 = n := Nat.mod_eq_of_lt (by omega)
  simp [this, h]

theorem asUsize_nonneg (x : Int) (h0 : 0 ≤ x) (h1 : x < 18446744073709551616) : asUsize x = x.toNat := by
  unfold asUsize
  rw [Int.emod_eq_of_lt h0 h1]

theorem asUsize_neg (x : Int) (h0 : x < 0) (h1 : -18446744073709551616 ≤ x) :
    asUsize x = (x + 18446744073709551616).toNat := by
  unfold asUsize
  congr 1
  omega

/-- pure form of the offset clamping -/
def offC (plen : Nat) (off : Int) : Int :=
  min (if off < 0 then (if off + (plen : Int) < 0 then (plen : Int) else off + plen) else off) plen

theorem offC_range (plen : Nat) (off : Int) : 0 ≤ offC plen off ∧ offC plen off ≤ plen := by
  unfold offC
  split <;> (try split) <;> omega

theorem clampOff_eq (plen : Nat) (off : Int) (hp : plen < 4611686018427387904)
    (ho : -9223372036854775808 ≤ off ∧ off ≤ 9223372036854775807) :
    clampOff (plen : Int) off =
      .ok (if off < 0 then (if off + (plen : Int) < 0 then (plen : Int) else off + plen) else off) := by
  unfold clampOff
  by_cases h1 : off < 0
  · rw [if_pos h1, if_pos h1, i64Add_ok _ _ (by omega)]
  · rw [if_neg h1, if_neg h1]

theorem offOut_ok (plen : Nat) (off : Int) (hp : plen < 4611686018427387904)
    (ho : -9223372036854775808 ≤ off ∧ off ≤ 9223372036854775807) :
    ∃ b, offOutOfRange (plen : Int) off = .ok b := by
  unfold offOutOfRange
  split
  · exact ⟨_, rfl⟩
  · split
    · rw [i64Add_ok _ _ (by omega)]; exact ⟨_, rfl⟩
    · exact ⟨_, rfl⟩

/-- the end offset is computed without overflow and, when there is one, lies between the start
offset and the parameter's length -/
theorem clampEnd_ok (fa pos pre : Bool) (plen : Nat) (off2 : Int) (len : Option Int) (hp : plen < 4611686018427387904)
    (h2 : 0 ≤ off2 ∧ off2 ≤ plen)
    (hl : ∀ l, len = some l → (-9223372036854775808 ≤ l ∧ l ≤ 9223372036854775807)) :
    ∃ r, clampEnd fa pos pre (plen : Int) off2 len = .ok r ∧ ∀ e, r = some e → off2 ≤ e ∧ e ≤ plen := by
  unfold clampEnd
  cases len with
  | none => exact ⟨_, rfl, by intro e he; cases he; omega⟩
  | some l =>
    have hl' := hl l rfl
    simp only
    by_cases hneg : l < 0
    · rw [if_pos hneg, i64Add_ok _ _ (by omega)]
      simp only
      by_cases hs : (pre || (fa && !pos && decide (off2 = (plen : Int)))) = true
      · rw [if_pos hs]; exact ⟨_, rfl, by intro e he; cases he; omega⟩
      · rw [if_neg hs]
        by_cases hc : (fa || decide ((plen : Int) + l < off2)) = true
        · rw [if_pos hc]; exact ⟨_, rfl, by intro e he; cases he⟩
        · rw [if_neg hc]
          refine ⟨_, rfl, ?_⟩
          intro e he; cases he
          simp only [Bool.or_eq_true, decide_eq_true_eq, not_or, Int.not_lt] at hc
          omega
    · rw [if_neg hneg, i64Sub_ok _ _ (by omega)]
      simp only
      rw [i64Add_ok _ _ (by omega)]
      refine ⟨_, rfl, ?_⟩
      intro e he; cases he
      omega

/-- the clamping arithmetic never overflows and yields either the declared error or `index ≤ end ≤ len` -/
theorem substrBounds_ok (fa pos und : Bool) (plen : Nat) (off : Int) (len : Option Int)
    (hp : plen < 4611686018427387904)
    (ho : -9223372036854775808 ≤ off ∧ off ≤ 9223372036854775807)
    (hl : ∀ l, len = some l → (-9223372036854775808 ≤ l ∧ l ≤ 9223372036854775807)) :
    ∃ r, substrBounds fa pos und plen off len = .ok r ∧ ∀ i e, r = some (i, e) → i ≤ e ∧ e ≤ plen := by
  unfold substrBounds
  simp only [asI64_small plen (by omega)]
  obtain ⟨oo, hoo⟩ := offOut_ok plen off hp ho
  rw [hoo]
  simp only
  rw [clampOff_eq plen off hp ho]
  simp only
  have hoff : min (if off < 0 then (if off + (plen : Int) < 0 then (plen : Int) else off + plen) else off) (plen : Int) = offC plen off := rfl
  rw [hoff]
  have hr := offC_range plen off
  obtain ⟨r, hr1, hr2⟩ := clampEnd_ok fa pos (oo || und) plen (offC plen off) len hp hr hl
  rw [hr1]
  cases r with
  | none => exact ⟨_, rfl, by intro i e h; cases h⟩
  | some e0 =>
    have := hr2 e0 rfl
    refine ⟨_, rfl, ?_⟩
    intro i e h
    cases h
    rw [asUsize_nonneg _ hr.1 (by omega), asUsize_nonneg _ (by omega) (by omega)]
    omega

/-- the piece loop never underflows: each subtraction is guarded by the comparison before it -/
theorem sliceLoop_ok (ps : List Wire.Str) : ∀ dist left, ∃ r, sliceLoop ps dist left = .ok r := by
  induction ps with
  | nil => intro d l; exact ⟨[], rfl⟩
  | cons p ps ih =>
    intro dist left
    unfold sliceLoop
    by_cases h0 : left = 0
    · rw [if_pos h0]; exact ⟨[], rfl⟩
    · rw [if_neg h0]
      simp only
      by_cases h1 : dist ≥ p.length
      · rw [if_pos h1, usizeSub_ok _ _ h1]
        obtain ⟨r, hr⟩ := ih (dist - p.length) left
        exact ⟨r, by simp only [bind, Except.bind]; exact hr⟩
      · rw [if_neg h1, usizeSub_ok _ _ (by omega)]
        simp only [bind, Except.bind]
        rw [usizeSub_ok _ _ (by omega)]
        simp only
        obtain ⟨r, hr⟩ := ih 0 (left - min left (p.length - dist))
        rw [hr]
        exact ⟨_, rfl⟩

theorem subsliceStr_ok_iff (ps : List Wire.Str) (i e : Nat) :
    (∃ r, subsliceStr ps i e = .ok r) ↔ i ≤ e := by
  unfold subsliceStr
  by_cases h : i ≤ e
  · rw [usizeSub_ok _ _ h]
    simp only [bind, Except.bind, h, iff_true]
    exact sliceLoop_ok ps i (e - i)
  · rw [usizeSub_err _ _ h]
    simp [bind, Except.bind, h]

theorem subsliceArr_ok_iff {α : Type} (xs : List α) (i e : Nat) (hi : i ≤ xs.length)
    (hlen : xs.length < 4611686018427387904) :
    (∃ r, subsliceArr xs i e = .ok r) ↔ i ≤ e := by
  unfold subsliceArr
  by_cases h : i ≤ e
  · rw [usizeSub_ok _ _ h]
    simp only [bind, Except.bind, h, iff_true]
    rw [usizeSub_ok _ _ hi]
    simp only
    have : usizeAdd i (min (e - i) (xs.length - i)) = .ok (i + min (e - i) (xs.length - i)) := by
      unfold usizeAdd USIZE_MAX; rw [if_pos (by omega)]
    rw [this]
    simp only
    rw [if_pos (by omega)]
    exact ⟨_, rfl⟩
  · rw [usizeSub_err _ _ h]
    simp [bind, Except.bind, h]

theorem stepOf_pos (inc : Int) : 0 < stepOf inc := by unfold stepOf; omega

theorem ascFrom_mem (n e : Int) (inc : Nat) (w : Int) (h : w ∈ ascFrom n e inc) : n ≤ w ∧ w ≤ e := by
  fun_induction ascFrom n e inc with
  | case1 n hc ih =>
    rcases List.mem_cons.mp h with h | h
    · subst h; omega
    · have := ih h; omega
  | case2 n hc => cases h

/-- an ascending run holds at most `(end - n) / inc + 1` values -/
theorem ascFrom_length (n e : Int) (inc : Nat) (hi : 0 < inc) :
    ((ascFrom n e inc).length : Int) * inc ≤ max 0 (e - n + inc) := by
  fun_induction ascFrom n e inc with
  | case1 n hc ih =>
    have ih' := ih
    simp only [List.length_cons, Int.natCast_add, Int.natCast_one, Int.add_mul, Int.one_mul]
    omega
  | case2 n hc => simp; omega

/-- a descending run (after its start) holds at most `(n - end) / inc` values -/
theorem descFrom_length (n e : Int) (inc : Nat) :
    ((descFrom n e inc).length : Int) * inc ≤ max 0 (n - e) := by
  fun_induction descFrom n e inc with
  | case1 n hc ih =>
    simp only [List.length_cons, Int.natCast_add, Int.natCast_one, Int.add_mul, Int.one_mul]
    omega
  | case2 n hc => simp; omega

theorem ascFrom_head (n e : Int) (inc : Nat) (hi : 0 < inc) (hn : n ≤ e) :
    ascFrom n e inc = n :: ascFrom (n + inc) e inc := by
  rw [ascFrom, dif_pos ⟨hi, hn⟩]

theorem descFrom_mem (n e : Int) (inc : Nat) (w : Int) (h : w ∈ descFrom n e inc) :
    e ≤ w ∧ w < n ∧ inI64 w = true := by
  fun_induction descFrom n e inc with
  | case1 n hc ih =>
    rcases List.mem_cons.mp h with h | h
    · subst h; exact ⟨hc.2.2, by omega, hc.2.1⟩
    · have := ih h; exact ⟨this.1, by omega, this.2.2⟩
  | case2 n hc => cases h

theorem descFrom_stop (n e : Int) (inc : Nat) (h : ¬ (0 < inc ∧ inI64 (n - inc) = true ∧ n - inc ≥ e)) :
    descFrom n e inc = [] := by
  rw [descFrom, dif_neg h]

theorem descFrom_step (n e : Int) (inc : Nat) (h : 0 < inc ∧ inI64 (n - inc) = true ∧ n - inc ≥ e) :
    descFrom n e inc = (n - inc) :: descFrom (n - inc) e inc := by
  rw [descFrom, dif_pos h]

theorem ascChars_mem (c e inc w : Nat) (h : w ∈ ascChars c e inc) : c ≤ w ∧ w ≤ e := by
  fun_induction ascChars c e inc with
  | case1 c hc ih =>
    rcases List.mem_cons.mp h with h | h
    · subst h; omega
    · have := ih h; omega
  | case2 c hc => cases h

theorem descChars_mem (c e inc w : Nat) (h : w ∈ descChars c e inc) :
    e ≤ w ∧ w < c ∧ isScalarValue w = true := by
  fun_induction descChars c e inc with
  | case1 c hc ih =>
    rcases List.mem_cons.mp h with h | h
    · subst h; exact ⟨hc.2.2.2, by omega, hc.2.2.1⟩
    · have := ih h; exact ⟨this.1, by omega, this.2.2⟩
  | case2 c hc => cases h

theorem descChars_stop (c e inc : Nat) (h : ¬ (0 < inc ∧ inc ≤ c ∧ isScalarValue (c - inc) = true ∧ c - inc ≥ e)) :
    descChars c e inc = [] := by
  rw [descChars, dif_neg h]

theorem utf8Len_append (a b : Wire.Str) : utf8Len (a ++ b) = utf8Len a + utf8Len b := by
  simp [utf8Len, List.map_append, List.sum_append]

theorem utf8Len_cons (c : Char) (s : Wire.Str) : utf8Len (c :: s) = c.utf8Size + utf8Len s := by
  simp [utf8Len]

/-- the UTF-8 length of a prefix is a character boundary: splitting there gives the prefix back -/
theorem splitAtByte_prefix (pre rest : Wire.Str) : splitAtByte (pre ++ rest) (utf8Len pre) = some (pre, rest) := by
  induction pre with
  | nil => cases rest <;> rfl
  | cons c cs ih =>
    have hpos := Char.utf8Size_pos c
    rw [utf8Len_cons]
    obtain ⟨k, hk⟩ : ∃ k, c.utf8Size + utf8Len cs = k + 1 := ⟨c.utf8Size + utf8Len cs - 1, by omega⟩
    rw [hk]
    show splitAtByte (c :: (cs ++ rest)) (k + 1) = _
    rw [splitAtByte, if_pos (by omega)]
    have : k + 1 - c.utf8Size = utf8Len cs := by omega
    rw [this, ih]
    rfl

/-- replacing the one-byte `&` that follows a prefix succeeds -/
theorem replaceRange1_amp (pre post r : Wire.Str) :
    replaceRange1 (pre ++ '&' :: post) (utf8Len pre) r = .ok (pre ++ r ++ post) := by
  unfold replaceRange1
  rw [splitAtByte_prefix]
  simp only
  rw [if_pos (by decide)]

/-- the index discipline: applied last-first, every offset taken from the original pattern still
addresses its own `&` in the partly rewritten copy (everything before it is untouched) -/
theorem applyRev_ampOffsets (r : Wire.Str) : ∀ (rest pre : Wire.Str) (esc : Bool),
    applyRev (ampOffsets rest (utf8Len pre) esc) (pre ++ rest) r = .ok (pre ++ substAmp rest esc r) := by
  intro rest
  induction rest with
  | nil => intro pre esc; rfl
  | cons c cs ih =>
    intro pre esc
    have hstep := ih (pre ++ [c]) (!esc && c == '\\')
    rw [utf8Len_append] at hstep
    have hone : utf8Len [c] = c.utf8Size := by simp [utf8Len]
    rw [hone, List.append_assoc, List.singleton_append] at hstep
    unfold ampOffsets substAmp
    simp only
    by_cases hamp : (!esc && c == '&') = true
    · rw [if_pos hamp, if_pos hamp]
      have hc : c = '&' := by simp at hamp; exact hamp.2
      subst hc
      rw [applyRev, hstep]
      simp only
      rw [List.append_assoc, List.singleton_append, replaceRange1_amp, List.append_assoc]
    · rw [if_neg hamp, if_neg hamp, hstep, List.append_assoc, List.singleton_append]

theorem decr_ok (fl : Flow) : ∃ fl', decr fl = .ok fl' := by
  cases fl with
  | normal => exact ⟨_, rfl⟩
  | brk k => cases k with
    | zero => exact ⟨_, rfl⟩
    | succ k => exact ⟨.brk k, by simp [decr, usizeSub, bind, Except.bind, pure, Except.pure]⟩
  | cont k => cases k with
    | zero => exact ⟨_, rfl⟩
    | succ k => exact ⟨.cont k, by simp [decr, usizeSub, bind, Except.bind, pure, Except.pure]⟩

theorem forLoop_ok (body : Wire.Str → Ck (Wire.Str × Flow)) (hb : ∀ r, ∃ x, body r = .ok x) :
    ∀ n r, ∃ x, forLoop n body r = .ok x := by
  intro n
  induction n with
  | zero => intro r; exact ⟨_, rfl⟩
  | succ n ih =>
    intro r
    obtain ⟨⟨r1, fl⟩, hx⟩ := hb r
    obtain ⟨fl', hd⟩ := decr_ok fl
    unfold forLoop
    simp only [bind, Except.bind, hx, hd]
    cases hc : (fl.isBrk || fl'.isCont)
    · simp only [Bool.false_eq_true, if_false]; exact ih r1
    · simp only [if_true]; exact ⟨_, rfl⟩

theorem thenMark_ok (x : Ck (Wire.Str × Flow)) (c : Char) (h : ∃ v, x = .ok v) : ∃ v, thenMark x c = .ok v := by
  obtain ⟨⟨r, fl⟩, hv⟩ := h
  subst hv
  cases fl <;> exact ⟨_, rfl⟩

end BrushVerif.Checked
