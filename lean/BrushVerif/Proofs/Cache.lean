import BrushVerif.Model.Cache
/-! Lemmas about the memo-cache model: the soundness invariant of the store. -/
namespace BrushVerif.Cache

variable {K V X : Type} [DecidableEq K]

theorem get?_mem {k : K} {v : V} {c : Store K V} (h : get? k c = some v) : (k, v) ∈ c := by
  induction c with
  | nil => simp [get?] at h
  | cons e r ih =>
    obtain ⟨k', v'⟩ := e
    simp only [get?] at h
    split at h
    · rename_i hk
      simp only [Option.some.injEq] at h
      subst hk; subst h
      exact List.mem_cons_self
    · exact List.mem_cons_of_mem _ (ih h)

theorem mem_remove {e : K × V} {k : K} {c : Store K V} (h : e ∈ remove k c) : e ∈ c :=
  (List.mem_filter.mp h).1

/-- Every stored value is the value of the function at every argument with that key. -/
def Sound (f : X → V) (key : X → K) (c : Store K V) : Prop :=
  ∀ k v, (k, v) ∈ c → ∀ x, key x = k → f x = v

omit [DecidableEq K] in
theorem sound_nil (f : X → V) (key : X → K) : Sound f key ([] : Store K V) := by
  intro k v h; simp at h

theorem memoStep_value {f : X → V} {key : X → K} {c : Store K V} (keep : V → Bool) (cap : Nat) (x : X)
    (hs : Sound f key c) : (memoStep f key keep cap c x).1 = f x := by
  unfold memoStep
  split
  · rename_i v hv
    exact (hs _ _ (get?_mem hv) x rfl).symm
  · rfl

theorem memoStep_sound {f : X → V} {key : X → K} {c : Store K V} (keep : V → Bool) (cap : Nat) (x : X)
    (hk : ∀ x y, key x = key y → f x = f y) (hs : Sound f key c) :
    Sound f key (memoStep f key keep cap c x).2 := by
  unfold memoStep
  split
  · rename_i v hv
    intro k w hm y hy
    simp only [touch, List.mem_cons] at hm
    rcases hm with hm | hm
    · simp only [Prod.mk.injEq] at hm
      obtain ⟨h1, h2⟩ := hm
      subst h1; subst h2
      exact hs _ _ (get?_mem hv) y hy
    · exact hs _ _ (mem_remove hm) y hy
  · intro k w hm y hy
    simp only at hm
    split at hm
    case isFalse => exact hs _ _ hm y hy
    simp only [set] at hm
    have hm' := List.mem_of_mem_take hm
    simp only [List.mem_cons] at hm'
    rcases hm' with hm' | hm'
    · simp only [Prod.mk.injEq] at hm'
      obtain ⟨h1, h2⟩ := hm'
      subst h1; subst h2
      exact hk _ _ hy
    · exact hs _ _ (mem_remove hm') y hy

theorem runMemo_outputs {f : X → V} {key : X → K} (keep : V → Bool) (cap : Nat)
    (hk : ∀ x y, key x = key y → f x = f y) :
    ∀ (c : Store K V) (xs : List X), Sound f key c → (runMemo f key keep cap c xs).1 = xs.map f := by
  intro c xs
  induction xs generalizing c with
  | nil => intro _; rfl
  | cons x xs ih =>
    intro hs
    simp only [runMemo, List.map_cons]
    rw [memoStep_value keep cap x hs, ih _ (memoStep_sound keep cap x hk hs)]

end BrushVerif.Cache
