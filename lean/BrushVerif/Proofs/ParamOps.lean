import BrushVerif.Model.ParamOps
import BrushVerif.Spec.ParamOps
/-! Helper lemmas for C06: what the four candidate loops of patterns.rs return. -/
namespace BrushVerif.ParamOps
open BrushVerif.Wire BrushVerif.ParamSpec

/-- `largestPrefixGo m s k` tried the prefixes of `k, k-1, …, 1` characters. -/
theorem largestPrefixGo_spec (m : Str → Bool) (s : Str) (k : Nat) :
    (∃ j, 1 ≤ j ∧ j ≤ k ∧ m (s.take j) = true ∧ largestPrefixGo m s k = s.drop j ∧
        ∀ i, j < i → i ≤ k → m (s.take i) = false) ∨
    ((∀ i, 1 ≤ i → i ≤ k → m (s.take i) = false) ∧ largestPrefixGo m s k = s) := by
  induction k with
  | zero => right; exact ⟨by intro i h1 h2; omega, rfl⟩
  | succ k ih =>
    rw [largestPrefixGo]
    by_cases h : m (s.take (k + 1)) = true
    · left
      refine ⟨k + 1, by omega, by omega, h, by simp [h], ?_⟩
      intro i h1 h2; omega
    · have hf : m (s.take (k + 1)) = false := by simpa using h
      simp only [hf, Bool.false_eq_true, ↓reduceIte]
      rcases ih with ⟨j, h1, h2, h3, h4, h5⟩ | ⟨h1, h2⟩
      · left
        refine ⟨j, h1, by omega, h3, h4, ?_⟩
        intro i hi1 hi2
        by_cases hik : i = k + 1
        · subst hik; exact hf
        · exact h5 i hi1 (by omega)
      · right
        refine ⟨?_, h2⟩
        intro i hi1 hi2
        by_cases hik : i = k + 1
        · subst hik; exact hf
        · exact h1 i hi1 (by omega)

/-- `smallestPrefixGo m s fuel k` tried the prefixes of `k+1, …, k+fuel` characters. -/
theorem smallestPrefixGo_spec (m : Str → Bool) (s : Str) (fuel k : Nat) :
    (∃ j, k < j ∧ j ≤ k + fuel ∧ m (s.take j) = true ∧ smallestPrefixGo m s fuel k = s.drop j ∧
        ∀ i, k < i → i < j → m (s.take i) = false) ∨
    ((∀ i, k < i → i ≤ k + fuel → m (s.take i) = false) ∧ smallestPrefixGo m s fuel k = s) := by
  induction fuel generalizing k with
  | zero => right; exact ⟨by intro i h1 h2; omega, rfl⟩
  | succ fuel ih =>
    rw [smallestPrefixGo]
    by_cases h : m (s.take (k + 1)) = true
    · left
      refine ⟨k + 1, by omega, by omega, h, by simp [h], ?_⟩
      intro i h1 h2; omega
    · have hf : m (s.take (k + 1)) = false := by simpa using h
      simp only [hf, Bool.false_eq_true, ↓reduceIte]
      rcases ih (k + 1) with ⟨j, h1, h2, h3, h4, h5⟩ | ⟨h1, h2⟩
      · left
        refine ⟨j, by omega, by omega, h3, h4, ?_⟩
        intro i hi1 hi2
        by_cases hik : i = k + 1
        · subst hik; exact hf
        · exact h5 i (by omega) hi2
      · right
        refine ⟨?_, h2⟩
        intro i hi1 hi2
        by_cases hik : i = k + 1
        · subst hik; exact hf
        · exact h1 i (by omega) (by omega)

/-- `largestSuffixGo m s fuel i` tried the suffixes starting at `i, …, i+fuel-1`. -/
theorem largestSuffixGo_spec (m : Str → Bool) (s : Str) (fuel i : Nat) :
    (∃ j, i ≤ j ∧ j < i + fuel ∧ m (s.drop j) = true ∧ largestSuffixGo m s fuel i = s.take j ∧
        ∀ t, i ≤ t → t < j → m (s.drop t) = false) ∨
    ((∀ t, i ≤ t → t < i + fuel → m (s.drop t) = false) ∧ largestSuffixGo m s fuel i = s) := by
  induction fuel generalizing i with
  | zero => right; exact ⟨by intro t h1 h2; omega, rfl⟩
  | succ fuel ih =>
    rw [largestSuffixGo]
    by_cases h : m (s.drop i) = true
    · left
      refine ⟨i, by omega, by omega, h, by simp [h], ?_⟩
      intro t h1 h2; omega
    · have hf : m (s.drop i) = false := by simpa using h
      simp only [hf, Bool.false_eq_true, ↓reduceIte]
      rcases ih (i + 1) with ⟨j, h1, h2, h3, h4, h5⟩ | ⟨h1, h2⟩
      · left
        refine ⟨j, by omega, by omega, h3, h4, ?_⟩
        intro t ht1 ht2
        by_cases hti : t = i
        · subst hti; exact hf
        · exact h5 t (by omega) ht2
      · right
        refine ⟨?_, h2⟩
        intro t ht1 ht2
        by_cases hti : t = i
        · subst hti; exact hf
        · exact h1 t (by omega) (by omega)

/-- `smallestSuffixGo m s i` tried the suffixes starting at `i-1, …, 0`. -/
theorem smallestSuffixGo_spec (m : Str → Bool) (s : Str) (i : Nat) :
    (∃ j, j < i ∧ m (s.drop j) = true ∧ smallestSuffixGo m s i = s.take j ∧
        ∀ t, j < t → t < i → m (s.drop t) = false) ∨
    ((∀ t, t < i → m (s.drop t) = false) ∧ smallestSuffixGo m s i = s) := by
  induction i with
  | zero => right; exact ⟨by intro t h; omega, rfl⟩
  | succ i ih =>
    rw [smallestSuffixGo]
    by_cases h : m (s.drop i) = true
    · left
      refine ⟨i, by omega, h, by simp [h], ?_⟩
      intro t h1 h2; omega
    · have hf : m (s.drop i) = false := by simpa using h
      simp only [hf, Bool.false_eq_true, ↓reduceIte]
      rcases ih with ⟨j, h1, h3, h4, h5⟩ | ⟨h1, h2⟩
      · left
        refine ⟨j, by omega, h3, h4, ?_⟩
        intro t ht1 ht2
        by_cases hti : t = i
        · subst hti; exact hf
        · exact h5 t ht1 (by omega)
      · right
        refine ⟨?_, h2⟩
        intro t ht
        by_cases hti : t = i
        · subst hti; exact hf
        · exact h1 t (by omega)

/-! ## string slicing -/

theorem sliceFields_single (s : Str) (i n : Nat) (hi : i ≤ s.length) :
    joinWith [' '] (sliceFields [s] i n) = (s.drop i).take n := by
  unfold sliceFields
  by_cases hn : n = 0
  · simp [hn, joinWith]
  · simp only [hn, ↓reduceIte]
    by_cases hd : i ≥ s.length
    · have : i = s.length := by omega
      simp [this, sliceFields, joinWith]
    · simp only [hd, ↓reduceIte]
      have hmin : (List.take (min n (s.length - i)) (List.drop i s)) = (List.drop i s).take n := by
        rw [List.take_eq_take_iff]; simp [List.length_drop]
      simp only [hmin]
      simp [sliceFields, joinWith]

end BrushVerif.ParamOps
