import BrushVerif.Model.Print
/-! Lemmas about the token-level reader `lex` (C14). -/
namespace BrushVerif.Print
open BrushVerif.Wire

/-- a character that can be part of a plain word -/
def wordChar (c : Char) : Bool := !isOpChar c && !isBlank c && c != '\n'

theorem emit_nil (isOp : Bool) (n : Option Char) : emit isOp [] n = [] := by simp [emit]

/-- with an empty current run the mode flag is irrelevant -/
theorem lexGo_flag_nil (s : Str) : lexGo true [] s = lexGo false [] s := by
  cases s with
  | nil => simp [lexGo, emit]
  | cons c s => simp [lexGo, emit]

theorem lexGo_blank (isOp : Bool) (cur s : Str) :
    lexGo isOp cur (' ' :: s) = emit isOp cur none ++ lexGo false [] s := by
  rw [lexGo]; simp [isBlank]

/-- word characters extend the current word -/
theorem lexGo_wordchars (w : Str) : ∀ (cur s : Str), (∀ c ∈ w, wordChar c = true) →
    lexGo false cur (w ++ s) = lexGo false (cur ++ w) s := by
  induction w with
  | nil => intro cur s _; simp
  | cons c w ih =>
    intro cur s h
    have hc := h c (by simp)
    simp only [wordChar, Bool.and_eq_true, Bool.not_eq_true', bne_iff_ne, ne_eq] at hc
    rw [List.cons_append, lexGo]
    simp only [hc.2, hc.1.1, hc.1.2, if_false, Bool.false_eq_true]
    rw [ih (cur ++ [c]) s (fun d hd => h d (by simp [hd]))]
    simp

/-- operator characters extend the current operator run -/
theorem lexGo_opchars (o : Str) : ∀ (cur s : Str), (∀ c ∈ o, isOpChar c = true) →
    lexGo true cur (o ++ s) = lexGo true (cur ++ o) s := by
  induction o with
  | nil => intro cur s _; simp
  | cons c o ih =>
    intro cur s h
    have hc := h c (by simp)
    have hn : c ≠ '\n' := by intro e; subst e; simp [isOpChar] at hc
    have hb : isBlank c = false := by
      simp only [isOpChar, Bool.or_eq_true, beq_iff_eq] at hc
      rcases hc with ((((((h|h)|h)|h)|h)|h)|h) <;> subst h <;> decide
    rw [List.cons_append, lexGo]
    simp only [hn, hb, hc, if_true, if_false, Bool.false_eq_true]
    rw [ih (cur ++ [c]) s (fun d hd => h d (by simp [hd]))]
    simp

/-- indentation (blanks after a newline) never changes the tokens -/
theorem lexGo_indent : ∀ (s : Str) (ni isOp : Bool) (cur : Str), (ni = true → cur = []) →
    lexGo isOp cur (indentGo ni s) = lexGo isOp cur s
  | [], ni, isOp, cur, _ => by simp [indentGo]
  | c :: s, ni, isOp, cur, h => by
    rw [indentGo]
    by_cases hc : c = '\n'
    · simp only [hc, if_true]
      rw [lexGo, lexGo]
      simp only [if_true]
      rw [lexGo_indent s true false [] (by simp)]
    · simp only [hc, if_false]
      cases ni with
      | false =>
        simp only [Bool.false_eq_true, if_false]
        rw [lexGo, lexGo]
        simp only [hc, if_false]
        rw [lexGo_indent s false false [] (by simp), lexGo_indent s false true _ (by simp),
          lexGo_indent s false true _ (by simp), lexGo_indent s false false _ (by simp),
          lexGo_indent s false false _ (by simp)]
      | true =>
        have hcur := h rfl
        subst hcur
        simp only [if_true]
        rw [lexGo_blank, lexGo_blank, lexGo_blank, lexGo_blank]
        simp only [emit_nil, List.nil_append]
        have hflag : lexGo isOp [] (c :: s) = lexGo false [] (c :: s) := by
          cases isOp
          · rfl
          · exact lexGo_flag_nil _
        have H : ∀ k cur, lexGo k cur (indentGo false s) = lexGo k cur s :=
          fun k cur => lexGo_indent s false k cur (by simp)
        rw [hflag, lexGo, lexGo]
        simp only [hc, if_false, H]

/-- tokens never straddle a newline -/
theorem lexGo_newline_split (a : Str) : ∀ (k : Bool) (cur b : Str),
    lexGo k cur (a ++ '\n' :: b) = lexGo k cur a ++ .nl :: lexGo false [] b := by
  induction a with
  | nil => intro k cur b; simp [lexGo]
  | cons c a ih =>
    intro k cur b
    rw [List.cons_append, lexGo, lexGo]
    simp only [ih, List.append_assoc]
    split
    · simp
    · split
      · simp
      · split <;> split <;> simp

/-- tokens never straddle a blank -/
theorem lexGo_blank_split (a : Str) : ∀ (k : Bool) (cur b : Str),
    lexGo k cur (a ++ ' ' :: b) = lexGo k cur a ++ lexGo false [] b := by
  induction a with
  | nil => intro k cur b; rw [List.nil_append, lexGo_blank, lexGo]
  | cons c a ih =>
    intro k cur b
    rw [List.cons_append, lexGo, lexGo]
    simp only [ih, List.append_assoc]
    split
    · simp
    · split
      · simp
      · split <;> split <;> simp

/-- a plain word: non-empty, no blank, newline or operator character -/
def Plain (w : Str) : Prop := w ≠ [] ∧ ∀ c ∈ w, wordChar c = true

/-- an operator: a non-empty run of operator characters -/
def OpStr (o : Str) : Prop := o ≠ [] ∧ ∀ c ∈ o, isOpChar c = true

theorem emit_word (w : Str) (hw : w ≠ []) : emit false w none = [.word w] := by
  cases w with
  | nil => exact absurd rfl hw
  | cons c w => simp [emit]

theorem lex_word_end (w : Str) (hw : Plain w) : lexGo false [] w = [.word w] := by
  have := lexGo_wordchars w [] [] hw.2
  simp only [List.append_nil, List.nil_append] at this
  rw [this, lexGo, emit_word w hw.1]

theorem lex_word_blank (w s : Str) (hw : Plain w) :
    lexGo false [] (w ++ ' ' :: s) = .word w :: lexGo false [] s := by
  rw [lexGo_wordchars w [] _ hw.2, List.nil_append, lexGo_blank, emit_word w hw.1]; rfl

theorem lex_op_blank (o s : Str) (ho : OpStr o) :
    lexGo false [] (o ++ ' ' :: s) = .op o :: lexGo false [] s := by
  rw [← lexGo_flag_nil, lexGo_opchars o [] _ ho.2, List.nil_append, lexGo_blank]
  obtain ⟨hne, _⟩ := ho
  cases o with
  | nil => exact absurd rfl hne
  | cons c o => simp [emit]

/-- a word that is not an fd number, directly followed by an operator -/
theorem lex_word_op (w o s : Str) (hw : Plain w) (hd : w.all isDigitC = false) (ho : OpStr o) :
    lexGo false [] (w ++ (o ++ ' ' :: s)) = .word w :: .op o :: lexGo false [] s := by
  rw [lexGo_wordchars w [] _ hw.2, List.nil_append]
  obtain ⟨hne, hop⟩ := ho
  cases o with
  | nil => exact absurd rfl hne
  | cons c o =>
    have hc := hop c (by simp)
    have hn : c ≠ '\n' := by intro e; subst e; simp [isOpChar] at hc
    have hb : isBlank c = false := by
      simp only [isOpChar, Bool.or_eq_true, beq_iff_eq] at hc
      rcases hc with ((((((h|h)|h)|h)|h)|h)|h) <;> subst h <;> decide
    rw [List.cons_append, lexGo]
    simp only [hn, hb, hc, if_true, if_false, Bool.false_eq_true]
    rw [lexGo_opchars o [c] _ (fun d hd' => hop d (by simp [hd'])), lexGo_blank]
    have hw1 := hw.1
    cases w with
    | nil => exact absurd rfl hw1
    | cons a w => simp [emit, hd]

/-- an fd number: digits directly followed by a redirection operator -/
theorem lex_ionum_op (n o s : Str) (hn : Plain n) (hd : n.all isDigitC = true) (ho : OpStr o)
    (hh : o.head? = some '<' ∨ o.head? = some '>') :
    lexGo false [] (n ++ (o ++ ' ' :: s)) = .ionum n :: .op o :: lexGo false [] s := by
  rw [lexGo_wordchars n [] _ hn.2, List.nil_append]
  obtain ⟨hne, hop⟩ := ho
  cases o with
  | nil => exact absurd rfl hne
  | cons c o =>
    have hc := hop c (by simp)
    have hnl : c ≠ '\n' := by intro e; subst e; simp [isOpChar] at hc
    have hb : isBlank c = false := by
      simp only [isOpChar, Bool.or_eq_true, beq_iff_eq] at hc
      rcases hc with ((((((h|h)|h)|h)|h)|h)|h) <;> subst h <;> decide
    rw [List.cons_append, lexGo]
    simp only [hnl, hb, hc, if_true, if_false, Bool.false_eq_true]
    rw [lexGo_opchars o [c] _ (fun d hd' => hop d (by simp [hd'])), lexGo_blank]
    have hn1 := hn.1
    cases n with
    | nil => exact absurd rfl hn1
    | cons a n =>
      simp only [List.head?_cons, Option.some.injEq] at hh
      rcases hh with hh | hh <;> subst hh <;> simp [emit, hd]

/-- a word directly behind an operator run closes the run -/
theorem lexGo_op_word (o w s : Str) (ho : o ≠ []) (hw : Plain w) :
    lexGo true o (w ++ s) = .op o :: lexGo false [] (w ++ s) := by
  obtain ⟨hne, hall⟩ := hw
  cases w with
  | nil => exact absurd rfl hne
  | cons c w =>
    have hc := hall c (by simp)
    simp only [wordChar, Bool.and_eq_true, Bool.not_eq_true', bne_iff_ne, ne_eq] at hc
    rw [List.cons_append, lexGo, lexGo]
    simp only [hc.2, hc.1.1, hc.1.2, if_false, if_true, Bool.false_eq_true, List.nil_append]
    cases o with
    | nil => exact absurd rfl ho
    | cons a o => simp [emit]

/-- a word directly followed by one operator character that is not a redirection operator -/
theorem lex_word_opchar (w s : Str) (c : Char) (hw : Plain w) (hc : isOpChar c = true)
    (h1 : c ≠ '<') (h2 : c ≠ '>') :
    lexGo false [] (w ++ c :: s) = .word w :: lexGo true [c] s := by
  rw [lexGo_wordchars w [] _ hw.2, List.nil_append]
  have hn : c ≠ '\n' := by intro e; subst e; simp [isOpChar] at hc
  have hb : isBlank c = false := by
    simp only [isOpChar, Bool.or_eq_true, beq_iff_eq] at hc
    rcases hc with ((((((h|h)|h)|h)|h)|h)|h) <;> subst h <;> decide
  rw [lexGo]
  simp only [hn, hb, hc, if_true, if_false, Bool.false_eq_true]
  have hw1 := hw.1
  cases w with
  | nil => exact absurd rfl hw1
  | cons a w => simp [emit, h1, h2]

end BrushVerif.Print
