import BrushVerif.Model.Wire
import BrushVerif.Gen.QuoteTables
/-!
# Model of brush's quoting routines and printers (brush-core/src/escape.rs, variables.rs, …)

`quote` chooses among four styles (unquoted / single / double / backslash / ANSI-C) exactly as
`escape::quote` does; the character tables come from `Gen/QuoteTables.lean`, regenerated from the
Rust source on every run.  The printers mirror `ShellValue::format`, `to_assignable_str`,
`declare -p`, `set`, `export -p`, `alias`, `trap -p` and the xtrace formatting — including the three
printers that do not escape at all (`export -p`, `alias`, `trap -p`).
-/
namespace BrushVerif.Quote
open BrushVerif.Wire
open BrushVerif.Gen.QuoteTables

def needsEscaping (c : Char) : Bool := needsEscapingTable.contains c
def isAsciiControl (c : Char) : Bool := c.toNat < 32 || c.toNat == 127
def needsAnsiC (c : Char) : Bool := isAsciiControl c

inductive Mode | single | double | backslash
  deriving DecidableEq, Repr

structure Opts where
  always : Bool
  mode : Mode
  avoidNl : Bool := false

/-! ## the four styles -/

/-- `is_special_by_position`: a `~` at the start of the word or right after `:` / `=`, a `#` at the
start of the word -/
def isSpecialByPos (prev : Option Char) (c : Char) : Bool :=
  (c == '~' && (prev == none || prev == some ':' || prev == some '=')) || (c == '#' && prev == none)

/-- `contains_char_special_by_position` (with the previous character threaded) -/
def hasPosSpecial : Option Char → Str → Bool
  | _, [] => false
  | prev, c :: cs => isSpecialByPos prev c || hasPosSpecial (some c) cs

def bsGo : Option Char → Str → Str
  | _, [] => []
  | prev, c :: cs =>
    (if needsEscaping c || isSpecialByPos prev c then ['\\', c] else [c]) ++ bsGo (some c) cs

/-- `backslash_escape` -/
def backslashEscape (s : Str) : Str := if s.isEmpty then ['\'', '\''] else bsGo none s

/-- `single_quote`, one character at a time: `inq` = a `'…` run is open. (`split('\'')` formulation:
every non-empty part is wrapped in quotes, parts are joined by `\'`.) -/
def sqGo : Bool → Str → Str
  | inq, [] => if inq then ['\''] else []
  | inq, c :: cs =>
    if c = '\'' then (if inq then ['\''] else []) ++ ('\\' :: '\'' :: sqGo false cs)
    else (if inq then [] else ['\'']) ++ (c :: sqGo true cs)

def singleQuote (s : Str) : Str := if s.isEmpty then ['\'', '\''] else sqGo false s

def dqChar (c : Char) : Str := if dqEscapedTable.contains c then ['\\', c] else [c]

/-- `double_quote` -/
def doubleQuote (s : Str) : Str := '"' :: (s.flatMap dqChar ++ ['"'])

def octDigit (n : Nat) : Char := Char.ofNat (48 + n % 8)
def oct3 (n : Nat) : Str := [octDigit (n / 64), octDigit (n / 8), octDigit n]

def ansiChar (c : Char) : Str :=
  match ansiNamedTable.lookup c with
  | some rep => rep
  | none => if needsAnsiC c then '\\' :: oct3 (c.toNat % 256) else [c]

/-- `ansi_c_quote` -/
def ansiCQuote (s : Str) : Str := '$' :: '\'' :: (s.flatMap ansiChar ++ ['\''])

/-- `escape::quote` -/
def quote (o : Opts) (s : Str) : Str :=
  if s.any (fun c => needsAnsiC c && (!o.avoidNl || c != '\n')) then ansiCQuote s
  else if !(o.always || s.isEmpty || s.any needsEscaping || hasPosSpecial none s) then s
  else match o.mode with
    | .backslash => backslashEscape s
    | .single => singleQuote s
    | .double => doubleQuote s

def forceQuote (m : Mode) (s : Str) : Str := quote { always := true, mode := m } s
def quoteIfNeeded (m : Mode) (s : Str) : Str := quote { always := false, mode := m } s

/-! ## printers -/

/-- `printf %q` (the one-argument special case in brush-builtins/src/printf.rs) -/
def printfQ (v : Str) : Str := quoteIfNeeded .backslash v
/-- `${v@Q}` -/
def atQ (v : Str) : Str := forceQuote .single v
/-- xtrace of an argument / `set` value (`FormatStyle::Basic`) -/
def traceArg (v : Str) : Str := quoteIfNeeded .single v
/-- `declare -p` value of a scalar (`FormatStyle::DeclarePrint`) -/
def declValue (v : Str) : Str := forceQuote .double v

def attrStr (attrs : Str) : Str := if attrs.isEmpty then ['-'] else attrs

/-- `declare -p name` for a scalar -/
def declareP (attrs name v : Str) : Str :=
  "declare -".toList ++ attrStr attrs ++ [' '] ++ name ++ ['='] ++ declValue v

/-- `${name@A}` for a scalar: an assignment, or a `declare` command when there are attributes -/
def atA (attrs name v : Str) : Str :=
  (if attrs.isEmpty then [] else "declare -".toList ++ attrs ++ [' ']) ++ name ++ ['='] ++ forceQuote .single v

/-- the line `set` prints for a scalar; xtrace of an assignment -/
def setLine (name v : Str) : Str := name ++ ['='] ++ traceArg v

/-- `export -p`: the same line as `declare -p` — all attribute flags, the value quoted alike (export.rs) -/
def exportP (attrs name v : Str) : Str := declareP attrs name v

/-- the flag string of a `declare -<flags> …` line -/
def declFlags : Str → Option Str
  | 'd' :: 'e' :: 'c' :: 'l' :: 'a' :: 'r' :: 'e' :: ' ' :: '-' :: r => some (r.takeWhile (· != ' '))
  | _ => none

/-- `single_quoted` of alias.rs: one pair of quotes, every `'` inside written `'\''` -/
def sqBash (v : Str) : Str :=
  if v = ['\''] then ['\\', '\'']
  else '\'' :: (v.flatMap (fun c => if c = '\'' then ['\'', '\\', '\'', '\''] else [c]) ++ ['\''])

/-- `alias` -/
def aliasP (name v : Str) : Str := "alias ".toList ++ name ++ ['='] ++ sqBash v

/-- `trap -p`: the command between single quotes, unescaped (trap.rs) -/
def trapP (v sig : Str) : Str := "trap -- '".toList ++ v ++ ['\'', ' '] ++ sig

/-- indexed array body `([k]="v" [k]="v")` -/
def indexedBody (kvs : List (Str × Str)) : Str :=
  '(' :: (joinWith [' '] (kvs.map fun kv => '[' :: (kv.1 ++ (']' :: '=' :: declValue kv.2))) ++ [')'])

/-- associative array body `([k]="v" [k]="v" )` (trailing blank after every entry) -/
def assocBody (kvs : List (Str × Str)) : Str :=
  '(' :: ((kvs.flatMap fun kv => '[' :: (quoteIfNeeded .double kv.1 ++ (']' :: '=' :: (declValue kv.2 ++ [' '])))) ++ [')'])

def declareArr (assoc : Bool) (attrs name : Str) (kvs : List (Str × Str)) : Str :=
  "declare -".toList ++ [if assoc then 'A' else 'a'] ++ attrs ++ [' '] ++ name ++ ['='] ++
    (if assoc then assocBody kvs else indexedBody kvs)

end BrushVerif.Quote
