import BrushVerif.Model.Flow
/-!
# Trap handling and the shell's exit funnel (C16)

Mirrors brush-core/src/shell/traps.rs (`invoke_trap_handler`: per-signal re-entrancy guard, `$?`
saved and restored unless the handler ends the shell, `on_exit`) and the three front ends that all
end in one `on_exit` call: `run_dash_c_command`, `run_script` (execution.rs) and the interactive /
stdin loop (interactive_shell.rs).  Programs and handlers are `Flow.Cmd`s run by `Flow.exec`;
because every way out of a program (`exit n` at any depth, errexit, running off the end) is a
*value* returned by `exec`, all of them reach the same single `onExit`.

Not modelled here: where the ERR trap fires inside a program (interp.rs `Pipeline::execute`); that
is compared with bash directly by the C16 check.
-/
namespace BrushVerif.Traps
open BrushVerif.Flow

inductive Sig where
  | exit
  | err
  deriving DecidableEq, Repr

structure TSt where
  st : St
  exitTrap : Option Cmd := none
  errTrap : Option Cmd := none
  active : List Sig := []          -- signals whose handler is running (call stack frames)

def TSt.handler (t : TSt) : Sig → Option Cmd
  | .exit => t.exitTrap
  | .err => t.errTrap

/-- `invoke_trap_handler`: returns the new state and whether the handler asked the shell to exit.
As the code has it, `$?` is restored even then, and every caller discards the handler's result: a
handler cannot change the status the shell leaves with (bash lets `exit n` in the handler decide it;
recorded finding, pinned by a known-failure test of the repository). -/
def invokeTrap (fuel : Nat) (fs : List Cmd) (sig : Sig) (t : TSt) : Option (TSt × Bool) :=
  if sig ∈ t.active then some (t, false)            -- never re-enter a handler that is running
  else match t.handler sig with
    | none => some (t, false)
    | some h =>
      match exec fuel fs false h t.st with
      | none => none
      | some (s1, r) =>
        -- `$?` is what it was before the handler ran
        some ({ t with st := { s1 with last := t.st.last } }, decide (r.flow = .exit))

/-- how the program text reaches the shell -/
inductive FrontEnd where
  | dashC      -- `brush -c '…'`
  | script     -- `brush file`
  | stdin      -- commands read from standard input
  deriving DecidableEq, Repr

/-- the observable outcome of a shell process: everything written to the trace and the exit status -/
structure Outcome where
  trace : List Tr
  status : Nat
  deriving DecidableEq, Repr

/-- Run `main` (which may have been preceded by `trap … EXIT`, given as `exitTrap`), then the exit
funnel.  `replacedByExec` = the program ended in a successful `exec cmd`, which replaces the shell
process: nothing of the shell runs afterwards. -/
def runShell (_fe : FrontEnd) (fuel : Nat) (fs : List Cmd) (exitTrap : Option Cmd) (main : Cmd)
    (replacedByExec : Bool) : Option Outcome :=
  match exec fuel fs false main {} with
  | none => none
  | some (s, r) =>
    -- every front end stores the result's status in `$?` and then calls `on_exit` once
    let t : TSt := { st := { s with last := r.code }, exitTrap := exitTrap }
    if replacedByExec then some { trace := t.st.trace, status := t.st.last }
    else match invokeTrap fuel fs .exit t with
      | none => none
      | some (t', _) => some { trace := t'.st.trace, status := t'.st.last }

/-! ## A subshell that registers its own EXIT trap: `( trap h EXIT; c )`, `v=$(trap h EXIT; c)`,
`… | { trap h EXIT; c; }` -/

/-- As brush runs it (interp.rs `CompoundCommand::Subshell`, commands.rs
`invoke_command_in_subshell_and_get_output`, the pipeline-stage clone): the body runs on a clone of the
shell and the clone is dropped — no `on_exit` for it.  The registration `_h` has no observable effect.
(Recorded finding; the repository's own tests mark "subshell can set its own EXIT trap" as a known
failure, which pins the behaviour.) -/
def subshellOwnTrap (fuel : Nat) (fs : List Cmd) (sup : Bool) (_h : Option Cmd) (c : Cmd) (s : St) :
    Option (St × Res) :=
  exec fuel fs sup (.subshell c) s

/-- What the property demands (and bash does): the subshell is a shell of its own; however its body
ends, its EXIT handler runs once, last, with `$?` = the terminating status, and the subshell's status
is that status unless the handler itself exits.  Only the output and the status come back. -/
def subshellOwnTrapSpec : Nat → List Cmd → Bool → Option Cmd → Cmd → St → Option (St × Res)
  | 0, _, _, _, _, _ => none
  | fuel + 1, fs, sup, h, c, s =>
    match exec fuel fs sup c s with
    | none => none
    | some (s1, r1) =>
      match h with
      | none => some (post sup { s with trace := s1.trace } { code := r1.code, flow := .normal })
      | some hc =>
        match exec fuel fs false hc { s1 with last := r1.code } with
        | none => none
        | some (s2, rh) =>
          some (post sup { s with trace := s2.trace }
            { code := if rh.flow = .exit then rh.code else r1.code, flow := .normal })

end BrushVerif.Traps
