import BrushVerif.Model.ParamOps
/-!
# Model of brush's `set -u` decision (C03, nounset part)

Which expansions end the shell, which only fail the command, which go through.  Mirrors

* `brush-core/src/expansion.rs`: `expand_parameter_without_indirect`, `expand_parameter_internal`
  (the two-stage `${!ref}` lookup), `undefined_expansion`, `expand_special_parameter`,
  `expand_array_index`, and the arms of `expand_parameter_expr` as far as they decide
  `allow_unset_vars` (`- = ? +` allow; `${#a[i]}` / `${#a[@]}` allow when the variable exists;
  `${!prefix*}`, `${!a[@]}` never look at the option; every other arm does not allow);
* `brush-core/src/variables.rs`: `ShellValue::{get_at, try_get_cow_str, element_values, is_set}`,
  `get_key_for_indexed_array`;
* `brush-core/src/arithmetic.rs`: `eval_expr_impl`, `get_var_value`, `deref_lvalue` (the
  unset-variable test of a bare name and of an element of a variable that is not set), the
  short-circuit operators, `?:`, assignment, `++`;
* `brush-core/src/error.rs`: `Error::is_fatal` / `to_control_flow` (non-interactive shell) and the
  wrapping of a builtin's error (`let`), which hides the fatal mark.

The text of values matters only where the code looks at it (null-ness, the text a reference or an
arithmetic variable holds), so the two parsers (`parse_parameter`, `arithmetic::parse`) are
parameters of the model.
-/
namespace BrushVerif.Nounset
open BrushVerif.Wire
open BrushVerif.ParamOps (Expansion classify ofStr undefinedExp TestOp testAction PState Action)

/-! ## shell state -/

/-- `ShellValueUnsetType` -/
inductive UnsetKind where
  | untyped | indexed | assoc
  deriving Repr, DecidableEq

/-- `ShellValue` (without `Dynamic`) -/
inductive Value where
  | unset (k : UnsetKind)
  | str (s : Str)
  | indexed (els : List (Nat × Str))
  | assoc (els : List (Str × Str))
  deriving Repr, DecidableEq

/-- what the expander reads from the shell: `env().get(name)`, `current_shell_args()`,
`options().treat_unset_variables_as_error` -/
structure Env where
  vars : Str → Option Value
  args : List Str
  nounset : Bool

def Env.set (e : Env) (x : Str) (v : Value) : Env :=
  { e with vars := fun n => if n = x then some v else e.vars n }

/-- the errors the decision distinguishes -/
inductive Err where
  /-- `ErrorKind::ExpandingUnsetVariable(..).into_fatal()` -/
  | unsetVar
  /-- `ErrorKind::CheckedExpansionError(..).into_fatal()` (`${v?}`) -/
  | checked
  /-- `EvalError::ExpandingUnsetVariable`: fatal by `Error::is_fatal` -/
  | arithUnset
  /-- any other error (parse failure of a reference, cannot assign, recursion limit, …): not fatal -/
  | other
  deriving Repr, DecidableEq

/-- `Error::is_fatal` -/
def Err.fatal : Err → Bool
  | .other => false
  | _ => true

/-- what happens to the script -/
inductive Decision where
  /-- the command runs -/
  | ok
  /-- the command is abandoned (and with it the rest of its line / the running function), the
  script goes on with the next line -/
  | fail
  /-- the shell ends -/
  | abort
  deriving Repr, DecidableEq

/-- `Error::to_control_flow` in a non-interactive shell: a fatal error is `ExitShell` -/
def decide? {α : Type} : Except Err α → Decision
  | .ok _ => .ok
  | .error e => if e.fatal then .abort else .fail

/-! ## values -/

def lookupN (els : List (Nat × Str)) (i : Nat) : Option Str := (els.find? (fun p => p.1 = i)).map (·.2)
def lookupS (els : List (Str × Str)) (k : Str) : Option Str := (els.find? (fun p => p.1 = k)).map (·.2)

/-- `ShellValue::is_set` -/
def Value.isSet : Value → Bool
  | .unset _ => false
  | _ => true

/-- `ShellValue::try_get_cow_str`: the value a bare name stands for -/
def Value.scalar? : Value → Option Str
  | .unset _ => none
  | .str s => some s
  | .indexed els => lookupN els 0
  | .assoc els => lookupS els ['0']

/-- `ShellValue::element_values` -/
def Value.elements : Value → List Str
  | .unset _ => []
  | .str s => [s]
  | .indexed els => els.map (·.2)
  | .assoc els => els.map (·.2)

/-- `ShellValue::element_keys` (only their number matters here) -/
def Value.keyCount : Value → Nat
  | .unset _ => 0
  | .str _ => 1
  | .indexed els => els.length
  | .assoc els => els.length

/-- an evaluated subscript: the text handed to `get_at` is a decimal number (`expand_and_eval(..)
.to_string()`) or, for an associative array, the expanded key -/
inductive IdxVal where
  | int (i : Int)
  | key (k : Str)
  deriving Repr, DecidableEq

/-- `ShellValue::get_at`: `none` also stands for the `Err` of an out-of-range negative index
(`if let … Ok(Some(value))` treats both alike) -/
def Value.getAt (v : Value) (i : IdxVal) : Option Str :=
  match v, i with
  | .unset _, _ => none
  | .str s, .int n => if n ≤ 0 then some s else none          -- `parse::<u64>().unwrap_or(0) == 0`
  | .str s, .key k => if (parseNat? k).getD 0 = 0 then some s else none
  | .assoc els, .key k => lookupS els k
  | .assoc els, .int n => lookupS els (intToStr n)
  | .indexed els, .int n =>
    if n < 0 then (if n + els.length < 0 then none else lookupN els (n + els.length).toNat)
    else lookupN els n.toNat
  | .indexed els, .key k =>
    match parseInt? k with
    | some n => if n < 0 then (if n + els.length < 0 then none else lookupN els (n + els.length).toNat)
                else lookupN els n.toNat
    | none => lookupN els 0

/-! ## arithmetic -/

inductive AExpr where
  | lit (n : Int)
  | var (x : Str)
  | elem (x : Str) (i : AExpr)
  | neg (e : AExpr)
  | not (e : AExpr)
  | add (l r : AExpr)
  | lt (l r : AExpr)
  | comma (l r : AExpr)
  | land (l r : AExpr)
  | lor (l r : AExpr)
  | cond (c t e : AExpr)
  | assign (x : Str) (r : AExpr)
  | postIncr (x : Str)
  deriving Repr, DecidableEq

/-- `i64` wrap-around -/
def wrap64 (x : Int) : Int := (x + 9223372036854775808) % 18446744073709551616 - 9223372036854775808

def b2i (b : Bool) : Int := if b then 1 else 0

/-- `MAX_VARIABLE_DEREF_DEPTH` -/
def maxDepth : Nat := 1024

/-- `update_or_add(name, Scalar(value))`: an array keeps its other elements -/
def assignScalar (e : Env) (x : Str) (s : Str) : Env :=
  match e.vars x with
  | some (.indexed els) => e.set x (.indexed ((0, s) :: els.filter (fun p => p.1 ≠ 0)))
  | some (.assoc els) => e.set x (.assoc ((['0'], s) :: els.filter (fun p => p.1 ≠ ['0'])))
  | some (.unset .indexed) => e.set x (.indexed [(0, s)])
  | some (.unset .assoc) => e.set x (.assoc [(['0'], s)])
  | _ => e.set x (.str s)

/-- `get_var_value` -/
def getVarValue (e : Env) (x : Str) : Except Err Str :=
  match e.vars x with
  | some v => if v.isSet then .ok (v.scalar?.getD []) else (if e.nounset then .error .arithUnset else .ok [])
  | none => if e.nounset then .error .arithUnset else .ok []

/-- `eval_expr_impl` with the shell threaded through; `parse` is `brush_parser::arithmetic::parse`
applied to the text of a variable; `fuel` bounds the model's recursion (every call spends one),
`depth` is the code's own counter. -/
def evalA (parse : Str → Option AExpr) : Nat → Nat → Env → AExpr → Except Err Int × Env
  | 0, _, e, _ => (.error .other, e)
  | fuel + 1, depth, e, x =>
    -- `deref_lvalue` after the text of the variable / element has been fetched
    let deref (e : Env) (s : Str) : Except Err Int × Env :=
      match parse s with
      | none => (.error .other, e)
      | some (.lit n) => (.ok n, e)
      | some p => if depth + 1 > maxDepth then (.error .other, e) else evalA parse fuel (depth + 1) e p
    match x with
    | .lit n => (.ok n, e)
    | .var x =>
      match getVarValue e x with
      | .error er => (.error er, e)
      | .ok s => deref e s
    | .elem x i =>
      match evalA parse fuel depth e i with
      | (.error er, e1) => (.error er, e1)
      | (.ok n, e1) =>
        if e1.nounset && !((e1.vars x).map Value.isSet).getD false then (.error .arithUnset, e1)
        else deref e1 (((e1.vars x).bind (fun v => v.getAt (.int n))).getD [])
    | .neg a =>
      match evalA parse fuel depth e a with
      | (.ok n, e1) => (.ok (wrap64 (-n)), e1)
      | r => r
    | .not a =>
      match evalA parse fuel depth e a with
      | (.ok n, e1) => (.ok (b2i (n = 0)), e1)
      | r => r
    | .add l r =>
      match evalA parse fuel depth e l with
      | (.error er, e1) => (.error er, e1)
      | (.ok a, e1) =>
        match evalA parse fuel depth e1 r with
        | (.error er, e2) => (.error er, e2)
        | (.ok b, e2) => (.ok (wrap64 (a + b)), e2)
    | .lt l r =>
      match evalA parse fuel depth e l with
      | (.error er, e1) => (.error er, e1)
      | (.ok a, e1) =>
        match evalA parse fuel depth e1 r with
        | (.error er, e2) => (.error er, e2)
        | (.ok b, e2) => (.ok (b2i (a < b)), e2)
    | .comma l r =>
      match evalA parse fuel depth e l with
      | (.error er, e1) => (.error er, e1)
      | (.ok _, e1) => evalA parse fuel depth e1 r
    | .land l r =>
      match evalA parse fuel depth e l with
      | (.error er, e1) => (.error er, e1)
      | (.ok a, e1) =>
        if a = 0 then (.ok 0, e1)
        else match evalA parse fuel depth e1 r with
          | (.error er, e2) => (.error er, e2)
          | (.ok b, e2) => (.ok (b2i (b ≠ 0)), e2)
    | .lor l r =>
      match evalA parse fuel depth e l with
      | (.error er, e1) => (.error er, e1)
      | (.ok a, e1) =>
        if a ≠ 0 then (.ok 1, e1)
        else match evalA parse fuel depth e1 r with
          | (.error er, e2) => (.error er, e2)
          | (.ok b, e2) => (.ok (b2i (b ≠ 0)), e2)
    | .cond c t f =>
      match evalA parse fuel depth e c with
      | (.error er, e1) => (.error er, e1)
      | (.ok a, e1) => if a ≠ 0 then evalA parse fuel depth e1 t else evalA parse fuel depth e1 f
    | .assign x r =>
      match evalA parse fuel depth e r with
      | (.error er, e1) => (.error er, e1)
      | (.ok n, e1) => (.ok n, assignScalar e1 x (intToStr n))
    | .postIncr x =>
      match evalA parse fuel depth e (.var x) with
      | (.error er, e1) => (.error er, e1)
      | (.ok n, e1) => (.ok n, assignScalar e1 x (intToStr (wrap64 (n + 1))))

/-! ## parameters -/

/-- `brush_parser::word::SpecialParameter` -/
inductive Special where
  | allPos (star : Bool)   -- `$@` / `$*`
  | count | status | flags | pid | shellName
  deriving Repr, DecidableEq

/-- a subscript as written: a number, or a word that is a key of an associative array and a
variable name inside the arithmetic of any other subscript -/
inductive Index where
  | num (i : Nat)
  | name (k : Str)
  deriving Repr, DecidableEq

/-- `brush_parser::word::Parameter` -/
inductive Parameter where
  | positional (n : Nat)
  | special (s : Special)
  | named (n : Str)
  | namedIdx (n : Str) (i : Index)
  | namedAll (n : Str) (star : Bool)
  deriving Repr, DecidableEq

/-- the two parsers the expander calls on run-time text, and the model's recursion budget -/
structure Parsers where
  /-- `brush_parser::arithmetic::parse` on the text of a variable -/
  arith : Str → Option AExpr
  /-- `brush_parser::word::parse_parameter` on the text of a reference -/
  param : Str → Option Parameter
  fuel : Nat

/-- `is_set_assoc_array` of the `NamedWithIndex` arm -/
def isAssocVar : Option Value → Bool
  | some (.assoc _) => true
  | some (.unset .assoc) => true
  | _ => false

/-- `undefined_expansion` -/
def undefinedExpansion (e : Env) (allow : Bool) : Except Err Expansion :=
  if allow || !e.nounset then .ok undefinedExp else .error .unsetVar

/-- `expand_array_index` -/
def expandIndex (ps : Parsers) (e : Env) (i : Index) (forAssoc : Bool) : Except Err IdxVal :=
  match i with
  | .num n => if forAssoc then .ok (.key (natToStr n)) else .ok (.int n)
  | .name k =>
    if forAssoc then .ok (.key k)
    else match (evalA ps.arith ps.fuel 0 e (.var k)).1 with
      | .ok n => .ok (.int n)
      | .error er => .error er

def listExpansion (vals : List Str) (star : Bool) : Expansion :=
  { fields := vals, concatenate := star, fromArray := true, undefined := false }

/-- `expand_parameter_without_indirect` (`$0`, `$#`, `$?`, `$-`, `$$` expand to some text: `x`; `$!` is not modelled) -/
def expandParam (ps : Parsers) (e : Env) (p : Parameter) (allow : Bool) : Except Err Expansion :=
  match p with
  | .positional 0 => .ok (ofStr ['x'])
  | .positional (n + 1) =>
    match e.args[n]? with
    | some a => .ok (ofStr a)
    | none => undefinedExpansion e allow
  | .special (.allPos star) => .ok (listExpansion e.args star)
  | .special _ => .ok (ofStr ['x'])
  | .named n =>
    match e.vars n with
    | some v =>
      match v.scalar? with
      | some s => .ok (ofStr s)
      | none => undefinedExpansion e allow
    | none => undefinedExpansion e allow
  | .namedIdx n i =>
    match expandIndex ps e i (isAssocVar (e.vars n)) with
    | .error er => .error er
    | .ok iv =>
      match (e.vars n).bind (fun v => v.getAt iv) with
      | some s => .ok (ofStr s)
      | none => undefinedExpansion e allow
  | .namedAll n star =>
    match e.vars n with
    | some v => .ok (listExpansion v.elements star)
    | none => .ok (listExpansion [] star)

/-- `fields_to_string` with the default IFS -/
def fieldsToString (x : Expansion) : Str := joinWith [' '] x.fields

/-- `expand_parameter_internal` -/
def expandParamInd (ps : Parsers) (e : Env) (p : Parameter) (indirect allow : Bool) : Except Err Expansion :=
  match expandParam ps e p allow with
  | .error er => .error er
  | .ok x =>
    if !indirect then .ok x
    else match ps.param (fieldsToString x) with
      | none => .error .other
      | some inner => expandParam ps e inner allow

/-! ## `${…}` -/

/-- the arms of `expand_parameter_expr` that call `expand_parameter(&parameter, indirect)` and then
only rewrite the text -/
inductive ValueOp where
  | plain | removePattern | replace | caseMod | transform
  | substring (off : AExpr) (len : Option AExpr)
  deriving Repr, DecidableEq

/-- the operand word of `- = ? +`: literal text or `$p` -/
inductive Word where
  | lit (s : Str)
  | ref (p : Parameter)
  deriving Repr, DecidableEq

/-- `brush_parser::word::ParameterExpr` (plus `$(( ))`) -/
inductive Expr where
  | value (op : ValueOp) (p : Parameter) (indirect : Bool)
  /-- `${p-w}` … (the `${!ref-w}` forms belong to C06's indirection table) -/
  | test (op : TestOp) (colon : Bool) (p : Parameter) (w : Word)
  | length (p : Parameter)
  /-- `${!prefix*}`, `${!prefix@}` -/
  | names (pre : Str)
  /-- `${!a[@]}`, `${!a[*]}` -/
  | keys (n : Str)
  /-- `$(( e ))` -/
  | arith (a : AExpr)
  deriving Repr, DecidableEq

def expandWord (ps : Parsers) (e : Env) : Word → Except Err Unit
  | .lit _ => .ok ()
  | .ref p => (expandParam ps e p false).map (fun _ => ())

/-- can `assign_to_parameter` store into it -/
def Parameter.assignable : Parameter → Bool
  | .named _ | .namedIdx _ _ => true
  | _ => false

/-- the decision part of `expand_parameter_expr`: does the arm fail, and how -/
def expandExpr (ps : Parsers) (e : Env) : Expr → Except Err Unit
  | .value op p indirect =>
    match expandParamInd ps e p indirect false with
    | .error er => .error er
    | .ok _ =>
      match op with
      | .substring off len =>
        match evalA ps.arith ps.fuel 0 e off with
        | (.error er, _) => .error er
        | (.ok _, e1) =>
          match len with
          | none => .ok ()
          | some l => (evalA ps.arith ps.fuel 0 e1 l).1.map (fun _ => ())
      | _ => .ok ()
  | .test op colon p w =>
    match expandParamInd ps e p false true with
    | .error er => .error er
    | .ok x =>
      match testAction op colon (classify x) with
      | .param => .ok ()
      | .null => .ok ()
      | .word => expandWord ps e w
      | .error =>
        match expandWord ps e w with
        | .error er => .error er
        | .ok _ => .error .checked
      | .assign =>
        match expandWord ps e w with
        | .error er => .error er
        | .ok _ =>
          if p.assignable then .ok () else .error .other
  | .length p =>
    let allow := match p with
      | .namedIdx n _ | .namedAll n _ => (e.vars n).isSome
      | _ => false
    (expandParamInd ps e p false allow).map (fun _ => ())
  | .names _ => .ok ()
  | .keys _ => .ok ()
  | .arith a => (evalA ps.arith ps.fuel 0 e a).1.map (fun _ => ())

/-! ## commands -/

/-- the commands of the decision table -/
inductive Stmt where
  /-- a simple command whose words hold these expansions, in order -/
  | words (es : List Expr)
  /-- `(( e ))` -/
  | arithCmd (a : AExpr)
  /-- `let e` -/
  | letCmd (a : AExpr)
  /-- `[[ e -eq 0 ]]` -/
  | condArith (a : AExpr)
  /-- `for (( e; …; … ))` — the initialiser -/
  | arithFor (a : AExpr)
  /-- `name[e]=value` on an indexed array -/
  | assignIdx (a : AExpr)
  deriving Repr, DecidableEq

def expandAll (ps : Parsers) (e : Env) : List Expr → Except Err Unit
  | [] => .ok ()
  | x :: xs =>
    match expandExpr ps e x with
    | .error er => .error er
    | .ok _ => expandAll ps e xs

/-- the decision for one command.  `let` is a builtin: its error reaches the caller wrapped in
`ErrorKind::BuiltinError`, on which the fatal test fails — the command just returns 1. -/
def nounsetDecision (ps : Parsers) (e : Env) : Stmt → Decision
  | .words es => decide? (expandAll ps e es)
  | .arithCmd a | .condArith a | .arithFor a | .assignIdx a => decide? (evalA ps.arith ps.fuel 0 e a).1
  | .letCmd _ => .ok

/-! ## what a script shows of a decision -/

/-- where the command stands in the test script -/
inductive Placement where
  /-- `cmd; echo after` -/
  | sameLine
  /-- `cmd` ⏎ `echo after` -/
  | nextLine
  /-- `g() { cmd; echo inner; }` ⏎ `g` ⏎ `echo after` -/
  | inFunc
  deriving Repr, DecidableEq

/-- what the script shows: non-zero exit status, `after` printed, `inner` printed -/
structure Shown where
  failed : Bool
  after : Bool
  inner : Bool
  deriving Repr, DecidableEq

def shown : Placement → Decision → Shown
  | .sameLine, .ok => ⟨false, true, false⟩
  | .nextLine, .ok => ⟨false, true, false⟩
  | .inFunc, .ok => ⟨false, true, true⟩
  | .sameLine, .fail => ⟨true, false, false⟩      -- the rest of the line goes with the command
  | .nextLine, .fail => ⟨false, true, false⟩
  | .inFunc, .fail => ⟨false, true, false⟩        -- the function is abandoned
  | _, .abort => ⟨true, false, false⟩

end BrushVerif.Nounset
