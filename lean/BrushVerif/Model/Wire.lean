/-! Line-protocol helpers shared by every driver module (import-free). -/
namespace BrushVerif.Wire

abbrev Str := List Char

def hexDigit (n : Nat) : Char :=
  if n < 10 then Char.ofNat (48 + n) else Char.ofNat (55 + n)

def hexVal (c : Char) : Option Nat :=
  if '0' ≤ c ∧ c ≤ '9' then some (c.toNat - 48)
  else if 'A' ≤ c ∧ c ≤ 'F' then some (c.toNat - 55)
  else if 'a' ≤ c ∧ c ≤ 'f' then some (c.toNat - 87)
  else none

def escChar (c : Char) : Str :=
  if c.toNat < 0x21 ∨ c = '%' ∨ c.toNat = 0x7f then
    ['%', hexDigit (c.toNat / 16), hexDigit (c.toNat % 16)]
  else [c]

/-- Escape one field: code points < 0x21, '%' and 0x7f become %XX; the empty string is "%". -/
def esc (s : Str) : Str := if s.isEmpty then ['%'] else s.flatMap escChar

def unescGo : Str → Str
  | '%' :: a :: b :: rest =>
    match hexVal a, hexVal b with
    | some x, some y => Char.ofNat (x * 16 + y) :: unescGo rest
    | _, _ => '%' :: unescGo (a :: b :: rest)
  | c :: rest => c :: unescGo rest
  | [] => []

def unesc (s : Str) : Str := if s = ['%'] then [] else unescGo s

def splitOnChar (sep : Char) : Str → List Str
  | [] => [[]]
  | c :: cs =>
    if c = sep then [] :: splitOnChar sep cs
    else match splitOnChar sep cs with
      | [] => [[c]]   -- unreachable
      | hd :: tl => (c :: hd) :: tl

/-- space-separated non-empty tokens -/
def tokens (s : Str) : List Str := (splitOnChar ' ' s).filter (fun t => !t.isEmpty)

def digitChar (n : Nat) : Char := Char.ofNat (48 + n % 10)

def natDigitsAux : Nat → Nat → Str → Str
  | 0, _, acc => acc
  | fuel + 1, n, acc =>
    if n < 10 then digitChar n :: acc else natDigitsAux fuel (n / 10) (digitChar n :: acc)

/-- decimal rendering (agrees with `toString`; own definition so that its digits can be reasoned about) -/
def natToStr (n : Nat) : Str := natDigitsAux (n + 1) n []

def intToStr : Int → Str
  | .ofNat n => natToStr n
  | .negSucc n => '-' :: natToStr (n + 1)

def parseNat? (s : Str) : Option Nat :=
  if s.isEmpty then none
  else s.foldl (fun acc c => match acc with
    | none => none
    | some n => if '0' ≤ c ∧ c ≤ '9' then some (n * 10 + (c.toNat - 48)) else none) (some 0)

def parseInt? : Str → Option Int
  | '-' :: rest => (parseNat? rest).map (fun n => - (Int.ofNat n))
  | '+' :: rest => (parseNat? rest).map Int.ofNat
  | s => (parseNat? s).map Int.ofNat

def joinWith (sep : Str) : List Str → Str
  | [] => []
  | [x] => x
  | x :: xs => x ++ sep ++ joinWith sep xs

end BrushVerif.Wire
