import BrushVerif.Model.Wire
/-!
# Model of brush's variable environment (C09)

Mirrors `brush-core/src/env.rs` (`ShellEnvironment`: the stack of `(EnvironmentScope, map)`,
the four lookup policies, `unset` with its tombstone, `unset_index`, `add`, `update_or_add`,
`update_or_add_array_element`, `iter_exported`), `brush-core/src/variables.rs` (`ShellVariable`:
attributes, `assign`'s append / non-append matrix, `assign_at_index`, `unset_index`,
`convert_to_*_array`, the update transforms), `brush-core/src/interp.rs` (`apply_assignment` with its
`required_scope` rule, the command scope pushed by `execute_command` and popped by `post_execute`),
`brush-builtins/src/declare.rs` (`process_declaration` for `declare`/`local`/`readonly`) and
`brush-builtins/src/export.rs` (`process_decl`).

The model mirrors the code *including its defects*:
* an integer variable stores `parse::<i64>()` of the text (no arithmetic evaluation).
(Repaired in /repo and mirrored here: readonly checks in `assign_at_index`/`unset_index`; prefix
assignments only re-use a binding of their own command scope; a readonly variable cannot be hidden by
a prefix assignment or — if global — by a local; locals inherit the export attribute; `declare -g`
looks in the global scope only; `export name` records the attribute for a missing name; element 0 of
a scalar; case attributes on element append; arrays are not exported.)

Scopes are kept top of stack first.  Maps are association lists with unique keys; drivers sort them.
Assumptions (not modelled): `set -a` (`export_variables_on_modification`) is off; dynamic values,
namerefs and the trace attribute are absent; values are ASCII (case mapping) and integers stay
inside `i64` (the Rust code would panic or wrap on overflow).
-/
namespace BrushVerif.Env
open BrushVerif.Wire

inductive Kind | global | loc | command
  deriving DecidableEq, Repr

inductive Policy | anywhere | onlyGlobal | onlyCurrentLocal | onlyLocal
  deriving DecidableEq, Repr

inductive UnsetTy | untyped | indexed | assoc
  deriving DecidableEq, Repr

inductive Value
  | unset (t : UnsetTy)
  | str (s : Str)
  | indexed (m : List (Nat × Str))     -- `BTreeMap<u64,String>`: sorted by key, keys unique
  | assoc (m : List (Str × Str))       -- `BTreeMap<String,String>`: sorted by key, keys unique
  deriving DecidableEq, Repr

inductive Transform | none | lower | upper | cap
  deriving DecidableEq, Repr

structure Var where
  value     : Value
  exported  : Bool := false
  readonly  : Bool := false
  integer   : Bool := false
  transform : Transform := .none
  deriving DecidableEq, Repr

/-- `ShellValueLiteral` -/
inductive Lit
  | scalar (s : Str)
  | array (items : List (Option Str × Str))
  deriving DecidableEq, Repr

/-- `ShellVariable::new(ShellValue::Unset(Untyped))` -/
def Var.fresh : Var := { value := .unset .untyped }

/-! ## strings, integers -/

def strLt : Str → Str → Bool
  | [], [] => false
  | [], _ :: _ => true
  | _ :: _, [] => false
  | a :: as, b :: bs => if a.toNat < b.toNat then true else if b.toNat < a.toNat then false else strLt as bs

/-- `str::parse::<i64>().unwrap_or(0)` -/
def parseI64 (s : Str) : Int :=
  match parseInt? s with
  | some v => if -9223372036854775808 ≤ v ∧ v ≤ 9223372036854775807 then v else 0
  | none => 0

/-- `str::parse::<u64>().unwrap_or(0)` -/
def parseU64 (s : Str) : Nat :=
  match s with
  | '-' :: _ => 0
  | _ => match parseInt? s with
    | some v => if 0 ≤ v ∧ v ≤ 18446744073709551615 then v.toNat else 0
    | none => 0

def lowerC (c : Char) : Char := if 'A' ≤ c ∧ c ≤ 'Z' then Char.ofNat (c.toNat + 32) else c
def upperC (c : Char) : Char := if 'a' ≤ c ∧ c ≤ 'z' then Char.ofNat (c.toNat - 32) else c

/-- `ShellVariable::apply_value_transforms` -/
def applyTransforms (int : Bool) (t : Transform) (s : Str) : Str :=
  if int then intToStr (parseI64 s)
  else match t with
    | .none => s
    | .lower => s.map lowerC
    | .upper => s.map upperC
    | .cap => match s.map lowerC with
      | [] => []
      | c :: cs => upperC c :: cs

def Var.conv (v : Var) (s : Str) : Str := applyTransforms v.integer v.transform s

def Var.convLit (v : Var) : Lit → Lit
  | .scalar s => .scalar (v.conv s)
  | .array items => .array (items.map fun (k, x) => (k, v.conv x))

/-! ## sorted maps -/

def insNat (k : Nat) (x : Str) : List (Nat × Str) → List (Nat × Str)
  | [] => [(k, x)]
  | (k', x') :: r =>
    if k < k' then (k, x) :: (k', x') :: r
    else if k = k' then (k, x) :: r
    else (k', x') :: insNat k x r

def insStr (k : Str) (x : Str) : List (Str × Str) → List (Str × Str)
  | [] => [(k, x)]
  | (k', x') :: r =>
    if strLt k k' then (k, x) :: (k', x') :: r
    else if k = k' then (k, x) :: r
    else (k', x') :: insStr k x r

def getNat (k : Nat) (m : List (Nat × Str)) : Option Str := (m.find? (·.1 = k)).map (·.2)
def getStr (k : Str) (m : List (Str × Str)) : Option Str := (m.find? (·.1 = k)).map (·.2)
def delNat (k : Nat) (m : List (Nat × Str)) : List (Nat × Str) := m.filter (fun e => e.1 ≠ k)
def delStr (k : Str) (m : List (Str × Str)) : List (Str × Str) := m.filter (fun e => e.1 ≠ k)

/-- `last_key_value().map(|k| k+1).unwrap_or(0)` -/
def nextKey (m : List (Nat × Str)) : Nat :=
  match m.getLast? with
  | some (k, _) => k + 1
  | none => 0

/-- `ShellValue::update_indexed_array_from_literals` -/
def updIndexed : Nat → List (Nat × Str) → List (Option Str × Str) → List (Nat × Str)
  | _, m, [] => m
  | nk, m, (k, x) :: r =>
    let key := match k with | some ks => parseU64 ks | none => nk
    updIndexed (key + 1) (insNat key x m) r

def updIndexedFrom (m : List (Nat × Str)) (items : List (Option Str × Str)) : List (Nat × Str) :=
  updIndexed (nextKey m) m items

/-- `ShellValue::update_associative_array_from_literals`; `none` is the "misaligned" error (the map
keeps what was inserted before the error, returned as the second component). -/
def updAssoc : Option Str → List (Str × Str) → List (Option Str × Str) → List (Str × Str) × Bool
  | none, m, [] => (m, true)
  | some ck, m, [] => (insStr ck [] m, true)
  | some ck, m, (k, x) :: r =>
    match k with
    | some _ => (m, false)
    | none => updAssoc none (insStr ck x m) r
  | none, m, (k, x) :: r =>
    match k with
    | some ks => updAssoc none (insStr ks x m) r
    | none => updAssoc (some x) m r

/-- `get_key_for_indexed_array` (`none`: index out of range) -/
def indexKey (m : List (Nat × Str)) (idx : Str) : Option Nat :=
  let i := parseI64 idx
  if i < 0 then
    let j := i + (m.length : Int)
    if j < 0 then none else some j.toNat
  else some i.toNat

/-- `to_cow_str_without_dynamic_support().unwrap_or("")` -/
def Value.str0 : Value → Option Str
  | .unset _ => none
  | .str s => some s
  | .indexed m => getNat 0 m
  | .assoc m => getStr ['0'] m

def Value.isSet : Value → Bool
  | .unset _ => false
  | _ => true

def Value.isIndexed : Value → Bool
  | .indexed _ => true
  | .unset .indexed => true
  | _ => false

def Value.isAssoc : Value → Bool
  | .assoc _ => true
  | .unset .assoc => true
  | _ => false

/-! ## `ShellVariable` -/

/-- a result: the variable as the code leaves it, and whether the call returned `Ok` -/
abbrev R := Var × Bool

/-- `convert_to_indexed_array` -/
def Var.toIndexed (v : Var) : R :=
  match v.value with
  | .indexed _ => (v, true)
  | .assoc _ => (v, false)
  | val => ({ v with value := .indexed [(0, (val.str0).getD [])] }, true)

/-- `convert_to_associative_array` -/
def Var.toAssoc (v : Var) : R :=
  match v.value with
  | .assoc _ => (v, true)
  | .indexed _ => (v, false)
  | val => ({ v with value := .assoc [(['0'], (val.str0).getD [])] }, true)

/-- the append arm of `assign_at_index`: integers add, otherwise the case attribute is applied to
the whole resulting element -/
def addInt (int : Bool) (t : Transform) (old new : Str) : Str :=
  if int then intToStr (parseI64 old + parseI64 new) else applyTransforms false t (old ++ new)

/-- the tail of `assign_at_index`, once the value is an array -/
def Var.storeAt (v : Var) (idx : Str) (val : Str) (append : Bool) : R :=
  let x := v.conv val
  match v.value with
  | .indexed m =>
    match indexKey m idx with
    | none => (v, false)
    | some key =>
      let nv := if append then addInt v.integer v.transform ((getNat key m).getD []) x else x
      ({ v with value := .indexed (insNat key nv m) }, true)
  | .assoc m =>
    let nv := if append then addInt v.integer v.transform ((getStr idx m).getD []) x else x
    ({ v with value := .assoc (insStr idx nv m) }, true)
  | _ => (v, false)

/-- `self.assign(ShellValueLiteral::Array(ArrayLiteral(vec![])), false)` -/
def Var.assignEmptyArray (v : Var) : R :=
  if v.readonly then (v, false)
  else match v.value with
    | .assoc _ | .unset .assoc => ({ v with value := .assoc [] }, true)
    | _ => ({ v with value := .indexed [] }, true)

/-- `ShellVariable::assign_at_index` (starts with the readonly check) -/
def Var.assignAtIndex (v : Var) (idx : Str) (val : Str) (append : Bool) : R :=
  if v.readonly then (v, false) else
  match v.value with
  | .unset _ =>
    let (v1, ok) := v.assignEmptyArray
    if ok then v1.storeAt idx val append else (v1, false)
  | .str _ =>
    let (v1, ok) := v.toIndexed
    if ok then v1.storeAt idx val append else (v1, false)
  | _ => v.storeAt idx val append

/-- non-append arm of `ShellVariable::assign` (after the readonly check and literal conversion) -/
def Var.assignSet (v : Var) (lit : Lit) : R :=
  match v.value, lit with
  | .indexed _, .scalar s | .assoc _, .scalar s | .unset .assoc, .scalar s | .unset .indexed, .scalar s =>
    -- `assign_at_index("0", s, false)`; the string was already converted once (idempotent transforms)
    v.assignAtIndex ['0'] s false
  | .assoc _, .array items | .unset .assoc, .array items =>
    let (m, ok) := updAssoc none [] items
    if ok then ({ v with value := .assoc m }, true) else (v, false)
  | _, .array items => ({ v with value := .indexed (updIndexedFrom [] items) }, true)
  | _, .scalar s => ({ v with value := .str s }, true)

/-- append arm of `ShellVariable::assign` -/
def Var.assignAppend (v : Var) (lit : Lit) : R :=
  -- preparation step
  let (v1, ok1) : R :=
    match v.value, lit with
    | .unset _, .array _ => v.assignEmptyArray
    | .unset .indexed, _ | .unset .assoc, _ => v.assignEmptyArray
    | .unset _, .scalar _ => ({ v with value := .str (v.conv []) }, true)   -- assign(Scalar(""), false); "" converts to "" or "0"
    | .str _, .array _ => v.toIndexed
    | _, _ => (v, true)
  if !ok1 then (v1, false)
  else match v1.value, lit with
    | .str base, .scalar suffix =>
      if v1.integer then ({ v1 with value := .str (intToStr (parseI64 base + parseI64 suffix)) }, true)
      else ({ v1 with value := .str (applyTransforms false v1.transform (base ++ suffix)) }, true)
    | .str _, .array _ => (v1, true)
    | .indexed _, .scalar s => v1.assignAtIndex ['0'] s true
    | .indexed m, .array items => ({ v1 with value := .indexed (updIndexedFrom m items) }, true)
    | .assoc _, .scalar s => v1.assignAtIndex ['0'] s true
    | .assoc m, .array items =>
      let (m', ok) := updAssoc none m items
      ({ v1 with value := .assoc m' }, ok)
    | .unset _, _ => (v1, true)   -- unreachable

/-- `ShellVariable::assign` -/
def Var.assign (v : Var) (lit : Lit) (append : Bool) : R :=
  if v.readonly then (v, false)
  else
    let lit' := v.convLit lit
    if append then v.assignAppend lit' else v.assignSet lit'

/-- `ShellVariable::unset_index` (starts with the readonly check). Returns the variable, `Ok`/`Err`. -/
def Var.unsetIndex (v : Var) (idx : Str) : R :=
  if v.readonly then (v, false) else
  match v.value with
  | .unset .untyped => (v, false)
  | .unset _ => (v, true)
  | .str _ => (v, false)
  | .assoc m => ({ v with value := .assoc (delStr idx m) }, true)
  | .indexed m =>
    match indexKey m idx with
    | none => (v, false)
    | some k => ({ v with value := .indexed (delNat k m) }, true)

/-! ## `ShellEnvironment` -/

abbrev VMap := List (Str × Var)
abbrev Scope := Kind × VMap

def mget : VMap → Str → Option Var
  | [], _ => none
  | (n', v) :: r, n => if n' = n then some v else mget r n

def mset : VMap → Str → Var → VMap
  | [], n, v => [(n, v)]
  | (n', v') :: r, n, v => if n' = n then (n, v) :: r else (n', v') :: mset r n v

def mdel : VMap → Str → VMap
  | [], _ => []
  | (n', v) :: r, n => if n' = n then mdel r n else (n', v) :: mdel r n

structure Env where
  scopes : List Scope      -- top of the stack first
  deriving DecidableEq, Repr

/-- `ShellEnvironment::new` -/
def Env.init : Env := { scopes := [(.global, [])] }

def Env.push (e : Env) (k : Kind) : Env := { scopes := (k, []) :: e.scopes }

/-- `pop_scope`: the top scope is removed even when its type is not the expected one (then `Err`). -/
def Env.pop (e : Env) (k : Kind) : Env × Bool :=
  match e.scopes with
  | [] => (e, false)
  | (k', _) :: r => ({ scopes := r }, k' = k)

/-- `ShellEnvironment::get` -/
def getScopes (n : Str) : List Scope → Option (Kind × Var)
  | [] => none
  | (k, m) :: r => match mget m n with
    | some v => some (k, v)
    | none => getScopes n r

def Env.get (e : Env) (n : Str) : Option (Kind × Var) := getScopes n e.scopes

def eligible (pol : Policy) (k : Kind) (lc : Nat) : Bool :=
  match pol with
  | .anywhere => true
  | .onlyGlobal => k = .global
  | .onlyCurrentLocal => k = .loc && lc = 1
  | .onlyLocal => k = .loc

def bump (k : Kind) (lc : Nat) : Nat := if k = .loc then lc + 1 else lc

/-- `get_using_policy`; `lc` = locals seen so far -/
def getPolS (n : Str) (pol : Policy) : Nat → List Scope → Option Var
  | _, [] => none
  | lc, (k, m) :: r =>
    let lc' := bump k lc
    match (if eligible pol k lc' then mget m n else none) with
    | some v => some v
    | none => if k = .loc ∧ pol = .onlyCurrentLocal then none else getPolS n pol lc' r

def Env.getPol (e : Env) (n : Str) (pol : Policy) : Option Var := getPolS n pol 0 e.scopes

/-- `get_mut_using_policy` followed by an in-place update `f`; `none` when no binding is found -/
def modPol (n : Str) (pol : Policy) (f : Var → R) : Nat → List Scope → Option (List Scope × Bool)
  | _, [] => none
  | lc, (k, m) :: r =>
    let lc' := bump k lc
    match (if eligible pol k lc' then mget m n else none) with
    | some v => let (v', ok) := f v; some ((k, mset m n v') :: r, ok)
    | none =>
      if k = .loc ∧ pol = .onlyCurrentLocal then none
      else match modPol n pol f lc' r with
        | some (r', ok) => some ((k, m) :: r', ok)
        | none => none

/-- `ShellEnvironment::add`: into the innermost scope of the requested kind -/
def addScopes (n : Str) (v : Var) (k : Kind) : List Scope → Option (List Scope)
  | [] => none
  | (k', m) :: r =>
    if k' = k then some ((k', mset m n v) :: r)
    else (addScopes n v k r).map ((k', m) :: ·)

def Env.add (e : Env) (n : Str) (v : Var) (k : Kind) : Env × Bool :=
  match addScopes n v k e.scopes with
  | some s => ({ scopes := s }, true)
  | none => (e, false)

/-- `ShellEnvironment::unset` -/
def unsetScopes (n : Str) : Nat → List Scope → List Scope × Bool
  | _, [] => ([], true)
  | lc, (k, m) :: r =>
    let lc' := bump k lc
    match mget m n with
    | some v =>
      if v.readonly then ((k, m) :: r, false)
      else if k = .loc ∧ lc' = 1 then ((k, mset m n Var.fresh) :: r, true)
      else ((k, mdel m n) :: r, true)
    | none => let (r', ok) := unsetScopes n lc' r; ((k, m) :: r', ok)

def Env.unset (e : Env) (n : Str) : Env × Bool :=
  let (s, ok) := unsetScopes n 0 e.scopes
  ({ scopes := s }, ok)

def Env.modify (e : Env) (n : Str) (pol : Policy) (f : Var → R) : Option (Env × Bool) :=
  (modPol n pol f 0 e.scopes).map fun (s, ok) => ({ scopes := s }, ok)

/-- `ShellEnvironment::unset_index` -/
def Env.isScalar (e : Env) (n : Str) : Bool :=
  match e.get n with
  | some (_, v) => (match v.value with | .str _ => true | _ => false)
  | none => false

def Env.unsetIndex (e : Env) (n : Str) (idx : Str) : Env × Bool :=
  if idx = ['0'] ∧ e.isScalar n then e.unset n      -- element 0 of a scalar is the scalar itself
  else match e.modify n .anywhere (fun v => v.unsetIndex idx) with
    | some r => r
    | none => (e, true)

/-- what the `updater` closure of `update_or_add` does (the call sites use only these) -/
inductive Updater | nop | exp | unexport
  deriving DecidableEq, Repr

def Updater.app (u : Updater) (v : Var) : Var :=
  match u with
  | .nop => v
  | .exp => { v with exported := true }
  | .unexport => { v with exported := false }

/-- `ShellEnvironment::update_or_add` -/
def Env.updateOrAdd (e : Env) (n : Str) (lit : Lit) (u : Updater) (pol : Policy) (k : Kind) : Env × Bool :=
  match e.modify n pol (fun v => let (v', ok) := v.assign lit false; if ok then (u.app v', true) else (v', false)) with
  | some r => r
  | none =>
    let (v, ok) := Var.fresh.assign lit false
    if ok then e.add n (u.app v) k else (e, false)

/-- `ShellEnvironment::update_or_add_array_element` -/
def Env.updateOrAddElem (e : Env) (n : Str) (idx val : Str) (pol : Policy) (k : Kind) : Env × Bool :=
  match e.modify n pol (fun v => v.assignAtIndex idx val false) with
  | some r => r
  | none =>
    let (v, ok) := Var.fresh.assign (.array [(some idx, val)]) false
    if ok then e.add n v k else (e, false)

/-- `iter_exported` + the `is_set` filter of `compose_std_command`: the child's environment
(name, value) — exported bindings are collected top-down, the first *exported* binding of a name
wins (bindings that are not exported are skipped before the shadowing test). -/
def exportedScopes : List Str → List Scope → List (Str × Var)
  | _, [] => []
  | seen, (_, m) :: r =>
    let here := m.filter (fun e => e.2.exported && e.2.value.isSet && !seen.contains e.1)
    here ++ exportedScopes (seen ++ here.map (·.1)) r

def Env.childEnv (e : Env) : List (Str × Str) :=
  (exportedScopes [] e.scopes).filterMap fun (n, v) =>
    if v.value.isSet && !(v.value.isIndexed || v.value.isAssoc) then some (n, (v.value.str0).getD []) else none

/-! ## `apply_assignment` (interp.rs) -/

/-- the visible binding of `n` is readonly -/
def Env.hidesReadonly (e : Env) (n : Str) : Bool :=
  match e.get n with
  | some (_, v) => v.readonly
  | none => false


/-- `apply_assignment(assignment, shell, params, export, required_scope, creation_scope)` with the
name, optional (already evaluated) index and the expanded value. -/
def Env.applyAssignment (e : Env) (n : Str) (idx : Option Str) (lit : Lit) (append exp : Bool)
    (required : Option Kind) (creation : Kind) : Env × Bool :=
  -- with a required scope only a binding in the current (top-most) scope qualifies
  let found : Option (Kind × Var) :=
    if required.isSome then
      (match e.scopes with
       | (k, m) :: _ => (mget m n).map (fun v => (k, v))
       | [] => none)
    else e.get n
  let usable := match found with
    | some (k, _) => required.isNone || required = some k
    | none => false
  if usable then
    let f : Var → R := fun v =>
      let (v', ok) : R := match idx with
        | some i => (match lit with
          | .scalar s => v.assignAtIndex i s append
          | .array _ => (v, false))
        | none => v.assign lit append
      if ok then (if exp then { v' with exported := true } else v', true) else (v', false)
    match e.modify n .anywhere f with
    | some r => r
    | none => (e, false)   -- unreachable
  else if e.hidesReadonly n then (e, false)     -- a new binding must not hide a readonly variable
  else
    match idx, lit with
    | some _, .array _ => (e, false)
    | some i, .scalar s =>
      e.add n { value := .indexed (updIndexedFrom [] [(some i, s)]), exported := exp } creation
    | none, .scalar s => e.add n { value := .str s, exported := exp } creation
    | none, .array items => e.add n { value := .indexed (updIndexedFrom [] items), exported := exp } creation

/-- `execute_command`: push the command scope, then `apply_assignment(a, …, export = true,
Some(Command), Command)` for each prefix assignment; an assignment refused because the variable
is readonly is reported and skipped, and the command still runs (the only failure scalar prefix
assignments have). -/
def tempAssigns (e : Env) : List (Str × Lit) → Env × Bool
  | [] => (e, true)
  | (n, lit) :: r =>
    let (e', ok) := e.applyAssignment n none lit false true (some .command) .command
    let (e'', ok') := tempAssigns e' r
    (e'', ok && ok')

def Env.pushTemp (e : Env) (items : List (Str × Lit)) : Env × Bool :=
  tempAssigns (e.push .command) items

/-! ## `declare` / `local` / `readonly` (declare.rs `process_declaration`) and `export` -/

inductive Verb | declare | loc | readonly
  deriving DecidableEq, Repr

structure DeclFlags where
  a : Bool := false          -- `make_indexed_array.is_some()`
  A : Bool := false
  i : Option Bool := none
  l : Option Bool := none
  u : Option Bool := none
  c : Option Bool := none
  x : Option Bool := none
  r : Option Bool := none
  g : Bool := false
  deriving DecidableEq, Repr

def setTransform (v : Var) (flag : Option Bool) (t : Transform) : Var :=
  match flag with
  | some true => { v with transform := t }
  | some false => if v.transform = t then { v with transform := .none } else v
  | none => v

/-- `apply_attributes_before_update` (order of the Rust code: i, c, l, [n, t], u, x) -/
def DeclFlags.before (fl : DeclFlags) (v : Var) : Var :=
  let v := match fl.i with | some b => { v with integer := b } | none => v
  let v := setTransform v fl.c .cap
  let v := setTransform v fl.l .lower
  let v := setTransform v fl.u .upper
  match fl.x with | some b => { v with exported := b } | none => v

/-- `apply_attributes_after_update` -/
def DeclFlags.after (fl : DeclFlags) (verb : Verb) (v : Var) : R :=
  if verb = .readonly then ({ v with readonly := true }, true)
  else match fl.r with
    | some true => ({ v with readonly := true }, true)
    | some false => if v.readonly then (v, false) else (v, true)
    | none => (v, true)

/-- the in-place part of `process_declaration` on an existing binding; every `?` leaves what was
done before it -/
def declExisting (fl : DeclFlags) (verb : Verb) (lit : Option Lit) (appendIdx : Bool) (v : Var) : R :=
  let (v1, ok1) : R := if fl.A then v.toAssoc else (v, true)
  if !ok1 then (v1, false) else
  let (v2, ok2) : R := if fl.a then v1.toIndexed else (v1, true)
  if !ok2 then (v2, false) else
  if lit.isSome && v2.readonly then (v2, false) else   -- refused before any attribute is touched
  let v3 := fl.before v2
  let (v4, ok4) : R := match lit with
    | some l => v3.assign l appendIdx
    | none => (v3, true)
  if !ok4 then (v4, false) else fl.after verb v4

/-- `process_declaration`: `inFunc` = `shell.in_function()`; `nameIsArray` = the declaration was
`name[...]` or had an array value. -/
def Env.declare (e : Env) (n : Str) (fl : DeclFlags) (verb : Verb) (lit : Option Lit) (appendIdx nameIsArray : Bool)
    (inFunc : Bool) : Env × Bool :=
  let createLocal := verb = .loc || (verb = .declare && inFunc && !fl.g)
  let pol : Policy := if createLocal then .onlyCurrentLocal else if fl.g then .onlyGlobal else .anywhere
  match e.modify n pol (declExisting fl verb lit appendIdx) with
  | some r => r
  | none =>
    -- a readonly global may not be hidden by a local
    if createLocal && (match e.get n with | some (.global, v) => v.readonly | _ => false) then (e, false) else
    let ty : UnsetTy := if fl.a then .indexed else if fl.A then .assoc else if nameIsArray then .indexed else .untyped
    -- a new local inherits the export attribute of the variable it shadows
    let inh : Bool := createLocal && (match e.get n with | some (_, v) => v.exported | none => false)
    let v1 := fl.before { value := .unset ty, exported := inh }
    let (v2, ok2) : R := match lit with
      | some l => v1.assign l false
      | none => (v1, true)
    if !ok2 then (e, false) else
    let (v3, ok3) := fl.after verb v2
    if !ok3 then (e, false) else
    e.add n v3 (if createLocal then .loc else .global)

/-- `export NAME` / `export -n NAME` -/
def Env.exportName (e : Env) (n : Str) (unexport : Bool) : Env × Bool :=
  match e.modify n .anywhere (fun v => ({ v with exported := !unexport }, true)) with
  | some r => r
  | none => if unexport then (e, true)
            else e.add n { value := .unset .untyped, exported := true } .global   -- the attribute is recorded

/-- `export NAME=value` / `export NAME+=value` (with `-n`: unexport) -/
def Env.exportAssign (e : Env) (n : Str) (lit : Lit) (append unexport : Bool) : Env × Bool :=
  let u : Updater := if unexport then .unexport else .exp
  if append && (e.get n).isSome then
    match e.modify n .anywhere (fun v => let (v', ok) := v.assign lit true; if ok then (u.app v', true) else (v', false)) with
    | some r => r
    | none => (e, false)
  else e.updateOrAdd n lit u .anywhere .global

/-- `${name:=word}` reduced to its writer: assign when the visible value is unset or empty -/
def Env.assignDefault (e : Env) (n : Str) (val : Str) : Env × Bool :=
  let cur : Option Str := match e.get n with
    | some (_, v) => v.value.str0
    | none => none
  match cur with
  | some (_ :: _) => (e, true)
  | _ => e.updateOrAdd n (.scalar val) .nop .anywhere .global

/-! ## operations (what the correspondence drives, and what the theorems quantify over) -/

inductive Op
  | push (k : Kind)
  | pop (k : Kind)
  | unset (n : Str)
  | unsetIndex (n idx : Str)
  | updateOrAdd (n : Str) (lit : Lit) (u : Updater) (pol : Policy) (k : Kind)
  | updateOrAddElem (n idx val : Str) (pol : Policy) (k : Kind)
  | add (n : Str) (v : Var) (k : Kind)
  | assign (n : Str) (idx : Option Str) (lit : Lit) (append : Bool)     -- `n=v`, `n+=v`, `n[i]=v` as a command of their own
  | pushTemp (items : List (Str × Lit))                                   -- `n=v … cmd`: command scope + its prefix assignments
  | declare (n : Str) (fl : DeclFlags) (verb : Verb) (lit : Option Lit) (appendIdx nameIsArray inFunc : Bool)
  | exportName (n : Str) (unexport : Bool)
  | exportAssign (n : Str) (lit : Lit) (append unexport : Bool)
  | assignDefault (n val : Str)
  deriving DecidableEq, Repr

def stepR (e : Env) : Op → Env × Bool
  | .push k => (e.push k, true)
  | .pop k => e.pop k
  | .unset n => e.unset n
  | .unsetIndex n i => e.unsetIndex n i
  | .updateOrAdd n lit u pol k => e.updateOrAdd n lit u pol k
  | .updateOrAddElem n i v pol k => e.updateOrAddElem n i v pol k
  | .add n v k => e.add n v k
  | .assign n i lit ap => e.applyAssignment n i lit ap false none .global
  | .pushTemp items => e.pushTemp items
  | .declare n fl verb lit ai na inf => e.declare n fl verb lit ai na inf
  | .exportName n un => e.exportName n un
  | .exportAssign n lit ap un => e.exportAssign n lit ap un
  | .assignDefault n v => e.assignDefault n v

def step (e : Env) (op : Op) : Env := (stepR e op).1

def run (e : Env) : List Op → Env
  | [] => e
  | op :: ops => run (step e op) ops

/-! ## a simple command with temporary assignments, on every way it can end
(interp.rs `execute_command` → commands.rs `SimpleCommand::execute_via_function` → `invoke_shell_function`, then
`post_execute`) -/

/-- how far `n1=v1 … cmd` gets.  `abortedBefore`: nothing of `cmd` runs and no function scope is entered — a
redirection written on the call or attached to the function's definition cannot be set up, the command is not
found, a builtin / external command fails without writing.  `abortedDuring ran`: the function was entered, `ran`
are the operations its body performed before it stopped (a failing command, `return`, a fatal expansion error).
`completed body`: the body ran to its end. -/
inductive CallOutcome
  | abortedBefore
  | abortedDuring (ran : List Op)
  | completed (body : List Op)
  deriving Repr

def CallOutcome.body : CallOutcome → List Op
  | .abortedBefore => []
  | .abortedDuring ran => ran
  | .completed body => body

/-- `invoke_shell_function`: `enter_function` pushes a Local scope, the body runs, `leave_function` pops it —
on every path that entered. -/
def Env.invokeFunction (e : Env) (body : List Op) : Env × Bool :=
  (run (e.push .loc) body).pop .loc

/-- `post_execute`: `pop_scope(Command)`; its error is discarded by the caller, here it is kept in the flag -/
def postExecute (r : Env × Bool) : Env × Bool :=
  let (e', ok') := r.1.pop .command
  (e', r.2 && ok')

/-- the whole simple command: command scope + prefix assignments, the command, `post_execute` -/
def Env.callWithTemp (e : Env) (items : List (Str × Lit)) : CallOutcome → Env × Bool
  | .abortedBefore => postExecute ((e.pushTemp items).1, true)
  | .abortedDuring ran => postExecute ((e.pushTemp items).1.invokeFunction ran)
  | .completed body => postExecute ((e.pushTemp items).1.invokeFunction body)

end BrushVerif.Env
