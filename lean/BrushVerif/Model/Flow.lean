import BrushVerif.Model.Wire
/-!
# Control-flow interpreter model (C02, C03; extended by C16, C18)

Mirrors brush-core/src/interp.rs (`Program`, `CompoundList`, `AndOrList`, `Pipeline` post-processing,
every `CompoundCommand` arm), commands.rs `invoke_shell_function`, results.rs
`try_decrement_loop_levels`, and the `break`/`continue`/`return`/`exit` builtins.

Every `Cmd` is executed "as a pipeline of one command inside an and-or list": command-level
constructors run their body (`execCmd` part) and then the pipeline post-processing (`post`): `$?`
update and errexit.  `seq`, `andOr`, `bang` are list-level constructs.
-/
namespace BrushVerif.Flow

inductive Term where
  | exitCase      -- `;;`
  | fallThrough   -- `;&`
  | contTest      -- `;;&`
  deriving DecidableEq, Repr

inductive Opt where
  | errexit
  | pipefail
  | inheritErrexit
  | lastpipe          -- `shopt -s lastpipe` (effective because job control is off in non-interactive shells)
  deriving DecidableEq, Repr

/-- simple commands that fail part-way: each takes a different exit from `execute_command` /
`SimpleCommand::execute` -/
inductive FaultKind where
  | readonlyAssign    -- `RO=1 true`: the prefix assignment fails; the command-scope guard is dropped
  | notFound          -- `nosuchcmd`: scope popped on the not-found path, status 127
  | redirFail         -- `true < /nonexistent`: redirection error before any scope is pushed, status 1
  | tempBuiltin       -- `X=1 true`: builtin with a temporary assignment (normal path)
  | tempExternal      -- `X=1 /bin/true`: external with a temporary assignment
  deriving DecidableEq, Repr

def FaultKind.code : FaultKind → Nat
  | .readonlyAssign => 0     -- brush shadows the readonly name in the command scope (recorded under C09); bash prints a message; both give 0
  | .notFound => 127
  | .redirFail => 1
  | .tempBuiltin => 0
  | .tempExternal => 0

mutual
inductive Cmd where
  | leaf (id : Nat) (codes : List Nat)      -- prints m<id>; k-th execution returns codes[min k (len-1)]
  | probe                                   -- prints ?<$?>
  | seq (cs : Cmds)
  | andOr (first : Cmd) (rest : AOs)
  | bang (c : Cmd)
  | if1 (cond thn : Cmd)
  | if2 (cond thn els : Cmd)
  | whileU (isUntil : Bool) (cond body : Cmd)
  | forIn (n : Nat) (body : Cmd)            -- `for i in 1..n` and `for ((i=0;i<n;i++))`
  | case (arms : Arms)
  | group (c : Cmd)
  | subshell (c : Cmd)
  | call (f : Nat)
  | brk (n : Option Int)
  | cont (n : Option Int)
  | ret (code : Option Int)
  | exit (code : Option Int)
  | setOpt (o : Opt) (on : Bool)            -- `set -e`, `set -o pipefail`, `shopt -s inherit_errexit` (and off)
  | cmdsubst (c : Cmd)                      -- `v=$(c)`: an assignment-only command whose value is a substitution
  | evalC (c : Cmd)                         -- `eval '<c>'`
  | pipe (codes : List Nat) (last : Cmd)    -- `Q c1 | Q c2 | … | last`: silent stages returning c_i, then `last`
  | fault (k : FaultKind)                   -- a simple command that fails before or instead of running (C18)
  | callT (f : Nat)                         -- `X=1 f<f>`: function call with a temporary assignment
inductive Cmds where
  | nil
  | cons (c : Cmd) (cs : Cmds)
inductive AOs where
  | nil
  | cons (isAnd : Bool) (c : Cmd) (rest : AOs)
inductive Arms where
  | nil
  | cons (m : Bool) (body : Cmd) (t : Term) (rest : Arms)
end

inductive Flow where
  | normal
  | brk (levels : Nat)      -- `BreakLoop { levels }`: 0 = innermost
  | cont (levels : Nat)
  | ret
  | exit
  deriving DecidableEq, Repr

inductive Tr where
  | m (id : Nat)
  | q (status : Nat)
  deriving DecidableEq, Repr

structure St where
  counts : List (Nat × Nat) := []   -- leaf id ↦ executions so far
  trace  : List Tr := []            -- stdout
  last   : Nat := 0                 -- `$?`
  fdepth : Nat := 0                 -- function nesting (`in_function`; call-stack depth)
  scope  : Nat := 0                 -- variable-scope frames pushed on top of the global one
  errexit : Bool := false
  pipefail : Bool := false
  inheritErrexit : Bool := false
  lastpipe : Bool := false
  deriving Repr, DecidableEq

structure Res where
  code : Nat
  flow : Flow
  deriving Repr, DecidableEq

/-- `try_decrement_loop_levels` -/
def Flow.dec : Flow → Flow
  | .brk 0 => .normal
  | .cont 0 => .normal
  | .brk (k + 1) => .brk k
  | .cont (k + 1) => .cont k
  | f => f

def Flow.isNormal : Flow → Bool
  | .normal => true
  | _ => false

def Flow.isRetOrExit : Flow → Bool
  | .ret => true
  | .exit => true
  | _ => false

def Flow.isBreak : Flow → Bool
  | .brk _ => true
  | _ => false

def Flow.isCont : Flow → Bool
  | .cont _ => true
  | _ => false

def getCount (cs : List (Nat × Nat)) (id : Nat) : Nat :=
  match cs with
  | [] => 0
  | (i, k) :: r => if i = id then k else getCount r id

def bump (cs : List (Nat × Nat)) (id : Nat) : List (Nat × Nat) :=
  match cs with
  | [] => [(id, 1)]
  | (i, k) :: r => if i = id then (i, k + 1) :: r else (i, k) :: bump r id

def codeAt (codes : List Nat) (k : Nat) : Nat :=
  match codes with
  | [] => 0
  | [c] => c
  | c :: r => if k = 0 then c else codeAt r (k - 1)

/-- low 8 bits of a builtin's numeric argument -/
def low8 (n : Int) : Nat := (n % 256).toNat

/-- pipeline post-processing for a non-negated pipeline: `$?`, then errexit -/
def post (suppress : Bool) (s : St) (r : Res) : St × Res :=
  let s' := { s with last := r.code }
  if !suppress && s'.errexit && r.code ≠ 0 && r.flow.isNormal then (s', { r with flow := .exit })
  else (s', r)

/-- what the pipeline holding a brace group, loop, `if` or `case` does with the status the compound
command passes on: `$?` only — errexit was checked (or exempt) where the failing command ran -/
def St.setOpt (s : St) : Opt → Bool → St
  | .errexit, on => { s with errexit := on }
  | .pipefail, on => { s with pipefail := on }
  | .inheritErrexit, on => { s with inheritErrexit := on }
  | .lastpipe, on => { s with lastpipe := on }

/-- `wait_for_pipeline_processes_and_update_status`: the last stage's status, or with pipefail the
rightmost non-zero one -/
def pipeStatus (pipefail : Bool) (codes : List Nat) : Nat :=
  if pipefail then
    match codes.reverse.find? (· ≠ 0) with
    | some c => c
    | none => 0
  else codes.getLast?.getD 0

def postC (s : St) (r : Res) : St × Res := ({ s with last := r.code }, r)

abbrev Out := Option (St × Res)

mutual
/-- `exec fuel fs suppress c s`: run `c` as a pipeline; `fs` are the function bodies -/
def exec : Nat → List Cmd → Bool → Cmd → St → Out
  | 0, _, _, _, _ => none
  | fuel + 1, fs, sup, c, s =>
    match c with
    | .leaf id codes =>
      let k := getCount s.counts id
      let s1 := { s with counts := bump s.counts id, trace := s.trace ++ [.m id] }
      some (post sup s1 { code := codeAt codes k, flow := .normal })
    | .probe =>
      let s1 := { s with trace := s.trace ++ [.q s.last] }
      some (post sup s1 { code := 0, flow := .normal })
    | .seq cs => execList fuel fs sup cs s
    | .andOr first rest =>
      let hasOps := match rest with | .nil => false | _ => true
      match exec fuel fs (sup || hasOps) first s with
      | none => none
      | some (s1, r1) => execAO fuel fs sup rest s1 r1
    | .bang c =>
      match exec fuel fs true c s with
      | none => none
      | some (s1, r1) =>
        -- `! return n` / `! exit n` leave with n; everything else is inverted (also `! break`)
        let code := if r1.flow.isRetOrExit then r1.code else if r1.code = 0 then 1 else 0
        some ({ s1 with last := code }, { r1 with code := code })
    | .if1 cond thn =>
      match exec fuel fs true cond s with
      | none => none
      | some (s1, r1) =>
        if !r1.flow.isNormal then some (postC s1 r1)
        else if r1.code = 0 then
          match exec fuel fs sup thn s1 with
          | none => none
          | some (s2, r2) => some (postC s2 r2)
        else some (postC { s1 with last := 0 } { code := 0, flow := .normal })
    | .if2 cond thn els =>
      match exec fuel fs true cond s with
      | none => none
      | some (s1, r1) =>
        if !r1.flow.isNormal then some (postC s1 r1)
        else
          match exec fuel fs sup (if r1.code = 0 then thn else els) s1 with
          | none => none
          | some (s2, r2) => some (postC s2 r2)
    | .whileU isUntil cond body =>
      match loopW fuel fs sup isUntil cond body s { code := 0, flow := .normal } with
      | none => none
      | some (s1, r1) => some (postC { s1 with last := r1.code } r1)
    | .forIn n body =>
      match loopF fuel fs sup n body s { code := 0, flow := .normal } with
      | none => none
      | some (s1, r1) => some (postC { s1 with last := r1.code } r1)
    | .case arms =>
      match execArms fuel fs sup arms false s { code := 0, flow := .normal } with
      | none => none
      | some (s1, r1) => some (postC { s1 with last := r1.code } r1)
    | .group c =>
      match exec fuel fs sup c s with
      | none => none
      | some (s1, r1) => some (postC s1 r1)
    | .subshell c =>
      match exec fuel fs sup c s with
      | none => none
      | some (s1, r1) =>
        -- only the output and the status come back
        some (post sup { s with trace := s1.trace } { code := r1.code, flow := .normal })
    | .call f =>
      match fs[f]? with
      | none => some (post sup s { code := 127, flow := .normal })
      | some body =>
        -- execute_command pushes a Command scope (popped by post_execute); enter_function pushes a call
        -- frame and a Local scope (leave_function pops both, whatever the body's result)
        match exec fuel fs sup body { s with fdepth := s.fdepth + 1, scope := s.scope + 2 } with
        | none => none
        | some (s1, r1) =>
          let s2 := { s1 with fdepth := s1.fdepth - 1, scope := s1.scope - 2 }
          match r1.flow with
          | .brk _ => some (post sup s2 { code := 99, flow := .normal })   -- "not yet implemented"
          | .cont _ => some (post sup s2 { code := 99, flow := .normal })
          | .ret => some (post sup s2 { code := r1.code, flow := .normal })
          | _ => some (post sup s2 r1)
    | .brk n =>
      let lv : Int := n.getD 1
      if lv ≤ 0 then some (post sup s { code := 2, flow := .normal })
      else some (post sup s { code := 0, flow := .brk (lv - 1).toNat })
    | .cont n =>
      let lv : Int := n.getD 1
      if lv ≤ 0 then some (post sup s { code := 2, flow := .normal })
      else some (post sup s { code := 0, flow := .cont (lv - 1).toNat })
    | .ret code =>
      let c := match code with | some v => low8 v | none => s.last
      if s.fdepth > 0 then some (post sup s { code := c, flow := .ret })
      else some (post sup s { code := 2, flow := .normal })
    | .exit code =>
      let c := match code with | some v => low8 v | none => s.last
      some (post sup s { code := c, flow := .exit })
    | .setOpt o on => some (post sup (s.setOpt o on) { code := 0, flow := .normal })
    | .fault k =>
      -- every exit of execute_command / SimpleCommand::execute gives the Command scope back
      let pushed := match k with | .redirFail => s | _ => { s with scope := s.scope + 1 }
      let popped := match k with | .redirFail => pushed | _ => { pushed with scope := pushed.scope - 1 }
      some (post sup popped { code := k.code, flow := .normal })
    | .callT f => exec fuel fs sup (.call f) s
    | .cmdsubst c =>
      -- invoke_command_in_subshell_and_get_output: a clone with errexit off unless inherit_errexit
      match exec fuel fs sup c { s with errexit := s.errexit && s.inheritErrexit } with
      | none => none
      | some (s1, r1) =>
        some (post sup { s with trace := s1.trace } { code := r1.code, flow := .normal })
    | .evalC c =>
      -- the eval builtin passes the result (status and control flow) of the evaluated program on
      match exec fuel fs sup c s with
      | none => none
      | some (s1, r1) => some (post sup s1 r1)
    | .pipe codes lastc =>
      match exec fuel fs sup lastc s with
      | none => none
      | some (s1, r1) =>
        if s.lastpipe then
          -- the last stage ran in the current shell: its state changes and its control flow stay
          some (post sup s1 { code := pipeStatus s.pipefail (codes ++ [r1.code]), flow := r1.flow })
        else
          -- every stage runs in its own clone; only output and statuses come back
          some (post sup { s with trace := s1.trace }
            { code := pipeStatus s.pipefail (codes ++ [r1.code]), flow := .normal })

/-- `CompoundList::execute` -/
def execList : Nat → List Cmd → Bool → Cmds → St → Out
  | 0, _, _, _, _ => none
  | _ + 1, _, _, .nil, s => some ({ s with last := 0 }, { code := 0, flow := .normal })
  | fuel + 1, fs, sup, .cons c cs, s =>
    match exec fuel fs sup c s with
    | none => none
    | some (s1, r1) =>
      let s2 := { s1 with last := r1.code }
      if !r1.flow.isNormal then some (s2, r1)
      else match cs with
        | .nil => some (s2, r1)
        | _ => execList fuel fs sup cs s2

/-- the `additional` loop of `AndOrList::execute`; `r` is the latest result -/
def execAO : Nat → List Cmd → Bool → AOs → St → Res → Out
  | 0, _, _, _, _, _ => none
  | _ + 1, _, _, .nil, s, r => some (s, r)
  | fuel + 1, fs, sup, .cons isAnd c rest, s, r =>
    if !r.flow.isNormal then some (s, r)
    else if (isAnd && r.code ≠ 0) || (!isAnd && r.code = 0) then execAO fuel fs sup rest s r
    else
      let isLast := match rest with | .nil => true | _ => false
      match exec fuel fs (sup || !isLast) c s with
      | none => none
      | some (s1, r1) => execAO fuel fs sup rest s1 r1

/-- `while`/`until`; `r` is the result so far -/
def loopW : Nat → List Cmd → Bool → Bool → Cmd → Cmd → St → Res → Out
  | 0, _, _, _, _, _, _, _ => none
  | fuel + 1, fs, sup, isUntil, cond, body, s, r =>
    match exec fuel fs true cond s with
    | none => none
    | some (s1, rc) =>
      let s1 := { s1 with last := rc.code }
      if !rc.flow.isNormal then some (s1, { rc with flow := rc.flow.dec })
      else if (rc.code = 0) = isUntil then some (s1, r)
      else
        match exec fuel fs sup body s1 with
        | none => none
        | some (s2, rb) =>
          if rb.flow.isRetOrExit then some (s2, rb)
          else
            let rb' := { rb with flow := rb.flow.dec }
            if rb.flow.isBreak || rb'.flow.isCont then some (s2, rb')
            else loopW fuel fs sup isUntil cond body s2 rb'

/-- `for` with `n` remaining iterations -/
def loopF : Nat → List Cmd → Bool → Nat → Cmd → St → Res → Out
  | 0, _, _, _, _, _, _ => none
  | _ + 1, _, _, 0, _, s, r => some (s, r)
  | fuel + 1, fs, sup, n + 1, body, s, _ =>
    match exec fuel fs sup body s with
    | none => none
    | some (s2, rb) =>
      if rb.flow.isRetOrExit then some (s2, rb)
      else
        let rb' := { rb with flow := rb.flow.dec }
        if rb.flow.isBreak || rb'.flow.isCont then some (s2, rb')
        else loopF fuel fs sup n body s2 rb'

/-- the arms of `case`; `force` = the previous arm ended in `;&` -/
def execArms : Nat → List Cmd → Bool → Arms → Bool → St → Res → Out
  | 0, _, _, _, _, _, _ => none
  | _ + 1, _, _, .nil, _, s, r => some (s, r)
  | fuel + 1, fs, sup, .cons m body t rest, force, s, r =>
    if !force && !m then execArms fuel fs sup rest false s r
    else
      match exec fuel fs sup body s with
      | none => none
      | some (s1, r1) =>
        if !r1.flow.isNormal then some (s1, r1)
        else match t with
          | .exitCase => some (s1, r1)
          | .fallThrough => execArms fuel fs sup rest true s1 r1
          | .contTest => execArms fuel fs sup rest false s1 r1
end

/-- a whole program (`brush -c`): the final `$?`/flow decide the process exit status -/
def runProgram (fuel : Nat) (fs : List Cmd) (main : Cmd) : Option (List Tr × Nat) :=
  match exec fuel fs false main {} with
  | none => none
  | some (s, r) => some (s.trace, r.code)

end BrushVerif.Flow
