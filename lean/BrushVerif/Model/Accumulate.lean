import BrushVerif.Model.Wire
import BrushVerif.Gen.IncompleteErrors
/-!
# Model of reading commands from standard input (C15)

Mirrors `brush-interactive/src/completeness.rs` (`needs_more_input_locked`, `ends_with_line_continuation`),
`brush-interactive/src/minimal/input_backend.rs` (`MinimalInputBackend::read_program_from`) and the loop of
`InteractiveShell::run_interactively` / `execute_line` (line offsets for `$LINENO`), over an abstract parser.
-/
namespace BrushVerif.Accumulate
open BrushVerif.Wire BrushVerif.Gen.IncompleteErrors

/-- What `Shell::parse_string` reports, as far as `needs_more_input_locked` distinguishes it. -/
inductive Outcome where
  | ok                      -- parsed
  | near                    -- `ParseError::ParsingNear`: a bad token at a position
  | atEnd                   -- `ParseError::ParsingAtEndOfInput`
  | tok (e : TokErr)        -- `ParseError::Tokenizing { inner: e, .. }`
  deriving DecidableEq, Repr

/-- `str::strip_suffix('\n')` -/
def stripNl (s : Str) : Option Str :=
  match s.reverse with
  | '\n' :: r => some r.reverse
  | _ => none

def endsWithBackslash (s : Str) : Bool :=
  match s.reverse with
  | '\\' :: _ => true
  | _ => false

/-- `ends_with_line_continuation` -/
def endsWithLineContinuation (parse : Str → Outcome) (input : Str) : Bool :=
  match stripNl input with
  | none => false
  | some truncated =>
    if !endsWithBackslash truncated then false
    else match parse truncated with
      | .tok .UnterminatedEscapeSequence => true
      | _ => false

/-- `needs_more_input_locked` -/
def needsMoreInput (parse : Str → Outcome) (input : Str) : Bool :=
  match parse input with
  | .tok e => isIncomplete e
  | .atEnd => true
  | .near => false
  | .ok => endsWithLineContinuation parse input

/-- The loop of `read_program_from`: `acc` is `result`, the list holds the lines still to come from the reader
(each as `read_line` returns it, newline included).  Returns what is handed over and the lines left unread. -/
def readProgram (needs : Str → Bool) : Str → List Str → Str × List Str
  | acc, [] => (acc, [])
  | acc, l :: ls => if needs (acc ++ l) then readProgram needs (acc ++ l) ls else (acc ++ l, ls)

theorem readProgram_rest_le (needs : Str → Bool) (acc : Str) (ls : List Str) :
    (readProgram needs acc ls).2.length ≤ ls.length := by
  induction ls generalizing acc with
  | nil => simp [readProgram]
  | cons l ls ih =>
    simp only [readProgram]
    split
    · exact Nat.le_succ_of_le (ih _)
    · simp

/-- `run_interactively` with the minimal backend on a finite input: `read_line` until it reports `Eof`
(an empty result); every non-empty result is executed as one program (as long as the shell goes on). -/
def chunks (needs : Str → Bool) : List Str → List Str
  | [] => []
  | l :: ls =>
    let r := readProgram needs [] (l :: ls)
    if r.1.isEmpty then [] else r.1 :: chunks needs r.2
termination_by ls => ls.length
decreasing_by
  have h := readProgram_rest_le needs ([] ++ l) ls
  simp only [readProgram]
  split
  · simp only [List.length_cons]; omega
  · simp

/-- `read_result.lines().count().max(1)` (execute_line): the amount added to the frame's line offset. -/
def lineCount (s : Str) : Nat :=
  let nl := s.count '\n'
  let raw := if s ≠ [] ∧ s.getLast? ≠ some '\n' then nl + 1 else nl
  max raw 1

/-- The line offsets in force while each chunk runs (`increment_interactive_line_offset` after each). -/
def offsets : Nat → List Str → List Nat
  | _, [] => []
  | off, c :: cs => off :: offsets (off + lineCount c) cs

/-- `Frame::current_line` for the frame of an interactive session: no start position, `current.line` is the
line inside the chunk (1-based) and `current_line_offset` the accumulated offset. -/
def currentLine (offset lineInChunk : Nat) : Nat := (1 - 1) + lineInChunk + offset

end BrushVerif.Accumulate
