import BrushVerif.Model.Wire
import BrushVerif.Gen.Operators
/-!
# Model of brush's tokenizer on the quote/operator/comment fragment (C19; groundwork for C15/C14/C01)

Mirrors `brush-parser/src/tokenizer.rs`: `uncached_tokenize_str`, `Tokenizer::{next_token_until,
next_char, is_operator, can_start_operator, can_start_extglob}`, `TokenParseState::{pop,
delimit_current_token, unquoted, only_blanks_so_far}`, `is_blank`, `does_char_newly_affect_quoting`,
`is_quoting_char` — for `terminating_char = None`, `include_space = false` (what `next_token` passes).

**Fragment.**  Ordinary characters, blanks, newlines, `#`, operator characters, `'`, `"`, `\`.  The model
answers `unsupported` (it never guesses) as soon as the code would enter a part that is not modelled:
an unquoted or double-quoted `$` or backquote (expansions, `$'…'`), a completed `<<` / `<<-` operator
followed by anything (here-documents), `(` after one of `@!?+*` with extglob enabled, `'` after a token
text ending in `$` (ANSI-C quote).

**Positions** are `SourcePosition`s: `index` counts *chars* (not bytes: `next_char` adds 1 per char),
`line`/`column` are 1-based.

The inner loops of the Rust code (peeking past a consumed backslash; skipping a comment up to the
newline) are flattened into the state flags `bs` / `inComment`, so that every step looks at exactly one
char.  `in_escape` is never observable between two steps of this model: the Rust loop sets it after the
peek and the very next iteration (branch "end of escape sequence") appends the char and clears it; only
the end of input can intervene (`unterminatedEscape`).

`St.skipped` / `Token.exact` are *ghost* fields (nothing reads them to decide anything): they record
that the current token state has swallowed a comment or a backslash-newline pair, which the Rust code
neither appends to the token text nor removes from the token's span.
-/
namespace BrushVerif.Tokenizer
open BrushVerif.Wire BrushVerif.Gen.Operators

/-- `TokenizerOptions` (`posix_mode` is not read by the tokenizer) -/
structure Opts where
  extglob : Bool
  shMode  : Bool
  deriving Repr, DecidableEq

/-- `SourcePosition` -/
structure Pos where
  index : Nat
  line  : Nat
  col   : Nat
  deriving Repr, DecidableEq

def Pos.origin : Pos := ⟨0, 1, 1⟩

/-- `next_char`'s cursor update -/
def adv (p : Pos) (c : Char) : Pos :=
  if c = '\n' then ⟨p.index + 1, p.line + 1, 1⟩ else ⟨p.index + 1, p.line, p.col + 1⟩

/-- `QuoteMode` (`AnsiC` is outside the fragment) -/
inductive Q where
  | none | single | double
  deriving Repr, DecidableEq

inductive Kind where
  | word | op
  deriving Repr, DecidableEq

/-- `Token::{Word, Operator}(text, SourceSpan { start, end })` -/
structure Token where
  kind  : Kind
  text  : Str
  start : Pos
  stop  : Pos
  exact : Bool      -- ghost: no comment / backslash-newline was swallowed while this token was built
  deriving Repr, DecidableEq

/-- the `TokenizerError` kinds reachable on the fragment, with the position they carry -/
inductive Err where
  | unterminatedEscape
  | unterminatedSingleQuote (p : Pos)
  | unterminatedDoubleQuote (p : Pos)
  deriving Repr, DecidableEq

inductive Res where
  | ok (ts : List Token)
  | err (e : Err)
  | unsupported
  | panic              -- `assert!(state.started_token())` would fire (never, see `tokenize_never_panics`)
  deriving Repr, DecidableEq

def Res.cons (t : Token) : Res → Res
  | .ok ts => .ok (t :: ts)
  | r => r

/-- `TokenParseState` + the cursor of `CrossTokenParseState` -/
structure St where
  cur       : Pos       -- `cross_state.cursor`
  start     : Pos       -- `start_position`
  tok       : Str       -- `token_so_far`
  isOp      : Bool      -- `token_is_operator`
  bs        : Bool      -- a backslash has been consumed and the loop is about to peek past it
  inComment : Bool      -- inside the `while !done` loop that skips a comment
  q         : Q         -- `quote_mode`
  qpos      : Pos       -- the position the quote mode carries
  skipped   : Bool      -- ghost, see above
  deriving Repr

/-- `TokenParseState::new(&cursor)` -/
def fresh (p : Pos) : St :=
  { cur := p, start := p, tok := [], isOp := false, bs := false, inComment := false, q := .none,
    qpos := p, skipped := false }

def isBlank (c : Char) : Bool := blankChars.contains c
def canStartOperator (c : Char) : Bool := opStartChars.contains c
def canStartExtglob (c : Char) : Bool := extglobStartChars.contains c
def isQuotingChar (c : Char) : Bool := quotingChars.contains c

/-- `is_operator` -/
def isOperator (o : Opts) (s : Str) : Bool :=
  (!o.shMode && extraOps.contains s) || posixOps.contains s

/-- `does_char_newly_affect_quoting` (never called with `in_escape` set, see the header) -/
def newlyAffectsQuoting (st : St) (c : Char) : Bool :=
  match st.q with
  | .double => c == '\\'
  | .single => false
  | .none => isQuotingChar c

/-- `only_blanks_so_far` -/
def onlyBlanksSoFar (st : St) : Bool := !st.tok.isEmpty && st.tok.all isBlank

/-- `pop(&cursor)` -/
def mkTok (st : St) : Token :=
  { kind := if st.isOp then .op else .word, text := st.tok, start := st.start, stop := st.cur,
    exact := !st.skipped }

inductive Action where
  | cont (st : St)      -- the char was consumed
  | emit (t : Token)    -- `delimit_current_token` produced a token; the char is still there
  | bail (r : Res)

/-- consume `c` and append it to the token -/
def St.push (st : St) (c : Char) : St := { st with tok := st.tok ++ [c], cur := adv st.cur c }

/-! One iteration of the `while result.is_none()` loop of `next_token_until` on the peeked char `c`: `step`, with the
branches in the order of the source, cut into five pieces (only to keep each definition small). -/

/-- a backslash has just been consumed: `if matches!(self.peek_char()?, Some('\n'))` -/
def stepBs (st : St) (c : Char) : Action :=
  -- neither the backslash nor the newline is included
  if c = '\n' then .cont { st with bs := false, cur := adv st.cur c, skipped := true }
  -- else `in_escape = true; append('\\')`, and the next iteration appends `c` ("end of escape sequence")
  else .cont { st with bs := false, tok := st.tok ++ ['\\', c], cur := adv st.cur c }

/-- inside the comment loop: it stops in front of a newline, and the main loop then starts the newline operator -/
def stepComment (st : St) (c : Char) : Action :=
  if c = '\n' then .cont { st with inComment := false, isOp := true, tok := [c], cur := adv st.cur c }
  else .cont { st with cur := adv st.cur c }

/-- `else if state.in_operator()` -/
def stepOp (o : Opts) (st : St) (c : Char) : Action :=
  if st.tok.isEmpty then .bail .panic
  else if isOperator o (st.tok ++ [c]) then .cont (st.push c)
  else if st.tok = ['<', '<'] ∨ st.tok = ['<', '<', '-'] then .bail .unsupported   -- here-document
  else .emit (mkTok st)

/-- `else if does_char_newly_affect_quoting(&state, c)` -/
def stepQuote (st : St) (c : Char) : Action :=
  if c = '\\' then .cont { st with bs := true, cur := adv st.cur c }
  else if c = '\'' then
    if st.tok.getLast? = some '$' then .bail .unsupported                           -- `QuoteMode::AnsiC`
    else .cont { st with tok := st.tok ++ [c], cur := adv st.cur c, q := .single, qpos := st.cur }
  else .cont { st with tok := st.tok ++ [c], cur := adv st.cur c, q := .double, qpos := st.cur }

/-- the branches from "If the character *can* start an operator, then it will" on -/
def stepPlain (st : St) (c : Char) : Action :=
  if st.q = .none ∧ canStartOperator c then
    if !st.tok.isEmpty then .emit (mkTok st)                                          -- OperatorStart
    else .cont { st with tok := st.tok ++ [c], cur := adv st.cur c, isOp := true }
  else if st.q = .none ∧ isBlank c then
    if !st.tok.isEmpty then .emit (mkTok st)                                          -- NonNewLineBlank
    else .cont { st with start := ⟨st.start.index + 1, st.start.line, st.start.col + 1⟩, cur := adv st.cur c }
  else if !st.tok.isEmpty ∧ ¬ (c = '#' ∧ onlyBlanksSoFar st) then .cont (st.push c)
  else if c = '#' then .cont { st with inComment := true, cur := adv st.cur c, skipped := true }
  else if !st.tok.isEmpty then .emit (mkTok st)                                       -- Other
  else .cont (st.push c)

/-- the branches from "Handle end of single-quote, double-quote" to the extglob extension, then `stepPlain` -/
def stepWord (o : Opts) (st : St) (c : Char) : Action :=
  if st.q = .single ∧ c = '\'' then .cont { st with tok := st.tok ++ [c], cur := adv st.cur c, q := .none }
  else if st.q = .double ∧ c = '"' then .cont { st with tok := st.tok ++ [c], cur := adv st.cur c, q := .none }
  else if (st.q = .none ∨ st.q = .double) ∧ (c = '$' ∨ c = '`') then .bail .unsupported
  else if c = '(' ∧ o.extglob ∧ st.q = .none ∧ st.tok.getLast?.any canStartExtglob then .bail .unsupported
  else stepPlain st c

def step (o : Opts) (st : St) (c : Char) : Action :=
  if st.bs then stepBs st c
  else if st.inComment then stepComment st c
  else if st.isOp then stepOp o st c
  else if newlyAffectsQuoting st c then stepQuote st c
  else stepWord o st c

/-- the end-of-input branch -/
def eof (st : St) : Res :=
  if st.bs then .err .unterminatedEscape
  else match st.q with
    | .single => .err (.unterminatedSingleQuote st.qpos)
    | .double => .err (.unterminatedDoubleQuote st.qpos)
    | .none => if st.tok.isEmpty then .ok [] else .ok [mkTok st]

/-- `uncached_tokenize_str`'s loop over `next_token`: after a token has been delimited in front of a
char, the next call starts a new `TokenParseState` at the cursor and looks at the same char. -/
def go (o : Opts) (st : St) : Str → Res
  | [] => eof st
  | c :: rest =>
    match step o st c with
    | .cont st' => go o st' rest
    | .emit t =>
      match step o (fresh st.cur) c with
      | .cont st' => (go o st' rest).cons t
      | .emit _ => .panic
      | .bail r => r
    | .bail r => r

/-- `tokenize_str_with_options(line, opts)` -/
def tokenize (o : Opts) (line : Str) : Res := go o (fresh Pos.origin) line

/-- the options the default interactive shell hands to the highlighter -/
def Opts.default : Opts := ⟨true, false⟩

end BrushVerif.Tokenizer
