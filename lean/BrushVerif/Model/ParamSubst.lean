import BrushVerif.Model.ParamOps
/-!
# Model of brush's pattern substitution, case modification and value transforms (C06)

Mirrors `brush-core/src/expansion.rs`: the arms `ReplaceSubstring`, `UppercaseFirstChar`,
`UppercasePattern`, `LowercaseFirstChar`, `LowercasePattern`, `Transform { ToUpperCase, ToLowerCase,
CapitalizeInitial }` of `expand_parameter_expr`, the helpers `replace_substring`,
`pattern_to_first_char`, `pattern_to_string`, `to_initial_capitals`, and what they call in
`fancy_regex` 0.19: `Regex::replacen` (`replace` = `replacen(1)`, `replace_all` = `replacen(0)`), the
`Matches` iterator (`next_with`: an empty match right after a match is skipped, after an empty match
the search restarts one character further) with a `NoExpand` replacement (inserted verbatim).

The regex engine is a parameter: `e t` lists the lengths of the matches of the text `t` that start
at its first character, **in the engine's preference order** (backtracking order: first
alternative first, greedy repetition).  `Model/Pattern.lean` (C08) provides an instance
(`Re.run`).  Defects are mirrored, not repaired: the first match in preference order is used, not
the longest; `&` in the replacement is not the matched text; empty matches are replaced wherever the iterator reports them; a case-modification
pattern is searched for in the value instead of being tested against single characters.
-/
namespace BrushVerif.ParamSubst
open BrushVerif.Wire BrushVerif.ParamOps

/-- lengths of the matches that start at the first character of the text, in preference order -/
abbrev Engine := Str → List Nat

/-- the match the engine reports at this position (unanchored regex, or `^re` at offset 0) -/
def firstAt (e : Engine) (t : Str) : Option Nat := (e t).head?

/-- the match the engine reports at this position for `re$`: the first one in preference order
that reaches the end of the subject -/
def endAt (e : Engine) (t : Str) : Option Nat := (e t).find? (· == t.length)

/-- the search loop of `Regex::find_from_pos`: the first start offset (counted from the current
position) at which the engine finds a match, and that match's length -/
def findFrom (pm : Str → Option Nat) : Str → Option (Nat × Nat)
  | [] => (pm []).map (fun k => (0, k))
  | c :: t =>
    match pm (c :: t) with
    | some k => some (0, k)
    | none => (findFrom pm t).map (fun p => (p.1 + 1, p.2))

/-- `replacen(text, 1, rep)`: the first item of `find_iter` is always yielded -/
def replaceOnce (pm : Str → Option Nat) (rep : Str → Str) (s : Str) : Str :=
  match findFrom pm s with
  | none => s
  | some (i, k) => s.take i ++ rep ((s.drop i).take k) ++ s.drop (i + k)

/-- `replacen(text, 0, rep)` over `Matches::next_with`.  `rest` is the text from the current
search start; `lastEndHere` says that the previous yielded match ended exactly here
(`Some(match_end) == self.last_match` can only hold for an empty match found at the search start).
Text between matches is copied (`new.push_str(&text[last_match..m.start()])`). -/
def replAllGo (pm : Str → Option Nat) (rep : Str → Str) : Nat → Str → Bool → Str
  | 0, rest, _ => rest
  | fuel + 1, rest, lastEndHere =>
    match findFrom pm rest with
    | none => rest
    | some (i, k) =>
      let after := rest.drop i
      if k = 0 then
        if i = 0 && lastEndHere then
          -- an empty match immediately following a match: not yielded, search one character on
          match after with
          | [] => []
          | c :: t => c :: replAllGo pm rep fuel t false
        else
          rest.take i ++ rep [] ++
            (match after with
             | [] => []
             | c :: t => c :: replAllGo pm rep fuel t false)
      else rest.take i ++ rep (after.take k) ++ replAllGo pm rep fuel (after.drop k) true

def replaceAll (pm : Str → Option Nat) (rep : Str → Str) (s : Str) : Str :=
  replAllGo pm rep (s.length + 1) s false

/-- `brush_parser::word::SubstringMatchKind` -/
inductive MatchKind where
  | first      -- `${v/p/r}`   FirstOccurrence
  | all        -- `${v//p/r}`  Anywhere
  | atStart     -- `${v/#p/r}`  Prefix:  regex `^re`
  | atEnd     -- `${v/%p/r}`  Suffix:  regex `re$`
  deriving Repr, DecidableEq

/-- `replace_substring` with the regex built by `to_regex(prefix, suffix)`.  `^` holds only at
offset 0, so `^re` is decided by the engine's first match there; `re$` makes the engine go through
its alternatives at each offset until one ends at the end of the subject. -/
def replaceSubstring (e : Engine) (rep : Str → Str) (k : MatchKind) (s : Str) : Str :=
  match k with
  | .first => replaceOnce (firstAt e) rep s
  | .all => replaceAll (firstAt e) rep s
  | .atStart =>
    match firstAt e s with
    | none => s
    | some n => rep (s.take n) ++ s.drop n
  | .atEnd => replaceOnce (endAt e) rep s

/-! ## the replacement text

`replace_substring` hands the expanded replacement to the regex crate wrapped in
`fancy_regex::NoExpand`: it is inserted as it stands at every match (no `$0` / `$name` template
reading), whatever was matched. -/

/-- `${v/p/r}` … on one field: `NoExpand(expanded_replacement)` handed to `Regex::replace{,_all}` -/
def patSub (e : Engine) (tpl : Str) (k : MatchKind) (s : Str) : Str :=
  replaceSubstring e (fun _ => tpl) k s

/-- an atom of the replacement word as written: a character that is literal after expansion and
quote removal, or an unquoted `&` -/
inductive RAtom where
  | lit (c : Char)
  | amp
  deriving Repr, DecidableEq

/-- the replacement word after brush's expansion (`basic_expand_to_str`): quoting is gone, `&` is
just a character.  `inline = false`: the word was `$r` with `r` holding bash's template text, in
which a literal `&` / backslash is written `\&` / `\\` — brush gets that text as it is. -/
def brushTpl (inline : Bool) (r : List RAtom) : Str :=
  r.flatMap fun a => match a with
    | .amp => ['&']
    | .lit c => if !inline && (c == '&' || c == '\\') then ['\\', c] else [c]

/-! ## case modification -/

/-- `pattern_to_first_char(s, pattern, |c| c.to_uppercase())`: `f` is the (possibly multi-character)
case mapping, of which only the first character is used; `applicable c` is
`pattern.is_none() || pattern.is_empty() || pattern.exactly_matches(c)`. -/
def caseFirst (f : Char → Str) (applicable : Char → Bool) : Str → Str
  | [] => []
  | c :: t =>
    if applicable c then
      match f c with
      | u :: _ => u :: t
      | [] => c :: t
    else c :: t

/-- `str::to_uppercase` / `to_lowercase` as a per-character mapping (Rust's `to_lowercase` also
knows the final-sigma rule; Greek is outside what the driver instantiates) -/
def mapCase (f : Char → Str) (s : Str) : Str := s.flatMap f

/-- `pattern_to_string`: without a pattern (or with an empty one) the whole value is mapped;
with one, `regex.replace_all(s, |caps| transform(&caps[0]))` over the unanchored regex -/
def caseAll (f : Char → Str) (pat : Option Engine) (s : Str) : Str :=
  match pat with
  | none => mapCase f s
  | some e => replaceAll (firstAt e) (mapCase f) s

/-- `char::is_whitespace` (ASCII part and NBSP-free: what the driver sends) -/
def isWs (c : Char) : Bool := c == ' ' || c == '\t' || c == '\n' || c == '\r' || c == '\x0b' || c == '\x0c'

/-- `to_initial_capitals` (`${v@u}`): the first character of **every** whitespace-separated word -/
def initialCapsGo (f : Char → Str) : Bool → Str → Str
  | _, [] => []
  | capNext, c :: t =>
    if isWs c then c :: initialCapsGo f true t
    else if capNext then f c ++ initialCapsGo f false t
    else c :: initialCapsGo f false t

def initialCaps (f : Char → Str) (s : Str) : Str := initialCapsGo f true s

/-- ASCII case mappings as single-character strings (the part of `char::to_uppercase` /
`to_lowercase` every instance agrees on) -/
def asciiUp (c : Char) : Str := [c.toUpper]
def asciiLow (c : Char) : Str := [c.toLower]

/-! ## a glob engine: greedy backtracking over the small pattern grammar of `ParamOps.Pat`
(what the regex built from `? * [..]` and literals does: `.` / `.*` / a class / the character) -/

def globRun : Pat → Str → List Nat
  | [], _ => [0]
  | .star :: ps, s =>
    -- `.*` greedy: the longest stretch first
    ((List.range (s.length + 1)).reverse).flatMap (fun k => (globRun ps (s.drop k)).map (· + k))
  | _ :: _, [] => []
  | el :: ps, c :: cs => if elemMatches el c then (globRun ps cs).map (· + 1) else []

end BrushVerif.ParamSubst
