import BrushVerif.Model.Wire
/-!
Model of brush's WORD PARSER (`brush-parser/src/word.rs`, grammar `expansion_parser`, entry
`unexpanded_word` = `word(<![_]>)`, reached through `word::parse`) with the default `ParserOptions`
(tilde prefix at word start on, tilde after colon off, non-posix extensions on), on a fragment.
Everything outside the fragment answers `unsup` (never a wrong piece list).

Rules mirrored (ordered choice, as in the PEG):
* `word`               = `tilde_expr_prefix_with_source? word_piece_with_source*`       → `parseWord`, `wordGo`
* `word_piece`         = dq / sq / (`$'`, `$"`: unsup) / dollar piece / `\c` / literal   → `wordGo`
* `double_quoted_sequence`, `double_quoted_word_piece`, `double_quoted_escape_sequence`
  (`\` before `$` backquote `"` `\` only), `double_quote_body_text`                      → `dqGo`, `dqRun`
* `single_quoted_literal_text`                                                           → `takeUntil`
* `normal_escape_sequence` (`\` + any one character), `unquoted_literal_text`            → `litRun`
* `dollar_sign_word_piece`: `$((`plain`))`, `$(`plain`)`, `${param}`, `${param OP word}` with
  OP ∈ `:- - := = :? ? :+ + % %% # ##` and `word` = `word(<['}']>)` kept as source text,
  `$1`..`$9`, `$@ $* $# $? $- $$ $! $0`, `$name`, and the fallback `$` → `Text("$")`     → `dollar`
* `tilde_expression` (`~`, `~+`, `~-`, `~+N`, `~N`, `~-N`, `~user` before `/ : ; }` or the end) → `tildePrefix`
* `position!()` : a position is the byte length of the input minus that of the remaining input → `tot - blen rest`.

Outside the fragment (`unsup`): backquotes, `$'…'`, `$"…"`, `$[…]`, command/arithmetic bodies with anything but
plain characters, `${#…}`, `${!…}`, `${-…}`, indices, substring/replace/case/transform operators, an inner word that
does not end at `}`.
-/
namespace BrushVerif.WordParse
open BrushVerif.Wire

inductive Res (α : Type) where
  | ok (a : α)
  | err
  | unsup
deriving Repr, DecidableEq

inductive Prm where
  | named (n : Str)
  | pos (k : Nat)
  | special (c : Char)
deriving Repr, DecidableEq

inductive Tilde where
  | home | pwd | oldpwd
  | user (u : Str)
  | top (n : Nat) (plus : Bool)
  | bot (n : Nat)
deriving Repr, DecidableEq

/-- A piece that contains no other pieces. -/
inductive Atom where
  | text (s : Str)
  | sq (s : Str)
  | esc (s : Str)                 -- the whole sequence, backslash included (as brush stores it)
  | tilde (t : Tilde)
  | param (p : Prm)               -- `$p`, `${p}`
  | paramOp (p : Prm) (colon : Bool) (op : Str) (w : Str)   -- `${p[:]OP w}`, `w` as source text
  | cmd (s : Str)
  | arith (s : Str)
deriving Repr, DecidableEq

structure SA where
  a : Atom
  s : Nat
  e : Nat
deriving Repr, DecidableEq

inductive Piece where
  | atom (a : Atom)
  | dq (inner : List SA)
deriving Repr, DecidableEq

/-- `WordPieceWithSource`. -/
structure SP where
  p : Piece
  s : Nat
  e : Nat
deriving Repr, DecidableEq

/-- UTF-8 byte length. -/
def blen : Str → Nat
  | [] => 0
  | c :: cs => c.utf8Size + blen cs

def isDigit (c : Char) : Bool := '0' ≤ c ∧ c ≤ '9'
def isAlpha (c : Char) : Bool := ('a' ≤ c ∧ c ≤ 'z') ∨ ('A' ≤ c ∧ c ≤ 'Z')
def isNameChar (c : Char) : Bool := isAlpha c || isDigit c || c = '_'
def isNameStart (c : Char) : Bool := isAlpha c || c = '_'
/-- Characters allowed in the opaque body of `$(…)` / `$((…))` in the fragment. -/
def isPlain (c : Char) : Bool :=
  isAlpha c || isDigit c || c = '_' || c = ' ' || c = '/' || c = '-' || c = '+' || c = '.' || c = ','
    || c = '=' || c = '%' || c.toNat ≥ 128
def isPortable (c : Char) : Bool := isAlpha c || isDigit c || c = '.' || c = '_' || c = '-'
def isTildeTerm (c : Char) : Bool := c = '/' || c = ':' || c = ';' || c = '}'

/-- Longest prefix satisfying `p`, and the rest. -/
def spanP (p : Char → Bool) : Str → Str × Str
  | [] => ([], [])
  | c :: cs => if p c then ((spanP p cs).1.cons c, (spanP p cs).2) else ([], c :: cs)

/-- Text before the first `q`, and the text after it. -/
def takeUntil (q : Char) : Str → Option (Str × Str)
  | [] => none
  | c :: cs => if c = q then some ([], cs) else
      match takeUntil q cs with
      | some (b, r) => some (c :: b, r)
      | none => none

def natOf (ds : Str) : Nat := ds.foldl (fun n c => n * 10 + (c.toNat - 48)) 0

/-- `unquoted_literal_text` after its first character: more characters that are not a quote, `$`, backquote,
the stop character, or a backslash that starts an escape sequence. -/
def litRun (stop : Bool) : Str → Str × Str
  | [] => ([], [])
  | c :: cs =>
    if c = '\'' || c = '"' || c = '$' || c = '`' || (stop && c = '}') || (c = '\\' && !cs.isEmpty) then ([], c :: cs)
    else ((litRun stop cs).1.cons c, (litRun stop cs).2)

def isDqEscapable (c : Char) : Bool := c = '$' || c = '`' || c = '"' || c = '\\'

/-- `double_quote_body_text` after its first character. -/
def dqRun : Str → Str × Str
  | [] => ([], [])
  | c :: cs =>
    if c = '"' || c = '$' || c = '`' then ([], c :: cs)
    else match c, cs with
      | '\\', d :: _ => if isDqEscapable d then ([], c :: cs) else ((dqRun cs).1.cons c, (dqRun cs).2)
      | _, _ => ((dqRun cs).1.cons c, (dqRun cs).2)

/-- `parameter()` inside braces, on the fragment: `some (p, rest)`; `none` = not in the fragment;
the caller has checked that the first character can start a parameter. -/
def bracedParam (s : Str) : Option (Prm × Str) :=
  match s with
  | [] => none
  | c :: r =>
    if isDigit c && c != '0' then
      let ds := spanP isDigit r
      if ds.1.length ≤ 7 then some (.pos (natOf (c :: ds.1)), ds.2) else none
    else if c = '@' || c = '*' || c = '?' || c = '$' || c = '0' then some (.special c, r)
    else if isNameStart c then
      let ns := spanP isNameChar r
      some (.named (c :: ns.1), ns.2)
    else none

/-- Can `c` start `parameter_indirection parameter`, `"#" parameter` or `"!" variable_name`? -/
def canStartBraced (c : Char) : Bool :=
  isNameChar c || c = '@' || c = '*' || c = '#' || c = '?' || c = '-' || c = '$' || c = '!'

/-- The operator after the parameter: `(colon, op, rest)`. -/
def bracedOp (s : Str) : Option (Bool × Str × Str) :=
  match s with
  | ':' :: c :: r => if c = '-' || c = '=' || c = '?' || c = '+' then some (true, [c], r) else none
  | '%' :: '%' :: r => some (false, ['%', '%'], r)
  | '#' :: '#' :: r => some (false, ['#', '#'], r)
  | c :: r => if c = '-' || c = '=' || c = '?' || c = '+' || c = '%' || c = '#' then some (false, [c], r) else none
  | [] => none

/-- `dollar_sign_word_piece` (and, inside double quotes, the same four alternatives), `s` = the input after `$`.
`skip w` finds the end of `word(<['}']>)` in `w`: the remaining input, which must start with `}`. -/
def dollar (skip : Str → Res Str) (inDq : Bool) (s : Str) : Res (Atom × Str) :=
  match s with
  | '\'' :: _ => .unsup
  | '[' :: _ => .unsup
  | '`' :: _ => .unsup
  | '"' :: _ => if inDq then .ok (.text ['$'], s) else .unsup
  | '(' :: '(' :: r =>
    match (spanP isPlain r).2 with
    | ')' :: ')' :: r' => .ok (.arith (spanP isPlain r).1, r')
    | _ => .unsup
  | '(' :: r =>
    match (spanP isPlain r).2 with
    | ')' :: r' => .ok (.cmd (spanP isPlain r).1, r')
    | [] => .ok (.text ['$'], s)
    | _ => .unsup
  | '{' :: r =>
    match r with
    | [] => .ok (.text ['$'], s)
    | c :: _ =>
      if !canStartBraced c then .ok (.text ['$'], s) else
      match bracedParam r with
      | none => .unsup
      | some (p, q) =>
        match q with
        | '}' :: q' => .ok (.param p, q')
        | _ =>
          match bracedOp q with
          | none => .unsup
          | some (colon, op, w) =>
            match skip w with
            | .ok ('}' :: q') => .ok (.paramOp p colon op (w.take (w.length - (q'.length + 1))), q')
            | _ => .unsup
  | c :: r =>
    if isDigit c && c != '0' then .ok (.param (.pos (c.toNat - 48)), r)
    else if c = '@' || c = '*' || c = '#' || c = '?' || c = '-' || c = '$' || c = '!' || c = '0' then
      .ok (.param (.special c), r)
    else if isNameChar c then
      .ok (.param (.named (c :: (spanP isNameChar r).1)), (spanP isNameChar r).2)
    else .ok (.text ['$'], s)
  | [] => .ok (.text ['$'], s)

/-- `double_quoted_word_piece` at `c :: r` (`c` is not the closing quote). -/
def dqOne (skip : Str → Res Str) (c : Char) (r : Str) : Res (Atom × Str) :=
  if c = '`' then .unsup
  else if c = '$' then dollar skip true r
  else match c, r with
    | '\\', d :: r' => if isDqEscapable d then .ok (.esc [c, d], r') else .ok (.text (c :: (dqRun r).1), (dqRun r).2)
    | _, _ => .ok (.text (c :: (dqRun r).1), (dqRun r).2)

/-- `double_quoted_sequence_inner* "\""`, `s` = the input after the opening quote. -/
def dqGo (skip : Str → Res Str) (tot : Nat) : Nat → Str → Res (List SA × Str)
  | 0, _ => .unsup
  | _ + 1, [] => .err
  | k + 1, c :: r =>
    if c = '"' then .ok ([], r) else
    match dqOne skip c r with
    | .ok (a, r') =>
      match dqGo skip tot k r' with
      | .ok (as, r'') => .ok (⟨a, tot - blen (c :: r), tot - blen r'⟩ :: as, r'')
      | .err => .err
      | .unsup => .unsup
    | .err => .err
    | .unsup => .unsup

/-- `word_piece(stop)` at `c :: r` (`c` is not the stop character). -/
def wordOne (skip : Str → Res Str) (stop : Bool) (tot : Nat) (c : Char) (r : Str) : Res (Piece × Str) :=
  if c = '"' then
    match dqGo skip tot (r.length + 1) r with
    | .ok (as, r') => .ok (.dq as, r')
    | .err => .err
    | .unsup => .unsup
  else if c = '\'' then
    match takeUntil '\'' r with
    | some (b, r') => .ok (.atom (.sq b), r')
    | none => .err
  else if c = '$' then
    match dollar skip false r with
    | .ok (a, r') => .ok (.atom a, r')
    | .err => .err
    | .unsup => .unsup
  else if c = '`' then .unsup
  else match c, r with
    | '\\', d :: r' => .ok (.atom (.esc [c, d]), r')
    | _, _ => .ok (.atom (.text (c :: (litRun stop r).1)), (litRun stop r).2)

/-- `word_piece_with_source(stop)*`; the remaining input is returned (`[]`, or starting with `}` when `stop`;
a piece that cannot be parsed is `err`, as the caller then fails too). -/
def wordGo (skip : Str → Res Str) (stop : Bool) (tot : Nat) : Nat → Str → Res (List SP × Str)
  | 0, _ => .unsup
  | _ + 1, [] => .ok ([], [])
  | k + 1, c :: r =>
    if stop && c = '}' then .ok ([], c :: r) else
    match wordOne skip stop tot c r with
    | .ok (p, r') =>
      match wordGo skip stop tot k r' with
      | .ok (ps, r'') => .ok (⟨p, tot - blen (c :: r), tot - blen r'⟩ :: ps, r'')
      | .err => .err
      | .unsup => .unsup
    | .err => .err
    | .unsup => .unsup

/-- The end of `word(<['}']>)`: nested `${…}` words are followed `n` levels deep. -/
def skipN : Nat → Str → Res Str
  | 0, _ => .unsup
  | n + 1, s =>
    match wordGo (skipN n) true (blen s) (s.length + 1) s with
    | .ok (_, r) => .ok r
    | .err => .err
    | .unsup => .unsup

/-- `&tilde_terminator()`. -/
def tildeTerm : Str → Bool
  | [] => true
  | c :: _ => isTildeTerm c

def tildeDigits (r : Str) : Bool :=
  !(spanP isDigit r).1.isEmpty && tildeTerm (spanP isDigit r).2 && (spanP isDigit r).1.length ≤ 15

def tildeUser (s : Str) : Option (Tilde × Str) :=
  if tildeTerm (spanP isPortable s).2 then some (.user (spanP isPortable s).1, (spanP isPortable s).2) else none

/-- `tilde_expression` followed by `&tilde_terminator()`, `s` = the input after `~`
(digit runs longer than 15 are excluded by the caller, `tildeTooLong`). -/
def tildeExpr (s : Str) : Option (Tilde × Str) :=
  if tildeTerm s then some (.home, s) else
  match s with
  | '+' :: r =>
    if tildeTerm r then some (.pwd, r)
    else if tildeDigits r then some (.top (natOf (spanP isDigit r).1) true, (spanP isDigit r).2) else none
  | '-' :: r =>
    if tildeTerm r then some (.oldpwd, r)
    else if tildeDigits r then some (.bot (natOf (spanP isDigit r).1), (spanP isDigit r).2)
    else tildeUser s
  | _ =>
    if tildeDigits s then some (.top (natOf (spanP isDigit s).1) false, (spanP isDigit s).2)
    else tildeUser s

/-- Digits too long for the model's `usize` guard are left outside the fragment. -/
def tildeTooLong (s : Str) : Bool :=
  match s with
  | '+' :: r => (spanP isDigit r).1.length > 15
  | '-' :: r => (spanP isDigit r).1.length > 15
  | _ => (spanP isDigit s).1.length > 15

/-- `word::parse(w, &ParserOptions::default())`. -/
def parseWord (w : Str) : Res (List SP) :=
  let tot := blen w
  let skip := skipN (w.length + 1)
  let body (pre : List SP) (s : Str) : Res (List SP) :=
    match wordGo skip false tot (s.length + 1) s with
    | .ok (ps, _) => .ok (pre ++ ps)
    | .err => .err
    | .unsup => .unsup
  match w with
  | '~' :: r =>
    if tildeTooLong r then .unsup else
    match tildeExpr r with
    | some (t, r') => body [⟨.atom (.tilde t), 0, tot - blen r'⟩] r'
    | none => body [] w
  | _ => body [] w

/-! ### Rendering (what `tools/c04.py` and `tools/c05.py` write as shell text for a piece list) -/

def renderPrm : Prm → Str
  | .named n => n
  | .pos k => (toString k).toList
  | .special c => [c]

def renderTilde : Tilde → Str
  | .home => [] | .pwd => ['+'] | .oldpwd => ['-']
  | .user u => u
  | .top n plus => (if plus then ['+'] else []) ++ (toString n).toList
  | .bot n => '-' :: (toString n).toList

def renderAtom : Atom → Str
  | .text s => s
  | .sq s => '\'' :: s ++ ['\'']
  | .esc s => s
  | .tilde t => '~' :: renderTilde t
  | .param p => '$' :: '{' :: renderPrm p ++ ['}']
  | .paramOp p colon op w => '$' :: '{' :: renderPrm p ++ (if colon then [':'] else []) ++ op ++ w ++ ['}']
  | .cmd s => '$' :: '(' :: s ++ [')']
  | .arith s => '$' :: '(' :: '(' :: s ++ [')', ')']

def renderPiece : Piece → Str
  | .atom a => renderAtom a
  | .dq inner => '"' :: (inner.flatMap fun x => renderAtom x.a) ++ ['"']

def renderWord (ps : List SP) : Str := ps.flatMap fun x => renderPiece x.p

/-! ### Canonical text (the wire format shared with `harness/src/bin/c04.rs`) -/

def natStr (n : Nat) : Str := (toString n).toList

def prmStr : Prm → Str
  | .named n => 'n' :: n
  | .pos k => 'p' :: natStr k
  | .special c => ['s', c]

def tildeStr : Tilde → Str
  | .home => "home".toList | .pwd => "pwd".toList | .oldpwd => "oldpwd".toList
  | .user u => "user:".toList ++ u
  | .top n plus => "top:".toList ++ natStr n ++ (if plus then ":+".toList else ":.".toList)
  | .bot n => "bot:".toList ++ natStr n

def atomStr (a : Atom) (s e : Nat) : Str :=
  let f (tag : Char) (payload : Str) : Str := tag :: ' ' :: natStr s ++ ' ' :: natStr e ++ ' ' :: esc payload
  match a with
  | .text t => f 'T' t
  | .sq t => f 'Q' t
  | .esc t => f 'E' t
  | .tilde t => f 'H' (tildeStr t)
  | .param p => f 'P' (prmStr p)
  | .paramOp p colon op w => f 'O' (prmStr p ++ '|' :: (if colon then ':' else '.') :: op ++ '|' :: w)
  | .cmd t => f 'C' t
  | .arith t => f 'A' t

def spStr (x : SP) : Str :=
  match x.p with
  | .atom a => atomStr a x.s x.e
  | .dq inner =>
    "D ".toList ++ natStr x.s ++ ' ' :: natStr x.e ++ " [".toList
      ++ (inner.flatMap fun y => ' ' :: atomStr y.a y.s y.e) ++ " ]".toList

def resStr : Res (List SP) → Str
  | .ok ps => "OK".toList ++ ps.flatMap fun x => ' ' :: spStr x
  | .err => "ERR".toList
  | .unsup => "UNSUPPORTED".toList

end BrushVerif.WordParse
