import BrushVerif.Model.Wire
/-!
# Checked integer / index arithmetic of brush's hot spots (C01)

The dev-profile binary panics on integer overflow, on `unwrap` of `Err`/`None` and on slices out of
range; the release binary wraps silently.  Both are defects for C01, so every `usize`/`i64`/`u32`
operation that the Rust code writes with a *plain* operator (`-`, `+`, `*`, slicing, `unwrap`) is
modelled here by a checked function returning `Except Panic _`; the operations written with
`wrapping_*`/`min`/`as` casts are modelled by total functions.

Hot spots, line for line:

* `clampOff`, `clampEnd`, `substrBounds`, `subsliceStr`, `subsliceArr` — `${v:o:l}`: brush-core/src/expansion.rs
  `ParameterExpr::Substring` arm (clamping) and `Expansion::polymorphic_subslice`;
* `indexKey` — brush-core/src/variables.rs `get_key_for_indexed_array`;
* `braceNumber` — brush-parser/src/word.rs rule `number()` (`n.parse::<i64>()`, the rule fails when out of range);
* `numSeq`, `charSeq` — brush-core/src/braceexpansion.rs `expand_brace_expr_member`;
* `histSkip` — brush-builtins/src/history.rs `display_history` (`item_count.saturating_sub(max_entries)`);
* `loopLevels`, `decr`, `forLoop`, `nest3` — brush-builtins/src/{break_,continue_}.rs,
  brush-core/src/results.rs `try_decrement_loop_levels`, the `for` loop of brush-core/src/interp.rs.

Every function is total (structural recursion or an explicit measure): a Rust loop that would
never come back would have to be an explicit outcome, `Panic.hang` (none of the modelled loops is
one any more since the repair of the character sequences).
-/
namespace BrushVerif.Checked
open BrushVerif.Wire

/-- how a dev-profile run dies (the payload of the panic message, or no return at all) -/
inductive Panic
  | subOverflow   -- "attempt to subtract with overflow"
  | addOverflow   -- "attempt to add with overflow"
  | mulOverflow   -- "attempt to multiply with overflow"
  | unwrapErr     -- `Result::unwrap()` on an `Err` value / `Option::unwrap()` on `None`
  | sliceRange    -- slice index out of range
  | hang          -- the loop makes no progress: never returns (allocates without bound)
  deriving DecidableEq, Repr

abbrev Ck := Except Panic

def I64_MIN : Int := -9223372036854775808
def I64_MAX : Int := 9223372036854775807
def USIZE_MAX : Nat := 18446744073709551615

def inI64 (x : Int) : Bool := I64_MIN ≤ x && x ≤ I64_MAX

/-- `a + b` on `i64` in a build with overflow checks -/
def i64Add (a b : Int) : Ck Int := if inI64 (a + b) then .ok (a + b) else .error .addOverflow
def i64Sub (a b : Int) : Ck Int := if inI64 (a - b) then .ok (a - b) else .error .subOverflow
def i64Mul (a b : Int) : Ck Int := if inI64 (a * b) then .ok (a * b) else .error .mulOverflow
/-- `a - b` on `usize`/`u32` -/
def usizeSub (a b : Nat) : Ck Nat := if b ≤ a then .ok (a - b) else .error .subOverflow
def usizeAdd (a b : Nat) : Ck Nat := if a + b ≤ USIZE_MAX then .ok (a + b) else .error .addOverflow

/-- `x as usize` / `x as u64` for an `i64` -/
def asUsize (x : Int) : Nat := (x % 18446744073709551616).toNat
/-- `n as i64` for a `usize` -/
def asI64 (n : Nat) : Int :=
  let m := n % 18446744073709551616
  if m < 9223372036854775808 then (m : Int) else (m : Int) - 18446744073709551616
/-- `n as u32` -/
def asU32 (n : Nat) : Nat := n % 4294967296
/-- `i64::unsigned_abs` -/
def unsignedAbs (x : Int) : Nat := x.natAbs

/-! ## `${v:offset:length}` -/

/-- The clamping in the `Substring` arm: from the parameter's length (`polymorphic_len`, chars or
elements), the evaluated offset and the evaluated length to the `(index, end)` pair handed to
`polymorphic_subslice` (both after `as usize`). -/
def clampOff (plenI off : Int) : Ck Int :=
  if off < 0 then
    (match i64Add off plenI with
     | .ok o => .ok (if o < 0 then plenI else o)
     | .error e => .error e)
  else .ok off

/-- `offset_out_of_range`: `off > len || (off < 0 && off + len < 0)` -/
def offOutOfRange (plenI off : Int) : Ck Bool :=
  if off > plenI then .ok true
  else if off < 0 then
    (match i64Add off plenI with
     | .ok s => .ok (decide (s < 0))
     | .error e => .error e)
  else .ok false

/-- the end offset; `none` = the declared error "substring expression < 0" (a negative length on a
list, or one that ends before the start offset).  `pre` = `offset_out_of_range || undefined`;
together with "a list (not `$@`) sliced at its very end" it means the offset selects nothing, and
then a negative length is accepted. -/
def clampEnd (fromArray positional pre : Bool) (plenI off2 : Int) (len : Option Int) : Ck (Option Int) :=
  match len with
  | none => .ok (some plenI)
  | some l =>
    if l < 0 then
      (match i64Add plenI l with
       | .error e => .error e
       | .ok end_ =>
         if pre || (fromArray && !positional && decide (off2 = plenI)) then .ok (some plenI)
         else if fromArray || decide (end_ < off2) then .ok none
         else .ok (some end_))
    else
      (match i64Sub plenI off2 with
       | .error e => .error e
       | .ok d =>
         match i64Add off2 (min l d) with
         | .error e => .error e
         | .ok end_ => .ok (some end_))

/-- `fromArray`: the parameter is a list (`${a[@]…}`, `${@…}`); `positional`: it is `$@`/`$*`
(then `$0` was put in front); `undefined`: the parameter is unset -/
def substrBounds (fromArray positional undefined : Bool) (plen : Nat) (off : Int) (len : Option Int) :
    Ck (Option (Nat × Nat)) :=
  let plenI := asI64 plen
  match offOutOfRange plenI off with
  | .error e => .error e
  | .ok oo =>
    match clampOff plenI off with
    | .error e => .error e
    | .ok off1 =>
      let off2 := min off1 plenI
      match clampEnd fromArray positional (oo || undefined) plenI off2 len with
      | .error e => .error e
      | .ok none => .ok none
      | .ok (some endOff) => .ok (some (asUsize off2, asUsize endOff))

/-- the piece loop of `polymorphic_subslice` (string case) over the pieces of one field:
`dist` characters still to skip, `left` characters still to copy -/
def sliceLoop : List Str → Nat → Nat → Ck (List Str)
  | [], _, _ => pure []
  | p :: ps, dist, left =>
    if left = 0 then pure []
    else
      let cnt := p.length
      if dist ≥ cnt then do
        let dist' ← usizeSub dist cnt
        sliceLoop ps dist' left
      else do
        let avail ← usizeSub cnt dist
        let take := min left avail
        let left' ← usizeSub left take
        let rest ← sliceLoop ps 0 left'
        pure (((p.drop dist).take take) :: rest)

/-- `polymorphic_subslice`, string case (one field of pieces; the result's pieces) -/
def subsliceStr (pieces : List Str) (index end_ : Nat) : Ck (List Str) := do
  let len ← usizeSub end_ index
  sliceLoop pieces index len

/-- `polymorphic_subslice`, array case: `self.fields[index..index + min(len, fields.len() - index)]` -/
def subsliceArr {α : Type} (fields : List α) (index end_ : Nat) : Ck (List α) := do
  let len ← usizeSub end_ index
  let room ← usizeSub fields.length index
  let actual := min len room
  let hi ← usizeAdd index actual
  if index ≤ hi ∧ hi ≤ fields.length then pure ((fields.drop index).take actual)
  else .error .sliceRange

/-- `"${x:off:len}"` for a scalar holding `s` (`polymorphic_len` counts characters);
`none` = the declared error -/
def substring (s : Str) (off : Int) (len : Option Int) : Ck (Option Str) :=
  match substrBounds false false false s.length off len with
  | .error e => .error e
  | .ok none => .ok none
  | .ok (some (i, e)) =>
    match subsliceStr [s] i e with
    | .error e => .error e
    | .ok ps => .ok (some ps.flatten)

/-- `"${a[@]:off:len}"` / `"${@:off:len}"` for the element list `xs` (for `$@` the caller puts `$0` first) -/
def subarray {α : Type} (positional : Bool) (xs : List α) (off : Int) (len : Option Int) : Ck (Option (List α)) :=
  match substrBounds true positional false xs.length off len with
  | .error e => .error e
  | .ok none => .ok none
  | .ok (some (i, e)) =>
    match subsliceArr xs i e with
    | .error e => .error e
    | .ok r => .ok (some r)

/-! ## array subscripts -/

/-- `get_key_for_indexed_array`: `idx` is the subscript already parsed as `i64`
(`index_str.parse::<i64>().unwrap_or(0)`), `alen` the number of elements.
`none` = the declared error `ArrayIndexOutOfRange`. -/
def indexKey (alen : Nat) (idx : Int) : Ck (Option Nat) :=
  if idx < 0 then do
    let v ← i64Add idx (asI64 alen)
    pure (if v < 0 then none else some (asUsize v))
  else pure (some (asUsize idx))

/-! ## brace expansion -/

/-- rule `number()`: `sign? digits` parsed as one `i64`; `none` = the rule fails (the braces are then
not a sequence expression and the word stays literal text) -/
def braceNumber (neg : Bool) (digits : Nat) : Option Int :=
  let v : Int := if neg then -(digits : Int) else digits
  if inI64 v then some v else none

/-- the increment as all four arms use it: `unsigned_abs().max(1)` (a `u64`) -/
def stepOf (inc : Int) : Nat := max (unsignedAbs inc) 1

/-- ascending `(start..=end).step_by(step)`: `start, start+step, … ≤ end` (`Step::forward_checked`
ends the iteration where the next value would not fit) -/
def ascFrom (n end_ : Int) (inc : Nat) : List Int :=
  if h : 0 < inc ∧ n ≤ end_ then n :: ascFrom (n + inc) end_ inc else []
termination_by (end_ - n + 1).toNat
decreasing_by omega

/-- descending `successors(Some(start), |n| { let next = i64::try_from(i128::from(n) - i128::from(step)).ok()?;
(next >= end).then_some(next) })`, after `start` has been produced: the difference is taken in
`i128` (no overflow), a value that leaves `i64` or passes `end` ends the sequence -/
def descFrom (n end_ : Int) (inc : Nat) : List Int :=
  if h : 0 < inc ∧ inI64 (n - inc) = true ∧ n - inc ≥ end_ then (n - inc) :: descFrom (n - inc) end_ inc
  else []
termination_by (n - end_ + 1).toNat
decreasing_by omega

/-- `NumberSequence { start, end, increment }` -/
def numSeq (start end_ inc : Int) : List Int :=
  if start ≤ end_ then ascFrom start end_ (stepOf inc)
  else start :: descFrom start end_ (stepOf inc)

/-- number of words of a numeric sequence as rule `brace_sequence_expr()` computes it (in `i128`):
`|end - start| / max(|increment|, 1) + 1` -/
def seqCount (start end_ inc : Int) : Nat :=
  (end_ - start).natAbs / stepOf inc + 1

/-- `INT_MAX - 2`: a numeric sequence with more elements is not a sequence expression (the rule
fails and the braces stay literal text), as in bash -/
def SEQ_LIMIT : Nat := 2147483645

def seqAccepted (start end_ inc : Int) : Bool := seqCount start end_ inc ≤ SEQ_LIMIT

/-- ascending char range over code points (letters only reach here: no surrogate gap below 0xD800) -/
def ascChars (c end_ inc : Nat) : List Nat :=
  if h : 0 < inc ∧ c ≤ end_ then c :: ascChars (c + inc) end_ inc else []
termination_by end_ + 1 - c
decreasing_by omega

def isScalarValue (n : Nat) : Bool := n < 0xD800 || (0xE000 ≤ n && n ≤ 0x10FFFF)

/-- `u32::try_from(step).unwrap_or(u32::MAX)` -/
def stepU32 (step : Nat) : Nat := if step < 4294967296 then step else 4294967295

/-- descending `successors(Some(start), |c| { let next = char::from_u32(u32::from(c).checked_sub(step)?)?;
(next >= end).then_some(next) })` after `start` has been produced -/
def descChars (c end_ inc : Nat) : List Nat :=
  if h : 0 < inc ∧ inc ≤ c ∧ isScalarValue (c - inc) = true ∧ c - inc ≥ end_ then
    (c - inc) :: descChars (c - inc) end_ inc
  else []
termination_by c
decreasing_by omega

/-- `CharSequence { start, end, increment }` on code points -/
def charSeq (start end_ : Nat) (inc : Int) : List Nat :=
  if start ≤ end_ then ascChars start end_ (stepOf inc)
  else start :: descChars start end_ (stepU32 (stepOf inc))

/-! ## `&` in completion filters (`replace_unescaped_ampersands`, brush-core/src/completion.rs)

Rust strings are addressed by *byte* offsets, and `String::replace_range` panics when an end of the
range is past the end or not on a character boundary.  Strings are modelled as `List Char`; a byte
offset is valid exactly when it is the UTF-8 length of a prefix. -/

def utf8Len (s : Str) : Nat := (s.map Char.utf8Size).sum

/-- split `s` at byte offset `i`; `none` when `i` is past the end or inside a character -/
def splitAtByte : Str → Nat → Option (Str × Str)
  | s, 0 => some ([], s)
  | [], _ + 1 => none
  | c :: cs, i + 1 =>
    if c.utf8Size ≤ i + 1 then (splitAtByte cs (i + 1 - c.utf8Size)).map (fun (a, b) => (c :: a, b)) else none

/-- `s.replace_range(i..=i, r)`: both `i` and `i + 1` must be character boundaries inside `s` -/
def replaceRange1 (s : Str) (i : Nat) (r : Str) : Ck Str :=
  match splitAtByte s i with
  | none => .error .sliceRange
  | some (_, []) => .error .sliceRange
  | some (pre, c :: post) => if c.utf8Size = 1 then .ok (pre ++ r ++ post) else .error .sliceRange

/-- the first loop: byte offsets of the `&` that are not escaped by a backslash
(`off` = bytes already passed, `esc` = the previous character was an unescaped backslash) -/
def ampOffsets : Str → Nat → Bool → List Nat
  | [], _, _ => []
  | c :: cs, off, esc =>
    let rest := ampOffsets cs (off + c.utf8Size) (!esc && c == '\\')
    if !esc && c == '&' then off :: rest else rest

/-- the second loop: `for i in insertion_points.iter().rev() { result.replace_range(*i..=*i, replacement) }`
— the offsets were taken from the original pattern and are applied to the copy being modified, last first -/
def applyRev : List Nat → Str → Str → Ck Str
  | [], s, _ => .ok s
  | i :: is, s, r =>
    match applyRev is s r with
    | .ok s' => replaceRange1 s' i r
    | .error e => .error e

def replaceAmpersands (pattern replacement : Str) : Ck Str :=
  applyRev (ampOffsets pattern 0 false) pattern replacement

/-- what the function is for: every unescaped `&` stands for the word being completed -/
def substAmp : Str → Bool → Str → Str
  | [], _, _ => []
  | c :: cs, esc, r =>
    let rest := substAmp cs (!esc && c == '\\') r
    if !esc && c == '&' then r ++ rest else c :: rest

/-! ## `history N` -/

/-- `display_history`: `item_count.saturating_sub(max_entries.unwrap_or(item_count))` -/
def histSkip (count : Nat) (maxEntries : Option Nat) : Nat := count - maxEntries.getD count

/-! ## `break N` / `continue N` -/

inductive Conv
  | claperr            -- outside `i8`: clap rejects the argument (status 2)
  | usage              -- `which_loop <= 0`: status 2, nothing happens
  | levels (k : Nat)   -- `BreakLoop { levels: (which_loop - 1) as usize }`
  deriving DecidableEq, Repr

/-- the argument conversion of the `break`/`continue` builtins -/
def loopLevels (n : Int) : Ck Conv :=
  if n < -128 ∨ n > 127 then pure .claperr
  else if n ≤ 0 then pure .usage
  else do
    -- `self.which_loop - 1` on `i8`
    let k ← (if -128 ≤ n - 1 then Except.ok (n - 1) else Except.error Panic.subOverflow)
    pure (.levels (asUsize k))

inductive Flow
  | normal | brk (k : Nat) | cont (k : Nat)
  deriving DecidableEq, Repr

/-- `ExecutionControlFlow::try_decrement_loop_levels` (`*levels - 1` is reached only for `levels ≥ 1`) -/
def decr : Flow → Ck Flow
  | .brk 0 => pure .normal
  | .cont 0 => pure .normal
  | .brk k => do let k' ← usizeSub k 1; pure (.brk k')
  | .cont k => do let k' ← usizeSub k 1; pure (.cont k')
  | .normal => pure .normal

def Flow.isBrk : Flow → Bool | .brk _ => true | _ => false
def Flow.isCont : Flow → Bool | .cont _ => true | _ => false

/-- the `for` loop of interp.rs over `iters` remaining values -/
def forLoop : Nat → (Str → Ck (Str × Flow)) → Str → Ck (Str × Flow)
  | 0, _, r => pure (r, .normal)
  | n + 1, body, r => do
    let (r1, fl) ← body r
    let fl' ← decr fl
    -- `is_break` is taken before the decrement, `is_continue` after it
    if fl.isBrk || fl'.isCont then pure (r1, fl') else forLoop n body r1

/-- a command list `first; then mark` : the mark is appended only when `first` ended normally -/
def thenMark (x : Ck (Str × Flow)) (c : Char) : Ck (Str × Flow) := do
  let (r, fl) ← x
  match fl with
  | .normal => pure (r ++ [c], .normal)
  | _ => pure (r, fl)

/-- the three nested two-round loops of the LOOP correspondence op:
`for i; do for j; do for k; do r+=k; <kw> N; s=$?; r+=K; done; r+=J; done; r+=I; done`.
Returns the trace and whether `s=$?` ran (it does exactly when the builtin did not change the flow). -/
def nest3Trace (fl : Flow) : Ck (Str × Flow) :=
  let inner : Str → Ck (Str × Flow) := fun r => thenMark (pure (r ++ ['k'], fl)) 'K'
  let mid : Str → Ck (Str × Flow) := fun r => thenMark (forLoop 2 inner r) 'J'
  let outer : Str → Ck (Str × Flow) := fun r => thenMark (forLoop 2 mid r) 'I'
  forLoop 2 outer []

def flowOf (isBreak : Bool) : Conv → Flow
  | .levels k => if isBreak then .brk k else .cont k
  | _ => .normal

def ranStatus : Conv → Bool
  | .levels _ => false
  | _ => true

def nest3 (isBreak : Bool) (n : Int) : Ck (Str × Bool) :=
  match loopLevels n with
  | .error e => .error e
  | .ok conv =>
    match nest3Trace (flowOf isBreak conv) with
    | .error e => .error e
    | .ok (r, _) => .ok (r, ranStatus conv)

end BrushVerif.Checked
