import BrushVerif.Model.Wire
/-!
# Model of brush's command history (C20)

Mirrors `brush-core/src/history.rs` (`History::{import, add, remove_nth_item, clear, flush}`),
`brush-core/src/shell/history.rs` (`add_to_history`, `save_history`) and the `history` builtin's
`-a -w -c -d -s` (brush-builtins/src/history.rs).  The history file is a flat character sequence.
-/
namespace BrushVerif.History
open BrushVerif.Wire

structure Item where
  cmd   : Str
  ts    : Option Int
  dirty : Bool
  deriving Repr, DecidableEq

abbrev Hist := List Item          -- oldest first (ids only name positions; not observable in the file)

/-- Rust `char::is_whitespace` (Unicode White_Space). -/
def isWs (c : Char) : Bool :=
  let n := c.toNat
  (9 ≤ n && n ≤ 13) || n = 0x20 || n = 0x85 || n = 0xA0 || n = 0x1680 ||
  (0x2000 ≤ n && n ≤ 0x200A) || n = 0x2028 || n = 0x2029 || n = 0x202F || n = 0x205F || n = 0x3000

def trimStart (s : Str) : Str := s.dropWhile isWs
def trimEnd (s : Str) : Str := (s.reverse.dropWhile isWs).reverse
def trim (s : Str) : Str := trimEnd (trimStart s)

/-- `BufRead::lines`: split at '\n', drop one trailing '\r' of each line, no final empty line. -/
def stripCr (l : Str) : Str :=
  match l.reverse with
  | '\r' :: r => r.reverse
  | _ => l

def rawLines (s : Str) : List Str :=
  let parts := splitOnChar '\n' s
  -- a trailing newline yields a final empty part that `lines()` does not report
  match parts.reverse with
  | [] :: r => r.reverse
  | _ => parts

def fileLines (s : Str) : List Str := (rawLines s).map stripCr

/-- `str::parse::<i64>` -/
def parseI64 (s : Str) : Option Int :=
  match parseInt? s with
  | some v => if -9223372036854775808 ≤ v ∧ v ≤ 9223372036854775807 then some v else none
  | none => none

/-- `chrono::DateTime::from_timestamp(secs, 0)` -/
def fromTimestamp (secs : Int) : Option Int :=
  if -8334601228800 ≤ secs ∧ secs ≤ 8210266876799 then some secs else none

/-- `History::import`'s loop body over the already decoded lines. -/
def importGo : Option Int → List Str → Hist
  | _, [] => []
  | next, l :: ls =>
    match l with
    | '#' :: comment =>
      match parseI64 (trim comment) with
      | some secs => importGo (fromTimestamp secs) ls
      | none => importGo none ls
    | _ => { cmd := l, ts := next, dirty := false } :: importGo none ls

def importFile (file : Str) : Hist := importGo none (fileLines file)

/-- `Shell::add_to_history` (trim; empty discarded), with the time of recording. -/
def addToHistory (h : Hist) (command : Str) (now : Int) : Hist :=
  let c := trim command
  if c.isEmpty then h else h ++ [{ cmd := c, ts := some now, dirty := true }]

/-- `history -s args…` (`Item::new(args.join(" "))`): no trimming. -/
def addRaw (h : Hist) (command : Str) (now : Int) : Hist :=
  h ++ [{ cmd := command, ts := some now, dirty := true }]

def removeNth (h : Hist) (n : Nat) : Hist := h.eraseIdx n

/-- result of `history -d OFFSET` -/
def deleteOffset (h : Hist) (offset : Int) : Hist :=
  if offset = 0 then h
  else if offset > 0 then removeNth h (offset - 1).toNat
  else
    let idx := (Int.ofNat h.length) + offset
    if idx < 0 then h else removeNth h idx.toNat

def itemLines (writeTs : Bool) (i : Item) : Str :=
  (match writeTs, i.ts with
   | true, some t => '#' :: intToStr t ++ ['\n']
   | _, _ => []) ++ i.cmd ++ ['\n']

/-- `History::flush`.  Written items are marked saved **only** when `unsavedOnly` (as the code
has it; bash behaves the same way, and the repository's compat tests pin it). -/
def flush (h : Hist) (file : Str) (append unsavedOnly writeTs : Bool) : Hist × Str :=
  let written := h.filter (fun i => !unsavedOnly || i.dirty)
  let text := written.flatMap (itemLines writeTs)
  let h' := if unsavedOnly then h.map (fun i => { i with dirty := false }) else h
  (h', (if append then file else []) ++ text)

/-- One shell process (a session) attached to one history file. -/
structure St where
  file : Str
  hist : Hist
  tsOn : Bool      -- HISTTIMEFORMAT set
  deriving Repr

inductive Op where
  | add (c : Str)        -- interactive command line recorded by the shell
  | addS (c : Str)       -- `history -s c`
  | saveA                -- `history -a` / `save_history`
  | saveW                -- `history -w`
  | exitNew              -- session ends (saves) and a new session starts on the same file
  | killNew              -- session dies without saving; a new one starts
  | del (offset : Int)   -- `history -d offset`
  | clear                -- `history -c`
  | toggleTs
  | setFile (f : Str)    -- external edit of the file (test seeding only)
  deriving Repr

def nowTs : Int := 4000000000

def step (s : St) : Op → St
  | .add c => { s with hist := addToHistory s.hist c nowTs }
  | .addS c => { s with hist := addRaw s.hist c nowTs }
  | .saveA => let r := flush s.hist s.file true true s.tsOn; { s with hist := r.1, file := r.2 }
  | .saveW => let r := flush s.hist s.file false false s.tsOn; { s with hist := r.1, file := r.2 }
  | .exitNew =>
    let r := flush s.hist s.file true true s.tsOn
    { file := r.2, hist := importFile r.2, tsOn := false }
  | .killNew => { s with hist := importFile s.file, tsOn := false }
  | .del off => { s with hist := deleteOffset s.hist off }
  | .clear => { s with hist := [] }
  | .toggleTs => { s with tsOn := !s.tsOn }
  | .setFile f => { s with file := f }

def init : St := { file := [], hist := [], tsOn := false }

def run (s : St) (ops : List Op) : St := ops.foldl step s

/-- the command lines of a history file: everything that is not a `#` comment line -/
def cmdLines (file : Str) : List Str :=
  (fileLines file).filter (fun l => match l with | '#' :: _ => false | _ => true)

end BrushVerif.History
