import BrushVerif.Model.Arith
/-!
# Model of brush's arithmetic parser (C07)

Mirrors `brush-parser/src/arithmetic.rs`.  The grammar's `precedence!{}` block is a *table*; the
engine below is the algorithm the `peg` crate (0.8.6, `peg-macros/translate.rs`,
`Expr::Precedence`) generates for such a block, parameterised by the table (`Gen/ArithLevels.lean`
is regenerated from the Rust source on every run):

* every operator whose first element is not `@` is a *prefix/atom rule*; all of them are tried in
  table order wherever an operand is expected, **whatever the current minimum level** (so
  `lvalue "=" …` — an assignment — is accepted as an operand of any operator);
* operators that start with `@` are *infix rules*, tried in table order among the levels
  `≥ min_prec` after an operand; `(@)`/`@` on the right decides the level the right operand is
  parsed at (`prec` or `prec+1`).

PEG semantics: ordered choice, greedy repetition, no backtracking into a successful sub-rule.
-/
namespace BrushVerif.Arith
open BrushVerif.Wire

inductive Entry
  /-- `x:(@) _ lex _ y:@` (rprec = 1, left assoc) or `x:@ _ lex _ y:(@)` (rprec = 0) -/
  | infixOp (lex : Str) (op : BinOp) (rprec : Nat)
  /-- `x:@ _ "?" _ y:expression() _ ":" _ z:(@)` -/
  | ternary (rprec : Nat)
  /-- `x:lvalue() _ lex _ y:(@)`; `op = none` is plain `=` -/
  | assignOp (lex : Str) (op : Option BinOp) (rprec : Nat)
  /-- `lex !("c" _ variable_name()) _ x:(@)` -/
  | prefixOp (lex : Str) (notNext : Option Char) (op : UnOp) (rprec : Nat)
  /-- `lex _ x:lvalue()` -/
  | preIncDec (lex : Str) (op : IncOp)
  /-- `x:lvalue() _ lex` -/
  | postIncDec (lex : Str) (op : IncOp)
  | literal
  | reference
  | paren
  deriving DecidableEq

abbrev Level := List Entry
abbrev Table := List Level

def Entry.isInfix : Entry → Bool
  | .infixOp .. => true
  | .ternary .. => true
  | _ => false

def withPrec (tb : Table) : List (Nat × Entry) :=
  (tb.zipIdx).flatMap (fun (lv, i) => lv.map (fun e => (i, e)))

/-- all prefix/atom rules, in table order (`pre_rules`) -/
def pres (tb : Table) : List (Nat × Entry) := (withPrec tb).filter (fun pe => !pe.2.isInfix)

/-- the infix rules of the levels `≥ m`, in table order (`level_code`) -/
def postsFrom (tb : Table) (m : Nat) : List (Nat × Entry) :=
  (withPrec tb).filter (fun pe => pe.2.isInfix && decide (m ≤ pe.1))

/-! ## lexical rules -/

def isWs (c : Char) : Bool := c = ' ' || c = '\t' || c = '\n' || c = '\r'
def skipWs (s : Str) : Str := s.dropWhile isWs

def stripPrefix : Str → Str → Option Str
  | [], s => some s
  | _ :: _, [] => none
  | p :: ps, c :: cs => if p = c then stripPrefix ps cs else none

def isNameStart (c : Char) : Bool := ('a' ≤ c && c ≤ 'z') || ('A' ≤ c && c ≤ 'Z') || c = '_'
def isDigit (c : Char) : Bool := '0' ≤ c && c ≤ '9'
def isNameChar (c : Char) : Bool := isNameStart c || isDigit c

/-- `variable_name()` -/
def parseName : Str → Option (Str × Str)
  | c :: cs => if isNameStart c then some (c :: cs.takeWhile isNameChar, cs.dropWhile isNameChar) else none
  | [] => none

def u64Max : Nat := 18446744073709551615
def i64Max : Nat := 9223372036854775807

def digitsVal (base : Nat) (s : Str) (f : Char → Nat) : Nat := s.foldl (fun acc c => acc * base + f c) 0

def decVal (c : Char) : Nat := c.toNat - 48
def hexDigitVal (c : Char) : Nat :=
  if isDigit c then c.toNat - 48 else if 'a' ≤ c && c ≤ 'f' then c.toNat - 87 else c.toNat - 55
def isHexDigit (c : Char) : Bool := isDigit c || ('a' ≤ c && c ≤ 'f') || ('A' ≤ c && c ≤ 'F')

def isRadixDigitChar (c : Char) : Bool := isNameChar c || c = '@'

/-- digit value in `parse_shell_literal_number` -/
def radixDigit (radix : Nat) (c : Char) : Option Nat :=
  if isDigit c then some (c.toNat - 48)
  else if 'a' ≤ c && c ≤ 'z' then some (c.toNat - 97 + 10)
  else if 'A' ≤ c && c ≤ 'Z' then some (if radix ≤ 36 then c.toNat - 65 + 10 else c.toNat - 65 + 36)
  else if radix ≤ 36 then none
  else if c = '@' then some 62
  else if c = '_' then some 63
  else none

/-- the digit loop of `parse_shell_literal_number` (wrapping) -/
def radixLoop (radix : Nat) : Str → Int64 → Option Int64
  | [], acc => some acc
  | c :: cs, acc =>
    match radixDigit radix c with
    | none => none
    | some dv => if dv ≥ radix then none else radixLoop radix cs (acc * Int64.ofNat radix + Int64.ofNat dv)

def parseShellLiteral (s : Str) (radix : Nat) : Option Int64 :=
  if 2 ≤ radix && radix ≤ 64 then radixLoop radix s 0 else none

/-- `decimal_literal()`: `[1-9][0-9]*`, accumulated with wrap-around (`parse_shell_literal_number(s, 10)`) -/
def parseDecimal : Str → Option (Int64 × Str)
  | c :: cs =>
    if '1' ≤ c && c ≤ '9' then
      (parseShellLiteral (c :: cs.takeWhile isDigit) 10).map (fun v => (v, cs.dropWhile isDigit))
    else none
  | [] => none

/-- `literal_number()`: four ordered alternatives; every one accumulates with wrap-around -/
def parseLiteral (s : Str) : Option (Int64 × Str) :=
  let alt1 : Option (Int64 × Str) :=
    match parseDecimal s with
    | some (radix, '#' :: rest) =>
      let ds := rest.takeWhile isRadixDigitChar
      if ds.isEmpty then none
      else (parseShellLiteral ds radix.toUInt64.toNat).map (fun v => (v, rest.dropWhile isRadixDigitChar))
    | _ => none
  let alt2 : Option (Int64 × Str) :=
    match s with
    | '0' :: x :: rest =>
      if x = 'x' || x = 'X' then
        -- the digit string may be empty: a bare `0x` is zero
        (parseShellLiteral (rest.takeWhile isHexDigit) 16).map (fun v => (v, rest.dropWhile isHexDigit))
      else none
    | _ => none
  let alt3 : Option (Int64 × Str) :=
    match s with
    | '0' :: rest =>
      -- `"0" ['0'..='8']*`: an `8` is consumed and then rejected as a digit of base 8
      (parseShellLiteral ('0' :: rest.takeWhile (fun c => '0' ≤ c && c ≤ '8')) 8).map
        (fun v => (v, rest.dropWhile (fun c => '0' ≤ c && c ≤ '8')))
    | _ => none
  alt1 <|> alt2 <|> alt3 <|> parseDecimal s

/-! ## the precedence-climbing engine -/

abbrev PR := Option (Expr × Str)

/-- `lvalue()`: `name "[" _ expression _ "]"` / `name`; `rec 0` is `expression()` -/
def parseLvalue (rec : Nat → Str → PR) (s : Str) : Option (Target × Str) :=
  match parseName s with
  | none => none
  | some (n, rest) =>
    match rest with
    | '[' :: r1 =>
      match rec 0 (skipWs r1) with
      | some (idx, r2) =>
        match skipWs r2 with
        | ']' :: r3 => some (.elem n idx, r3)
        | _ => some (.var n, rest)
      | none => some (.var n, rest)
    | _ => some (.var n, rest)

/-- one prefix/atom rule at level `prec` -/
def applyPre (rec : Nat → Str → PR) (prec : Nat) (ent : Entry) (s : Str) : PR :=
  match ent with
  | .assignOp lex op rprec =>
    match parseLvalue rec s with
    | none => none
    | some (t, r1) =>
      match stripPrefix lex (skipWs r1) with
      | none => none
      | some r2 =>
        match rec (prec + rprec) (skipWs r2) with
        | none => none
        | some (y, r3) =>
          some ((match op with | none => Expr.assign t y | some o => Expr.opAssign o t y), r3)
  | .prefixOp lex notNext op rprec =>
    match stripPrefix lex s with
    | none => none
    | some r1 =>
      -- negative lookahead `!(c _ variable_name())`: the sign doubled *and* a variable name after it is a
      -- pre-increment/pre-decrement; before anything else the doubled sign is two unary signs (as in bash)
      if (match notNext, r1 with
          | some c, c' :: rest => c == c' && (match skipWs rest with | n :: _ => isNameStart n | [] => false)
          | _, _ => false) then none
      else
        match rec (prec + rprec) (skipWs r1) with
        | none => none
        | some (x, r2) => some (.un op x, r2)
  | .preIncDec lex op =>
    match stripPrefix lex s with
    | none => none
    | some r1 =>
      match parseLvalue rec (skipWs r1) with
      | none => none
      | some (t, r2) => some (.incDec op t, r2)
  | .postIncDec lex op =>
    match parseLvalue rec s with
    | none => none
    | some (t, r1) =>
      match stripPrefix lex (skipWs r1) with
      | none => none
      | some r2 => some (.incDec op t, r2)
  | .literal => (parseLiteral s).map (fun (n, r) => (.lit n, r))
  | .reference => (parseLvalue rec s).map (fun (t, r) => (.ref t, r))
  | .paren =>
    match s with
    | '(' :: r1 =>
      match rec 0 (skipWs r1) with
      | none => none
      | some (e, r2) =>
        match skipWs r2 with
        | ')' :: r3 => some (e, r3)
        | _ => none
    | _ => none
  | _ => none

/-- one infix rule at level `prec`, the left operand `x` already parsed -/
def applyPost (rec : Nat → Str → PR) (prec : Nat) (ent : Entry) (x : Expr) (s : Str) : PR :=
  match ent with
  | .infixOp lex op rprec =>
    match stripPrefix lex (skipWs s) with
    | none => none
    | some r1 =>
      match rec (prec + rprec) (skipWs r1) with
      | none => none
      | some (y, r2) => some (.bin op x y, r2)
  | .ternary rprec =>
    match skipWs s with
    | '?' :: r1 =>
      match rec 0 (skipWs r1) with
      | none => none
      | some (y, r2) =>
        match skipWs r2 with
        | ':' :: r3 =>
          match rec (prec + rprec) (skipWs r3) with
          | none => none
          | some (z, r4) => some (.cond x y z, r4)
        | _ => none
    | _ => none
  | _ => none

/-- the `loop { level_code }` of `__infix_parse` -/
def infixLoop (step : Expr → Str → PR) : Nat → Expr → Str → Expr × Str
  | 0, e, s => (e, s)
  | f + 1, e, s =>
    match step e s with
    | some (e', s') => infixLoop step f e' s'
    | none => (e, s)

/-- `__infix_parse(min_prec)`.  `fuel` bounds the nesting depth (every nested call starts at a later
input position, so `length + 2` is enough; see `parse`). -/
def parseInfix (tb : Table) : Nat → Nat → Str → PR
  | 0, _, _ => none
  | f + 1, m, s =>
    match (pres tb).findSome? (fun pe => applyPre (parseInfix tb f) pe.1 pe.2 s) with
    | none => none
    | some (e, rest) =>
      some (infixLoop (fun x r => (postsFrom tb m).findSome? (fun pe => applyPost (parseInfix tb f) pe.1 pe.2 x r))
              (rest.length + 1) e rest)

/-- `full_expression()`: an empty or all-blank input is `0`; otherwise `_ expression() _` up to the end -/
def parse (tb : Table) (s : Str) : Option Expr :=
  if (skipWs s).isEmpty then some (.lit 0)
  else
    match parseInfix tb (s.length + 2) 0 (skipWs s) with
    | some (e, rest) => if (skipWs rest).isEmpty then some e else none
    | none => none

/-! ## canonical rendering (shared with the Rust harness) -/

def BinOp.name : BinOp → String
  | .comma => "Comma" | .lor => "LogicalOr" | .land => "LogicalAnd" | .bor => "BitwiseOr"
  | .bxor => "BitwiseXor" | .band => "BitwiseAnd" | .eq => "Equals" | .ne => "NotEquals"
  | .lt => "LessThan" | .gt => "GreaterThan" | .le => "LessThanOrEqualTo" | .ge => "GreaterThanOrEqualTo"
  | .shl => "ShiftLeft" | .shr => "ShiftRight" | .add => "Add" | .sub => "Subtract"
  | .mul => "Multiply" | .mod => "Modulo" | .div => "Divide" | .pow => "Power"

def UnOp.name : UnOp → String
  | .plus => "UnaryPlus" | .minus => "UnaryMinus" | .bnot => "BitwiseNot" | .lnot => "LogicalNot"

def IncOp.name : IncOp → String
  | .preInc => "PrefixIncrement" | .preDec => "PrefixDecrement"
  | .postInc => "PostfixIncrement" | .postDec => "PostfixDecrement"

mutual
def sexpr : Expr → Str
  | .lit n => showInt n
  | .ref t => sexprT t
  | .un op x => "(u".toList ++ op.name.toList ++ " ".toList ++ sexpr x ++ ")".toList
  | .bin op l r => "(b".toList ++ op.name.toList ++ " ".toList ++ sexpr l ++ " ".toList ++ sexpr r ++ ")".toList
  | .cond c t f => "(? ".toList ++ sexpr c ++ " ".toList ++ sexpr t ++ " ".toList ++ sexpr f ++ ")".toList
  | .assign t r => "(= ".toList ++ sexprT t ++ " ".toList ++ sexpr r ++ ")".toList
  | .opAssign op t r => "(a".toList ++ op.name.toList ++ " ".toList ++ sexprT t ++ " ".toList ++ sexpr r ++ ")".toList
  | .incDec op t => "(i".toList ++ op.name.toList ++ " ".toList ++ sexprT t ++ ")".toList
def sexprT : Target → Str
  | .var n => '$' :: n
  | .elem n i => '$' :: n ++ "[".toList ++ sexpr i ++ "]".toList
end

end BrushVerif.Arith
