import BrushVerif.Model.Wire
/-!
# Here-document bodies (C10)

Mirrors `brush-parser/src/tokenizer.rs`: the `HereState::InHereDocs` branch of `next_token_until`
(every character of the body is appended to the current token, except a tab at the start of a line
under `<<-`), `remove_here_end_tag` (after each newline, and at end of input, the token is checked
for the suffix `<tag>\n` preceded by nothing or by a newline), `unquote_str` / `is_quoting_char`
(the end tag is the unquoted delimiter word), `brush-parser/src/parser/peg.rs` `io_here`
(`requires_expansion` = the delimiter word holds no `'`, `"` or `\`) and the here-document word
grammar of `brush-parser/src/word.rs` (`heredoc_escape_sequence`: only `\$`, `` \` `` and `\\` are
escapes, and a backslash-newline is removed), `ends_with_line_continuation`.
-/
namespace BrushVerif.HereDoc
open BrushVerif.Wire

def isQuoting (c : Char) : Bool := c = '\\' || c = '\'' || c = '"'

/-- `unquote_str` -/
def unquoteGo : Bool → Str → Str
  | _, [] => []
  | true, c :: cs => c :: unquoteGo false cs
  | false, c :: cs =>
    if c = '\\' then unquoteGo true cs
    else if isQuoting c then unquoteGo false cs
    else c :: unquoteGo false cs

def unquote (s : Str) : Str := unquoteGo false s

/-- `requires_expansion` of `io_here` -/
def requiresExpansion (tagWord : Str) : Bool := !tagWord.any isQuoting

/-- the text a body line is compared with -/
def endTag (tagWord : Str) : Str := if tagWord.any isQuoting then unquote tagWord else tagWord

/-- `str::strip_suffix` -/
def stripSuffix? (s suf : Str) : Option Str :=
  if suf.isSuffixOf s then some (s.take (s.length - suf.length)) else none

/-- number of backslashes at the end -/
def trailingBackslashes (s : Str) : Nat := (s.reverse.takeWhile (· = '\\')).length

/-- `ends_with_line_continuation`: the text ends with an unescaped backslash followed by a newline -/
def endsCont (s : Str) : Bool :=
  match stripSuffix? s ['\n'] with
  | some l => trailingBackslashes l % 2 = 1
  | none => false

/-- `remove_here_end_tag`: the body if the token now ends with the tag on a line of its own; with an
unquoted delimiter (`expands`) a line continued by a backslash-newline swallows the next line -/
def endsDoc (expands : Bool) (tok tagLine : Str) : Option Str :=
  match stripSuffix? tok tagLine with
  | some pre =>
    if pre.isEmpty || pre.getLast? = some '\n' then
      (if expands && endsCont pre then none else some pre)
    else none
  | none => none

/-- the `InHereDocs` loop: `tok` is the token so far; returns the body and the remaining input -/
def scan (removeTabs expands : Bool) (tag : Str) : Str → Str → Option (Str × Str)
  | tok, [] => (endsDoc expands tok tag).map fun b => (b, [])
  | tok, c :: rest =>
    if removeTabs && (tok.isEmpty || tok.getLast? = some '\n') && c = '\t' && (!expands || !endsCont tok) then
      scan removeTabs expands tag tok rest
    else if c = '\n' then
      match endsDoc expands (tok ++ [c]) (tag ++ ['\n']) with
      | some b => some (b, rest)
      | none => scan removeTabs expands tag (tok ++ [c]) rest
    else scan removeTabs expands tag (tok ++ [c]) rest

/-- body and rest of the here-document introduced by `<<tagWord` / `<<-tagWord`, given the text after
the line that holds the operator -/
def scanDoc (removeTabs : Bool) (tagWord : Str) (text : Str) : Option (Str × Str) :=
  scan removeTabs (requiresExpansion tagWord) (endTag tagWord) [] text

def isNameStart (c : Char) : Bool := c.isAlpha || c = '_'
def isNameChar (c : Char) : Bool := c.isAlphanum || c = '_'

/-- expansion of a body under an unquoted delimiter, for bodies whose only expansions are `$name`
(the variable `x` has value `xval`, every other name is unset) -/
def expandGo (xval : Str) : Nat → Str → Str
  | 0, _ => []
  | _, [] => []
  | fuel + 1, '\\' :: c :: rest =>
    if c = '\n' then expandGo xval fuel rest
    else if c = '$' || c = '`' || c = '\\' then c :: expandGo xval fuel rest
    else '\\' :: expandGo xval fuel (c :: rest)
  | fuel + 1, '$' :: c :: rest =>
    if isNameStart c then
      let name := (c :: rest).takeWhile isNameChar
      let after := (c :: rest).dropWhile isNameChar
      (if name = ['x'] then xval else []) ++ expandGo xval fuel after
    else '$' :: expandGo xval fuel (c :: rest)
  | fuel + 1, c :: rest => c :: expandGo xval fuel rest

def expand (xval body : Str) : Str := expandGo xval (body.length + 1) body

/-- what the command reads -/
def content (tagWord : Str) (xval body : Str) : Str :=
  if requiresExpansion tagWord then expand xval body else body

end BrushVerif.HereDoc
