import BrushVerif.Model.Wire
/-!
# Model of brush's arithmetic evaluator (C07)

Mirrors `brush-core/src/arithmetic.rs`: `eval_expr_impl`, `deref_lvalue`, `apply_unary_op`,
`apply_binary_op`, `apply_unary_assignment_op`, `assign`, `wrapping_pow_u64`, and the parts of
`brush-core/src/variables.rs` / `env.rs` that arithmetic reaches (`get_at`, `assign_at_index`,
`get_key_for_indexed_array`, scalar assignment to an array = element 0).

The AST is `brush-parser/src/ast.rs` `ArithmeticExpr` / `ArithmeticTarget`.  The evaluator is
parameterised by the parser `P` used to re-parse variable contents (`brush_parser::arithmetic::parse`,
modelled in `Model/ArithParse.lean`), so every theorem about it holds for any parser.

`eval` has no artificial fuel: it is defined by well-founded recursion on
`(1025 - depth, size of the expression)`, where `depth` is brush's own variable-dereference counter
(`MAX_VARIABLE_DEREF_DEPTH = 1024`).  That Lean accepts the definition is the proof that evaluation
terminates for every expression and every variable contents (cycles included).
-/
namespace BrushVerif.Arith
open BrushVerif.Wire

inductive BinOp
  | comma | lor | land | bor | bxor | band | eq | ne | lt | gt | le | ge | shl | shr
  | add | sub | mul | mod | div | pow
  deriving DecidableEq, Repr

inductive UnOp | plus | minus | bnot | lnot
  deriving DecidableEq, Repr

inductive IncOp | preInc | preDec | postInc | postDec
  deriving DecidableEq, Repr

mutual
inductive Expr
  | lit (n : Int64)
  | ref (t : Target)
  | un (op : UnOp) (x : Expr)
  | bin (op : BinOp) (l r : Expr)
  | cond (c t e : Expr)
  | assign (t : Target) (r : Expr)
  | opAssign (op : BinOp) (t : Target) (r : Expr)
  | incDec (op : IncOp) (t : Target)
inductive Target
  | var (name : Str)
  | elem (name : Str) (idx : Expr)
end

deriving instance DecidableEq for Expr, Target

inductive Err
  | divZero | negExp | parse | recursion | array | update
  deriving DecidableEq, Repr

/-- result of an evaluation: a value or one of the declared errors -/
inductive Res
  | ok (v : Int64)
  | err (e : Err)
  deriving DecidableEq

/-! ## operators on wrapping 64-bit integers -/

def b2i (b : Bool) : Int64 := if b then 1 else 0

/-- `wrapping_pow_u64`: square and multiply; the exponent is a `u64`, so 64 rounds suffice. -/
def wpowLoop : Nat → Int64 → Int64 → Nat → Int64
  | 0, _, r, _ => r
  | fuel + 1, b, r, e =>
    if e = 0 then r else wpowLoop fuel (b * b) (if e % 2 = 1 then r * b else r) (e / 2)

def wpow (b : Int64) (e : Nat) : Int64 := wpowLoop 64 b 1 e

/-- `apply_binary_op` after both operands are evaluated (`&&`/`||` included: their value when both
sides were evaluated). -/
def applyBin (op : BinOp) (l r : Int64) : Res :=
  match op with
  | .pow => if r ≥ 0 then .ok (wpow l r.toInt.toNat) else .err .negExp
  | .mul => .ok (l * r)
  | .div => if r = 0 then .err .divZero else .ok (l / r)
  | .mod => if r = 0 then .err .divZero else .ok (l % r)
  | .comma => .ok r
  | .add => .ok (l + r)
  | .sub => .ok (l - r)
  | .shl => .ok (l <<< r)
  | .shr => .ok (l >>> r)
  | .lt => .ok (b2i (l < r))
  | .le => .ok (b2i (l ≤ r))
  | .gt => .ok (b2i (l > r))
  | .ge => .ok (b2i (l ≥ r))
  | .eq => .ok (b2i (l = r))
  | .ne => .ok (b2i (l ≠ r))
  | .band => .ok (l &&& r)
  | .bxor => .ok (l ^^^ r)
  | .bor => .ok (l ||| r)
  | .land => .ok (b2i (l ≠ 0 && r ≠ 0))
  | .lor => .ok (b2i (l ≠ 0 || r ≠ 0))

def applyUn (op : UnOp) (x : Int64) : Int64 :=
  match op with
  | .plus => x
  | .minus => -x
  | .bnot => ~~~x
  | .lnot => b2i (x = 0)

/-! ## the variable environment -/

inductive Val
  | scalar (s : Str)
  | arr (m : List (Nat × Str))      -- `BTreeMap<u64,String>`: sorted by key
  deriving DecidableEq

abbrev Env := List (Str × Val)

def Env.get (env : Env) (n : Str) : Option Val := List.lookup n env

def Env.set : Env → Str → Val → Env
  | [], n, v => [(n, v)]
  | (k, w) :: rest, n, v => if k = n then (k, v) :: rest else (k, w) :: Env.set rest n v

def arrGet : List (Nat × Str) → Nat → Option Str
  | [], _ => none
  | (k, v) :: rest, i => if k = i then some v else arrGet rest i

def arrInsert : List (Nat × Str) → Nat → Str → List (Nat × Str)
  | [], i, v => [(i, v)]
  | (k, w) :: rest, i, v =>
    if i < k then (i, v) :: (k, w) :: rest
    else if i = k then (k, v) :: rest
    else (k, w) :: arrInsert rest i v

def showInt (v : Int64) : Str := intToStr v.toInt

/-- `get_var_value` (nounset off) followed by `to_cow_str`. -/
def varStr (env : Env) (n : Str) : Str :=
  match env.get n with
  | some (.scalar s) => s
  | some (.arr m) => (arrGet m 0).getD []
  | none => []

/-- `get_key_for_indexed_array` on an `i64` index -/
def arrKey (m : List (Nat × Str)) (i : Int64) : Option Nat :=
  if i.toInt < 0 then
    (if i.toInt + m.length < 0 then none else some (i.toInt + m.length).toNat)
  else some i.toInt.toNat

/-- `ShellValue::get_at` with the index rendered from an `i64` -/
def elemStr (env : Env) (n : Str) (i : Int64) : Option Str :=
  match env.get n with
  | none => some []
  | some (.scalar s) => if i.toInt ≤ 0 then some s else some []
  | some (.arr m) =>
    match arrKey m i with
    | none => none
    | some k => some ((arrGet m k).getD [])

/-- `update_or_add(name, Scalar(value))` -/
def setVar (env : Env) (n : Str) (v : Int64) : Env :=
  match env.get n with
  | some (.arr m) => env.set n (.arr (arrInsert m 0 (showInt v)))
  | _ => env.set n (.scalar (showInt v))

/-- `update_or_add_array_element`: the environment afterwards and whether it succeeded -/
def setElem (env : Env) (n : Str) (i : Int64) (v : Int64) : Env × Bool :=
  match env.get n with
  | none => (env.set n (.arr [((if i.toInt < 0 then 0 else i.toInt.toNat), showInt v)]), true)
  | some (.scalar s) =>
    -- converted to an array first; a negative index then counts from the end of that 1-element array
    let m := [(0, s)]
    (match arrKey m i with
     | none => (env.set n (.arr m), false)
     | some k => (env.set n (.arr (arrInsert m k (showInt v))), true))
  | some (.arr m) =>
    match arrKey m i with
    | none => (env, false)
    | some k => (env.set n (.arr (arrInsert m k (showInt v))), true)

/-! ## evaluation -/

def maxDepth : Nat := 1024

def incNew (op : IncOp) (v : Int64) : Int64 :=
  match op with
  | .preInc | .postInc => v + 1
  | .preDec | .postDec => v - 1

def incRet (op : IncOp) (v : Int64) : Int64 :=
  match op with
  | .preInc => v + 1
  | .preDec => v - 1
  | .postInc | .postDec => v

/-- the short-circuit rule of `apply_binary_op`: the value when the right operand is not evaluated -/
def shortCut (op : BinOp) (a : Int64) : Option Int64 :=
  match op with
  | .land => if a = 0 then some 0 else none
  | .lor => if a ≠ 0 then some 1 else none
  | _ => none

/-- a target whose subscript has been evaluated (`resolve_lvalue`) -/
inductive RT
  | var (name : Str)
  | elem (name : Str) (i : Int64)
  deriving DecidableEq

/-- the resolved target as an `ArithmeticTarget` again: the subscript is a literal -/
def RT.toTarget : RT → Target
  | .var n => .var n
  | .elem n i => .elem n (.lit i)

/-- `assign` on a resolved target -/
def assignR (env : Env) (rt : RT) (v : Int64) : Env × Res :=
  match rt with
  | .var n => (setVar env n v, .ok v)
  | .elem n i =>
    match setElem env n i v with
    | (env2, true) => (env2, .ok v)
    | (env2, false) => (env2, .err .update)

mutual
/-- `eval_expr_impl` -/
def eval (P : Str → Option Expr) (d : Nat) (env : Env) (e : Expr) : Env × Res :=
  match e with
  | .lit n => (env, .ok n)
  | .ref t =>
    match resolve P d env t with
    | (env0, .ok rt) => derefR P d env0 rt
    | (env0, .error er) => (env0, .err er)
  | .un op x =>
    match eval P d env x with
    | (env1, .ok v) => (env1, .ok (applyUn op v))
    | q => q
  | .bin op l r =>
    match eval P d env l with
    | (env1, .ok a) =>
      match shortCut op a with
      | some v => (env1, .ok v)
      | none =>
        match eval P d env1 r with
        | (env2, .ok b) => (env2, applyBin op a b)
        | q => q
    | q => q
  | .cond c t f =>
    match eval P d env c with
    | (env1, .ok a) => if a ≠ 0 then eval P d env1 t else eval P d env1 f
    | q => q
  | .assign t r =>
    match eval P d env r with
    | (env1, .ok v) =>
      match resolve P d env1 t with
      | (env2, .ok rt) => assignR env2 rt v
      | (env2, .error er) => (env2, .err er)
    | q => q
  | .incDec op t =>
    -- the target is read and written: its subscript is evaluated once (`resolve_lvalue`)
    match resolve P d env t with
    | (env0, .ok rt) =>
      match derefR P d env0 rt with
      | (env1, .ok v) =>
        match assignR env1 rt (incNew op v) with
        | (env2, .ok _) => (env2, .ok (incRet op v))
        | q => q
      | q => q
    | (env0, .error er) => (env0, .err er)
  | .opAssign op t r =>
    -- `resolve_lvalue`, then `apply_binary_op(op, Reference(lvalue), operand)`, then `assign`
    match resolve P d env t with
    | (env0, .ok rt) =>
      match derefR P d env0 rt with
      | (env1, .ok a) =>
        match shortCut op a with
        | some v => assignR env1 rt v
        | none =>
          match eval P d env1 r with
          | (env2, .ok b) =>
            match applyBin op a b with
            | .ok v => assignR env2 rt v
            | .err er => (env2, .err er)
          | q => q
      | q => q
    | (env0, .error er) => (env0, .err er)
termination_by (maxDepth + 1 - d, sizeOf e, 0)

/-- evaluation of a target's subscript (in `deref_lvalue`, `assign`, `resolve_lvalue`) -/
def resolve (P : Str → Option Expr) (d : Nat) (env : Env) (t : Target) : Env × Except Err RT :=
  match t with
  | .var n => (env, .ok (.var n))
  | .elem n idx =>
    match eval P d env idx with
    | (env1, .ok i) => (env1, .ok (.elem n i))
    | (env1, .err er) => (env1, .error er)
termination_by (maxDepth + 1 - d, sizeOf t, 1)

/-- `deref_lvalue` once the subscript is known -/
def derefR (P : Str → Option Expr) (d : Nat) (env : Env) (rt : RT) : Env × Res :=
  match rt with
  | .var n => derefStr P d env (varStr env n)
  | .elem n i =>
    match elemStr env n i with
    | none => (env, .err .array)
    | some s => derefStr P d env s
termination_by (maxDepth + 1 - d, 0, 1)

/-- the tail of `deref_lvalue`: parse the contents; a literal is the value, anything else is evaluated
one level deeper (at most 1024 levels) -/
def derefStr (P : Str → Option Expr) (d : Nat) (env : Env) (s : Str) : Env × Res :=
  match P s with
  | none => (env, .err .parse)
  | some (.lit n) => (env, .ok n)
  | some e => if h : d + 1 > maxDepth then (env, .err .recursion) else eval P (d + 1) env e
termination_by (maxDepth + 1 - d, 0, 0)
end

/-- `deref_lvalue` -/
def deref (P : Str → Option Expr) (d : Nat) (env : Env) (t : Target) : Env × Res :=
  match resolve P d env t with
  | (env0, .ok rt) => derefR P d env0 rt
  | (env0, .error er) => (env0, .err er)

/-- `assign` -/
def assignT (P : Str → Option Expr) (d : Nat) (env : Env) (t : Target) (v : Int64) : Env × Res :=
  match resolve P d env t with
  | (env0, .ok rt) => assignR env0 rt v
  | (env0, .error er) => (env0, .err er)

end BrushVerif.Arith
