import BrushVerif.Model.Wire
/-!
# Model of brush's parameter-expansion operators (C06)

Mirrors `brush-core/src/expansion.rs` (`Expansion::{classify, polymorphic_len, polymorphic_subslice}`,
the arms of `expand_parameter_expr` for `- = ? +`, `${#v}`, `# ## % %%`, `${v:o:l}`,
`expand_parameter_without_indirect`, `undefined_expansion`) and the four `remove_*_matching_*`
loops of `brush-core/src/patterns.rs`, as they stand after the repairs of the shortest-match loops,
of the character-counting length, of the negative substring length, of the list null-ness and of
`"${@+w}"` over no elements.  Strings are `List Char`; the pattern matcher is a parameter
(`m : Str → Bool`, "the anchored regex accepts this candidate").
-/
namespace BrushVerif.ParamOps
open BrushVerif.Wire

/-! ## values -/

/-- `struct Expansion` (every field here is a single piece) -/
structure Expansion where
  fields : List Str
  concatenate : Bool
  fromArray : Bool
  undefined : Bool
  deriving Repr, DecidableEq

inductive PState where
  | undefined | definedEmpty | nonZero
  deriving Repr, DecidableEq

/-- `Expansion::classify`: two or more elements of a list expand to text that holds the separators
between them, so they are not null even when every element is empty -/
def classify (e : Expansion) : PState :=
  let nonEmpty := e.fields.any (fun f => !f.isEmpty) || (e.fromArray && decide (1 < e.fields.length))
  if e.undefined then .undefined
  else if nonEmpty then .nonZero
  else if e.fields.isEmpty then .undefined
  else .definedEmpty

/-- `Expansion::from(String)` -/
def ofStr (s : Str) : Expansion := { fields := [s], concatenate := true, fromArray := false, undefined := false }

/-- `Expansion::undefined()` -/
def undefinedExp : Expansion := { fields := [[]], concatenate := true, fromArray := false, undefined := true }

/-- `Expansion::polymorphic_len`: elements of an array, characters of a string
(`ExpansionPiece::len` is `chars().count()`). -/
def polyLen (e : Expansion) : Nat :=
  if e.fromArray then e.fields.length else (e.fields.map List.length).foldl (· + ·) 0

/-! ## `${v:offset:length}` -/

/-- the string branch of `polymorphic_subslice`: walk the pieces, skipping `dist` characters and
copying `left` -/
def sliceFields : List Str → Nat → Nat → List Str
  | [], _, _ => []
  | f :: fs, dist, left =>
    if left = 0 then []
    else if dist ≥ f.length then sliceFields fs (dist - f.length) left
    else
      let n := min left (f.length - dist)
      ((f.drop dist).take n) :: sliceFields fs 0 (left - n)

/-- `x as usize` for an `i64` -/
def asUsize (x : Int) : Nat := if x < 0 then (x + 18446744073709551616).toNat else x.toNat

/-- outcome of an operator -/
inductive Res where
  | ok (e : Expansion)
  | err            -- an `Err(..)` from the expander
  | panic          -- arithmetic overflow panic (debug build) / wrapped nonsense (release)
  deriving Repr, DecidableEq

/-- `Expansion::polymorphic_subslice(index, end)` on `usize` -/
def polySubslice (e : Expansion) (index end_ : Nat) : Res :=
  if end_ < index then .panic
  else
    let len := end_ - index
    if e.fromArray then
      let actual := min len (e.fields.length - index)
      .ok { e with fields := (e.fields.drop index).take actual }
    else
      .ok { e with fields := sliceFields e.fields index len }

/-- The `i64` arithmetic of the `Substring` arm: (offset, end) handed to `polymorphic_subslice`,
or `none` for "substring expression < 0".  `plen` is `polymorphic_len()`; `undefined`, `fromArray`
are the flags of the expanded parameter, `positional` says that it is `$@` / `$*` (with `$0` put in
front).  A negative length is an end offset counted from the end of a string; it is an error when
it falls before the start, and on a list — except where the offset selects nothing anyway. -/
def substrBounds (plen : Int) (undefined fromArray positional : Bool) (off : Int) (len : Option Int) :
    Option (Int × Int) :=
  let outOfRange : Bool := decide (off > plen) || (decide (off < 0) && decide (off + plen < 0))
  let off1 := if off < 0 then (if off + plen < 0 then plen else off + plen) else off
  let off2 := min off1 plen
  match len with
  | some l =>
    if l < 0 then
      let selectsNothing := outOfRange || undefined || (fromArray && !positional && decide (off2 = plen))
      if selectsNothing then some (off2, plen)
      else if fromArray || decide (plen + l < off2) then none
      else some (off2, plen + l)
    else some (off2, off2 + min l (plen - off2))
  | none => some (off2, plen)

/-- the `Substring` arm after the parameter has been expanded (and `$0` inserted for `$@`) -/
def substring (e : Expansion) (positional : Bool) (off : Int) (len : Option Int) : Res :=
  match substrBounds (Int.ofNat (polyLen e)) e.undefined e.fromArray positional off len with
  | none => .err
  | some b => polySubslice e (asUsize b.1) (asUsize b.2)

/-! ## `# ## % %%` — the four loops of patterns.rs over a matcher -/

/-- the loop of `remove_smallest_matching_prefix`: the prefixes of 1, 2, … n characters.
`k` counts the characters already consumed. -/
def smallestPrefixGo (m : Str → Bool) (s : Str) : Nat → Nat → Str
  | 0, _ => s
  | fuel + 1, k =>
    if m (s.take (k + 1)) then s.drop (k + 1) else smallestPrefixGo m s fuel (k + 1)

/-- `remove_smallest_matching_prefix`: the empty prefix first, then the loop -/
def removeSmallestPrefix (m : Str → Bool) (s : Str) : Str :=
  if m [] then s else smallestPrefixGo m s s.length 0

/-- `remove_largest_matching_prefix`: prefixes of n, n-1, … 1 characters. -/
def largestPrefixGo (m : Str → Bool) (s : Str) : Nat → Str
  | 0 => s
  | k + 1 => if m (s.take (k + 1)) then s.drop (k + 1) else largestPrefixGo m s k

def removeLargestPrefix (m : Str → Bool) (s : Str) : Str := largestPrefixGo m s s.length

/-- `remove_largest_matching_suffix`: suffixes starting at character 0, 1, … n-1. -/
def largestSuffixGo (m : Str → Bool) (s : Str) : Nat → Nat → Str
  | 0, _ => s
  | fuel + 1, i => if m (s.drop i) then s.take i else largestSuffixGo m s fuel (i + 1)

def removeLargestSuffix (m : Str → Bool) (s : Str) : Str := largestSuffixGo m s s.length 0

/-- the loop of `remove_smallest_matching_suffix`: suffixes starting at character n-1, n-2, … 0 -/
def smallestSuffixGo (m : Str → Bool) (s : Str) : Nat → Str
  | 0 => s
  | i + 1 => if m (s.drop i) then s.take i else smallestSuffixGo m s i

/-- `remove_smallest_matching_suffix`: the empty suffix first, then the loop -/
def removeSmallestSuffix (m : Str → Bool) (s : Str) : Str :=
  if m [] then s else smallestSuffixGo m s s.length

/-- `transform_expansion`: a string function applied to every field -/
def mapFields (e : Expansion) (f : Str → Str) : Expansion := { e with fields := e.fields.map f }

/-- which of the four removals -/
structure RmKind where
  suffix : Bool
  largest : Bool
  deriving Repr, DecidableEq

def removeWith (k : RmKind) (m : Str → Bool) (s : Str) : Str :=
  match k.suffix, k.largest with
  | false, false => removeSmallestPrefix m s
  | false, true => removeLargestPrefix m s
  | true, false => removeSmallestSuffix m s
  | true, true => removeLargestSuffix m s

/-! ## `- = ? +` -/

inductive TestOp where
  | useDefault | assignDefault | errorIfUnset | useAlternative
  deriving Repr, DecidableEq

/-- what the operator does with the parameter and the operand word -/
inductive Action where
  | param      -- substitute the parameter's value
  | word       -- substitute the word
  | assign     -- assign the word to the parameter, substitute it
  | error      -- write the word to stderr, fail
  | null       -- substitute nothing
  deriving Repr, DecidableEq

/-- The four `match (test_type, classify())` blocks of `expand_parameter_expr`, as written:
first arm `(_, NonZeroLength) | (Unset, DefinedEmptyString)`, second arm `_`.
`colon = true` is `ParameterTestType::UnsetOrNull`. -/
def testAction (op : TestOp) (colon : Bool) (st : PState) : Action :=
  let firstArm := match colon, st with
    | _, .nonZero => true
    | false, .definedEmpty => true
    | _, _ => false
  match op with
  | .useDefault => if firstArm then .param else .word
  | .assignDefault => if firstArm then .param else .assign
  | .errorIfUnset => if firstArm then .param else .error
  | .useAlternative => if firstArm then .word else .null

/-! ## parameters -/

/-- the parameter inside the braces, with what the shell's state holds for it -/
inductive Param where
  /-- `v`: `none` = unset or declared without a value -/
  | named (v : Option Str)
  /-- `a[i]` / `A[k]`; `varExists`: the array variable exists -/
  | elem (v : Option Str) (varExists : Bool)
  /-- `a[@]` (`star = false`) / `a[*]`: the element values in order -/
  | all (vals : List Str) (star : Bool)
  /-- `$@` / `$*` -/
  | posAll (args : List Str) (star : Bool)
  /-- `$1`, `$2`, … -/
  | pos (v : Option Str)
  deriving Repr, DecidableEq

/-- `undefined_expansion` -/
def undefinedExpansion (allowUnset nounset : Bool) : Option Expansion :=
  if allowUnset || !nounset then some undefinedExp else none

/-- `expand_parameter_without_indirect` -/
def expandParam (p : Param) (allowUnset nounset : Bool) : Option Expansion :=
  match p with
  | .named (some s) | .elem (some s) _ | .pos (some s) => some (ofStr s)
  | .named none | .elem none _ | .pos none => undefinedExpansion allowUnset nounset
  | .all vals star | .posAll vals star =>
    some { fields := vals, concatenate := star, fromArray := true, undefined := false }

inductive Op where
  | plain
  | len
  | sub (off : Int) (len : Option Int)
  | test (op : TestOp) (colon : Bool) (word : Str)
  | rm (k : RmKind) (hasPat : Bool)
  deriving Repr, DecidableEq

/-- result of one `${…}`: the expansion (or failure) and the value assigned by `=` if any -/
structure Outcome where
  res : Res
  assigned : Option Str := none
  deriving Repr, DecidableEq

def shellName : Str := "sh0".toList

/-- `expand_parameter_expr` for the operators modelled here.  `m` is the matcher built from the
operator's pattern. -/
def expandExpr (p : Param) (nounset : Bool) (m : Str → Bool) : Op → Outcome
  | .plain =>
    match expandParam p false nounset with
    | some e => { res := .ok e }
    | none => { res := .err }
  | .len =>
    let allow := match p with
      | .elem _ ex => ex
      | .all _ _ => true     -- only used with existing arrays
      | _ => false
    match expandParam p allow nounset with
    | some e => { res := .ok (ofStr (natToStr (polyLen e))) }
    | none => { res := .err }
  | .sub off len =>
    match expandParam p false nounset with
    | some e =>
      let e := match p with
        | .posAll _ _ => { e with fields := shellName :: e.fields }
        | _ => e
      let positional := match p with
        | .posAll _ _ => true
        | _ => false
      { res := substring e positional off len }
    | none => { res := .err }
  | .test op colon word =>
    match expandParam p true nounset with
    | none => { res := .err }
    | some e =>
      match testAction op colon (classify e) with
      | .param => { res := .ok e }
      | .word => { res := .ok (ofStr word) }
      | .null =>
        -- `"${@+word}"` over no elements expands like `"$@"`: to no field at all
        if e.fromArray && !e.concatenate && e.fields.isEmpty then { res := .ok e }
        else { res := .ok (ofStr []) }
      | .error => { res := .err }
      | .assign =>
        match p with
        | .named _ | .elem _ _ => { res := .ok (ofStr word), assigned := some word }
        | _ => { res := .err }
  | .rm k hasPat =>
    match expandParam p false nounset with
    | some e => { res := .ok (if hasPat then mapFields e (removeWith k m) else e) }
    | none => { res := .err }

/-! ## indirection `${!ref…}` -/

/-- `fields_to_string` (default IFS): the text of an expansion -/
def fieldsToString (e : Expansion) : Str := joinWith [' '] e.fields

/-- `expand_parameter_internal` with `indirect = true`, a two-stage lookup: expand the reference,
read its text as a parameter (`parse_parameter`; `env` says which parameter, in which state, a text
names — `none`: it is not a parameter), then expand that target **with the same
`allow_unset_vars`**. -/
def expandIndirect (ref : Param) (env : Str → Option Param) (allowUnset nounset : Bool) : Option Expansion :=
  match expandParam ref allowUnset nounset with
  | none => none
  | some e =>
    match env (fieldsToString e) with
    | none => none
    | some t => expandParam t allowUnset nounset

/-- `expand_parameter_expr` for `${!ref…}` (the arms of `expandExpr` with the indirect lookup).
`=` resolves the reference once more (`expand_parameter_without_indirect(reference, true)` +
`parse_parameter`) and assigns to the parameter it names (`assigned` is the value given to that
target).  The parameter written in the braces is the reference, so it is never the `$@` slice that
gets `$0` put in front.  `${#ref}` has no indirect form. -/
def expandExprInd (ref : Param) (env : Str → Option Param) (nounset : Bool) (m : Str → Bool) : Op → Outcome
  | .plain =>
    match expandIndirect ref env false nounset with
    | some e => { res := .ok e }
    | none => { res := .err }
  | .len => expandExpr ref nounset m .len
  | .sub off len =>
    match expandIndirect ref env false nounset with
    | some e => { res := substring e false off len }
    | none => { res := .err }
  | .test op colon word =>
    match expandIndirect ref env true nounset with
    | none => { res := .err }
    | some e =>
      match testAction op colon (classify e) with
      | .param => { res := .ok e }
      | .word => { res := .ok (ofStr word) }
      | .null =>
        if e.fromArray && !e.concatenate && e.fields.isEmpty then { res := .ok e }
        else { res := .ok (ofStr []) }
      | .error => { res := .err }
      | .assign =>
        match expandParam ref true nounset with
        | none => { res := .err }
        | some r =>
          match env (fieldsToString r) with
          | some (.named _) | some (.elem _ _) => { res := .ok (ofStr word), assigned := some word }
          | _ => { res := .err }
  | .rm k hasPat =>
    match expandIndirect ref env false nounset with
    | some e => { res := .ok (if hasPat then mapFields e (removeWith k m) else e) }
    | none => { res := .err }

/-! ## scopes: which binding an expansion reads, and what a second evaluation sees -/

/-- a frame of bindings: a function's locals, a temporary environment (`v=x f`), the globals -/
abbrev Frame := List (Str × Param)

/-- the scope stack, innermost frame first (`ShellEnvironment::get` walks it in this order) -/
abbrev Scopes := List Frame

def Frame.find (f : Frame) (n : Str) : Option Param := (List.find? (fun b => b.1 = n) f).map (·.2)

/-- the binding of `n` an expansion sees: the innermost one -/
def visible : Scopes → Str → Option Param
  | [], _ => none
  | f :: fs, n =>
    match Frame.find f n with
    | some p => some p
    | none => visible fs n

/-- `${n op …}` evaluated under a scope stack (no binding at all: the name is unset) -/
def expandIn (sc : Scopes) (n : Str) (nounset : Bool) (m : Str → Bool) (op : Op) : Outcome :=
  expandExpr ((visible sc n).getD (.named none)) nounset m op

/-- the parameter's state after an expansion (only `=` changes it) -/
def stateAfter (p : Param) (o : Outcome) : Param :=
  match o.assigned, p with
  | some w, .named _ => .named (some w)
  | some w, .elem _ _ => .elem (some w) true
  | _, _ => p

/-- the fields a double-quoted `"${…}"` produces from an expansion: `[*]`-style expansions are
joined with the first character of IFS (a space here), `[@]`-style ones stay separate, a scalar
is one field -/
def quotedFields (e : Expansion) : List Str :=
  if e.fromArray && !e.concatenate then e.fields
  else [joinWith [' '] e.fields]

/-! ## a small glob matcher (what the regex built from a pattern accepts) -/

inductive PElem where
  | lit (c : Char)
  | any
  | star
  | set (neg : Bool) (cs : List Char)
  deriving Repr, DecidableEq

abbrev Pat := List PElem

def elemMatches (e : PElem) (c : Char) : Bool :=
  match e with
  | .lit d => c = d
  | .any => true
  | .star => false
  | .set neg cs => if neg then !cs.contains c else cs.contains c

/-- whole-string glob match (bash's meaning of a pattern) -/
def globMatch : Pat → Str → Bool
  | [], s => s.isEmpty
  | .star :: ps, [] => globMatch ps []
  | .star :: ps, c :: cs => globMatch ps (c :: cs) || globMatch (.star :: ps) cs
  | _ :: _, [] => false
  | e :: ps, c :: cs => elemMatches e c && globMatch ps cs
termination_by ps s => ps.length + s.length

end BrushVerif.ParamOps
