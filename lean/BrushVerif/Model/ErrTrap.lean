/-!
# Where the ERR trap fires (C16)

Mirrors brush-core/src/interp.rs: `AndOrList::execute` (which operands get
`suppress_errexit`), `Pipeline::execute` (the `!` inversion, `is_errexit_checkpoint`, the firing
condition `!result.is_success() && !params.suppress_errexit && !self.bang && is_errexit_checkpoint`
-- which does not look at the control flow of `result`: recorded finding
`err_trap_fires_again_for_leaving_command`), the `suppress_errexit = true` of `if`/`while`/`until`
conditions, subshells / pipeline stages / function bodies, and brush-core/src/shell/traps.rs
`invoke_trap_handler` (re-entrancy guard, inheritance into functions and subshells only with
`set -E`, `$?` saved and restored, the handler's own result discarded).

The fragment is self-contained and total (no fuel): a function is called where it is defined
(`call body` = `fK() { body; }; fK`), loops carry their iteration count
(`whl u n c b` = `i=0; while c; [ $((i+=1)) -le n ]; do b; done`, `until` with `-gt`).
-/
namespace BrushVerif.ErrTrap

inductive Cmd where
  | leaf (id : Nat) (st : Nat)      -- simple command: `echo m<id>` (st = 0) / `false` (st ≠ 0)
  | exit (n : Nat)                  -- `exit n`
  | ret (n : Nat)                   -- `return n`
  | call (body : Cmd)               -- call of a function whose body is `body`
  | seq (a b : Cmd)                 -- `a; b`
  | and (a b : Cmd)                 -- `a && b`
  | or (a b : Cmd)                  -- `a || b`
  | not (a : Cmd)                   -- `! a`
  | ifc (c t e : Cmd)               -- `if c; then t; else e; fi`
  | whl (u : Bool) (n : Nat) (c b : Cmd)
  | grp (a : Cmd)                   -- `{ a; }`
  | sub (a : Cmd)                   -- `( a )`
  | pipe (st : Nat) (b : Cmd)       -- `true | b` / `false | b`: the first stage's status is `st`
  deriving DecidableEq, Repr

/-- what reaches the output: program markers (tagged with "written while the ERR handler runs") and
the handler's start probe `E$?` (`leaving` = the command it fired for was an `exit`/`return` on its
way out; not observable, used for classification only) -/
inductive Ev where
  | m (inH : Bool) (id : Nat)
  | fire (st : Nat) (leaving : Bool)
  deriving DecidableEq, Repr

inductive Fl where
  | normal | exit | ret
  deriving DecidableEq, Repr

structure Res where
  code : Nat
  flow : Fl := .normal
  deriving DecidableEq, Repr

structure St where
  trace : List Ev := []
  last : Nat := 0                   -- `$?`
  deriving DecidableEq, Repr

/-- `ExecutionParameters.suppress_errexit`, the call stack's "ERR handler running" frame, and
`in_function() || is_subshell()` -/
structure Ctx where
  sup : Bool := false
  active : Bool := false
  inner : Bool := false
  deriving DecidableEq, Repr

/-- `is_errexit_checkpoint` for a single-command pipeline -/
def checkpoint : Cmd → Bool
  | .ifc .. | .whl .. | .grp .. => false
  | _ => true

/-- The tail of `Pipeline::execute` after the stages have been waited for. `fire` is
`invoke_trap_handler(Err, …)`. -/
def pipeEnd (fire : Ctx → Res → St → St) (ctx : Ctx) (bang cp : Bool) (sr : St × Res) : St × Res :=
  let r : Res := if bang && sr.2.flow == .normal then { sr.2 with code := if sr.2.code = 0 then 1 else 0 } else sr.2
  let s : St := { sr.1 with last := r.code }
  let sup := ctx.sup || bang
  let s := if r.code ≠ 0 && !sup && !bang && cp then fire { ctx with sup := sup } r s else s
  (s, r)

/-- `while`/`until` with `n` iterations: condition list (suppressed), then the counter test -/
def loop (cond body : St → St × Res) : Nat → Nat → St → St × Res
  | 0, lc, s =>
    let c := cond s
    if c.2.flow ≠ .normal then c else (c.1, { code := lc })
  | k + 1, _, s =>
    let c := cond s
    if c.2.flow ≠ .normal then c else
    let b := body c.1
    if b.2.flow ≠ .normal then b else loop cond body k b.2.code b.1

/-- The interpreter, generic in what `invoke_trap_handler` does. `w` = the command is run through
`Pipeline::execute` of its own (false for the operand of `!` and for a pipeline stage, which are run
by the enclosing pipeline). -/
def exec (fire : Ctx → Res → St → St) : Cmd → Bool → Ctx → St → St × Res
  | .leaf id st, w, ctx, s =>
    let sr : St × Res := (if st = 0 then { s with trace := s.trace ++ [.m ctx.active id] } else s, { code := st })
    if w then pipeEnd fire ctx false true sr else sr
  | .exit n, w, ctx, s =>
    let sr : St × Res := (s, { code := n, flow := .exit })
    if w then pipeEnd fire ctx false true sr else sr
  | .ret n, w, ctx, s =>
    let sr : St × Res := (s, { code := n, flow := .ret })
    if w then pipeEnd fire ctx false true sr else sr
  | .call body, w, ctx, s =>
    let b := exec fire body true { ctx with inner := true } s
    let sr : St × Res := (b.1, if b.2.flow = .ret then { b.2 with flow := .normal } else b.2)
    if w then pipeEnd fire ctx false true sr else sr
  | .seq a b, _, ctx, s =>
    let x := exec fire a true ctx s
    if x.2.flow ≠ .normal then x else exec fire b true ctx { x.1 with last := x.2.code }
  | .and a b, _, ctx, s =>
    let x := exec fire a true { ctx with sup := true } s
    if x.2.flow ≠ .normal then x else
    if x.2.code = 0 then exec fire b true ctx x.1 else x
  | .or a b, _, ctx, s =>
    let x := exec fire a true { ctx with sup := true } s
    if x.2.flow ≠ .normal then x else
    if x.2.code ≠ 0 then exec fire b true ctx x.1 else x
  | .not a, _, ctx, s =>
    pipeEnd fire ctx true true (exec fire a false { ctx with sup := true } s)
  | .ifc c t e, w, ctx, s =>
    let x := exec fire c true { ctx with sup := true } s
    let sr := if x.2.flow ≠ .normal then x else
      if x.2.code = 0 then exec fire t true ctx x.1 else exec fire e true ctx x.1
    if w then pipeEnd fire ctx false false sr else sr
  | .whl _ n c b, w, ctx, s =>
    let sr := loop (exec fire c true { ctx with sup := true }) (exec fire b true ctx) n 0 s
    if w then pipeEnd fire ctx false false sr else sr
  | .grp a, w, ctx, s =>
    let sr := exec fire a true ctx s
    if w then pipeEnd fire ctx false false sr else sr
  | .sub a, w, ctx, s =>
    let x := exec fire a true { ctx with inner := true } s
    let sr : St × Res := ({ s with trace := x.1.trace }, { code := x.2.code })
    if w then pipeEnd fire ctx false true sr else sr
  | .pipe _ b, _, ctx, s =>
    let x := exec fire b false { ctx with inner := true } s
    pipeEnd fire ctx false true ({ s with trace := x.1.trace }, { code := x.2.code })

/-- no handler ever runs -/
def noFire : Ctx → Res → St → St := fun _ _ s => s

/-- the program without any ERR trap -/
def execP : Cmd → Bool → Ctx → St → St × Res := exec noFire

/-- `invoke_trap_handler(TrapSignal::Err, params)`.  `errtrace` = `set -E`; `h` = the registered
handler (which starts with the probe `echo E$?`).  The handler runs with the frame marked active;
`$?` is put back afterwards and the handler's result (even `exit`) is dropped. -/
def invoke (errtrace : Bool) (h : Option Cmd) (ctx : Ctx) (r : Res) (s : St) : St :=
  if ctx.active then s
  else if ctx.inner && !errtrace then s
  else match h with
    | none => s
    | some hc =>
      let s0 : St := { s with trace := s.trace ++ [.fire s.last (r.flow != .normal)] }
      let x := execP hc true { ctx with active := true } s0
      { x.1 with last := s.last }

/-- brush: a program under `trap h ERR` (and `set -E` iff `errtrace`) -/
def execE (errtrace : Bool) (h : Option Cmd) : Cmd → Bool → Ctx → St → St × Res :=
  exec (invoke errtrace h)

/-- the firing statuses, in order -/
def fires (tr : List Ev) : List Nat :=
  tr.filterMap (fun e => match e with | .fire st _ => some st | _ => none)

def isLeavingFire : Ev → Bool
  | .fire _ true => true
  | _ => false

end BrushVerif.ErrTrap
