import BrushVerif.Model.Wire
/-!
# Descriptor bookkeeping of brush (C10)

Mirrors `brush-core/src/openfiles.rs` (`OpenFiles`: a map `fd ↦ Some file | None`, `fd_entry`,
`set_fd`, `remove_fd`, `iter_fds`), `brush-core/src/interp.rs` (`ExecutionParameters::try_fd` /
`iter_fds`, `setup_redirect`, `setup_redirect_output_and_error_to`, the redirect loops of
`SimpleCommand::execute_in_pipeline` and `Command::Compound`), `commands.rs`
(`compose_std_command`, function-definition redirects in `invoke_shell_function`),
`openfiles.rs` `TryFrom<OpenFile> for Stdio`, and the `exec` builtin without arguments
(`replace_open_files(context.iter_fds())`).

The operating system underneath (open file descriptions with a mode and an offset, a small file
system) is `Sys`; it is shared with the flat POSIX reference semantics in `Spec/FdFlat.lean`.
-/
namespace BrushVerif.Fd
open BrushVerif.Wire

abbrev Fd := Nat
abbrev Path := Nat

/-! ## the operating system -/

inductive Node where
  | reg (data : Str) (tainted : Bool)   -- regular file; `tainted`: holds text of unknown length (an error message)
  | dir
  | null                                 -- a character device such as /dev/null
  | nodir                                -- a path whose parent directory does not exist
  deriving DecidableEq, Repr

inductive Tgt where
  | path (p : Path)
  | hd (content : Str)                   -- anonymous pipe / unlinked temp file holding a here-document
  deriving DecidableEq, Repr

/-- an open file description -/
structure Ofd where
  tgt : Tgt
  rd : Bool
  wr : Bool
  app : Bool
  pos : Nat
  upos : Bool := false      -- the real offset is unknown (text of unknown length was written through it)
  deriving DecidableEq, Repr

structure Sys where
  fs : Path → Option Node
  ofds : List Ofd
  rep : List Str          -- report lines written by the probe commands (oldest first)
  hazard : Bool           -- a write overlapped text of unknown length: the case cannot be compared byte for byte
  notes : List Nat := []  -- which departures from the reference semantics occurred (diagnostic labels only)
  nerr : Nat := 0         -- error messages written so far (each gets its own length, see `sysWrite`)

structure OFlags where
  rd : Bool := false
  wr : Bool := false
  creat : Bool := false
  trunc : Bool := false
  app : Bool := false
  excl : Bool := false
  deriving DecidableEq, Repr

def setFs (fs : Path → Option Node) (p : Path) (n : Node) : Path → Option Node :=
  fun q => if q = p then some n else fs q

def Sys.push (s : Sys) (o : Ofd) : Nat × Sys := (s.ofds.length, { s with ofds := s.ofds ++ [o] })

def mkOfd (p : Path) (f : OFlags) : Ofd := { tgt := .path p, rd := f.rd, wr := f.wr, app := f.app, pos := 0 }

/-- `open(2)` -/
def sysOpen (s : Sys) (p : Path) (f : OFlags) : Option (Nat × Sys) :=
  match s.fs p with
  | none =>
    if f.creat then some ({ s with fs := setFs s.fs p (.reg [] false) }.push (mkOfd p f)) else none
  | some (.reg _ _) =>
    if f.creat && f.excl then none
    else if f.trunc then some ({ s with fs := setFs s.fs p (.reg [] false) }.push (mkOfd p f))
    else some (s.push (mkOfd p f))
  | some .dir => if f.wr || f.creat then none else some (s.push (mkOfd p f))
  | some .null => if f.creat && f.excl then none else some (s.push (mkOfd p f))
  | some .nodir => none

def isReg (s : Sys) (p : Path) : Bool :=
  match s.fs p with
  | some (.reg _ _) => true
  | _ => false

/-- the bytes `d` with `b` written at offset `pos` (zero filled when past the end) -/
def overwrite (d : Str) (pos : Nat) (b : Str) : Str :=
  d.take pos ++ List.replicate (pos - d.length) (Char.ofNat 0) ++ b ++ d.drop (pos + b.length)

/-- `write(2)` through open file description `id`; `unknownLen`: the text is an error message whose
length differs between shells.  Returns `false` when the descriptor is not writable. -/
def sysWrite (s : Sys) (id : Nat) (b : Str) (unknownLen : Bool) : Sys × Bool :=
  match s.ofds[id]? with
  | none => (s, false)
  | some o =>
    if !o.wr then (s, false) else
    match o.tgt with
    | .hd _ => (s, false)
    | .path p =>
      match s.fs p with
      | some (.reg d t) =>
        -- text of unknown length: no two messages are given the same length, so that offsets that agree
        -- only by accident of the stand-in text are never taken for agreeing
        let b := if unknownLen then List.replicate s.nerr '#' ++ b else b
        let pos := if o.app then d.length else o.pos
        -- is the result predictable byte for byte?  (appending always is; a file holding text of unknown
        -- length may only be extended by the descriptor sitting at its end; a descriptor whose real
        -- offset is unknown may not write anywhere else; unknown text may not overwrite known text)
        let fine := o.app || (if t then o.upos && pos == d.length
                              else !o.upos && (!unknownLen || pos == d.length))
        ({ s with fs := setFs s.fs p (.reg (overwrite d pos b) (t || unknownLen)),
                  ofds := s.ofds.set id { o with pos := pos + b.length, upos := o.upos || t || unknownLen },
                  hazard := s.hazard || !fine,
                  nerr := if unknownLen then s.nerr + 1 else s.nerr }, true)
      | some .null => (s, true)
      | _ => (s, false)

/-! ## brush's tables -/

/-- `OpenFile`: the three `Stdin/Stdout/Stderr` variants name the process's own descriptors
(open file descriptions 0, 1, 2 of `Sys`); `File`/pipe variants share a handle -/
inductive H where
  | std (k : Fd)
  | file (id : Nat)
  deriving DecidableEq, Repr

def H.ofd : H → Nat
  | .std k => k
  | .file id => id

/-- `OpenFileEntry` -/
inductive Entry where
  | open (h : H)
  | notPresent
  | notSpecified
  deriving DecidableEq, Repr

abbrev Table := Fd → Entry

def emptyT : Table := fun _ => .notSpecified

def setT (t : Table) (fd : Fd) (e : Entry) : Table := fun x => if x = fd then e else t x

/-- `OpenFiles::try_fd` -/
def Table.tryFd (t : Table) (fd : Fd) : Option H :=
  match t fd with
  | .open h => some h
  | _ => none

/-- `ExecutionParameters::try_fd`: the command's overlay first, the shell's table otherwise -/
def tryFd (P O : Table) (fd : Fd) : Option H :=
  match O fd with
  | .open h => some h
  | .notPresent => none
  | .notSpecified => P.tryFd fd

/-! ## redirections -/

inductive Kind where
  | read | write | append | readWrite | clobber
  deriving DecidableEq, Repr

/-- the expanded word after `>&` / `<&`, its trailing `-` removed -/
inductive DupSrc where
  | none
  | fd (n : Fd)
  | word (p : Path)
  deriving DecidableEq, Repr

inductive Redir where
  | file (n : Option Fd) (k : Kind) (p : Path)
  | dup (n : Option Fd) (input : Bool) (src : DupSrc) (dash : Bool)
  | outErr (p : Path) (append : Bool)
  | here (n : Option Fd) (content : Str)          -- here-document or here-string, already expanded
  deriving DecidableEq, Repr

def defaultFd : Kind → Fd
  | .read => 0 | .write => 1 | .append => 1 | .readWrite => 0 | .clobber => 1

/-- the `OpenOptions` of `setup_redirect` -/
def flagsFor (nc : Bool) (existsReg : Bool) : Kind → OFlags
  | .read => { rd := true }
  | .write =>
    if nc then (if existsReg then { wr := true, creat := true, excl := true } else { wr := true, creat := true })
    else { wr := true, creat := true, trunc := true }
  | .append => { wr := true, creat := true, app := true }
  | .readWrite => { rd := true, wr := true, creat := true }
  | .clobber => { wr := true, creat := true, trunc := true }

/-- `setup_redirect_output_and_error_to`: one open (noclobber applies as for `>` unless appending),
then descriptors 1 and 2 share the handle -/
def outErrFlags (nc : Bool) (existsReg : Bool) (append : Bool) : OFlags :=
  if !append && nc then (if existsReg then { wr := true, creat := true, excl := true } else { wr := true, creat := true })
  else { wr := true, creat := true, trunc := !append, app := append }

def outErrTo (nc : Bool) (O : Table) (s : Sys) (p : Path) (append : Bool) : Option (Table × Sys) :=
  (sysOpen s p (outErrFlags nc (isReg s p) append)).map fun (id, s') =>
    (setT (setT O 1 (.open (.file id))) 2 (.open (.file id)), s')

/-- `setup_redirect` -/
def applyRedirect (nc : Bool) (P : Table) (O : Table) (s : Sys) : Redir → Option (Table × Sys)
  | .file n k p =>
    (sysOpen s p (flagsFor nc (isReg s p) k)).map fun (id, s') =>
      (setT O (n.getD (defaultFd k)) (.open (.file id)), s')
  | .dup n input src dash =>
    let fd := n.getD (if input then 0 else 1)
    -- `N>&-` closes N; `N>&M-` duplicates M onto N and closes M (`fd_to_close`)
    match src with
    | .none => some (if dash then setT O fd .notPresent else O, s)
    | .fd m => (tryFd P O m).map fun h =>
        (if dash ∧ m ≠ fd then setT (setT O fd (.open h)) m .notPresent else setT O fd (.open h), s)
    | .word p => if fd = 1 ∧ dash = false then outErrTo nc O s p false else none
  | .outErr p a => outErrTo nc O s p a
  | .here n c =>
    let (id, s') := s.push { tgt := .hd c, rd := true, wr := false, app := false, pos := 0 }
    some (setT O (n.getD 0) (.open (.file id)), s')

/-- the redirect loop: stops at the first failing redirection, keeping what was done so far -/
def applyAll (nc : Bool) (P : Table) (O : Table) (s : Sys) : List Redir → Table × Sys × Bool
  | [] => (O, s, true)
  | r :: rs =>
    match applyRedirect nc P O s r with
    | none => (O, s, false)
    | some (O', s') => applyAll nc P O' s' rs

/-! ## what commands do with their descriptors -/

def errText : Str := "<ERR>\n".toList

/-- an error message written to the command's standard error; `false` when that fails (closed or not writable) -/
def writeErrB (P O : Table) (s : Sys) : Sys × Bool :=
  match tryFd P O 2 with
  | none => (s, false)
  | some h => sysWrite s h.ofd errText true

def writeErr (P O : Table) (s : Sys) : Sys := (writeErrB P O s).1

/-- `compose_std_command` + `TryFrom<OpenFile> for Stdio` + `inject_fds`: the open file description
an external child finds at `fd`: the one the tables name (the `Std*` variants are duplicated for
whichever slot they are meant); a *closed* descriptor 0, 1 or 2 still makes the child inherit the
process's own descriptor of that slot. -/
def childFd (P O : Table) (fd : Fd) : Option Nat :=
  match tryFd P O fd with
  | none => if fd < 3 then some fd else none
  | some h => some h.ofd

def tagStr (n : Nat) : Str := 'p' :: natToStr n

def pathName : Path → Str
  | 0 => "w:a".toList | 1 => "w:b".toList | 2 => "w:c".toList | 3 => "w:ex".toList | 4 => "w:ex2".toList
  | 5 => "w:d".toList | 6 => "null".toList | 7 => "w:nd/x".toList | 8 => "OUT".toList | _ => "ERR".toList

def modeStr (o : Ofd) : Str :=
  (if o.rd && o.wr then "rw".toList else if o.wr then "w".toList else "r".toList) ++ (if o.app then ['a'] else [])

/-- the probe looking at one descriptor: its report field, and its effect (marker written / here-document drained) -/
def probeFd (tag : Nat) (s : Sys) (fd : Fd) (id : Nat) : Str × Sys :=
  match s.ofds[id]? with
  | none => ([], s)
  | some o =>
    match o.tgt with
    | .hd c =>
      (natToStr fd ++ "=hd/".toList ++ esc (c.drop o.pos),
       { s with ofds := s.ofds.set id { o with pos := c.length } })
    | .path p =>
      let s' := if o.wr then (sysWrite s id (['W'] ++ natToStr fd ++ ['t'] ++ tagStr tag ++ ['\n']) false).1 else s
      (natToStr fd ++ ['='] ++ (if p = 6 then "null".toList else pathName p) ++ ['/'] ++ modeStr o, s')

def probeFds (tag : Nat) (tbl : Fd → Option Nat) : List Fd → Sys → List Str × Sys
  | [], s => ([], s)
  | fd :: fds, s =>
    match tbl fd with
    | none =>
      -- the probe's language runtime reopens a closed descriptor 0, 1 or 2 on /dev/null before it looks
      let (fs, s') := probeFds tag tbl fds s
      if fd < 3 then ((natToStr fd ++ "=null/rw".toList) :: fs, s') else (fs, s')
    | some id =>
      let (f, s') := probeFd tag s fd id
      let (fs, s'') := probeFds tag tbl fds s'
      (f :: fs, s'')

def fds10 : List Fd := [0, 1, 2, 3, 4, 5, 6, 7, 8, 9]

/-- the external probe command run with the descriptor table `tbl` -/
def runProbe (tag : Nat) (tbl : Fd → Option Nat) (s : Sys) : Sys :=
  let (fields, s') := probeFds tag tbl fds10 s
  { s' with rep := s'.rep ++ [['P'] ++ tagStr tag ++ [' '] ++ joinWith [' '] fields] }

/-- the `echo` builtin writing `B<tag>` to its standard output; status -/
def runEcho (tag : Nat) (P O : Table) (s : Sys) : Sys × Nat :=
  match tryFd P O 1 with
  | none => (writeErr P O s, 1)
  | some h =>
    let (s', ok) := sysWrite s h.ofd (['B'] ++ natToStr tag ++ ['\n']) false
    if ok then (s', 0) else (writeErr P O s, 1)

/-! ## commands -/

/-- result of running a command: the shell's table, the system, `$?` -/
structure Res where
  P : Table
  s : Sys
  status : Nat

def Sys.note (s : Sys) (n : Nat) : Sys := if n ∈ s.notes then s else { s with notes := s.notes ++ [n] }

/-- label 1: an external command's descriptor 0, 1 or 2 is not the one the tables say -/
def noteStd (P O : Table) (s : Sys) : Sys :=
  if [0, 1, 2].any (fun fd => childFd P O fd != (tryFd P O fd).map H.ofd) then s.note 1 else s

/-- `own_redirected_fds`: the descriptors a successful redirection of the command itself changes
(`redirect_fd` / `close_redirected_fd` in `setup_redirect`; the auxiliary slot of a process
substitution is not among them) -/
def ownFds : Redir → List Fd
  | .file n k _ => [n.getD (defaultFd k)]
  | .dup n input src dash =>
    let fd := n.getD (if input then 0 else 1)
    match src with
    | .none => if dash then [fd] else []
    | .fd m => if dash ∧ m ≠ fd then [fd, m] else [fd]
    | .word _ => [1, 2]
  | .outErr _ _ => [1, 2]
  | .here n _ => [n.getD 0]

/-- the `exec` builtin without a command: the shell's table with the command's own descriptors
replaced by what the command sees there (`replace_open_files` keeps open entries only) -/
def entryOf : Option H → Entry
  | some h => .open h
  | none => .notSpecified

def persist (P O : Table) (own : List Fd) : Table := fun fd =>
  entryOf (if fd ∈ own then tryFd P O fd else P.tryFd fd)

/-- label 3: `exec` changes a descriptor that an enclosing command has redirected (the enclosing
redirection keeps shadowing it until that command ends, and is not put back afterwards) -/
def noteExec (O : Table) (rs : List Redir) (s : Sys) : Sys :=
  if (rs.flatMap ownFds).any (fun fd => O fd != .notSpecified) then s.note 3 else s

mutual
inductive Cmd where
  | probe (tag : Nat) (rs : List Redir)                 -- external command `$P tag rs`
  | echo (tag : Nat) (rs : List Redir)                  -- builtin `echo Btag rs`
  | exec (rs : List Redir)                              -- `exec rs`
  | group (body : Cmds) (rs : List Redir)               -- `{ body; } rs`, `for … done rs`, `while … done rs`
  | sub (body : Cmds) (rs : List Redir)                 -- `( body ) rs`
  | call (body : Cmds) (defrs : List Redir) (rs : List Redir)   -- `f() { body; } defrs` … `f rs`
inductive Cmds where
  | nil
  | cons (c : Cmd) (cs : Cmds)
end

/-- a simple command whose redirection failed: the message goes to the standard error in effect
(if that is writable) and the command has status 1 -/
def failSimple (P O : Table) (s : Sys) : Res := { P := P, s := writeErr P O s, status := 1 }

mutual
/-- `execute_in_pipeline` for one command; `O` is the `ExecutionParameters` table it is handed -/
def run (nc : Bool) : Cmd → Table → Table → Sys → Res
  | .probe tag rs, P, O, s =>
    let (O', s', ok) := applyAll nc P O s rs
    if ok then { P := P, s := runProbe tag (childFd P O') (noteStd P O' s'), status := 0 }
    else failSimple P O' s'
  | .echo tag rs, P, O, s =>
    let (O', s', ok) := applyAll nc P O s rs
    if ok then let (s'', st) := runEcho tag P O' s'; { P := P, s := s'', status := st }
    else failSimple P O' s'
  | .exec rs, P, O, s =>
    let (O', s', ok) := applyAll nc P O s rs
    if ok then { P := persist P O' (rs.flatMap ownFds), s := noteExec O rs s', status := 0 }
    else failSimple P O' s'
  | .group body rs, P, O, s =>
    let (O', s', ok) := applyAll nc P O s rs
    if ok then runs nc body P O' s' 0
    else failSimple P O' s'
  | .sub body rs, P, O, s =>
    let (O', s', ok) := applyAll nc P O s rs
    if ok then
      let r := runs nc body P O' s' 0
      -- the subshell is a clone: its table is dropped
      { P := P, s := r.s, status := r.status }
    else failSimple P O' s'
  | .call body defrs rs, P, O, s =>
    let (O', s', ok) := applyAll nc P O s rs
    if ok then
      let (O'', s'', ok2) := applyAll nc P O' s' defrs
      if ok2 then runs nc body P O'' s'' 0
      else failSimple P O'' s''
    else failSimple P O' s'
/-- a command list; `st` is the status so far -/
def runs (nc : Bool) : Cmds → Table → Table → Sys → Nat → Res
  | .nil, P, _, s, st => { P := P, s := s, status := st }
  | .cons c cs, P, O, s, _ =>
    let r := run nc c P O s
    runs nc cs r.P O r.s r.status
end

/-- one line of the script at top level -/
def runLine (nc : Bool) (c : Cmd) (P : Table) (s : Sys) : Table × Sys × Nat :=
  let r := run nc c P emptyT s
  (r.P, r.s, r.status)

def statusLine (st : Nat) : Str := ['S'] ++ natToStr st

def runScript (nc : Bool) : List Cmd → Table → Sys → Table × Sys
  | [], P, s => (P, s)
  | c :: cs, P, s =>
    let (P', s', st) := runLine nc c P s
    runScript nc cs P' { s' with rep := s'.rep ++ [statusLine st] }

/-! ## the initial world of the correspondence runs -/

def initFs : Path → Option Node
  | 3 => some (.reg "old\n".toList false)
  | 4 => some (.reg "two\n".toList false)
  | 5 => some .dir
  | 6 => some .null
  | 7 => some .nodir
  | 8 => some (.reg [] false)
  | 9 => some (.reg [] false)
  | _ => none

def initSys : Sys :=
  { fs := initFs,
    ofds := [ { tgt := .path 6, rd := true, wr := false, app := false, pos := 0 },
              { tgt := .path 8, rd := false, wr := true, app := false, pos := 0 },
              { tgt := .path 9, rd := false, wr := true, app := false, pos := 0 } ],
    rep := [], hazard := false }

/-- `OpenFiles::new` -/
def initP : Table := fun fd => if fd < 3 then .open (.std fd) else .notSpecified

end BrushVerif.Fd
