import BrushVerif.Model.Quote
/-!
# Scoped environments and the whole-environment listings (`declare -p`, `set`, `export -p`)

Mirrors `ShellEnvironment::iter_using_policy(Anywhere)` (brush-core/src/env.rs): the scopes are walked
innermost first and a variable is entered in the view only if its name has not been seen yet; the
listing builtins print one line per entry of that view.  `lookupEnv` is what the by-name forms use
(`get`: the first scope, innermost first, that holds the name).
-/
namespace BrushVerif.Quote
open BrushVerif.Wire

/-- a variable: attribute flags (brush order, without `a`/`A`), kind `s`/`a`/`A`, values
(scalar: one; indexed: the elements; associative: key, value, key, value, …) -/
structure Var where
  attrs : Str
  kind : Char
  vals : List Str
  deriving DecidableEq

abbrev Scope := List (Str × Var)
/-- innermost scope first -/
abbrev Env := List Scope

def seen (acc : List (Str × Var)) (n : Str) : Bool := acc.any (fun e => e.1 == n)

/-- one scope merged into the view: "only insert the variable if it hasn't been seen yet" -/
def mergeScope (acc : List (Str × Var)) : Scope → List (Str × Var)
  | [] => acc
  | e :: es => mergeScope (if seen acc e.1 then acc else acc ++ [e]) es

/-- `iter_using_policy`: the visible variables -/
def visibleFrom (acc : List (Str × Var)) : Env → List (Str × Var)
  | [] => acc
  | sc :: rest => visibleFrom (mergeScope acc sc) rest

def visible (env : Env) : List (Str × Var) := visibleFrom [] env

/-- by-name lookup: the innermost binding -/
def lookupEnv : Env → Str → Option Var
  | [], _ => none
  | sc :: rest, n => match sc.lookup n with
    | some v => some v
    | none => lookupEnv rest n

/-- a whole-environment listing: one printed entry per visible variable (`line` may print nothing) -/
def listing (line : Str → Var → Option Str) (env : Env) : List Str :=
  (visible env).filterMap (fun e => line e.1 e.2)

/-- a local declared over the bindings further out inherits their export attribute -/
def hasX (attrs : Str) : Bool := attrs.contains 'x'
def inheritX (declared : Str) (outerExported : Bool) : Str :=
  if outerExported && !hasX declared then declared ++ ['x'] else declared

end BrushVerif.Quote
