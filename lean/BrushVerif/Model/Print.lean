import BrushVerif.Model.Wire
/-!
# Printed form of function definitions (C14)

A token-level AST for the program grammar and `printFn`, which mirrors the `Display` impls of
brush-parser/src/ast.rs node by node (`FunctionDefinition`, `FunctionBody`, `Command`, `Pipeline`,
`AndOrList`, `CompoundList`, every `CompoundCommand`, `CaseItem`, `ElseClause`, `SimpleCommand`,
`CommandPrefixOrSuffixItem`, `RedirectList`, `IoRedirect`, `IoHereDocument`) including where blanks
are and are **not** written, and the `indenter::indented(f).with_str("    ")` wrapper (`indent`).
`declare -f`, `type` and the `BASH_FUNC_name%%` export all use this printer.

Words are opaque strings (the `Word.value` raw text), as in the AST.
-/
namespace BrushVerif.Print
open BrushVerif.Wire

mutual
inductive Redir where
  | file (fd : Option Str) (kind : Str) (tgt : Str)              -- `[fd]kind target` (file name, fd number or dup word)
  | filePs (fd : Option Str) (kind : Str) (dir : Str) (body : Items)  -- target is a process substitution
  | outErr (append : Bool) (tgt : Str)                           -- `&>` / `&>>`
  | hereStr (fd : Option Str) (w : Str)
  | hereDoc (fd : Option Str) (strip : Bool) (delim : Str) (body : Str)
inductive Redirs where
  | nil
  | cons (r : Redir) (rs : Redirs)
inductive SItem where
  | word (w : Str)                                               -- word or assignment word (printed alike)
  | redir (r : Redir)
  | procSub (dir : Str) (body : Items)
inductive SItems where
  | nil
  | cons (i : SItem) (rest : SItems)
inductive Cmd where
  | simple (pre : SItems) (name : Option Str) (suf : SItems)
  | comp (c : Compound) (rs : Redirs)
  | fdef (name : Str) (c : Compound) (rs : Redirs)
inductive Cmds where
  | nil
  | cons (c : Cmd) (rest : Cmds)
inductive Pipeline where
  | mk (timed : Nat) (bang : Bool) (first : Cmd) (rest : Cmds)   -- timed: 0 none, 1 `time`, 2 `time -p`
inductive AOs where
  | nil
  | cons (isAnd : Bool) (p : Pipeline) (rest : AOs)
inductive Items where                                            -- CompoundList
  | nil
  | cons (first : Pipeline) (more : AOs) (async : Bool) (tail : Items)
inductive Compound where
  | arith (e : Str)
  | afor (i c u : Str) (body : Items)
  | brace (l : Items)
  | sub (l : Items)
  | forIn (v : Str) (hasIn : Bool) (ws : List Str) (body : Items)
  | case (w : Str) (items : CaseItems)
  | ifC (cond thn : Items) (elses : Elses)
  | whileC (isUntil : Bool) (cond body : Items)
  | coproc (name : Option Str) (c : Cmd)
  | test (ws : List Str)
inductive CaseItems where
  | nil
  | cons (pats : List Str) (hasBody : Bool) (body : Items) (post : Nat) (rest : CaseItems)
inductive Elses where
  | nil
  | cons (hasCond : Bool) (cond body : Items) (rest : Elses)
end

/-! ## `indenter::Indented::write_str` with a uniform four-blank indentation

At character level: a newline is copied and arms the indentation; the indentation is written in
front of the next character that is not a newline (so empty lines stay empty). -/
def indentGo : Bool → Str → Str
  | _, [] => []
  | ni, c :: s =>
    if c = '\n' then '\n' :: indentGo true s
    else if ni then ' ' :: ' ' :: ' ' :: ' ' :: c :: indentGo false s
    else c :: indentGo false s

def indent (s : Str) : Str := indentGo true s

def joinWords : List Str → Str
  | [] => []
  | [w] => w
  | w :: ws => w ++ ' ' :: joinWords ws

def joinPats : List Str → Str
  | [] => []
  | [w] => w
  | w :: ws => w ++ '|' :: joinPats ws

def fdStr : Option Str → Str
  | none => []
  | some n => n

def postStr : Nat → Str
  | 0 => ";;".toList
  | 1 => ";&".toList
  | _ => ";;&".toList

/-- `SimpleCommand::fmt`: the three parts separated by one blank (`wrote_something`) -/
def joinSp (a b : Str) : Str := if a.isEmpty then b else if b.isEmpty then a else a ++ ' ' :: b

/-- what `RedirectList::fmt` writes in front of each redirect of a compound command / function
body: one blank (`done > /dev/null 2>& 1`). -/
def redirSep : Str := [' ']

mutual
def printRedir : Redir → Str
  | .file fd kind tgt => fdStr fd ++ kind ++ ' ' :: tgt
  | .filePs fd kind dir body => fdStr fd ++ kind ++ ' ' :: (dir ++ "( ".toList ++ printItems body ++ " )".toList)
  | .outErr app tgt => "&>".toList ++ (if app then ['>'] else []) ++ ' ' :: tgt
  | .hereStr fd w => fdStr fd ++ "<<< ".toList ++ w
  | .hereDoc fd strip delim body =>
    fdStr fd ++ "<<".toList ++ (if strip then ['-'] else []) ++ delim ++ '\n' :: body ++ delim ++ ['\n']
def printRedirs : Redirs → Str
  | .nil => []
  | .cons r rs => redirSep ++ printRedir r ++ printRedirs rs
def printSItem : SItem → Str
  | .word w => w
  | .redir r => printRedir r
  | .procSub dir body => dir ++ "( ".toList ++ printItems body ++ " )".toList
def printSItems : SItems → Str
  | .nil => []
  | .cons i .nil => printSItem i
  | .cons i (.cons j r) => printSItem i ++ ' ' :: printSItems (.cons j r)
def printCmd : Cmd → Str
  | .simple pre name suf =>
    joinSp (joinSp (printSItems pre) (match name with | some n => n | none => [])) (printSItems suf)
  | .comp c rs => printCompound c ++ printRedirs rs
  | .fdef name c rs => name ++ " () \n".toList ++ (printCompound c ++ printRedirs rs)
def printCmds : Cmds → Str
  | .nil => []
  | .cons c rest => " | ".toList ++ printCmd c ++ printCmds rest
def printPipeline : Pipeline → Str
  | .mk timed bang first rest =>
    (if timed = 0 then [] else if timed = 1 then "time ".toList else "time -p ".toList) ++
    (if bang then "! ".toList else []) ++ printCmd first ++ printCmds rest
def printAOs : AOs → Str
  | .nil => []
  | .cons isAnd p rest => (if isAnd then " && ".toList else " || ".toList) ++ printPipeline p ++ printAOs rest
def printItems : Items → Str
  | .nil => []
  | .cons p more async .nil => printPipeline p ++ printAOs more ++ (if async then ['&'] else [])
  | .cons p more async (.cons p2 m2 a2 t2) =>
    printPipeline p ++ printAOs more ++ (if async then ['&'] else [';']) ++ '\n' :: printItems (.cons p2 m2 a2 t2)
def printCompound : Compound → Str
  | .arith e => "((".toList ++ e ++ "))".toList
  | .afor i c u body =>
    "for ((".toList ++ i ++ "; ".toList ++ c ++ "; ".toList ++ u ++ "))\n".toList ++
      ("do\n".toList ++ indent (printItems body) ++ "\ndone".toList)
  | .brace l => "{ \n".toList ++ indent (printItems l) ++ "\n}".toList
  | .sub l => "( ".toList ++ printItems l ++ " )".toList
  | .forIn v hasIn ws body =>
    "for ".toList ++ v ++ (if hasIn then " in ".toList ++ joinWords ws else []) ++ ";\n".toList ++
      ("do\n".toList ++ indent (printItems body) ++ "\ndone".toList)
  | .case w items => "case ".toList ++ w ++ " in".toList ++ printCaseItems items ++ "\nesac".toList
  | .ifC cond thn elses =>
    "if ".toList ++ printItems cond ++ "; then\n".toList ++ indent (printItems thn) ++ printElses elses ++ "\nfi".toList
  | .whileC isUntil cond body =>
    (if isUntil then "until ".toList else "while ".toList) ++ printItems cond ++ "; ".toList ++
      ("do\n".toList ++ indent (printItems body) ++ "\ndone".toList)
  | .coproc name c =>
    "coproc".toList ++ (match name with | some n => ' ' :: n | none => []) ++ ' ' :: printCmd c
  | .test ws => "[[ ".toList ++ joinWords ws ++ " ]]".toList
def printCaseItems : CaseItems → Str
  | .nil => []
  | .cons pats hasBody body post rest =>
    indent ('\n' :: joinPats pats ++ ")\n".toList ++ (if hasBody then indent (printItems body) else []) ++
      '\n' :: postStr post) ++ printCaseItems rest
def printElses : Elses → Str
  | .nil => []
  | .cons hasCond cond body rest =>
    '\n' :: (if hasCond then "elif ".toList ++ printItems cond ++ "; then\n".toList else "else\n".toList) ++
      indent (printItems body) ++ printElses rest
end

/-- `FunctionDefinition::fmt` (what `declare -f name` and `type name` print) -/
def printFn (name : Str) (c : Compound) (rs : Redirs) : Str :=
  name ++ " () \n".toList ++ (printCompound c ++ printRedirs rs)

def isBrace : Compound → Bool
  | .brace _ => true
  | _ => false

/-- the value `compose_std_command` puts in `BASH_FUNC_name%%`: `() ` and the body; a body that is not
a brace group is put inside one (bash only imports values that start with `() {`). -/
def exportText (c : Compound) (rs : Redirs) : Str :=
  if isBrace c then "() ".toList ++ (printCompound c ++ printRedirs rs)
  else "() { \n".toList ++ (printCompound c ++ printRedirs rs) ++ "\n}".toList

/-! ## The function table (`FunctionEnv`: a map from names to definitions)

`declare -f name`, `type name`, `typeset -f`, the listings and the export all look the name up in the
shell's one function table and print the stored definition.  Defining (from any place: top level, a
function body, `eval`, a sourced file) replaces the entry; `unset -f` removes it; every other step of
a script (`other`: entering a function, a brace group, a loop, setting an option, printing) leaves the
table alone. -/

structure Def where
  c : Compound
  rs : Redirs

inductive FOp where
  | define (n : Str) (d : Def)
  | unset (n : Str)
  | other

abbrev FTab := List (Str × Def)

def FTab.step (t : FTab) : FOp → FTab
  | .define n d => (n, d) :: t.filter (fun e => e.1 != n)
  | .unset n => t.filter (fun e => e.1 != n)
  | .other => t

def FTab.run (t : FTab) (ops : List FOp) : FTab := ops.foldl FTab.step t

def FTab.get (t : FTab) (n : Str) : Option Def := (t.find? (fun e => e.1 == n)).map (·.2)

/-- what `declare -f n` prints (nothing, status 1, when `n` is not a function) -/
def declareF (t : FTab) (n : Str) : Option Str := (t.get n).map (fun d => printFn n d.c d.rs)

/-- does the step define or remove `n`? -/
def FOp.touches (n : Str) : FOp → Bool
  | .define m _ => m == n
  | .unset m => m == n
  | .other => false

/-! ## Reading the printed text back: the token level

`lex` cuts a text into maximal runs: words (neither blank, newline nor operator character), runs of
operator characters, and newlines.  A word made of digits that touches a following `<`/`>` is an fd
number (`ionum`).  This is the level at which adjacency matters: `done>` is `done`,`>` but
`/dev/null2>&` is the word `/dev/null2` followed by `>&`. -/

inductive Tok where
  | word (s : Str)
  | op (s : Str)
  | ionum (s : Str)
  | nl
  deriving DecidableEq, Repr

def isOpChar (c : Char) : Bool :=
  c == '<' || c == '>' || c == '&' || c == '|' || c == ';' || c == '(' || c == ')'

def isBlank (c : Char) : Bool := c == ' ' || c == '\t'

def isDigitC (c : Char) : Bool := '0' ≤ c && c ≤ '9'

/-- close the current run; `next` is the character that ended it -/
def emit (isOp : Bool) (cur : Str) (next : Option Char) : List Tok :=
  if cur.isEmpty then []
  else if isOp then [.op cur]
  else if cur.all isDigitC && (next == some '<' || next == some '>') then [.ionum cur]
  else [.word cur]

def lexGo (isOp : Bool) (cur : Str) : Str → List Tok
  | [] => emit isOp cur none
  | c :: s =>
    if c = '\n' then emit isOp cur none ++ .nl :: lexGo false [] s
    else if isBlank c then emit isOp cur none ++ lexGo false [] s
    else if isOpChar c then
      (if isOp then lexGo true (cur ++ [c]) s else emit false cur (some c) ++ lexGo true [c] s)
    else
      (if isOp then emit true cur none ++ lexGo false [c] s else lexGo false (cur ++ [c]) s)

def lex (s : Str) : List Tok := lexGo false [] s

end BrushVerif.Print
