import BrushVerif.Model.Wire
import BrushVerif.Model.Pattern
/-!
# Model of brush's word expansion: the piece/field algebra (C04, C05)

Mirrors `brush-core/src/expansion.rs`, including its present defects:
* `ExpansionPiece` (`Piece`), `WordField` (`Field`), `Expansion {fields, concatenate, from_array, undefined}`;
* `expand_word_piece` for the pieces the word parser produces (`A0`/`A1`/`WP`: text, single/ANSI-C quoted
  text, escape sequence, tilde, parameter, `$@`/`$*`/`${a[@]}`/`${a[*]}`, command substitution with its
  output supplied as data, arithmetic value supplied as data, `${p:-w}`/`${p-w}`/`${p:+w}`/`${p+w}`,
  double-quoted sequences);
* `process_double_quoted_pieces` (`dqStep`, `expandDQ`), `coalesce_expansions` (`coalesce`, `glue`),
  `fields_to_string`, `split_fields` (`splitFields`: exactly the loop in the code),
  `From<ExpansionPiece> for PatternPiece` (`toPattern`), `Pattern::expand` restricted to one directory level
  (`patExpand`), `expand_pathnames_in_field` (`globField`), `full_expand_with_splitting` (`fullExpand`);
* `brace_expand_if_needed`: alternatives are generated as *text*, joined with a space and the joined text
  is expanded as one word (`braceJoin`) — so the alternatives are separated again only if IFS holds a space,
  and only the first generated word can keep a tilde-prefix (`tildeFix`).

The word is given as the parser's piece list (the parser itself is exercised by the correspondence
run: the same word goes to brush as text and to this model as pieces).
-/
namespace BrushVerif.Expand
open BrushVerif.Wire

/-! ## pieces, fields, expansions -/

inductive Piece
  | unsplit (s : Str)
  | split (s : Str)
deriving DecidableEq, Repr

def Piece.str : Piece → Str
  | .unsplit s => s
  | .split s => s

/-- `make_unsplittable` -/
def Piece.mkUnsplit : Piece → Piece
  | .unsplit s => .unsplit s
  | .split s => .unsplit s

def Piece.isUnsplit : Piece → Bool
  | .unsplit _ => true
  | .split _ => false

abbrev Field := List Piece

/-- `From<WordField> for String` -/
def fieldStr (f : Field) : Str := f.flatMap Piece.str

structure Expansion where
  fields : List Field
  concatenate : Bool := true
  fromArray : Bool := false
  undefined : Bool := false
deriving Repr

def Expansion.ofPiece (p : Piece) : Expansion := { fields := [[p]] }
def Expansion.ofStr (s : Str) : Expansion := .ofPiece (.split s)
/-- `Expansion::undefined()` -/
def Expansion.undef : Expansion := { fields := [[.split []]], undefined := true }

/-! ## environment -/

structure Env where
  vars : List (Str × Str) := []
  arrays : List (Str × List Str) := []
  args : List Str := []
  /-- `none`: IFS unset -/
  ifs : Option Str := some [' ', '\t', '\n']
  home : Str := []
  /-- reference-semantics switch (used by `Spec/WordExp.lean` only): with an empty IFS, `$*` inside quotes joins
  with nothing, as bash does. brush (`false`) joins with a space. -/
  bashStarJoin : Bool := false
deriving Repr

/-- `Shell::ifs` -/
def Env.ifsStr (e : Env) : Str := e.ifs.getD [' ', '\t', '\n']

/-- `get_ifs_first_char`: a space when IFS is empty (bash: no separator at all) -/
def Env.ifsFirst (e : Env) : Char :=
  match e.ifsStr with
  | c :: _ => c
  | [] => ' '

def lookup (l : List (Str × α)) (n : Str) : Option α :=
  match l with
  | [] => none
  | (k, v) :: r => if k = n then some v else lookup r n

/-- the separator `"$*"` / `"${a[*]}"` / `x=$*` put between elements -/
def Env.joiner (e : Env) : Str :=
  match e.ifsStr with
  | c :: _ => [c]
  | [] => if e.bashStarJoin then [] else [' ']

inductive Param
  | named (n : Str)
  | pos (k : Nat)                       -- `$1`… (k ≥ 1)
  | allPos (concat : Bool)              -- `$*` (true) / `$@` (false)
  | allIdx (n : Str) (concat : Bool)    -- `${n[*]}` / `${n[@]}`
  | count                               -- `$#`
deriving DecidableEq, Repr

def arrayExp (vals : List Str) (concat : Bool) : Expansion :=
  { fields := vals.map fun v => [.split v], concatenate := concat, fromArray := true }

/-- `expand_parameter_without_indirect` -/
def expandParam (env : Env) : Param → Expansion
  | .named n =>
    match lookup env.vars n with
    | some v => .ofStr v
    | none =>
      match lookup env.arrays n with
      | some (v :: _) => .ofStr v
      | _ => .undef
  | .pos k =>
    match env.args[k - 1]? with
    | some v => if k = 0 then .undef else .ofStr v
    | none => .undef
  | .allPos c => arrayExp env.args c
  | .allIdx n c =>
    match lookup env.arrays n with
    | some vs => arrayExp vs c
    | none =>
      match lookup env.vars n with
      | some v => arrayExp [v] c
      | none => arrayExp [] c
  | .count => .ofStr (natToStr env.args.length)

/-! ## word pieces (what `brush_parser::word::parse` returns), three non-recursive layers -/

/-- pieces that contain no word -/
inductive A0
  | text (s : Str)
  | sq (s : Str)          -- 'single quoted'
  | ansic (s : Str)       -- $'…', already decoded
  | esc (s : Str)         -- `\c`: the escaped character(s)
  | tilde                 -- `~`
  | param (p : Param)
  | cmdsub (out : Str)    -- `$(…)` / backquotes, with the command's output
  | arith (v : Str)       -- `$((…))`, with its value
deriving DecidableEq, Repr

/-- a word piece of the operand of `${p:-w}` -/
inductive W0
  | plain (a : A0)
  | dq (as : List A0)
deriving DecidableEq, Repr

inductive A1
  | base (a : A0)
  /-- `${p-w}` `${p:-w}` (`alt = false`), `${p+w}` `${p:+w}` (`alt = true`) -/
  | op (alt colon : Bool) (p : Param) (w : List W0)
deriving DecidableEq, Repr

inductive WP
  | plain (a : A1)
  | dq (as : List A1)
deriving DecidableEq, Repr

abbrev Word := List WP

/-! ## `coalesce_expansions`, `process_double_quoted_pieces` -/

/-- append the fields of the next expansion: its first field continues the last one so far -/
def glue : List Field → List Field → List Field
  | [], new => new
  | acc, [] => acc
  | [a], f :: fs => (a ++ f) :: fs
  | a :: b :: rest, new => a :: glue (b :: rest) new

def coalesce (es : List Expansion) : Expansion :=
  es.foldl (fun acc e => { fields := glue acc.fields e.fields, concatenate := e.concatenate,
                           fromArray := e.fromArray, undefined := acc.undefined })
    { fields := [] }

def intersperseFlat (sep : Field) : List Field → Field
  | [] => []
  | [f] => f
  | f :: g :: r => f ++ sep ++ intersperseFlat sep (g :: r)

/-- one iteration of the loop in `process_double_quoted_pieces` -/
def dqStep (joiner : Str) (fields : List Field) (e : Expansion) : List Field :=
  let toAppend : List Field :=
    if e.concatenate then
      let c := intersperseFlat [.unsplit joiner] (e.fields.map fun f => f.map Piece.mkUnsplit)
      [if c.isEmpty then [.split []] else c]
    else e.fields
  glue fields (toAppend.map fun f => f.map Piece.mkUnsplit)

/-- some `"$@"`-like piece (non-concatenating) of the quoted text produced no field at all -/
def sawEmptyList (es : List Expansion) : Bool := es.any fun e => !e.concatenate && e.fields.isEmpty

/-- at most one field, and its text is empty -/
def nullOnly (fields : List Field) : Bool :=
  decide (fields.length ≤ 1) && fields.all fun f => f.all fun p => p.str.isEmpty

/-- the end of `process_double_quoted_pieces`: a `"$@"` / `"${a[@]}"` without elements yields no field at all,
also when the rest of the quoted text expands to nothing (`"$@$empty"` is removed like `"$@"`) -/
def dropNullAt (es : List Expansion) (fields : List Field) : List Field :=
  if sawEmptyList es && nullOnly fields then [] else fields

/-- the `DoubleQuotedSequence` arm of `expand_word_piece`, given the expansions of its pieces -/
def expandDQ (joiner : Str) (es : List Expansion) : Expansion :=
  let fields := dropNullAt es (es.foldl (dqStep joiner) [])
  { fields := if es.isEmpty then fields ++ [[.unsplit []]] else fields, concatenate := false }

/-! ## `expand_word_piece` -/

def trimTrailingNl (s : Str) : Str := (s.reverse.dropWhile (· = '\n')).reverse

def expandA0 (env : Env) : A0 → Expansion
  | .text s => .ofPiece (.split s)
  | .sq s => .ofPiece (.unsplit s)
  | .ansic s => .ofPiece (.unsplit s)
  | .esc s => .ofPiece (.unsplit s)
  | .tilde => .ofPiece (.unsplit env.home)
  | .param p => expandParam env p
  | .cmdsub out => .ofPiece (.split (trimTrailingNl (out.filter (· ≠ Char.ofNat 0))))
  | .arith v => .ofPiece (.split v)

def expandW0 (env : Env) : W0 → Expansion
  | .plain a => expandA0 env a
  | .dq as => expandDQ env.joiner (as.map (expandA0 env))

def W0.atoms : W0 → List A0
  | .plain a => [a]
  | .dq as => as

inductive PState | undef | emptyStr | nonzero
deriving DecidableEq, Repr

/-- `Expansion::classify` -/
def classify (e : Expansion) : PState :=
  if e.undefined then .undef
  else if e.fields.any (fun f => f.any fun p => !p.str.isEmpty) then .nonzero
  else if e.fields.isEmpty then .undef
  else .emptyStr

/-- `expand_parameter_word`: inside double quotes the operand is re-read as `"operand"`, unless it is
itself one double-quoted string, which is then read as an unquoted word -/
def expandOpWord (env : Env) (inDq : Bool) (w : List W0) : Expansion :=
  if inDq then
    match w with
    | [.dq as] => coalesce (as.map (expandA0 env))
    | _ => coalesce [expandDQ env.joiner ((w.flatMap W0.atoms).map (expandA0 env))]
  else coalesce (w.map (expandW0 env))

def expandA1 (env : Env) (inDq : Bool) : A1 → Expansion
  | .base a => expandA0 env a
  | .op alt colon p w =>
    let e := expandParam env p
    let st := classify e
    let isSet : Bool := st = .nonzero || (!colon && st = .emptyStr)
    if alt then (if isSet then expandOpWord env inDq w else .ofStr [])
    else (if isSet then e else expandOpWord env inDq w)

def expandWP (env : Env) : WP → Expansion
  | .plain a => expandA1 env false a
  | .dq as => expandDQ env.joiner (as.map (expandA1 env true))

/-- `basic_expand` (without the brace stage) -/
def basicExpand (env : Env) (w : Word) : Expansion := coalesce (w.map (expandWP env))

/-- `fields_to_string` -/
def fieldsToString (env : Env) (e : Expansion) : Str :=
  joinWith (if e.concatenate then env.joiner else [' ']) (e.fields.map fieldStr)

/-- `basic_expand_to_str`: what a scalar assignment, a `case` word, a here-string stores -/
def expandToStr (env : Env) (w : Word) : Str := fieldsToString env (basicExpand env w)

/-! ## `split_fields` -/

/-- `last.push(c)` on a splittable last piece, else push a new splittable piece -/
def pushChar : Field → Char → Field
  | [], c => [.split [c]]
  | [.split l], c => [.split (l ++ [c])]
  | [.unsplit u], c => [.unsplit u, .split [c]]
  | p :: q :: r, c => p :: pushChar (q :: r) c

abbrev SplitSt := List Field × Field

def splitChars (ifs : Str) : SplitSt → Str → SplitSt
  | st, [] => st
  | (fs, cur), c :: cs =>
    if ifs.contains c then
      (if cur.isEmpty then splitChars ifs (fs, cur) cs else splitChars ifs (fs ++ [cur], []) cs)
    else splitChars ifs (fs, pushChar cur c) cs

def splitPieces (ifs : Str) : SplitSt → List Piece → SplitSt
  | st, [] => st
  | (fs, cur), .unsplit s :: ps => splitPieces ifs (fs, cur ++ [.unsplit s]) ps
  | st, .split s :: ps => splitPieces ifs (splitChars ifs st s) ps

def flushCur : SplitSt → SplitSt
  | (fs, cur) => if cur.isEmpty then (fs, []) else (fs ++ [cur], [])

def splitGo (ifs : Str) : SplitSt → List Field → List Field
  | st, [] => st.1
  | st, f :: rest => splitGo ifs (flushCur (splitPieces ifs st f)) rest

def splitFields (ifs : Str) (e : Expansion) : List Field := splitGo ifs ([], []) e.fields

/-! ## pathname expansion over one directory level -/

structure Opts where
  nullglob : Bool := false
  failglob : Bool := false
  dotglob : Bool := false
  extglob : Bool := true
  noglob : Bool := false
deriving Repr

inductive PatPiece
  | pattern (s : Str)
  | literal (s : Str)
deriving DecidableEq, Repr

def PatPiece.str : PatPiece → Str
  | .pattern s => s
  | .literal s => s

/-- `From<ExpansionPiece> for PatternPiece` -/
def toPattern : Piece → PatPiece
  | .unsplit s => .literal s
  | .split s => .pattern s

/-- `pattern_text` (patterns.rs): the joined pattern text, literal pieces with their `needsQuoting` characters escaped -/
def patternText (ps : List PatPiece) : Str :=
  ps.flatMap fun
    | .pattern s => s
    | .literal s => Pattern.escapeLiteral s

/-- `requires_expansion(pattern_text(pieces))`: the question "is this a glob?" is asked of the joined pattern text
(quoted pieces escaped), so a construct spread over several pieces (`[a"b"]`) counts, and quoted metacharacters do not -/
def requiresExpansion (ext : Bool) (ps : List PatPiece) : Bool := Pattern.hasGlob ext (patternText ps)

inductive GlobRes
  | noGlob
  | expanded (paths : List Str)
deriving Repr

/-- the dot-file rule of `Pattern::expand`: does the first piece that contributes any text start with a dot?
(an empty quoted piece in front — `"".*` — is skipped) -/
def firstStartsWithDot : List PatPiece → Bool
  | [] => false
  | p :: r => if p.str.isEmpty then firstStartsWithDot r else Pattern.startsWithDot p.str

/-- `Pattern::expand` for a pattern without `/`, in a directory whose entries are `names` -/
def patExpand (opts : Opts) (names : List Str) (ps : List PatPiece) : GlobRes :=
  if ps.isEmpty then .noGlob
  else if !requiresExpansion opts.extglob ps then .expanded [ps.flatMap PatPiece.str]
  else
    let allowDot := opts.dotglob || firstStartsWithDot ps
    .expanded (Pattern.sortStrs (names.filter fun n =>
      Pattern.exactlyMatches opts.extglob false (patternText ps) n && (!Pattern.startsWithDot n || allowDot)))

/-- `expand_pathnames_in_field`; `none` = the failglob error -/
def globField (opts : Opts) (names : List Str) (f : Field) : Option (List Str) :=
  match patExpand opts names (f.map toPattern) with
  | .noGlob => if opts.nullglob then some [] else some [fieldStr f]
  | .expanded paths =>
    if paths.isEmpty then
      (if opts.failglob then none else if opts.nullglob then some [] else some [fieldStr f])
    else some paths

def globFields (opts : Opts) (names : List Str) : List Field → Option (List Str)
  | [] => some []
  | f :: fs =>
    if opts.noglob then (globFields opts names fs).map (fieldStr f :: ·)
    else match globField opts names f with
      | none => none
      | some r => (globFields opts names fs).map (r ++ ·)

/-- `full_expand_with_splitting` (without the brace stage) -/
def fullExpand (env : Env) (opts : Opts) (names : List Str) (w : Word) : Option (List Str) :=
  globFields opts names (splitFields env.ifsStr (basicExpand env w))

/-! ## brace expansion as brush does it -/

/-- a word with (one level of) brace expressions: plain pieces and `{alt,alt,…}` -/
inductive BP
  | piece (p : WP)
  | braces (alts : List Word)
deriving Repr

abbrev BWord := List BP

/-- `generate_and_combine_brace_expansions`: the cartesian product, leftmost varying slowest -/
def braceProduct : BWord → List Word
  | [] => [[]]
  | .piece p :: r => (braceProduct r).map (p :: ·)
  | .braces alts :: r => alts.flatMap fun a => (braceProduct r).map (a ++ ·)

def hasBraces (w : BWord) : Bool := w.any fun | .braces _ => true | .piece _ => false

/-- `brace_expand_if_needed`: the generated words joined with an unquoted space (an empty one written `""`);
the joined text is then re-read as ONE word (`braceJoin`) -/
def braceJoinRaw (w : BWord) : Word :=
  if hasBraces w then
    let ws := (braceProduct w).map fun x => if x.isEmpty then [WP.dq []] else x
    match ws with
    | [] => []
    | x :: r => x ++ r.flatMap fun y => WP.plain (.base (.text [' '])) :: y
  else w.filterMap fun | .piece p => some p | .braces _ => none

/-! ### the tilde-prefix rule of the word parser

`brush_parser::word`: a tilde expression is recognised only at the very start of the text handed to the
parser (`tilde_expr_prefix`), and only if the `~` is directly followed by a `tilde_terminator`
(`/`, `:`, `;`, `}`) or the end of the text; any other `~` is literal text. Because the brace stage hands the
parser the *joined* text, only the first generated word can still have its tilde-prefix — and not even that
one when it is `~` alone (then a space follows). -/

def isTilde : WP → Bool
  | .plain (.base .tilde) => true
  | _ => false

/-- a `~` that is ordinary text -/
def litTilde : WP := .plain (.base (.text ['~']))

def untildeAll (w : Word) : Word := w.map fun p => if isTilde p then litTilde else p

/-- `tilde_terminator` of brush's word grammar -/
def tildeTermsBrush : List Char := ['/', ':', ';', '}']

/-- what may follow a tilde-prefix in bash (unquoted slash; colon as in bash's default mode) -/
def tildeTermsBash : List Char := ['/', ':']

def tildeFollowOk (terms : List Char) : Word → Bool
  | [] => true
  | .plain (.base (.text (c :: _))) :: _ => terms.contains c
  | _ => false

/-- a piece list as the parser produces it for the same text: a tilde piece survives only in first position
and before a terminator; all others are the literal character -/
def tildeFix (terms : List Char) : Word → Word
  | [] => []
  | p :: rest =>
    (if isTilde p && !tildeFollowOk terms rest then litTilde else p) :: untildeAll rest

/-- the word brush expands: the joined text as its parser reads it -/
def braceJoin (w : BWord) : Word := tildeFix tildeTermsBrush (braceJoinRaw w)

def fullExpandB (env : Env) (opts : Opts) (names : List Str) (w : BWord) : Option (List Str) :=
  fullExpand env opts names (braceJoin w)

end BrushVerif.Expand
