import BrushVerif.Model.Wire
/-!
# Model of brush's shell-pattern matching (C08)

Mirrors, rule by rule and including its present defects,
* `brush-parser/src/pattern.rs` `pattern_to_regex_translator` (`parsePat`, `toRe`, `Re.render`:
  pattern text → regular-expression text),
* `brush-core/src/patterns.rs` `to_regex_str` / `exactly_matches` and `brush-core/src/regex.rs`
  `compile_regex` (anchors `^…$`, flags `(?s)`, search-anywhere `is_match`): `anchoredSearch`,
* the per-component filter of `Pattern::expand` (`globDir`),
and gives the emitted regex subset an executable backtracking semantics (`Re.run`: from a subject
suffix to the priority-ordered list of remainders).
-/
namespace BrushVerif.Pattern
open BrushVerif.Wire

/-- `regex_char_needs_escaping` (pattern.rs) -/
def needsEsc (c : Char) : Bool :=
  c ∈ ['[', ']', '(', ')', '{', '}', '*', '?', '.', '+', '^', '$', '|', '\\', '-']

/-- `regex_char_is_special` (regex.rs) -/
def isSpecial (c : Char) : Bool :=
  c ∈ ['\\', '^', '$', '.', '|', '?', '*', '+', '(', ')', '[', ']', '{', '}']

/-- `single_char_bracket_member`: the character and whether it was written `\c` -/
structure SM where
  esc : Bool
  c : Char
deriving DecidableEq, Repr

inductive Member
  | cls (name : Str)          -- `[:name:]`
  | range (f t : SM)          -- only ranges with `f.c ≤ t.c` are kept
  | single (m : SM)
deriving DecidableEq, Repr

inductive Kind | plus | at | bang | quest | star
deriving DecidableEq, Repr

/-- parsed pattern (what the PEG grammar recognises) -/
inductive Pat
  | eps
  | lit (c : Char)                        -- an ordinary or backslash-escaped character
  | any                                   -- `?`
  | many                                  -- `*`
  | bracket (inv : Bool) (ms : List Member)
  | seq (a b : Pat)
  | alt (a b : Pat)                       -- `a|b` inside an extglob group
  | group0 (k : Kind)                     -- `k()` (no branch at all)
  | group (k : Kind) (body : Pat)         -- `k(b1|b2|…)`
deriving DecidableEq, Repr

/-- the regular-expression subset brush emits -/
inductive Re
  | eps
  | chr (c : Char)
  | any                                   -- `.` under `(?s)`
  | cls (inv : Bool) (ms : List Member)
  | fail                                  -- `(?!)`
  | seq (a b : Re)
  | alt (a b : Re)
  | grp (a : Re)                          -- `( … )`
  | ncg (a : Re)                          -- `(?: … )`
  | atomic (a : Re)                       -- `(?> … )`
  | nla (a : Re)                          -- `(?! … )`
  | star (a : Re) | plus (a : Re) | opt (a : Re)
  | lazyPlus (a : Re)                     -- `a+?`
deriving DecidableEq, Repr

/-! ## parsing (pattern.rs) -/

def classNames : List Str :=
  ["alnum", "alpha", "blank", "cntrl", "digit", "graph", "lower", "print", "punct", "space", "upper", "xdigit"].map String.toList

def stripPrefix? : Str → Str → Option Str
  | [], s => some s
  | _ :: _, [] => none
  | p :: ps, c :: cs => if p = c then stripPrefix? ps cs else none

def parseSingle : Str → Option (SM × Str)
  | '\\' :: c :: r => some (⟨true, c⟩, r)
  | c :: r => if c = ']' then none else some (⟨false, c⟩, r)
  | [] => none

def parseClass (s : Str) : Option (Member × Str) :=
  classNames.findSome? fun n =>
    (stripPrefix? (['[', ':'] ++ n ++ [':', ']']) s).map fun r => (Member.cls n, r)

/-- `bracket_member`: `some (none, r)` is a syntactically valid but empty (reversed) range -/
def parseMember (s : Str) : Option (Option Member × Str) :=
  match parseClass s with
  | some (m, r) => some (some m, r)
  | none =>
    match parseSingle s with
    | none => none
    | some (f, r) =>
      let single := some (some (Member.single f), r)
      match r with
      | '-' :: r1 =>
        match parseSingle r1 with
        | some (t, r2) => if f.c ≤ t.c then some (some (.range f t), r2) else some (none, r2)
        | none => single
      | _ => single

/-- `bracket_member()+` : number of members parsed, the kept ones, the rest -/
def parseMembers : Nat → Str → Nat × List Member × Str
  | 0, s => (0, [], s)
  | fuel + 1, s =>
    match parseMember s with
    | none => (0, [], s)
    | some (m, r) =>
      let (n, ms, r') := parseMembers fuel r
      (n + 1, (match m with | some x => x :: ms | none => ms), r')

/-- `leading_close_bracket()?`: a `]` right after `[`, `[!` or `[^` is an ordinary member (possibly the
start of a range); `some (none, r)` is a reversed range that is dropped -/
def parseLeadingClose : Str → Option (Option Member × Str)
  | ']' :: '-' :: r1 =>
    match parseSingle r1 with
    | some (t, r2) => if ']' ≤ t.c then some (some (.range ⟨false, ']'⟩ t), r2) else some (none, r2)
    | none => some (some (.single ⟨false, ']'⟩), '-' :: r1)
  | ']' :: r => some (some (.single ⟨false, ']'⟩), r)
  | _ => none

def parseBracket : Str → Option (Pat × Str)
  | '[' :: r =>
    let (inv, r1) : Bool × Str := match r with
      | '!' :: t => (true, t)
      | '^' :: t => (true, t)
      | _ => (false, r)
    let (nFirst, msFirst, r2) : Nat × List Member × Str := match parseLeadingClose r1 with
      | some (some m, r') => (1, [m], r')
      | some (none, r') => (1, [], r')
      | none => (0, [], r1)
    match parseMembers r2.length r2 with
    | (n, ms, ']' :: r3) => if nFirst + n = 0 then none else some (.bracket inv (msFirst ++ ms), r3)
    | _ => none
  | _ => none

def kindOf : Char → Option Kind
  | '+' => some .plus
  | '@' => some .at
  | '!' => some .bang
  | '?' => some .quest
  | '*' => some .star
  | _ => none

mutual
/-- `pattern_piece` -/
def parsePiece (ext : Bool) : Nat → Str → Option (Pat × Str)
  | 0, _ => none
  | _, [] => none
  | fuel + 1, c :: r =>
    -- escape_sequence
    match c, r with
    | '\\', d :: r' => some (.lit d, r')
    | _, _ =>
    match parseBracket (c :: r) with
    | some x => some x
    | none =>
    let extg : Option (Pat × Str) :=
      if ext then
        match kindOf c, r with
        | some k, '(' :: r1 =>
          match r1 with
          | ')' :: r2 => some (.group0 k, r2)
          | _ =>
            match parseBranches ext fuel r1 with
            | some (b, r2) => some (.group k b, r2)
            | none => none
        | _, _ => none
      else none
    match extg with
    | some x => some x
    | none =>
      if c = '?' then some (.any, r)
      else if c = '*' then some (.many, r)
      else some (.lit c, r)

/-- `extended_glob_branch() ** "|"` followed by `)` -/
def parseBranches (ext : Bool) : Nat → Str → Option (Pat × Str)
  | 0, _ => none
  | fuel + 1, s =>
    let (b, r) := parsePieces ext true fuel s
    match r with
    | ')' :: r' => some (b, r')
    | '|' :: r' =>
      match parseBranches ext fuel r' with
      | some (bs, r'') => some (.alt b bs, r'')
      | none => none
    | _ => none

/-- `pattern_piece()*`; inside a branch stops before `|` and `)` -/
def parsePieces (ext : Bool) (inBranch : Bool) : Nat → Str → Pat × Str
  | 0, s => (.eps, s)
  | fuel + 1, s =>
    match s with
    | [] => (.eps, [])
    | c :: _ =>
      if inBranch && (c = '|' || c = ')') then (.eps, s)
      else
        match parsePiece ext fuel s with
        | none => (.eps, s)
        | some (p, r) =>
          let (ps, r') := parsePieces ext inBranch fuel r
          (.seq p ps, r')
end

/-- `pattern_to_regex_translator::pattern` -/
def parsePat (ext : Bool) (s : Str) : Pat := (parsePieces ext false (4 * s.length + 4) s).1

/-! ## translation to the regular expression and its text -/

def toRe : Pat → Re
  | .eps => .eps
  | .lit c => .chr c
  | .any => .any
  | .many => .star .any
  | .bracket inv ms => if ms.isEmpty then (if inv then .any else .fail) else .cls inv ms
  | .seq a b => .seq (toRe a) (toRe b)
  | .alt a b => .alt (toRe a) (toRe b)
  | .group0 .bang => .ncg (.plus .any)
  | .group .bang b =>
    .ncg (.alt (.seq (.nla (toRe b)) (.star .any)) (.alt (.seq (.atomic (toRe b)) (.lazyPlus .any)) .eps))
  | .group0 .plus => .plus (.grp .eps)
  | .group0 .quest => .opt (.grp .eps)
  | .group0 .star => .star (.grp .eps)
  | .group0 .at => .grp .eps
  | .group .plus b => .plus (.grp (toRe b))
  | .group .quest b => .opt (.grp (toRe b))
  | .group .star b => .star (.grp (toRe b))
  | .group .at b => .grp (toRe b)

/-- `char::is_ascii_punctuation` -/
def isAsciiPunct (c : Char) : Bool :=
  let v := c.toNat
  (33 ≤ v && v ≤ 47) || (58 ≤ v && v ≤ 64) || (91 ≤ v && v ≤ 96) || (123 ≤ v && v ≤ 126)

/-- text of a single member: a written backslash is kept only in front of punctuation the regex
syntax accepts as an escaped literal; unescaped `[ ] & ~ ^` get a backslash (`]` can only be the
leading member) -/
def SM.render (m : SM) : Str :=
  if m.esc then (if isAsciiPunct m.c && m.c != '<' && m.c != '>' then ['\\', m.c] else [m.c])
  else if m.c = '[' || m.c = ']' || m.c = '&' || m.c = '~' || m.c = '^' then ['\\', m.c] else [m.c]

/-- a range endpoint: `-` is always escaped there -/
def SM.renderEnd (m : SM) : Str := if m.c = '-' then ['\\', '-'] else m.render

def Member.render : Member → Str
  | .cls n => ['[', ':'] ++ n ++ [':', ']']
  | .range f t => f.renderEnd ++ ['-'] ++ t.renderEnd
  | .single m => m.render

def endsWithDash (t : Str) : Bool := t.getLast? = some '-'

/-- `members.join("")` after the fix-up loop of `bracket_expression`: a lone `-` member right
after a member text ending in `-` is written `\-` -/
def renderMembersGo (prevDash : Bool) : List Member → Str
  | [] => []
  | m :: ms =>
    let t := m.render
    let t' := if prevDash && t = ['-'] then ['\\', '-'] else t
    t' ++ renderMembersGo (endsWithDash t') ms

def renderMembers (ms : List Member) : Str := renderMembersGo false ms

def Re.render : Re → Str
  | .eps => []
  | .chr c => if needsEsc c then ['\\', c] else [c]
  | .any => ['.']
  | .cls inv ms => ['['] ++ (if inv then ['^'] else []) ++ renderMembers ms ++ [']']
  | .fail => "(?!)".toList
  | .seq a b => a.render ++ b.render
  | .alt a b => a.render ++ ['|'] ++ b.render
  | .grp a => ['('] ++ a.render ++ [')']
  | .ncg a => "(?:".toList ++ a.render ++ [')']
  | .atomic a => "(?>".toList ++ a.render ++ [')']
  | .nla a => "(?!".toList ++ a.render ++ [')']
  | .star a => a.render ++ ['*']
  | .plus a => a.render ++ ['+']
  | .opt a => a.render ++ ['?']
  | .lazyPlus a => a.render ++ ['+', '?']

/-- `brush_parser::pattern::pattern_to_regex_str` -/
def patternToRegexStr (ext : Bool) (s : Str) : Str := (toRe (parsePat ext s)).render

/-- the characters `pattern_text` (patterns.rs) quotes in a literal piece: the regex-special ones and
the others that mean something to the pattern grammar -/
def needsQuoting (c : Char) : Bool := isSpecial c || c = '!' || c = '-' || c = '@' || c = ':'

/-- the `Literal` arm of `pattern_text`: how a quoted segment enters the pattern text -/
def escapeLiteral (s : Str) : Str := s.flatMap fun c => if needsQuoting c then ['\\', c] else [c]

/-! ## `pattern_has_glob_metacharacters` -/

def globPieceAt (ext : Bool) (s : Str) : Bool :=
  match s with
  | [] => false
  | c :: _ =>
    (parseBracket s).isSome ||
    (ext && (match parsePiece true (4 * s.length + 4) s with
             | some (.group _ _, _) => true
             | some (.group0 _, _) => true
             | _ => false)) ||
    c = '?' || c = '*'

def hasGlob (ext : Bool) : Str → Bool
  | [] => false
  | '\\' :: _ :: r => hasGlob ext r
  | c :: r => globPieceAt ext (c :: r) || hasGlob ext r

/-! ## semantics of the emitted regex subset -/

def lower (c : Char) : Char := if 'A' ≤ c ∧ c ≤ 'Z' then Char.ofNat (c.toNat + 32) else c
def upper (c : Char) : Char := if 'a' ≤ c ∧ c ≤ 'z' then Char.ofNat (c.toNat - 32) else c

/-- character equality, optionally ASCII case-insensitive -/
def eqc (nc : Bool) (a b : Char) : Bool := a = b || (nc && lower a = lower b)

def isDigit (c : Char) : Bool := '0' ≤ c ∧ c ≤ '9'
def isLower (c : Char) : Bool := 'a' ≤ c ∧ c ≤ 'z'
def isUpper (c : Char) : Bool := 'A' ≤ c ∧ c ≤ 'Z'

/-- POSIX classes as the regex crate defines them (ASCII only) -/
def inClass (n : Str) (c : Char) : Bool :=
  let v := c.toNat
  if n = "alnum".toList then isDigit c || isLower c || isUpper c
  else if n = "alpha".toList then isLower c || isUpper c
  else if n = "blank".toList then c = ' ' || c = '\t'
  else if n = "cntrl".toList then v < 32 || v = 127
  else if n = "digit".toList then isDigit c
  else if n = "graph".toList then 33 ≤ v && v ≤ 126
  else if n = "lower".toList then isLower c
  else if n = "print".toList then 32 ≤ v && v ≤ 126
  else if n = "punct".toList then (33 ≤ v && v ≤ 126) && !(isDigit c || isLower c || isUpper c)
  else if n = "space".toList then c = ' ' || (9 ≤ v && v ≤ 13)
  else if n = "upper".toList then isUpper c
  else if n = "xdigit".toList then isDigit c || ('a' ≤ c ∧ c ≤ 'f') || ('A' ≤ c ∧ c ≤ 'F')
  else false

def inRange (f t c : Char) : Bool := f ≤ c ∧ c ≤ t

/-- membership; `fc`: a named class is case-folded too (the regex crate under `(?i)` does, bash's
`nocasematch` does not) -/
def Member.has (nc fc : Bool) (m : Member) (c : Char) : Bool :=
  match m with
  | .cls n => inClass n c || (nc && fc && (inClass n (lower c) || inClass n (upper c)))
  | .range f t => inRange f.c t.c c || (nc && (inRange f.c t.c (lower c) || inRange f.c t.c (upper c)))
  | .single m => eqc nc m.c c

def memB (nc fc : Bool) (ms : List Member) (c : Char) : Bool := ms.any (·.has nc fc c)

/-- Kleene iteration over a one-step function, skipping empty iterations; greedy order -/
def starGo (f : Str → List Str) : Nat → Str → List Str
  | 0, s => [s]
  | fuel + 1, s => ((f s).filter (fun r => r.length < s.length)).flatMap (starGo f fuel) ++ [s]

/-- lazy order: stop first, then iterate -/
def lazyGo (f : Str → List Str) : Nat → Str → List Str
  | 0, s => [s]
  | fuel + 1, s => s :: ((f s).filter (fun r => r.length < s.length)).flatMap (lazyGo f fuel)

/-- backtracking semantics: all remainders after matching a prefix of `s`, in priority order -/
def Re.run (nc : Bool) : Re → Str → List Str
  | .eps, s => [s]
  | .chr c, s => match s with
    | d :: t => if eqc nc c d then [t] else []
    | [] => []
  | .any, s => match s with
    | _ :: t => [t]
    | [] => []
  | .cls inv ms, s => match s with
    | d :: t => if memB nc true ms d != inv then [t] else []
    | [] => []
  | .fail, _ => []
  | .seq a b, s => (a.run nc s).flatMap (b.run nc)
  | .alt a b, s => a.run nc s ++ b.run nc s
  | .grp a, s => a.run nc s
  | .ncg a, s => a.run nc s
  | .atomic a, s => (a.run nc s).take 1
  | .nla a, s => if (a.run nc s).isEmpty then [s] else []
  | .star a, s => starGo (a.run nc) s.length s
  | .plus a, s => (a.run nc s).flatMap fun r => starGo (a.run nc) r.length r
  | .opt a, s => a.run nc s ++ [s]
  | .lazyPlus a, s => (a.run nc s).flatMap fun r => lazyGo (a.run nc) r.length r

/-- the regex matches the whole of `s` -/
def Re.full (nc : Bool) (re : Re) (s : Str) : Bool := (re.run nc s).any (·.isEmpty)

/-- `(?s)^re$` searched anywhere in the subject (`fancy_regex::Regex::is_match`): the search tries
every start offset, but `^` holds only at offset 0 (`atStart`) and `$` only at the very end of the
subject (no `m` flag since the repair of `compile_regex`; `s` keeps `.` matching newlines). -/
def anchoredSearch (nc : Bool) (re : Re) : Bool → Str → Bool
  | atStart, [] => atStart && (re.run nc []).any (·.isEmpty)
  | atStart, c :: t => (atStart && (re.run nc (c :: t)).any (·.isEmpty)) || anchoredSearch nc re false t

/-- `Pattern::exactly_matches` as brush computes it -/
def exactlyMatches (ext nc : Bool) (p s : Str) : Bool := anchoredSearch nc (toRe (parsePat ext p)) true s

/-! ### class-text features that used to be read by the regex crate in its own way
(kept as predicates: since the repairs of `single_char_bracket_member` / `char_range` /
`bracket_expression` the emitted text no longer has them — see `Props/C08.lean`) -/

def isAlnum (c : Char) : Bool := isDigit c || isLower c || isUpper c

def SM.odd (m : SM) : Bool := m.esc && isAlnum m.c

def Member.odd : Member → Bool
  | .cls _ => false
  | .range f t => f.odd || t.odd
  | .single m => m.odd

/-- unescaped `--`, `&&`, `~~` inside the class text are set operators of the regex crate -/
def hasSetOp : Str → Bool
  | '\\' :: _ :: r => hasSetOp r
  | a :: b :: r => (a = b && (a = '-' || a = '&' || a = '~')) || hasSetOp (b :: r)
  | _ => false

def Pat.backslashAlnum : Pat → Bool
  | .bracket _ ms => ms.any Member.odd
  | .seq a b => a.backslashAlnum || b.backslashAlnum
  | .alt a b => a.backslashAlnum || b.backslashAlnum
  | .group _ b => b.backslashAlnum
  | _ => false

def Pat.setOp : Pat → Bool
  | .bracket _ ms => hasSetOp (renderMembers ms)
  | .seq a b => a.setOp || b.setOp
  | .alt a b => a.setOp || b.setOp
  | .group _ b => b.setOp
  | _ => false

def Member.isCls : Member → Bool
  | .cls _ => true
  | _ => false

def Pat.hasCls : Pat → Bool
  | .bracket _ ms => ms.any Member.isCls
  | .seq a b => a.hasCls || b.hasCls
  | .alt a b => a.hasCls || b.hasCls
  | .group _ b => b.hasCls
  | _ => false

/-- a non-inverted class whose text starts with `^` (a reversed range was dropped in front of a `^`
member): the regex crate reads it as a negation -/
def Pat.caretFirst : Pat → Bool
  | .bracket inv ms => !inv && (match renderMembers ms with | '^' :: _ => true | _ => false)
  | .seq a b => a.caretFirst || b.caretFirst
  | .alt a b => a.caretFirst || b.caretFirst
  | .group _ b => b.caretFirst
  | _ => false

def Pat.hasBang : Pat → Bool
  | .seq a b => a.hasBang || b.hasBang
  | .alt a b => a.hasBang || b.hasBang
  | .group .bang _ => true
  | .group0 .bang => true
  | .group _ b => b.hasBang
  | _ => false

/-! ## pathname expansion, one directory level (`Pattern::expand`, glob component) -/

def strLt : Str → Str → Bool
  | [], [] => false
  | [], _ :: _ => true
  | _ :: _, [] => false
  | a :: as, b :: bs => a < b || (a = b && strLt as bs)

def insertSorted (x : Str) : List Str → List Str
  | [] => [x]
  | y :: ys => if strLt y x then y :: insertSorted x ys else x :: y :: ys

def sortStrs (l : List Str) : List Str := l.foldr insertSorted []

def startsWithDot : Str → Bool
  | '.' :: _ => true
  | _ => false

/-- names of a directory selected by one glob component (`dotglob` = `!require_dot_in_pattern…`) -/
def globDir (ext nc dotglob : Bool) (p : Str) (names : List Str) : List Str :=
  let allowDot := dotglob || startsWithDot p
  sortStrs (names.filter fun n => exactlyMatches ext nc p n && (!startsWithDot n || allowDot))

/-! ## patterns as lists of pieces (`PatternPiece`, `Pattern::to_regex_str`, `Pattern::expand`)

Word expansion hands a pattern over as a list of pieces, cut at every quoting and expansion
boundary: `[a"b"]` arrives as `[a`, literal `b`, `]`; `[$set]` as `[`, `abc`, `]`. -/

inductive PatPiece
  | lit (s : Str)      -- came out of quotes / a backslash escape: to be matched literally
  | pat (s : Str)      -- unquoted text: pattern syntax is live
deriving DecidableEq, Repr

/-- `PatternPiece::as_str` -/
def PatPiece.raw : PatPiece → Str
  | .lit s => s
  | .pat s => s

/-- the loop of `pattern_text` (used by `to_regex_str` and by `Pattern::expand`): unquoted pieces are
appended as they are, quoted ones with a backslash in front of every `needsQuoting` character -/
def piecesTextGo (acc : Str) : List PatPiece → Str
  | [] => acc
  | .pat s :: ps => piecesTextGo (acc ++ s) ps
  | .lit s :: ps => piecesTextGo (s.foldl (fun a c => if needsQuoting c then a ++ ['\\', c] else a ++ [c]) acc) ps

def piecesText (ps : List PatPiece) : Str := piecesTextGo [] ps

/-- `Pattern::exactly_matches` on a piece list (what `case`, `[[ == ]]`, `${v#p}` … compute) -/
def piecesMatch (ext nc : Bool) (ps : List PatPiece) (s : Str) : Bool :=
  exactlyMatches ext nc (piecesText ps) s

/-- the declarative reading: the pieces joined, quoted ones escaped -/
def PatPiece.text : PatPiece → Str
  | .lit s => escapeLiteral s
  | .pat s => s

def joinPieces (ps : List PatPiece) : Str := ps.flatMap PatPiece.text

/-- `requires_expansion` asked of one piece on its own — what `Pattern::expand` used to do, and what
no consumer may do (see `piecewise_glob_test_is_unsound`) -/
def PatPiece.requiresExpansion (ext : Bool) : PatPiece → Bool
  | .pat s => hasGlob ext s
  | .lit _ => false

/-- `subpattern_starts_with_dot`: the first piece that contributes any text decides (a component
that follows a quoted `"dir/"` starts with an empty piece) -/
def componentStartsWithDot (ps : List PatPiece) : Bool :=
  match ps.find? (fun p => !p.raw.isEmpty) with
  | some p => startsWithDot p.raw
  | none => false

/-- `Pattern::expand` for a one-component pattern in one directory: `none` = the early exit "the
pattern does not require expansion" (the word is kept as it is), decided on the joined,
quote-escaped text; the dot-file rule looks at the first non-empty piece -/
def expandPieces (ext nc dotglob : Bool) (ps : List PatPiece) (names : List Str) : Option (List Str) :=
  if !hasGlob ext (piecesText ps) then none
  else
    let allowDot := dotglob || componentStartsWithDot ps
    some (sortStrs (names.filter fun n => piecesMatch ext nc ps n && (!startsWithDot n || allowDot)))

/-! ## the compiled-regex cache (`compile_regex`, regex.rs)

`REGEX_CACHE` is an LRU map from everything the compiled regex depends on — the regex text and the
two flags — to the compiled regex. Whatever was matched before, in whatever function, subshell or
option state, a lookup must answer what a fresh compilation would. -/

structure CKey where
  text : Str
  nc : Bool          -- case-insensitive
  ml : Bool          -- "multiline" (`(?s)` prefix)
deriving DecidableEq, Repr

/-- one use of the cache: hit (move the entry to the front) or compile, insert, evict beyond `cap` -/
def cacheGet {β : Type} (compile : CKey → β) (cap : Nat) (c : List (CKey × β)) (k : CKey) : β × List (CKey × β) :=
  match c.find? (fun e => e.1 = k) with
  | some e => (e.2, e :: c.filter (fun x => x.1 ≠ k))
  | none => let v := compile k; (v, ((k, v) :: c).take cap)

/-- the answers of a sequence of uses, starting from cache `c` -/
def runCache {β : Type} (compile : CKey → β) (cap : Nat) : List (CKey × β) → List CKey → List β
  | _, [] => []
  | c, k :: ks => let (v, c') := cacheGet compile cap c k; v :: runCache compile cap c' ks

end BrushVerif.Pattern
