import BrushVerif.Model.Quote
/-!
# Model of the read side: what `eval` makes of a piece of text

`rd` mirrors brush-parser's tokenizer (quote modes, backslash, blanks, `#` comments) composed with the
word parser of brush-parser/src/word.rs (single quotes, double quotes with the escapable set
`$` `` ` `` `"` `\`, unquoted backslash, `$'…'`, tilde prefix) and `expand_backslash_escapes`
(brush-core/src/escape.rs, mode `AnsiCQuotes`) for the text that the quoting routines can produce.
Constructs outside that fragment (parameter/command substitution, operators, globs, braces, `\c`,
`\u`, bytes ≥ 0x80 from escapes …) give `unsup`: the correspondence check then decides the property
on brush alone.  `bash := true` selects bash's reading of `\0dd` (at most three digits in total).
-/
namespace BrushVerif.Quote
open BrushVerif.Wire

def home : Str := "/hh".toList

def oct? (c : Char) : Option Nat := if '0' ≤ c ∧ c ≤ '7' then some (c.toNat - 48) else none
def isOct (c : Char) : Bool := (oct? c).isSome

/-- a decoded byte: NUL crops the string and bytes ≥ 0x80 are not characters — both unsupported -/
def emitByte (n : Nat) : Option Str := if n = 0 ∨ 128 ≤ n then none else some [Char.ofNat n]

/-- decoder state: plain text, just after a backslash, inside an octal escape (`k` more digits allowed) -/
inductive ASt | norm | esc | oct (k acc : Nat)
  deriving DecidableEq

def stepNorm (c : Char) : ASt × Option Str := if c = '\\' then (.esc, some []) else (.norm, some [c])

/-- the character after a backslash. An octal escape has at most three digits in all (`\0` included),
in brush as in bash -/
def stepEsc (_bash : Bool) (e : Char) : ASt × Option Str :=
  if e = 'a' then (.norm, emitByte 7)
  else if e = 'b' then (.norm, emitByte 8)
  else if e = 'e' ∨ e = 'E' then (.norm, emitByte 27)
  else if e = 'f' then (.norm, emitByte 12)
  else if e = 'n' then (.norm, emitByte 10)
  else if e = 'r' then (.norm, emitByte 13)
  else if e = 't' then (.norm, emitByte 9)
  else if e = 'v' then (.norm, emitByte 11)
  else if e = '\\' ∨ e = '\'' ∨ e = '"' ∨ e = '?' then (.norm, some [e])
  else if e = 'c' ∨ e = 'x' ∨ e = 'u' ∨ e = 'U' then (.norm, none)
  else match oct? e with
    | some v => (.oct 2 v, some [])
    | none => (.norm, some ['\\', e])

def step (bash : Bool) : ASt → Char → ASt × Option Str
  | .norm, c => stepNorm c
  | .esc, e => stepEsc bash e
  | .oct k acc, c =>
    match k, oct? c with
    | k + 1, some v => (.oct k (acc * 8 + v), some [])
    | _, _ => ((stepNorm c).1, (emitByte acc).bind fun b => (stepNorm c).2.map (b ++ ·))

def flush : ASt → Option Str
  | .norm => some []
  | .esc => some ['\\']
  | .oct _ acc => emitByte acc

def runA (bash : Bool) : ASt → Str → Option Str
  | st, [] => flush st
  | st, c :: cs =>
    match (step bash st c).2, runA bash (step bash st c).1 cs with
    | some o, some r => some (o ++ r)
    | _, _ => none

/-- `expand_backslash_escapes(s, AnsiCQuotes)`; `none` = outside the modelled fragment -/
def expandAnsiC (bash : Bool) (s : Str) : Option Str := runA bash .norm s

/-- position of the text: arguments of a command, or the value of an assignment -/
inductive Pos | arg | asg
  deriving DecidableEq

inductive St
  | un (started wstart : Bool)   -- unquoted; `started`: a token is in progress; `wstart`: nothing of the word read yet
  | sq | dq | ac
  deriving DecidableEq

/-- result: in state `ac`, `raw` is the rest of the `$'…'` body; `cur` the rest of the current
word (`none`: no word in progress), `rest` the following words -/
inductive Res
  | ok (raw : Str) (cur : Option Str) (rest : List Str)
  | err
  | unsup
  deriving DecidableEq

namespace Res
def push (c : Char) : Res → Res
  | ok raw cur rest => ok raw (some (c :: cur.getD [])) rest
  | r => r
def pushRaw (c : Char) : Res → Res
  | ok raw cur rest => ok (c :: raw) cur rest
  | r => r
def start : Res → Res
  | ok raw cur rest => ok raw (some (cur.getD [])) rest
  | r => r
def prepend (s : Str) : Res → Res
  | ok raw cur rest => ok raw (some (s ++ cur.getD [])) rest
  | r => r
def endWord (started : Bool) : Res → Res
  | ok _ cur rest => ok [] (if started then some [] else none) (cur.toList ++ rest)
  | r => r
def closeAnsi (bash : Bool) : Res → Res
  | ok raw cur rest =>
    match expandAnsiC bash raw with
    | some dec => ok [] (some (dec ++ cur.getD [])) rest
    | none => unsup
  | r => r
def dropRaw : Res → Res
  | ok _ cur rest => ok [] cur rest
  | r => r
end Res

inductive Cls | blank | nl | bslash | squote | dquote | dollar | bad | hash | tilde | colon | lit
  deriving DecidableEq

/-- characters the unquoted state does not take literally and the model does not interpret -/
def unsupUnq : List Char := ['`', '|', '&', ';', '<', '>', '(', ')', '*', '?', '[', '{', '}']

def classify (c : Char) : Cls :=
  if c = ' ' ∨ c = '\t' then .blank
  else if c = '\n' then .nl
  else if c = '\\' then .bslash
  else if c = '\'' then .squote
  else if c = '"' then .dquote
  else if c = '$' then .dollar
  else if unsupUnq.contains c then .bad
  else if c = '#' then .hash
  else if c = '~' then .tilde
  else if c = ':' then .colon
  else .lit

inductive TK | home | literal | unsup
  deriving DecidableEq

def isUserChar (c : Char) : Bool :=
  ('A' ≤ c && c ≤ 'Z') || ('a' ≤ c && c ≤ 'z') || ('0' ≤ c && c ≤ '9') || c = '.' || c = '_' || c = '-' || c = '+'

def isTildeEnd : Str → Bool
  | [] => true
  | c :: _ => c = ' ' || c = '\t' || c = '/' || c = ':'

/-- what a `~` at the start of a word is, given the text after it (word.rs `tilde_expression`) -/
def tildeKind (cs : Str) : TK :=
  if isTildeEnd cs then .home
  else
    let u := cs.takeWhile isUserChar
    if !u.isEmpty && isTildeEnd (cs.dropWhile isUserChar) then .unsup else .literal

def dqEscapable (c : Char) : Bool := c = '$' || c = '`' || c = '"' || c = '\\'

/-- the reader -/
def rd (bash : Bool) : St → Str → Res
  | .un started _, [] => .ok [] (if started then some [] else none) []
  | .un started wstart, c :: cs =>
    match classify c with
    | .blank => (rd bash (.un false true) cs).endWord started
    | .nl => .unsup
    | .bad => .unsup
    | .bslash =>
      match cs with
      | [] => .unsup
      | c' :: cs' =>
        if c' = '\n' then .unsup
        else if c' = '$' ∧ cs'.head? = some '\'' then .unsup
        else (rd bash (.un true false) cs').push c'
    | .squote => (rd bash .sq cs).start
    | .dquote => (rd bash .dq cs).start
    | .dollar =>
      match cs with
      | '\'' :: cs' => (rd bash .ac cs').closeAnsi bash
      | _ => .unsup
    | .hash =>
      if started then (rd bash (.un true false) cs).push c
      else if cs.contains '\n' then .unsup else .ok [] none []
    | .tilde =>
      if wstart then
        match tildeKind cs with
        | .home => (rd bash (.un true false) cs).prepend home
        | .literal => (rd bash (.un true false) cs).push c
        | .unsup => .unsup
      else (rd bash (.un true false) cs).push c
    | .colon =>
      if cs.head? = some '~' then .unsup else (rd bash (.un true false) cs).push c
    | .lit => (rd bash (.un true false) cs).push c
  | .sq, [] => .err
  | .sq, c :: cs => if c = '\'' then rd bash (.un true false) cs else (rd bash .sq cs).push c
  | .dq, [] => .err
  | .dq, c :: cs =>
    if c = '"' then rd bash (.un true false) cs
    else if c = '$' ∨ c = '`' then .unsup
    else if c = '\\' then
      match cs with
      | [] => .err
      | c' :: cs' =>
        if dqEscapable c' then (rd bash .dq cs').push c'
        else if c' = '\n' then rd bash .dq cs'
        else ((rd bash .dq cs').push c').push c
    else (rd bash .dq cs).push c
  | .ac, [] => .err
  | .ac, c :: cs =>
    if c = '\'' then (rd bash (.un true false) cs).dropRaw
    else if c = '\\' then
      match cs with
      | [] => .err
      | c' :: cs' => if c' = '\n' then .unsup else ((rd bash .ac cs').pushRaw c').pushRaw c
    else (rd bash .ac cs).pushRaw c

/-- outcome of a read, as the harness prints it -/
inductive Out
  | words (ws : List Str)
  | value (v : Str)
  | none
  | err
  | unsup
  deriving DecidableEq

/-- `eval "set -- <text>"` -/
def readArgs (bash : Bool) (t : Str) : Out :=
  match rd bash (.un false true) t with
  | .ok _ cur rest => .words (cur.toList ++ rest)
  | .err => .err
  | .unsup => .unsup

/-- `eval "zzr=<text>"`: further words make it a command run with a temporary binding -/
def readAsg (bash : Bool) (t : Str) : Out :=
  match rd bash (.un true true) t with
  | .ok _ cur [] => .value (cur.getD [])
  | .ok _ _ _ => .none
  | .err => .err
  | .unsup => .unsup

end BrushVerif.Quote
