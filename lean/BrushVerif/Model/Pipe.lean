import BrushVerif.Model.Wire
/-!
# Pipelines, command substitution, `read` — executable model (C11)

Mirrors `brush-core/src/interp.rs` (`spawn_pipeline_processes`,
`wait_for_pipeline_processes_and_update_status`), `commands.rs`
(`execute_via_builtin_in_owned_shell`, `invoke_command_in_subshell_and_get_output`,
`execute_builtin_command`'s broken-pipe mapping), `expansion.rs` (trailing-newline trimming) and
`brush-builtins/src/read.rs` (`read_line_with_reader`, one byte per `read(2)`).

A pipeline is a list of cells, left to right.  A cell is a stage together with **its input
channel**: for stage 0 that is the file it reads (never blocks, already closed by its writer), for
stage `i+1` the kernel pipe written by stage `i` (holds at most `cap` bytes).  The last stage writes
to `out` (a file: never blocks).

How brush starts stages (`spawn_pipeline_processes`): one after the other; an *external command* or
a *builtin* (run on a blocking thread in a cloned shell) is started and left running
(`inline = false`); a *compound command, function call or function definition* is **executed to
completion before the next stage is started** (`inline = true`).  All pipes exist before the first
stage starts, so a started stage can fill its output pipe while its reader is not started yet.

A step is one action of one stage, chosen by the scheduler (position `p`) together with a chunk
size (`n+1` bytes at most — a `write(2)` moves a block, not a byte):
start, forward a chunk, fail on a closed pipe, exit at EOF, exit at the stage's own limit.
-/
namespace BrushVerif.Pipe
open BrushVerif.Wire

abbrev Byte := Nat

/-- What a stage does, as far as the plumbing can see. -/
structure Spec where
  /-- brush runs the stage to completion inside `spawn_pipeline_processes` (compound / function) -/
  inline : Bool
  /-- bytewise transformation of what it forwards (`cat` = id, `tr` = a map) -/
  f : Byte → Byte
  /-- leaves after forwarding this many bytes (`head -n 1`, `read`, `break`) -/
  limit : Option Nat
  /-- writes what it forwards (false: only consumes — `read x`, `:`) -/
  emit : Bool
  /-- a failed write (reader gone) ends the stage with 141; false: the failing builtin returns 141
  and the shell code of the stage carries on (brush: `execute_builtin_command` maps
  `BrokenPipe` to an ordinary exit status) -/
  sigpipe : Bool

inductive St where
  | notStarted
  | running (fwd : Nat) (failed : Bool)
  | exited (code : Nat)
  deriving DecidableEq, Repr

def St.isExited : St → Bool
  | .exited _ => true
  | _ => false

def St.isStarted : St → Bool
  | .notStarted => false
  | _ => true

structure Cell where
  spec : Spec
  /-- the stage's input channel: bytes written by the upstream stage and not yet read -/
  buf : List Byte
  st : St

structure State where
  cells : List Cell
  out : List Byte

/-- status of shell code whose last write failed with EPIPE (`ExecutionExitCode::BrokenPipe`) -/
def exitCode (failed : Bool) : Nat := if failed then 141 else 0

/-- May the stage after `c` be started?  (`spawn_pipeline_processes`: the loop reaches the next
stage once `execute_in_pipeline` has returned: at once for a spawned process / blocking task,
after completion for an inline stage.) -/
def spawnOK (c : Cell) : Bool := c.st.isStarted && (!c.spec.inline || c.st.isExited)

/-- bytes the stage may still forward before its own limit (`n+1` = the scheduler's chunk) -/
def remaining (c : Cell) (fwd n : Nat) : Nat :=
  match c.spec.limit with
  | some l => l - fwd
  | none => n + 1

/-- the stage has forwarded what it wanted (`head -n 1` after its line, `:` at once) -/
def limitReached (c : Cell) (fwd : Nat) : Bool :=
  match c.spec.limit with
  | some l => decide (l ≤ fwd)
  | none => false

/-- The action of the stage at the head of `cells`.  `u`: its input's writer has closed (upstream
exited, or the input is a file); `v`: the spawner may start it.  `n+1` = largest chunk. -/
def headAct (cap n : Nat) (u v : Bool) (cells : List Cell) (out : List Byte) :
    Option (List Cell × List Byte) :=
  match cells with
  | [] => none
  | c :: cs =>
    match c.st with
    | .notStarted => if v then some ({ c with st := .running 0 false } :: cs, out) else none
    | .exited _ => none
    | .running fwd failed =>
      if limitReached c fwd then some ({ c with st := .exited 0 } :: cs, out)
      else if c.buf.isEmpty then
        (if u then some ({ c with st := .exited (exitCode failed) } :: cs, out) else none)
      else
        let m := min (c.buf.take (n + 1)).length (remaining c fwd n)
        if m = 0 then none
        else if !c.spec.emit then
          some ({ c with buf := c.buf.drop m, st := .running (fwd + m) failed } :: cs, out)
        else match cs with
          | [] => some ([{ c with buf := c.buf.drop m, st := .running (fwd + m) failed }],
                        out ++ (c.buf.take m).map c.spec.f)
          | d :: ds =>
            if d.st.isExited then
              (if c.spec.sigpipe then some ({ c with st := .exited 141 } :: d :: ds, out)
               else some ({ c with buf := c.buf.drop m, st := .running (fwd + m) true } :: d :: ds, out))
            else
              let k := min m (cap - d.buf.length)
              if k = 0 then none
              else some ({ c with buf := c.buf.drop k, st := .running (fwd + k) failed } ::
                         { d with buf := d.buf ++ (c.buf.take k).map c.spec.f } :: ds, out)

/-- The action of the stage at position `p`. -/
def stepAt (cap n : Nat) : Nat → Bool → Bool → List Cell → List Byte → Option (List Cell × List Byte)
  | 0, u, v, cells, out => headAct cap n u v cells out
  | _ + 1, _, _, [], _ => none
  | p + 1, _, _, c :: cs, out =>
    (stepAt cap n p c.st.isExited (spawnOK c) cs out).map (fun r => (c :: r.1, r.2))

def act (cap n p : Nat) (s : State) : Option State :=
  (stepAt cap n p true true s.cells s.out).map (fun r => { cells := r.1, out := r.2 })

/-- one scheduler choice: stage `p` acts with chunk size `n+1` -/
def Step (cap : Nat) (s s' : State) : Prop := ∃ p n, act cap n p s = some s'

inductive Steps (cap : Nat) : State → State → Prop
  | refl (s) : Steps cap s s
  | tail {s t u} : Steps cap s t → Step cap t u → Steps cap s u

def Done (s : State) : Prop := ∀ c ∈ s.cells, c.st.isExited = true

/-- nobody can move, yet somebody has not finished -/
def Stuck (cap : Nat) (s : State) : Prop := ¬ Done s ∧ ∀ s', ¬ Step cap s s'

def mkCells : List Spec → List Byte → List Cell
  | [], _ => []
  | sp :: sps, inp => { spec := sp, buf := inp, st := .notStarted } :: mkCells sps []

/-- the pipeline `specs` reading the file `input`, nothing started -/
def init (specs : List Spec) (input : List Byte) : State :=
  { cells := mkCells specs input, out := [] }

def codeOf : St → Nat
  | .exited c => c
  | _ => 0

/-- exit codes of the stages, in order (what the wait loop sees) -/
def codes (s : State) : List Nat := s.cells.map (fun c => codeOf c.st)

/-! ## A deterministic scheduler (for the driver): run until nothing moves -/

/-- leftmost stage (scanning `k` positions from `p`) that can act with chunk `n+1` -/
def firstEnabled (cap n : Nat) (s : State) : Nat → Nat → Option State
  | _, 0 => none
  | p, k + 1 =>
    match act cap n p s with
    | some s' => some s'
    | none => firstEnabled cap n s (p + 1) k

/-- Might some stage among `ds` (the stages downstream of a writer, its reader first) leave while
the writer is still writing?  Yes if one of them that is running has a limit of its own, or has
already left, or if they are all started (then data flows to the end); no as soon as a stage that
has not been started is reached: the data cannot get past it. -/
def eagerAfter : List Cell → Bool
  | [] => true
  | d :: ds =>
    match d.st with
    | .notStarted => false
    | .exited _ => true
    | .running _ _ => d.spec.limit.isSome || eagerAfter ds

/-- chunk size of the "eager reader" schedule: one byte at a time while the stage's reader is
running and some stage downstream may leave early (so that readers leave as early as possible
relative to their writers); whole blocks otherwise -/
def rchunk (n : Nat) (s : State) (p : Nat) : Nat :=
  match s.cells.drop (p + 1) with
  | [] => n
  | d :: ds =>
    match d.st with
    | .running _ _ => if eagerAfter (d :: ds) then 0 else n
    | _ => n

/-- rightmost stage below position `k` that can act -/
def lastEnabled (cap n : Nat) (s : State) : Nat → Option State
  | 0 => none
  | k + 1 =>
    match act cap (rchunk n s k) k s with
    | some s' => some s'
    | none => lastEnabled cap n s k

/-- `leftFirst = true`: always the leftmost enabled stage, largest chunks;
false: the rightmost enabled stage, smallest useful chunks. -/
def next (cap n : Nat) (leftFirst : Bool) (s : State) : Option State :=
  if leftFirst then firstEnabled cap n s 0 s.cells.length else lastEnabled cap n s s.cells.length

def run (cap n : Nat) (leftFirst : Bool) : Nat → State → State
  | 0, s => s
  | fuel + 1, s =>
    match next cap n leftFirst s with
    | some s' => run cap n leftFirst fuel s'
    | none => s

def isDone (s : State) : Bool := s.cells.all (fun c => c.st.isExited)

/-! ## Status collection (`wait_for_pipeline_processes_and_update_status`) -/

structure WaitAcc where
  result : Nat := 0
  statuses : List Nat := []
  lastFailure : Option Nat := none

/-- one iteration of the wait loop for a completed child -/
def waitOne (a : WaitAcc) (code : Nat) : WaitAcc :=
  { result := code, statuses := a.statuses ++ [code],
    lastFailure := if code ≠ 0 then some code else a.lastFailure }

/-- the loop, then pipefail, then `!` (`Pipeline::execute`): returns (`$?`, `PIPESTATUS`) -/
def waitAll (pipefail bang : Bool) (cs : List Nat) : Nat × List Nat :=
  let a := cs.foldl waitOne {}
  let r := if pipefail then (match a.lastFailure with | some f => f | none => a.result) else a.result
  let r := if bang then (if r = 0 then 1 else 0) else r
  (r, a.statuses)

/-! ## Command substitution: `cmd_output.trim_end_matches('\n')` -/

def dropTrailingNewlines (s : Str) : Str :=
  (s.reverse.dropWhile (· = '\n')).reverse

/-! ## `read`: one `read(2)` per byte until the delimiter (`read_line_with_reader`, `-r`) -/

/-- (line, reached-delimiter, rest of the descriptor) -/
def readLine : List Char → Str × Bool × List Char
  | [] => ([], false, [])
  | c :: cs =>
    if c = '\n' then ([], true, cs)
    else
      let r := readLine cs
      (c :: r.1, r.2.1, r.2.2)

/-- `k` successive `read`s on the same descriptor: the lines and what is left -/
def readLines : Nat → List Char → List Str × List Char
  | 0, s => ([], s)
  | k + 1, s =>
    let r := readLine s
    let rs := readLines k r.2.2
    (r.1 :: rs.1, rs.2)

/-! ## The substitution's reader (`AsyncPipeReader::read_to_string`)

The pipe is read in chunks whose sizes are up to the kernel and the scheduler; the bytes are
accumulated and decoded **once**, as a whole (tokio's `read_to_string`). -/

/-- the stream cut into chunks of sizes `n+1` (the rest is the last chunk) -/
def splitBy : List Nat → List Byte → List (List Byte)
  | [], s => [s]
  | n :: ns, s => s.take (n + 1) :: splitBy ns (s.drop (n + 1))

/-- what the reader returns for the chunks it was handed -/
def readToEnd (decode : List Byte → Str) (chunks : List (List Byte)) : Str := decode chunks.flatten

/-- a reader that decodes every chunk on its own (not what the code does) -/
def readChunkwise (decode : List Byte → Str) (chunks : List (List Byte)) : Str := (chunks.map decode).flatten

/-! ## `$?` after a command whose words contained command substitutions

`Shell::set_last_exit_status` stores the status and counts the store; every substitution stores its
command's status (`invoke_command_in_subshell_and_get_output`).  An assignment-only simple command
(`SimpleCommand::execute_in_pipeline`) compares the counter before and after expanding its words:
unchanged → no substitution ran → status 0; otherwise the status the last substitution left.  A
command with a command word (builtins `declare`/`local`/`export` included) stores its own status
after the expansions. -/

structure StatusReg where
  status : Nat
  changes : Nat
  deriving DecidableEq, Repr

/-- `Shell::set_last_exit_status` -/
def StatusReg.set (r : StatusReg) (st : Nat) : StatusReg := { status := st, changes := r.changes + 1 }

/-- the substitutions of the command's words, performed left to right -/
def performSubsts (r : StatusReg) (codes : List Nat) : StatusReg := codes.foldl StatusReg.set r

inductive Carrier where
  /-- `x=$(…) y=$(…)` with no command word -/
  | assignOnly
  /-- a command word is present; it finishes with `st` -/
  | command (st : Nat)

def statusAfter (r : StatusReg) (codes : List Nat) : Carrier → StatusReg
  | .assignOnly =>
    let r' := performSubsts r codes
    if r'.changes = r.changes then r'.set 0 else r'
  | .command st => (performSubsts r codes).set st

/-- a register that does not count a store of the value it already holds (not what the code does) -/
def StatusReg.setIfChanged (r : StatusReg) (st : Nat) : StatusReg :=
  if r.status = st then r else { status := st, changes := r.changes + 1 }

def statusAfterAssignVariant (r : StatusReg) (codes : List Nat) : StatusReg :=
  let r' := codes.foldl StatusReg.setIfChanged r
  if r'.changes = r.changes then r'.setIfChanged 0 else r'

/-! ## consumers sharing one descriptor

Whatever the descriptor is (file, FIFO, pipe, here-document, …) the `read` builtin takes its input
one byte per `read(2)` and stops right after the delimiter, or after the requested number of
characters; `mapfile -n 1` takes one line, newline included.  What the next consumer sees is what is
left. -/

inductive ReadOp where
  /-- `read -r -d <delim>` (`read -r`: delimiter newline) -/
  | line (delim : Char)
  /-- `read -r -n <n>`: at most `n` characters, stops early after a newline -/
  | nchars (n : Nat)
  /-- `mapfile -n 1`: one line, its newline kept in the value -/
  | mapfile1

/-- up to the delimiter: (value, delimiter reached, rest) -/
def takeUntil (d : Char) : List Char → Str × Bool × List Char
  | [] => ([], false, [])
  | c :: cs =>
    if c = d then ([], true, cs)
    else
      let r := takeUntil d cs
      (c :: r.1, r.2.1, r.2.2)

/-- at most `n` characters, stopping after the delimiter: (value, delimiter reached, rest) -/
def takeN (d : Char) : Nat → List Char → Str × Bool × List Char
  | 0, s => ([], false, s)
  | _ + 1, [] => ([], false, [])
  | n + 1, c :: cs =>
    if c = d then ([], true, cs)
    else
      let r := takeN d n cs
      (c :: r.1, r.2.1, r.2.2)

structure Piece where
  /-- what the consumer stores in its variable -/
  value : Str
  /-- what it removed from the descriptor -/
  raw : List Char

def pieceOf (d : Char) (keepDelim : Bool) (r : Str × Bool × List Char) : Piece × List Char :=
  let tail := if r.2.1 then [d] else []
  ({ value := if keepDelim then r.1 ++ tail else r.1, raw := r.1 ++ tail }, r.2.2)

def applyOp : ReadOp → List Char → Piece × List Char
  | .line d, s => pieceOf d false (takeUntil d s)
  | .nchars n, s => pieceOf '\n' false (takeN '\n' n s)
  | .mapfile1, s => pieceOf '\n' true (takeUntil '\n' s)

/-- the consumers one after the other on the same descriptor: their pieces and what `cat` gets -/
def runOps : List ReadOp → List Char → List Piece × List Char
  | [], s => ([], s)
  | op :: ops, s =>
    let r := applyOp op s
    let rs := runOps ops r.2
    (r.1 :: rs.1, rs.2)

end BrushVerif.Pipe
