import BrushVerif.Model.Wire
/-!
# Model of brush's job table (C17)

Mirrors `brush-core/src/jobs.rs`: `JobManager::{add_as_current, current_job, prev_job,
resolve_job_spec, wait_all, poll, sweep_completed_jobs}`, `Job::{poll_done, wait}`; the callers
`spawn_async_ao_list_in_task` (brush-core/src/interp.rs: one internal task per `&` job),
`Shell::check_for_completed_jobs` (= `poll`) and the `wait` builtin (brush-builtins/src/wait.rs).

A task is a natural number; *when* a task completes is the environment's choice: `fin` is the set
of tasks that have completed, and while the shell is blocked in `wait` the environment completes
the tasks of a schedule one after the other (`awaitTask`).  A `wait` whose awaited task is neither
finished nor scheduled never returns (`none`).

The code's defects are mirrored: a new job is numbered `len + 1` (`IdRule.lenPlus1`), and
`add_as_current` demotes the current job to previous without clearing the older previous mark.
`IdRule.maxPlus1` is the proposed one-line repair (`max id + 1`).
-/
namespace BrushVerif.Jobs
open BrushVerif.Wire

inductive Ann where
  | none | current | previous
  deriving DecidableEq, Repr

inductive JState where
  | unknown | running | stopped | done
  deriving DecidableEq, Repr

/-- how `add_as_current` numbers a new job -/
inductive IdRule where
  | lenPlus1     -- the code: `self.jobs.len() + 1`
  | maxPlus1     -- proposed repair: one more than the largest live id
  deriving DecidableEq, Repr

structure Job where
  id    : Nat
  ann   : Ann
  state : JState
  tasks : List Nat     -- `VecDeque<JobTask>`, front first
  tag   : Nat          -- identity of the launch (stands for `command_line`); never read by the code
  orig  : List Nat     -- ghost: the tasks the job was created with; never read by the code
  code  : Nat := 0     -- the exit code the job's (last awaited) task completes with
  deriving DecidableEq, Repr

abbrev Table := List Job

/-- the `for j in &mut self.jobs { if Current { j = Previous; break } }` loop -/
def demoteFirstCurrent : Table → Table
  | [] => []
  | j :: js =>
    if j.ann = .current then { j with ann := .previous } :: js else j :: demoteFirstCurrent js

def maxId : Table → Nat
  | [] => 0
  | j :: js => max j.id (maxId js)

def nextId (r : IdRule) (t : Table) : Nat :=
  match r with
  | .lenPlus1 => t.length + 1
  | .maxPlus1 => maxId t + 1

/-- `JobManager::add_as_current` -/
def addAsCurrent (r : IdRule) (t : Table) (tasks : List Nat) (tag : Nat) (state : JState) (code : Nat := 0) : Table :=
  demoteFirstCurrent t ++
    [{ id := nextId r t, ann := .current, state := state, tasks := tasks, tag := tag, orig := tasks, code := code }]

/-- `current_job` / `prev_job`: the first job carrying the annotation -/
def findAnn (a : Ann) (t : Table) : Option Job := t.find? (fun j => j.ann = a)

inductive Spec where
  | cur            -- `%%`, `%+`
  | prev           -- `%-`
  | num (n : Nat)  -- `%N`
  deriving DecidableEq, Repr

/-- `resolve_job_spec` (position of the job in the table) -/
def resolveIdx (t : Table) : Spec → Option Nat
  | .cur => let i := t.findIdx (fun j => j.ann = .current); if i < t.length then some i else none
  | .prev => let i := t.findIdx (fun j => j.ann = .previous); if i < t.length then some i else none
  | .num n => let i := t.findIdx (fun j => j.id = n); if i < t.length then some i else none

/-- `Job::poll_done`: pops finished tasks from the front.  Returns the job afterwards and whether a
result is reported (`Ok(Some(_))`); a job whose front task still runs is left in its state. -/
def pollDone (fin : List Nat) (j : Job) : Job × Bool :=
  let rest := j.tasks.dropWhile (fun k => fin.contains k)
  if rest.isEmpty then ({ j with tasks := [], state := .done }, !j.tasks.isEmpty)
  else ({ j with tasks := rest }, false)

/-- `JobManager::poll`: (jobs kept, jobs removed) -/
def poll (fin : List Nat) : Table → Table × List Job
  | [] => ([], [])
  | j :: js =>
    let r := pollDone fin j
    let rest := poll fin js
    if r.2 || r.1.state = .done then (rest.1, r.1 :: rest.2) else (r.1 :: rest.1, rest.2)

/-- `sweep_completed_jobs`: (kept, swept) -/
def sweep (t : Table) : Table × List Job :=
  (t.filter (fun j => !j.tasks.isEmpty), t.filter (fun j => j.tasks.isEmpty))

/-- The shell awaits task `k`: returns at once when `k` has completed, otherwise the environment
completes scheduled tasks one at a time until `k` is among them; `none` = never returns.
Result: (completed tasks, rest of the schedule). -/
def awaitTask (k : Nat) : List Nat → List Nat → Option (List Nat × List Nat)
  | fin, [] => if fin.contains k then some (fin, []) else none
  | fin, s :: ss => if fin.contains k then some (fin, s :: ss) else awaitTask k (s :: fin) ss

/-- the `while let Some(task) = self.tasks.back_mut()` loop of `Job::wait`, over the tasks
back-to-front -/
def waitTasks : List Nat → List Nat → List Nat → Option (List Nat × List Nat)
  | [], fin, sched => some (fin, sched)
  | k :: ks, fin, sched =>
    match awaitTask k fin sched with
    | none => none
    | some r => waitTasks ks r.1 r.2

/-- `Job::wait` (no task is ever reported stopped: internal tasks cannot stop) -/
def jobWait (j : Job) (fin sched : List Nat) : Option (Job × List Nat × List Nat) :=
  match waitTasks j.tasks.reverse fin sched with
  | none => none
  | some r => some ({ j with tasks := [], state := .done }, r.1, r.2)

/-- `for job in &mut self.jobs { job.wait().await?; }` -/
def waitJobs : Table → List Nat → List Nat → Option (Table × List Nat × List Nat)
  | [], fin, sched => some ([], fin, sched)
  | j :: js, fin, sched =>
    match jobWait j fin sched with
    | none => none
    | some r =>
      match waitJobs js r.2.1 r.2.2 with
      | none => none
      | some r' => some (r.1 :: r'.1, r'.2.1, r'.2.2)

/-- `JobManager::wait_all`: (table afterwards, jobs reported, tasks completed when it returns, the
part of the schedule not yet consumed); `none` = it never returns. -/
def waitAll (t : Table) (fin sched : List Nat) : Option (Table × List Job × List Nat × List Nat) :=
  match waitJobs t fin sched with
  | none => none
  | some r => some ((sweep r.1).1, (sweep r.1).2, r.2.1, r.2.2)

/-- one shell with its job table and the environment's record of completed tasks -/
structure St where
  rule     : IdRule
  table    : Table
  fin      : List Nat    -- tasks that have completed
  nextTask : Nat         -- tasks `1 … nextTask-1` have been created
  launched : Nat         -- jobs launched so far; their tags are `1 … launched`
  gone     : List Job    -- jobs removed from the table (by poll or sweep), as they were when removed
  stuck    : Bool        -- a `wait` never returned
  lastWait : Nat := 0    -- exit status of the last `wait` that returned
  deriving Repr

inductive Op where
  | launch (ntasks : Nat) (stopped : Bool) (code : Nat := 0)
      -- `cmd &` (one task) whose body ends with `code`, or a stopped pipeline handed to the table
  | finish (k : Nat)                          -- environment: task k completes
  | poll                                      -- `check_for_completed_jobs`
  | waitAll (sched : List Nat)                -- `wait`
  | waitSpec (s : Spec) (sched : List Nat)    -- `wait %…`
  | query                                     -- `jobs`, job-spec resolution, a foreground command
  deriving Repr

def init (r : IdRule) : St :=
  { rule := r, table := [], fin := [], nextTask := 1, launched := 0, gone := [], stuck := false }

/-- only created, not yet completed tasks can complete -/
def validSched (s : St) (sched : List Nat) : List Nat :=
  sched.filter (fun k => decide (1 ≤ k) && decide (k < s.nextTask))

def setAt (t : Table) (i : Nat) (j : Job) : Table := t.set i j

/-- what `Job::wait` returns: the result of the last task it awaited (success when there was none) -/
def waitStatus (j : Job) : Nat := if j.tasks.isEmpty then 0 else j.code

def step (s : St) (op : Op) : St :=
  if s.stuck then s else
  match op with
  | .launch n stopped code =>
    { s with table := addAsCurrent s.rule s.table (List.range' s.nextTask n) (s.launched + 1)
                        (if stopped then .stopped else .running) code,
             nextTask := s.nextTask + n, launched := s.launched + 1 }
  | .finish k => if 1 ≤ k ∧ k < s.nextTask ∧ ¬ k ∈ s.fin then { s with fin := k :: s.fin } else s
  | .poll => let r := poll s.fin s.table; { s with table := r.1, gone := s.gone ++ r.2 }
  | .waitAll sched =>
    match waitAll s.table s.fin (validSched s sched) with
    | none => { s with stuck := true }
    | some r => { s with table := r.1, gone := s.gone ++ r.2.1, fin := r.2.2.2.reverse ++ r.2.2.1, lastWait := 0 }
  | .waitSpec sp sched =>
    -- the job-spec branch of the `wait` builtin: wait for the named job, the status is the job's exit code
    -- (127 and a message for a spec that names no job); then `sweep_completed_jobs`: a job that has been
    -- waited for is gone from the table
    match resolveIdx s.table sp with
    | none =>
      { s with table := (sweep s.table).1, gone := s.gone ++ (sweep s.table).2,
               fin := (validSched s sched).reverse ++ s.fin, lastWait := 127 }
    | some i =>
      match s.table[i]? with
      | none => s
      | some j =>
        match jobWait j s.fin (validSched s sched) with
        | none => { s with stuck := true }
        | some r =>
          { s with table := (sweep (s.table.set i r.1)).1, gone := s.gone ++ (sweep (s.table.set i r.1)).2,
                   fin := r.2.2.reverse ++ r.2.1, lastWait := waitStatus j }
  | .query => s

def run (s : St) (ops : List Op) : St := ops.foldl step s

/-! ## execution contexts

A job-table operation (`cmd &`, `wait`, `jobs`, …) can be issued from inside a function, an `eval`,
a brace group with redirects, a loop body, the last stage of a pipeline under `lastpipe`, a trap
handler, a sourced file — all executed by the current `Shell`, hence on its `JobManager` — or from a
subshell / command substitution, which brush executes on a clone of the shell: `impl Clone for Shell`
gives the clone a fresh, empty `JobManager` (brush-core/src/shell.rs). -/

inductive Ctx where
  | top | func | func2 | evalStr | brace | loopBody | lastpipe | trapHandler | sourced
  | subshell | cmdsubst
  deriving DecidableEq, Repr

def Ctx.forks : Ctx → Bool
  | .subshell => true
  | .cmdsubst => true
  | _ => false

/-- The wrapper's own work before the wrapped commands run — entering a function (once per level),
re-parsing the string, opening the redirect, evaluating the loop's word list, starting the first
pipeline stage, dispatching the handler, opening the file — is foreground work: it never touches
the job table (`query`). -/
def Ctx.enter : Ctx → List Op
  | .top => []
  | .func => [.query]
  | .func2 => [.query, .query]
  | .evalStr => [.query]
  | .brace => [.query]
  | .loopBody => [.query]
  | .lastpipe => [.query, .query]
  | .trapHandler => [.query]
  | .sourced => [.query]
  | .subshell => []
  | .cmdsubst => []

/-- … and after them (leaving the function(s), restoring descriptors, the loop's next test, …) -/
def Ctx.leave : Ctx → List Op
  | .top => []
  | .func2 => [.query, .query]
  | .lastpipe => [.query, .query]
  | .subshell => []
  | .cmdsubst => []
  | _ => [.query]

def wrap (c : Ctx) (ops : List Op) : List Op := c.enter ++ ops ++ c.leave

/-- the clone a subshell / command substitution runs in -/
def forkChild (s : St) : St := { s with table := [], gone := [] }

/-- the parent once the clone has run and is dropped: its own table is as it was; only the
environment's record (tasks created and completed meanwhile) has moved on, and a clone that never
returns keeps the parent waiting for it -/
def joinChild (s child : St) : St :=
  { s with fin := child.fin, nextTask := child.nextTask, launched := child.launched, stuck := child.stuck,
           lastWait := child.lastWait }

/-- run `ops` issued from context `c` -/
def runIn (c : Ctx) (s : St) (ops : List Op) : St :=
  if c.forks then joinChild s (run (forkChild s) ops) else run s (wrap c ops)

end BrushVerif.Jobs
