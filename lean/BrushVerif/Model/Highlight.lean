import BrushVerif.Model.Wire
/-!
# Model of brush's syntax highlighter span builder (C19)

Mirrors `brush-interactive/src/highlighting.rs`: `Highlighter::{highlight_program,
highlight_word_piece, append_span, skip_ahead, set_next_missing_kind, get_kind_for_word,
classify_possible_command}`.

The input of the model is the tree the highlighter sees: for every (nested) program its text, the
tokenizer's tokens with their **character-index** spans, and for every word token the word parser's
pieces with **byte** offsets relative to the raw token text.  The tokenizer and the word parser are
not modelled; their output is an input here (and a hypothesis of the theorems, checked on every
generated line by the correspondence run).
-/
namespace BrushVerif.Highlight
open BrushVerif.Wire

inductive Kind where
  | Default | Comment | Arithmetic | Parameter | CommandSubstitution | Quoted | Operator
  | Assignment | HyphenOption | Function | Keyword | Builtin | Alias | ExternalCommand
  | NotFoundCommand | UnknownCommand
  deriving Repr, DecidableEq

/-- `HighlightSpan`: a byte range and a kind. -/
structure Span where
  start : Nat
  stop  : Nat
  kind  : Kind
  deriving Repr, DecidableEq

/-- the mutable part of `Highlighter` -/
structure HS where
  spans   : List Span
  cur     : Nat            -- `current_byte_index`
  missing : Option Kind    -- `next_missing_kind`
  trap    : Option Nat     -- the first `append_span` argument that was not on a char boundary of the
                           -- input line: where the `debug_assert!`s of a debug build panic
  deriving Repr

def HS.init : HS := { spans := [], cur := 0, missing := none, trap := none }

/-- UTF-8 length of a text -/
def byteLen (s : Str) : Nat := (s.map Char.utf8Size).sum

/-- `str::is_char_boundary` of a text whose first char starts at byte `acc` -/
def isBoundaryFrom : Str → Nat → Nat → Bool
  | [], acc, b => acc == b
  | c :: cs, acc, b => acc == b || isBoundaryFrom cs (acc + c.utf8Size) b

/-- `input_line.is_char_boundary(b)` -/
def isBoundary (top : Str) (b : Nat) : Bool := isBoundaryFrom top 0 b

/-- `append_span(kind, s..e)`: (debug builds assert that `s` and `e` are char boundaries of the input
line;) fill the gap up to `s`, push the range unless empty (`Range::is_empty` is `!(start < end)`),
and move `current_byte_index` to `e` — unconditionally. -/
def appendSpan (top : Str) (h : HS) (k : Kind) (s e : Nat) : HS :=
  let spans1 := if s > h.cur then h.spans ++ [⟨h.cur, s, h.missing.getD .Comment⟩] else h.spans
  let spans2 := if s < e then spans1 ++ [⟨s, e, k⟩] else spans1
  let trap := match h.trap with
    | some t => some t
    | none => if !isBoundary top s then some s else if !isBoundary top e then some e else none
  { h with spans := spans2, cur := e, trap := trap }

/-- `skip_ahead(dest)` = `append_span(Default, dest..dest)` -/
def skipAhead (top : Str) (h : HS) (dest : Nat) : HS := appendSpan top h .Default dest dest

def setMissing (h : HS) (k : Kind) : HS := { h with missing := some k }

/-- `byte_offset(char_offset)`: the `char_byte_offsets` table with its end sentinel, and
`unwrap_or(line.len())` beyond it. -/
def byteOff (line : Str) (charIdx : Nat) : Nat := byteLen (line.take charIdx)

/-- what `classify_possible_command` finds for a name when the cursor is elsewhere -/
inductive Class where
  | keyword | alias | function | builtin | external | notFound
  deriving Repr, DecidableEq

inductive LeafKind where
  | quoted      -- single quoted, ANSI-C quoted, escape sequence
  | parameter   -- parameter or tilde expansion
  | arithmetic
  | text
  deriving Repr, DecidableEq

mutual
  /-- `WordPieceWithSource` -/
  inductive Piece where
    | leaf (s e : Nat) (k : LeafKind)
    | dq (s e : Nat) (subs : List Piece)                 -- (gettext) double quoted sequence
    | sub (s e : Nat) (openLen : Nat) (p : Prog)         -- backquoted (1) / `$(` (2) command substitution
  /-- a token with char-index span -/
  inductive Tok where
    | op (s e : Nat)
    | wordFail (s e : Nat) (w : Str) (cls : Class)       -- `word::parse` failed: nothing is appended
    | word (s e : Nat) (w : Str) (cls : Class) (ps : List Piece)
  /-- what `highlight_program(line, _)` sees -/
  inductive Prog where
    | failed (line : Str)                                -- tokenizer error
    | ok (line : Str) (toks : List Tok)
end

def Prog.line : Prog → Str
  | .failed l => l
  | .ok l _ => l

/-- `classify_possible_command` -/
def classify (cursor : Nat) (cls : Class) (rs re : Nat) : Kind :=
  match cls with
  | .keyword => .Keyword
  | .alias => .Alias
  | .function => .Function
  | .builtin => .Builtin
  | .external => if rs ≤ cursor ∧ cursor ≤ re then .UnknownCommand else .ExternalCommand
  | .notFound => if rs ≤ cursor ∧ cursor ≤ re then .UnknownCommand else .NotFoundCommand

/-- `get_kind_for_word`: the kind and the new `saw_command_token` -/
def kindForWord (cursor : Nat) (w : Str) (cls : Class) (rs re : Nat) (saw : Bool) : Kind × Bool :=
  if !saw then
    if w.contains '=' then (.Assignment, false)
    else (classify cursor cls rs re, true)
  else
    (if cls = .keyword then .Keyword
     else if w.head? = some '-' then .HyphenOption
     else .Default, true)

def leafKind (k : LeafKind) (dflt : Kind) : Kind :=
  match k with
  | .quoted => .Quoted
  | .parameter => .Parameter
  | .arithmetic => .Arithmetic
  | .text => dflt

mutual
  /-- `highlight_word_piece(piece, default_text_kind, global_offset)` -/
  def hlPiece (top : Str) (cursor : Nat) (p : Piece) (dflt : Kind) (off : Nat) (h : HS) : HS :=
    match p with
    | .leaf s e k =>
      skipAhead top (appendSpan top (skipAhead top h (off + s)) (leafKind k dflt) (off + s) (off + e)) (off + e)
    | .dq s e subs =>
      let h1 := setMissing (skipAhead top h (off + s)) .Quoted
      let h2 := hlPieces top cursor subs .Quoted off h1
      skipAhead top (setMissing h2 .Quoted) (off + e)
    | .sub s e openLen prog =>
      let h1 := setMissing (skipAhead top h (off + s)) .CommandSubstitution
      let h2 := hlProg top cursor prog (off + s + openLen) h1
      skipAhead top (setMissing h2 .CommandSubstitution) (off + e)
  def hlPieces (top : Str) (cursor : Nat) (ps : List Piece) (dflt : Kind) (off : Nat) (h : HS) : HS :=
    match ps with
    | [] => h
    | p :: rest => hlPieces top cursor rest dflt off (hlPiece top cursor p dflt off h)
  /-- the token loop of `highlight_program` -/
  def hlToks (top : Str) (cursor : Nat) (line : Str) (ts : List Tok) (off : Nat) (saw : Bool) (h : HS) : HS :=
    match ts with
    | [] => h
    | .op s e :: rest =>
      hlToks top cursor line rest off saw
        (appendSpan top h .Operator (off + byteOff line s) (off + byteOff line e))
    | .wordFail _ _ _ _ :: rest => hlToks top cursor line rest off saw h
    | .word s e w cls ps :: rest =>
      let sb := byteOff line s
      let eb := byteOff line e
      let r := kindForWord cursor w cls (off + sb) (off + eb) saw
      hlToks top cursor line rest off r.2 (hlPieces top cursor ps r.1 (off + sb) h)
  /-- `highlight_program(line, global_offset)` -/
  def hlProg (top : Str) (cursor : Nat) (p : Prog) (off : Nat) (h : HS) : HS :=
    match p with
    | .failed line => appendSpan top h .Default off (off + byteLen line)
    | .ok line toks => skipAhead top (hlToks top cursor line toks off false h) (off + byteLen line)
end

/-- `highlight_command(shell, line, cursor).spans()` -/
def highlightSt (p : Prog) (cursor : Nat) : HS := hlProg p.line cursor p 0 HS.init

def highlight (p : Prog) (cursor : Nat) : List Span := (highlightSt p cursor).spans

/-! ## The property's predicate -/

/-- `spans` are non-empty ranges, each starting where the previous one ended, from `a` to `b`. -/
def TilesFrom (a : Nat) : List Span → Nat → Prop
  | [], b => a = b
  | s :: ss, b => s.start = a ∧ s.start < s.stop ∧ TilesFrom s.stop ss b

instance : (a : Nat) → (l : List Span) → (b : Nat) → Decidable (TilesFrom a l b)
  | a, [], b => inferInstanceAs (Decidable (a = b))
  | a, s :: ss, b =>
    have := instDecidableTilesFrom s.stop ss b
    inferInstanceAs (Decidable (s.start = a ∧ s.start < s.stop ∧ TilesFrom s.stop ss b))

/-! ## Well-formedness of the tokenizer / word-parser output (decidable; checked, not proved) -/

def pieceEnd (p : Piece) : Nat :=
  match p with
  | .leaf _ e _ => e
  | .dq _ e _ => e
  | .sub _ e _ _ => e

mutual
  /-- a piece lies in `[lo, hi]` (byte offsets relative to the raw token), `s ≤ e`, children inside
  their parent and ordered; a nested program's text fits between the opening and the piece's end -/
  def wfPiece (p : Piece) (lo hi : Nat) : Bool :=
    match p with
    | .leaf s e _ => decide (lo ≤ s) && decide (s ≤ e) && decide (e ≤ hi)
    | .dq s e subs => decide (lo ≤ s) && decide (s ≤ e) && decide (e ≤ hi) && wfPieces subs s e
    | .sub s e openLen prog =>
      decide (lo ≤ s) && decide (s ≤ e) && decide (e ≤ hi) &&
        decide (s + openLen + byteLen prog.line ≤ e) && wfProg prog
  def wfPieces (ps : List Piece) (lo hi : Nat) : Bool :=
    match ps with
    | [] => decide (lo ≤ hi)
    | p :: rest => wfPiece p lo hi && wfPieces rest (pieceEnd p) hi
  /-- tokens are ordered by char index (`lo` = end of the previous token) -/
  def wfToks (line : Str) (ts : List Tok) (lo : Nat) : Bool :=
    match ts with
    | [] => true
    | .op s e :: rest => decide (lo ≤ s) && decide (s ≤ e) && wfToks line rest e
    | .wordFail s e _ _ :: rest => decide (lo ≤ s) && decide (s ≤ e) && wfToks line rest e
    | .word s e _ _ ps :: rest =>
      decide (lo ≤ s) && decide (s ≤ e) &&
        wfPieces ps 0 (byteOff line e - byteOff line s) && wfToks line rest e
  def wfProg (p : Prog) : Bool :=
    match p with
    | .failed _ => true
    | .ok line toks => wfToks line toks 0
end

end BrushVerif.Highlight
