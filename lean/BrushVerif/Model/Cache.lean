import BrushVerif.Model.Wire
import BrushVerif.Gen.Caches
/-!
# Model of brush's memoising caches (C15)

Every `#[cached::macros::cached(max_size = N, key = …, convert = …)] fn f(params)` expands to: lock the
global `SizedCache`, `cache_get(&key)` (a hit refreshes the entry's recency and returns a clone of the stored
value); on a miss compute the body and, unless it is an `Err` (cached 2.x skips `Err` results of `Result`-returning
functions by default), `cache_set(key, value)` (inserted as most recent; when the store is full the least recently
used entry is dropped); return it.  `compile_regex` (brush-core/src/regex.rs) does the same
by hand with `cached::LruCache`.  The store is modelled as an association list, most recently used first.
-/
namespace BrushVerif.Cache

abbrev Store (K V : Type) := List (K × V)

variable {K V X : Type} [DecidableEq K]

def get? (k : K) : Store K V → Option V
  | [] => none
  | (k', v) :: r => if k' = k then some v else get? k r

def remove (k : K) (c : Store K V) : Store K V := c.filter (fun e => decide (e.1 ≠ k))

/-- `cache_get` on a hit: the entry becomes the most recent one. -/
def touch (k : K) (v : V) (c : Store K V) : Store K V := (k, v) :: remove k c

/-- `cache_set`: most recent position; entries beyond the capacity (the least recently used) are dropped. -/
def set (cap : Nat) (k : K) (v : V) (c : Store K V) : Store K V := ((k, v) :: remove k c).take cap

/-- One call of a memoised function `f` whose cache key is `key x`; `keep v` says whether a computed value is stored
(`Ok(_)` results are, `Err(_)` results are not). -/
def memoStep (f : X → V) (key : X → K) (keep : V → Bool) (cap : Nat) (c : Store K V) (x : X) : V × Store K V :=
  match get? (key x) c with
  | some v => (v, touch (key x) v c)
  | none => (f x, if keep (f x) then set cap (key x) (f x) c else c)

/-- A history of calls in one process: the values returned, and the final store. -/
def runMemo (f : X → V) (key : X → K) (keep : V → Bool) (cap : Nat) : Store K V → List X → List V × Store K V
  | c, [] => ([], c)
  | c, x :: xs =>
    let r := memoStep f key keep cap c x
    let rest := runMemo f key keep cap r.2 xs
    (r.1 :: rest.1, rest.2)

/-- The arguments of a memoised call: a value for every (field-expanded) parameter name. -/
abbrev Assign := String → Nat

/-- The key built by a cache definition of `Gen.Caches`: the listed components of the arguments. -/
def keyOf (comps : List String) (a : Assign) : List Nat := comps.map a

/-- Two calls agree on every parameter of the function. -/
def sameParams (params : List String) (a b : Assign) : Prop := ∀ p, p ∈ params → a p = b p

end BrushVerif.Cache
