import BrushVerif.Model.Wire
import BrushVerif.Gen.ShellFields
/-!
# Model of brush's subshells (C12)

A brush subshell is not a process: `Shell::clone` builds a second `Shell` value and the body of
`( )`, `$( )`, backquotes, a non-final pipeline stage, an `&` job, a process substitution or a
coprocess runs on that value as a task of the same process (`interp.rs`: `CompoundCommand::Subshell`,
`spawn_async_ao_list_in_task`, `spawn_pipeline_processes`, `setup_process_substitution`,
`CoprocessCommand::execute`; `commands.rs`: `invoke_command_in_subshell_and_get_output`).

* `ShellPart` — the components of `struct Shell` that the property's mutators write.  Each component
  names the Rust field that holds it (`Comp.field`).
* `World` — state of the *process* (umask, soft `RLIMIT_NOFILE`), which `umask.rs` / `ulimit.rs`
  change with system calls.  It is not part of any `Shell` value, so parent and clone share it.
* `shared c` — read from the **generated** table `Gen.ShellFields.shellFields` (what
  `impl Clone for Shell` does with the field): a component whose field is not value-cloned is
  modelled as aliased, i.e. a write by the child shows in the parent (`leak`).
-/
namespace BrushVerif.Subshell
open BrushVerif.Wire

/-! ## association lists -/

def aget {α : Type} (k : Str) : List (Str × α) → Option α
  | [] => none
  | (k', v) :: r => if k' = k then some v else aget k r

def aset {α : Type} (k : Str) (v : α) : List (Str × α) → List (Str × α)
  | [] => [(k, v)]
  | (k', v') :: r => if k' = k then (k, v) :: r else (k', v') :: aset k v r

def adel {α : Type} (k : Str) : List (Str × α) → List (Str × α)
  | [] => []
  | (k', v') :: r => if k' = k then r else (k', v') :: adel k r

/-! ## state -/

structure Var where
  val : Str
  exported : Bool
  readonly : Bool
  /-- declared (by `export name`) but never given a value: `declare -p` prints no `=…` -/
  novalue : Bool := false
  deriving DecidableEq, Repr

/-- the part of a `Shell` value the mutators of the property write -/
structure ShellPart where
  vars : List (Str × Var)        -- `env`
  funcs : List (Str × Str)       -- `funcs` (name ↦ body tag)
  setopts : List (Str × Bool)    -- `options` (`set -o`)
  shopts : List (Str × Bool)     -- `options` (`shopt`)
  aliases : List (Str × Str)     -- `aliases`
  traps : List (Str × Str)       -- `traps` (signal ↦ action)
  cwd : List Str                 -- `working_dir` (path components)
  args : List Str                -- `args`
  fds : List Nat                 -- `open_files` (descriptor numbers, ascending)
  deriving DecidableEq, Repr

/-- process-wide state: outside every `Shell` value -/
structure World where
  umask : Nat
  nofile : Nat
  deriving DecidableEq, Repr

/-- the components, each tied to the field of `struct Shell` that holds it -/
inductive Comp
  | env | funcs | options | aliases | traps | workingDir | args | openFiles
  deriving DecidableEq, Repr

def Comp.all : List Comp := [.env, .funcs, .options, .aliases, .traps, .workingDir, .args, .openFiles]

def Comp.field : Comp → String
  | .env => "env" | .funcs => "funcs" | .options => "options" | .aliases => "aliases"
  | .traps => "traps" | .workingDir => "working_dir" | .args => "args" | .openFiles => "open_files"

/-- how `impl Clone for Shell` builds a field, per the generated table (`"missing"` if absent) -/
def kindIn (tbl : List (String × String × String)) (f : String) : String :=
  match tbl.find? (fun e => e.1 = f) with
  | some e => e.2.2
  | none => "missing"

/-- child starts from a copy of the parent's value -/
def copiedIn (tbl : List (String × String × String)) (c : Comp) : Bool :=
  kindIn tbl c.field = "deep" || kindIn tbl c.field = "copy"

/-- child starts from a fresh default value -/
def freshIn (tbl : List (String × String × String)) (c : Comp) : Bool := kindIn tbl c.field = "fresh"

/-- anything else (shared handle, unknown expression, field missing): modelled as aliased -/
def sharedIn (tbl : List (String × String × String)) (c : Comp) : Bool := !(copiedIn tbl c || freshIn tbl c)

def shared : Comp → Bool := sharedIn Gen.ShellFields.shellFields
def fresh : Comp → Bool := freshIn Gen.ShellFields.shellFields

def pathStr (p : List Str) : Str := if p.isEmpty then ['/'] else p.flatMap (fun c => '/' :: c)

/-- `cd` records the directory left in `OLDPWD` and the new one in `PWD` -/
def setDirVars (old new : List Str) (vars : List (Str × Var)) : List (Str × Var) :=
  aset "PWD".toList { val := pathStr new, exported := true, readonly := false }
    (aset "OLDPWD".toList { val := pathStr old, exported := true, readonly := false } vars)

def defaultShell (cwd : List Str) : ShellPart :=
  { vars := setDirVars ["?".toList] cwd [], funcs := [], setopts := [], shopts := [], aliases := [], traps := [],
    cwd := cwd, args := [], fds := [0, 1, 2] }

/-- `Shell::clone`, component by component -/
def cloneWith (fr : Comp → Bool) (p : ShellPart) : ShellPart :=
  { vars := if fr .env then [] else p.vars,
    funcs := if fr .funcs then [] else p.funcs,
    setopts := if fr .options then [] else p.setopts,
    shopts := if fr .options then [] else p.shopts,
    aliases := if fr .aliases then [] else p.aliases,
    traps := if fr .traps then [] else p.traps,
    cwd := if fr .workingDir then [] else p.cwd,
    args := if fr .args then [] else p.args,
    fds := if fr .openFiles then [0, 1, 2] else p.fds }

/-- what the parent sees of a child's state: the aliased components -/
def leakWith (sh : Comp → Bool) (child parent : ShellPart) : ShellPart :=
  { vars := if sh .env then child.vars else parent.vars,
    funcs := if sh .funcs then child.funcs else parent.funcs,
    setopts := if sh .options then child.setopts else parent.setopts,
    shopts := if sh .options then child.shopts else parent.shopts,
    aliases := if sh .aliases then child.aliases else parent.aliases,
    traps := if sh .traps then child.traps else parent.traps,
    cwd := if sh .workingDir then child.cwd else parent.cwd,
    args := if sh .args then child.args else parent.args,
    fds := if sh .openFiles then child.fds else parent.fds }

/-! ## mutators -/

inductive Mut
  | assign (n v : Str)          -- `n=v`
  | export (n : Str)            -- `export n`
  | readonly (n v : Str)        -- `readonly n=v`
  | unset (n : Str)             -- `unset n`
  | defun (f tag : Str)         -- `f() { echo fn f tag; }`
  | unsetf (f : Str)            -- `unset -f f`
  | seto (o : Str) (b : Bool)   -- `set -o o` / `set +o o`
  | shopt (o : Str) (b : Bool)  -- `shopt -s o` / `shopt -u o`
  | alias (n v : Str)           -- `alias n=v`
  | unalias (n : Str)           -- `unalias n`
  | trap (sig act : Str)        -- `trap act sig`; act `-` resets
  | cd (t : Str)                -- `cd t`: absolute path, `..`, or a name
  | umask (m : Nat)             -- `umask m`
  | ulimit (n : Nat)            -- `ulimit -S -n n`
  | setargs (as : List Str)     -- `set -- as`
  | shift                       -- `shift`
  | fdopen (fd : Nat)           -- `exec fd>/dev/null`, `exec fd</dev/null`
  | fdclose (fd : Nat)          -- `exec fd>&-`
  | exit (n : Nat)              -- `exit n`
  | break_                      -- `break`
  | continue_                   -- `continue`
  | return_ (n : Nat)           -- `return n`
  | execCmd (k : Str)           -- `exec <external command>`; `k` names the form, see `execStatus`
  | false_ | true_
  | echo (w : Str)              -- `echo w`
  deriving DecidableEq, Repr

/-- mutators that change process-wide state -/
def Mut.touchesWorld : Mut → Bool
  | .umask _ | .ulimit _ => true
  | _ => false

def insertSorted (n : Nat) : List Nat → List Nat
  | [] => [n]
  | m :: r => if n < m then n :: m :: r else if n = m then m :: r else m :: insertSorted n r

/-- directories that exist: the ancestors of the sandbox root, and `root/{c12a, c12a/c12b, c12c}` -/
def dirExists (root : List Str) (p : List Str) : Bool :=
  p.isPrefixOf root ||
  p = root ++ ["c12a".toList] || p = root ++ ["c12a".toList, "c12b".toList] || p = root ++ ["c12c".toList]

def splitPath (s : Str) : List Str := (splitOnChar '/' s).filter (fun t => !t.isEmpty)

def cdTarget (cwd : List Str) (t : Str) : List Str :=
  match t with
  | '/' :: _ => splitPath t
  | ['.', '.'] => cwd.dropLast
  | _ => cwd ++ [t]

def shoptDefault (o : Str) : Bool := o = "extglob".toList   -- brush starts with extglob on

/-- how a command list ends: normally, or with a control-flow request that the interpreter above it
would act on (`ExecutionResult::next_control_flow`) -/
inductive Flow
  | normal | exit | brk | cont | ret
  deriving DecidableEq, Repr

/-- `exec <external command>`, by form: `true` = `exec /bin/true`, `echo` = `exec /bin/echo x`,
`false` = `exec /bin/false`, `nosuch` = `exec nosuchcmd_c12`, `arg0` = `exec -a name /bin/true`,
`cmd` = `command exec /bin/echo x`, `blt` = `builtin exec /bin/echo x`.
Status it leaves when a *subshell* runs it: there (`Shell::is_subshell()`, clone depth > 0)
`brush-builtins/src/exec.rs` does not call execve — that would replace the parent too — but runs the
command through `command` and comes back (options such as `-a` are "not yet implemented": 99). -/
def execStatus (k : Str) : Nat :=
  if k = "false".toList then 1 else if k = "nosuch".toList then 127 else if k = "arg0".toList then 99 else 0

def execOut (k : Str) : List Str :=
  if k = "echo".toList ∨ k = "cmd".toList ∨ k = "blt".toList then [['x']] else []

/-- at clone depth 0 (the parent itself) `exec` of a command that exists really replaces the process -/
def execReplaces : Mut → Bool
  | .execCmd k => k != "nosuch".toList
  | _ => false

/-- result of one command on a `Shell` value -/
structure Step where
  sh : ShellPart
  status : Nat
  out : List Str := []
  exited : Bool := false
  /-- the request the command ends with (`exited` says the list it is in stops) -/
  flow : Flow := .normal
  /-- the builtin returned a Rust `Err` (not just a non-zero status): `cd` to a missing directory,
      `readonly` / `unset` of a read-only variable.  Wherever the command runs — in a list, as a pipeline
      stage on a clone, as the parent's own last stage — the error is displayed and becomes status 1. -/
  err : Bool := false

/-- effect of a mutator on the `Shell` value it runs on (brush's builtins, as they behave today) -/
def stepShell (root : List Str) (m : Mut) (s : ShellPart) : Step :=
  match m with
  | .assign n v =>
    match aget n s.vars with
    | some x => if x.readonly then { sh := s, status := 1 }
                else { sh := { s with vars := aset n { x with val := v, novalue := false } s.vars }, status := 0 }
    | none => { sh := { s with vars := aset n { val := v, exported := false, readonly := false } s.vars }, status := 0 }
  | .export n =>
    match aget n s.vars with
    | some x => { sh := { s with vars := aset n { x with exported := true } s.vars }, status := 0 }
    -- exporting a name that has no variable yet records the attribute (fix 4e5c25e)
    | none => { sh := { s with vars := aset n { val := [], exported := true, readonly := false, novalue := true } s.vars }, status := 0 }
  | .readonly n v =>
    match aget n s.vars with
    | some x => if x.readonly then { sh := s, status := 1, err := true }
                else { sh := { s with vars := aset n { x with val := v, readonly := true, novalue := false } s.vars }, status := 0 }
    | none => { sh := { s with vars := aset n { val := v, exported := false, readonly := true } s.vars }, status := 0 }
  | .unset n =>
    match aget n s.vars with
    | some x => if x.readonly then { sh := s, status := 1, err := true } else { sh := { s with vars := adel n s.vars }, status := 0 }
    | none => { sh := s, status := 0 }
  | .defun f tag => { sh := { s with funcs := aset f tag s.funcs }, status := 0 }
  | .unsetf f => { sh := { s with funcs := adel f s.funcs }, status := 0 }
  -- options are kept canonically: only values that differ from the default are listed
  | .seto o b => { sh := { s with setopts := if b then aset o b s.setopts else adel o s.setopts }, status := 0 }
  | .shopt o b =>
    { sh := { s with shopts := if b = shoptDefault o then adel o s.shopts else aset o b s.shopts }, status := 0 }
  | .alias n v => { sh := { s with aliases := aset n v s.aliases }, status := 0 }
  | .unalias n =>
    match aget n s.aliases with
    | some _ => { sh := { s with aliases := adel n s.aliases }, status := 0 }
    | none => { sh := s, status := 1 }
  | .trap sig act =>
    if act = ['-'] then { sh := { s with traps := adel sig s.traps }, status := 0 }
    else { sh := { s with traps := aset sig act s.traps }, status := 0 }
  | .cd t =>
    let p := cdTarget s.cwd t
    if dirExists root p then { sh := { s with cwd := p, vars := setDirVars s.cwd p s.vars }, status := 0 } else { sh := s, status := 1, err := true }
  | .umask _ => { sh := s, status := 0 }
  | .ulimit _ => { sh := s, status := 0 }
  | .setargs as => { sh := { s with args := as }, status := 0 }
  | .shift =>
    match s.args with
    | [] => { sh := s, status := 2 }    -- brush: 2 (bash: 1)
    | _ :: r => { sh := { s with args := r }, status := 0 }
  | .fdopen fd => { sh := { s with fds := insertSorted fd s.fds }, status := 0 }
  | .fdclose fd => { sh := { s with fds := s.fds.filter (· != fd) }, status := 0 }
  | .exit n => { sh := s, status := n % 256, exited := true, flow := .exit }
  -- brush's `break` / `continue` do not know the loop depth: they always end the list they are in
  | .break_ => { sh := s, status := 0, exited := true, flow := .brk }
  | .continue_ => { sh := s, status := 0, exited := true, flow := .cont }
  -- (inside a function; outside one `return` is an error, see `runStep`)
  | .return_ n => { sh := s, status := n % 256, exited := true, flow := .ret }
  -- as run by a subshell (a clone): the command runs, the list goes on (bash: the subshell ends here)
  | .execCmd k => { sh := s, status := execStatus k, out := execOut k }
  | .false_ => { sh := s, status := 1 }
  | .true_ => { sh := s, status := 0 }
  | .echo w => { sh := s, status := 0, out := [w] }

/-- effect of a mutator on the process -/
def stepWorld (m : Mut) (w : World) : World :=
  match m with
  | .umask v => { w with umask := v }
  | .ulimit n => { w with nofile := n }
  | _ => w

/-- a shell running commands: its value, the process state, last status, output so far, has it left -/
structure Run where
  sh : ShellPart
  world : World
  status : Nat := 0
  out : List Str := []
  exited : Bool := false
  /-- the request the list ended with -/
  flow : Flow := .normal
  /-- the shell value is running a function body (`return` is meaningful) -/
  inFn : Bool := false

/-- `set -e` in effect -/
def errexitOn (s : ShellPart) : Bool := (aget "errexit".toList s.setopts).getD false

def isReturn : Mut → Bool
  | .return_ _ => true
  | _ => false

def runStep (root : List Str) (r : Run) (m : Mut) : Run :=
  if r.exited then r
  else if isReturn m && !r.inFn then
    -- `return` outside a function: an error message, status 2, the list goes on (unless `set -e`)
    { r with status := 2, exited := errexitOn r.sh, flow := if errexitOn r.sh then .exit else .normal }
  else
    let st := stepShell root m r.sh
    let ee := errexitOn st.sh && st.status != 0 && !st.exited     -- a failing command under `set -e` ends the shell
    { r with sh := st.sh, world := stepWorld m r.world, status := st.status, out := r.out ++ st.out,
             exited := st.exited || ee, flow := if st.exited then st.flow else if ee then .exit else .normal }

def runMuts (root : List Str) (ms : List Mut) (r : Run) : Run := ms.foldl (runStep root) r

/-! ## the state dump `D "$@"` of the correspondence check, as text lines -/

def varLine (n : Str) (s : ShellPart) : Str :=
  match aget n s.vars with
  | none => "unset ".toList ++ n
  | some x =>
    let attrs : Str := (if x.readonly then ['r'] else []) ++ (if x.exported then ['x'] else [])
    "declare -".toList ++ (if attrs.isEmpty then ['-'] else attrs) ++ [' '] ++ n ++
      (if x.novalue then [] else "=\"".toList ++ x.val ++ ['"'])

def funcLine (f : Str) (s : ShellPart) : Str :=
  match aget f s.funcs with
  | none => "nofn ".toList ++ f
  | some tag => "fn ".toList ++ f ++ [' '] ++ tag

def onOff (b : Bool) : Str := if b then "on".toList else "off".toList

def setoLine (o : Str) (s : ShellPart) : Str :=
  "o ".toList ++ o ++ [' '] ++ onOff ((aget o s.setopts).getD false)

def shoptLine (o : Str) (s : ShellPart) : Str :=
  "s ".toList ++ o ++ [' '] ++ onOff ((aget o s.shopts).getD (shoptDefault o))

def aliasLine (n : Str) (s : ShellPart) : Str :=
  match aget n s.aliases with
  | none => "noalias ".toList ++ n
  | some v => "alias ".toList ++ n ++ "='".toList ++ v ++ ['\'']

def sigName (sig : Str) : Str := if sig = "EXIT".toList then sig else "SIG".toList ++ sig

def trapLines (sig : Str) (s : ShellPart) : List Str :=
  match aget sig s.traps with
  | none => []
  | some a => ["trap -- '".toList ++ a ++ "' ".toList ++ sigName sig]

def octDigits : Nat → Nat → Str
  | 0, _ => []
  | k + 1, n => octDigits k (n / 8) ++ [digitChar (n % 8)]

def lowestFree (fds : List Nat) : Nat → Nat → Nat
  | 0, c => c
  | fuel + 1, c => if fds.contains c then lowestFree fds fuel (c + 1) else c

/-- what `ls /proc/self/fd` prints for a child started by this shell: the shell's descriptors plus
the one `ls` itself opens on the directory (the lowest free number) -/
def fdLines (s : ShellPart) : List Str :=
  (insertSorted (lowestFree s.fds (s.fds.length + 1) 0) s.fds).map natToStr

def dump (s : ShellPart) (w : World) : List Str :=
  [varLine "v1".toList s, varLine "v2".toList s, varLine "r1".toList s,
   funcLine "f1".toList s, funcLine "f2".toList s,
   setoLine "noglob".toList s, setoLine "nounset".toList s, setoLine "notify".toList s,
   shoptLine "nullglob".toList s, shoptLine "dotglob".toList s, shoptLine "extglob".toList s,
   aliasLine "a1".toList s, aliasLine "a2".toList s] ++
  trapLines "INT".toList s ++ trapLines "USR1".toList s ++ trapLines "TERM".toList s ++ trapLines "EXIT".toList s ++
  [pathStr s.cwd, octDigits 4 w.umask, natToStr w.nofile,
   "args ".toList ++ natToStr s.args.length ++ [' '] ++ joinWith [' '] s.args] ++
  fdLines s

/-! ## subshell contexts -/

/-- how the parent collects a background job -/
inductive Sync
  | every    -- `wait`
  | spec     -- `wait %N`
  | spec2    -- `wait %1 %2` (a second job `{ exit 5; } &` runs too)
  deriving DecidableEq, Repr

/-- where the parent is when it starts and collects the job -/
inductive Frame
  | plain      -- at top level
  | loop       -- inside `for i in 1 2; do … done`
  | func       -- inside a function body
  | errexit    -- at top level with `set -e` on
  deriving DecidableEq, Repr

inductive Ctx
  | paren      -- `( ms; D ) >f`
  | cmdsub     -- `cv=$( ms; D )`
  | backq      -- `` cv=` ms; D ` ``
  | pipe       -- `{ ms; D; } | cat >f`
  | stages     -- `m1 | m2 | … | true` (every mutator is a pipeline stage of its own)
  | bg         -- `{ ms; D; } >f & wait $!`
  | procsub    -- `cat <( ms; D ) >f`
  | coproc     -- `coproc { ms; D >f; }; wait`
  | pl         -- `m1 | … | { mk; } >f`: the last mutator is the last stage (runs in the parent under `lastpipe`)
  | bgw (s : Sync) (f : Frame)   -- `{ ms; D; } >f &` collected by `wait` / `wait %N` / `wait %1 %2`, parent in a frame
  deriving DecidableEq, Repr

def Sync.all : List Sync := [.every, .spec, .spec2]
def Frame.all : List Frame := [.plain, .loop, .func, .errexit]
def Ctx.all : List Ctx :=
  [.paren, .cmdsub, .backq, .pipe, .stages, .bg, .procsub, .coproc, .pl] ++
  Sync.all.flatMap (fun s => Frame.all.map (fun f => Ctx.bgw s f))

/-- what the parent itself does before cloning: a coprocess gets two pipe ends in the parent's
descriptor table (`open_files_mut().add` twice: lowest free numbers) -/
def prepare (c : Ctx) (p : ShellPart) : ShellPart :=
  match c with
  | .coproc =>
    let a := lowestFree p.fds (p.fds.length + 1) 3
    let f1 := insertSorted a p.fds
    let b := lowestFree f1 (f1.length + 1) 3
    { p with fds := insertSorted b f1 }
  | _ => p

/-- the parent as observed after a subshell: its `Shell` value, the process, `$?`, the text that came back -/
structure After where
  shell : ShellPart
  world : World
  status : Nat
  out : List Str
  /-- the rest of the parent's command line does not run.  No subshell context causes this; it
      happens only when the parent's *own* last pipeline stage (under `lastpipe`) is an `exit` or an
      `exec <command>`. -/
  aborted : Bool := false
  deriving DecidableEq

/-- body of a subshell context on a clone of `p`, parametrised by the clone table -/
def childRun (fr : Comp → Bool) (root : List Str) (ms : List Mut) (p : ShellPart) (w : World) : Run :=
  runMuts root ms { sh := cloneWith fr p, world := w }

/-- the output the body produces, including the final state dump when the body did not `exit` -/
def bodyOut (r : Run) : List Str := if r.exited then r.out else r.out ++ dump r.sh r.world

/-- status the body ends with (the dump itself succeeds) -/
def bodyStatus (r : Run) : Nat := if r.exited then r.status else 0

/-- `m1 | m2 | …`: each stage on its own clone of the parent, in spawn order; the process is shared -/
def runStages (sh fr : Comp → Bool) (root : List Str) : List Mut → ShellPart → World → ShellPart × World
  | [], p, w => (p, w)
  | m :: ms, p, w =>
    let r := runMuts root [m] { sh := cloneWith fr p, world := w }
    runStages sh fr root ms (leakWith sh r.sh p) r.world


/-- a non-empty list as (all but the last, the last) -/
def splitLast {α : Type} : List α → Option (List α × α)
  | [] => none
  | [x] => some ([], x)
  | x :: y :: r => (splitLast (y :: r)).map (fun q => (x :: q.1, q.2))

/-- `shopt -s lastpipe` in effect (job control is off in scripts and `-c`): `spawn_pipeline_processes`
runs the last command of a pipeline in the current shell -/
def lastpipeOn (p : ShellPart) : Bool := (aget "lastpipe".toList p.shopts).getD false

/-- what a finished background job holds (`Job::wait` returns the task's whole `ExecutionResult`) -/
structure JobResult where
  status : Nat
  flow : Flow
  deriving DecidableEq, Repr

/-- **The synchronisation step.**  What the `wait` builtin hands to the interpreter of the parent
after collecting the given jobs (`brush-builtins/src/wait.rs`): bare `wait` drops the results
(`wait_all`: status 0); `wait %N …` returns the exit code of the last job named
(`job.wait().await?.exit_code.into()`, as bash does) — in both cases only a status, never the
control-flow request the job ended with. -/
def waitResult (s : Sync) (jobs : List JobResult) : JobResult :=
  match s with
  | .every => { status := 0, flow := .normal }
  | _ => { status := ((jobs.getLast?).map (·.status)).getD 0, flow := .normal }

/-- the job's body runs on a clone made while the parent is in its frame -/
def frameShell (root : List Str) (f : Frame) (p : ShellPart) : ShellPart :=
  match f with
  | .errexit => (stepShell root (.seto "errexit".toList true) p).sh
  | _ => p

/-- the background job of `.bgw _ f`: its body on a clone of the parent in its frame -/
def bgwRun (fr : Comp → Bool) (root : List Str) (f : Frame) (ms : List Mut) (p : ShellPart) (w : World) : Run :=
  runMuts root ms { sh := cloneWith fr (frameShell root f p), world := w, inFn := (f = .func) }

/-- the exit code a job `{ ms; D; }` leaves in the job table (the dump `D` succeeds) -/
def jobResult (r : Run) : JobResult := { status := if r.exited then r.status else 0, flow := r.flow }

/-- what `wait` hands the parent in `.bgw s f` (with `wait %1 %2` a second job `{ exit 5; } &` runs too) -/
def bgwWait (fr : Comp → Bool) (root : List Str) (s : Sync) (f : Frame) (ms : List Mut) (p : ShellPart) (w : World) : JobResult :=
  waitResult s (jobResult (bgwRun fr root f ms p w) ::
    (match s with | .spec2 => [{ status := 5, flow := .exit }] | _ => []))

/-- the parent's own `set -e` acts on the status it received from `wait` -/
def ownErrexit (f : Frame) (wr : JobResult) : Bool := f = .errexit && wr.status != 0

/-- contexts in which a command of the parent itself may end its line: its own last pipeline stage,
its own `set -e` -/
def Ctx.parentActs : Ctx → Bool
  | .pl => true
  | .bgw _ .errexit => true
  | _ => false

/-- what the parent itself does in a context, as opposed to what the subshell bodies do: a
coprocess's pipe ends (`prepare`); under `lastpipe` the last stage of a pipeline; under its own
`set -e`, stopping (with `errexit` still on) when `wait %N` reports a failed job -/
def parentOwn (root : List Str) (c : Ctx) (ms : List Mut) (p : ShellPart) (w : World) : ShellPart :=
  match c with
  | .pl =>
    match splitLast ms with
    | some (init, l) => if lastpipeOn p || init.isEmpty then (stepShell root l p).sh else p
    | none => p
  | .bgw s f => if ownErrexit f (bgwWait fresh root s f ms p w) then frameShell root f p else p
  | _ => prepare c p

/-- running `ms` in context `c` under parent `p`, for a given clone table -/
def execWith (sh fr : Comp → Bool) (root : List Str) (c : Ctx) (ms : List Mut) (p : ShellPart) (w : World) : After :=
  let p0 := prepare c p
  match c with
  | .stages =>
    let r := runStages sh fr root ms p0 w
    -- the last stage is `true`; a stage that fails, even with a Rust `Err`, fails alone
    { shell := r.1, world := r.2, status := 0, out := [] }
  | .pl =>
    match splitLast ms with
    | none => { shell := p0, world := w, status := 0, out := [] }
    | some (init, l) =>
      let r := runStages sh fr root init p0 w      -- the non-final stages, each on its own clone
      if lastpipeOn p0 || init.isEmpty then   -- (a pipeline of one command always runs in the current shell)
        -- the last stage `{ l; }` runs on the parent itself; an `exit` there leaves the parent, and an
        -- `exec cmd` there replaces the parent's process (clone depth 0: a real execve)
        let st := stepShell root l r.1
        { shell := st.sh, world := stepWorld l r.2, status := st.status, out := st.out, aborted := st.exited || execReplaces l }
      else
        let rr := runMuts root [l] { sh := cloneWith fr r.1, world := r.2 }
        { shell := leakWith sh rr.sh r.1, world := rr.world, status := rr.status, out := rr.out }
  | .bgw s f =>
    let r := bgwRun fr root f ms p0 w
    let wr := bgwWait fr root s f ms p0 w
    -- whatever the parent's interpreter is asked to do after `wait` it does: a request other than
    -- `normal` would end its line / loop iteration / function; and its own `set -e` acts on the status
    let own := ownErrexit f wr
    { shell := leakWith sh r.sh (if own then frameShell root f p0 else p0), world := r.world, status := wr.status,
      out := bodyOut r, aborted := wr.flow != .normal || own }
  | _ =>
    let r := childRun fr root ms p0 w
    { shell := leakWith sh r.sh p0, world := r.world,
      status := (match c with | .paren | .cmdsub | .backq => bodyStatus r | _ => 0),
      out := (match c with
              | .coproc => if r.exited then [] else dump r.sh r.world   -- `echo`s go to the coprocess pipe
              | _ => bodyOut r) }

/-- brush as it is: clone table read from the current source -/
def exec : List Str → Ctx → List Mut → ShellPart → World → After := execWith shared fresh

/-! ## a background body interleaved with parent activity -/

inductive Side | parent | child deriving DecidableEq, Repr

structure Pair where
  par : Run
  chi : Run

/-- one scheduling step: the named side runs its next command; the process state is common -/
def schedStep (sh : Comp → Bool) (root : List Str) (x : Pair) (e : Side × Mut) : Pair :=
  match e.1 with
  | .parent =>
    let r := runStep root x.par e.2
    { par := r, chi := { x.chi with sh := leakWith sh r.sh x.chi.sh, world := r.world } }
  | .child =>
    let r := runStep root x.chi e.2
    { par := { x.par with sh := leakWith sh r.sh x.par.sh, world := r.world }, chi := r }

def runSched (sh : Comp → Bool) (root : List Str) (es : List (Side × Mut)) (x : Pair) : Pair :=
  es.foldl (schedStep sh root) x

def parentCmds (es : List (Side × Mut)) : List Mut := (es.filter (fun e => e.1 = .parent)).map (·.2)
def childCmds (es : List (Side × Mut)) : List Mut := (es.filter (fun e => e.1 = .child)).map (·.2)

/-- start of a background job: the child is a clone, both see the same process -/
def fork (fr : Comp → Bool) (p : ShellPart) (w : World) : Pair :=
  { par := { sh := p, world := w }, chi := { sh := cloneWith fr p, world := w } }

end BrushVerif.Subshell
