import BrushVerif.Model.Unquote
import BrushVerif.Model.QuoteEnv
/-! Driver for C13: same requests and response format as harness/src/bin/c13.rs
(`fn`, `ansi`, `rd`, `e2e`); `rdb` reads with bash's `$'\0dd'` rule. -/
namespace BrushVerif.Drv.C13
open BrushVerif.Wire BrushVerif.Quote

def sp (xs : List Str) : Str := joinWith [' '] xs

def showOut : Out → Str
  | .words ws => sp (("W".toList) :: natToStr ws.length :: ws.map esc)
  | .value v => "S ".toList ++ esc v
  | .none => "NONE".toList
  | .err => "ERR".toList
  | .unsup => "UNSUP".toList

def stripPrefix? : Str → Str → Option Str
  | [], s => some s
  | _ :: _, [] => none
  | p :: ps, c :: cs => if p = c then stripPrefix? ps cs else none

/-- variable dump after `eval` of a scalar assignment statement (`name=…` or `declare -attrs name=…`) -/
def readStmt (name t : Str) : Str :=
  let (attrs, body, decl) :=
    match stripPrefix? "declare -".toList t with
    | some r => ((r.takeWhile (· ≠ ' ')).filter (fun c => c ≠ 'a' ∧ c ≠ 'A'), (r.dropWhile (· ≠ ' ')).drop 1, true)
    | none => (['-'], t, false)
  let attrs := if attrs.isEmpty ∨ attrs = ['-'] then ['-'] else attrs
  match stripPrefix? (name ++ ['=']) body with
  | none => "UNSUP".toList
  | some val =>
    if val.head? = some '(' then "UNSUP".toList
    else match rd false (.un true true) val with
      | .ok _ cur [] => sp ["V".toList, attrs, ['s'], esc (cur.getD [])]
      | .ok _ _ _ => if decl then "UNSUP".toList else "NONE".toList
      | .err => "NONE".toList
      | .unsup => "UNSUP".toList

/-- alias body after `eval` of `alias zzal=…` -/
def readAlias (t : Str) : Str :=
  match stripPrefix? "alias ".toList t with
  | none => "UNSUP".toList
  | some r =>
    match readArgs false r with
    | .words [w] => match stripPrefix? "zzal=".toList w with
      | some b => "S ".toList ++ esc b
      | none => "UNSUP".toList
    | .err => "NONE".toList
    | _ => "UNSUP".toList

def readTrap (t : Str) : Str :=
  match stripPrefix? "trap -- ".toList t with
  | none => "UNSUP".toList
  | some r =>
    match readArgs false r with
    | .words [w, s] => if s = "SIGUSR1".toList then "S ".toList ++ esc w else "UNSUP".toList
    | .err => "NONE".toList
    | _ => "UNSUP".toList

def semi (xs : List Str) : Str := joinWith " %; ".toList xs

def pairs : List Str → List (Str × Str)
  | k :: v :: r => (k, v) :: pairs r
  | _ => []

def attrsOf (a : Str) : Str := if a = ['-'] then [] else a

def isArrayForm (f : Str) : Bool :=
  ["dpa", "Aa", "dpA", "AA", "seta", "setA", "Qa"].any (fun x => x.toList = f)

def e2eArr (f a : Str) (rest : List Str) : Str :=
  let a := attrsOf a
  let kvs := pairs (rest.map unesc)
  let nm := "zza".toList
  if f = "dpa".toList ∨ f = "Aa".toList then semi [esc (declareArr false a nm kvs), "UNSUP".toList]
  else if f = "dpA".toList ∨ f = "AA".toList then semi [esc (declareArr true a nm kvs), "UNSUP".toList]
  else if f = "seta".toList then semi [esc (nm ++ ['='] ++ indexedBody kvs), "UNSUP".toList]
  else if f = "setA".toList then semi [esc (nm ++ ['='] ++ assocBody kvs), "UNSUP".toList]
  else
    let t := joinWith [' '] (kvs.map fun kv => atQ kv.2)
    semi [esc t, showOut (readArgs false t)]

def e2e : List Str → Str
  | [f, v] =>
    let v0 := v
    let v := unesc v
    if isArrayForm f then e2eArr f v0 []
    else if f = "pq".toList then let t := printfQ v; semi [esc t, showOut (readArgs false t), showOut (readAsg false t)]
    else if f = "Q".toList then let t := atQ v; semi [esc t, showOut (readArgs false t), showOut (readAsg false t)]
    else if f = "xt".toList then let t := traceArg v; semi [esc t, showOut (readArgs false t), showOut (readAsg false t)]
    else if f = "xs".toList then let t := setLine "zzt".toList v; semi [esc t, readStmt "zzt".toList t]
    else if f = "al".toList ∨ f = "alp".toList then let t := aliasP "zzal".toList v; semi [esc t, readAlias t]
    else if f = "tr".toList then let t := trapP v "SIGUSR1".toList; semi [esc t, readTrap t]
    else "bad-form".toList
  | f :: a :: rest =>
    let a := attrsOf a
    let name := "zzv".toList
    if f = "A".toList ∨ f = "dp".toList ∨ f = "set".toList ∨ f = "ex".toList then
      match rest with
      | [v] =>
        let v := unesc v
        let t := if f = "A".toList then atA a name v
          else if f = "dp".toList then declareP a name v
          else if f = "set".toList then setLine name v
          else exportP (inheritX a true) name v
        semi [esc t, readStmt name t]
      | _ => "bad-form".toList
    else if isArrayForm f then e2eArr f (if a.isEmpty then ['-'] else a) rest
    else "bad-form".toList
  | _ => "bad-form".toList

/-! shadowing contexts: `sh <ctx> <spec>…`, spec = `<s|a|A> <attrs|-> <n> <v1>…<vn>`, innermost first -/

def parseSpecs : Nat → List Str → Option (List Var)
  | _, [] => some []
  | 0, _ => none
  | fuel + 1, k :: a :: n :: rest =>
    match k, parseNat? n with
    | [kc], some cnt =>
      if rest.length < cnt then none
      else (parseSpecs fuel (rest.drop cnt)).map
        (fun more => { attrs := attrsOf a, kind := kc, vals := (rest.take cnt).map unesc } :: more)
    | _, _ => none
  | _, _ => none

/-- effective attributes: a local inherits the export attribute of the binding it hides; a temporary
binding is exported -/
def effective (tmp : Bool) : List Var → List Var
  | [] => []
  | [o] => [o]
  | v :: rest =>
    let rest' := effective false rest
    let ox := match rest' with | o :: _ => hasX o.attrs | [] => false
    { v with attrs := if tmp then ['x'] else inheritX v.attrs ox } :: rest'

def segs (xs : List Str) : Str := joinWith " %| ".toList xs

def withIdx (vals : List Str) : List (Str × Str) :=
  (List.range vals.length).zip vals |>.map (fun p => (natToStr p.1, p.2))

def shadowSegs (tmp : Bool) (v : Var) : List Str :=
  let n := "zzv".toList
  if v.kind = 's' then
    let x := v.vals.headD []
    let words := fun (t : Str) => semi [esc t, showOut (readArgs false t), showOut (readAsg false t)]
    let stmt := fun (nm t : Str) => semi [esc t, readStmt nm t]
    [ semi ["pq".toList, words (printfQ x)],
      semi ["Q".toList, words (atQ x)],
      semi ["A".toList, stmt n (atA v.attrs n x)],
      semi ["dp".toList, stmt n (declareP v.attrs n x)],
      semi ["dpl".toList, stmt n (declareP v.attrs n x)],
      semi ["set".toList, stmt n (setLine n x)],
      (if hasX v.attrs then semi ["ex".toList, stmt n (exportP v.attrs n x)] else semi ["ex".toList, "ABSENT".toList]),
      semi ["xt".toList, words (traceArg x)],
      semi ["xs".toList, stmt "zzt".toList (setLine "zzt".toList x)],
      (let t := aliasP "zzal".toList x; semi ["al".toList, esc t, readAlias t]),
      (let t := trapP x "SIGUSR1".toList; semi ["tr".toList, esc t, readTrap t]),
      semi ["nr".toList, esc (declareP ['n'] "zzNR".toList n), "UNSUP".toList] ] ++
    (if tmp then [] else [semi ["lp".toList, stmt n (declareP v.attrs n x)]])
  else
    let kvs := withIdx v.vals
    let d := declareArr false v.attrs n kvs
    [ (let t := joinWith [' '] (v.vals.map atQ); semi ["Qa".toList, esc t, showOut (readArgs false t)]),
      semi ["Aa".toList, esc d, "UNSUP".toList],
      semi ["dpa".toList, esc d, "UNSUP".toList],
      semi ["dpl".toList, esc d, "UNSUP".toList],
      semi ["seta".toList, esc (n ++ ['='] ++ indexedBody kvs), "UNSUP".toList],
      (if hasX v.attrs then semi ["ex".toList, esc d, "UNSUP".toList] else semi ["ex".toList, "ABSENT".toList]),
      semi ["lp".toList, esc d, "UNSUP".toList] ]

/-- the scope stack of a shadowing context, the listing view over it, and what is printed for `zzv` -/
def shadow (toks : List Str) : Str :=
  match toks with
  | ctx :: rest =>
    match parseSpecs (rest.length + 1) rest with
    | none => "bad-spec".toList
    | some specs =>
      let tmp := ctx = "tmp".toList
      let eff := effective tmp specs
      let sentinel : Str × Var := ("zzw".toList, { attrs := ['x'], kind := 's', vals := ["END".toList] })
      let env : Env := (eff.dropLast.map fun v => [("zzv".toList, v)]) ++
        [(eff.getLast?.map fun o => [("zzv".toList, o), sentinel]).getD [sentinel]]
      match (visible env).lookup "zzv".toList with
      | some v => segs (shadowSegs tmp v)
      | none => "no-binding".toList
  | [] => "bad-request".toList

def handle (toks : List Str) : Str :=
  match toks with
  | [k, s] =>
    let s := unesc s
    if k = "fn".toList then
      sp ([quoteIfNeeded .single s, quoteIfNeeded .double s, quoteIfNeeded .backslash s,
           forceQuote .single s, forceQuote .double s, forceQuote .backslash s].map esc)
    else if k = "ansi".toList then
      match expandAnsiC false s with
      | some d => esc d
      | none => "UNSUP".toList
    else "bad-request".toList
  | k :: p :: [t] =>
    if k = "rd".toList ∨ k = "rdb".toList then
      let bash := k = "rdb".toList
      if p = ['a'] then showOut (readArgs bash (unesc t)) else showOut (readAsg bash (unesc t))
    else if k = "e2e".toList then e2e [p, t]
    else "bad-request".toList
  | k :: rest =>
    if k = "e2e".toList then e2e rest
    else if k = "sh".toList then shadow rest
    else "bad-request".toList
  | [] => "bad-request".toList

end BrushVerif.Drv.C13
