import BrushVerif.Drv.C02
/-! Driver for C18: programs with fault leaves go through the C02 request format. -/
namespace BrushVerif.Drv.C18
open BrushVerif.Wire

def handle (toks : List Str) : Str := BrushVerif.Drv.C02.handle toks

end BrushVerif.Drv.C18
