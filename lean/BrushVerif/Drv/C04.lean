import BrushVerif.Model.Expand
import BrushVerif.Spec.WordExp
import BrushVerif.Model.WordParse
/-!
Driver for C04 and C05 (shared wire format; `Drv/C05.lean` re-exports `handle`).

Request: escaped fields, the first character of each field is a tag. Environment:
`i<ifs>` | `u` (IFS unset), `o<letters>` (n nullglob, f failglob, d dotglob, e/E extglob on/off, g noglob),
`p<arg>`…, `v<name>=<val>`…, `a<name>` `e<elem>`…, `h<home>`, `n<dir entry>`….
Mode `Kw` (full expansion, default), `Ks` (expansion to one string), `Kb` (full expansion, followed by ` %| ` and
the reference semantics `WordExp.specExpandB`, then ` %| D<flags>`: the failing conjuncts of the proved domain,
`WordExp.domainFlags`).
Word, in prefix notation: `T<text>` `Q<single quoted>` `N<ansi-c, decoded>` `E<escaped char>` `H` (tilde)
`C<command output>` `M<arith value>` `V<name>` `P<k>` `X@` `X*` `A@<name>` `A*<name>` `#`,
`D(` … `D)` double quotes, `O<-|+><:|.>` `<param>` … `O)` for `${p:-w}` and friends,
`B(` … `B|` … `B)` brace expression.  Lower-case tags not listed are ignored (they are for the Rust harness).
Response: `OK f1 f2 …` | `ERR` (failglob), followed by ` ;U` when a field's glob pattern lies outside the
regex subset the pattern model executes.
-/
namespace BrushVerif.Drv.C04
open BrushVerif.Wire BrushVerif.Expand

def parseParam (t : Str) : Option Param :=
  match t with
  | 'V' :: n => some (.named n)
  | 'P' :: k => (parseNat? k).map .pos
  | ['X', '@'] => some (.allPos false)
  | ['X', '*'] => some (.allPos true)
  | 'A' :: '@' :: n => some (.allIdx n false)
  | 'A' :: '*' :: n => some (.allIdx n true)
  | ['#'] => some .count
  | _ => none

def parseA0 (t : Str) : Option A0 :=
  match t with
  | 'T' :: s => some (.text s)
  | 'Q' :: s => some (.sq s)
  | 'N' :: s => some (.ansic s)
  | 'E' :: s => some (.esc s)
  | ['H'] => some .tilde
  | 'C' :: s => some (.cmdsub s)
  | 'M' :: s => some (.arith s)
  | _ => (parseParam t).map .param

/-- atoms up to the closing token -/
def parseA0s (close : Str) : List Str → Option (List A0 × List Str)
  | [] => none
  | t :: r =>
    if t = close then some ([], r)
    else match parseA0 t, parseA0s close r with
      | some a, some (as, r') => some (a :: as, r')
      | _, _ => none

def parseW0s : Nat → List Str → Option (List W0 × List Str)
  | 0, _ => none
  | _, [] => none
  | fuel + 1, t :: r =>
    if t = "O)".toList then some ([], r)
    else if t = "D(".toList then
      match parseA0s "D)".toList r with
      | some (as, r') => (parseW0s fuel r').map fun (ws, r'') => (.dq as :: ws, r'')
      | none => none
    else match parseA0 t with
      | some a => (parseW0s fuel r).map fun (ws, r') => (.plain a :: ws, r')
      | none => none

/-- one `A1` at the head of the token list -/
def parseA1 : List Str → Option (A1 × List Str)
  | [] => none
  | t :: r =>
    match t with
    | ['O', k, c] =>
      match r with
      | pt :: r' =>
        match parseParam pt, parseW0s (r'.length + 1) r' with
        | some p, some (w, r'') => some (.op (k = '+') (c = ':') p w, r'')
        | _, _ => none
      | [] => none
    | _ => (parseA0 t).map fun a => (.base a, r)

def parseA1s : Nat → List Str → Option (List A1 × List Str)
  | 0, _ => none
  | _, [] => none
  | fuel + 1, t :: r =>
    if t = "D)".toList then some ([], r)
    else match parseA1 (t :: r) with
      | some (a, r') => (parseA1s fuel r').map fun (as, r'') => (a :: as, r'')
      | none => none

def isStop (t : Str) : Bool := t = "B|".toList || t = "B)".toList

/-- word pieces up to end of input or a brace delimiter (left in place) -/
def parseWPs : Nat → List Str → Option (Word × List Str)
  | 0, _ => none
  | _, [] => some ([], [])
  | fuel + 1, t :: r =>
    if isStop t || t = "B(".toList then some ([], t :: r)
    else if t = "D(".toList then
      match parseA1s (r.length + 1) r with
      | some (as, r') => (parseWPs fuel r').map fun (ws, r'') => (.dq as :: ws, r'')
      | none => none
    else match parseA1 (t :: r) with
      | some (a, r') => (parseWPs fuel r').map fun (ws, r'') => (.plain a :: ws, r'')
      | none => none

def parseAlts : Nat → List Str → Option (List Word × List Str)
  | 0, _ => none
  | fuel + 1, ts =>
    match parseWPs (ts.length + 1) ts with
    | some (w, t :: r) =>
      if t = "B)".toList then some ([w], r)
      else if t = "B|".toList then (parseAlts fuel r).map fun (ws, r') => (w :: ws, r')
      else none
    | _ => none

def parseBWord : Nat → List Str → Option BWord
  | 0, _ => none
  | _, [] => some []
  | fuel + 1, t :: r =>
    if t = "B(".toList then
      match parseAlts (r.length + 1) r with
      | some (alts, r') => (parseBWord fuel r').map (.braces alts :: ·)
      | none => none
    else match parseWPs (r.length + 2) (t :: r) with
      | some ([], _) => none
      | some (w, r') => (parseBWord fuel r').map ((w.map BP.piece) ++ ·)
      | none => none

structure Req where
  env : Env := {}
  opts : Opts := {}
  names : List Str := []
  toStr : Bool := false
  both : Bool := false
  word : List Str := []
  curArr : Option (Str × List Str) := none
  items : List (List Str) := []

def setOpts (o : Opts) : Str → Opts
  | [] => o
  | 'n' :: r => setOpts { o with nullglob := true } r
  | 'f' :: r => setOpts { o with failglob := true } r
  | 'd' :: r => setOpts { o with dotglob := true } r
  | 'e' :: r => setOpts { o with extglob := true } r
  | 'E' :: r => setOpts { o with extglob := false } r
  | 'g' :: r => setOpts { o with noglob := true } r
  | _ :: r => setOpts o r

def splitEq : Str → Str × Str
  | [] => ([], [])
  | '=' :: r => ([], r)
  | c :: r => let (a, b) := splitEq r; (c :: a, b)

def flushArr (q : Req) : Req :=
  match q.curArr with
  | some (n, els) => { q with env := { q.env with arrays := q.env.arrays ++ [(n, els)] }, curArr := none }
  | none => q

def stepReq (q : Req) (t : Str) : Req :=
  match t with
  | 'e' :: v =>
    match q.curArr with
    | some (n, els) => { q with curArr := some (n, els ++ [v]) }
    | none => q
  | 'a' :: n => { flushArr q with curArr := some (n, []) }
  | 'i' :: v => let q := flushArr q; { q with env := { q.env with ifs := some v } }
  | ['u'] => let q := flushArr q; { q with env := { q.env with ifs := none } }
  | 'o' :: v => let q := flushArr q; { q with opts := setOpts q.opts v }
  | 'p' :: v => let q := flushArr q; { q with env := { q.env with args := q.env.args ++ [v] } }
  | 'h' :: v => let q := flushArr q; { q with env := { q.env with home := v } }
  | 'n' :: v => let q := flushArr q; { q with names := q.names ++ [v] }
  | 'v' :: nv => let q := flushArr q; let (n, v) := splitEq nv
                 { q with env := { q.env with vars := (n, v) :: q.env.vars } }
  | 'm' :: v => let q := flushArr q; { q with items := q.items ++ [[v]] }
  | ['z'] => let q := flushArr q; { q with items := q.items ++ [[]] }
  | '+' :: v => { q with items := q.items.dropLast ++ [(q.items.getLast?.getD []) ++ [v]] }
  | ['K', 's'] => { flushArr q with toStr := true }
  | ['K', 'w'] => { flushArr q with toStr := false }
  | ['K', 'b'] => { flushArr q with both := true }
  | c :: _ =>
    let q := flushArr q
    if c.isUpper || c = '#' then { q with word := q.word ++ [t] } else q
  | [] => q

/-- some bracket expression in the text drops a reversed range (`[b-a…]`): what the regex crate then makes of
the remaining class text (a new range across the gap, a compile error) is outside the pattern model -/
def droppedRange : Str → Bool
  | [] => false
  | c :: r =>
    (c = '[' &&
      (let r1 := match r with
         | '!' :: t => t
         | '^' :: t => t
         | _ => r
       match Pattern.parseMembers r1.length r1 with
       | (n, ms, ']' :: _) => n != ms.length
       | _ => false)) || droppedRange r

def unmodelled (ext : Bool) (f : Field) : Bool :=
  let ps := f.map toPattern
  requiresExpansion ext ps &&
    (let q := Pattern.parsePat ext (patternText ps)
     q.backslashAlnum || q.setOp || q.caretFirst || q.hasBang || droppedRange (patternText ps))

def showRes (r : Option (List Str)) : Str :=
  match r with
  | none => "ERR".toList
  | some fs => "OK".toList ++ fs.flatMap fun f => ' ' :: esc f

def act (q : Req) (env : Env) (w : Word) : Str :=
  if q.toStr then showRes (some [expandToStr env w])
  else
    let fields := splitFields env.ifsStr (basicExpand env w)
    let u := !q.opts.noglob && fields.any (unmodelled q.opts.extglob)
    showRes (globFields q.opts q.names fields) ++ (if u then " ;U".toList else [])

/-- an item: `x` := its first string, positional parameters and array `k` := its strings -/
def withItem (env : Env) (it : List Str) : Env :=
  { env with vars := ("x".toList, it.headD []) :: env.vars, arrays := ("k".toList, it) :: env.arrays, args := it }

/-- `Y<name>`: a command substitution printing the value of `name` (`$(printf %s "$name")`) -/
def substY (env : Env) (t : Str) : Str :=
  match t with
  | 'Y' :: n => 'C' :: ((lookup env.vars n).getD [])
  | _ => t

def run1 (q : Req) (env : Env) : Str :=
  let ts := q.word.map (substY env)
  match parseBWord (ts.length + 1) ts with
  | none => "bad-word".toList
  | some bw =>
    if q.both then
      act q env (braceJoin bw) ++ " %| ".toList ++ showRes (WordExp.specExpandB env q.opts q.names bw) ++
        " %| D".toList ++ WordExp.domainFlags env bw
    else act q env (braceJoin bw)

/-- Request `y<word>` (a single field): the word-parser model, `WordParse.parseWord`, in the canonical text
shared with `harness/src/bin/c04.rs` (`OK <pieces>` | `ERR` | `UNSUPPORTED` = outside the modelled fragment). -/
def handle (toks : List Str) : Str :=
  match toks.map unesc with
  | [('y' :: w)] => WordParse.resStr (WordParse.parseWord w)
  | _ =>
  let q := flushArr ((toks.map unesc).foldl stepReq {})
  if q.items.isEmpty then run1 q q.env
  else joinWith " %| ".toList (q.items.map fun it => run1 q (withItem q.env it))

end BrushVerif.Drv.C04
