import BrushVerif.Model.Jobs
/-! Driver for C17: `C17 <len|max> <op> <op> …` → per-op dump `<table>;<ended>;<extra>` joined by ` | `
(same canonical form as harness/src/bin/c17.rs). -/
namespace BrushVerif.Drv.C17
open BrushVerif.Wire BrushVerif.Jobs

def parseSched (s : Str) : Option (List Nat) :=
  if s.isEmpty then some [] else (splitOnChar ',' s).mapM parseNat?

def parseSpec : Str → Option Spec
  | ['%', '%'] => some .cur
  | ['%', '+'] => some .cur
  | ['%', '-'] => some .prev
  | '%' :: r => (parseNat? r).map .num
  | _ => none

inductive Req where
  | op (o : Op)
  | resolve (s : Option Spec)
  | jobs
  | inCtx (c : Ctx) (r : Req)     -- `W@f…`, `S@s…`, `J@e`: the operation issued from inside a context

def parseCtx : Char → Option Ctx
  | 'f' => some .func
  | 'g' => some .func2
  | 'e' => some .evalStr
  | 'b' => some .brace
  | 'l' => some .loopBody
  | 'r' => some .sourced
  | 's' => some .subshell
  | 'c' => some .cmdsubst
  | _ => none

def parseOp (t : Str) : Option Req :=
  match t with
  | 'W' :: '@' :: c :: r =>
    match parseCtx c, parseSched r with
    | some c', some s => some (.inCtx c' (.op (.waitAll s)))
    | _, _ => none
  | 'S' :: '@' :: c :: r =>
    match parseCtx c, splitOnChar ':' r with
    | some c', [sp, sc] =>
      match parseSpec sp, parseSched sc with
      | some sp', some sc' => some (.inCtx c' (.op (.waitSpec sp' sc')))
      | none, some sc' => some (.inCtx c' (.op (.waitSpec (.num 0) sc')))
      | _, _ => none
    | _, _ => none
  | ['J', '@', c] => (parseCtx c).map (fun c' => .inCtx c' .jobs)
  | 'L' :: 'x' :: _ => some (.op (.launch 1 false 3))     -- the job's body ends with status 3
  | 'L' :: 'y' :: _ => some (.op (.launch 1 false 42))
  | 'L' :: _ => some (.op (.launch 1 false 0))
  | 'F' :: r => (parseNat? r).map (fun k => .op (.finish k))
  | ['P'] => some (.op .poll)
  | 'W' :: r => (parseSched r).map (fun s => .op (.waitAll s))
  | 'S' :: r =>
    match splitOnChar ':' r with
    | [sp, sc] =>
      match parseSpec sp, parseSched sc with
      | some sp', some sc' => some (.op (.waitSpec sp' sc'))
      | none, some sc' => some (.op (.waitSpec (.num 0) sc'))   -- unresolvable spec
      | _, _ => none
    | _ => none
  | 'R' :: r => some (.resolve (parseSpec r))
  | ['G'] => some (.op .query)
  | ['J'] => some .jobs
  | _ => none

def insertSorted (k : Nat) : List Nat → List Nat
  | [] => [k]
  | x :: xs => if k < x then k :: x :: xs else if k = x then x :: xs else x :: insertSorted k xs

def sortDedup (l : List Nat) : List Nat := l.foldr insertSorted []

def showNats (l : List Nat) : Str := if l.isEmpty then ['-'] else joinWith [','] (l.map natToStr)

def showJob (j : Job) : Str :=
  natToStr j.id ++
    (match j.ann with | .current => ['+'] | .previous => ['-'] | .none => ['_']) ++
    (match j.state with | .running => ['R'] | .stopped => ['S'] | .done => ['D'] | .unknown => ['U']) ++
    [':'] ++ natToStr j.tag

def showJobShort (j : Job) : Str :=
  natToStr j.id ++
    (match j.ann with | .current => ['+'] | .previous => ['-'] | .none => ['_']) ++
    (match j.state with | .running => ['R'] | .stopped => ['S'] | .done => ['D'] | .unknown => ['U'])

def showTable (t : Table) : Str := if t.isEmpty then ['-'] else joinWith [','] (t.map showJob)

def dump (s : St) (extra : Str) : Str :=
  if s.stuck then "blocked".toList
  else showTable s.table ++ [';'] ++ showNats (sortDedup s.fin) ++ [';'] ++ extra

def extraOf (s : St) (r : Req) (s' : St) : Str :=
  match r with
  | .resolve sp =>
    match sp.bind (resolveIdx s.table) with
    | some i => match s.table[i]? with
      | some j => natToStr j.id ++ [':'] ++ natToStr j.tag
      | none => "none".toList
    | none => "none".toList
  | .jobs => if s.table.isEmpty then "none".toList else joinWith [','] (s.table.map showJobShort)
  | .op (.waitAll _) => if s'.stuck then "blocked".toList else "ok".toList
  | .op (.waitSpec _ _) =>
    if s'.stuck then "blocked".toList else "st".toList ++ natToStr s'.lastWait
  | _ => ['-']

/-- state after the request and the op-specific extra field -/
def exec (s : St) : Req → St × Str
  | .inCtx c r =>
    let ops := match r with | .op o => [o] | _ => []
    if c.forks then
      -- the clone runs the request on its own (empty) table; the parent only sees the environment move on
      let child := forkChild s
      let child' := run child ops
      (runIn c s ops, extraOf child r child')
    else
      let s' := runIn c s ops
      (s', extraOf s r s')
  | r =>
    let s' := match r with | .op o => step s o | _ => s
    (s', extraOf s r s')

def runDump : St → List Req → List Str
  | _, [] => []
  | s, r :: rs =>
    if s.stuck then "stuck".toList :: runDump s rs
    else
      let res := exec s r
      dump res.1 res.2 :: runDump res.1 rs

def parseRule : Str → Option IdRule
  | ['l', 'e', 'n'] => some .lenPlus1
  | ['m', 'a', 'x'] => some .maxPlus1
  | _ => none

def handle (toks : List Str) : Str :=
  match toks with
  | [] => "bad-request".toList
  | r :: ops =>
    match parseRule r, ops.mapM parseOp with
    | some rule, some reqs => joinWith " | ".toList (runDump (init rule) reqs)
    | _, _ => "bad-op".toList

end BrushVerif.Drv.C17
