import BrushVerif.Model.Checked
import BrushVerif.Model.Arith
/-! Driver for C01: the checked hot-spot models on one request line (same canonical answers as
`harness/src/bin/c01.rs`): `OK …` | `ERR` | `PANIC` | `HANG`. -/
namespace BrushVerif.Drv.C01
open BrushVerif.Wire BrushVerif.Checked

def showCk {α : Type} (f : α → Str) : Ck α → Str
  | .ok v => f v
  | .error .hang => "HANG".toList
  | .error _ => "PANIC".toList

def okFields (fs : List Str) : Str := "OK".toList ++ (fs.flatMap (fun f => ' ' :: esc f))

def optLen (t : Str) : Option (Option Int) :=
  if t = ['-'] then some none else (parseInt? t).map some

def natStr (n : Nat) : Str := natToStr n

def elems (pre : Char) (from_ n : Nat) : List Str := (List.range n).map (fun i => pre :: natStr (i + from_))

def keysStr (ks : List Nat) : Str := joinWith [','] (ks.map natStr)

def insertKey : List Nat → Nat → List Nat
  | [], k => [k]
  | x :: xs, k => if k < x then k :: x :: xs else if k = x then x :: xs else x :: insertKey xs k

def binOp? (t : Str) : Option Arith.BinOp :=
  match String.ofList t with
  | "+" => some .add | "-" => some .sub | "*" => some .mul | "/" => some .div | "%25" => some .mod
  | "**" => some .pow | "<<" => some .shl | ">>" => some .shr | "&" => some .band | "|" => some .bor
  | "^" => some .bxor | "<" => some .lt | ">" => some .gt | "<=" => some .le | ">=" => some .ge
  | "==" => some .eq | "!=" => some .ne | "&&" => some .land | "||" => some .lor | "," => some .comma
  | _ => none

def unOp? (t : Str) : Option Arith.UnOp :=
  match String.ofList t with
  | "+" => some .plus | "-" => some .minus | "~" => some .bnot | "!" => some .lnot
  | _ => none

def showRes : Arith.Res → Str
  | .ok v => "OK ".toList ++ intToStr v.toInt
  | .err _ => "ERR".toList

def handle (toks : List Str) : Str :=
  match toks with
  | [op, s, o, l] =>
    let ops := String.ofList op
    if ops = "SUBSTR" then
      match parseInt? o, optLen l with
      | some off, some len => showCk (fun r => match r with | some r => "OK ".toList ++ esc r | none => "ERR".toList) (substring (unesc s) off len)
      | _, _ => "BAD-REQUEST".toList
    else if ops = "ASUBSTR" ∨ ops = "PSUBSTR" then
      match parseNat? s, parseInt? o, optLen l with
      | some n, some off, some len =>
        let xs := if ops = "ASUBSTR" then elems 'e' 0 n else "sh0".toList :: elems 'p' 1 n
        showCk (fun r => match r with | some r => okFields r | none => "ERR".toList) (subarray (ops = "PSUBSTR") xs off len)
      | _, _, _ => "BAD-REQUEST".toList
    else if ops = "INDEX" then
      match parseNat? o, parseInt? l with
      | some n, some idx =>
        let keys := List.range n
        showCk (fun k =>
          match String.ofList s, k with
          | "get", some k => "OK ".toList ++ esc (if k < n then 'e' :: natStr k else []) ++ " K=".toList ++ keysStr keys
          | "get", none => "OK % K=".toList ++ keysStr keys
          | "set", some k => "OK 0 K=".toList ++ keysStr (insertKey keys k)
          | "set", none => "OK 1 K=".toList ++ keysStr keys
          | "unset", some k => "OK 0 K=".toList ++ keysStr (keys.filter (· ≠ k))
          | "unset", none => "OK 1 K=".toList ++ keysStr keys
          | _, _ => "BAD-REQUEST".toList) (indexKey n idx)
      | _, _ => "BAD-REQUEST".toList
    else if ops = "ARITH" then
      match binOp? s, parseInt? o, parseInt? l with
      | some b, some x, some y => showRes (Arith.applyBin b (Int64.ofInt x) (Int64.ofInt y))
      | _, _, _ => "BAD-REQUEST".toList
    else "BAD-REQUEST".toList
  | [op, a, b, c, d] =>
    let ops := String.ofList op
    -- BRACEN <prefix> <sign+digits> <sign+digits> <sign+digits|->   /  BRACEC <prefix> <char> <char> <sign+digits|->
    let num (t : Str) : Option Int :=
      match t with
      | '-' :: ds => (parseNat? ds).bind (braceNumber true)
      | '+' :: ds => (parseNat? ds).bind (braceNumber false)
      | ds => (parseNat? ds).bind (braceNumber false)
    let incOf (t : Str) : Option Int := if t = ['-'] then some 1 else num t
    let pre := unesc a
    -- a number the rule rejects: no sequence expression, the word stays as written
    let literal : Str := "OK ".toList ++ esc (pre ++ ['{'] ++ b ++ "..".toList ++ c ++ (if d = ['-'] then [] else "..".toList ++ d) ++ ['}'])
    if ops = "BRACEN" then
      match num b, num c, incOf d with
      | some s, some e, some i =>
        if seqAccepted s e i then okFields ((numSeq s e i).map (fun w => pre ++ intToStr w)) else literal
      | _, _, _ => literal
    else if ops = "BRACEC" then
      match b, c, incOf d with
      | [c1], [c2], some i => okFields ((charSeq c1.toNat c2.toNat i).map (fun w => pre ++ [Char.ofNat w]))
      | [_], [_], none => literal
      | _, _, _ => "BAD-REQUEST".toList
    else "BAD-REQUEST".toList
  | [op, a, b] =>
    let ops := String.ofList op
    if ops = "HIST" then
      match parseNat? a, optLen b with
      | some n, some none =>
        let sk := histSkip n none
        "OK ".toList ++ natStr (n - sk) ++ [' '] ++ (if n - sk = 0 then ['-'] else natStr (sk + 1))
      | some n, some (some m) =>
        if m < 0 ∨ m > (USIZE_MAX : Int) then "ERR".toList else
        let sk := histSkip n (some m.toNat)
        "OK ".toList ++ natStr (n - sk) ++ [' '] ++ (if n - sk = 0 then ['-'] else natStr (sk + 1))
      | _, _ => "BAD-REQUEST".toList
    else if ops = "LOOP" then
      match parseInt? b with
      | some n =>
        showCk (fun (r : Str × Bool) => "OK ".toList ++ (if r.2 then ['2'] else ['-']) ++ [' '] ++ esc r.1) (nest3 (a = ['b']) n)
      | none => "BAD-REQUEST".toList
    else if ops = "UNARY" then
      match unOp? a, parseInt? b with
      | some u, some x => "OK ".toList ++ intToStr (Arith.applyUn u (Int64.ofInt x)).toInt
      | _, _ => "BAD-REQUEST".toList
    else "BAD-REQUEST".toList
  | _ => "BAD-REQUEST".toList

end BrushVerif.Drv.C01
