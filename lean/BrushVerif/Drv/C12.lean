import BrushVerif.Model.Subshell
/-! Driver for C12: `C12 <ctx> <root> <parent mutators…> -- <subshell mutators…>` →
`st=<$?> sub=<text> par=<text> diff=<changed components|-> w0=<umask>/<nofile> w1=<…> cv=<text>`. -/
namespace BrushVerif.Drv.C12
open BrushVerif.Wire BrushVerif.Subshell

def parseOct? (s : Str) : Option Nat :=
  if s.isEmpty then none
  else s.foldl (fun acc c => match acc with
    | none => none
    | some n => if '0' ≤ c ∧ c ≤ '7' then some (n * 8 + (c.toNat - 48)) else none) (some 0)

def parseBool? (s : Str) : Option Bool :=
  if s = ['1'] then some true else if s = ['0'] then some false else none

def trapAct (s : Str) : Option Str :=
  if s = "colon".toList then some [':']
  else if s = "true".toList then some "true".toList
  else if s = "ign".toList then some []
  else if s = "reset".toList then some ['-']
  else none

def aliasVal (s : Str) : Str := if s = "colon".toList then [':'] else s

def parseMut (root : Str) (t : Str) : Option Mut :=
  match splitOnChar ':' t with
  | [k, a, b] =>
    if k = "as".toList then some (.assign a b)
    else if k = "ro".toList then some (.readonly a b)
    else if k = "fn".toList then some (.defun a b)
    else if k = "so".toList then (parseBool? b).map (.seto a)
    else if k = "sh".toList then (parseBool? b).map (.shopt a)
    else if k = "al".toList then some (.alias a (aliasVal b))
    else if k = "tr".toList then (trapAct b).map (.trap a)
    else if k = "fd".toList then
      match parseNat? a with
      | some fd => if b = ['c'] then some (.fdclose fd) else if b = ['o'] ∨ b = ['i'] then some (.fdopen fd) else none
      | none => none
    else none
  | [k, a] =>
    if k = "ex".toList then some (.export a)
    else if k = "un".toList then some (.unset a)
    else if k = "uf".toList then some (.unsetf a)
    else if k = "ua".toList then some (.unalias a)
    else if k = "cd".toList then
      some (.cd (match a with | 'R' :: r => root ++ r | _ => a))
    else if k = "um".toList then (parseOct? a).map .umask
    else if k = "ul".toList then (parseNat? a).map .ulimit
    else if k = "sa".toList then
      some (.setargs ((splitOnChar ',' a).filter (fun x => !x.isEmpty ∧ x ≠ ['-'])))
    else if k = "xi".toList then (parseNat? a).map .exit
    else if k = "rt".toList then (parseNat? a).map .return_
    else if k = "ec".toList then some (.echo a)
    else if k = "xc".toList then some (.execCmd a)
    else none
  | [k] =>
    if k = "sf".toList then some .shift
    else if k = "br".toList then some .break_
    else if k = "co".toList then some .continue_
    else if k = "fa".toList then some .false_
    else if k = "tu".toList then some .true_
    else none
  | _ => none

/-- `lay+<wrapper>+<layout>+<context>`: the context written with other separators inside a compound
command of the same shell — the model does not look at the wrapper -/
def stripLayout (s : Str) : Str :=
  match splitOnChar '+' s with
  | [l, _, _, base] => if l = "lay".toList then base else s
  | _ => s

def parseCtx0 (s : Str) : Option Ctx :=
  if s = "paren".toList then some .paren else if s = "cmdsub".toList then some .cmdsub
  else if s = "backq".toList then some .backq else if s = "pipe".toList then some .pipe
  else if s = "stages".toList then some .stages else if s = "bg".toList then some .bg
  else if s = "procsub".toList then some .procsub else if s = "coproc".toList then some .coproc
  else if s = "pl".toList then some .pl
  else match splitOnChar '-' s with
    | [b, sy, fr] =>
      if b = "bgw".toList then
        match (if sy = "all".toList then some Sync.every else if sy = "spec".toList then some Sync.spec
               else if sy = "spec2".toList then some Sync.spec2 else none),
              (if fr = "plain".toList then some Frame.plain else if fr = "loop".toList then some Frame.loop
               else if fr = "func".toList then some Frame.func else if fr = "errexit".toList then some Frame.errexit else none) with
        | some x, some y => some (.bgw x y)
        | _, _ => none
      else none
    | _ => none

def parseCtx (s : Str) : Option Ctx := parseCtx0 (stripLayout s)

def textLines (ls : List Str) : Str := ls.flatMap (fun l => l ++ ['\n'])

def compChanged (c : Comp) (a b : ShellPart) : Bool :=
  match c with
  | .env => a.vars != b.vars | .funcs => a.funcs != b.funcs
  | .options => a.setopts != b.setopts || a.shopts != b.shopts
  | .aliases => a.aliases != b.aliases | .traps => a.traps != b.traps
  | .workingDir => a.cwd != b.cwd | .args => a.args != b.args | .openFiles => a.fds != b.fds

def showWorld (w : World) : Str := octDigits 4 w.umask ++ ['/'] ++ natToStr w.nofile

def splitAtSep : List Str → List Str × List Str
  | [] => ([], [])
  | t :: r => if t = ['-', '-'] then ([], r) else let p := splitAtSep r; (t :: p.1, p.2)

/-- what the context script records of `$?`: once, per loop iteration, or inside and after the function -/
def showStatus (c : Ctx) (st : Nat) : Str :=
  match c with
  | .bgw _ .loop => "1:".toList ++ natToStr st ++ ",2:".toList ++ natToStr st
  | .bgw _ .func => "in:".toList ++ natToStr st ++ ",after:0".toList
  | _ => natToStr st

def handle (toks : List Str) : Str :=
  match toks with
  | ctxTok :: rootTok :: rest =>
    let root := unesc rootTok
    let rootP := splitPath root
    let (pt, st) := splitAtSep rest
    match parseCtx ctxTok, pt.mapM (parseMut root), st.mapM (parseMut root) with
    | some ctx, some pm, some sm =>
      let r0 := runMuts rootP pm { sh := defaultShell rootP, world := { umask := 18, nofile := 1024 } }
      if r0.exited then "bad-parent-exit".toList
      else
        let a := exec rootP ctx sm r0.sh r0.world
        let changed := Comp.all.filter (fun c => compChanged c (prepare ctx r0.sh) a.shell)
        let leaked := Comp.all.filter (fun c => compChanged c (parentOwn rootP ctx sm r0.sh r0.world) a.shell)
        let isCv := ctx = .cmdsub || ctx = .backq
        "st=".toList ++ (if a.aborted then "none".toList else showStatus ctx a.status) ++
        " sub=".toList ++ esc (if isCv then [] else textLines a.out) ++
        " par=".toList ++ esc (textLines (dump a.shell a.world)) ++
        " diff=".toList ++ (if changed.isEmpty then ['-'] else joinWith [','] (changed.map (fun c => c.field.toList))) ++
        " leak=".toList ++ (if leaked.isEmpty then ['-'] else joinWith [','] (leaked.map (fun c => c.field.toList))) ++
        " w0=".toList ++ showWorld r0.world ++
        " w1=".toList ++ showWorld a.world ++
        " cv=".toList ++ esc (if isCv then joinWith ['\n'] a.out else [])
    | _, _, _ => "bad-op".toList
  | _ => "bad-request".toList

end BrushVerif.Drv.C12
