import BrushVerif.Model.Wire
import BrushVerif.Model.ErrTrap
import BrushVerif.Spec.ErrTrap
/-! `C16 errfire <E 0|1> <handler> <program>` (prefix wire: `L id st`, `X n`, `R n`, `K body`, `S a b`,
`A a b`, `O a b`, `N a`, `I c t e`, `W u n c b`, `G a`, `U a`, `P st b`).
Response: `<brush model trace> | <reference trace> | <D if the model fired for a leaving command>` -/
namespace BrushVerif.Drv.C16E
open BrushVerif.Wire BrushVerif.ErrTrap BrushVerif.ErrTrapSpec

def pC : Nat → List Str → Option (Cmd × List Str)
  | 0, _ => none
  | _, [] => none
  | f + 1, t :: ts =>
    let nat2 (k : Nat → Nat → Cmd) : Option (Cmd × List Str) :=
      match ts with
      | a :: b :: r => match parseNat? a, parseNat? b with
        | some x, some y => some (k x y, r)
        | _, _ => none
      | _ => none
    let nat1 (k : Nat → Cmd) : Option (Cmd × List Str) :=
      match ts with
      | a :: r => (parseNat? a).map (fun x => (k x, r))
      | _ => none
    let un (k : Cmd → Cmd) (ts : List Str) := (pC f ts).map (fun (a, r) => (k a, r))
    let bin (k : Cmd → Cmd → Cmd) (ts : List Str) :=
      match pC f ts with
      | some (a, r) => (pC f r).map (fun (b, r') => (k a b, r'))
      | none => none
    match String.ofList t with
    | "L" => nat2 .leaf
    | "X" => nat1 .exit
    | "R" => nat1 .ret
    | "K" => un .call ts
    | "S" => bin .seq ts
    | "A" => bin .and ts
    | "O" => bin .or ts
    | "N" => un .not ts
    | "G" => un .grp ts
    | "U" => un .sub ts
    | "I" => match pC f ts with
      | some (c, r) => bin (.ifc c) r
      | none => none
    | "W" => match ts with
      | u :: n :: r => match parseNat? u, parseNat? n with
        | some u, some n => bin (.whl (u != 0) n) r
        | _, _ => none
      | _ => none
    | "P" => match ts with
      | a :: r => match parseNat? a with
        | some st => un (.pipe st) r
        | none => none
      | _ => none
    | _ => none

def showEv : Ev → Str
  | .m false id => 'm' :: natToStr id
  | .m true id => 'h' :: natToStr id
  | .fire st _ => 'E' :: natToStr st

def showRun (x : St × Res) : Str :=
  natToStr x.2.code ++ [' '] ++ joinWith [','] (x.1.trace.map showEv)

def handle (toks : List Str) : Str :=
  match toks with
  | e :: rest =>
    match pC 100000 rest with
    | some (h, r) =>
      match pC 100000 r with
      | some (c, []) =>
        let et := e = ['1']
        let m := execE et (some h) c true {} {}
        let rf := ref et (some h) c {} {}
        showRun m ++ " | ".toList ++ showRun rf ++ " | ".toList
          ++ (if m.1.trace.any isLeavingFire then "D".toList else "-".toList)
      | _ => "bad-program".toList
    | none => "bad-handler".toList
  | _ => "bad-request".toList

end BrushVerif.Drv.C16E
