import BrushVerif.Model.Wire
import BrushVerif.Model.Pattern
import BrushVerif.Spec.Glob
/-! Driver for C08.
* `T <ext> <pat>` → `R=<regex text>`
* `H <ext> <pat>` → `1`/`0`
* `M <ext> <nocase> <pat> <s>…` → `<impl> <full> <spec> <features>`: per subject one character each;
  `impl` = brush's `exactly_matches` as modelled (`U` if the emitted class text had an unescaped
  regex set operator or a leading `^` — impossible since the class-text repairs, kept as a tripwire),
  `full` = the same regex anchored to the whole subject, `spec` = POSIX/bash (`-` when the pattern
  text is outside the well-formed fragment); features: `B` has `!(…)`, `O`/`X` the tripwire,
  `C` named class, `K` brush's grammar reads the text differently from POSIX.
* `P <ext> <nocase> <piece>… -- <s>…` (piece = `l:<text>` quoted / `p:<text>` unquoted) →
  `<impl> <spec|-> <joined text>`: `Pattern::exactly_matches` on the piece list as modelled, bash's reading
* `PG <ext> <nocase> <dotglob> <piece>… -- <name>…` → `<impl names|NONE|NOEXP> <spec names|NONE|?>`
* `G <ext> <nocase> <dotglob> <pat> <name>…` → `<impl names> <spec names|->` (comma separated, escaped)
-/
namespace BrushVerif.Drv.C08
open BrushVerif.Wire BrushVerif.Pattern BrushVerif.Glob

def flag (t : Str) : Bool := t = ['1']
def bit (b : Bool) : Char := if b then '1' else '0'

def names (l : List Str) : Str := if l.isEmpty then ['-'] else joinWith [','] (l.map esc)

/-- every string over `alpha` up to length `n`, by length, then in alphabet order -/
def allStrs (alpha : Str) : Nat → List Str → List Str
  | 0, level => level
  | n + 1, level => level ++ allStrs alpha n (level.flatMap fun s => alpha.map fun c => s ++ [c])

def report (ext nc : Bool) (pt : Str) (ss : List Str) : Str :=
    let q := parsePat ext pt
    let re := toRe q
    let sq := specParse ext pt
    let unmod := q.setOp || q.caretFirst   -- never true since the class-text repairs (kept as a tripwire)
    let impl : Str := if unmod then ['U'] else ss.map fun s => bit (anchoredSearch nc re true s)
    let full : Str := if unmod then ['U'] else ss.map fun s => bit (re.full nc s)
    let spec : Str := match sq with
      | none => ['-']
      | some q' => ss.map fun s => bit (matchB nc q' s)
    let feats : Str :=
      (if q.hasBang then ['B'] else []) ++ (if q.setOp then ['O'] else []) ++
      (if q.caretFirst then ['X'] else []) ++ (if q.hasCls then ['C'] else []) ++
      (match sq with | some q' => if q' = q then [] else ['K'] | none => []) ++ ['.']
    let nz (x : Str) : Str := if x.isEmpty then ['-'] else x
    nz impl ++ [' '] ++ nz full ++ [' '] ++ nz spec ++ [' '] ++ feats

def parsePiece? (t : Str) : Option PatPiece :=
  match t with
  | 'l' :: ':' :: r => some (.lit (unesc r))
  | 'p' :: ':' :: r => some (.pat (unesc r))
  | _ => none

/-- split at the `--` token -/
def splitDashes : List Str → List Str × List Str
  | [] => ([], [])
  | t :: ts => if t = ['-', '-'] then ([], ts) else let (a, b) := splitDashes ts; (t :: a, b)

def handlePieces (glob : Bool) (e n d : Str) (rest : List Str) : Str :=
  let (pt, st) := splitDashes rest
  match pt.mapM parsePiece? with
  | none => "bad-piece".toList
  | some ps =>
    let ss := st.map unesc
    let nz (x : Str) : Str := if x.isEmpty then ['-'] else x
    if glob then
      let nm (l : List Str) : Str := if l.isEmpty then "NONE".toList else joinWith [','] (l.map esc)
      (match expandPieces (flag e) (flag n) (flag d) ps ss with
       | none => "NOEXP".toList
       | some l => nm l) ++ [' '] ++
      (match specExpandPieces (flag e) (flag n) (flag d) ps ss with
       | some l => nm l
       | none => ['?'])
    else
      nz (ss.map fun s => bit (piecesMatch (flag e) (flag n) ps s)) ++ [' '] ++
      (match specParse (flag e) (specPiecesText ps) with
       | none => ['-']
       | some q => nz (ss.map fun s => bit (matchB (flag n) q s))) ++ [' '] ++ esc (piecesText ps)

def handle (toks : List Str) : Str :=
  match toks with
  | ['P'] :: e :: n :: rest => handlePieces false e n [] rest
  | ['P', 'G'] :: e :: n :: d :: rest => handlePieces true e n d rest
  | [['M', 'X'], e, n, p, a, k] =>
    report (flag e) (flag n) (unesc p) (allStrs (unesc a) ((parseNat? k).getD 0) [[]])
  | [['T'], e, p] => "R=".toList ++ esc (patternToRegexStr (flag e) (unesc p))
  | [['H'], e, p] => [bit (hasGlob (flag e) (unesc p))]
  | ['M'] :: e :: n :: p :: subs => report (flag e) (flag n) (unesc p) (subs.map unesc)
  | ['G'] :: e :: n :: d :: p :: ns =>
    let pt := unesc p
    let nl := ns.map unesc
    names (globDir (flag e) (flag n) (flag d) pt nl) ++ [' '] ++
      (match specGlobDir (flag e) (flag n) (flag d) pt nl with
       | some l => names l
       | none => ['?'])
  | _ => "bad-request".toList

end BrushVerif.Drv.C08
