import BrushVerif.Model.Wire
/-! Driver for C08 (stub until the property's model exists). -/
namespace BrushVerif.Drv.C08
open BrushVerif.Wire

def handle (_toks : List Str) : Str := "unimplemented".toList

end BrushVerif.Drv.C08
