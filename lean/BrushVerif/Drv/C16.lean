import BrushVerif.Drv.FlowWire
import BrushVerif.Model.Traps
import BrushVerif.Drv.C16E
/-! Driver for C16: `C16 <hasTrap 0|1> <execReplaced 0|1> <program wire>`; with `hasTrap` the LAST
function of the program is the EXIT handler's body. Response: `<status> <trace>`. -/
namespace BrushVerif.Drv.C16
open BrushVerif.Wire BrushVerif.Flow BrushVerif.Drv.FlowWire BrushVerif.Traps

/-- `C16 S <program wire>`: the last two functions are the handler and the body of a subshell that
registers its own EXIT trap; `main` runs before it and a `$?` probe after it.
Response: `<brush model> | <reference>` -/
def ownTrap (fs : List Cmd) (main : Cmd) (spec : Bool) : Str :=
  match fs.reverse with
  | c :: h :: _ =>
    match exec 100000 fs false main {} with
    | none => "out-of-fuel".toList
    | some (s, r) =>
      if r.flow ≠ .normal then showOut (some (s.trace, r.code))
      else
        let sub := if spec then subshellOwnTrapSpec 100000 fs false (some h) c s
                   else subshellOwnTrap 100000 fs false (some h) c s
        match sub with
        | none => "out-of-fuel".toList
        | some (s1, r1) =>
          if r1.flow ≠ .normal then showOut (some (s1.trace, r1.code))
          else showOut (some (s1.trace ++ [.q s1.last], 0))
  | _ => "bad-program".toList

def handle (toks : List Str) : Str :=
  match toks with
  | ['e', 'r', 'r', 'f', 'i', 'r', 'e'] :: rest => BrushVerif.Drv.C16E.handle rest
  | ['S'] :: rest =>
    match pProg rest with
    | none => "bad-program".toList
    | some (fs, main) => ownTrap fs main false ++ " | ".toList ++ ownTrap fs main true
  | ht :: xr :: rest =>
    match pProg rest with
    | none => "bad-program".toList
    | some (fs, main) =>
      let h : Option Cmd := if ht = ['1'] then fs.getLast? else none
      match runShell .dashC 100000 fs h main (xr = ['1']) with
      | none => "out-of-fuel".toList
      | some o => showOut (some (o.trace, o.status))
  | _ => "bad-request".toList

end BrushVerif.Drv.C16
