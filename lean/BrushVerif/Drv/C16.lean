import BrushVerif.Drv.FlowWire
import BrushVerif.Model.Traps
/-! Driver for C16: `C16 <hasTrap 0|1> <execReplaced 0|1> <program wire>`; with `hasTrap` the LAST
function of the program is the EXIT handler's body. Response: `<status> <trace>`. -/
namespace BrushVerif.Drv.C16
open BrushVerif.Wire BrushVerif.Flow BrushVerif.Drv.FlowWire BrushVerif.Traps

def handle (toks : List Str) : Str :=
  match toks with
  | ht :: xr :: rest =>
    match pProg rest with
    | none => "bad-program".toList
    | some (fs, main) =>
      let h : Option Cmd := if ht = ['1'] then fs.getLast? else none
      match runShell .dashC 100000 fs h main (xr = ['1']) with
      | none => "out-of-fuel".toList
      | some o => showOut (some (o.trace, o.status))
  | _ => "bad-request".toList

end BrushVerif.Drv.C16
