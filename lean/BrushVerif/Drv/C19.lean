import BrushVerif.Model.Highlight
import BrushVerif.Model.Tokenizer
/-!
Driver for C19: `C19 <cursor,cursor,…> <tree tokens…>` →
`wf=<0|1> %| <cursor> <spans> <trap> %| …` with trap = `-` or the first off-boundary offset, spans `start-end-Kind,…` (`-` when empty).
Tree grammar (prefix, space separated), as printed by `harness/src/bin/c19.rs`:
  prog  := `P <esc line> F` | `P <esc line> T <n> tok*n`
  tok   := `O s e` | `W s e <esc w> <cls> N` | `W s e <esc w> <cls> Y <n> piece*n`
  piece := `L s e <Q|R|A|X>` | `D s e <n> piece*n` | `B s e prog` | `C s e prog`

`C19 tok <extglob 0|1><sh_mode 0|1> <esc line>` → the tokenizer model's answer in the canonical form of the harness's
`K` request, then ` %| ` and one ghost `exact` flag per token:
  `ok <tok>*` with tok = `<W|O>:<start>:<end>:<sline>.<scol>:<eline>.<ecol>:<esc text>` | `err:escape` |
  `err:single:<index>:<line>.<col>` | `err:double:…` | `unsupported` | `panic`
-/
namespace BrushVerif.Drv.C19
open BrushVerif.Wire BrushVerif.Highlight

def kindName : Kind → String
  | .Default => "Default" | .Comment => "Comment" | .Arithmetic => "Arithmetic"
  | .Parameter => "Parameter" | .CommandSubstitution => "CommandSubstitution" | .Quoted => "Quoted"
  | .Operator => "Operator" | .Assignment => "Assignment" | .HyphenOption => "HyphenOption"
  | .Function => "Function" | .Keyword => "Keyword" | .Builtin => "Builtin" | .Alias => "Alias"
  | .ExternalCommand => "ExternalCommand" | .NotFoundCommand => "NotFoundCommand"
  | .UnknownCommand => "UnknownCommand"

def showSpan (s : Span) : Str :=
  natToStr s.start ++ ['-'] ++ natToStr s.stop ++ ['-'] ++ (kindName s.kind).toList

def showSpans (l : List Span) : Str :=
  if l.isEmpty then ['-'] else joinWith [','] (l.map showSpan)

def cls? : Str → Option Class
  | ['K'] => some .keyword | ['A'] => some .alias | ['F'] => some .function
  | ['B'] => some .builtin | ['E'] => some .external | ['N'] => some .notFound
  | _ => none

def leaf? : Str → Option LeafKind
  | ['Q'] => some .quoted | ['R'] => some .parameter | ['A'] => some .arithmetic
  | ['X'] => some .text
  | _ => none

mutual
  def pProg : Nat → List Str → Option (Prog × List Str)
    | 0, _ => none
    | _ + 1, ['P'] :: l :: ['F'] :: rest => some (.failed (unesc l), rest)
    | fuel + 1, ['P'] :: l :: ['T'] :: n :: rest => do
      let n ← parseNat? n
      let (ts, rest) ← pToks fuel n rest
      some (.ok (unesc l) ts, rest)
    | _, _ => none
  def pToks : Nat → Nat → List Str → Option (List Tok × List Str)
    | 0, _, _ => none
    | _, 0, rest => some ([], rest)
    | fuel + 1, n + 1, rest => do
      let (t, rest) ← pTok fuel rest
      let (ts, rest) ← pToks fuel n rest
      some (t :: ts, rest)
  def pTok : Nat → List Str → Option (Tok × List Str)
    | 0, _ => none
    | _, ['O'] :: s :: e :: rest => do
      some (.op (← parseNat? s) (← parseNat? e), rest)
    | _, ['W'] :: s :: e :: w :: c :: ['N'] :: rest => do
      some (.wordFail (← parseNat? s) (← parseNat? e) (unesc w) (← cls? c), rest)
    | fuel + 1, ['W'] :: s :: e :: w :: c :: ['Y'] :: n :: rest => do
      let (ps, rest) ← pPieces fuel (← parseNat? n) rest
      some (.word (← parseNat? s) (← parseNat? e) (unesc w) (← cls? c) ps, rest)
    | _, _ => none
  def pPieces : Nat → Nat → List Str → Option (List Piece × List Str)
    | 0, _, _ => none
    | _, 0, rest => some ([], rest)
    | fuel + 1, n + 1, rest => do
      let (p, rest) ← pPiece fuel rest
      let (ps, rest) ← pPieces fuel n rest
      some (p :: ps, rest)
  def pPiece : Nat → List Str → Option (Piece × List Str)
    | 0, _ => none
    | _, ['L'] :: s :: e :: k :: rest => do
      some (.leaf (← parseNat? s) (← parseNat? e) (← leaf? k), rest)
    | fuel + 1, ['D'] :: s :: e :: n :: rest => do
      let (ps, rest) ← pPieces fuel (← parseNat? n) rest
      some (.dq (← parseNat? s) (← parseNat? e) ps, rest)
    | fuel + 1, ['B'] :: s :: e :: rest => do
      let (p, rest) ← pProg fuel rest
      some (.sub (← parseNat? s) (← parseNat? e) 1 p, rest)
    | fuel + 1, ['C'] :: s :: e :: rest => do
      let (p, rest) ← pProg fuel rest
      some (.sub (← parseNat? s) (← parseNat? e) 2 p, rest)
    | _, _ => none
end

def cursors (s : Str) : List Nat := (splitOnChar ',' s).filterMap parseNat?

def showPos (p : Tokenizer.Pos) : Str := natToStr p.line ++ ['.'] ++ natToStr p.col

def showTok (t : Tokenizer.Token) : Str :=
  (match t.kind with | .word => ['W'] | .op => ['O']) ++ [':'] ++ natToStr t.start.index ++ [':'] ++
    natToStr t.stop.index ++ [':'] ++ showPos t.start ++ [':'] ++ showPos t.stop ++ [':'] ++ esc t.text

def showRes : Tokenizer.Res → Str
  | .ok ts => joinWith [' '] ("ok".toList :: ts.map showTok) ++ " %| ".toList ++
      (if ts.isEmpty then ['-'] else ts.map (fun t => if t.exact then '1' else '0'))
  | .err .unterminatedEscape => "err:escape".toList
  | .err (.unterminatedSingleQuote p) => "err:single:".toList ++ natToStr p.index ++ [':'] ++ showPos p
  | .err (.unterminatedDoubleQuote p) => "err:double:".toList ++ natToStr p.index ++ [':'] ++ showPos p
  | .unsupported => "unsupported".toList
  | .panic => "panic".toList

def handle (toks : List Str) : Str :=
  match toks with
  | ['t', 'o', 'k'] :: [e, s] :: l :: [] =>
    showRes (Tokenizer.tokenize ⟨e == '1', s == '1'⟩ (unesc l))
  | cs :: tree =>
    match pProg (tree.length + 1) tree with
    | some (p, []) =>
      let head : Str := "wf=".toList ++ (if wfProg p then ['1'] else ['0'])
      joinWith " %| ".toList
        (head :: (cursors cs).map (fun c =>
          let st := highlightSt p c
          natToStr c ++ [' '] ++ showSpans st.spans ++ [' '] ++
            (match st.trap with | some t => natToStr t | none => ['-'])))
    | _ => "bad-tree".toList
  | [] => "bad-request".toList

end BrushVerif.Drv.C19
