import BrushVerif.Drv.C02
import BrushVerif.Model.Nounset
import BrushVerif.Spec.Nounset
/-! Driver for C03.

* control-flow programs: same request/response as C02 (programs may toggle options and use command
  substitutions, eval and pipelines);
* `nounset <placement S|N|F> <nounset 0|1> <nargs> a… <nvars> (name value)… <stmt>` — the `set -u`
  decision table.  Response: `<model decision> <model shown> | <bash decision> <bash shown>` with
  decisions `ok|fail|abort` and shown = three bits (status non-zero, `after` printed, `inner` printed).

  value: `U` | `Ui` | `Ua` | `S <esc>` | `I <k> (<idx> <esc>)…` | `A <k> (<esc key> <esc>)…`
  stmt:  `W <n> expr…` | `AC a` | `LET a` | `CND a` | `FOR a` | `AIX a`
  expr:  `v <pl|rm|rep|cm|xf> <ind 0|1> param` | `v sub <ind> param a (- | + a)` |
         `t <-|=|?|+> <colon 0|1> param (wl <esc> | wr param)` | `len param` | `names <esc>` | `keys <name>` | `ar a`
  param: `p <n>` | `s <@|*|#|?|-|$|0>` | `n <name>` | `i <name> N <n>` | `i <name> K <name>` | `a <name> <@|*>`
  a:     `L <int>` | `V x` | `X x a` | `NEG a` | `NOT a` | `ADD a a` | `LT a a` | `COM a a` | `AND a a` | `OR a a` |
         `CND a a a` | `ASN x a` | `INC x`
-/
namespace BrushVerif.Drv.C03
open BrushVerif.Wire BrushVerif.Nounset

def isIdent (s : Str) : Bool :=
  match s with
  | [] => false
  | c :: _ => (c.isAlpha || c = '_') && s.all (fun d => d.isAlphanum || d = '_')

/-- what `arithmetic::parse` makes of the texts the table stores in variables -/
def parseArithText (s : Str) : Option AExpr :=
  if s.isEmpty then some (.lit 0)
  else match parseInt? s with
    | some n => some (.lit n)
    | none => if isIdent s then some (.var s) else none

/-- what `parse_parameter` makes of the texts the table stores in variables -/
def parseParamText (s : Str) : Option Parameter :=
  match parseNat? s with
  | some n => some (.positional n)
  | none => if isIdent s then some (.named s) else none

def parsers : Parsers := { arith := parseArithText, param := parseParamText, fuel := 64 }

def parseA : Nat → List Str → Option (AExpr × List Str)
  | 0, _ => none
  | f + 1, t :: r =>
    let un (k : AExpr → AExpr) := (parseA f r).map (fun (a, r) => (k a, r))
    let bin (k : AExpr → AExpr → AExpr) :=
      match parseA f r with
      | some (a, r1) => (parseA f r1).map (fun (b, r2) => (k a b, r2))
      | none => none
    if t = "L".toList then
      match r with
      | n :: r => (parseInt? n).map (fun n => (.lit n, r))
      | _ => none
    else if t = "V".toList then
      match r with
      | x :: r => some (.var x, r)
      | _ => none
    else if t = "X".toList then
      match r with
      | x :: r => (parseA f r).map (fun (a, r) => (.elem x a, r))
      | _ => none
    else if t = "NEG".toList then un .neg
    else if t = "NOT".toList then un .not
    else if t = "ADD".toList then bin .add
    else if t = "LT".toList then bin .lt
    else if t = "COM".toList then bin .comma
    else if t = "AND".toList then bin .land
    else if t = "OR".toList then bin .lor
    else if t = "CND".toList then
      match parseA f r with
      | some (c, r1) =>
        match parseA f r1 with
        | some (a, r2) => (parseA f r2).map (fun (b, r3) => (.cond c a b, r3))
        | none => none
      | none => none
    else if t = "ASN".toList then
      match r with
      | x :: r => (parseA f r).map (fun (a, r) => (.assign x a, r))
      | _ => none
    else if t = "INC".toList then
      match r with
      | x :: r => some (.postIncr x, r)
      | _ => none
    else none
  | _, [] => none

def parseParam : List Str → Option (Parameter × List Str)
  | ['p'] :: n :: r => (parseNat? n).map (fun n => (.positional n, r))
  | ['s'] :: [c] :: r =>
    let sp : Option Special := match c with
      | '@' => some (.allPos false) | '*' => some (.allPos true) | '#' => some .count | '?' => some .status
      | '-' => some .flags | '$' => some .pid | '0' => some .shellName | _ => none
    sp.map (fun s => (.special s, r))
  | ['n'] :: x :: r => some (.named x, r)
  | ['i'] :: x :: ['N'] :: n :: r => (parseNat? n).map (fun n => (.namedIdx x (.num n), r))
  | ['i'] :: x :: ['K'] :: k :: r => some (.namedIdx x (.name k), r)
  | ['a'] :: x :: [c] :: r => some (.namedAll x (c = '*'), r)
  | _ => none

def parseExpr (toks : List Str) : Option (Expr × List Str) :=
  match toks with
  | ['v'] :: op :: ind :: r =>
    match parseParam r with
    | none => none
    | some (p, r1) =>
      let indirect := ind = ['1']
      if op = "sub".toList then
        match parseA (r1.length + 1) r1 with
        | none => none
        | some (off, ['-'] :: r2) => some (.value (.substring off none) p indirect, r2)
        | some (off, ['+'] :: r2) =>
          (parseA (r2.length + 1) r2).map (fun (l, r3) => (.value (.substring off (some l)) p indirect, r3))
        | _ => none
      else
        let vo : Option ValueOp :=
          if op = "pl".toList then some .plain else if op = "rm".toList then some .removePattern
          else if op = "rep".toList then some .replace else if op = "cm".toList then some .caseMod
          else if op = "xf".toList then some .transform else none
        vo.map (fun o => (.value o p indirect, r1))
  | ['t'] :: [o] :: colon :: r =>
    let op : Option BrushVerif.ParamOps.TestOp := match o with
      | '-' => some .useDefault | '=' => some .assignDefault | '?' => some .errorIfUnset | '+' => some .useAlternative
      | _ => none
    match op, parseParam r with
    | some op, some (p, ['w', 'l'] :: w :: r1) => some (.test op (colon = ['1']) p (.lit (unesc w)), r1)
    | some op, some (p, ['w', 'r'] :: r1) =>
      (parseParam r1).map (fun (q, r2) => (.test op (colon = ['1']) p (.ref q), r2))
    | _, _ => none
  | ['l', 'e', 'n'] :: r => (parseParam r).map (fun (p, r1) => (.length p, r1))
  | ['n', 'a', 'm', 'e', 's'] :: x :: r => some (.names (unesc x), r)
  | ['k', 'e', 'y', 's'] :: x :: r => some (.keys x, r)
  | ['a', 'r'] :: r => (parseA (r.length + 1) r).map (fun (a, r1) => (.arith a, r1))
  | _ => none

def parseExprs : Nat → List Str → Option (List Expr × List Str)
  | 0, r => some ([], r)
  | n + 1, r =>
    match parseExpr r with
    | none => none
    | some (x, r1) => (parseExprs n r1).map (fun (xs, r2) => (x :: xs, r2))

def parseStmt (toks : List Str) : Option Stmt :=
  match toks with
  | ['W'] :: n :: r =>
    match parseNat? n with
    | none => none
    | some n =>
      match parseExprs n r with
      | some (es, []) => some (.words es)
      | _ => none
  | k :: r =>
    match parseA (r.length + 1) r with
    | some (a, []) =>
      if k = "AC".toList then some (.arithCmd a) else if k = "LET".toList then some (.letCmd a)
      else if k = "CND".toList then some (.condArith a) else if k = "FOR".toList then some (.arithFor a)
      else if k = "AIX".toList then some (.assignIdx a) else none
    | _ => none
  | [] => none

def parsePairsN : Nat → List Str → Option (List (Nat × Str) × List Str)
  | 0, r => some ([], r)
  | n + 1, i :: v :: r =>
    match parseNat? i, parsePairsN n r with
    | some i, some (ps, r1) => some ((i, unesc v) :: ps, r1)
    | _, _ => none
  | _, _ => none

def parsePairsS : Nat → List Str → Option (List (Str × Str) × List Str)
  | 0, r => some ([], r)
  | n + 1, k :: v :: r => (parsePairsS n r).map (fun (ps, r1) => ((unesc k, unesc v) :: ps, r1))
  | _, _ => none

def parseValue : List Str → Option (Value × List Str)
  | ['U'] :: r => some (.unset .untyped, r)
  | ['U', 'i'] :: r => some (.unset .indexed, r)
  | ['U', 'a'] :: r => some (.unset .assoc, r)
  | ['S'] :: s :: r => some (.str (unesc s), r)
  | ['I'] :: k :: r => (parseNat? k).bind (fun k => (parsePairsN k r).map (fun (ps, r1) => (.indexed ps, r1)))
  | ['A'] :: k :: r => (parseNat? k).bind (fun k => (parsePairsS k r).map (fun (ps, r1) => (.assoc ps, r1)))
  | _ => none

def parseVars : Nat → List Str → Option (List (Str × Value) × List Str)
  | 0, r => some ([], r)
  | n + 1, x :: r =>
    match parseValue r with
    | none => none
    | some (v, r1) => (parseVars n r1).map (fun (vs, r2) => ((x, v) :: vs, r2))
  | _, _ => none

def decStr : Decision → Str
  | .ok => "ok".toList
  | .fail => "fail".toList
  | .abort => "abort".toList

def shownStr (s : Shown) : Str :=
  let b (x : Bool) := if x then '1' else '0'
  [b s.failed, b s.after, b s.inner]

def handleNounset (toks : List Str) : Str :=
  match toks with
  | [pl] :: nu :: na :: r =>
    let placement : Placement := if pl = 'S' then .sameLine else if pl = 'F' then .inFunc else .nextLine
    match parseNat? na with
    | none => "ERR args".toList
    | some na =>
      let args := (r.take na).map unesc
      match r.drop na with
      | nv :: r1 =>
        match (parseNat? nv).bind (fun nv => parseVars nv r1) with
        | none => "ERR vars".toList
        | some (vs, r2) =>
          match parseStmt r2 with
          | none => "ERR stmt".toList
          | some st =>
            let env : Env := { vars := fun n => (vs.find? (fun p => p.1 = n)).map (·.2), args := args, nounset := nu = ['1'] }
            let m := nounsetDecision parsers env st
            let b := BrushVerif.NounsetSpec.bashDecision parsers env st
            decStr m ++ [' '] ++ shownStr (shown placement m) ++ " | ".toList ++ decStr b ++ [' '] ++ shownStr (shown placement b)
      | [] => "ERR vars".toList
  | _ => "ERR request".toList

def handle (toks : List Str) : Str :=
  match toks with
  | t :: r => if t = "nounset".toList then handleNounset r else BrushVerif.Drv.C02.handle toks
  | [] => BrushVerif.Drv.C02.handle toks

end BrushVerif.Drv.C03
