import BrushVerif.Drv.C02
/-! Driver for C03: same request/response as C02 (programs may toggle options and use command
substitutions, eval and pipelines). -/
namespace BrushVerif.Drv.C03
open BrushVerif.Wire

def handle (toks : List Str) : Str := BrushVerif.Drv.C02.handle toks

end BrushVerif.Drv.C03
