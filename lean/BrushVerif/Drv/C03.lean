import BrushVerif.Model.Wire
/-! Driver for C03 (stub until the property's model exists). -/
namespace BrushVerif.Drv.C03
open BrushVerif.Wire

def handle (_toks : List Str) : Str := "unimplemented".toList

end BrushVerif.Drv.C03
