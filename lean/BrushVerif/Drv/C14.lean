import BrushVerif.Model.Print
/-! Driver for C14: `C14 <function tree in prefix form>` → `P=<esc printed text> X=<esc exported text> W=<esc print after import>` (see tools/c14gen.py `wire`). -/
namespace BrushVerif.Drv.C14
open BrushVerif.Wire BrushVerif.Print

abbrev Rd (α : Type) := List Str → Option (α × List Str)

def rdWord : Rd Str
  | ('=' :: w) :: ts => some (unesc w, ts)
  | _ => none

def rdOpt : Rd (Option Str)
  | ['-'] :: ts => some (none, ts)
  | ('=' :: w) :: ts => some (some (unesc w), ts)
  | _ => none

def rdNat : Rd Nat
  | t :: ts => (parseNat? t).map (fun n => (n, ts))
  | _ => none

def rdWords : Nat → Rd (List Str)
  | 0, ts => some ([], ts)
  | n + 1, ts => do
    let (w, ts) ← rdWord ts
    let (ws, ts) ← rdWords n ts
    pure (w :: ws, ts)

def optStr : Option Str → Str
  | none => []
  | some s => s

mutual
partial def rdRedir : Rd Redir
  | ['r','f'] :: ts => do
    let (fd, ts) ← rdOpt ts
    let (kind, ts) ← rdWord ts
    match ts with
    | ['t','w'] :: ts => do
      let (w, ts) ← rdWord ts
      pure (.file fd kind w, ts)
    | ['t','p'] :: dir :: ts => do
      let (l, ts) ← rdItems ts
      pure (.filePs fd kind dir l, ts)
    | _ => none
  | ['r','o'] :: app :: ts => do
    let (w, ts) ← rdWord ts
    pure (.outErr (app = ['1']) w, ts)
  | ['r','s'] :: ts => do
    let (fd, ts) ← rdOpt ts
    let (w, ts) ← rdWord ts
    pure (.hereStr fd w, ts)
  | ['r','h'] :: ts => do
    let (fd, ts) ← rdOpt ts
    match ts with
    | strip :: ts => do
      let (d, ts) ← rdWord ts
      let (b, ts) ← rdWord ts
      pure (.hereDoc fd (strip = ['1']) d b, ts)
    | _ => none
  | _ => none
partial def rdRedirsN : Nat → Rd Redirs
  | 0, ts => some (.nil, ts)
  | n + 1, ts => do
    let (r, ts) ← rdRedir ts
    let (rs, ts) ← rdRedirsN n ts
    pure (.cons r rs, ts)
partial def rdRedirs : Rd Redirs := fun ts => do
  let (n, ts) ← rdNat ts
  rdRedirsN n ts
partial def rdSItem : Rd SItem
  | ['w'] :: ts => do let (w, ts) ← rdWord ts; pure (.word w, ts)
  | ['a'] :: ts => do let (w, ts) ← rdWord ts; pure (.word w, ts)
  | ['r'] :: ts => do let (r, ts) ← rdRedir ts; pure (.redir r, ts)
  | ['p','s'] :: dir :: ts => do let (l, ts) ← rdItems ts; pure (.procSub dir l, ts)
  | _ => none
partial def rdSItemsN : Nat → Rd SItems
  | 0, ts => some (.nil, ts)
  | n + 1, ts => do
    let (i, ts) ← rdSItem ts
    let (is, ts) ← rdSItemsN n ts
    pure (.cons i is, ts)
partial def rdSItems : Rd SItems := fun ts => do
  let (n, ts) ← rdNat ts
  rdSItemsN n ts
partial def rdCmd : Rd Cmd
  | ['S'] :: ts => do
    let (pre, ts) ← rdSItems ts
    let (name, ts) ← rdOpt ts
    let (suf, ts) ← rdSItems ts
    pure (.simple pre name suf, ts)
  | ['C'] :: ts => do
    let (c, ts) ← rdCompound ts
    let (rs, ts) ← rdRedirs ts
    pure (.comp c rs, ts)
  | ['D'] :: ts => do
    let (name, ts) ← rdWord ts
    let (c, ts) ← rdCompound ts
    let (rs, ts) ← rdRedirs ts
    pure (.fdef name c rs, ts)
  | _ => none
partial def rdCmdsN : Nat → Rd Cmds
  | 0, ts => some (.nil, ts)
  | n + 1, ts => do
    let (c, ts) ← rdCmd ts
    let (cs, ts) ← rdCmdsN n ts
    pure (.cons c cs, ts)
partial def rdPipeline : Rd Pipeline
  | ['P'] :: timed :: bang :: ts => do
    let t ← parseNat? timed
    let (n, ts) ← rdNat ts
    let (c, ts) ← rdCmd ts
    let (cs, ts) ← rdCmdsN (n - 1) ts
    pure (.mk t (bang = ['1']) c cs, ts)
  | _ => none
partial def rdAOsN : Nat → Rd AOs
  | 0, ts => some (.nil, ts)
  | n + 1, op :: ts => do
    let (p, ts) ← rdPipeline ts
    let (r, ts) ← rdAOsN n ts
    pure (.cons (op = "&&".toList) p r, ts)
  | _, _ => none
partial def rdItemsN : Nat → Rd Items
  | 0, ts => some (.nil, ts)
  | n + 1, ['A'] :: ts => do
    let (k, ts) ← rdNat ts
    let (p, ts) ← rdPipeline ts
    let (more, ts) ← rdAOsN k ts
    match ts with
    | sep :: ts => do
      let (tail, ts) ← rdItemsN n ts
      pure (.cons p more (sep = ['&']) tail, ts)
    | _ => none
  | _, _ => none
partial def rdItems : Rd Items
  | ['L'] :: ts => do
    let (n, ts) ← rdNat ts
    rdItemsN n ts
  | _ => none
partial def rdCaseItemsN : Nat → Rd CaseItems
  | 0, ts => some (.nil, ts)
  | n + 1, ts => do
    let (k, ts) ← rdNat ts
    let (pats, ts) ← rdWords k ts
    let (hasBody, body, ts) ← (match ts with
      | ['-'] :: ts => some (false, Items.nil, ts)
      | ts => (rdItems ts).map (fun (l, ts) => (true, l, ts)))
    match ts with
    | post :: ts => do
      let (rest, ts) ← rdCaseItemsN n ts
      let pn := if post = ";;".toList then 0 else if post = ";&".toList then 1 else 2
      pure (.cons pats hasBody body pn rest, ts)
    | _ => none
partial def rdElsesN : Nat → Rd Elses
  | 0, ts => some (.nil, ts)
  | n + 1, ts => do
    let (hasCond, cond, ts) ← (match ts with
      | ['-'] :: ts => some (false, Items.nil, ts)
      | ts => (rdItems ts).map (fun (l, ts) => (true, l, ts)))
    let (body, ts) ← rdItems ts
    let (rest, ts) ← rdElsesN n ts
    pure (.cons hasCond cond body rest, ts)
partial def rdCompound : Rd Compound
  | ['c','a'] :: ts => do let (e, ts) ← rdWord ts; pure (.arith e, ts)
  | ['c','f'] :: ts => do
    let (i, ts) ← rdOpt ts
    let (c, ts) ← rdOpt ts
    let (u, ts) ← rdOpt ts
    let (l, ts) ← rdItems ts
    pure (.afor (optStr i) (optStr c) (optStr u) l, ts)
  | ['c','b'] :: ts => do let (l, ts) ← rdItems ts; pure (.brace l, ts)
  | ['c','s'] :: ts => do let (l, ts) ← rdItems ts; pure (.sub l, ts)
  | ['c','o'] :: ts => do
    let (v, ts) ← rdWord ts
    match ts with
    | ['-'] :: ts => do
      let (l, ts) ← rdItems ts
      pure (.forIn v false [] l, ts)
    | ts => do
      let (n, ts) ← rdNat ts
      let (ws, ts) ← rdWords n ts
      let (l, ts) ← rdItems ts
      pure (.forIn v true ws l, ts)
  | ['c','c'] :: ts => do
    let (w, ts) ← rdWord ts
    let (n, ts) ← rdNat ts
    let (items, ts) ← rdCaseItemsN n ts
    pure (.case w items, ts)
  | ['c','i'] :: ts => do
    let (cond, ts) ← rdItems ts
    let (thn, ts) ← rdItems ts
    let (n, ts) ← rdNat ts
    let (elses, ts) ← rdElsesN n ts
    pure (.ifC cond thn elses, ts)
  | ['c','w'] :: ts => do
    let (c, ts) ← rdItems ts
    let (b, ts) ← rdItems ts
    pure (.whileC false c b, ts)
  | ['c','u'] :: ts => do
    let (c, ts) ← rdItems ts
    let (b, ts) ← rdItems ts
    pure (.whileC true c b, ts)
  | ['c','p'] :: ts => do
    let (name, ts) ← rdOpt ts
    let (c, ts) ← rdCmd ts
    pure (.coproc name c, ts)
  | ['c','t'] :: ts => do
    let (n, ts) ← rdNat ts
    let (ws, ts) ← rdWords n ts
    pure (.test ws, ts)
  | _ => none
end

def handle (toks : List Str) : Str :=
  match rdCmd toks with
  | some (.fdef name c rs, []) =>
    -- P: `declare -f` text; X: exported text; W: what a child shell prints after importing X
    let w := if isBrace c then printFn name c rs
             else printFn name (.brace (.cons (.mk 0 false (.comp c rs) .nil) .nil false .nil)) .nil
    "P=".toList ++ esc (printFn name c rs) ++ " X=".toList ++ esc (exportText c rs) ++ " W=".toList ++ esc w
  | _ => "bad-request".toList

end BrushVerif.Drv.C14
