import BrushVerif.Drv.C04
/-! Driver for C05: same wire format and handler as C04 (`Drv/C04.lean`); C05 requests use mode `Kb`
(brush-mirroring model result, then the reference semantics `WordExp.specExpandB`). -/
namespace BrushVerif.Drv.C05
open BrushVerif.Wire

def handle (toks : List Str) : Str := BrushVerif.Drv.C04.handle toks

end BrushVerif.Drv.C05
