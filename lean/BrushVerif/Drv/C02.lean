import BrushVerif.Drv.FlowWire
import BrushVerif.Spec.FlowBash
import BrushVerif.Spec.FlowScope
/-! Driver for C02: `C02 <program wire>` →
`<impl status> <impl trace> | <bash-spec status> <trace> | D=<violated guard clauses or ->`. -/
namespace BrushVerif.Drv.C02
open BrushVerif.Wire BrushVerif.Flow BrushVerif.Drv.FlowWire BrushVerif.FlowScope

def handle (toks : List Str) : Str :=
  match pProg toks with
  | none => "bad-program".toList
  | some (fs, main) =>
    let cl := (progViol fs main).eraseDups.map (fun c => c.name.toList)
    showOut (runProgram 100000 fs main) ++ " | ".toList ++
      showOut (BrushVerif.FlowBash.runProgram 100000 fs main) ++ " | D=".toList ++
      (if cl.isEmpty then ['-'] else joinWith [','] cl)

end BrushVerif.Drv.C02
