import BrushVerif.Model.History
/-! Driver for C20: `C20 <op> <op> …` → per-op dump `F=<file> I=<items>` separated by `|`. -/
namespace BrushVerif.Drv.C20
open BrushVerif.Wire BrushVerif.History

def parseOp (t : Str) : Option Op :=
  match t with
  | 'a' :: 'd' :: 'd' :: ':' :: r => some (.add (unesc r))
  | 'h' :: 's' :: ':' :: r => some (.addS (unesc r))
  | ['a'] => some .saveA
  | ['w'] => some .saveW
  | ['x'] => some .exitNew
  | ['k'] => some .killNew
  | ['c'] => some .clear
  | ['t'] => some .toggleTs
  | 'd' :: ':' :: r => (parseInt? r).map .del
  | 'f' :: ':' :: r => some (.setFile (unesc r))
  | _ => none

def showItem (i : Item) : Str :=
  esc i.cmd ++ [':'] ++ (if i.dirty then ['d'] else ['c']) ++ [':'] ++
    (match i.ts with | some t => intToStr t | none => ['-'])

def dump (s : St) : Str :=
  "F=".toList ++ esc s.file ++ " I=".toList ++ joinWith [','] (s.hist.map showItem)

def runDump : St → List Op → List Str
  | _, [] => []
  | s, op :: ops => let s' := step s op; dump s' :: runDump s' ops

/-- `X` / `K`: leave (saving / without saving) and start the next session with `HISTTIMEFORMAT` already set when
the shell is constructed — for the model the same as starting it and switching timestamps on at once (loading
the file does not depend on the setting); one dump for the pair. -/
def parseOps (t : Str) : Option (List Op) :=
  match t with
  | ['X'] => some [.exitNew, .toggleTs]
  | ['K'] => some [.killNew, .toggleTs]
  | _ => (parseOp t).map fun o => [o]

def runGroups : St → List (List Op) → List Str
  | _, [] => []
  | s, g :: gs => let s' := g.foldl step s; dump s' :: runGroups s' gs

def handle (toks : List Str) : Str :=
  match toks.mapM parseOps with
  | none => "bad-op".toList
  | some gs => joinWith " | ".toList (runGroups init gs)

end BrushVerif.Drv.C20
