import BrushVerif.Model.ParamOps
import BrushVerif.Spec.ParamOps
import BrushVerif.Model.Pattern
import BrushVerif.Spec.Glob
import BrushVerif.Model.ParamSubst
import BrushVerif.Spec.ParamSubst
/-!
Driver for C06.

Request tokens: `<nounset 0|1> <param…> <op…>`
  param:  `N <val>` | `N!` | `E <val>` | `E!1` | `E!0` | `D <val>` | `D!` |
          `A@ <k> v1 … vk` | `A* <k> …` | `P@ <k> …` | `P* <k> …`
  op:     `plain` | `len` | `sub <off> <len|->` | `t <-|=|?|+> <colon 0|1> <word>` |
          `rm <#|##|%|%%> <pat|!>`
  pat:    escaped string over `L<c>` literal, `Q` = `?`, `S` = `*`, `B+<chars>;` / `B-<chars>;` bracket
Response: `<impl> | <spec> | <clauses>` where impl/spec are `OK f1 … ;S v` / `ERR ;U` / `PANIC ;N` …
(same format as harness/src/bin/c06.rs) and clauses is `-` or a comma-separated list of the
domain guards of the `_partial` theorems the case falls outside of.
-/
namespace BrushVerif.Drv.C06
open BrushVerif.Wire BrushVerif.ParamOps BrushVerif.ParamSpec BrushVerif.ParamSubst BrushVerif.SubstSpec

def parsePatGo : Nat → Str → Option Pat
  | 0, _ => none
  | _ + 1, [] => some []
  | f + 1, 'L' :: c :: r => (parsePatGo f r).map (PElem.lit c :: ·)
  | f + 1, 'Q' :: r => (parsePatGo f r).map (PElem.any :: ·)
  | f + 1, 'S' :: r => (parsePatGo f r).map (PElem.star :: ·)
  | f + 1, 'B' :: sign :: r =>
    let cs := r.takeWhile (· != ';')
    (parsePatGo f (r.drop (cs.length + 1))).map (PElem.set (sign == '-') cs :: ·)
  | _ + 1, _ => none

def parsePat (s : Str) : Option Pat := parsePatGo (s.length + 1) s

def parseParam : List Str → Option (Param × List Str)
  | ['N'] :: v :: r => some (.named (some (unesc v)), r)
  | ['N', '!'] :: r => some (.named none, r)
  | ['E'] :: v :: r => some (.elem (some (unesc v)) true, r)
  | ['E', '!', '1'] :: r => some (.elem none true, r)
  | ['E', '!', '0'] :: r => some (.elem none false, r)
  | ['D'] :: v :: r => some (.pos (some (unesc v)), r)
  | ['D', '!'] :: r => some (.pos none, r)
  | [k, st] :: n :: r =>
    match parseNat? n with
    | none => none
    | some cnt =>
      let vals := (r.take cnt).map unesc
      let rest := r.drop cnt
      let star := st == '*'
      if k == 'A' then some (.all vals star, rest)
      else if k == 'P' then some (.posAll vals star, rest)
      else none
  | _ => none

def parseOp (t : List Str) : Option (Op × Option Pat) :=
  match t with
  | [w] => if w = "plain".toList then some (.plain, none) else if w = "len".toList then some (.len, none) else none
  | [w, o, l] =>
    if w = "sub".toList then
      match parseInt? o with
      | none => none
      | some off =>
        if l = ['-'] then some (.sub off none, none)
        else (parseInt? l).map (fun lv => (.sub off (some lv), none))
    else if w = "rm".toList then
      let kind? : Option RmKind :=
        if o = ['#'] then some ⟨false, false⟩ else if o = ['#', '#'] then some ⟨false, true⟩
        else if o = ['%'] then some ⟨true, false⟩ else if o = ['%', '%'] then some ⟨true, true⟩ else none
      match kind? with
      | none => none
      | some kind =>
        if l = ['!'] then some (.rm kind false, none)
        else (parsePat (unesc l)).map (fun pat => (.rm kind true, some pat))
    else none
  | [w, k, c, wd] =>
    if w = ['t'] then
      let op? : Option TestOp :=
        if k = ['-'] then some .useDefault else if k = ['='] then some .assignDefault
        else if k = ['?'] then some .errorIfUnset else if k = ['+'] then some .useAlternative else none
      op?.map (fun op => (.test op (c = ['1']) (unesc wd), none))
    else none
  | _ => none

def showRes (r : Res) : Str :=
  match r with
  | .ok e => joinWith [' '] ("OK".toList :: (quotedFields e).map esc)
  | .err => "ERR".toList
  | .panic => "PANIC".toList

/-- value of the probed parameter afterwards -/
def showProbe (p : Param) (o : Outcome) : Str :=
  match p with
  | .named v | .elem v _ =>
    match o.assigned, v with
    | some w, _ => ";S ".toList ++ esc w
    | none, some s => ";S ".toList ++ esc s
    | none, none => ";U".toList
  | _ => ";N".toList

def showOutcome (p : Param) (o : Outcome) : Str := showRes o.res ++ [' '] ++ showProbe p o

/-- the recorded defects a case can still show (the operators modelled here have none left; an
extglob `!(…)` group is C08's `extglob_negation_not_complement`) -/
def clauses (_p : Param) (_pat : Option Pat) : Op → List String
  | _ => []

def rmKind? (o : Str) : Option RmKind :=
  if o = ['#'] then some ⟨false, false⟩ else if o = ['#', '#'] then some ⟨false, true⟩
  else if o = ['%'] then some ⟨true, false⟩ else if o = ['%', '%'] then some ⟨true, true⟩ else none

/-- `rmx <#|##|%|%%> <pattern text>`: removal with an extglob pattern given as shell text
(`shopt -s extglob`).  The abstract matcher of the removal loops is instantiated with C08's model
of brush's pattern → regex translation and backtracking semantics (`Pattern.exactlyMatches`); the
reference side uses C08's bash matching relation (`Glob.matchB` on `Glob.specParse`).
`uncovered` when the pattern text is outside the fragment those models speak about. -/
def handleRmx (p : Param) (nounset : Bool) (k : RmKind) (ptxt : Str) : Str :=
  match BrushVerif.Glob.specParse true ptxt with
  | none => "uncovered".toList
  | some q =>
    let bp := BrushVerif.Pattern.parsePat true ptxt
    if bp.backslashAlnum || bp.setOp || bp.caretFirst then "uncovered".toList else
    let mI := BrushVerif.Pattern.exactlyMatches true false ptxt
    let mS := BrushVerif.Glob.matchB false q
    let op := Op.rm k true
    let i := expandExpr p nounset mI op
    let s := bashExpr p nounset mS op
    let cl : List String := if bp.hasBang then ["extglob_negation_not_complement"] else []
    showOutcome p i ++ " | ".toList ++ showOutcome p s ++ " | ".toList ++
      (if cl.isEmpty then ['-'] else (String.intercalate "," cl).toList)

/-- `IND <ok|unset|empty|bad> <target param…> <op…>`: the operator through a reference `${!r…}`.
`ok`: `r` holds the text of the target parameter; `unset` / `empty`: `r` has no / an empty value;
`bad`: `r` holds text that is not a parameter.  The probe reports the *target* afterwards. -/
def handleInd (nounset : Bool) (refState : Str) (target : Param) (opToks : List Str) : Str :=
  match parseOp opToks with
  | none => "bad-op".toList
  | some (op, pat) =>
    let pt := pat.getD []
    let tname : Str := ['t']
    let ok := refState = "ok".toList
    let ref : Param :=
      if ok then .named (some tname)
      else if refState = "unset".toList then .named none
      else if refState = "empty".toList then .named (some [])
      else .named (some "1x".toList)
    let env : Str → Option Param := fun n => if n = tname then some target else none
    let i := expandExprInd ref env nounset (globMatch pt) op
    let s := bashExprInd (if ok then some target else none) nounset (globMatch pt) op
    let cl : List String :=
      (match op with
        | .test .assignDefault colon _ =>
          -- what remains of the `=`-through-a-reference defect: an element target is assigned, bash refuses it
          (match target with
            | .elem _ _ =>
              if ok && posixTable .assignDefault colon (bashState target) = .assign
              then ["indirect_assign_element_target_accepted"] else []
            | _ => [])
        | .sub _ _ =>
          (match target with
            | .posAll _ _ => if ok then ["indirect_positional_slice_without_argv0"] else []
            | _ => [])
        | _ => [])
    showOutcome target i ++ " | ".toList ++ showOutcome target s ++
      " | ".toList ++ (if cl.isEmpty then ['-'] else (String.intercalate "," cl).toList)


/-! ## pattern substitution, case modification, value transforms

`rp <ext 0|1> </|//|/#|/%> <i|v> <pattern text> <atoms>` — atoms over `L<c>` (a literal character) and `A`
(an unquoted `&`).  Style `i`: the replacement is written inline (`\&` for a literal `&`, `\\` for a
backslash): brush's expanded replacement holds the bare characters.  Style `v`: the replacement is
`$r` with `r` holding bash's template text (`\&`, `\\`, `&`): brush's expanded replacement is that text.
`cm <^|^^|,|,,> <pattern text|!>`, `tr <U|L|u>`.
The engine is C08's model of the regex brush builds (`Re.run`: backtracking order), the reference
matcher C08's bash matching relation. -/

def parseAtoms : Str → Option (List RAtom)
  | [] => some []
  | 'A' :: r => (parseAtoms r).map (RAtom.amp :: ·)
  | 'L' :: c :: r => (parseAtoms r).map (RAtom.lit c :: ·)
  | _ => none

def engineOf (ext : Bool) (ptxt : Str) : Engine :=
  let re := BrushVerif.Pattern.toRe (BrushVerif.Pattern.parsePat ext ptxt)
  fun t => (re.run false t).map (fun r => t.length - r.length)

def isAscii (c : Char) : Bool := c.toNat < 128
/-- Latin-1 letters with a one-to-one mapping inside Latin-1 -/
def lat1Lower (c : Char) : Bool := 0xE0 ≤ c.toNat && c.toNat ≤ 0xFE && c.toNat != 0xF7
def lat1Upper (c : Char) : Bool := 0xC0 ≤ c.toNat && c.toNat ≤ 0xDE && c.toNat != 0xD7

/-- `char::to_uppercase` on ASCII and Latin-1 -/
def drvUp (c : Char) : Str :=
  if isAscii c then asciiUp c
  else if lat1Lower c then [Char.ofNat (c.toNat - 32)]
  else if c == 'ß' then ['S', 'S']
  else if c == 'ÿ' then ['Ÿ']
  else if c == 'µ' then ['Μ']
  else [c]
def drvLow (c : Char) : Str :=
  if isAscii c then asciiLow c
  else if lat1Upper c then [Char.ofNat (c.toNat + 32)]
  else [c]
/-- `towupper` / `towlower` (glibc, C.UTF-8) on the same range: one character to one -/
def up1 (c : Char) : Char := if c == 'ß' then c else (drvUp c).headD c
def low1 (c : Char) : Char := (drvLow c).headD c
def caseCovered (c : Char) : Bool := c.toNat < 256

def fieldsOf (p : Param) : List Str :=
  match expandParam p false false with
  | some e => if e.undefined then [] else e.fields
  | none => []

/-- an operator that maps every field: brush (`transform_expansion`) applies it to the one empty
field of an unset parameter too; bash leaves an unset parameter alone -/
def mapOutcome (p : Param) (nounset : Bool) (f : Str → Str) (spec : Bool) : Outcome :=
  match expandParam p false nounset with
  | some e => { res := .ok (if spec && e.undefined then e else mapFields e f) }
  | none => { res := .err }

def showBoth (p : Param) (i s : Outcome) (cl : List String) : Str :=
  showOutcome p i ++ " | ".toList ++ showOutcome p s ++ " | ".toList ++
    (if cl.isEmpty then ['-'] else (String.intercalate "," cl).toList)

def matchKind? (o : Str) : Option MatchKind :=
  if o = ['/'] then some .first else if o = ['/', '/'] then some .all
  else if o = ['/', '#'] then some .atStart else if o = ['/', '%'] then some .atEnd else none

def patCovered (ext : Bool) (ptxt : Str) : Option (BrushVerif.Pattern.Pat × BrushVerif.Pattern.Pat) :=
  match BrushVerif.Glob.specParse ext ptxt with
  | none => none
  | some q =>
    let bp := BrushVerif.Pattern.parsePat ext ptxt
    if bp.backslashAlnum || bp.setOp || bp.caretFirst then none else some (q, bp)

def handleRp (p : Param) (nounset ext : Bool) (k : MatchKind) (inline : Bool) (ptxt : Str) (r : List RAtom) : Str :=
  match patCovered ext ptxt with
  | none => "uncovered".toList
  | some (q, bp) =>
    let tpl := brushTpl inline r
    let e := engineOf ext ptxt
    let mS := BrushVerif.Glob.matchB false q
    let i := mapOutcome p nounset (patSub e tpl k) false
    let s := mapOutcome p nounset (specReplace mS (specRep r) k) true
    let vals := fieldsOf p
    let cl : List String :=
      (if bp.hasBang then ["extglob_negation_not_complement"] else []) ++
      (if mS [] then ["replace_empty_match_differs"] else []) ++
      (if vals.all (agreeOn e mS) then [] else ["replace_alternation_leftmost_first"]) ++
      (if r.any (fun a => a == .amp) || (!inline && r.any (fun a => a == .lit '&' || a == .lit '\\'))
        then ["replace_ampersand_not_matched_text"] else [])
    showBoth p i s cl

def handleCm (p : Param) (nounset : Bool) (form : Str) (ptxt : Option Str) : Str :=
  let upper := form.head? == some '^'
  let all := form.length == 2
  let vals := fieldsOf p
  if !(vals.all (·.all caseCovered)) then "uncovered".toList else
  let f := if upper then drvUp else drvLow
  let f1 := if upper then up1 else low1
  let multi : List String :=
    if vals.any (·.any (fun c => (f c).length != 1)) then ["casemod_multichar_case_mapping"] else []
  match ptxt with
  | none =>
    let i := mapOutcome p nounset (if all then caseAll f none else caseFirst f (fun _ => true)) false
    let s := mapOutcome p nounset (if all then specCaseAll f1 none else specCaseFirst f1 none) true
    showBoth p i s multi
  | some pt =>
    match patCovered false pt with
    | none => "uncovered".toList
    | some (q, _) =>
      let e := engineOf false pt
      let mS := BrushVerif.Glob.matchB false q
      let mI := BrushVerif.Pattern.exactlyMatches false false pt
      -- an empty pattern is "no pattern" on both sides
      let i := mapOutcome p nounset
        (if all then caseAll f (if pt.isEmpty then none else some e)
         else caseFirst f (fun c => pt.isEmpty || mI [c])) false
      let s := mapOutcome p nounset
        (if all then specCaseAll f1 (if pt.isEmpty then none else some mS)
         else specCaseFirst f1 (if pt.isEmpty then none else some mS)) true
      let cl := multi ++
        (if all && !pt.isEmpty && !(vals.all (singleOn e mS)) then ["casemod_pattern_matches_substrings"] else [])
      showBoth p i s cl

def handleTr (p : Param) (nounset : Bool) (t : Str) : Str :=
  let vals := fieldsOf p
  if !(vals.all (·.all caseCovered)) then "uncovered".toList else
  let multi (f : Char → Str) : List String :=
    if vals.any (·.any (fun c => (f c).length != 1)) then ["casemod_multichar_case_mapping"] else []
  if t = ['U'] then
    showBoth p (mapOutcome p nounset (mapCase drvUp) false) (mapOutcome p nounset (specCaseAll up1 none) true) (multi drvUp)
  else if t = ['L'] then
    showBoth p (mapOutcome p nounset (mapCase drvLow) false) (mapOutcome p nounset (specCaseAll low1 none) true) (multi drvLow)
  else if t = ['u'] then
    let later (s : Str) : Bool := (initialCaps drvUp s) != (match s with | [] => [] | c :: r => drvUp c ++ r)
    showBoth p (mapOutcome p nounset (initialCaps drvUp) false) (mapOutcome p nounset (specCapitalize up1) true)
      ((if vals.any later then ["at_u_capitalizes_every_word"] else []) ++ multi drvUp)
  else "bad-op".toList

def handleSubst (p : Param) (nounset : Bool) (opToks : List Str) : Option Str :=
  match opToks with
  | [w, ext, kd, st, pt, atm] =>
    if w = "rp".toList then
      match matchKind? kd, parseAtoms (unesc atm) with
      | some k, some r => some (handleRp p nounset (ext = ['1']) k (st = ['i']) (unesc pt) r)
      | _, _ => some "bad-op".toList
    else none
  | [w, form, pt] =>
    if w = "cm".toList then some (handleCm p nounset form (if pt = ['!'] then none else some (unesc pt)))
    else none
  | [w, t] => if w = "tr".toList then some (handleTr p nounset t) else none
  | _ => none

def handle (toks : List Str) : Str :=
  match toks with
  | nu :: ind :: rs :: rest =>
    if ind = "IND".toList then
      match parseParam rest with
      | none => "bad-param".toList
      | some (t, opToks) => handleInd (nu = ['1']) rs t opToks
    else handleDirect nu (ind :: rs :: rest)
  | nu :: rest => handleDirect nu rest
  | _ => "bad-request".toList
where
  handleDirect (nu : Str) (rest : List Str) : Str :=
    match parseParam rest with
    | none => "bad-param".toList
    | some (p, [w, o, l]) =>
      if w = "cm".toList then (handleSubst p (nu = ['1']) [w, o, l]).getD "bad-op".toList
      else if w = "rmx".toList then
        match rmKind? o with
        | some k => handleRmx p (nu = ['1']) k (unesc l)
        | none => "bad-op".toList
      else handleStd p (nu = ['1']) [w, o, l]
    | some (p, opToks) =>
      match handleSubst p (nu = ['1']) opToks with
      | some r => r
      | none => handleStd p (nu = ['1']) opToks
  handleStd (p : Param) (nounset : Bool) (opToks : List Str) : Str :=
      match parseOp opToks with
      | none => "bad-op".toList
      | some (op, pat) =>
        let pt := pat.getD []
        let i := expandExpr p nounset (globMatch pt) op
        let s := bashExpr p nounset (globMatch pt) op
        let cl := clauses p pat op
        showOutcome p i ++ " | ".toList ++ showOutcome p s ++ " | ".toList ++
          (if cl.isEmpty then ['-'] else (String.intercalate "," cl).toList)

end BrushVerif.Drv.C06
