import BrushVerif.Model.Flow
/-! Wire parser for control-flow programs (prefix tokens; see tools/flowgen.py `wire`). -/
namespace BrushVerif.Drv.FlowWire
open BrushVerif.Wire BrushVerif.Flow

def optInt (t : Str) : Option (Option Int) :=
  if t = ['-'] then some none else (parseInt? t).map some

def takeNats : Nat → List Str → Option (List Nat × List Str)
  | 0, ts => some ([], ts)
  | n + 1, t :: ts =>
    match parseNat? t, takeNats n ts with
    | some v, some (vs, r) => some (v :: vs, r)
    | _, _ => none
  | _ + 1, [] => none

mutual
def pCmd : Nat → List Str → Option (Cmd × List Str)
  | 0, _ => none
  | fuel + 1, t :: ts =>
    let k := String.ofList t
    if k = "L" then
      match ts with
      | a :: b :: r =>
        match parseNat? a, parseNat? b with
        | some id, some n => (takeNats n r).map (fun (cs, r') => (.leaf id cs, r'))
        | _, _ => none
      | _ => none
    else if k = "P" then some (.probe, ts)
    else if k = "S" then
      match ts with
      | a :: r => match parseNat? a with
        | some n => (pCmds fuel n r).map (fun (cs, r') => (.seq cs, r'))
        | none => none
      | _ => none
    else if k = "A" then
      match pCmd fuel ts with
      | some (first, a :: r) =>
        match parseNat? a with
        | some n => (pAOs fuel n r).map (fun (ao, r') => (.andOr first ao, r'))
        | none => none
      | _ => none
    else if k = "N" then (pCmd fuel ts).map (fun (c, r) => (.bang c, r))
    else if k = "Gr" then (pCmd fuel ts).map (fun (c, r) => (.group c, r))
    else if k = "Su" then (pCmd fuel ts).map (fun (c, r) => (.subshell c, r))
    else if k = "I" then
      match pCmd fuel ts with
      | some (c, r) => (pCmd fuel r).map (fun (t, r') => (.if1 c t, r'))
      | none => none
    else if k = "J" then
      match pCmd fuel ts with
      | some (c, r) =>
        match pCmd fuel r with
        | some (t, r') => (pCmd fuel r').map (fun (e, r'') => (.if2 c t e, r''))
        | none => none
      | none => none
    else if k = "W" ∨ k = "U" then
      match pCmd fuel ts with
      | some (c, r) => (pCmd fuel r).map (fun (b, r') => (.whileU (k = "U") c b, r'))
      | none => none
    else if k = "F" ∨ k = "G" then
      match ts with
      | a :: r => match parseNat? a with
        | some n => (pCmd fuel r).map (fun (b, r') => (.forIn n b, r'))
        | none => none
      | _ => none
    else if k = "C" then
      match ts with
      | a :: r => match parseNat? a with
        | some n => (pArms fuel n r).map (fun (as, r') => (.case as, r'))
        | none => none
      | _ => none
    else if k = "K" then
      match ts with
      | a :: r => (parseNat? a).map (fun f => (.call f, r))
      | _ => none
    else if k = "B" then match ts with | a :: r => (optInt a).map (fun n => (.brk n, r)) | _ => none
    else if k = "Co" then match ts with | a :: r => (optInt a).map (fun n => (.cont n, r)) | _ => none
    else if k = "R" then match ts with | a :: r => (optInt a).map (fun n => (.ret n, r)) | _ => none
    else if k = "X" then match ts with | a :: r => (optInt a).map (fun n => (.exit n, r)) | _ => none
    else if k = "O" then
      match ts with
      | o :: v :: r =>
        if o = ['e'] then some (.setOpt .errexit (v = ['1']), r)
        else if o = ['p'] then some (.setOpt .pipefail (v = ['1']), r)
        else if o = ['i'] then some (.setOpt .inheritErrexit (v = ['1']), r)
        else if o = ['l'] then some (.setOpt .lastpipe (v = ['1']), r)
        else none
      | _ => none
    else if k = "Fa" then
      match ts with
      | a :: r =>
        let fk : Option FaultKind :=
          if a = ['r'] then some .readonlyAssign else if a = ['n'] then some .notFound
          else if a = ['d'] then some .redirFail else if a = ['b'] then some .tempBuiltin
          else if a = ['x'] then some .tempExternal else none
        fk.map (fun x => (.fault x, r))
      | _ => none
    else if k = "KT" then
      match ts with
      | a :: r => (parseNat? a).map (fun f => (.callT f, r))
      | _ => none
    else if k = "Cs" then (pCmd fuel ts).map (fun (c, r) => (.cmdsubst c, r))
    else if k = "Ev" then (pCmd fuel ts).map (fun (c, r) => (.evalC c, r))
    else if k = "Pi" then
      match ts with
      | a :: r =>
        match parseNat? a with
        | some n =>
          match takeNats n r with
          | some (cs, r') => (pCmd fuel r').map (fun (c, r'') => (.pipe cs c, r''))
          | none => none
        | none => none
      | _ => none
    else none
  | _ + 1, [] => none

def pCmds : Nat → Nat → List Str → Option (Cmds × List Str)
  | 0, _, _ => none
  | _ + 1, 0, ts => some (.nil, ts)
  | fuel + 1, n + 1, ts =>
    match pCmd fuel ts with
    | some (c, r) => (pCmds fuel n r).map (fun (cs, r') => (.cons c cs, r'))
    | none => none

def pAOs : Nat → Nat → List Str → Option (AOs × List Str)
  | 0, _, _ => none
  | _ + 1, 0, ts => some (.nil, ts)
  | fuel + 1, n + 1, op :: ts =>
    match pCmd fuel ts with
    | some (c, r) => (pAOs fuel n r).map (fun (cs, r') => (.cons (op = ['&']) c cs, r'))
    | none => none
  | _ + 1, _ + 1, [] => none

def pArms : Nat → Nat → List Str → Option (Arms × List Str)
  | 0, _, _ => none
  | _ + 1, 0, ts => some (.nil, ts)
  | fuel + 1, n + 1, m :: t :: ts =>
    let term := if t = ['f'] then Term.fallThrough else if t = ['c'] then Term.contTest else Term.exitCase
    match pCmd fuel ts with
    | some (c, r) => (pArms fuel n r).map (fun (cs, r') => (.cons (m = ['1']) c term cs, r'))
    | none => none
  | _ + 1, _ + 1, _ => none
end

def pFuncs : Nat → List Str → Option (List Cmd × List Str)
  | 0, ts => some ([], ts)
  | n + 1, ts =>
    match pCmd 100000 ts with
    | some (c, r) => (pFuncs n r).map (fun (cs, r') => (c :: cs, r'))
    | none => none

/-- `<nfuncs> <func>… <main>` -/
def pProg (ts : List Str) : Option (List Cmd × Cmd) :=
  match ts with
  | a :: r =>
    match parseNat? a with
    | some n =>
      match pFuncs n r with
      | some (fs, r') => match pCmd 100000 r' with
        | some (m, []) => some (fs, m)
        | _ => none
      | none => none
    | none => none
  | [] => none

def showTr : Tr → Str
  | .m id => 'm' :: natToStr id
  | .q st => '?' :: natToStr st

def showOut (o : Option (List Tr × Nat)) : Str :=
  match o with
  | none => "out-of-fuel".toList
  | some (tr, code) => natToStr code ++ [' '] ++ joinWith [','] (tr.map showTr)

end BrushVerif.Drv.FlowWire
